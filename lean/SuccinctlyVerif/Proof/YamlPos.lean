/-
Proof/YamlPos — helper lemmas for C17 (YAML position tables).
-/
import SuccinctlyVerif.Spec.Bits
import SuccinctlyVerif.Model.YamlPos
import SuccinctlyVerif.Proof.Scan
namespace SV.YamlPos
open SV SV.Scan

/-! ### word vectors as bit lists -/

theorem allBits_append (a b : List Word) : allBits (a ++ b) = allBits a ++ allBits b := by
  simp [allBits]

theorem sum_pc_eq_count {pc : Word → Nat} (hpc : ∀ w, pc w = popcount w) (ws : List Word) :
    (ws.map pc).sum = (allBits ws).count true := by
  rw [count_allBits]
  congr 1
  exact List.map_congr_left (fun w _ => hpc w)

theorem take_getD_drop (ws : List Word) (m : Nat) (hm : m < ws.length) :
    ws = ws.take m ++ ws.getD m 0 :: ws.drop (m + 1) := by
  rw [List.getD_eq_getElem?_getD, List.getElem?_eq_getElem hm, Option.getD_some]
  simp

theorem popcount_eq_count (w : Word) : popcount w = (wordBits w).count true := rfl

theorem selectB_wordBits_of_lt (w : Word) (r : Nat) (hr : r < popcount w) :
    selectB true (wordBits w) r = some (selectInWordSpec w r) := by
  have := selectB_isSome_of_lt true (wordBits w) r hr
  obtain ⟨x, hx⟩ := Option.isSome_iff_exists.mp this
  simp [selectInWordSpec, hx]

theorem select_at_word_aux (a c : List Word) (w : Word) (r : Nat) (hr : r < popcount w) :
    selectB true (allBits (a ++ w :: c)) ((allBits a).count true + r)
      = some (64 * a.length + selectInWordSpec w r) := by
  rw [allBits_append, allBits_cons, selectB_append]
  have h1 : ¬ ((allBits a).count true + r < (allBits a).count true) := by omega
  rw [if_neg h1, Nat.add_sub_cancel_left, selectB_append]
  have h2 : r < (wordBits w).count true := hr
  rw [if_pos h2, selectB_wordBits_of_lt _ _ hr, allBits_length]
  simp; omega

/-- The set bit of rank `(ones before word m) + r` is the `r`-th set bit of word `m`. -/
theorem select_at_word (ws : List Word) (m : Nat) (hm : m < ws.length) (r : Nat)
    (hr : r < popcount (ws.getD m 0)) :
    selectB true (allBits ws) ((allBits (ws.take m)).count true + r)
      = some (64 * m + selectInWordSpec (ws.getD m 0) r) := by
  have h := select_at_word_aux (ws.take m) (ws.drop (m + 1)) (ws.getD m 0) r hr
  rw [← take_getD_drop ws m hm, List.length_take, Nat.min_eq_left (by omega)] at h
  exact h

/-! ### the plain scan, with the ones-before count -/

theorem scanScalar_some {pc : Word → Nat} (ws : List Word) (off rem i r : Nat)
    (h : scanScalar pc ws off rem = some (i, r)) :
    off ≤ i ∧ i - off < ws.length ∧ r < pc (ws.getD (i - off) 0) ∧
      rem = ((ws.take (i - off)).map pc).sum + r := by
  induction ws generalizing off rem with
  | nil => simp [scanScalar] at h
  | cons w ws ih =>
    simp only [scanScalar] at h
    by_cases hw : pc w > rem
    · simp only [hw, if_true, Option.some.injEq, Prod.mk.injEq] at h
      obtain ⟨rfl, rfl⟩ := h
      simp; omega
    · simp only [hw, if_false] at h
      obtain ⟨h1, h2, h3, h4⟩ := ih (off + 1) (rem - pc w) h
      have hi : i - off = (i - (off + 1)) + 1 := by omega
      refine ⟨by omega, by simp; omega, ?_, ?_⟩
      · rw [hi, List.getD_cons_succ]; exact h3
      · rw [hi, List.take_succ_cons, List.map_cons, List.sum_cons]; omega

theorem scanScalar_none' {pc : Word → Nat} (ws : List Word) (off rem : Nat)
    (h : scanScalar pc ws off rem = none) : (ws.map pc).sum ≤ rem := by
  by_cases hlt : (ws.map pc).sum > rem
  · have := scanScalar_isSome pc ws off rem hlt
    rw [h] at this; simp at this
  · omega

/-- Forward scan from word `wi` knowing the number `ob` of ones before it (the cursor invariant):
the answer `(w', r)` locates the `k`-th set bit, and `k - r` is again the ones-before count of
word `w'`. -/
theorem scan_from {pc : Word → Nat} (hpc : ∀ w, pc w = popcount w) (ws : List Word) (wi k : Nat)
    (hk : (allBits (ws.take wi)).count true ≤ k) :
    match scanScalar pc (ws.drop wi) wi (k - (allBits (ws.take wi)).count true) with
    | some (w', r) => wi ≤ w' ∧ w' < ws.length ∧ r < popcount (ws.getD w' 0) ∧
        r ≤ k ∧ k - r = (allBits (ws.take w')).count true ∧
        selectB true (allBits ws) k = some (64 * w' + selectInWordSpec (ws.getD w' 0) r)
    | none => selectB true (allBits ws) k = none := by
  cases hs : scanScalar pc (ws.drop wi) wi (k - (allBits (ws.take wi)).count true) with
  | none =>
    have h1 := scanScalar_none' _ _ _ hs
    rw [sum_pc_eq_count hpc] at h1
    apply selectB_none_of_count_le
    have : allBits ws = allBits (ws.take wi) ++ allBits (ws.drop wi) := by
      rw [← allBits_append, List.take_append_drop]
    rw [this, List.count_append]; omega
  | some p =>
    obtain ⟨w', r⟩ := p
    obtain ⟨h1, h2, h3, h4⟩ := scanScalar_some _ _ _ _ _ hs
    simp only [List.length_drop] at h2
    have hw' : w' < ws.length := by omega
    have hget : (ws.drop wi).getD (w' - wi) 0 = ws.getD w' 0 := by
      simp only [List.getD_eq_getElem?_getD, List.getElem?_drop]
      congr 2; omega
    rw [hget, hpc] at h3
    have htake : ((ws.drop wi).take (w' - wi)).map pc = ((ws.take w').drop wi).map pc := by
      rw [List.drop_take]
    have hcount : (allBits (ws.take w')).count true
        = (allBits (ws.take wi)).count true + (((ws.drop wi).take (w' - wi)).map pc).sum := by
      have e : ws.take w' = ws.take wi ++ (ws.drop wi).take (w' - wi) := by
        rw [← List.take_add]; congr 1; omega
      rw [e, allBits_append, List.count_append, sum_pc_eq_count hpc]
    have hk' : k = (allBits (ws.take w')).count true + r := by omega
    refine ⟨h1, hw', h3, by omega, by omega, ?_⟩
    rw [hk']
    exact select_at_word ws w' hw' r h3

/-! ### masks -/

theorem getLsbD_lowMask (b i : Nat) (hb : b < 64) : (lowMask b).getLsbD i = decide (i < b) := by
  unfold lowMask
  rw [BitVec.getLsbD, BitVec.toNat_sub]
  have h1 : (1#64 <<< b).toNat = 2 ^ b := by
    rw [BitVec.toNat_shiftLeft]
    simp
    rw [Nat.shiftLeft_eq, Nat.one_mul]
    exact Nat.mod_eq_of_lt (Nat.pow_lt_pow_right (by omega) hb)
  rw [h1]
  have hlt : 2 ^ b < 2 ^ 64 := Nat.pow_lt_pow_right (by omega) hb
  have hpos : 0 < 2 ^ b := Nat.pow_pos (by omega)
  have h2 : (2 ^ 64 - BitVec.toNat (1 : BitVec 64) + 2 ^ b) % 2 ^ 64 = 2 ^ b - 1 := by
    have : BitVec.toNat (1 : BitVec 64) = 1 := by decide
    rw [this]; omega
  rw [h2, Nat.testBit_two_pow_sub_one]

theorem wordBits_getElem (w : Word) (i : Nat) (h : i < (wordBits w).length) : (wordBits w)[i] = w.getLsbD i := by
  simp [wordBits]

theorem wordBits_and_lowMask (x : Word) (b : Nat) (hb : b < 64) :
    wordBits (x &&& lowMask b) = (wordBits x).take b ++ List.replicate (64 - b) false := by
  apply List.ext_getElem
  · simp [wordBits]; omega
  · intro i h1 h2
    rw [wordBits_getElem, BitVec.getLsbD_and, getLsbD_lowMask _ _ hb]
    rw [List.getElem_append]
    by_cases hi : i < b
    · simp [hi, wordBits]
      intro; omega
    · simp [hi, wordBits]
      intro h; omega

theorem wordBits_and_not_lowMask (x : Word) (b : Nat) (hb : b < 64) :
    wordBits (x &&& ~~~ lowMask b) = List.replicate b false ++ (wordBits x).drop b := by
  apply List.ext_getElem
  · simp [wordBits]; omega
  · intro i h1 h2
    have hi64 : i < 64 := by simpa [wordBits] using h1
    rw [wordBits_getElem, BitVec.getLsbD_and, BitVec.getLsbD_not, getLsbD_lowMask _ _ hb]
    rw [List.getElem_append]
    by_cases hi : i < b
    · simp [hi, wordBits]
    · simp [hi, wordBits, hi64]
      congr 1; omega

/-! ### rank over word vectors -/

theorem rankB_allBits (ws : List Word) (pos : Nat) (h : pos / 64 < ws.length) :
    rankB true (allBits ws) pos
      = (allBits (ws.take (pos / 64))).count true
        + ((wordBits (ws.getD (pos / 64) 0)).take (pos % 64)).count true := by
  have hsplit := take_getD_drop ws (pos / 64) h
  have hlen : (allBits (ws.take (pos / 64))).length = 64 * (pos / 64) := by
    rw [allBits_length, List.length_take]; congr 1; omega
  unfold rankB
  generalize hA : ws.take (pos / 64) = A at *
  generalize hw : ws.getD (pos / 64) 0 = w at *
  generalize hC : ws.drop (pos / 64 + 1) = C at *
  rw [hsplit, allBits_append, allBits_cons, List.take_append, hlen]
  have e1 : pos - 64 * (pos / 64) = pos % 64 := by omega
  have e2 : List.take pos (allBits A) = allBits A := by
    apply List.take_of_length_le; omega
  rw [e1, e2, List.count_append, List.take_append, wordBits_length]
  have e3 : pos % 64 - 64 = 0 := by omega
  rw [e3]; simp

theorem rankB_allBits_ge (ws : List Word) (pos : Nat) (h : ws.length ≤ pos / 64) :
    rankB true (allBits ws) pos = (allBits ws).count true := by
  unfold rankB
  rw [List.take_of_length_le]
  rw [allBits_length]; omega

theorem pc_and_lowMask {pc : Word → Nat} (hpc : ∀ w, pc w = popcount w) (x : Word) (b : Nat) (hb : b < 64) :
    pc (x &&& lowMask b) = ((wordBits x).take b).count true := by
  rw [hpc, popcount_eq_count, wordBits_and_lowMask x b hb, List.count_append]
  have : List.count true (List.replicate (64 - b) false) = 0 := by
    rw [List.count_replicate]; simp
  omega

theorem cumRankGo_getD (pc : Word → Nat) (ws : List Word) (c j : Nat) (hj : j < ws.length) :
    (cumRankGo pc ws c).getD j 0 = c + ((ws.take (j + 1)).map pc).sum := by
  induction ws generalizing c j with
  | nil => simp at hj
  | cons w ws ih =>
    cases j with
    | zero => simp [cumRankGo]
    | succ j =>
      simp only [cumRankGo, List.getD_cons_succ]
      rw [ih (c + pc w) j (by simpa using hj)]
      simp [List.take_succ_cons]; omega

theorem buildCumulativeRank_getD (pc : Word → Nat) (ws : List Word) (m : Nat) (hm : m ≤ ws.length) :
    (buildCumulativeRank pc ws).getD m 0 = ((ws.take m).map pc).sum := by
  cases m with
  | zero => simp [buildCumulativeRank]
  | succ m =>
    simp only [buildCumulativeRank, List.getD_cons_succ]
    rw [cumRankGo_getD pc ws 0 m (by omega)]; simp

/-- `advance_rank1` / `ib_rank1` compute the rank over the word vector, given its cumulative table. -/
theorem rank1_words {pc : Word → Nat} (hpc : ∀ w, pc w = popcount w) (ws : List Word) (pos : Nat) :
    (if pos = 0 then 0
     else
      let count := (buildCumulativeRank pc ws).getD (min (pos / 64) ws.length) 0
      if pos / 64 < ws.length ∧ pos % 64 > 0 then count + pc (ws.getD (pos / 64) 0 &&& lowMask (pos % 64))
      else count) = rankB true (allBits ws) pos := by
  by_cases h0 : pos = 0
  · subst h0; simp [rankB]
  · rw [if_neg h0]
    dsimp only
    rw [buildCumulativeRank_getD pc ws _ (Nat.min_le_right _ _), sum_pc_eq_count hpc]
    by_cases hw : pos / 64 < ws.length
    · rw [Nat.min_eq_left (by omega), rankB_allBits ws pos hw]
      by_cases hb : pos % 64 > 0
      · rw [if_pos ⟨hw, hb⟩, pc_and_lowMask hpc _ _ (Nat.mod_lt _ (by omega))]
      · have : pos % 64 = 0 := by omega
        rw [if_neg (by omega), this]; simp
    · rw [if_neg (by omega), Nat.min_eq_right (by omega), rankB_allBits_ge ws pos (by omega)]
      rw [List.take_of_length_le (Nat.le_refl _)]

theorem testBit_eq (ws : List Word) (pos : Nat) : testBit ws pos = (allBits ws).getD pos false := by
  unfold testBit
  by_cases h : pos / 64 < ws.length
  · have hsplit := take_getD_drop ws (pos / 64) h
    have hlen : (allBits (ws.take (pos / 64))).length = 64 * (pos / 64) := by
      rw [allBits_length, List.length_take]; congr 1; omega
    generalize hA : ws.take (pos / 64) = A at *
    generalize hw : ws.getD (pos / 64) 0 = w at *
    generalize hC : ws.drop (pos / 64 + 1) = C at *
    rw [hsplit, allBits_append, allBits_cons]
    rw [List.getD_eq_getElem?_getD, List.getElem?_append_right (by omega), hlen]
    have e1 : pos - 64 * (pos / 64) = pos % 64 := by omega
    rw [e1, List.getElem?_append_left (by rw [wordBits_length]; omega)]
    simp [wordBits, Nat.mod_lt]
  · have : (allBits ws).length ≤ pos := by rw [allBits_length]; omega
    rw [List.getD_eq_getElem?_getD, List.getD_eq_getElem?_getD, List.getElem?_eq_none this,
      List.getElem?_eq_none (by omega)]
    simp

theorem rankB_succ (bs : List Bool) (i : Nat) :
    rankB true bs (i + 1) = rankB true bs i + (if bs.getD i false then 1 else 0) := by
  unfold rankB
  by_cases h : i < bs.length
  · rw [List.take_add_one, List.count_append]
    simp [List.getD_eq_getElem?_getD, List.getElem?_eq_getElem h]
    cases bs[i] <;> simp
  · rw [List.take_of_length_le (by omega), List.take_of_length_le (by omega)]
    simp [List.getD_eq_getElem?_getD, List.getElem?_eq_none (show bs.length ≤ i by omega)]

theorem rankB_mono (bs : List Bool) {i j : Nat} (h : i ≤ j) : rankB true bs i ≤ rankB true bs j := by
  induction j with
  | zero => have : i = 0 := by omega
            subst this; exact Nat.le_refl _
  | succ j ih =>
    by_cases hij : i = j + 1
    · subst hij; exact Nat.le_refl _
    · have := ih (by omega)
      rw [rankB_succ]; omega

/-! ### select ↔ rank -/

theorem selectB_some_rank (bs : List Bool) (k p : Nat) (h : selectB true bs k = some p) :
    p < bs.length ∧ rankB true bs p = k ∧ bs.getD p false = true := by
  induction bs generalizing k p with
  | nil => simp [selectB] at h
  | cons x xs ih =>
    cases x with
    | true =>
      cases k with
      | zero =>
        simp [selectB] at h; subst h; simp [rankB]
      | succ k =>
        simp only [selectB, if_true] at h
        cases hs : selectB true xs k with
        | none => rw [hs] at h; simp at h
        | some q =>
          rw [hs] at h; simp at h; subst h
          obtain ⟨h1, h2, h3⟩ := ih k q hs
          refine ⟨by simp; omega, ?_, by simpa using h3⟩
          unfold rankB at *
          simp [List.take_succ_cons, h2]
    | false =>
      simp only [selectB] at h
      have : (false = true) = False := by simp
      simp only [this, if_false] at h
      cases hs : selectB true xs k with
      | none => rw [hs] at h; simp at h
      | some q =>
        rw [hs] at h; simp at h; subst h
        obtain ⟨h1, h2, h3⟩ := ih k q hs
        refine ⟨by simp; omega, ?_, by simpa using h3⟩
        unfold rankB at *
        simp [List.take_succ_cons, h2]

theorem rankB_le (bs : List Bool) (i : Nat) : rankB true bs i ≤ i := by
  unfold rankB
  have := List.count_le_length (a := true) (l := bs.take i)
  have := List.length_take_le i bs
  omega

theorem rankB_le_count (bs : List Bool) (i : Nat) : rankB true bs i ≤ bs.count true := by
  unfold rankB
  exact (List.take_sublist i bs).count_le true

/-! ### `ib_select1_with_state` -/

section Sel
variable {pc : Word → Nat} {siw : Word → Nat → Nat}

/-- Without a mask the loop is the plain scan, carrying `ones_before + remaining` as an invariant. -/
theorem ibSelLoop_nomask (l : List Word) (wi rem ob : Nat) :
    ibSelLoop pc siw l wi rem ob none =
      match scanScalar pc l wi rem with
      | some (w', r) => some (w' * 64 + siw (l.getD (w' - wi) 0) r, w', ob + rem - r)
      | none => none := by
  induction l generalizing wi rem ob with
  | nil => simp [ibSelLoop, scanScalar]
  | cons w l ih =>
    simp only [ibSelLoop, scanScalar]
    by_cases hw : pc w > rem
    · simp [hw]
    · simp only [hw, if_false]
      rw [ih]
      cases hs : scanScalar pc l (wi + 1) (rem - pc w) with
      | none => rfl
      | some p =>
        obtain ⟨w', r⟩ := p
        obtain ⟨h1, _, _, h4⟩ := scanScalar_some _ _ _ _ _ hs
        have hi : w' - wi = (w' - (wi + 1)) + 1 := by omega
        simp only [hi, List.getD_cons_succ]
        congr 3
        omega

theorem count_take_drop (bs : List Bool) (n : Nat) :
    (bs.take n).count true + (bs.drop n).count true = bs.count true := by
  rw [← List.count_append, List.take_append_drop]

/-- Masking off the bits below the sample bit = asking for a rank larger by the masked-off ones. -/
theorem ibSelLoop_mask (hpc : ∀ w, pc w = popcount w) (hsiw : ∀ w k, siw w k = selectInWordSpec w k)
    (full : Word) (rest : List Word) (wi rem ob off : Nat) (hoff : off < 64) :
    ibSelLoop pc siw (full :: rest) wi rem ob (some off) =
      ibSelLoop pc siw (full :: rest) wi (rem + pc (full &&& lowMask off)) ob none := by
  have hsplit : wordBits full = (wordBits full).take off ++ (wordBits full).drop off :=
    (List.take_append_drop _ _).symm
  have hlenA : ((wordBits full).take off).length = off := by
    rw [List.length_take, wordBits_length]; omega
  have hp : pc (full &&& lowMask off) = ((wordBits full).take off).count true := pc_and_lowMask hpc _ _ hoff
  have hmask := wordBits_and_not_lowMask full off hoff
  generalize (wordBits full).take off = A at *
  generalize (wordBits full).drop off = B at *
  have c0 : List.count true (List.replicate off false) = 0 := by rw [List.count_replicate]; simp
  have hfull : pc full = A.count true + B.count true := by
    rw [hpc, popcount_eq_count, hsplit, List.count_append]
  have hm : pc (full &&& ~~~ lowMask off) = B.count true := by
    rw [hpc, popcount_eq_count, hmask, List.count_append]; omega
  simp only [ibSelLoop]
  rw [hm, hp, hfull]
  by_cases hgt : B.count true > rem
  · have hgt' : A.count true + B.count true > rem + A.count true := by omega
    rw [if_pos hgt, if_pos hgt']
    congr 3
    rw [hsiw, hsiw]
    unfold selectInWordSpec
    rw [hmask, selectB_append, c0, if_neg (by omega), Nat.sub_zero, List.length_replicate]
    rw [hsplit, selectB_append, if_neg (by omega), Nat.add_sub_cancel, hlenA]
  · have hgt' : ¬ (A.count true + B.count true > rem + A.count true) := by omega
    rw [if_neg hgt, if_neg hgt']
    congr 1
    omega

end Sel
/-! ### the history-free table function, well-formed tables, the cursor invariant -/

/-- What the two bitmaps of a table denote, independently of any cursor: the set IB bit whose rank
is (number of advance bits among opens `0..=i`) − 1. -/
def tableFn (F : Flavor) (T : Table) (i : Nat) : Option Nat :=
  if i < T.numOpens then
    let c := rankB true (allBits T.advanceWords) (i + 1)
    if c = 0 then none else (selectB true (allBits T.ibWords) (c - 1)).map F.conv
  else none

/-- Facts about the auxiliary arrays of a table that `get` relies on (established by the builders). -/
structure WF (pc : Word → Nat) (rate : Nat) (T : Table) : Prop where
  arank : T.advanceRank = buildCumulativeRank pc T.advanceWords
  ones : T.ibOnes = (allBits T.ibWords).count true
  samples : ∀ s, s < T.ibSelectSamples.length →
    selectB true (allBits T.ibWords) (s * rate) = some (T.ibSelectSamples.getD s 0)
  small : T.numOpens < usizeMax

/-- The documented `SequentialCursor` invariants (`adv`, `ob`) plus consistency of the cached
last select (`cached`) and of the "uninitialised" marker (`fresh`). -/
structure SeqInv (F : Flavor) (T : Table) (c : Cursor) : Prop where
  adv : c.advCumulative = rankB true (allBits T.advanceWords) c.nextOpenIdx
  ob : c.ibOnesBefore = (allBits (T.ibWords.take c.ibWordIdx)).count true
  cached : c.lastIbArg ≠ usizeMax →
    (selectB true (allBits T.ibWords) c.lastIbArg).map F.conv = some (F.conv c.lastIbResult) ∧
    c.lastIbArg < c.advCumulative ∧ c.ibOnesBefore ≤ c.lastIbArg
  fresh : c.lastIbArg = usizeMax → c.ibWordIdx = 0

/-- What the proofs need from a flavor: its forward scan is the plain per-word scan and its result
cast is idempotent. -/
structure FlavorOk (pc : Word → Nat) (F : Flavor) : Prop where
  scan : ∀ ws wi rem, F.scan ws wi rem = scanScalar pc (ws.drop wi) wi rem
  conv : ∀ x, F.conv (F.conv x) = F.conv x

theorem openFlavor_ok (pc : Word → Nat) : FlavorOk pc (openFlavor pc) where
  scan := by
    intro ws wi rem
    show scanSelect pc ws wi rem = _
    rw [scanSelect_eq_scalar]
    unfold scanSelectScalar
    split
    · rename_i h; rw [List.drop_of_length_le h]; rfl
    · rfl
  conv := by intro x; simp [openFlavor]

theorem endFlavor_ok (pc : Word → Nat) : FlavorOk pc (endFlavor pc) where
  scan := by intro ws wi rem; rfl
  conv := by intro x; rfl

theorem seqInv_init (F : Flavor) (T : Table) : SeqInv F T Cursor.init where
  adv := by simp [Cursor.init, rankB]
  ob := by simp [Cursor.init, allBits]
  cached := by intro h; simp [Cursor.init] at h
  fresh := by intro _; rfl

section Machine
variable {pc : Word → Nat} {siw : Word → Nat → Nat} {rate : Nat} {F : Flavor}

theorem ibSelect_spec (hpc : ∀ w, pc w = popcount w) (hsiw : ∀ w k, siw w k = selectInWordSpec w k)
    {T : Table} (wf : WF pc rate T) (k : Nat) :
    match ibSelect1WithState pc siw rate T k with
    | some (pos, w, ob) => selectB true (allBits T.ibWords) k = some pos ∧
        ob = (allBits (T.ibWords.take w)).count true ∧ ob ≤ k
    | none => selectB true (allBits T.ibWords) k = none := by
  unfold ibSelect1WithState
  by_cases hk : k ≥ T.ibOnes
  · rw [if_pos hk]
    apply selectB_none_of_count_le
    rw [← wf.ones]; exact hk
  · rw [if_neg hk]
    dsimp only
    -- both branches reduce to the unmasked loop from a word `wi` with `ob` ones before it
    have key : ∀ wi ob, ob = (allBits (T.ibWords.take wi)).count true → ob ≤ k →
        match ibSelLoop pc siw (T.ibWords.drop wi) wi (k - ob) ob none with
        | some (pos, w, ob') => selectB true (allBits T.ibWords) k = some pos ∧
            ob' = (allBits (T.ibWords.take w)).count true ∧ ob' ≤ k
        | none => selectB true (allBits T.ibWords) k = none := by
      intro wi ob hob hle
      rw [ibSelLoop_nomask]
      have := scan_from hpc T.ibWords wi k (by omega)
      rw [← hob] at this
      cases hs : scanScalar pc (T.ibWords.drop wi) wi (k - ob) with
      | none => rw [hs] at this; exact this
      | some p =>
        obtain ⟨w', r⟩ := p
        rw [hs] at this
        obtain ⟨h1, h2, h3, h4, h5, h6⟩ := this
        have hget : (T.ibWords.drop wi).getD (w' - wi) 0 = T.ibWords.getD w' 0 := by
          simp only [List.getD_eq_getElem?_getD, List.getElem?_drop]
          congr 2; omega
        dsimp only
        rw [hget, hsiw, h6]
        refine ⟨by congr 1; omega, by omega, by omega⟩
    by_cases hs : k / rate < T.ibSelectSamples.length
    · rw [if_pos hs]
      have hsel := wf.samples _ hs
      obtain ⟨hlt, hrank, _⟩ := selectB_some_rank _ _ _ hsel
      rw [allBits_length] at hlt
      generalize T.ibSelectSamples.getD (k / rate) 0 = sp at *
      have hw : sp / 64 < T.ibWords.length := by omega
      have hoff : sp % 64 < 64 := Nat.mod_lt _ (by omega)
      rw [rankB_allBits _ _ hw, ← pc_and_lowMask hpc _ _ hoff] at hrank
      have hle : k / rate * rate ≤ k := Nat.div_mul_le_self k rate
      have hdrop : T.ibWords.drop (sp / 64) = T.ibWords.getD (sp / 64) 0 :: T.ibWords.drop (sp / 64 + 1) := by
        rw [List.getD_eq_getElem?_getD, List.getElem?_eq_getElem hw, Option.getD_some]
        exact List.drop_eq_getElem_cons hw
      have hmask := ibSelLoop_mask (siw := siw) hpc hsiw (T.ibWords.getD (sp / 64) 0)
        (T.ibWords.drop (sp / 64 + 1)) (sp / 64) (k - k / rate * rate)
        (k / rate * rate - pc (T.ibWords.getD (sp / 64) 0 &&& lowMask (sp % 64))) (sp % 64) hoff
      rw [hdrop, hmask, ← hdrop]
      have hob : k / rate * rate - pc (T.ibWords.getD (sp / 64) 0 &&& lowMask (sp % 64))
          = (allBits (T.ibWords.take (sp / 64))).count true := by omega
      have hrem : k - k / rate * rate + pc (T.ibWords.getD (sp / 64) 0 &&& lowMask (sp % 64))
          = k - (k / rate * rate - pc (T.ibWords.getD (sp / 64) 0 &&& lowMask (sp % 64))) := by omega
      rw [hrem]
      exact key _ _ hob (by omega)
    · rw [if_neg hs]
      have := key 0 0 (by simp [allBits]) (by omega)
      simpa using this

end Machine
section Machine2
variable {pc : Word → Nat} {siw : Word → Nat → Nat} {rate : Nat} {F : Flavor}

theorem advanceRank1_eq (hpc : ∀ w, pc w = popcount w) {T : Table} (wf : WF pc rate T) (pos : Nat) :
    advanceRank1 pc T pos = rankB true (allBits T.advanceWords) pos := by
  unfold advanceRank1
  rw [wf.arank]
  exact rank1_words hpc T.advanceWords pos

/-- `get_sequential` called with a cursor whose `next_open_idx` is the requested index. -/
theorem getSequential_spec (hpc : ∀ w, pc w = popcount w) (hsiw : ∀ w k, siw w k = selectInWordSpec w k)
    (hF : FlavorOk pc F) {T : Table} (wf : WF pc rate T) {c : Cursor} (inv : SeqInv F T c) (i : Nat)
    (hi : c.nextOpenIdx = i) :
    (getSequential siw F T i c).1 = .val (tableFn F T i) ∧
    ∀ c', (getSequential siw F T i c).2 = some c' → SeqInv F T c' := by
  unfold getSequential tableFn
  by_cases hn : i ≥ T.numOpens
  · rw [if_pos hn, if_neg (show ¬ i < T.numOpens by omega)]
    exact ⟨rfl, by intro c' h; simp at h⟩
  · rw [if_neg hn, if_pos (show i < T.numOpens by omega)]
    -- the advance bit
    have hbit : (if i / 64 < T.advanceWords.length then
          (if (T.advanceWords.getD (i / 64) 0).getLsbD (i % 64) then 1 else 0) else 0)
        = (if (allBits T.advanceWords).getD i false then 1 else 0) := by
      rw [← testBit_eq]
      unfold testBit
      by_cases hw : i / 64 < T.advanceWords.length
      · rw [if_pos hw]
      · rw [if_neg hw, List.getD_eq_getElem?_getD, List.getElem?_eq_none (by omega)]
        simp
    have hcount : c.advCumulative + (if i / 64 < T.advanceWords.length then
          (if (T.advanceWords.getD (i / 64) 0).getLsbD (i % 64) then 1 else 0) else 0)
        = rankB true (allBits T.advanceWords) (i + 1) := by
      rw [hbit, rankB_succ, inv.adv, hi]
    dsimp only
    rw [hcount]
    generalize hC : rankB true (allBits T.advanceWords) (i + 1) = cnt at *
    have hmono : c.advCumulative ≤ cnt := by
      rw [inv.adv, hi, ← hC]; exact rankB_mono _ (by omega)
    have hcnt_le : cnt ≤ i + 1 := by rw [← hC]; exact rankB_le _ _
    have hsmall := wf.small
    -- the cursor stored when no new select result is cached
    have inv_plain : SeqInv F T { c with advCumulative := cnt, nextOpenIdx := i + 1 } :=
      { adv := hC.symm
        ob := inv.ob
        cached := by
          intro h
          obtain ⟨h1, h2, h3⟩ := inv.cached h
          exact ⟨h1, by show c.lastIbArg < cnt; omega, h3⟩
        fresh := inv.fresh }
    by_cases h0 : cnt = 0
    · rw [if_pos h0, if_pos h0]
      exact ⟨rfl, by intro c' h; simp at h; subst h; exact inv_plain⟩
    · rw [if_neg h0, if_neg h0]
      by_cases hdup : cnt - 1 = c.lastIbArg
      · rw [if_pos hdup]
        have hne : c.lastIbArg ≠ usizeMax := by omega
        obtain ⟨h1, _, _⟩ := inv.cached hne
        refine ⟨?_, by intro c' h; simp at h; subst h; exact inv_plain⟩
        show Ans.val (some (F.conv c.lastIbResult)) = _
        rw [hdup, h1]
      · rw [if_neg hdup]
        have hob_le : c.ibOnesBefore ≤ cnt - 1 := by
          by_cases hm : c.lastIbArg = usizeMax
          · have := inv.fresh hm
            have h2 := inv.ob
            rw [this] at h2
            simp [allBits] at h2
            omega
          · obtain ⟨_, h2, h3⟩ := inv.cached hm
            omega
        rw [if_neg (by show ¬ (cnt - 1 < c.ibOnesBefore); omega)]
        rw [hF.scan]
        have hsc := scan_from hpc T.ibWords c.ibWordIdx (cnt - 1) (by rw [← inv.ob]; exact hob_le)
        rw [← inv.ob] at hsc
        cases hs : scanScalar pc (T.ibWords.drop c.ibWordIdx) c.ibWordIdx (cnt - 1 - c.ibOnesBefore) with
        | none =>
          rw [hs] at hsc
          dsimp only
          rw [hsc]
          exact ⟨rfl, by intro c' h; simp at h; subst h; exact inv_plain⟩
        | some p =>
          obtain ⟨w', r⟩ := p
          rw [hs] at hsc
          obtain ⟨h1, h2, h3, h4, h5, h6⟩ := hsc
          dsimp only
          have hres : w' * 64 + siw (T.ibWords.getD w' 0) r
              = 64 * w' + selectInWordSpec (T.ibWords.getD w' 0) r := by rw [hsiw]; omega
          rw [hres, h6]
          refine ⟨rfl, ?_⟩
          intro c' h
          simp at h; subst h
          exact
            { adv := hC.symm
              ob := h5
              cached := by
                intro _
                refine ⟨?_, ?_, ?_⟩
                · show (selectB true (allBits T.ibWords) (cnt - 1)).map F.conv = _
                  rw [h6]; rfl
                · show cnt - 1 < cnt; omega
                · show cnt - 1 - r ≤ cnt - 1; omega
              fresh := by
                intro h
                have : cnt - 1 = usizeMax := h
                omega }

end Machine2
section Machine3
variable {pc : Word → Nat} {siw : Word → Nat → Nat} {rate : Nat} {F : Flavor}

/-- `get_random`: full recomputation; the stored cursor satisfies the invariant again. -/
theorem getRandom_spec (hpc : ∀ w, pc w = popcount w) (hsiw : ∀ w k, siw w k = selectInWordSpec w k)
    (hF : FlavorOk pc F) {T : Table} (wf : WF pc rate T) (i : Nat) :
    (getRandom pc siw rate F T i).1 = .val (tableFn F T i) ∧
    ∀ c', (getRandom pc siw rate F T i).2 = some c' → SeqInv F T c' := by
  unfold getRandom tableFn
  by_cases hn : i ≥ T.numOpens
  · rw [if_pos hn, if_neg (show ¬ i < T.numOpens by omega)]
    exact ⟨rfl, by intro c' h; simp at h⟩
  · rw [if_neg hn, if_pos (show i < T.numOpens by omega)]
    dsimp only
    rw [advanceRank1_eq hpc wf]
    generalize hC : rankB true (allBits T.advanceWords) (i + 1) = cnt
    have hcnt_le : cnt ≤ i + 1 := by rw [← hC]; exact rankB_le _ _
    have hsmall := wf.small
    have inv_reset : SeqInv F T ⟨i + 1, cnt, 0, 0, usizeMax, 0⟩ :=
      { adv := hC.symm
        ob := by simp [allBits]
        cached := by intro h; exact absurd rfl h
        fresh := by intro _; rfl }
    by_cases h0 : cnt = 0
    · rw [if_pos h0, if_pos h0]
      exact ⟨rfl, by intro c' h; simp at h; subst h; exact inv_reset⟩
    · rw [if_neg h0, if_neg h0]
      have hsel := ibSelect_spec (siw := siw) hpc hsiw wf (cnt - 1)
      cases hs : ibSelect1WithState pc siw rate T (cnt - 1) with
      | none =>
        rw [hs] at hsel
        dsimp only
        rw [hsel]
        exact ⟨rfl, by intro c' h; simp at h; subst h; exact inv_reset⟩
      | some p =>
        obtain ⟨pos, w, ob⟩ := p
        rw [hs] at hsel
        obtain ⟨h1, h2, h3⟩ := hsel
        dsimp only
        rw [h1]
        refine ⟨rfl, ?_⟩
        intro c' h
        simp at h; subst h
        exact
          { adv := hC.symm
            ob := h2
            cached := by
              intro _
              refine ⟨?_, ?_, ?_⟩
              · show (selectB true (allBits T.ibWords) (cnt - 1)).map F.conv = some (F.conv (F.conv pos))
                rw [h1, hF.conv]; rfl
              · show cnt - 1 < cnt; omega
              · exact h3
            fresh := by
              intro h
              have : cnt - 1 = usizeMax := h
              omega }

/-- Every path of `get` (sequential, gap, backward jump) answers the history-free table function
and re-establishes the cursor invariant. -/
theorem get_spec (hpc : ∀ w, pc w = popcount w) (hsiw : ∀ w k, siw w k = selectInWordSpec w k)
    (hF : FlavorOk pc F) {T : Table} (wf : WF pc rate T) {c : Cursor} (inv : SeqInv F T c) (i : Nat) :
    (get pc siw rate F T c i).1 = .val (tableFn F T i) ∧ SeqInv F T (get pc siw rate F T c i).2 := by
  unfold get
  by_cases h1 : i = c.nextOpenIdx
  · rw [if_pos h1]
    obtain ⟨ha, hc⟩ := getSequential_spec hpc hsiw hF wf inv i h1.symm
    refine ⟨ha, ?_⟩
    cases hs : (getSequential siw F T i c).2 with
    | none => simpa [hs] using inv
    | some c' => simpa [hs] using hc c' hs
  · rw [if_neg h1]
    by_cases h2 : i > c.nextOpenIdx
    · rw [if_pos h2]
      have inv1 : SeqInv F T { c with advCumulative := advanceRank1 pc T i, nextOpenIdx := i } :=
        { adv := advanceRank1_eq hpc wf i
          ob := inv.ob
          cached := by
            intro h
            obtain ⟨a1, a2, a3⟩ := inv.cached h
            refine ⟨a1, ?_, a3⟩
            show c.lastIbArg < advanceRank1 pc T i
            rw [advanceRank1_eq hpc wf]
            have := rankB_mono (allBits T.advanceWords) (show c.nextOpenIdx ≤ i by omega)
            rw [← inv.adv] at this
            omega
          fresh := inv.fresh }
      obtain ⟨ha, hc⟩ := getSequential_spec hpc hsiw hF wf inv1 i rfl
      refine ⟨ha, ?_⟩
      cases hs : (getSequential siw F T i
          { c with advCumulative := advanceRank1 pc T i, nextOpenIdx := i }).2 with
      | none => simpa [hs] using inv
      | some c' => simpa [hs] using hc c' hs
    · rw [if_neg h2]
      obtain ⟨ha, hc⟩ := getRandom_spec (siw := siw) hpc hsiw hF wf i
      refine ⟨ha, ?_⟩
      cases hs : (getRandom pc siw rate F T i).2 with
      | none => simpa [hs] using inv
      | some c' => simpa [hs] using hc c' hs

/-- Induction over an arbitrary lookup list: every answer is the table function of its index,
whatever was looked up before, and the invariant holds at the end. -/
theorem runFrom_spec (hpc : ∀ w, pc w = popcount w) (hsiw : ∀ w k, siw w k = selectInWordSpec w k)
    (hF : FlavorOk pc F) {T : Table} (wf : WF pc rate T) (c : Cursor) (inv : SeqInv F T c)
    (hist : List Nat) :
    (runFrom pc siw rate F T c hist).1 = hist.map (fun i => Ans.val (tableFn F T i)) ∧
    SeqInv F T (runFrom pc siw rate F T c hist).2 := by
  induction hist generalizing c with
  | nil => exact ⟨rfl, inv⟩
  | cons i is ih =>
    obtain ⟨ha, hc⟩ := get_spec hpc hsiw hF wf inv i
    obtain ⟨hb, hd⟩ := ih _ hc
    simp only [runFrom, List.map_cons]
    exact ⟨by rw [ha, hb], hd⟩

end Machine3
end SV.YamlPos
