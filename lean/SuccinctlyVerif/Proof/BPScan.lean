/-
Proof/BPScan — backward scans: `find_open` / `enclose` bit loops and word loops of the free
functions against `scanOpen` (C04).
-/
import SuccinctlyVerif.Proof.BPNavEq
namespace SV.BPS
open SV SV.BP SV.BPM SV.BPP

/-! ### reversed bit prefixes -/

theorem wordBits_take_succ (w : BitVec 64) (n : Nat) (hn : n < 64) :
    (wordBits w).take (n + 1) = (wordBits w).take n ++ [w.getLsbD n] := by
  rw [List.take_succ_eq_append_getElem (by rw [wordBits_length]; exact hn)]
  congr 2
  have := wordBits_getElem? w n
  rw [List.getElem?_eq_getElem (by rw [wordBits_length]; exact hn)] at this
  simp only [hn, if_true, Option.some.injEq] at this
  exact this

/-- The backward bit loop over the low `n` bits of a word, started with `d` unmatched closes
(`e = target − 1 − d`), is `scanOpen` over those bits reversed; when it falls through, the scan
continues in the earlier bits with the updated count. -/
theorem revBitLoop_scanOpen (w : BitVec 64) (base : Nat) (target : Int) (n d : Nat) (hn : n ≤ 64)
    (rest : List Bool) :
    scanOpen (((wordBits w).take n).reverse ++ rest) (base + n) d =
      match revBitLoop w base target n (target - 1 - d) with
      | .inl r => some r
      | .inr e => scanOpen rest base (target - 1 - e).toNat := by
  induction n generalizing d with
  | zero =>
    have : (target - 1 - (target - 1 - (d : Int))).toNat = d := by omega
    simp [revBitLoop, this]
  | succ n ih =>
    rw [wordBits_take_succ w n (by omega), List.reverse_append]
    simp only [List.reverse_cons, List.reverse_nil, List.nil_append, List.singleton_append, List.cons_append]
    unfold revBitLoop
    cases hb : w.getLsbD n
    · simp only [scanOpen, Bool.false_eq_true, if_false]
      have e1 : base + (n + 1) - 1 = base + n := by omega
      have e2 : target - 1 - (d : Int) - 1 = target - 1 - ((d + 1 : Nat) : Int) := by omega
      rw [e1, e2]
      exact ih (d + 1) (by omega)
    · simp only [scanOpen, if_true]
      by_cases hd : d = 0
      · subst hd
        have : target - 1 - ((0 : Nat) : Int) + 1 = target := by omega
        simp [this]
      · have hne : ¬ (target - 1 - (d : Int) + 1 = target) := by omega
        simp only [hd, if_false, hne]
        have e1 : base + (n + 1) - 1 = base + n := by omega
        have e2 : target - 1 - (d : Int) + 1 = target - 1 - ((d - 1 : Nat) : Int) := by omega
        rw [e1, e2]
        exact ih (d - 1) (by omega)

/-- When the backward bit loop falls through, the resulting excess is still of the form
`target − 1 − d'`. -/
theorem revBitLoop_inr_le (w : BitVec 64) (base : Nat) (target : Int) (n : Nat) (e e' : Int)
    (he : e ≤ target - 1) (h : revBitLoop w base target n e = .inr e') : e' ≤ target - 1 := by
  induction n generalizing e with
  | zero => simp [revBitLoop] at h; omega
  | succ n ih =>
    unfold revBitLoop at h
    cases hb : w.getLsbD n
    · simp only [hb, Bool.false_eq_true, if_false] at h
      exact ih (e - 1) (by omega) h
    · simp only [hb, if_true] at h
      by_cases ht : e + 1 = target
      · simp [ht] at h
      · simp only [ht, if_false] at h
        exact ih (e + 1) (by omega) h

/-! ### whole words -/

theorem allBits_append (a b : List (BitVec 64)) : allBits (a ++ b) = allBits a ++ allBits b := by
  simp [allBits]

theorem allBits_take_succ (ws : List (BitVec 64)) (n : Nat) (hn : n < ws.length) :
    allBits (ws.take (n + 1)) = allBits (ws.take n) ++ wordBits (ws.getD n 0) := by
  rw [List.take_succ_eq_append_getElem hn, allBits_append]
  simp [allBits, List.getD_eq_getElem?_getD, List.getElem?_eq_getElem hn]

theorem wordBits_take_64 (w : BitVec 64) : (wordBits w).take 64 = wordBits w :=
  List.take_of_length_le (by rw [wordBits_length]; omega)

/-- `find_open`'s loop over the earlier words. -/
theorem foWordLoop_scanOpen (ws : List (BitVec 64)) (n d : Nat) (hn : n ≤ ws.length) :
    foWordLoop ws.toArray n (-1 - (d : Int)) = scanOpen (allBits (ws.take n)).reverse (n * 64) d := by
  induction n generalizing d with
  | zero => simp [foWordLoop, allBits, scanOpen]
  | succ n ih =>
    rw [allBits_take_succ ws n (by omega), List.reverse_append]
    have h := revBitLoop_scanOpen (ws.getD n 0) (n * 64) 0 64 d (by omega) (allBits (ws.take n)).reverse
    rw [wordBits_take_64] at h
    have e : (n + 1) * 64 = n * 64 + 64 := by omega
    rw [e, h]
    unfold foWordLoop
    have hw : wordAt ws.toArray n = ws.getD n 0 := by simp [wordAt]
    rw [hw]
    have e0 : (0 : Int) - 1 - (d : Int) = -1 - (d : Int) := by omega
    rw [e0]
    cases hr : revBitLoop (ws.getD n 0) (n * 64) 0 64 (-1 - (d : Int)) with
    | inl r => rfl
    | inr e' =>
      simp only
      have hle := revBitLoop_inr_le _ _ 0 64 _ e' (by omega) hr
      have : e' = -1 - (((0 - 1 - e').toNat : Nat) : Int) := by omega
      rw [this, ih _ (by omega)]
      congr 1
      omega

/-- The first `p` bits: whole words below `p / 64`, then the low `p % 64` bits of that word. -/
theorem bitsOf_take (ws : List (BitVec 64)) (len p : Nat) (hp : p ≤ len) (hw : p / 64 < ws.length) :
    (bitsOf ws len).take p = allBits (ws.take (p / 64)) ++ (wordBits (ws.getD (p / 64) 0)).take (p % 64) := by
  unfold bitsOf
  rw [List.take_take, Nat.min_eq_left hp]
  apply List.ext_getElem?
  intro i
  rw [List.getElem?_take, allBits_getElem?]
  have hl : (allBits (ws.take (p / 64))).length = 64 * (p / 64) := by
    rw [allBits_length, List.length_take]; congr 1; omega
  by_cases hi : i < p
  · simp only [hi, if_true]
    by_cases hi2 : i < 64 * (p / 64)
    · rw [List.getElem?_append_left (by omega), allBits_getElem?]
      have : i / 64 < p / 64 := by omega
      rw [List.getElem?_take]; simp [this]
    · rw [List.getElem?_append_right (by omega), hl, List.getElem?_take]
      have h1 : i - 64 * (p / 64) < p % 64 := by omega
      have h2 : i / 64 = p / 64 := by omega
      have h3 : i - 64 * (p / 64) = i % 64 := by omega
      have h4 : i % 64 < p % 64 := by omega
      have h5 : i % 64 < 64 := by omega
      rw [h3, h2]
      simp [h4, h5, wordBits, List.getD_eq_getElem?_getD, List.getElem?_eq_getElem hw]
  · simp only [hi, if_false]
    symm
    apply List.getElem?_eq_none
    rw [List.length_append, hl, List.length_take, wordBits_length]
    omega

/-- `trees::find_open(words, len, p)` = the right-to-left scan, for every `|ws| = ⌈len/64⌉`. -/
theorem freeFindOpen_eq (ws : List (BitVec 64)) (len p : Nat) (hw : (len + 63) / 64 ≤ ws.length) :
    freeFindOpen ws.toArray len p = BP.findOpen (bitsOf ws len) p := by
  unfold freeFindOpen BP.findOpen
  rw [bitsOf_getElem?]
  by_cases hp : p < len
  · have hne : ¬ (p ≥ len ∨ ws.toArray.isEmpty = true) := by
      intro h; rcases h with h | h
      · omega
      · have : ws.length = 0 := by simpa using h
        omega
    have hlt : p / 64 < ws.length := by omega
    simp only [hne, if_false, hp, if_true, List.getElem?_eq_getElem hlt, Option.map_some]
    have hwd : wordAt ws.toArray (p / 64) = ws[p / 64] := by
      simp [wordAt, List.getD_eq_getElem?_getD, List.getElem?_eq_getElem hlt]
    rw [hwd]
    cases hb : ws[p / 64].getLsbD (p % 64)
    · simp only [Bool.false_eq_true, if_false, if_true]
      rw [bitsOf_take ws len p (by omega) hlt, List.reverse_append]
      have hg : ws.getD (p / 64) 0 = ws[p / 64] := by
        simp [List.getD_eq_getElem?_getD, List.getElem?_eq_getElem hlt]
      rw [hg]
      have h := revBitLoop_scanOpen ws[p / 64] (p / 64 * 64) 0 (p % 64) 0 (by omega) (allBits (ws.take (p / 64))).reverse
      have e : p / 64 * 64 + p % 64 = p := by omega
      rw [e] at h
      rw [h]
      have e0 : (0 : Int) - 1 - ((0 : Nat) : Int) = -1 := by omega
      rw [e0]
      cases hr : revBitLoop ws[p / 64] (p / 64 * 64) 0 (p % 64) (-1) with
      | inl r => rfl
      | inr e' =>
        simp only
        have hle := revBitLoop_inr_le _ _ 0 (p % 64) _ e' (by omega) hr
        have : e' = -1 - (((0 - 1 - e').toNat : Nat) : Int) := by omega
        rw [this, foWordLoop_scanOpen ws _ _ (by omega)]
        congr 1
        omega
    · simp
  · have : p ≥ len := by omega
    simp [this, hp]

end SV.BPS
