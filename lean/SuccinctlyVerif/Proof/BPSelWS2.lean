/-
Proof/BPSelWS2 — `select1` of a structure built with `WithSelect` = `selectB true` (C04).
-/
import SuccinctlyVerif.Proof.BPSelWS
namespace SV.BPR
open SV SV.BP SV.BPM SV.BPP SV.BPS SV.BPC SV.BPQ

def trunc32 (x : Nat × Nat) : Nat × Nat := (x.1 % 2 ^ 32, x.2 % 2 ^ 32)

theorem jumpTo_spec (st : List (BitVec 64)) (rate j : Nat) (G : List (Nat × Nat)) (hrate : 1 ≤ rate)
    (hG : GoodAll st rate G) (hn : 0 < st.length) (hb : st.length < 2 ^ 32) (hj : j < 2 ^ 32) :
    ∃ a, a < st.length ∧ rawCum st a ≤ j ∧ jumpTo (G.map trunc32).toArray rate j = (a, j - rawCum st a) := by
  unfold jumpTo
  by_cases hemp : G = []
  · subst hemp
    exact ⟨0, hn, by simp [rawCum_zero], by simp [rawCum_zero]⟩
  · have hlen : 0 < G.length := List.length_pos_iff.mpr hemp
    have hne : ¬ ((G.map trunc32).toArray.isEmpty = true) := by simp [hemp]
    simp only [hne, if_false, List.size_toArray, List.length_map]
    -- the index actually read
    let i := if j / rate ≥ G.length then G.length - 1 else j / rate
    have hi : i < G.length := by simp only [i]; split <;> omega
    have hile : i ≤ j / rate := by simp only [i]; split <;> omega
    have hmul : i * rate ≤ j := Nat.le_trans (Nat.mul_le_mul_right rate hile) (Nat.div_mul_le_self j rate)
    have hgood := hG i hi
    obtain ⟨g1, g2, g3, _⟩ := hgood
    have hread : (if j / rate ≥ G.length then (G.map trunc32).toArray.getD (G.length - 1) (0, 0)
        else (G.map trunc32).toArray.getD (j / rate) (0, 0)) = trunc32 (G.getD i (0, 0)) := by
      have hgen : ∀ t, t < G.length → (G.map trunc32).toArray.getD t (0, 0) = trunc32 (G.getD t (0, 0)) := by
        intro t ht
        rw [toArray_getD, List.getD_eq_getElem?_getD, List.getElem?_map, List.getD_eq_getElem?_getD,
          List.getElem?_eq_getElem ht]
        rfl
      simp only [i]
      split
      · exact hgen _ (by omega)
      · exact hgen _ (by omega)
    rw [hread]
    generalize G.getD i (0, 0) = g at *
    refine ⟨g.1, g2, by omega, ?_⟩
    unfold trunc32
    simp only
    rw [Nat.mod_eq_of_lt (by omega), Nat.mod_eq_of_lt (by omega), g1]
    simp

theorem select1_withSelect_eq (simd : Bool) (st : List (BitVec 64)) (len j : Nat)
    (hw : st.length = (len + 63) / 64) (hlen : len < 2 ^ 32) :
    (mkBP simd st len .withSelect).select1 j = selectB true (bitsOf st len) j := by
  have hT := totalOnes_eq simd st len .withSelect hw hlen
  have hl := bitsOf_length st len (by omega)
  have hsel : (mkBP simd st len .withSelect).sel =
      Sel.withSelect (selectIndexBuild st (mkBP simd st len .withSelect).totalOnes 256).toArray := rfl
  unfold BPM.BP.select1
  rw [hsel]
  simp only
  rw [hT]
  by_cases hge : j ≥ (bitsOf st len).count true
  · simp only [hge, if_true]
    exact (selectB_none true _ _ hge).symm
  · simp only [hge, if_false]
    have hjT : j < (bitsOf st len).count true := by omega
    have hcl : (bitsOf st len).count true ≤ len := by
      have := List.count_le_length (a := true) (l := bitsOf st len); omega
    have hsome := Scan.selectB_isSome_of_lt true _ _ hjT
    obtain ⟨q, hq⟩ := Option.isSome_iff_exists.mp hsome
    have hqlen : q < len := by have := selectB_lt_length' true _ _ _ hq; omega
    have hne : st ≠ [] := by
      intro h0; subst h0; simp [bitsOf, allBits] at hjT
    have hnpos : 0 < st.length := List.length_pos_iff.mpr hne
    -- the samples
    have hbuild : selectIndexBuild st ((bitsOf st len).count true) 256 =
        (sampleLoop 256 ((bitsOf st len).count true) st 0 0 0 []).map trunc32 := by
      unfold selectIndexBuild
      have : ¬ (st.isEmpty = true ∨ (bitsOf st len).count true = 0) := by
        intro h; rcases h with h | h
        · exact hne (by simpa using h)
        · omega
      simp only [this, if_false]
      rfl
    have hspecL := sampleLoop_spec st 256 ((bitsOf st len).count true) (by omega) st 0 0 [] (by simp) (by omega)
      ⟨by simp, by intro i hi; simp at hi⟩ (Or.inl (by simp [rawCum_zero]))
    rw [rawCum_zero] at hspecL
    obtain ⟨hG, _, _⟩ := hspecL
    obtain ⟨a, ha, hcum, hjump⟩ := jumpTo_spec st 256 j _ (by omega) hG hnpos (by omega) (by omega)
    rw [hbuild, hjump]
    simp only
    have hwords : (mkBP simd st len .withSelect).words.toList = st := by simp [mkBP]
    rw [hwords]
    obtain ⟨i, r, hscan, hr, hqeq⟩ := scan_locates st len j q a ha hcum hq
    rw [hscan]
    simp only
    have hword : (mkBP simd st len .withSelect).word i = st.getD i 0 := by simp [BP.word, mkBP]
    have hlenf : (mkBP simd st len .withSelect).len = len := rfl
    rw [hword, selectInWord_eq _ _ (by omega), hlenf, ← hqeq]
    simp [hqlen, hq]

end SV.BPR
