/-
Proof/BPEnclose — `trees::enclose` (backward scan skipping whole words by `word_max_excess_rev`)
equals `scanOpen` (C04).
-/
import SuccinctlyVerif.Proof.BPScan
import SuccinctlyVerif.Proof.BPWord
namespace SV.BPS
open SV SV.BP SV.BPM SV.BPP SV.BPW

/-- Skipping a block backwards: when the maximum right-to-left running excess of `L` does not
exceed the number `d` of pending closes, no open of `L` is the answer, and the scan continues
before `L` with `d − totExc L` pending closes. -/
theorem scanOpen_skip (L rest : List Bool) (i d : Nat) (h : maxSufExc L ≤ d) :
    scanOpen (L.reverse ++ rest) i d = scanOpen rest (i - L.length) ((d : Int) - totExc L).toNat := by
  induction L generalizing rest with
  | nil => simp [totExc]
  | cons x xs ih =>
    have hm : maxSufExc xs ≤ d := by simp only [maxSufExc] at h; omega
    have ht := maxSufExc_ge_tot xs
    rw [List.reverse_cons, List.append_assoc, List.singleton_append, ih (x :: rest) hm]
    simp only [maxSufExc, totExc] at h ⊢
    cases x
    · simp only [scanOpen, delta, Bool.false_eq_true, if_false, List.length_cons] at *
      congr 1 <;> omega
    · simp only [delta, if_true] at h
      have hne : ((d : Int) - totExc xs).toNat ≠ 0 := by omega
      simp only [scanOpen, hne, if_false, delta, if_true, List.length_cons]
      congr 1 <;> omega

theorem revBitLoop_inr_ge (w : BitVec 64) (base : Nat) (target : Int) (n : Nat) (e e' : Int)
    (h : revBitLoop w base target n e = .inr e') : e - n ≤ e' := by
  induction n generalizing e with
  | zero => simp [revBitLoop] at h; omega
  | succ n ih =>
    unfold revBitLoop at h
    cases hb : w.getLsbD n
    · simp only [hb, Bool.false_eq_true, if_false] at h
      have := ih (e - 1) h; omega
    · simp only [hb, if_true] at h
      by_cases ht : e + 1 = target
      · simp [ht] at h
      · simp only [ht, if_false] at h
        have := ih (e + 1) h; omega

/-- `enclose`'s loop over the earlier words (`i32` excess cannot wrap below `2^31` scanned bits). -/
theorem encWordLoop_scanOpen (ws : List (BitVec 64)) (n d : Nat) (hn : n ≤ ws.length)
    (hb : d + 64 * n < 2 ^ 31) :
    encWordLoop ws.toArray n (-(d : Int)) = scanOpen (allBits (ws.take n)).reverse (n * 64) d := by
  induction n generalizing d with
  | zero => simp [encWordLoop, allBits, scanOpen]
  | succ n ih =>
    rw [allBits_take_succ ws n (by omega), List.reverse_append]
    have e : (n + 1) * 64 = n * 64 + 64 := by omega
    unfold encWordLoop
    have hw : wordAt ws.toArray n = ws.getD n 0 := by simp [wordAt]
    simp only [hw, wordMaxExcessRev_spec]
    have htb := totExc_bound (wordBits (ws.getD n 0))
    rw [wordBits_length] at htb
    by_cases hc : -(d : Int) + maxSufExc (wordBits (ws.getD n 0)) ≥ 1
    · simp only [hc, if_true]
      have h := revBitLoop_scanOpen (ws.getD n 0) (n * 64) 1 64 d (by omega) (allBits (ws.take n)).reverse
      rw [wordBits_take_64] at h
      rw [e, h]
      have e0 : (1 : Int) - 1 - (d : Int) = -(d : Int) := by omega
      rw [e0]
      cases hr : revBitLoop (ws.getD n 0) (n * 64) 1 64 (-(d : Int)) with
      | inl r => rfl
      | inr e' =>
        simp only
        have hle := revBitLoop_inr_le _ _ 1 64 _ e' (by omega) hr
        have hge := revBitLoop_inr_ge _ _ 1 64 _ e' hr
        have : e' = -(((1 - 1 - e').toNat : Nat) : Int) := by omega
        rw [this, ih _ (by omega) (by omega)]
        congr 1
        omega
    · simp only [hc, if_false]
      have hms : maxSufExc (wordBits (ws.getD n 0)) ≤ d := by omega
      have hmt := maxSufExc_ge_tot (wordBits (ws.getD n 0))
      rw [e, scanOpen_skip _ _ _ _ hms, wordBits_length]
      have hwr : wrapI32 (-(d : Int) + totExc (wordBits (ws.getD n 0))) =
          -((((d : Int) - totExc (wordBits (ws.getD n 0))).toNat : Nat) : Int) := by
        rw [BPR.wrapI32_id _ (by omega) (by omega)]; omega
      rw [hwr, ih _ (by omega) (by omega)]
      congr 1

/-- `trees::enclose(words, len, p)` = the nearest enclosing open by the right-to-left scan, for
every `|ws| = ⌈len/64⌉`, `len < 2^31`. -/
theorem freeEnclose_eq (ws : List (BitVec 64)) (len p : Nat) (hw : (len + 63) / 64 ≤ ws.length)
    (hlen : len < 2 ^ 31) :
    freeEnclose ws.toArray len p = BP.enclose (bitsOf ws len) p := by
  unfold freeEnclose BP.enclose
  rw [bitsOf_getElem?]
  by_cases hp : p < len
  · by_cases hp0 : p = 0
    · subst hp0
      simp only [true_or, if_true]
      split <;> simp [scanOpen]
    have hne : ¬ (p = 0 ∨ p ≥ len ∨ ws.toArray.isEmpty = true) := by
      intro h; rcases h with h | h | h
      · omega
      · omega
      · have : ws.length = 0 := by simpa using h
        omega
    have hlt : p / 64 < ws.length := by omega
    simp only [hne, if_false, hp, if_true, List.getElem?_eq_getElem hlt, Option.map_some]
    have hwd : wordAt ws.toArray (p / 64) = ws[p / 64] := by
      simp [wordAt, List.getD_eq_getElem?_getD, List.getElem?_eq_getElem hlt]
    rw [hwd]
    cases hb : ws[p / 64].getLsbD (p % 64)
    · simp
    · simp only [Bool.not_true, Bool.false_eq_true, if_false, if_true]
      -- the bits before p: words below q/64 and the low q%64 bits of word q/64, for q = p
      by_cases hbi : p % 64 > 0
      · simp only [hbi, if_true]
        have e1 : p % 64 - 1 + 1 = p % 64 := by omega
        rw [e1, bitsOf_take ws len p (by omega) hlt, List.reverse_append]
        have hg : ws.getD (p / 64) 0 = ws[p / 64] := by
          simp [List.getD_eq_getElem?_getD, List.getElem?_eq_getElem hlt]
        have hwd2 : wordAt ws.toArray (p / 64) = ws[p / 64] := hwd
        rw [hg, hwd2]
        have h := revBitLoop_scanOpen ws[p / 64] (p / 64 * 64) 1 (p % 64) 0 (by omega) (allBits (ws.take (p / 64))).reverse
        have e : p / 64 * 64 + p % 64 = p := by omega
        rw [e] at h
        rw [h]
        have e0 : (1 : Int) - 1 - ((0 : Nat) : Int) = 0 := by omega
        rw [e0]
        cases hr : revBitLoop ws[p / 64] (p / 64 * 64) 1 (p % 64) 0 with
        | inl r => rfl
        | inr e' =>
          simp only
          have hle := revBitLoop_inr_le _ _ 1 (p % 64) _ e' (by omega) hr
          have hge := revBitLoop_inr_ge _ _ 1 (p % 64) _ e' hr
          have : e' = -(((1 - 1 - e').toNat : Nat) : Int) := by omega
          rw [this, encWordLoop_scanOpen ws _ _ (by omega) (by omega)]
          congr 1
          omega
      · have hbi0 : p % 64 = 0 := by omega
        simp only [hbi, if_false]
        have hq : p / 64 ≥ 1 := by omega
        have hlt' : p / 64 - 1 < ws.length := by omega
        have hwd3 : wordAt ws.toArray (p / 64 - 1) = ws.getD (p / 64 - 1) 0 := by simp [wordAt]
        rw [hwd3]
        have hbt := bitsOf_take ws len p (by omega) hlt
        rw [hbi0, List.take_zero, List.append_nil] at hbt
        have e2 : p / 64 = (p / 64 - 1) + 1 := by omega
        rw [hbt, e2, allBits_take_succ ws (p / 64 - 1) hlt', List.reverse_append]
        have h := revBitLoop_scanOpen (ws.getD (p / 64 - 1) 0) ((p / 64 - 1) * 64) 1 64 0 (by omega)
          (allBits (ws.take (p / 64 - 1))).reverse
        rw [wordBits_take_64] at h
        have e : (p / 64 - 1) * 64 + 64 = p := by omega
        rw [e] at h
        simp only [Nat.add_sub_cancel]
        rw [h]
        have e0 : (1 : Int) - 1 - ((0 : Nat) : Int) = 0 := by omega
        rw [e0]
        cases hr : revBitLoop (ws.getD (p / 64 - 1) 0) ((p / 64 - 1) * 64) 1 64 0 with
        | inl r => rfl
        | inr e' =>
          simp only
          have hle := revBitLoop_inr_le _ _ 1 64 _ e' (by omega) hr
          have hge := revBitLoop_inr_ge _ _ 1 64 _ e' hr
          have : e' = -(((1 - 1 - e').toNat : Nat) : Int) := by omega
          rw [this, encWordLoop_scanOpen ws _ _ (by omega) (by omega)]
          congr 1
          omega
  · have : p ≥ len := by omega
    simp [this, hp]

end SV.BPS
