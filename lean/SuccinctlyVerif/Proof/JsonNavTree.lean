/-
Proof/JsonNavTree — C06: navigating the index of a document reconstructs its value.
-/
import SuccinctlyVerif.Proof.JsonNav
namespace SV.JsonNav
open SV SV.JsonSemi SV.JsonText SV.JsonSimple

/-! ### token-level bookkeeping -/

theorem tok_bytes_pos (t : Tok) : 0 < t.bytes.length := by
  cases t with
  | num n => obtain ⟨b, bs, h⟩ := num_head_tail n; simp [Tok.bytes, h]
  | lit l => cases l <;> simp [Tok.bytes, Lit.bytes]
  | _ => simp [Tok.bytes]

theorem tokStdIb_length (t : Tok) : (tokStdIb t).length = t.bytes.length := by
  have := tok_bytes_pos t
  unfold tokStdIb
  split <;> simp <;> omega

theorem tokStd_count (t : Tok) : (tokStdIb t).count true = (tokStdBp t).count true := by
  cases t <;> simp [tokStdIb, Tok.isNode, tokStdBp, List.count_replicate]

theorem toksStdIb_append (a b : List Tok) : toksStdIb (a ++ b) = toksStdIb a ++ toksStdIb b := by
  simp [toksStdIb]
theorem toksStdIb_cons (t : Tok) (ts : List Tok) : toksStdIb (t :: ts) = tokStdIb t ++ toksStdIb ts := by
  simp [toksStdIb]
theorem toksBytes_cons (t : Tok) (ts : List Tok) : toksBytes (t :: ts) = t.bytes ++ toksBytes ts := by
  simp [toksBytes]

theorem toksStdIb_length (ts : List Tok) : (toksStdIb ts).length = (toksBytes ts).length := by
  induction ts with
  | nil => rfl
  | cons t ts ih => rw [toksStdIb_cons, toksBytes_cons, List.length_append, List.length_append, ih, tokStdIb_length]

theorem toksStd_count (ts : List Tok) : (toksStdIb ts).count true = (toksStdBp ts).count true := by
  induction ts with
  | nil => rfl
  | cons t ts ih => rw [toksStdIb_cons, toksStdBp_cons, List.count_append, List.count_append, ih, tokStd_count]

theorem toksStdIb_ws (w : Ws) : toksStdIb (wsToks w) = List.replicate w.length false := by
  induction w with
  | nil => rfl
  | cons c cs ih =>
    simp only [wsToks, List.map_cons] at ih ⊢
    rw [toksStdIb_cons, ih]; simp [tokStdIb, Tok.isNode, Tok.bytes, List.replicate_succ]

theorem toksBytes_ws_length (w : Ws) : (toksBytes (wsToks w)).length = w.length := by
  rw [← toksStdIb_length, toksStdIb_ws]; simp

/-! ### locating a token segment in the index -/

/-- The token segment `toks` sits at BP offset `b` and text offset `a`, and the nodes before it are
the opens before it (`rank` consistency). -/
def LocT (T : List Byte) (IB BP : List Bool) (toks : List Tok) (b a : Nat) : Prop :=
  ∃ preB postB ibA ibC tA tC,
    BP = preB ++ toksStdBp toks ++ postB ∧ preB.length = b ∧
    IB = ibA ++ toksStdIb toks ++ ibC ∧ ibA.length = a ∧ ibA.count true = preB.count true ∧
    T = tA ++ toksBytes toks ++ tC ∧ tA.length = a

theorem LocT.split {T : List Byte} {IB BP : List Bool} {t1 t2 : List Tok} {b a : Nat}
    (h : LocT T IB BP (t1 ++ t2) b a) :
    LocT T IB BP t1 b a ∧ LocT T IB BP t2 (b + (toksStdBp t1).length) (a + (toksBytes t1).length) := by
  obtain ⟨preB, postB, ibA, ibC, tA, tC, hB, hb, hI, ha, hc, hT, hta⟩ := h
  rw [toksStdBp_append] at hB
  rw [toksStdIb_append] at hI
  rw [toksBytes_append] at hT
  refine ⟨⟨preB, toksStdBp t2 ++ postB, ibA, toksStdIb t2 ++ ibC, tA, toksBytes t2 ++ tC, ?_, hb, ?_, ha, hc, ?_, hta⟩,
    ⟨preB ++ toksStdBp t1, postB, ibA ++ toksStdIb t1, ibC, tA ++ toksBytes t1, tC, ?_, ?_, ?_, ?_, ?_, ?_, ?_⟩⟩
  · rw [hB]; simp
  · rw [hI]; simp
  · rw [hT]; simp
  · rw [hB]; simp
  · simp [hb]
  · rw [hI]; simp
  · simp [ha, toksStdIb_length]
  · simp [List.count_append, hc, toksStd_count]
  · rw [hT]; simp
  · simp [hta]

/-- The index with primitives at specification level over given bit lists and text. -/
def mkIndex (T : List Byte) (IB BP : List Bool) : Index := ⟨T.toArray, Prims.spec IB BP⟩

/-! ### BP shape of the standard encoding -/

theorem pass_wrap1 {mid : List Bool} (h : Pass 0 mid) : Pass 0 (true :: (mid ++ [false])) := by
  intro rest i d _
  simp only [List.cons_append, BP.scanClose, List.append_assoc]
  rw [h _ _ _ (by omega)]
  simp only [List.cons_append, List.nil_append, BP.scanClose]
  have h1 : d + 1 ≠ 0 := by omega
  simp only [h1, if_false, List.length_cons, List.length_append, List.length_nil]
  have e1 : d + 1 - 1 = d := by omega
  have e2 : i + 1 + mid.length + 1 = i + (mid.length + (0 + 1) + 1) := by omega
  rw [e1, e2]

theorem pass_leaf : Pass 0 [true, false] := by simpa using pass_wrap1 (Pass.nil 0)

mutual
  theorem treeBp_shape : ∀ v : JVal, ∃ mid, treeBp v = true :: (mid ++ [false]) ∧ Pass 0 mid
    | .lit _ => ⟨[], rfl, Pass.nil 0⟩
    | .num _ => ⟨[], rfl, Pass.nil 0⟩
    | .str _ => ⟨[], rfl, Pass.nil 0⟩
    | .arr0 _ => ⟨[], rfl, Pass.nil 0⟩
    | .obj0 _ => ⟨[], rfl, Pass.nil 0⟩
    | .arr _ v _ rest => by
      obtain ⟨m, hm, hp⟩ := treeBp_shape v
      refine ⟨treeBp v ++ itemsBp rest, by simp [treeBp], ?_⟩
      rw [hm]; exact Pass.append (pass_wrap1 hp) (itemsBp_pass rest)
    | .obj _ _ _ _ v _ rest => by
      obtain ⟨m, hm, hp⟩ := treeBp_shape v
      refine ⟨[true, false] ++ treeBp v ++ membersBp rest, by simp [treeBp], ?_⟩
      rw [hm]; exact Pass.append (Pass.append pass_leaf (pass_wrap1 hp)) (membersBp_pass rest)
  theorem itemsBp_pass : ∀ r : JItems, Pass 0 (itemsBp r)
    | .nil => Pass.nil 0
    | .cons _ v _ rest => by
      obtain ⟨m, hm, hp⟩ := treeBp_shape v
      simp only [itemsBp]; rw [hm]; exact Pass.append (pass_wrap1 hp) (itemsBp_pass rest)
  theorem membersBp_pass : ∀ r : JMembers, Pass 0 (membersBp r)
    | .nil => Pass.nil 0
    | .cons _ _ _ _ v _ rest => by
      obtain ⟨m, hm, hp⟩ := treeBp_shape v
      simp only [membersBp]; rw [hm]
      exact Pass.append (Pass.append pass_leaf (pass_wrap1 hp)) (membersBp_pass rest)
end

theorem treeBp_length_pos (v : JVal) : 2 ≤ (treeBp v).length := by
  obtain ⟨m, hm, _⟩ := treeBp_shape v; rw [hm]; simp

/-- `find_close` at the open of a balanced code `1 mid 0` sitting anywhere in the BP string. -/
theorem findClose_code (pre mid post : List Bool) (h : Pass 0 mid) :
    BP.findClose (pre ++ (true :: (mid ++ [false])) ++ post) pre.length = some (pre.length + mid.length + 1) := by
  have hget : (pre ++ (true :: (mid ++ [false])) ++ post)[pre.length]? = some true := by
    rw [List.append_assoc, List.getElem?_append_right (Nat.le_refl _)]; simp
  have hdrop : (pre ++ (true :: (mid ++ [false])) ++ post).drop (pre.length + 1) = mid ++ ([false] ++ post) := by
    rw [List.append_assoc, List.drop_append]
    simp
  rw [BP.findClose, hget, if_pos rfl, hdrop, h _ _ _ (Nat.le_refl 0)]
  simp [BP.scanClose]; omega

/-! ### cursor moves at a located code -/

theorem isOpen_at (T : List Byte) (IB pre code post : List Bool) (j : Nat) (hj : j < code.length) :
    (mkIndex T IB (pre ++ code ++ post)).P.isOpen (pre.length + j) = code.getD j false := by
  simp only [mkIndex, Prims.spec, List.getD_eq_getElem?_getD]
  rw [List.append_assoc, List.getElem?_append_right (by omega)]
  simp [List.getElem?_append_left hj]

/-- `next_sibling` of a value whose code sits at `pre.length`: the position right after the code, if
an open follows. -/
theorem nextSibling_at (T : List Byte) (IB pre post : List Bool) (v : JVal) :
    nextSibling (mkIndex T IB (pre ++ treeBp v ++ post)) pre.length =
      if post.head? = some true then some (pre.length + (treeBp v).length) else none := by
  obtain ⟨mid, hm, hp⟩ := treeBp_shape v
  have hopen : (mkIndex T IB (pre ++ treeBp v ++ post)).P.isOpen pre.length = true := by
    have := isOpen_at T IB pre (treeBp v) post 0 (by have := treeBp_length_pos v; omega)
    simpa [hm] using this
  have hfc : (mkIndex T IB (pre ++ treeBp v ++ post)).P.findClose pre.length =
      some (pre.length + mid.length + 1) := by
    simp only [mkIndex, Prims.spec]; rw [hm]; exact findClose_code pre mid post hp
  have hlen : (treeBp v).length = mid.length + 2 := by rw [hm]; simp
  simp only [nextSibling, hopen, Bool.not_true, Bool.false_eq_true, if_false, hfc]
  have hbl : (mkIndex T IB (pre ++ treeBp v ++ post)).P.bpLen = pre.length + (treeBp v).length + post.length := by
    simp [mkIndex, Prims.spec]; omega
  have hnext : (mkIndex T IB (pre ++ treeBp v ++ post)).P.isOpen (pre.length + mid.length + 1 + 1) =
      post.getD 0 false := by
    simp only [mkIndex, Prims.spec, List.getD_eq_getElem?_getD]
    rw [List.getElem?_append_right (by simp; omega)]
    congr 2; simp; omega
  rw [hnext, hbl, hlen]
  cases post with
  | nil => simp
  | cons p ps => cases p <;> simp <;> omega

/-! ### text-level facts at a located token -/

@[simp] theorem mkIndex_toList (T : List Byte) (IB BP : List Bool) : (mkIndex T IB BP).text.toList = T := by
  simp [mkIndex]
@[simp] theorem mkIndex_len (T : List Byte) (IB BP : List Bool) : (mkIndex T IB BP).len = T.length := by
  simp [mkIndex, Index.len]
theorem mkIndex_byteAt (T : List Byte) (IB BP : List Bool) (i : Nat) :
    (mkIndex T IB BP).byteAt i = T.getD i 0#8 := by
  simp [mkIndex, Index.byteAt, List.getD_eq_getElem?_getD, Array.getD_eq_getD_getElem?]

theorem getD_of_drop {T : List Byte} {a : Nat} {xs tC : List Byte} (h : T.drop a = xs ++ tC) (j : Nat)
    (hj : j < xs.length) : T.getD (a + j) 0#8 = xs.getD j 0#8 := by
  have : (T.drop a).getD j 0#8 = xs.getD j 0#8 := by
    rw [h]; simp [List.getD_eq_getElem?_getD, List.getElem?_append_left hj]
  simpa [List.getD_eq_getElem?_getD, List.getElem?_drop] using this

theorem length_of_drop {T : List Byte} {a : Nat} {xs tC : List Byte} (h : T.drop a = xs ++ tC)
    (hx : 0 < xs.length) : a + xs.length + tC.length = T.length := by
  have := congrArg List.length h
  simp [List.length_drop] at this; omega

theorem startsWithAt_of_drop {T : List Byte} {IB BP : List Bool} {a : Nat} {lit tC : List Byte}
    (h : T.drop a = lit ++ tC) (hl : 0 < lit.length) :
    startsWithAt (mkIndex T IB BP) a lit = true := by
  have hlen := length_of_drop h hl
  simp only [startsWithAt, mkIndex_len, Bool.and_eq_true, decide_eq_true_eq, List.all_eq_true,
    List.mem_range, beq_iff_eq]
  refine ⟨by omega, fun j hj => ?_⟩
  rw [mkIndex_byteAt]; exact getD_of_drop h j hj

theorem slice_of_drop {T : List Byte} {a : Nat} {xs tC : List Byte} (h : T.drop a = xs ++ tC) :
    slice T.toArray a (a + xs.length) = xs := by
  simp only [slice, List.extract_toArray, List.extract_eq_drop_take, Nat.add_sub_cancel_left]
  rw [h]; simp

theorem strEndSpec_schar (c : SChar) (rest : List Byte) (base : Nat) :
    strEndSpec (c.bytes ++ rest) base false = strEndSpec rest (base + c.bytes.length) false := by
  cases c with
  | plain b =>
    obtain ⟨b, h1, h2, _⟩ := b
    simp [SChar.bytes, strEndSpec, h1, h2]
  | esc e =>
    have hne : ¬ ((0x5C#8 : BitVec 8) = 0x22#8) := by decide
    simp [SChar.bytes, strEndSpec, hne]
  | uni h1 h2 h3 h4 =>
    have hne : ¬ ((0x5C#8 : BitVec 8) = 0x22#8) := by decide
    have q1 := hex_not_special h1; have q2 := hex_not_special h2
    have q3 := hex_not_special h3; have q4 := hex_not_special h4
    simp [SChar.bytes, strEndSpec, hne, q1.1, q1.2, q2.1, q2.2, q3.1, q3.2, q4.1, q4.2]

theorem strEndSpec_body (body : List SChar) (rest : List Byte) (base : Nat) :
    strEndSpec (body.flatMap SChar.bytes ++ 0x22#8 :: rest) base false =
      some (base + (body.flatMap SChar.bytes).length) := by
  induction body generalizing base with
  | nil => simp [strEndSpec]
  | cons c cs ih =>
    simp only [List.flatMap_cons, List.append_assoc, List.length_append]
    rw [strEndSpec_schar, ih]; congr 1; omega

theorem span_eq_number : ∀ b : BitVec 8, isSpanByte b = isNumberByte b := by decide

theorem takeWhile_span (nb tC : List Byte) (h : ∀ b ∈ nb, isNumberByte b = true)
    (hn : ∀ b, tC.head? = some b → isNumberByte b = false) :
    (nb ++ tC).takeWhile isSpanByte = nb := by
  induction nb with
  | nil =>
    cases tC with
    | nil => rfl
    | cons c cs => simp [List.takeWhile_cons, span_eq_number, hn c rfl]
  | cons b bs ih =>
    simp [List.takeWhile_cons, span_eq_number, h b (by simp), ih (fun x hx => h x (by simp [hx]))]

/-! ### the cursor at a located node -/

theorem textPosition_at {T : List Byte} {IB BP : List Bool} {toks : List Tok} {b a : Nat}
    (h : LocT T IB BP toks b a) (hn : ∃ r, toksStdIb toks = true :: r) :
    textPosition (mkIndex T IB BP) b = some a := by
  obtain ⟨preB, postB, ibA, ibC, tA, tC, hB, hb, hI, ha, hc, hT, hta⟩ := h
  obtain ⟨r, hr⟩ := hn
  have hble : b ≤ BP.length := by rw [hB]; simp; omega
  have hrank : rankB true BP (min b BP.length) = ibA.count true := by
    rw [Nat.min_eq_left hble, rankB, hB, ← hb, List.append_assoc, List.take_left', hc]; rfl
  simp only [textPosition, mkIndex, Prims.spec, hrank]
  rw [hI, hr, List.append_assoc, selectB_append]
  simp [selectB, ha]

theorem drop_at {T : List Byte} {IB BP : List Bool} {toks : List Tok} {b a : Nat}
    (h : LocT T IB BP toks b a) : ∃ tC, T.drop a = toksBytes toks ++ tC := by
  obtain ⟨preB, postB, ibA, ibC, tA, tC, hB, hb, hI, ha, hc, hT, hta⟩ := h
  exact ⟨tC, by rw [hT, ← hta, List.append_assoc, List.drop_left']; rfl⟩

theorem bp_at {T : List Byte} {IB BP : List Bool} {toks : List Tok} {b a : Nat}
    (h : LocT T IB BP toks b a) : ∃ pre post, BP = pre ++ toksStdBp toks ++ post ∧ pre.length = b := by
  obtain ⟨preB, postB, ibA, ibC, tA, tC, hB, hb, hI, ha, hc, hT, hta⟩ := h
  exact ⟨preB, postB, hB, hb⟩

/-- The first token of a value is a node token. -/
theorem val_first_node (v : JVal) : ∃ t ts, v.toks = t :: ts ∧ Tok.isNode t = true := by
  cases v <;> exact ⟨_, _, rfl, rfl⟩

theorem val_ib_head (v : JVal) (follow : List Tok) : ∃ r, toksStdIb (v.toks ++ follow) = true :: r := by
  obtain ⟨t, ts, h, hn⟩ := val_first_node v
  rw [h]; simp only [List.cons_append, toksStdIb_cons, tokStdIb, hn, if_true, List.cons_append]
  exact ⟨_, rfl⟩

/-- What `value()` returns at a node holding `v`. -/
def kindOf (v : JVal) (b a : Nat) : Kind :=
  match v with
  | .lit .tru => .bool true
  | .lit .fls => .bool false
  | .lit .null => .null
  | .num _ => .num a
  | .str _ => .str a
  | .arr0 _ | .arr .. => .arr b
  | .obj0 _ | .obj .. => .obj b

theorem value_at {T : List Byte} {IB BP : List Bool} (v : JVal) (follow : List Tok) {b a : Nat}
    (h : LocT T IB BP (v.toks ++ follow) b a) : value (mkIndex T IB BP) b = kindOf v b a := by
  have htp := textPosition_at h (val_ib_head v follow)
  obtain ⟨tC, hd⟩ := drop_at h
  rw [toksBytes_append] at hd
  have key : ∀ (c : BitVec 8) (rest : List Byte), toksBytes v.toks = c :: rest →
      a < (mkIndex T IB BP).len ∧ (mkIndex T IB BP).byteAt a = c := by
    intro c rest hc
    rw [hc] at hd
    have hl := length_of_drop (xs := c :: rest ++ toksBytes follow) (tC := tC) (by simpa using hd) (by simp)
    refine ⟨by simp at hl ⊢; omega, ?_⟩
    rw [mkIndex_byteAt]
    have := getD_of_drop (xs := c :: rest ++ toksBytes follow) (tC := tC) (by simpa using hd) 0 (by simp)
    simpa using this
  have sw : ∀ lit : List Byte, 0 < lit.length → toksBytes v.toks = lit →
      startsWithAt (mkIndex T IB BP) a lit = true := by
    intro lit hl hc
    rw [hc, List.append_assoc] at hd
    exact startsWithAt_of_drop hd hl
  simp only [value, htp]
  cases v with
  | lit l =>
    cases l with
    | tru =>
      obtain ⟨h1, h2⟩ := key 0x74#8 [0x72#8, 0x75#8, 0x65#8] rfl
      have := sw litTrue (by decide) rfl
      have hge : ¬ (T.length ≤ a) := by simp at h1; omega
      simp [hge, h2, this, kindOf]
    | fls =>
      obtain ⟨h1, h2⟩ := key 0x66#8 [0x61#8, 0x6C#8, 0x73#8, 0x65#8] rfl
      have := sw litFalse (by decide) rfl
      have hnt : startsWithAt (mkIndex T IB BP) a litTrue = false := by
        simp only [startsWithAt, Bool.and_eq_false_iff]
        right
        simp only [List.all_eq_false]
        exact ⟨0, by simp [litTrue], by simp [h2, litTrue]⟩
      have hge : ¬ (T.length ≤ a) := by simp at h1; omega
      simp [hge, h2, this, hnt, kindOf]
    | null =>
      obtain ⟨h1, h2⟩ := key 0x6E#8 [0x75#8, 0x6C#8, 0x6C#8] rfl
      have := sw litNull (by decide) rfl
      have hge : ¬ (T.length ≤ a) := by simp at h1; omega
      simp [hge, h2, this, kindOf]
  | num n =>
    obtain ⟨b0, rest, hb0, hkind⟩ := num_head n
    obtain ⟨h1, h2⟩ := key b0 rest (by simp [JVal.toks, toksBytes, Tok.bytes, hb0])
    obtain ⟨n1, n2, n3, n4, n5, n6⟩ := number_first_byte b0 hkind
    have hge : ¬ (T.length ≤ a) := by simp at h1; omega
    have hnum : b0 = 0x2D#8 ∨ b0 = 0x2E#8 ∨ isAsciiDigit b0 = true := by
      rcases hkind with h | h
      · exact Or.inl h
      · exact Or.inr (Or.inr (by simp [isAsciiDigit, h.1, h.2]))
    simp [hge, h2, n1, n2, n3, n4, n5, n6, hnum, kindOf]
  | str body =>
    obtain ⟨h1, h2⟩ := key 0x22#8 (body.flatMap SChar.bytes ++ [0x22#8]) (by simp [JVal.toks, toksBytes, Tok.bytes])
    have hge : ¬ (T.length ≤ a) := by simp at h1; omega
    simp [hge, h2, kindOf]
  | arr0 ws =>
    obtain ⟨h1, h2⟩ := key 0x5B#8 _ (by simp [JVal.toks, toksBytes, Tok.bytes]; rfl)
    have hge : ¬ (T.length ≤ a) := by simp at h1; omega
    simp [hge, h2, kindOf]
  | arr ws0 v ws1 rest =>
    obtain ⟨h1, h2⟩ := key 0x5B#8 _ (by simp [JVal.toks, toksBytes, Tok.bytes]; rfl)
    have hge : ¬ (T.length ≤ a) := by simp at h1; omega
    simp [hge, h2, kindOf]
  | obj0 ws =>
    obtain ⟨h1, h2⟩ := key 0x7B#8 _ (by simp [JVal.toks, toksBytes, Tok.bytes]; rfl)
    have hge : ¬ (T.length ≤ a) := by simp at h1; omega
    simp [hge, h2, kindOf]
  | obj ws0 k ws1 ws2 v ws3 rest =>
    obtain ⟨h1, h2⟩ := key 0x7B#8 _ (by simp [JVal.toks, toksBytes, Tok.bytes]; rfl)
    have hge : ¬ (T.length ≤ a) := by simp at h1; omega
    simp [hge, h2, kindOf]

/-! ### strings and numbers at a located token -/

/-- The segment `toks` (whose tail is `follow`) is followed by something in the text, or reaches its
end. -/
def Anch (T : List Byte) (toks follow : List Tok) (a : Nat) : Prop :=
  toksBytes follow ≠ [] ∨ a + (toksBytes toks).length = T.length

theorem asStr_at {T : List Byte} {IB BP : List Bool} (body : List SChar) (follow : List Tok) {b a : Nat}
    (h : LocT T IB BP ((JVal.str body).toks ++ follow) b a) :
    asStr (mkIndex T IB BP) a = decodeBody (body.flatMap SChar.bytes) := by
  obtain ⟨tC, hd⟩ := drop_at h
  have hd1 : T.drop (a + 1) = body.flatMap SChar.bytes ++ 0x22#8 :: (toksBytes follow ++ tC) := by
    have : T.drop (a + 1) = (T.drop a).drop 1 := by rw [List.drop_drop]
    rw [this, hd]; simp [JVal.toks, toksBytes, Tok.bytes]
  have hend : findStringEnd (mkIndex T IB BP) a = a + 1 + (body.flatMap SChar.bytes).length := by
    rw [findStringEnd_eq, mkIndex_toList, hd1, strEndSpec_body]; rfl
  have hsl : slice (mkIndex T IB BP).text (a + 1) (a + 1 + (body.flatMap SChar.bytes).length) =
      body.flatMap SChar.bytes := by
    simp only [mkIndex]; exact slice_of_drop hd1
  simp only [asStr, hend, hsl, decodeBody]

theorem numberBytes_at {T : List Byte} {IB BP : List Bool} (n : NumLit) (follow : List Tok) {b a : Nat}
    (h : LocT T IB BP ((JVal.num n).toks ++ follow) b a) (hs : SafeNext follow)
    (ha : Anch T ((JVal.num n).toks ++ follow) follow a) :
    numberBytes (mkIndex T IB BP) a = n.bytes := by
  obtain ⟨tC, hd⟩ := drop_at h
  have hd' : T.drop a = n.bytes ++ (toksBytes follow ++ tC) := by
    rw [hd]; simp [JVal.toks, toksBytes, Tok.bytes]
  have hnext : ∀ c, (toksBytes follow ++ tC).head? = some c → isNumberByte c = false := by
    intro c hc
    cases hf : toksBytes follow with
    | cons f fs => rw [hf] at hc; exact hs c (by rw [hf]; simpa using hc)
    | nil =>
      rcases ha with ha | ha
      · exact absurd hf ha
      · have hl := congrArg List.length hd
        simp [List.length_drop, toksBytes_append, hf] at hl ha
        have : tC = [] := List.eq_nil_of_length_eq_zero (by omega)
        rw [hf, this] at hc; simp at hc
  have hspan : nestedNumberSpan (mkIndex T IB BP) a = a + n.bytes.length := by
    rw [nestedNumberSpan_eq, mkIndex_toList, hd', takeWhile_span _ _ (num_bytes_number n) hnext]
  rw [numberBytes, hspan]
  simp only [mkIndex]
  exact slice_of_drop hd'

/-! ### children of a located container -/

/-- Position of the first of the remaining array items, if any. -/
def itemsHead : JItems → Nat → Option Nat
  | .nil, _ => none
  | .cons .., q => some q

def membersHead : JMembers → Nat → Option Nat
  | .nil, _ => none
  | .cons .., q => some q

theorem treeBp_head (v : JVal) : ∃ r, treeBp v = true :: r := by
  obtain ⟨m, hm, _⟩ := treeBp_shape v; exact ⟨_, hm⟩

theorem itemsBp_head (r : JItems) (post : List Bool) :
    ((itemsBp r ++ false :: post).head? = some true ↔ ∃ q, itemsHead r q = some q) ∧
    ((itemsBp r ++ false :: post).head? = some true ∨ itemsHead r 0 = none) := by
  cases r with
  | nil => simp [itemsBp, itemsHead]
  | cons ws0 v ws1 rest =>
    obtain ⟨t, ht⟩ := treeBp_head v
    simp [itemsBp, itemsHead, ht]

theorem siblingsFrom_none (x : Index) (N : Nat) : siblingsFrom x N none = [] := by
  cases N <;> rfl

mutual
  def depth : JVal → Nat
    | .lit _ | .num _ | .str _ | .arr0 _ | .obj0 _ => 1
    | .arr _ v _ rest => 1 + max (depth v) (itemsDepth rest)
    | .obj _ _ _ _ v _ rest => 1 + max (depth v) (membersDepth rest)
  def itemsDepth : JItems → Nat
    | .nil => 1
    | .cons _ v _ rest => max (depth v) (itemsDepth rest)
  def membersDepth : JMembers → Nat
    | .nil => 1
    | .cons _ _ _ _ v _ rest => max (depth v) (membersDepth rest)
end

theorem firstChild_some {T : List Byte} {IB BP : List Bool} {toks : List Tok} {b a : Nat}
    (h : LocT T IB BP toks b a) (r : List Bool) (hr : toksStdBp toks = true :: true :: r) :
    firstChild (mkIndex T IB BP) b = some (b + 1) := by
  obtain ⟨pre, post, hB, hb⟩ := bp_at h
  subst hb
  have h0 := isOpen_at T IB pre (toksStdBp toks) post 0 (by rw [hr]; simp)
  have h1 := isOpen_at T IB pre (toksStdBp toks) post 1 (by rw [hr]; simp)
  rw [← hB] at h0 h1
  rw [hr] at h0 h1
  have hl : (mkIndex T IB BP).P.bpLen = BP.length := rfl
  have hlen : pre.length + 1 + 1 ≤ BP.length := by rw [hB, hr]; simp; omega
  simp only [firstChild, hl]
  simp at h0 h1
  simp [h0, h1]; omega

theorem firstChild_none {T : List Byte} {IB BP : List Bool} {toks : List Tok} {b a : Nat}
    (h : LocT T IB BP toks b a) (r : List Bool) (hr : toksStdBp toks = true :: false :: r) :
    firstChild (mkIndex T IB BP) b = none := by
  obtain ⟨pre, post, hB, hb⟩ := bp_at h
  subst hb
  have h1 := isOpen_at T IB pre (toksStdBp toks) post 1 (by rw [hr]; simp)
  rw [← hB, hr] at h1
  simp at h1
  simp only [firstChild]
  split
  · rfl
  · simp [h1]

/-- `next_sibling` of a located value: the position after its code when an open follows. -/
theorem nextSibling_loc {T : List Byte} {IB BP : List Bool} (v : JVal) (follow : List Tok) {b a : Nat}
    (h : LocT T IB BP (v.toks ++ follow) b a) :
    ∃ post, BP.drop (b + (treeBp v).length) = toksStdBp follow ++ post ∧
      nextSibling (mkIndex T IB BP) b =
        if (toksStdBp follow ++ post).head? = some true then some (b + (treeBp v).length) else none := by
  obtain ⟨pre, post, hB, hb⟩ := bp_at h
  subst hb
  rw [toksStdBp_append, treeBp_eq] at hB
  refine ⟨post, ?_, ?_⟩
  · rw [hB, List.append_assoc, List.append_assoc, ← List.length_append, ← List.append_assoc,
      List.drop_left']
    rfl
  · have hB' : BP = pre ++ treeBp v ++ (toksStdBp follow ++ post) := by rw [hB]; simp
    rw [hB']; exact nextSibling_at T IB pre _ v

theorem itemsNext (rest : JItems) (X : List Bool) (q : Nat) :
    (if (itemsBp rest ++ false :: X).head? = some true then some q else none) = itemsHead rest q := by
  cases rest with
  | nil => simp [itemsBp, itemsHead]
  | cons ws0 v ws1 r =>
    obtain ⟨t, ht⟩ := treeBp_head v
    simp [itemsBp, itemsHead, ht]

theorem membersNext (rest : JMembers) (X : List Bool) (q : Nat) :
    (if (membersBp rest ++ false :: X).head? = some true then some q else none) = membersHead rest q := by
  cases rest with
  | nil => simp [membersBp, membersHead]
  | cons ws0 k ws1 ws2 v ws3 r => simp [membersBp, membersHead]

theorem toksBytes_single (t : Tok) : toksBytes [t] = t.bytes := by simp [toksBytes]

theorem anch_inner {T : List Byte} {toks follow : List Tok} {a : Nat} (h : toksBytes follow ≠ []) :
    Anch T toks follow a := Or.inl h

theorem bytes_ne_nil_of_mem (ts : List Tok) (t : Tok) (h : t ∈ ts) : toksBytes ts ≠ [] := by
  intro hn
  have hl : (toksBytes ts).length = 0 := by rw [hn]; rfl
  induction ts with
  | nil => simp at h
  | cons u us ih =>
    rw [toksBytes_cons, List.length_append] at hl
    have := tok_bytes_pos u
    omega

/-- Navigation below a located value reconstructs the value. -/
theorem leaf_nav {T : List Byte} {IB BP : List Bool} (v : JVal) (follow : List Tok) (b a fuel : Nat)
    (h : LocT T IB BP (v.toks ++ follow) b a) (hs : SafeNext follow)
    (ha : Anch T (v.toks ++ follow) follow a)
    (hleaf : v.isContainer = false) :
    reconstruct (mkIndex T IB BP) (fuel + 1) b = valueOf v := by
  rw [reconstruct, value_at v follow h]
  cases v with
  | lit l => cases l <;> simp [kindOf, valueOf]
  | num n => simp only [kindOf, valueOf]; rw [numberBytes_at n follow h hs ha]
  | str body => simp only [kindOf, valueOf]; rw [asStr_at body follow h]
  | arr0 ws => simp [JVal.isContainer] at hleaf
  | arr ws0 v ws1 rest => simp [JVal.isContainer] at hleaf
  | obj0 ws => simp [JVal.isContainer] at hleaf
  | obj ws0 k ws1 ws2 v ws3 rest => simp [JVal.isContainer] at hleaf

theorem safe_colon (ts : List Tok) : SafeNext (.colon :: ts) := safe_cons _ _ _ _ rfl (by decide)

theorem toksStdBp_sep (ws1 ws2 : Ws) : toksStdBp (wsToks ws1 ++ (Tok.colon :: wsToks ws2)) = [] := by
  simp [toksStdBp_append, toksStdBp_cons, toksStdBp_ws, tokStdBp]

/-- One object field `"k" ws : ws v` located at BP position `kp`: `uncons` yields the key at `kp`,
the value at `kp + 2`, and the rest starts at the value's next sibling; the key decodes to `k`. -/
theorem field_step {T : List Byte} {IB BP : List Bool} (k : List SChar) (ws1 ws2 : Ws) (v : JVal)
    (G : List Tok) {kp a fuel : Nat}
    (h : LocT T IB BP ((JVal.str k).toks ++ ((wsToks ws1 ++ (Tok.colon :: wsToks ws2)) ++ (v.toks ++ G))) kp a) :
    ∃ a', LocT T IB BP (v.toks ++ G) (kp + 2) a' ∧
      nextSibling (mkIndex T IB BP) kp = some (kp + 2) ∧
      reconstruct (mkIndex T IB BP) (fuel + 1) kp = .str (decodeBody (k.flatMap SChar.bytes)) := by
  have hsafe : SafeNext ((wsToks ws1 ++ (Tok.colon :: wsToks ws2)) ++ (v.toks ++ G)) := by
    rw [List.append_assoc]; exact safe_ws _ _ (safe_colon _)
  have hanch : Anch T ((JVal.str k).toks ++ ((wsToks ws1 ++ (Tok.colon :: wsToks ws2)) ++ (v.toks ++ G)))
      ((wsToks ws1 ++ (Tok.colon :: wsToks ws2)) ++ (v.toks ++ G)) a :=
    anch_inner (bytes_ne_nil_of_mem _ Tok.colon (by simp))
  have hk := leaf_nav (JVal.str k) _ kp a fuel h hsafe hanch rfl
  obtain ⟨post, _, hns⟩ := nextSibling_loc (JVal.str k) _ h
  obtain ⟨t, ht⟩ := treeBp_head v
  have hhead : (toksStdBp ((wsToks ws1 ++ (Tok.colon :: wsToks ws2)) ++ (v.toks ++ G)) ++ post).head? = some true := by
    rw [toksStdBp_append, toksStdBp_sep, toksStdBp_append, treeBp_eq, ht]; rfl
  rw [if_pos hhead] at hns
  have h2 := (h.split).2
  have h3 := (h2.split).2
  have e1 : (toksStdBp (JVal.str k).toks).length = 2 := rfl
  have e2 : (toksStdBp (wsToks ws1 ++ (Tok.colon :: wsToks ws2))).length = 0 := by rw [toksStdBp_sep]; rfl
  rw [e1, e2] at h3
  exact ⟨_, h3, by simpa [treeBp] using hns, by simpa [valueOf] using hk⟩

theorem depth_pos (v : JVal) : 1 ≤ depth v := by cases v <;> simp [depth] <;> omega

theorem toksStdBp_open_ws (t : Tok) (ht : tokStdBp t = [true]) (w : Ws) :
    (toksStdBp (t :: wsToks w)).length = 1 := by
  rw [toksStdBp_cons, toksStdBp_ws, ht]; rfl

theorem toksStdBp_comma_ws (w : Ws) : (toksStdBp (Tok.comma :: wsToks w)).length = 0 := by
  rw [toksStdBp_cons, toksStdBp_ws]; rfl

theorem itemsHead_cons (ws0 : Ws) (v : JVal) (ws1 : Ws) (r : JItems) (q : Nat) :
    itemsHead (.cons ws0 v ws1 r) q = some q := rfl
theorem membersHead_cons (ws0 : Ws) (k : List SChar) (ws1 ws2 : Ws) (v : JVal) (ws3 : Ws) (r : JMembers) (q : Nat) :
    membersHead (.cons ws0 k ws1 ws2 v ws3 r) q = some q := rfl

theorem fieldsList_none (x : Index) (N : Nat) : fieldsList x N none = [] := by
  cases N <;> simp [fieldsList, fieldsUncons]

mutual
  theorem val_nav (T : List Byte) (IB BP : List Bool) : ∀ (v : JVal) (follow : List Tok) (b a fuel : Nat),
      LocT T IB BP (v.toks ++ follow) b a → SafeNext follow → Anch T (v.toks ++ follow) follow a →
      depth v ≤ fuel → reconstruct (mkIndex T IB BP) fuel b = valueOf v
    | .lit l, follow, b, a, fuel, h, hs, ha, hd => by
      obtain ⟨f, rfl⟩ : ∃ f, fuel = f + 1 := ⟨fuel - 1, by simp [depth] at hd; omega⟩
      exact leaf_nav _ follow b a f h hs ha rfl
    | .num n, follow, b, a, fuel, h, hs, ha, hd => by
      obtain ⟨f, rfl⟩ : ∃ f, fuel = f + 1 := ⟨fuel - 1, by simp [depth] at hd; omega⟩
      exact leaf_nav _ follow b a f h hs ha rfl
    | .str s, follow, b, a, fuel, h, hs, ha, hd => by
      obtain ⟨f, rfl⟩ : ∃ f, fuel = f + 1 := ⟨fuel - 1, by simp [depth] at hd; omega⟩
      exact leaf_nav _ follow b a f h hs ha rfl
    | .arr0 ws, follow, b, a, fuel, h, hs, ha, hd => by
      obtain ⟨f, rfl⟩ : ∃ f, fuel = f + 1 := ⟨fuel - 1, by simp [depth] at hd; omega⟩
      have hfc := firstChild_none h (toksStdBp follow) (by rw [toksStdBp_append, treeBp_eq]; rfl)
      rw [reconstruct, value_at _ follow h]
      simp [kindOf, children, hfc, siblingsFrom_none, valueOf]
    | .obj0 ws, follow, b, a, fuel, h, hs, ha, hd => by
      obtain ⟨f, rfl⟩ : ∃ f, fuel = f + 1 := ⟨fuel - 1, by simp [depth] at hd; omega⟩
      have hfc := firstChild_none h (toksStdBp follow) (by rw [toksStdBp_append, treeBp_eq]; rfl)
      rw [reconstruct, value_at _ follow h]
      simp [kindOf, objectFields, hfc, fieldsList_none, valueOf]
    | .arr ws0 v ws1 rest, follow, b, a, fuel, h, hs, ha, hd => by
      obtain ⟨f, rfl⟩ : ∃ f, fuel = f + 1 := ⟨fuel - 1, by simp [depth] at hd; omega⟩
      have hdv : depth v ≤ f := by simp [depth] at hd; omega
      have hdr : itemsDepth rest ≤ f := by simp [depth] at hd; omega
      obtain ⟨tv, htv⟩ := treeBp_head v
      have hfc := firstChild_some h (tv ++ itemsBp rest ++ [false] ++ toksStdBp follow)
        (by rw [toksStdBp_append, treeBp_eq]; simp [treeBp, htv])
      have htoks : (JVal.arr ws0 v ws1 rest).toks ++ follow =
          (Tok.lbracket :: wsToks ws0) ++ (v.toks ++ (wsToks ws1 ++ (rest.toks ++ (Tok.rbracket :: follow)))) := by
        simp [JVal.toks]
      have h' := h
      rw [htoks] at h'
      have h2 := (h'.split).2
      rw [toksStdBp_open_ws _ rfl] at h2
      have hsF : SafeNext (wsToks ws1 ++ (rest.toks ++ (Tok.rbracket :: follow))) :=
        safe_ws _ _ (safe_items rest follow)
      have haF : toksBytes (wsToks ws1 ++ (rest.toks ++ (Tok.rbracket :: follow))) ≠ [] :=
        bytes_ne_nil_of_mem _ Tok.rbracket (by simp)
      have hv := val_nav T IB BP v _ (b + 1) _ f h2 hsF (anch_inner haF) hdv
      obtain ⟨post, _, hns⟩ := nextSibling_loc v _ h2
      have hhead : toksStdBp (wsToks ws1 ++ (rest.toks ++ (Tok.rbracket :: follow))) ++ post =
          itemsBp rest ++ false :: (toksStdBp follow ++ post) := by
        simp [toksStdBp_append, toksStdBp_ws, toksStdBp_cons, itemsBp_eq, tokStdBp]
      rw [hhead, itemsNext] at hns
      have h3 := ((h2.split).2.split).2
      rw [treeBp_eq, toksStdBp_ws] at h3
      have hbp : BP.length < BP.length + (b + 1 + (treeBp v).length + 0) := by omega
      have hitems := items_nav T IB BP rest follow (b + 1 + (treeBp v).length + 0) _ BP.length f
        (by simpa using h3) hdr hbp
      rw [reconstruct, value_at _ follow h]
      simp only [kindOf, children, hfc, valueOf]
      have hN : (mkIndex T IB BP).P.bpLen + 1 = BP.length + 1 := rfl
      rw [hN, siblingsFrom, hns]
      simp only [List.map_cons, hv]
      simp only [Nat.add_zero] at hitems
      rw [hitems]
    | .obj ws0 k ws1 ws2 v ws3 rest, follow, b, a, fuel, h, hs, ha, hd => by
      obtain ⟨f, rfl⟩ : ∃ f, fuel = f + 1 := ⟨fuel - 1, by simp [depth] at hd; omega⟩
      have hdv : depth v ≤ f := by simp [depth] at hd; omega
      have hdr : membersDepth rest ≤ f := by simp [depth] at hd; omega
      obtain ⟨f', rfl⟩ : ∃ f', f = f' + 1 := ⟨f - 1, by have := depth_pos v; omega⟩
      have hfc := firstChild_some h (false :: (treeBp v ++ membersBp rest ++ [false] ++ toksStdBp follow))
        (by rw [toksStdBp_append, treeBp_eq]; simp [treeBp])
      have htoks : (JVal.obj ws0 k ws1 ws2 v ws3 rest).toks ++ follow =
          (Tok.lbrace :: wsToks ws0) ++ ((JVal.str k).toks ++ ((wsToks ws1 ++ (Tok.colon :: wsToks ws2)) ++
            (v.toks ++ (wsToks ws3 ++ (rest.toks ++ (Tok.rbrace :: follow)))))) := by
        simp [JVal.toks]
      have h' := h
      rw [htoks] at h'
      have h2 := (h'.split).2
      rw [toksStdBp_open_ws _ rfl] at h2
      obtain ⟨a', hvloc, hnsk, hkval⟩ := field_step (fuel := f') k ws1 ws2 v _ h2
      have hsF : SafeNext (wsToks ws3 ++ (rest.toks ++ (Tok.rbrace :: follow))) :=
        safe_ws _ _ (safe_members rest follow)
      have haF : toksBytes (wsToks ws3 ++ (rest.toks ++ (Tok.rbrace :: follow))) ≠ [] :=
        bytes_ne_nil_of_mem _ Tok.rbrace (by simp)
      have hv := val_nav T IB BP v _ (b + 1 + 2) _ (f' + 1) hvloc hsF (anch_inner haF) hdv
      obtain ⟨post, _, hns⟩ := nextSibling_loc v _ hvloc
      have hhead : toksStdBp (wsToks ws3 ++ (rest.toks ++ (Tok.rbrace :: follow))) ++ post =
          membersBp rest ++ false :: (toksStdBp follow ++ post) := by
        simp [toksStdBp_append, toksStdBp_ws, toksStdBp_cons, membersBp_eq, tokStdBp]
      rw [hhead, membersNext] at hns
      have h3 := ((hvloc.split).2.split).2
      rw [treeBp_eq, toksStdBp_ws] at h3
      have hbp : BP.length < BP.length + (b + 1 + 2 + (treeBp v).length + 0) := by omega
      have hmem := members_nav T IB BP rest follow (b + 1 + 2 + (treeBp v).length + 0) _ BP.length (f' + 1)
        (by simpa using h3) hdr hbp
      rw [reconstruct, value_at _ follow h]
      simp only [kindOf, objectFields, hfc, valueOf]
      have hN : (mkIndex T IB BP).P.bpLen + 1 = BP.length + 1 := rfl
      rw [hN, fieldsList]
      simp only [fieldsUncons, hnsk, hns, List.map_cons, hkval, hv]
      simp only [Nat.add_zero] at hmem
      rw [hmem]
  theorem items_nav (T : List Byte) (IB BP : List Bool) : ∀ (r : JItems) (follow : List Tok) (q a N fuel : Nat),
      LocT T IB BP (r.toks ++ (Tok.rbracket :: follow)) q a → itemsDepth r ≤ fuel → BP.length < N + q →
      (siblingsFrom (mkIndex T IB BP) N (itemsHead r q)).map (reconstruct (mkIndex T IB BP) fuel) = itemsOf r
    | .nil, follow, q, a, N, fuel, h, hd, hN => by
      simp [itemsHead, siblingsFrom_none, itemsOf]
    | .cons ws0 v ws1 rest, follow, q, a, N, fuel, h, hd, hN => by
      have hdv : depth v ≤ fuel := by simp [itemsDepth] at hd; omega
      have hdr : itemsDepth rest ≤ fuel := by simp [itemsDepth] at hd; omega
      have htoks : (JItems.cons ws0 v ws1 rest).toks ++ (Tok.rbracket :: follow) =
          (Tok.comma :: wsToks ws0) ++ (v.toks ++ (wsToks ws1 ++ (rest.toks ++ (Tok.rbracket :: follow)))) := by
        simp [JItems.toks]
      rw [htoks] at h
      have h2 := (h.split).2
      rw [toksStdBp_comma_ws] at h2
      have hsF : SafeNext (wsToks ws1 ++ (rest.toks ++ (Tok.rbracket :: follow))) :=
        safe_ws _ _ (safe_items rest follow)
      have haF : toksBytes (wsToks ws1 ++ (rest.toks ++ (Tok.rbracket :: follow))) ≠ [] :=
        bytes_ne_nil_of_mem _ Tok.rbracket (by simp)
      have hv := val_nav T IB BP v _ (q + 0) _ fuel h2 hsF (anch_inner haF) hdv
      obtain ⟨post, _, hns⟩ := nextSibling_loc v _ h2
      have hhead : toksStdBp (wsToks ws1 ++ (rest.toks ++ (Tok.rbracket :: follow))) ++ post =
          itemsBp rest ++ false :: (toksStdBp follow ++ post) := by
        simp [toksStdBp_append, toksStdBp_ws, toksStdBp_cons, itemsBp_eq, tokStdBp]
      rw [hhead, itemsNext] at hns
      have h3 := ((h2.split).2.split).2
      rw [treeBp_eq, toksStdBp_ws] at h3
      obtain ⟨pre, post', hB, hb⟩ := bp_at h2
      have hqlt : q < BP.length := by
        have := treeBp_length_pos v
        rw [hB, toksStdBp_append, treeBp_eq]; simp; omega
      obtain ⟨N', rfl⟩ : ∃ N', N = N' + 1 := ⟨N - 1, by omega⟩
      have hitems := items_nav T IB BP rest follow (q + 0 + (treeBp v).length + 0) _ N' fuel
        (by simpa using h3) hdr (by have := treeBp_length_pos v; omega)
      simp only [Nat.add_zero] at hitems hns hv
      simp only [itemsHead_cons, siblingsFrom, hns, List.map_cons, hv, itemsOf, hitems]
  theorem members_nav (T : List Byte) (IB BP : List Bool) : ∀ (r : JMembers) (follow : List Tok) (q a N fuel : Nat),
      LocT T IB BP (r.toks ++ (Tok.rbrace :: follow)) q a → membersDepth r ≤ fuel → BP.length < N + q →
      (fieldsList (mkIndex T IB BP) N (membersHead r q)).map
        (fun kv => (reconstruct (mkIndex T IB BP) fuel kv.1, reconstruct (mkIndex T IB BP) fuel kv.2)) = membersOf r
    | .nil, follow, q, a, N, fuel, h, hd, hN => by
      simp [membersHead, fieldsList_none, membersOf]
    | .cons ws0 k ws1 ws2 v ws3 rest, follow, q, a, N, fuel, h, hd, hN => by
      have hdv : depth v ≤ fuel := by simp [membersDepth] at hd; omega
      have hdr : membersDepth rest ≤ fuel := by simp [membersDepth] at hd; omega
      obtain ⟨f', rfl⟩ : ∃ f', fuel = f' + 1 := ⟨fuel - 1, by have := depth_pos v; omega⟩
      have htoks : (JMembers.cons ws0 k ws1 ws2 v ws3 rest).toks ++ (Tok.rbrace :: follow) =
          (Tok.comma :: wsToks ws0) ++ ((JVal.str k).toks ++ ((wsToks ws1 ++ (Tok.colon :: wsToks ws2)) ++
            (v.toks ++ (wsToks ws3 ++ (rest.toks ++ (Tok.rbrace :: follow)))))) := by
        simp [JMembers.toks, JVal.toks]
      rw [htoks] at h
      have h2 := (h.split).2
      rw [toksStdBp_comma_ws] at h2
      obtain ⟨a', hvloc, hnsk, hkval⟩ := field_step (fuel := f') k ws1 ws2 v _ h2
      have hsF : SafeNext (wsToks ws3 ++ (rest.toks ++ (Tok.rbrace :: follow))) :=
        safe_ws _ _ (safe_members rest follow)
      have haF : toksBytes (wsToks ws3 ++ (rest.toks ++ (Tok.rbrace :: follow))) ≠ [] :=
        bytes_ne_nil_of_mem _ Tok.rbrace (by simp)
      have hv := val_nav T IB BP v _ (q + 0 + 2) _ (f' + 1) hvloc hsF (anch_inner haF) hdv
      obtain ⟨post, _, hns⟩ := nextSibling_loc v _ hvloc
      have hhead : toksStdBp (wsToks ws3 ++ (rest.toks ++ (Tok.rbrace :: follow))) ++ post =
          membersBp rest ++ false :: (toksStdBp follow ++ post) := by
        simp [toksStdBp_append, toksStdBp_ws, toksStdBp_cons, membersBp_eq, tokStdBp]
      rw [hhead, membersNext] at hns
      have h3 := ((hvloc.split).2.split).2
      rw [treeBp_eq, toksStdBp_ws] at h3
      obtain ⟨pre, post', hB, hb⟩ := bp_at h2
      have hqlt : q < BP.length := by
        rw [hB, toksStdBp_append]; simp [JVal.toks, toksStdBp, tokStdBp]; omega
      obtain ⟨N', rfl⟩ : ∃ N', N = N' + 1 := ⟨N - 1, by omega⟩
      have hmem := members_nav T IB BP rest follow (q + 0 + 2 + (treeBp v).length + 0) _ N' (f' + 1)
        (by simpa using h3) hdr (by have := treeBp_length_pos v; omega)
      simp only [Nat.add_zero] at hmem hns hv hnsk hkval
      simp only [membersHead_cons, fieldsList, fieldsUncons, hnsk, hns, List.map_cons, hkval, hv, membersOf, hmem]
end

/-! ### the index built by the library for a document -/

theorem run_ib_length (s : St) (cs : List (BitVec 8)) : (run s cs).ib.length = cs.length := by
  induction cs generalizing s with
  | nil => rfl
  | cons c cs ih => simp [run, ih]

mutual
  theorem treeBp_balanced : ∀ v : JVal, (treeBp v).length = 2 * (treeBp v).count true
    | .lit _ => rfl
    | .num _ => rfl
    | .str _ => rfl
    | .arr0 _ => rfl
    | .obj0 _ => rfl
    | .arr _ v _ rest => by
      have := treeBp_balanced v; have := itemsBp_balanced rest
      simp [treeBp, List.count_append]; omega
    | .obj _ _ _ _ v _ rest => by
      have := treeBp_balanced v; have := membersBp_balanced rest
      simp [treeBp, List.count_append]; omega
  theorem itemsBp_balanced : ∀ r : JItems, (itemsBp r).length = 2 * (itemsBp r).count true
    | .nil => rfl
    | .cons _ v _ rest => by
      have := treeBp_balanced v; have := itemsBp_balanced rest
      simp [itemsBp, List.count_append]; omega
  theorem membersBp_balanced : ∀ r : JMembers, (membersBp r).length = 2 * (membersBp r).count true
    | .nil => rfl
    | .cons _ _ _ _ v _ rest => by
      have := treeBp_balanced v; have := membersBp_balanced rest
      simp [membersBp, List.count_append]; omega
end

/-- `JsonIndex::build` on a document, with the primitives at specification level: IB = node-start
tags, BP = tree encoding. -/
theorem build_doc (f : Bool) (d : Doc) :
    build f false d.text = mkIndex d.text (toksStdIb d.toks) (treeBp d.value) := by
  have href := reference_doc d
  have hlib := (SV.Props.C05.library_index_is_reference f d.text).1
  simp only [build, hlib, referenceWords, countBpBits, Bool.false_eq_true, if_false, mkIndex]
  have hib : bitsOf (pack (reference d.text).ib) d.text.length = (reference d.text).ib := by
    have : (reference d.text).ib.length = d.text.length := run_ib_length _ _
    rw [← this]; exact bitsOf_pack _
  have hbp : bitsOf (pack (reference d.text).bp) (((pack (reference d.text).bp).map popc).sum * 2) =
      (reference d.text).bp := by
    rw [sum_popc_pack, href.2]
    have := treeBp_balanced d.value
    have e : (treeBp d.value).count true * 2 = (treeBp d.value).length := by omega
    rw [e]; exact bitsOf_pack _
  rw [hib, hbp, href.1, href.2]

theorem doc_loc (d : Doc) :
    LocT d.text (toksStdIb d.toks) (treeBp d.value) (d.value.toks ++ wsToks d.ws1) 0
      (toksBytes (wsToks d.ws0)).length := by
  refine ⟨[], [], toksStdIb (wsToks d.ws0), [], toksBytes (wsToks d.ws0), [], ?_, rfl, ?_, ?_, ?_, ?_, rfl⟩
  · simp [toksStdBp_append, toksStdBp_ws, treeBp_eq]
  · simp [Doc.toks, toksStdIb_append]
  · exact toksStdIb_length _
  · simp [toksStdIb_ws, List.count_replicate]
  · simp [Doc.text, Doc.toks, toksBytes_append]

/-- Navigating the index of a document from the root reconstructs the document's value. -/
theorem navigate_doc (f : Bool) (d : Doc) (fuel : Nat) (hf : depth d.value ≤ fuel) :
    reconstruct (build f false d.text) fuel 0 = valueOf d.value := by
  rw [build_doc]
  refine val_nav _ _ _ d.value (wsToks d.ws1) 0 _ fuel (doc_loc d) ?_ ?_ hf
  · simpa using safe_ws d.ws1 [] safe_nil
  · right
    simp [Doc.text, Doc.toks, toksBytes_append]

/-! ### field lookup by name -/

/-- The decoded key of a field whose key cursor is `k`: `none` when the key is not a string value,
`some (error _)` when it does not decode. -/
def keyOf (x : Index) (k : Nat) : Option (Except JErr (List Byte)) :=
  match value x k with
  | .str s => some (asStr x s)
  | _ => none

/-- Lookup over the list of fields (in `uncons` order): the value cursor of the last field whose key
decodes to `name`; the whole lookup fails as soon as a string key does not decode. -/
def findSpec (x : Index) (name : List Byte) : List (Nat × Nat) → Option Nat → Option Nat
  | [], r => r
  | (k, v) :: fs, r =>
    match keyOf x k with
    | some (.error _) => none
    | some (.ok key) => findSpec x name fs (if key = name then some v else r)
    | none => findSpec x name fs r

theorem findLoop_eq (x : Index) (name : List Byte) (N : Nat) (fields r : Option Nat) :
    findLoop x name N fields r = findSpec x name (fieldsList x N fields) r := by
  induction N generalizing fields r with
  | zero => rfl
  | succ N ih =>
    simp only [findLoop, fieldsList]
    cases hu : fieldsUncons x fields with
    | none => rfl
    | some t =>
      obtain ⟨k, v, rest⟩ := t
      simp only [findSpec, keyOf]
      cases hv : value x k <;> simp only [ih]
      rename_i s
      cases asStr x s <;> simp only [ih]

/-- Does the key at cursor `k` decode to `name`? -/
def keyIs (x : Index) (name : List Byte) (k : Nat) : Bool :=
  match keyOf x k with
  | some (.ok key) => key == name
  | _ => false

/-- When every key decodes, the lookup returns the last field (in source order) with that name. -/
theorem findSpec_last (x : Index) (name : List Byte) (fs : List (Nat × Nat)) (r : Option Nat)
    (hok : ∀ kv ∈ fs, ∃ key, keyOf x kv.1 = some (.ok key)) :
    findSpec x name fs r =
      match (fs.filter fun kv => keyIs x name kv.1).getLast? with
      | some kv => some kv.2
      | none => r := by
  induction fs generalizing r with
  | nil => rfl
  | cons kv fs ih =>
    obtain ⟨k, v⟩ := kv
    obtain ⟨key, hkey⟩ := hok (k, v) (by simp)
    have ih' := fun r => ih r (fun kv h => hok kv (by simp [h]))
    have hki : keyIs x name k = (key == name) := by simp only [keyIs]; rw [show keyOf x k = _ from hkey]
    simp only [findSpec, hkey, ih', List.filter_cons, hki]
    by_cases hk : key = name
    · subst hk
      simp only [if_true, beq_self_eq_true]
      cases hl : (fs.filter fun kv => keyIs x key kv.1).getLast? with
      | none =>
        have : fs.filter (fun kv => keyIs x key kv.1) = [] := by
          simpa [List.getLast?_eq_none_iff] using hl
        simp [this]
      | some w =>
        have hne : fs.filter (fun kv => keyIs x key kv.1) ≠ [] := by
          intro h; rw [h] at hl; simp at hl
        rw [List.getLast?_cons_of_ne_nil hne] <;> simp [hl]
    · have : (key == name) = false := by simpa using hk
      simp [hk, this]

end SV.JsonNav
