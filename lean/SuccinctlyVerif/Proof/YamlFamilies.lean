/-
Proof/YamlFamilies — explicit finite families of presentation-annotated streams, one per layer of
`render_load` that is not yet proved for all streams; `loadsBack` is evaluated on them by the kernel.
-/
import SuccinctlyVerif.Proof.YamlRoundTrip
namespace SV.YamlRef

/-- The stream is admissible and `loadChars` returns exactly its trees. -/
def loadsBack (s : PStream) : Bool :=
  admissible s && (match loadChars s.chars with
    | .ok ts => beqList ts s.trees
    | .error _ => false)

private def c (s : String) : Str := s.toList
private def it (n : PNode) (r : PItems) : PItems := .cons {} n r
private def en (k : String) (ks : KStyle) (n : PNode) (r : PEntries) : PEntries := .cons {} (c k) ks n r

/-- Layer 2: block mappings and sequences (nested with several indentation steps, a sequence at its
key's indentation, compact collections after `- `, extra spaces after indicators), plain / single /
double scalars and keys, all null / bool / int spellings. -/
def familyBlock : List PStream :=
  let d1 : PNode := .map false 0 false
      (en "name" .plain (.str (c "a b:c#x") .plain)
      (en "it's" .single (.seq false 0 false (it (.int 7 2) (it (.str (c "- x") .single) (it (.null 4) .nil))))
      (en "k\n" (.double true false) (.map false 3 false (en "in" .plain (.bool false 1) (en "e" .plain (.seq true 0 false .nil) .nil)))
      .nil)))
  let d2 : PNode := .seq false 0 false
      (it (.map false 0 true (en "a" .plain (.int (-1) 0) (en "b" .plain (.str (c "x") (.double false false)) .nil)))
      (it (.seq false 0 true (it (.str (c "p") .plain) (it (.str (c "q") .plain) .nil)))
      (.cons { gap := 2 } (.map false 0 true (en "c" .plain (.seq false 2 false (it (.int 1 3) .nil)) .nil))
      (it (.seq false 4 false (it (.str (c "?deep") .plain) (it (.int 12 4) (it (.int 5 1) .nil)))) .nil))))
  [{ docs := [{ root := d1 }] }, { docs := [{ root := d2, marker := true }] }]

/-- Layer 3: literal and folded block scalars (strip / clip / keep, explicit indentation indicator,
folded lines, interior and trailing blank lines, leading spaces). -/
def familyBlockScalar : List PStream :=
  let d1 : PNode := .map false 0 false
      (en "lit" .plain (.str (c "a\n b\n\nc\n") (.literal .clip 2 false))
      (en "keep" .plain (.str (c "x\n\n\n") (.literal .keep 1 false))
      (en "strip" .plain (.str (c " lead\nz") (.literal .strip 3 true))
      (en "fold" .plain (.str (c "one two three\nfour\n\nfive\n") (.folded .clip 2 false [3, 7]))
      (en "after" .plain (.int 0 0) .nil)))))
  let d2 : PNode := .seq false 0 false
      (it (.str (c "# not a comment\n- x\n") (.literal .keep 2 false))
      (it (.str (c "k: v") (.folded .strip 1 false []))
      (it (.map false 0 true (en "n" .plain (.str (c "deep\n") (.literal .clip 1 true)) .nil)) .nil)))
  [{ docs := [{ root := d1 }] }, { docs := [{ root := d2 }] },
   { docs := [{ root := .str (c "root\nscalar\n") (.literal .clip 2 false), marker := true }] }]

/-- Layer 4: comment lines and blank lines between entries, trailing comments. -/
def familyComments : List PStream :=
  let d1 : PNode := .map false 0 false
      (.cons { fill := [.comment (c " head"), .blank] , trail := some (c " t: 1") } (c "a") .plain (.int 1 0)
      (.cons { fill := [.blank, .comment (c "")], trail := some (c " on key line") } (c "b") .plain
        (.seq false 2 false (.cons { fill := [.comment (c " in")] } (.str (c "x") .plain)
          (.cons { trail := some (c "e") } (.null 4) .nil)))
      (.cons { trail := some (c " hdr") } (c "c") .plain (.str (c "l\n") (.literal .clip 2 false)) .nil)))
  [{ docs := [{ fill := [.comment (c " top"), .blank], root := d1 }] }]

/-- Layer 6: anchors and aliases (scalar and collection anchors, re-definition, alias in flow). -/
def familyAnchors : List PStream :=
  let t1 : Tree := .seq [.int 1, .str (c "x")]
  let d1 : PNode := .map false 0 false
      (en "a" .plain (.anchored (c "s1") (.str (c "v") .plain))
      (en "b" .plain (.alias (c "s1") (.str (c "v")))
      (en "c" .plain (.anchored (c "col") (.seq false 2 false (it (.int 1 0) (it (.str (c "x") .plain) .nil))))
      (en "d" .plain (.seq true 0 false (it (.alias (c "col") t1) (it (.anchored (c "s1") (.int 9 0)) (it (.alias (c "s1") (.int 9)) .nil))))
      .nil))))
  [{ docs := [{ root := d1 }] }]

/-- Layer 7: several documents, `---` and `...` markers, filler between documents. -/
def familyMultiDoc : List PStream :=
  [{ docs := [{ root := .str (c "first") .plain },
              { marker := true, endMarker := true, root := .map false 0 false (en "k" .plain (.int 1 0) .nil) },
              { marker := true, fill := [.comment (c " between")], root := .seq true 0 false (it (.null 0) .nil) },
              { marker := true, root := .null 4 }] },
   { docs := [{ marker := true, root := .int 5 0, rootMeta := { trail := some (c " c") } },
              { marker := true, root := .str (c "b\n") (.literal .keep 2 false) },
              { marker := true, root := .bool true 0 }], br := .crlf }]

end SV.YamlRef
