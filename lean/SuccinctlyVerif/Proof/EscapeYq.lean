/-
Proof/EscapeYq — C09: the byte-level span-copy writer `write_json_body_yq` equals the
per-character description `yqChar`, its scanner hits never split a character, the scalar scanner
tier, and where the conventions differ.
-/
import SuccinctlyVerif.Proof.Escape
import SuccinctlyVerif.Proof.EscapeRoundTrip
import SuccinctlyVerif.Proof.Utf8
set_option linter.unusedSimpArgs false
namespace SV.Escape
open SV SV.Utf8 SV.Chunked

/-! ### list helpers -/

theorem take_takeWhile_len {α} (p : α → Bool) (l : List α) : l.take (l.takeWhile p).length = l.takeWhile p := by
  induction l with
  | nil => rfl
  | cons b r ih =>
    by_cases h : p b
    · simp [List.takeWhile_cons, h, ih]
    · simp [List.takeWhile_cons, h]

theorem drop_takeWhile_len {α} (p : α → Bool) (l : List α) : l.drop (l.takeWhile p).length = l.dropWhile p := by
  induction l with
  | nil => rfl
  | cons b r ih =>
    by_cases h : p b
    · simp [List.takeWhile_cons, List.dropWhile_cons, h, ih]
    · simp [List.takeWhile_cons, List.dropWhile_cons, h]

theorem dropWhile_head {α} (p : α → Bool) (l : List α) (b : α) (r : List α) (h : l.dropWhile p = b :: r) :
    p b = false := by
  induction l with
  | nil => simp at h
  | cons x xs ih =>
    by_cases hx : p x
    · simp only [List.dropWhile_cons, hx, if_true] at h; exact ih h
    · simp only [List.dropWhile_cons, hx] at h
      simp only [Bool.false_eq_true, if_false, List.cons.injEq] at h
      rw [← h.1]; simpa using hx

theorem all_takeWhile {α} (p : α → Bool) (l : List α) : ∀ x ∈ l.takeWhile p, p x = true := by
  induction l with
  | nil => simp
  | cons b r ih =>
    by_cases h : p b
    · simp only [List.takeWhile_cons, h, if_true, List.mem_cons]
      rintro x (rfl | hx)
      · exact h
      · exact ih x hx
    · simp [List.takeWhile_cons, h]

theorem dropWhile_length_le {α} (p : α → Bool) (l : List α) : (l.dropWhile p).length ≤ l.length := by
  induction l with
  | nil => simp
  | cons b r ih =>
    by_cases h : p b
    · simp only [List.dropWhile_cons, h, if_true, List.length_cons]; omega
    · simp [List.dropWhile_cons, h]

/-! ### scalar tier -/

/-- `scanner_eq`, scalar tier: `json_escape::scalar` returns the first escapable index `≥ start`, else
`len`; it panics (slice bound) exactly for `start > len`. -/
theorem scalarFind_eq (bytes : List (BitVec 8)) (start : Nat) :
    scalarFind bytes start = if start > bytes.length then none else some (firstEscapeSpec bytes start) := by
  unfold scalarFind firstEscapeSpec
  by_cases h : start > bytes.length
  · simp [h]
  · simp only [h, if_false, Option.some.injEq]
    by_cases h2 : start ≥ bytes.length
    · have : bytes.drop start = [] := List.drop_eq_nil_of_le h2
      simp [h2, this, scanTail]
    · simp only [h2, if_false]
      rw [← scanTail_takeWhile]
      cases scanTail needsEscape (bytes.drop start) with
      | some i => rfl
      | none => simp; omega

/-! ### the byte-level yq writer -/

theorem flatMap_yqByte_clean (l : List (BitVec 8)) (h : ∀ x ∈ l, needsEscape x = false) :
    l.flatMap yqByte = l := by
  induction l with
  | nil => rfl
  | cons b r ih =>
    have hb := h b (by simp)
    simp only [List.flatMap_cons, yqByte, hb, Bool.false_eq_true, if_false]
    rw [ih (fun x hx => h x (by simp [hx]))]; rfl

/-- Span copying between scanner hits = escaping byte by byte. -/
theorem writeYqBytes_eq : ∀ (f : Nat) (rest : List (BitVec 8)), rest.length < f →
    writeYqBytes f rest = rest.flatMap yqByte := by
  intro f
  induction f with
  | zero => intro rest h; omega
  | succ f ih =>
    intro rest h
    match rest with
    | [] => simp [writeYqBytes]
    | x :: xs =>
      simp only [writeYqBytes, findWith_eq avx2Scan avx2Scan_eq]
      have hpos : firstEscapeSpec (x :: xs) 0 =
          ((x :: xs).takeWhile (fun b => !needsEscape b)).length := by
        simp [firstEscapeSpec]
      rw [hpos, take_takeWhile_len, drop_takeWhile_len]
      have hsplit := List.takeWhile_append_dropWhile (p := fun b => !needsEscape b) (l := x :: xs)
      have hclean : ((x :: xs).takeWhile (fun b => !needsEscape b)).flatMap yqByte =
          (x :: xs).takeWhile (fun b => !needsEscape b) :=
        flatMap_yqByte_clean _ (fun y hy => by simpa using all_takeWhile _ _ y hy)
      conv => rhs; rw [← hsplit, List.flatMap_append, hclean]
      congr 1
      cases hd : (x :: xs).dropWhile (fun b => !needsEscape b) with
      | nil => rfl
      | cons b r =>
        have hb : needsEscape b = true := by simpa using dropWhile_head _ _ _ _ hd
        have hlen : r.length < f := by
          have := dropWhile_length_le (fun b => !needsEscape b) (x :: xs)
          rw [hd] at this; simp only [List.length_cons] at this h; omega
        simp only [List.flatMap_cons, yqByte, hb, if_true, ih r hlen]

theorem high_not_escape : ∀ b : BitVec 8, 0x80#8 ≤ b → needsEscape b = false := by decide

theorem ofNat_high (n : Nat) (h1 : 0x80 ≤ n) (h2 : n < 256) : needsEscape (BitVec.ofNat 8 n) = false := by
  apply high_not_escape
  rw [BitVec.le_def]
  simp only [BitVec.toNat_ofNat]
  omega

/-- ASCII characters: escaping the one byte = encoding the escaped character (128 cases). -/
theorem yq_char_ascii : ∀ c : Fin 128, (encode c.val).flatMap yqByte = encodeAll (yqChar c.val) := by decide

theorem yq_char (c : Nat) (hs : isScalar c = true) : (encode c).flatMap yqByte = encodeAll (yqChar c) := by
  by_cases h : c < 128
  · exact yq_char_ascii ⟨c, h⟩
  · simp only [isScalar, Bool.or_eq_true, Bool.and_eq_true, decide_eq_true_eq] at hs
    have hy : yqChar c = [c] := by
      unfold yqChar
      repeat' split
      all_goals first | omega | rfl
    rw [hy]
    simp only [encodeAll, List.flatMap_cons, List.flatMap_nil, List.append_nil]
    apply flatMap_yqByte_clean
    intro x hx
    unfold encode at hx
    split at hx
    · omega
    · split at hx
      · simp only [List.mem_cons, List.not_mem_nil, or_false] at hx
        rcases hx with rfl | rfl <;> exact ofNat_high _ (by omega) (by omega)
      · split at hx
        · simp only [List.mem_cons, List.not_mem_nil, or_false] at hx
          rcases hx with rfl | rfl | rfl <;> exact ofNat_high _ (by omega) (by omega)
        · simp only [List.mem_cons, List.not_mem_nil, or_false] at hx
          rcases hx with rfl | rfl | rfl | rfl <;> exact ofNat_high _ (by omega) (by omega)

/-- `write_json_body_yq` (SIMD scan + span copy over the UTF-8 bytes) writes, character by
character, exactly `yqChar`. -/
theorem writeYq_eq (s : List Nat) (hs : ∀ c ∈ s, isScalar c = true) :
    writeYq s = encodeAll (s.flatMap yqChar) := by
  unfold writeYq
  rw [writeYqBytes_eq _ _ (Nat.lt_succ_self _)]
  induction s with
  | nil => rfl
  | cons c s ih =>
    simp only [encodeAll, List.flatMap_cons, List.flatMap_append] at ih ⊢
    have hc := yq_char c (hs c (by simp))
    simp only [encodeAll] at hc
    rw [ih (fun x hx => hs x (by simp [hx])), hc]

theorem yqChar_decodable : Decodable yqChar := by
  intro c hs f rest
  unfold yqChar
  repeat' split
  all_goals try (subst_vars; exact decode_simple _ _ f rest (by simp))
  · rename_i h; exact decode_shortU c (by omega) f rest
  · exact decode_raw c (by omega) (by omega) (by omega) f rest

/-! ### scanner hits and character boundaries -/

theorem step_mid_ascii (s : St) (b : BitVec 8) (hs : s ≠ .start) (hb : b < 0x80#8) : step s b = .dead := by
  cases s
  · exact absurd rfl hs
  all_goals (revert b; decide)

theorem escape_is_ascii : ∀ b : BitVec 8, needsEscape b = true → b < 0x80#8 := by decide

/-- In well-formed UTF-8 every position the scanner can stop at (and the end of input) is a
character boundary: the bytes before it are well-formed on their own. -/
theorem hit_on_boundary (bytes : List (BitVec 8)) (hwf : WellFormed bytes) (start : Nat) :
    WellFormed (bytes.take (firstEscapeSpec bytes start)) := by
  unfold firstEscapeSpec
  by_cases h : start ≥ bytes.length
  · simp only [h, if_true, List.take_length]; exact hwf
  · simp only [h, if_false]
    -- p = start + k, k = length of the escape-free run from `start`
    have hk : bytes.drop (start + ((bytes.drop start).takeWhile (fun b => !needsEscape b)).length) =
        (bytes.drop start).dropWhile (fun b => !needsEscape b) := by
      rw [← List.drop_drop, drop_takeWhile_len]
    cases hd : (bytes.drop start).dropWhile (fun b => !needsEscape b) with
    | nil =>
      rw [hd] at hk
      have : bytes.take (start + ((bytes.drop start).takeWhile (fun b => !needsEscape b)).length) = bytes := by
        have := List.take_append_drop (start + ((bytes.drop start).takeWhile (fun b => !needsEscape b)).length) bytes
        rw [hk, List.append_nil] at this; exact this
      rw [this]; exact hwf
    | cons b r =>
      rw [hd] at hk
      have hb : b < 0x80#8 := escape_is_ascii b (by simpa using dropWhile_head _ _ _ _ hd)
      have hsplit := List.take_append_drop (start + ((bytes.drop start).takeWhile (fun b => !needsEscape b)).length) bytes
      rw [hk] at hsplit
      unfold WellFormed at hwf ⊢
      rw [← hsplit, run_append, run_cons] at hwf
      apply Classical.byContradiction
      intro hne
      rw [step_mid_ascii _ b hne hb, run_dead] at hwf
      cases hwf

theorem uEscape_ne_nil (c : Nat) : uEscape c ≠ [] := by
  unfold uEscape bmpU; split <;> simp

theorem jqChar_ne_nil (c : Nat) : jqChar c ≠ [] := by
  unfold jqChar shortU
  repeat' split
  all_goals simp

theorem yqChar_ne_nil (c : Nat) : yqChar c ≠ [] := by
  unfold yqChar shortU
  repeat' split
  all_goals simp

theorem jqAsciiChar_ne_nil (c : Nat) : jqAsciiChar c ≠ [] := by
  unfold jqAsciiChar shortU
  repeat' split
  all_goals first | exact uEscape_ne_nil c | simp

theorem yqAsciiChar_ne_nil (c : Nat) : yqAsciiChar c ≠ [] := by
  unfold yqAsciiChar shortU
  repeat' split
  all_goals first | exact uEscape_ne_nil c | simp

theorem hexDigit_ascii (n : Nat) (h : n < 16) : hexDigit n < 0x80 := by
  unfold hexDigit; split <;> omega

theorem bmpU_ascii (cp : Nat) : ∀ x ∈ bmpU cp, x < 0x80 := by
  intro x hx
  simp only [bmpU, List.mem_cons, List.not_mem_nil, or_false] at hx
  rcases hx with rfl | rfl | rfl | rfl | rfl | rfl
  · omega
  · omega
  all_goals exact hexDigit_ascii _ (Nat.mod_lt _ (by decide))

theorem uEscape_ascii (cp : Nat) : ∀ x ∈ uEscape cp, x < 0x80 := by
  intro x hx
  unfold uEscape at hx
  split at hx
  · exact bmpU_ascii _ x hx
  · rcases List.mem_append.1 hx with h | h <;> exact bmpU_ascii _ x h

theorem shortU_ascii (b : Nat) : ∀ x ∈ shortU b, x < 0x80 := by
  intro x hx
  simp only [shortU, List.mem_cons, List.not_mem_nil, or_false] at hx
  rcases hx with rfl | rfl | rfl | rfl | rfl | rfl
  · omega
  · omega
  · omega
  · omega
  all_goals exact hexDigit_ascii _ (Nat.mod_lt _ (by decide))

/-- The ASCII writers emit ASCII only. -/
theorem ascii_output (c : Nat) (_hs : isScalar c = true) :
    (∀ x ∈ jqAsciiChar c, x < 0x80) ∧ (∀ x ∈ yqAsciiChar c, x < 0x80) := by
  constructor
  · intro x hx
    unfold jqAsciiChar at hx
    repeat' split at hx
    all_goals first
      | exact shortU_ascii _ x hx
      | exact uEscape_ascii _ x hx
      | (simp only [List.mem_cons, List.not_mem_nil, or_false] at hx; omega)
  · intro x hx
    unfold yqAsciiChar at hx
    repeat' split at hx
    all_goals first
      | exact shortU_ascii _ x hx
      | exact uEscape_ascii _ x hx
      | (simp only [List.mem_cons, List.not_mem_nil, or_false] at hx; omega)

/-! ### where the conventions differ -/

theorem jq_yq_differ (c : Nat) : jqChar c ≠ yqChar c ↔ (c = 8 ∨ c = 12 ∨ c = 0x7F) := by
  unfold jqChar yqChar shortU
  repeat' split
  all_goals simp_all
  all_goals omega

theorem jq_yq_ascii_differ (c : Nat) : jqAsciiChar c ≠ yqAsciiChar c ↔ (c = 8 ∨ c = 12 ∨ c = 0x7F) := by
  unfold jqAsciiChar yqAsciiChar shortU
  repeat' split
  all_goals simp_all
  all_goals omega

end SV.Escape
