/-
Proof/Kernels — lemmas about the word-level kernels (C02).  `bv_decide` is used here (and only in
Proof/Kernels*.lean / Proof/Dsv*.lean); each use adds a `*_native.bv_decide.ax_*` axiom that the
audit lists per theorem.
-/
import Std.Tactic.BVDecide
import SuccinctlyVerif.Spec.Bits
import SuccinctlyVerif.Model.Words
namespace SV.Kernels
open SV

/-! ### popcount -/

theorem cpopNatRec_eq_count (x : BitVec 64) (n : Nat) :
    x.cpopNatRec n 0 = ((List.range n).map fun i => x.getLsbD i).count true := by
  induction n with
  | zero => simp
  | succ n ih =>
    rw [BitVec.cpopNatRec_succ, BitVec.cpopNatRec_eq, ih, List.range_succ, List.map_append, List.count_append]
    cases h : x.getLsbD n <;> simp [h]

theorem cpop_toNat (x : BitVec 64) : x.cpop.toNat = popcount x := by
  have hle : x.cpopNatRec 64 0 ≤ 64 := by
    have := BitVec.cpopNatRec_le (x := x) (acc := 0) 64
    omega
  unfold BitVec.cpop popcount wordBits
  rw [BitVec.toNat_ofNat, ← cpopNatRec_eq_count]
  omega

theorem popc_eq_popcount (x : BitVec 64) : popc x = popcount x := cpop_toNat x

theorem popcount_le (x : BitVec 64) : popcount x ≤ 64 := by
  unfold popcount wordBits
  have := List.count_le_length (a := true) (l := (List.range 64).map fun i => x.getLsbD i)
  simpa using this

theorem popcount_word_portable_eq_cpop (x : BitVec 64) :
    Gen.popcount_word_portable x = x.cpop.setWidth 32 := by
  unfold Gen.popcount_word_portable
  bv_decide

theorem popcountPortable_eq (x : BitVec 64) : popcountPortable x = popcount x := by
  unfold popcountPortable
  rw [popcount_word_portable_eq_cpop, BitVec.toNat_setWidth, cpop_toNat]
  have := popcount_le x
  omega

/-! ### select_in_byte table -/

/-- The table the spec defines: entry `b*8+k` is the position of the `k`-th set bit of `b`. -/
def specByteTable : List Int :=
  (List.range 2048).map fun i => (selectInByteSpec (BitVec.ofNat 8 (i / 8)) (i % 8) : Int)

theorem table_eq_spec : Gen.SELECT_IN_BYTE_TABLE_L = specByteTable := by decide +kernel

theorem selectInByteSpec_ge8 (b : BitVec 8) (k : Nat) (hk : k ≥ 8) : selectInByteSpec b k = 8 := by
  have h : ∀ (b : BitVec 8), selectInByteSpec b 8 = 8 := by decide
  -- selecting past the number of bits fails; monotone in k
  have mono : ∀ (bs : List Bool) (k : Nat), bs.length ≤ k → selectB true bs k = none := by
    intro bs
    induction bs with
    | nil => intro k _; rfl
    | cons x xs ih =>
      intro k hk
      simp only [List.length_cons] at hk
      unfold selectB
      split
      · cases k with
        | zero => omega
        | succ k => simp [ih k (by omega)]
      · simp [ih k (by omega)]
  unfold selectInByteSpec
  rw [mono _ k (by simp [byteBits]; omega)]
  rfl

theorem selectInByteTable_eq (b : BitVec 8) (k : Nat) : selectInByteTable b k = selectInByteSpec b k := by
  unfold selectInByteTable
  split
  · rename_i hk; exact (selectInByteSpec_ge8 b k hk).symm
  · rename_i hk
    have hk : k < 8 := by omega
    rw [table_eq_spec]
    have hb := b.isLt
    have hi : b.toNat * 8 + k < 2048 := by omega
    unfold specByteTable
    rw [List.getD_eq_getElem?_getD, List.getElem?_map, List.getElem?_range hi]
    simp only [Option.map_some, Option.getD_some, Int.toNat_natCast]
    have h1 : (b.toNat * 8 + k) / 8 = b.toNat := by omega
    have h2 : (b.toNat * 8 + k) % 8 = k := by omega
    rw [h1, h2, BitVec.ofNat_toNat, BitVec.setWidth_eq]

end SV.Kernels
