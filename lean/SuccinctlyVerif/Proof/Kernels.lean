/-
Proof/Kernels — lemmas about the word-level kernels (C02).  `bv_decide` is used here (and only in
Proof/Kernels*.lean / Proof/Dsv*.lean); each use adds a `*_native.bv_decide.ax_*` axiom that the
audit lists per theorem.
-/
import Std.Tactic.BVDecide
import SuccinctlyVerif.Spec.Bits
import SuccinctlyVerif.Model.Words
import SuccinctlyVerif.Proof.KernelsList
namespace SV.Kernels
open SV SV.KList

/-! ### popcount -/

theorem cpopNatRec_eq_count (x : BitVec 64) (n : Nat) :
    x.cpopNatRec n 0 = ((List.range n).map fun i => x.getLsbD i).count true := by
  induction n with
  | zero => simp
  | succ n ih =>
    rw [BitVec.cpopNatRec_succ, BitVec.cpopNatRec_eq, ih, List.range_succ, List.map_append, List.count_append]
    cases h : x.getLsbD n <;> simp [h]

theorem cpop_toNat (x : BitVec 64) : x.cpop.toNat = popcount x := by
  have hle : x.cpopNatRec 64 0 ≤ 64 := by
    have := BitVec.cpopNatRec_le (x := x) (acc := 0) 64
    omega
  unfold BitVec.cpop popcount wordBits
  rw [BitVec.toNat_ofNat, ← cpopNatRec_eq_count]
  omega

theorem popc_eq_popcount (x : BitVec 64) : popc x = popcount x := cpop_toNat x

theorem popcount_le (x : BitVec 64) : popcount x ≤ 64 := by
  unfold popcount wordBits
  have := List.count_le_length (a := true) (l := (List.range 64).map fun i => x.getLsbD i)
  simpa using this

theorem popcount_word_portable_eq_cpop (x : BitVec 64) :
    Gen.popcount_word_portable x = x.cpop.setWidth 32 := by
  unfold Gen.popcount_word_portable
  bv_decide (timeout := 300)

theorem popcountPortable_eq (x : BitVec 64) : popcountPortable x = popcount x := by
  unfold popcountPortable
  rw [popcount_word_portable_eq_cpop, BitVec.toNat_setWidth, cpop_toNat]
  have := popcount_le x
  omega

/-! ### select_in_byte table -/

/-- The table the spec defines: entry `b*8+k` is the position of the `k`-th set bit of `b`. -/
def specByteTable : List Int :=
  (List.range 2048).map fun i => (selectInByteSpec (BitVec.ofNat 8 (i / 8)) (i % 8) : Int)

theorem table_eq_spec : Gen.SELECT_IN_BYTE_TABLE_L = specByteTable := by decide +kernel

theorem selectInByteSpec_ge8 (b : BitVec 8) (k : Nat) (hk : k ≥ 8) : selectInByteSpec b k = 8 := by
  have h : ∀ (b : BitVec 8), selectInByteSpec b 8 = 8 := by decide
  -- selecting past the number of bits fails; monotone in k
  have mono : ∀ (bs : List Bool) (k : Nat), bs.length ≤ k → selectB true bs k = none := by
    intro bs
    induction bs with
    | nil => intro k _; rfl
    | cons x xs ih =>
      intro k hk
      simp only [List.length_cons] at hk
      unfold selectB
      split
      · cases k with
        | zero => omega
        | succ k => simp [ih k (by omega)]
      · simp [ih k (by omega)]
  unfold selectInByteSpec
  rw [mono _ k (by simp [byteBits]; omega)]
  rfl

theorem selectInByteTable_eq (b : BitVec 8) (k : Nat) : selectInByteTable b k = selectInByteSpec b k := by
  unfold selectInByteTable
  split
  · rename_i hk; exact (selectInByteSpec_ge8 b k hk).symm
  · rename_i hk
    have hk : k < 8 := by omega
    rw [table_eq_spec]
    have hb := b.isLt
    have hi : b.toNat * 8 + k < 2048 := by omega
    unfold specByteTable
    rw [List.getD_eq_getElem?_getD, List.getElem?_map, List.getElem?_range hi]
    simp only [Option.map_some, Option.getD_some, Int.toNat_natCast]
    have h1 : (b.toNat * 8 + k) / 8 = b.toNat := by omega
    have h2 : (b.toNat * 8 + k) % 8 = k := by omega
    rw [h1, h2, BitVec.ofNat_toNat, BitVec.setWidth_eq]

/-! ### word bits, trailing zeros, the CTZ select loop -/

theorem wordBits_length (x : BitVec 64) : (wordBits x).length = 64 := by simp [wordBits]

-- simp-normal form for this family of files only (a global @[simp] changes other properties' proofs)
attribute [local simp] wordBits_length

theorem wordBits_getElem? (x : BitVec 64) (j : Nat) :
    (wordBits x)[j]? = if j < 64 then some (x.getLsbD j) else none := by
  unfold wordBits
  rw [List.getElem?_map]
  by_cases h : j < 64
  · simp [h]
  · simp [h]

theorem wordBits_count_zero (x : BitVec 64) (h : ∀ j, j < 64 → x.getLsbD j = false) (k : Nat) :
    selectInWordSpec x k = 64 := by
  unfold selectInWordSpec
  rw [selectB_none_of_count_le]; rfl
  have : (wordBits x).count true = 0 := by
    rw [List.count_eq_zero]
    intro hm
    obtain ⟨j, hj, he⟩ := List.getElem_of_mem hm
    have := wordBits_getElem? x j
    rw [List.getElem?_eq_getElem hj, he] at this
    simp only [wordBits_length] at hj
    rw [if_pos hj, h j hj] at this
    cases this
  omega

theorem selectInWordSpec_zero (k : Nat) : selectInWordSpec (0 : BitVec 64) k = 64 :=
  wordBits_count_zero _ (by simp) k

theorem tz_lt (x : BitVec 64) (hx : x ≠ 0) : tz x < 64 := by
  have := (BitVec.ctz_lt_iff_ne_zero (x := x)).2 hx
  unfold tz
  simpa [BitVec.lt_def] using this

theorem wordBits_first (x : BitVec 64) (hx : x ≠ 0) :
    (∀ j, j < tz x → (wordBits x)[j]? = some false) ∧ (wordBits x)[tz x]? = some true := by
  have hlt := tz_lt x hx
  constructor
  · intro j hj
    rw [wordBits_getElem?, if_pos (by omega)]
    exact congrArg some (BitVec.getLsbD_false_of_lt_ctz hj)
  · rw [wordBits_getElem?, if_pos hlt]
    exact congrArg some (BitVec.getLsbD_true_ctz_of_ne_zero hx)

/-- `trailing_zeros` is the position of the first set bit (64 for the zero word). -/
theorem tz_eq (x : BitVec 64) : tz x = (selectB true (wordBits x) 0).getD 64 := by
  by_cases hx : x = 0
  · subst hx
    have := selectInWordSpec_zero 0
    unfold selectInWordSpec at this
    rw [this]; decide +kernel
  · obtain ⟨h1, h2⟩ := wordBits_first x hx
    rw [selectB_zero_of_first _ _ h1 h2]; rfl

theorem clear_lowest (x : BitVec 64) (hx : x ≠ 0) :
    x &&& (x - 1) = x &&& ~~~(1#64 <<< x.ctz) := by
  bv_decide (timeout := 300)

theorem wordBits_clear_lowest (x : BitVec 64) (hx : x ≠ 0) :
    wordBits (x &&& (x - 1)) = (wordBits x).set (tz x) false := by
  have hlt := tz_lt x hx
  apply List.ext_getElem?; intro j
  rw [clear_lowest x hx, wordBits_getElem?, List.getElem?_set, wordBits_length, wordBits_getElem?]
  by_cases hj : j < 64
  · simp only [hj, if_true]
    by_cases hc : tz x = j
    · subst hc
      have h' : x.ctz.toNat < 64 := hlt
      simp [tz, BitVec.shiftLeft_eq', h']
    · simp only [hc, if_false]
      have : x.ctz.toNat ≠ j := hc
      simp [BitVec.shiftLeft_eq']
      intro _; omega
  · simp only [hj, if_false]
    split <;> simp_all

theorem popcount_clear_lowest (x : BitVec 64) (hx : x ≠ 0) :
    popcount (x &&& (x - 1)) + 1 = popcount x := by
  unfold popcount
  rw [wordBits_clear_lowest x hx]
  exact count_set_first _ _ (wordBits_first x hx).2

theorem selectInWordSpec_clear_lowest (x : BitVec 64) (hx : x ≠ 0) (k : Nat) :
    selectInWordSpec (x &&& (x - 1)) k = selectInWordSpec x (k + 1) := by
  unfold selectInWordSpec
  obtain ⟨h1, h2⟩ := wordBits_first x hx
  rw [wordBits_clear_lowest x hx, selectB_succ_of_first _ _ k h1 h2]

theorem selectCtzLoop_eq (fuel : Nat) (val : BitVec 64) (rem : Nat) (h : popcount val < fuel) :
    selectCtzLoop fuel val rem = selectInWordSpec val rem := by
  induction fuel generalizing val rem with
  | zero => omega
  | succ fuel ih =>
    unfold selectCtzLoop
    by_cases hv : val = 0
    · subst hv; rw [if_pos rfl]; exact (selectInWordSpec_zero rem).symm
    · rw [if_neg hv]
      cases rem with
      | zero => simp [tz_eq, selectInWordSpec]
      | succ rem =>
        have hp := popcount_clear_lowest val hv
        rw [if_neg (by omega), Nat.add_sub_cancel, ih _ _ (by omega),
          selectInWordSpec_clear_lowest val hv]

theorem selectCtz_eq (x : BitVec 64) (k : Nat) : selectCtz x k = selectInWordSpec x k :=
  selectCtzLoop_eq 65 x k (by have := popcount_le x; omega)

end SV.Kernels
