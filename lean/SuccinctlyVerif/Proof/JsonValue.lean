/-
Proof/JsonValue — values, arrays, objects: the fuelled descent `run` against `JValueAt`,
`Elems`, `Members` (soundness), and the depth bookkeeping.
-/
import SuccinctlyVerif.Proof.JsonNumber
import SuccinctlyVerif.Proof.JsonString
namespace SV.Json.Model
open SV.Json
set_option linter.unusedSimpArgs false
set_option linter.unusedVariables false

theorem JValueAt.ofScalar {v : Bytes} (h : Scalar v) : ∀ d, JValueAt d v
  | 0 => h
  | _ + 1 => Or.inl h

/-- Consumption without the depth clause. -/
def Cons (s : St) (v : Bytes) (s' : St) : Prop :=
  s.rest = v ++ s'.rest ∧ s'.offset = s.offset + v.length

theorem Adv.cons {s s' : St} {v : Bytes} (h : Adv s v s') : Cons s v s' := ⟨h.1, h.2.1⟩
theorem Cons.trans {s s1 s2 : St} {v w : Bytes} (h1 : Cons s v s1) (h2 : Cons s1 w s2) :
    Cons s (v ++ w) s2 := by
  obtain ⟨a1, a2⟩ := h1; obtain ⟨b1, b2⟩ := h2
  exact ⟨by rw [a1, b1]; simp, by rw [b2, a2]; simp; omega⟩

/-- Result shape of a successful `run` in each mode. -/
def RunOk (max : Nat) (mode : Mode) (s s' : St) : Prop :=
  match mode with
  | .value => ∃ v, JValueAt (max - s.depth) v ∧ Adv s v s'
  | .arrayLoop => ∃ body, Elems (JValueAt (max - s.depth)) body ∧ Adv s (body ++ [0x5D]) s'
  | .objectLoop => ∃ body, Members (JValueAt (max - s.depth)) body ∧ Adv s (body ++ [0x7D]) s'

theorem Adv.cast {s s' : St} {v v' : Bytes} (h : Adv s v s') (e : v = v') : Adv s v' s' := e ▸ h

theorem ws_append {a b : Bytes} (ha : Ws a) (hb : Ws b) : Ws (a ++ b) := by
  intro x hx; simp at hx; rcases hx with hx | hx
  · exact ha x hx
  · exact hb x hx

theorem ws_nil : Ws [] := by intro x hx; simp at hx

theorem elems_prependWs {P : Bytes → Prop} {w body : Bytes} (hw : Ws w) (h : Elems P body) :
    Elems P (w ++ body) := by
  cases h with
  | one w1 v w2 h1 h2 h3 =>
    have := Elems.one (w ++ w1) v w2 (ws_append hw h1) h2 h3
    simpa using this
  | cons w1 v w2 r h1 h2 h3 h4 =>
    have := Elems.cons (w ++ w1) v w2 r (ws_append hw h1) h2 h3 h4
    simpa using this

theorem members_prependWs {P : Bytes → Prop} {w body : Bytes} (hw : Ws w) (h : Members P body) :
    Members P (w ++ body) := by
  cases h with
  | one w1 k w2 w3 v w4 h1 h2 h3 h4 h5 h6 =>
    have := Members.one (w ++ w1) k w2 w3 v w4 (ws_append hw h1) h2 h3 h4 h5 h6
    simpa using this
  | cons w1 k w2 w3 v w4 r h1 h2 h3 h4 h5 h6 h7 =>
    have := Members.cons (w ++ w1) k w2 w3 v w4 r (ws_append hw h1) h2 h3 h4 h5 h6 h7
    simpa using this

/-- entering a container: `enter_nested`, consume the bracket, skip whitespace -/
theorem enter_adv {s : St} {c : Byte} {r : Bytes} (hr : s.rest = c :: r) :
    ∃ w, Ws w ∧ Cons s (c :: w) ({ s with depth := s.depth + 1 }).advance.skipWs ∧
      ({ s with depth := s.depth + 1 }).advance.skipWs.depth = s.depth + 1 := by
  have hr0 : ({ s with depth := s.depth + 1 } : St).rest = c :: r := hr
  have a0 := adv_advance hr0
  obtain ⟨w, hw, a1, _⟩ := adv_skipWs ({ s with depth := s.depth + 1 } : St).advance
  have := a0.trans a1
  exact ⟨w, hw, ⟨by simpa using this.1, by simpa using this.2.1⟩, by simpa using this.2.2⟩

theorem run_sound (max : Nat) : ∀ (f : Nat) (mode : Mode) (s s' : St) (u : Unit),
    run max f mode s = .ok u s' → RunOk max mode s s' := by
  intro f
  induction f with
  | zero => intro mode s s' u h; simp [run] at h
  | succ f ih =>
    intro mode s s' u h
    cases mode with
    | value =>
      unfold run at h
      split at h
      · cases h
      · rename_i c hc
        obtain ⟨r, hr⟩ := peek_eq_some hc
        split at h
        · -- object
          rename_i hcb
          subst hcb
          split at h
          · cases h
          · rename_i hdep
            obtain ⟨w, hw, c1, d1⟩ := enter_adv hr
            simp only at h
            have hmax : max - s.depth = (max - (s.depth + 1)) + 1 := by omega
            split at h
            · rename_i hp
              obtain ⟨r1, hr1⟩ := peek_eq_some hp
              injection h with _ h; subst h
              have a2 := adv_advance hr1
              refine ⟨0x7B :: (w ++ [0x7D]), ?_, ?_⟩
              · rw [hmax]; exact Or.inr (Or.inr (Or.inr (Or.inl ⟨w, hw, rfl⟩)))
              · have := c1.trans a2.cons
                exact ⟨by simpa using this.1, by simpa using this.2, rfl⟩
            · split at h
              · rename_i u2 s2 h2
                injection h with _ h; subst h
                obtain ⟨body, hbody, a2⟩ := ih .objectLoop _ _ _ h2
                rw [d1] at hbody
                refine ⟨0x7B :: ((w ++ body) ++ [0x7D]), ?_, ?_⟩
                · rw [hmax]
                  exact Or.inr (Or.inr (Or.inr (Or.inr ⟨w ++ body, (members_prependWs hw hbody), rfl⟩)))
                · have := c1.trans a2.cons
                  exact ⟨by simpa using this.1, by simpa using this.2, rfl⟩
              · rename_i hne
                exact absurd h (by intro hh; exact hne _ _ hh)
        · split at h
          · -- array
            rename_i _ hcb
            subst hcb
            split at h
            · cases h
            · rename_i hdep
              obtain ⟨w, hw, c1, d1⟩ := enter_adv hr
              simp only at h
              have hmax : max - s.depth = (max - (s.depth + 1)) + 1 := by omega
              split at h
              · rename_i hp
                obtain ⟨r1, hr1⟩ := peek_eq_some hp
                injection h with _ h; subst h
                have a2 := adv_advance hr1
                refine ⟨0x5B :: (w ++ [0x5D]), ?_, ?_⟩
                · rw [hmax]; exact Or.inr (Or.inl ⟨w, hw, rfl⟩)
                · have := c1.trans a2.cons
                  exact ⟨by simpa using this.1, by simpa using this.2, rfl⟩
              · split at h
                · rename_i u2 s2 h2
                  injection h with _ h; subst h
                  obtain ⟨body, hbody, a2⟩ := ih .arrayLoop _ _ _ h2
                  rw [d1] at hbody
                  refine ⟨0x5B :: ((w ++ body) ++ [0x5D]), ?_, ?_⟩
                  · rw [hmax]
                    exact Or.inr (Or.inr (Or.inl ⟨w ++ body, (elems_prependWs hw hbody), rfl⟩))
                  · have := c1.trans a2.cons
                    exact ⟨by simpa using this.1, by simpa using this.2, rfl⟩
                · rename_i hne
                  exact absurd h (by intro hh; exact hne _ _ hh)
          · split at h
            · -- string
              rename_i _ _ hq
              subst hq
              obtain ⟨v, hv, a⟩ := string_sound hc h
              exact ⟨v, JValueAt.ofScalar (Or.inr (Or.inr (Or.inr (Or.inr hv)))) _, a⟩
            · split at h
              · obtain ⟨v, hv, a⟩ := number_sound h
                exact ⟨v, JValueAt.ofScalar (Or.inr (Or.inr (Or.inr (Or.inl hv)))) _, a⟩
              · split at h
                · obtain ⟨v, hv, a⟩ := keyword_sound h
                  refine ⟨v, JValueAt.ofScalar ?_ _, a⟩
                  rcases hv with h1 | h1 | h1
                  · exact Or.inl h1
                  · exact Or.inr (Or.inl h1)
                  · exact Or.inr (Or.inr (Or.inl h1))
                · split at h <;> cases h
    | arrayLoop =>
      unfold run at h
      split at h
      · rename_i u1 s1 h1
        obtain ⟨v, hv, a1⟩ := ih .value _ _ _ h1
        obtain ⟨w2, hw2, a2, _⟩ := adv_skipWs s1
        simp only at h
        split at h
        · cases h
        · rename_i c hc
          obtain ⟨r2, hr2⟩ := peek_eq_some hc
          have a3 := adv_advance hr2
          split at h
          · rename_i hcomma
            subst hcomma
            obtain ⟨w3, hw3, a4, _⟩ := adv_skipWs s1.skipWs.advance
            split at h
            · cases h
            · obtain ⟨body, hbody, a5⟩ := ih .arrayLoop _ _ _ h
              have A := a1.trans (a2.trans (a3.trans a4))
              rw [A.2.2] at hbody
              refine ⟨[] ++ (v ++ (w2 ++ 0x2C :: (w3 ++ body))),
                Elems.cons [] v w2 (w3 ++ body) ws_nil hv hw2 (elems_prependWs hw3 hbody), ?_⟩
              exact (A.trans a5).cast (by simp)
          · split at h
            · rename_i hclose
              subst hclose
              injection h with _ h; subst h
              refine ⟨[] ++ (v ++ w2), Elems.one [] v w2 ws_nil hv hw2, ?_⟩
              exact (a1.trans (a2.trans a3)).cast (by simp)
            · cases h
      · rename_i hne
        exact absurd h (by intro hh; exact hne _ _ hh)
    | objectLoop =>
      unfold run at h
      split at h
      · cases h
      · rename_i hq
        have hq' : s.peek = some 0x22 := by simpa using hq
        split at h
        · rename_i u1 s1 h1
          obtain ⟨k, hk, a1⟩ := string_sound hq' h1
          obtain ⟨w2, hw2, a2, _⟩ := adv_skipWs s1
          simp only at h
          split at h
          · cases h
          · rename_i hcolon
            have hcolon' : s1.skipWs.peek = some 0x3A := by simpa using hcolon
            obtain ⟨r2, hr2⟩ := peek_eq_some hcolon'
            have a3 := adv_advance hr2
            obtain ⟨w3, hw3, a4, _⟩ := adv_skipWs s1.skipWs.advance
            split at h
            · rename_i u4 s4 h4
              obtain ⟨v, hv, a5⟩ := ih .value _ _ _ h4
              have A := a1.trans (a2.trans (a3.trans a4))
              rw [A.2.2] at hv
              obtain ⟨w4, hw4, a6, _⟩ := adv_skipWs s4
              split at h
              · cases h
              · rename_i c hc
                obtain ⟨r5, hr5⟩ := peek_eq_some hc
                have a7 := adv_advance hr5
                split at h
                · rename_i hcomma
                  subst hcomma
                  obtain ⟨w5, hw5, a8, _⟩ := adv_skipWs s4.skipWs.advance
                  split at h
                  · cases h
                  · obtain ⟨body, hbody, a9⟩ := ih .objectLoop _ _ _ h
                    have B := A.trans (a5.trans (a6.trans (a7.trans a8)))
                    rw [B.2.2] at hbody
                    refine ⟨[] ++ (k ++ (w2 ++ 0x3A :: (w3 ++ (v ++ (w4 ++ 0x2C :: (w5 ++ body)))))),
                      Members.cons [] k w2 w3 v w4 (w5 ++ body) ws_nil hk hw2 hw3 hv hw4
                        (members_prependWs hw5 hbody), ?_⟩
                    exact (B.trans a9).cast (by simp)
                · split at h
                  · rename_i hclose
                    subst hclose
                    injection h with _ h; subst h
                    refine ⟨[] ++ (k ++ (w2 ++ 0x3A :: (w3 ++ (v ++ w4)))),
                      Members.one [] k w2 w3 v w4 ws_nil hk hw2 hw3 hv hw4, ?_⟩
                    exact (A.trans (a5.trans (a6.trans a7))).cast (by simp)
                  · cases h
            · rename_i hne
              exact absurd h (by intro hh; exact hne _ _ hh)
        · rename_i hne
          exact absurd h (by intro hh; exact hne _ _ hh)

end SV.Json.Model
