/-
Proof/Lines — helper lemmas for C12 (LineIndex).

Chain:  `buildLoop` (look-ahead with widths)  =  `lineStartsScan` (look-behind)          [§1]
        `lineStartsScan` is strictly increasing, bounded by the text length                [§2]
        `IsPred xs v i x` ("x = xs[i] ≤ v < xs[i+1]") — what `efPredecessor` returns        [§3]
        `lineColScan` = `finish` over the line starts = the `IsPred` of the offset          [§4]
        `walkForward` ends in an `IsPred`                                                   [§5]
        `toLineColumn` from any cache satisfying `CacheInv`                                  [§6]
        `toOffset`, round trip, histories                                                   [§7]
-/
import SuccinctlyVerif.Model.Lines
namespace SV.LinesP
open SV.Lines SV.LinesM

/-- strictly increasing -/
abbrev Sorted (xs : List Nat) : Prop := xs.Pairwise (· < ·)

/-! ### §1 build loop = look-behind scan -/

theorem LF_ne_CR : LF ≠ CR := by decide

theorem startsLine_none (b : Byte) : startsLine none b = false := by
  simp [startsLine]

theorem startsLine_some (a b : Byte) :
    startsLine (some a) b = true ↔ (a = LF ∨ (a = CR ∧ b ≠ LF)) := by
  simp [startsLine]

theorem toU32_of_le {x : Nat} (h : x ≤ U32_MAX) : toU32 x = x := by
  unfold toU32 U32_MAX at *; omega

/-- What the loop pushes from position `i` on equals the look-behind scan of the bytes after
position `i`. -/
theorem buildLoop_eq (len : Nat) (hlen : len ≤ U32_MAX) :
    ∀ (fuel : Nat) (s : List Byte) (i : Nat), s.length ≤ fuel → len = i + s.length →
      buildLoop fuel s i len =
        (match s with
         | [] => []
         | b :: rest => lineStartsScan (some b) rest (i + 1)) := by
  intro fuel
  induction fuel with
  | zero =>
    intro s i hs _
    have : s = [] := List.eq_nil_of_length_eq_zero (Nat.le_zero.mp hs)
    subst this; simp [buildLoop]
  | succ fuel ih =>
    intro s i hs hl
    match s, hs, hl with
    | [], _, hl =>
      simp only [List.length_nil] at hl
      have : ¬ i < len := by omega
      simp [buildLoop, this]
    | b :: rest, hs, hl =>
      have hi : i < len := by simp at hl; omega
      simp only [List.length_cons] at hs hl
      unfold buildLoop
      simp only [hi, if_true]
      by_cases hCR : b = CR
      · -- CR …
        match rest, hs, hl with
        | [], _, hl =>
          simp only [List.length_nil] at hl
          have h1 : ¬ (i + 1 < len) := by omega
          simp [lineBreakLen, hCR, h1, lineStartsScan]
          cases fuel <;> simp [buildLoop]; omega
        | c :: rest', hs, hl =>
          simp only [List.length_cons] at hs hl
          by_cases hLF : c = LF
          · -- CRLF: width 2
            have hw : lineBreakLen (b :: c :: rest') = 2 := by simp [lineBreakLen, hCR, hLF]
            simp only [hw]
            have ih' := ih rest' (i + 2) (by omega) (by omega)
            have hs1 : startsLine (some b) c = false := by
              have : ¬ (startsLine (some b) c = true) := by
                rw [startsLine_some]; simp [hCR, hLF, Ne.symm LF_ne_CR]
              simpa using this
            match rest', ih', hl with
            | [], ih', hl =>
              simp only [List.length_nil] at hl
              have h2 : ¬ (i + 2 < len) := by omega
              simp [h2, ih', lineStartsScan, hs1]
            | d :: rest'', ih', hl =>
              simp only [List.length_cons] at hl
              have h2 : i + 2 < len := by omega
              have hs2 : startsLine (some c) d = true := by rw [startsLine_some]; exact Or.inl hLF
              have hu : toU32 (i + 2) = i + 2 := toU32_of_le (by omega)
              simp [h2, ih', lineStartsScan, hs1, hs2, hu]
          · -- lone CR followed by c: width 1, push i+1
            have hw : lineBreakLen (b :: c :: rest') = 1 := by simp [lineBreakLen, hCR, hLF]
            simp only [hw]
            have ih' := ih (c :: rest') (i + 1) (by simp; omega) (by simp; omega)
            have h1 : i + 1 < len := by omega
            have hs1 : startsLine (some b) c = true := by
              rw [startsLine_some]; exact Or.inr ⟨hCR, hLF⟩
            have hu : toU32 (i + 1) = i + 1 := toU32_of_le (by omega)
            simp [h1, ih', lineStartsScan, hs1, hu]
      · by_cases hLF : b = LF
        · -- LF: width 1
          have hw : lineBreakLen (b :: rest) = 1 := by
            subst hLF; simp [lineBreakLen, LF_ne_CR]
          simp only [hw]
          have ih' := ih rest (i + 1) (by omega) (by omega)
          match rest, ih', hl with
          | [], ih', hl =>
            simp only [List.length_nil] at hl
            have h1 : ¬ (i + 1 < len) := by omega
            simp [h1, ih', lineStartsScan]
          | c :: rest', ih', hl =>
            simp only [List.length_cons] at hl
            have h1 : i + 1 < len := by omega
            have hs1 : startsLine (some b) c = true := by rw [startsLine_some]; exact Or.inl hLF
            have hu : toU32 (i + 1) = i + 1 := toU32_of_le (by omega)
            simp [h1, ih', lineStartsScan, hs1, hu]
        · -- ordinary byte: width 0
          have hw : lineBreakLen (b :: rest) = 0 := by simp [lineBreakLen, hCR, hLF]
          simp only [hw]
          have ih' := ih rest (i + 1) (by omega) (by omega)
          match rest, ih' with
          | [], ih' => simp [ih', lineStartsScan]
          | c :: rest', ih' =>
            have hs1 : startsLine (some b) c = false := by
              have : ¬ (startsLine (some b) c = true) := by
                rw [startsLine_some]; simp [hCR, hLF]
              simpa using this
            simp [ih', lineStartsScan, hs1]

/-- `LineIndex::build` produces exactly the spec's line starts. -/
theorem build_eq (text : List Byte) (h : text.length ≤ U32_MAX) :
    build text = some { starts := lineStarts text, textLen := text.length } := by
  unfold build
  simp only [h, if_true]
  have := buildLoop_eq text.length h text.length text 0 (Nat.le_refl _) (by simp)
  rw [this]
  cases text with
  | nil => simp [lineStarts, lineStartsScan]
  | cons b rest => simp [lineStarts, lineStartsScan, startsLine_none]

theorem build_none (text : List Byte) (h : ¬ text.length ≤ U32_MAX) : build text = none := by
  simp [build, h]

/-! ### §2 the line starts are strictly increasing and inside the text -/

theorem scan_bounds : ∀ (s : List Byte) (prev : Option Byte) (pos p : Nat),
    p ∈ lineStartsScan prev s pos → pos ≤ p ∧ p < pos + s.length := by
  intro s
  induction s with
  | nil => intro prev pos p h; simp [lineStartsScan] at h
  | cons b rest ih =>
    intro prev pos p h
    unfold lineStartsScan at h
    split at h
    · rcases List.mem_cons.mp h with h | h
      · subst h; simp
      · have := ih _ _ _ h; simp only [List.length_cons]; omega
    · have := ih _ _ _ h; simp only [List.length_cons]; omega

theorem scan_sorted : ∀ (s : List Byte) (prev : Option Byte) (pos : Nat),
    Sorted (lineStartsScan prev s pos) := by
  intro s
  induction s with
  | nil => intro prev pos; simp [lineStartsScan, Sorted]
  | cons b rest ih =>
    intro prev pos
    unfold lineStartsScan
    split
    · refine List.pairwise_cons.mpr ⟨?_, ih _ _⟩
      intro p hp
      have := (scan_bounds _ _ _ _ hp).1; omega
    · exact ih _ _

theorem lineStarts_sorted (text : List Byte) : Sorted (lineStarts text) := by
  unfold lineStarts
  refine List.pairwise_cons.mpr ⟨?_, scan_sorted _ _ _⟩
  intro p hp
  cases text with
  | nil => simp [lineStartsScan] at hp
  | cons b rest =>
    simp only [lineStartsScan, startsLine_none] at hp
    have := (scan_bounds _ _ _ _ hp).1; omega

theorem lineStarts_lt (text : List Byte) : ∀ p ∈ lineStarts text, p = 0 ∨ p < text.length := by
  intro p hp
  unfold lineStarts at hp
  rcases List.mem_cons.mp hp with h | h
  · exact Or.inl h
  · have := (scan_bounds _ _ _ _ h).2; right; omega

/-- In a strictly increasing list of naturals the `i`-th element is at least `lo + i`. -/
theorem sorted_idx_le : ∀ (xs : List Nat) (lo i x : Nat), Sorted xs → (∀ y ∈ xs, lo ≤ y) →
    xs[i]? = some x → lo + i ≤ x := by
  intro xs
  induction xs with
  | nil => intro lo i x _ _ h; simp at h
  | cons x0 xs ih =>
    intro lo i x hs hlo h
    cases i with
    | zero =>
      simp at h; subst h
      have := hlo x0 (by simp); omega
    | succ j =>
      simp only [List.getElem?_cons_succ] at h
      have hs' := List.pairwise_cons.mp hs
      have := ih (lo + 1) j x hs'.2 (fun y hy => by
        have := hs'.1 y hy; have := hlo x0 (by simp); omega) h
      omega

theorem sorted_head_le {p : Nat} {ps : List Nat} (hs : Sorted (p :: ps)) {j x : Nat}
    (h : (p :: ps)[j]? = some x) : p ≤ x := by
  cases j with
  | zero => simp at h; omega
  | succ j =>
    simp only [List.getElem?_cons_succ] at h
    have := (List.pairwise_cons.mp hs).1 x (List.mem_of_getElem? h); omega

/-! ### §3 predecessor -/

/-- `x` is the `i`-th element, `x ≤ v`, and the next element (if any) exceeds `v`. -/
def IsPred (xs : List Nat) (v i x : Nat) : Prop :=
  xs[i]? = some x ∧ x ≤ v ∧ ∀ y, xs[i + 1]? = some y → v < y

theorem efPredFrom_none : ∀ (xs : List Nat) (v k : Nat), efPredFrom v xs k = none →
    ∀ x ∈ xs, v < x := by
  intro xs
  induction xs with
  | nil => intro v k _ x hx; simp at hx
  | cons x0 xs ih =>
    intro v k h x hx
    unfold efPredFrom at h
    split at h
    · simp at h
    · rename_i hnone
      rcases List.mem_cons.mp hx with hx | hx
      · subst hx
        split at h
        · simp at h
        · omega
      · exact ih v (k + 1) hnone x hx

/-- Soundness of the plain-list predecessor: whatever it returns is an `IsPred`. -/
theorem efPredFrom_isPred : ∀ (xs : List Nat) (v k j x : Nat), efPredFrom v xs k = some (j, x) →
    ∃ i, j = k + i ∧ IsPred xs v i x := by
  intro xs
  induction xs with
  | nil => intro v k j x h; simp [efPredFrom] at h
  | cons x0 xs ih =>
    intro v k j x h
    unfold efPredFrom at h
    split at h
    · rename_i r hr
      simp only [Option.some.injEq] at h; subst h
      obtain ⟨i, hj, hp⟩ := ih v (k + 1) j x hr
      refine ⟨i + 1, by omega, ?_⟩
      simpa [IsPred] using hp
    · rename_i hnone
      split at h
      · rename_i hle
        simp only [Option.some.injEq, Prod.mk.injEq] at h
        obtain ⟨h1, h2⟩ := h; subst h1; subst h2
        refine ⟨0, by omega, by simp, hle, ?_⟩
        intro y hy
        simp only [Nat.zero_add, List.getElem?_cons_succ] at hy
        exact efPredFrom_none xs v (k + 1) hnone y (List.mem_of_getElem? hy)
      · simp at h

theorem efPredecessor_isPred {xs : List Nat} {v j x : Nat} (h : efPredecessor xs v = some (j, x)) :
    IsPred xs v j x := by
  obtain ⟨i, hj, hp⟩ := efPredFrom_isPred xs v 0 j x h
  have : j = i := by omega
  subst this; exact hp

theorem efPredecessor_ne_none {xs : List Nat} {v : Nat} (h0 : xs.head? = some 0) :
    efPredecessor xs v ≠ none := by
  intro h
  have := efPredFrom_none xs v 0 h 0 (by
    cases xs with
    | nil => simp at h0
    | cons a as => simp at h0; simp [h0])
  omega

/-! ### §4 the naive scan is the `IsPred` of the offset -/

/-- Consume line starts while they are `≤ offset`. -/
def finish (offset : Nat) : Nat → Nat → List Nat → Nat × Nat
  | line, start, [] => (line, offset - start + 1)
  | line, start, p :: ps =>
    if p ≤ offset then finish offset (line + 1) p ps else (line, offset - start + 1)

theorem finish_of_gt (offset line start : Nat) : ∀ (ps : List Nat), (∀ p ∈ ps, offset < p) →
    finish offset line start ps = (line, offset - start + 1) := by
  intro ps h
  cases ps with
  | nil => rfl
  | cons p ps =>
    have := h p (by simp)
    simp [finish]; omega

theorem lineColScan_eq_finish (offset : Nat) : ∀ (s : List Byte) (prev : Option Byte)
    (pos line start : Nat),
    lineColScan offset prev s pos line start = finish offset line start (lineStartsScan prev s pos) := by
  intro s
  induction s with
  | nil => intro prev pos line start; simp [lineColScan, lineStartsScan, finish]
  | cons b rest ih =>
    intro prev pos line start
    unfold lineColScan
    by_cases hlt : offset < pos
    · simp only [hlt, if_true]
      rw [finish_of_gt]
      intro p hp
      have := (scan_bounds _ _ _ _ hp).1; omega
    · simp only [hlt, if_false]
      unfold lineStartsScan
      by_cases hs : startsLine prev b = true
      · simp only [hs, if_true]
        rw [ih]
        have : pos ≤ offset := by omega
        simp [finish, this]
      · have hs' : startsLine prev b = false := by simpa using hs
        simp only [hs', Bool.false_eq_true, if_false]
        rw [ih]

theorem finish_isPred (offset : Nat) : ∀ (ps : List Nat) (line start i x : Nat),
    Sorted (start :: ps) → IsPred (start :: ps) offset i x →
    finish offset line start ps = (line + i, offset - x + 1) := by
  intro ps
  induction ps with
  | nil =>
    intro line start i x _ hp
    obtain ⟨h1, _, _⟩ := hp
    cases i with
    | zero => simp at h1; subst h1; simp [finish]
    | succ j => simp at h1
  | cons p ps ih =>
    intro line start i x hs hp
    obtain ⟨h1, h2, h3⟩ := hp
    cases i with
    | zero =>
      simp at h1; subst h1
      have := h3 p (by simp)
      simp [finish]; omega
    | succ j =>
      simp only [List.getElem?_cons_succ] at h1 h3
      have hs' := (List.pairwise_cons.mp hs).2
      have hpx : p ≤ x := sorted_head_le hs' h1
      have hpo : p ≤ offset := by omega
      simp only [finish, hpo, if_true]
      rw [ih (line + 1) p j x hs' ⟨h1, h2, h3⟩]
      simp; omega

/-- The naive scan's answer, given the predecessor of `offset` among the line starts. -/
theorem lineCol_of_isPred (text : List Byte) (offset i x : Nat)
    (h : IsPred (lineStarts text) offset i x) : lineCol text offset = (i + 1, offset - x + 1) := by
  unfold lineCol
  rw [lineColScan_eq_finish]
  have := finish_isPred offset (lineStartsScan none text 0) 1 0 i x (lineStarts_sorted text) h
  rw [this]; simp; omega

/-! ### §5 forward walk -/

/-- However many steps the cap allows: if the walk resolves, it resolves to the predecessor. -/
theorem walkForward_isPred (xs : List Nat) (query : Nat) (hs : Sorted xs) (hq : query ≤ U32_MAX) :
    ∀ (fuel li ls li' ls' : Nat), xs[li]? = some ls → ls ≤ query →
      walkForward xs query fuel li ls = some (li', ls') → IsPred xs query li' ls' := by
  intro fuel
  induction fuel with
  | zero => intro li ls li' ls' _ _ h; simp [walkForward] at h
  | succ fuel ih =>
    intro li ls li' ls' hget hle h
    unfold walkForward efGet at h
    split at h
    · rename_i next hnext
      split at h
      · rename_i hn
        have hidx : li + 1 ≤ next := by
          have := sorted_idx_le xs 0 (li + 1) next hs (fun _ _ => Nat.zero_le _) hnext; omega
        rw [toU32_of_le (by omega)] at h
        exact ih _ _ _ _ hnext hn h
      · simp only [Option.some.injEq, Prod.mk.injEq] at h
        obtain ⟨h1, h2⟩ := h; subst h1; subst h2
        refine ⟨hget, hle, fun y hy => ?_⟩
        rw [hnext] at hy; simp only [Option.some.injEq] at hy; omega
    · rename_i hnone
      simp only [Option.some.injEq, Prod.mk.injEq] at h
      obtain ⟨h1, h2⟩ := h; subst h1; subst h2
      refine ⟨hget, hle, fun y hy => ?_⟩
      rw [hnone] at hy; simp at hy

/-! ### §6 to_line_column from any admissible cache -/

/-- What `LineIndex::build` guarantees about the index (and all the queries need). -/
structure WF (ix : LineIndex) : Prop where
  sorted : Sorted ix.starts
  head : ix.starts.head? = some 0
  bound : ∀ x ∈ ix.starts, x ≤ U32_MAX

/-- The cache invariant: the entry (if any) records the predecessor of its own (clamped) offset. -/
def CacheInv (ix : LineIndex) (c : Cache) : Prop :=
  ∀ e, c = some e → e.offset ≤ U32_MAX ∧ IsPred ix.starts e.offset e.lineIdx e.lineStart

theorem cacheInv_none (ix : LineIndex) : CacheInv ix none := by
  intro e h; simp at h

theorem wf_build {text : List Byte} {ix : LineIndex} (h : build text = some ix) : WF ix := by
  by_cases hl : text.length ≤ U32_MAX
  · rw [build_eq text hl] at h
    simp only [Option.some.injEq] at h; subst h
    refine ⟨lineStarts_sorted text, by simp [lineStarts], ?_⟩
    intro x hx
    rcases lineStarts_lt text x hx with h | h
    · subst h; simp [U32_MAX]
    · simp only at *; omega
  · rw [build_none text hl] at h; simp at h

theorem isPred_clamp {xs : List Nat} (hb : ∀ x ∈ xs, x ≤ U32_MAX) {offset i x : Nat}
    (h : IsPred xs (min offset U32_MAX) i x) : IsPred xs offset i x := by
  obtain ⟨h1, h2, h3⟩ := h
  refine ⟨h1, by omega, fun y hy => ?_⟩
  have := h3 y hy
  have := hb y (List.mem_of_getElem? hy)
  omega

theorem mkLineCol_isPred {xs : List Nat} {offset q i x : Nat} (hq : q ≤ offset)
    (ho : offset + 1 < USIZE) (h : IsPred xs q i x) :
    mkLineCol i offset x = some (i + 1, offset - x + 1) := by
  obtain ⟨_, h2, _⟩ := h
  unfold mkLineCol
  have : x ≤ offset := by omega
  simp only [this, if_true]
  rw [Nat.mod_eq_of_lt (by omega)]

theorem coldLookup_spec (ix : LineIndex) (hw : WF ix) (c : Cache) (offset q : Nat)
    (hq : q ≤ offset) (hq32 : q ≤ U32_MAX) (ho : offset + 1 < USIZE) :
    ∃ i x, IsPred ix.starts q i x ∧
      (coldLookup ix c offset q).1 = some (i + 1, offset - x + 1) ∧
      (coldLookup ix c offset q).2 = some { offset := q, lineIdx := i, lineStart := x } := by
  unfold coldLookup
  split
  · rename_i hnone
    exact absurd hnone (efPredecessor_ne_none hw.head)
  · rename_i idx start hsome
    have hp := efPredecessor_isPred hsome
    refine ⟨idx, start, hp, mkLineCol_isPred hq ho hp, ?_⟩
    have : idx ≤ start := by
      have := sorted_idx_le ix.starts 0 idx start hw.sorted (fun _ _ => Nat.zero_le _) hp.1; omega
    have : start ≤ q := hp.2.1
    rw [toU32_of_le (by omega)]

/-- One `to_line_column` call from any cache satisfying the invariant: the answer is the
predecessor of the (unclamped) offset, and the invariant holds again. -/
theorem toLineColumn_spec (cap : Nat) (ix : LineIndex) (hw : WF ix) (c : Cache)
    (hc : CacheInv ix c) (offset : Nat) (ho : offset + 1 < USIZE) :
    ∃ i x, IsPred ix.starts offset i x ∧
      (toLineColumn cap ix c offset).1 = some (i + 1, offset - x + 1) ∧
      CacheInv ix (toLineColumn cap ix c offset).2 := by
  have hq32 : min offset U32_MAX ≤ U32_MAX := Nat.min_le_right _ _
  have hqo : min offset U32_MAX ≤ offset := Nat.min_le_left _ _
  have hcold : ∀ c', ∃ i x, IsPred ix.starts offset i x ∧
      (coldLookup ix c' offset (min offset U32_MAX)).1 = some (i + 1, offset - x + 1) ∧
      CacheInv ix (coldLookup ix c' offset (min offset U32_MAX)).2 := by
    intro c'
    obtain ⟨i, x, hp, h1, h2⟩ := coldLookup_spec ix hw c' offset _ hqo hq32 ho
    refine ⟨i, x, isPred_clamp hw.bound hp, h1, ?_⟩
    rw [h2]; intro e he
    simp only [Option.some.injEq] at he; subst he
    exact ⟨hq32, hp⟩
  unfold toLineColumn
  simp only [toU32_of_le hq32]
  match c, hc with
  | none, _ => exact hcold none
  | some entry, hc =>
    obtain ⟨he32, hep⟩ := hc entry rfl
    simp only
    split
    · -- exact repeat
      rename_i heq
      rw [← heq] at hep
      exact ⟨entry.lineIdx, entry.lineStart, isPred_clamp hw.bound hep,
        mkLineCol_isPred hqo ho hep, hc⟩
    · split
      · rename_i hgt
        split
        · rename_i li ls hwalk
          have hp := walkForward_isPred ix.starts _ hw.sorted hq32 cap _ _ li ls hep.1
            (by have := hep.2.1; omega) hwalk
          refine ⟨li, ls, isPred_clamp hw.bound hp, mkLineCol_isPred hqo ho hp, ?_⟩
          intro e he
          simp only [Option.some.injEq] at he; subst he
          exact ⟨hq32, hp⟩
        · exact hcold _
      · exact hcold _

/-! ### §7 to_offset, line_start, round trip, histories -/

theorem toOffset_eq (text : List Byte) (htl : text.length ≤ U32_MAX) (line column : Nat) :
    LinesM.toOffset { starts := lineStarts text, textLen := text.length } line column =
      Lines.toOffset text line column := by
  unfold LinesM.toOffset Lines.toOffset
  by_cases hc : column = 0
  · simp [hc]
  · simp only [hc, if_false]
    have hls : LinesM.lineStart { starts := lineStarts text, textLen := text.length } line =
        Lines.lineStart text line := by
      simp [LinesM.lineStart, Lines.lineStart, efGet]
    rw [hls]
    cases hs : Lines.lineStart text line with
    | none => rfl
    | some s =>
      have he : s + (column - 1) = s + column - 1 := by omega
      simp only [he]
      by_cases hlt : s + column - 1 < USIZE
      · simp only [hlt, if_true]
      · have : ¬ (s + column - 1 < text.length) := by
          unfold USIZE at hlt; unfold U32_MAX at htl; omega
        simp only [hlt, if_false, this]

theorem lineStart_le_u32 (text : List Byte) (htl : text.length ≤ U32_MAX) (line s : Nat)
    (h : Lines.lineStart text line = some s) : s ≤ U32_MAX := by
  unfold Lines.lineStart at h
  split at h
  · simp at h
  · rcases lineStarts_lt text s (List.mem_of_getElem? h) with h | h
    · subst h; simp [U32_MAX]
    · omega

/-- Admissible queries: the domain on which `usize` arithmetic cannot wrap. -/
def QueryOk : Query → Prop
  | .lineCol offset => offset + 1 < USIZE
  | .roundTrip offset => offset + 1 < USIZE
  | _ => True

theorem step_spec (cap : Nat) (text : List Byte) (htl : text.length ≤ U32_MAX) (c : Cache)
    (hc : CacheInv { starts := lineStarts text, textLen := text.length } c) (q : Query)
    (hq : QueryOk q) :
    (step cap { starts := lineStarts text, textLen := text.length } c q).1 = specAnswer text q ∧
    CacheInv { starts := lineStarts text, textLen := text.length }
      (step cap { starts := lineStarts text, textLen := text.length } c q).2 := by
  have hw : WF { starts := lineStarts text, textLen := text.length } :=
    wf_build (build_eq text htl)
  cases q with
  | lineCol offset =>
    obtain ⟨i, x, hp, h1, h2⟩ := toLineColumn_spec cap _ hw c hc offset hq
    have hsp := lineCol_of_isPred text offset i x hp
    simp only [step, h1, specAnswer, hsp]
    exact ⟨trivial, h2⟩
  | roundTrip offset =>
    obtain ⟨i, x, hp, h1, h2⟩ := toLineColumn_spec cap _ hw c hc offset hq
    have hsp := lineCol_of_isPred text offset i x hp
    have hto := LinesP.toOffset_eq text htl (i + 1) (offset - x + 1)
    simp only [step, h1, specAnswer, hsp, hto]
    exact ⟨trivial, h2⟩
  | toOffset line column =>
    refine ⟨?_, hc⟩
    simp only [step, specAnswer]
    rw [LinesP.toOffset_eq text htl]
  | lineStart line =>
    refine ⟨?_, hc⟩
    simp [step, specAnswer, LinesM.lineStart, Lines.lineStart, efGet]
  | lineCount =>
    refine ⟨?_, hc⟩
    simp [step, specAnswer, LinesM.lineCount, Lines.lineCount, efLen]
  | textLen => exact ⟨rfl, hc⟩

theorem run_spec (cap : Nat) (text : List Byte) (htl : text.length ≤ U32_MAX) :
    ∀ (qs : List Query) (c : Cache),
      CacheInv { starts := lineStarts text, textLen := text.length } c →
      (∀ q ∈ qs, QueryOk q) →
      run cap { starts := lineStarts text, textLen := text.length } c qs = qs.map (specAnswer text) ∧
      CacheInv { starts := lineStarts text, textLen := text.length }
        (finalCache cap { starts := lineStarts text, textLen := text.length } c qs) := by
  intro qs
  induction qs with
  | nil => intro c hc _; exact ⟨rfl, hc⟩
  | cons q qs ih =>
    intro c hc hq
    obtain ⟨h1, h2⟩ := step_spec cap text htl c hc q (hq q (by simp))
    obtain ⟨h3, h4⟩ := ih _ h2 (fun q' hq' => hq q' (by simp [hq']))
    refine ⟨?_, h4⟩
    simp only [run, List.map_cons, h1, h3]

theorem exists_isPred {xs : List Nat} (h0 : xs.head? = some 0) (v : Nat) :
    ∃ i x, IsPred xs v i x := by
  cases h : efPredecessor xs v with
  | none => exact absurd h (efPredecessor_ne_none h0)
  | some r => exact ⟨r.1, r.2, efPredecessor_isPred h⟩

theorem spec_toOffset_of_isPred (text : List Byte) (offset i x : Nat)
    (hp : IsPred (lineStarts text) offset i x) (h : offset < text.length) :
    Lines.toOffset text (i + 1) (offset - x + 1) = some offset := by
  have hx := hp.2.1
  have hls : Lines.lineStart text (i + 1) = some x := by simp [Lines.lineStart]; exact hp.1
  unfold Lines.toOffset
  simp only [hls]
  have h2 : x + (offset - x + 1) - 1 = offset := by omega
  simp [h2, h]

/-- Offsets at or past the end of the text: the predecessor is the last line start. -/
theorem isPred_past_end (text : List Byte) (offset i x : Nat)
    (hp : IsPred (lineStarts text) offset i x) (h : text.length ≤ offset) :
    i + 1 = (lineStarts text).length := by
  obtain ⟨h1, _, h3⟩ := hp
  have hi : i < (lineStarts text).length := by
    rcases Nat.lt_or_ge i (lineStarts text).length with h | h
    · exact h
    · rw [List.getElem?_eq_none h] at h1; simp at h1
  rcases Nat.lt_or_ge (i + 1) (lineStarts text).length with hlt | hge
  · have hy := h3 _ (List.getElem?_eq_getElem hlt)
    have hm : (lineStarts text)[i + 1] ∈ lineStarts text := List.getElem_mem hlt
    rcases lineStarts_lt text _ hm with h0 | hl <;> omega
  · omega

end SV.LinesP
