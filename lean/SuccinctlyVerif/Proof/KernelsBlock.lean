/-
Proof/KernelsBlock — byte decomposition of a word and the 8-word block popcounts
(`block_popcount_portable`, lane model of `block_popcount_avx2`) (C02).  No `bv_decide` here.
-/
import SuccinctlyVerif.Proof.Kernels
namespace SV.Kernels
open SV SV.KList
attribute [local simp] SV.Kernels.wordBits_length

theorem range8 : List.range 8 = [0,1,2,3,4,5,6,7] := by decide
theorem range64 : List.range 64 = [0,1,2,3,4,5,6,7,8,9,10,11,12,13,14,15,16,17,18,19,20,21,22,23,24,25,26,27,28,29,30,31,32,33,34,35,36,37,38,39,40,41,42,43,44,45,46,47,48,49,50,51,52,53,54,55,56,57,58,59,60,61,62,63] := by decide

theorem wordBits_eq_bytes (w : BitVec 64) : wordBits w = (wordBytes w).flatMap byteBits := by
  simp [wordBits, wordBytes, byteBits, range8, range64, BitVec.getLsbD_setWidth, BitVec.getLsbD_ushiftRight]

/-- Bit-at-a-time population count of a byte. -/
def bytePop (b : BitVec 8) : Nat := (byteBits b).count true

theorem bytePop_le (b : BitVec 8) : bytePop b ≤ 8 := by
  unfold bytePop
  have := List.count_le_length (a := true) (l := byteBits b)
  simpa [byteBits] using this

/-- The per-byte step of `block_popcount_avx2`: two nibble lookups added in a `u8` lane. -/
def nibblePop (b : BitVec 8) : Nat :=
  (nibbleLut.getD (b &&& 0x0F#8).toNat 0 + nibbleLut.getD ((b >>> 4) &&& 0x0F#8).toNat 0) % 256

theorem nibblePop_eq : ∀ b : BitVec 8, nibblePop b = bytePop b := by decide

theorem popcount_eq_bytes (w : BitVec 64) : popcount w = ((wordBytes w).map bytePop).sum := by
  unfold popcount
  rw [wordBits_eq_bytes, List.count_flatMap]
  rfl

theorem wordBytes_length (w : BitVec 64) : (wordBytes w).length = 8 := by simp [wordBytes]

theorem sum_bytes_block (block : List (BitVec 64)) :
    ((block.flatMap wordBytes).map bytePop).sum = (block.map popcount).sum := by
  induction block with
  | nil => rfl
  | cons w ws ih =>
    simp only [List.flatMap_cons, List.map_append, List.sum_append, List.map_cons, List.sum_cons, ih,
      popcount_eq_bytes]

theorem length_bytes_block (block : List (BitVec 64)) :
    (block.flatMap wordBytes).length = 8 * block.length := by
  induction block with
  | nil => rfl
  | cons w ws ih => simp only [List.flatMap_cons, List.length_append, wordBytes_length, ih, List.length_cons]; omega

theorem zipWith_add_mod (v0 v1 : List Nat) (h0 : ∀ a ∈ v0, a ≤ 8) (h1 : ∀ a ∈ v1, a ≤ 8) :
    List.zipWith (fun a b => (a + b) % 256) v0 v1 = List.zipWith (· + ·) v0 v1 := by
  induction v0 generalizing v1 with
  | nil => simp
  | cons a as ih =>
    cases v1 with
    | nil => simp
    | cons b bs =>
      have ha := h0 a (by simp)
      have hb := h1 b (by simp)
      simp only [List.zipWith_cons_cons]
      rw [ih bs (fun x hx => h0 x (by simp [hx])) (fun x hx => h1 x (by simp [hx])),
        Nat.mod_eq_of_lt (by omega)]

theorem sum_zipWith_add (v0 v1 : List Nat) (h : v0.length = v1.length) :
    (List.zipWith (· + ·) v0 v1).sum = v0.sum + v1.sum := by
  induction v0 generalizing v1 with
  | nil => cases v1 with
    | nil => rfl
    | cons => simp at h
  | cons a as ih =>
    cases v1 with
    | nil => simp at h
    | cons b bs =>
      simp only [List.zipWith_cons_cons, List.sum_cons, ih bs (by simpa using h)]
      omega

theorem sum_take_drop (l : List Nat) (n : Nat) : (l.take n).sum + (l.drop n).sum = l.sum := by
  rw [← List.sum_append, List.take_append_drop]

theorem sum_lanes (acc : List Nat) (h : acc.length = 32) :
    ((acc.drop (8 * 0)).take 8).sum + ((acc.drop (8 * 1)).take 8).sum
      + ((acc.drop (8 * 2)).take 8).sum + ((acc.drop (8 * 3)).take 8).sum = acc.sum := by
  have e0 := sum_take_drop acc 8
  have e1 := sum_take_drop (acc.drop 8) 8
  have e2 := sum_take_drop (acc.drop 16) 8
  rw [List.drop_drop] at e1 e2
  have e3 : ((acc.drop 24).take 8) = acc.drop 24 := List.take_of_length_le (by simp; omega)
  simp only [Nat.mul_zero, Nat.mul_one, List.drop_zero, e3]
  simp only [Nat.reduceAdd, Nat.reduceMul] at *
  omega

theorem blockPopcountAvx2_eq (block : List (BitVec 64)) (h : block.length = 8) :
    blockPopcountAvx2 block = (block.map popcount).sum := by
  unfold blockPopcountAvx2
  simp only []
  have hf : (fun b : BitVec 8 =>
      (nibbleLut.getD (b &&& 0x0F#8).toNat 0 + nibbleLut.getD ((b >>> 4) &&& 0x0F#8).toNat 0) % 256)
      = bytePop := by
    funext b; exact nibblePop_eq b
  rw [hf]
  generalize hc : (block.flatMap wordBytes).map bytePop = c
  have hlen : c.length = 64 := by rw [← hc, List.length_map, length_bytes_block, h]
  have hle : ∀ a ∈ c, a ≤ 8 := by
    intro a ha
    rw [← hc] at ha
    obtain ⟨b, _, rfl⟩ := List.mem_map.1 ha
    exact bytePop_le b
  have hsum : c.sum = (block.map popcount).sum := by rw [← hc]; exact sum_bytes_block block
  rw [zipWith_add_mod _ _ (fun a ha => hle a (List.mem_of_mem_take ha))
    (fun a ha => hle a (List.mem_of_mem_drop (List.mem_of_mem_take ha)))]
  rw [sum_lanes _ (by simp [hlen]), sum_zipWith_add _ _ (by simp [hlen]), ← hsum]
  have e3 : ((c.drop 32).take 32) = c.drop 32 := List.take_of_length_le (by simp; omega)
  rw [e3, sum_take_drop]

theorem blockPopcountPortable_eq (block : List (BitVec 64)) :
    blockPopcountPortable block = (block.map popcount).sum := by
  unfold blockPopcountPortable
  congr 1
  exact List.map_congr_left (fun w _ => popc_eq_popcount w)
end SV.Kernels
