/-
Proof/BPNavEq — rank0 / excess / depth / is_open / first_child of the model equal their linear-scan
definitions, and masking the final word does not change the denoted bits (C04).
-/
import SuccinctlyVerif.Proof.BPRankEq
namespace SV.BPR
open SV SV.BP SV.BPM SV.BPP

/-! ### stored words: owned constructors mask the final word -/

theorem maskFinalWord_getElem? (ws : List (BitVec 64)) (len i : Nat) :
    (maskFinalWord ws len)[i]? =
      (ws[i]?).map fun w => if i = ws.length - 1 ∧ len % 64 ≠ 0 then w &&& ((1#64 <<< (len % 64)) - 1) else w := by
  unfold maskFinalWord
  by_cases h : len % 64 ≠ 0
  · rw [if_pos h]
    simp only [ne_eq, h, not_false_eq_true, and_true]
    rcases hr : ws.reverse with _ | ⟨last, revInit⟩
    · have : ws = [] := by simpa using hr
      subst this; simp
    · have hws : ws = revInit.reverse ++ [last] := by
        have := congrArg List.reverse hr
        simpa using this
      subst hws
      simp only [List.length_append, List.length_reverse, List.length_cons, List.length_nil, Nat.add_sub_cancel]
      by_cases hi : i < revInit.length
      · rw [List.getElem?_append_left (by simpa using hi), List.getElem?_append_left (by simpa using hi)]
        have : i ≠ revInit.length := by omega
        simp [this]
      · rw [List.getElem?_append_right (by simp; omega), List.getElem?_append_right (by simp; omega)]
        simp only [List.length_reverse]
        by_cases he : i = revInit.length
        · subst he; simp
        · have : i - revInit.length ≠ 0 := by omega
          have h1 : ([last &&& ((1#64 <<< (len % 64)) - 1)] : List (BitVec 64))[i - revInit.length]? = none := by
            apply List.getElem?_eq_none; simp; omega
          have h2 : ([last] : List (BitVec 64))[i - revInit.length]? = none := by
            apply List.getElem?_eq_none; simp; omega
          rw [h1, h2]; rfl
  · rw [if_neg h]
    have h' : len % 64 = 0 := by omega
    simp only [ne_eq, h', not_true_eq_false, and_false, if_false]
    cases ws[i]? <;> simp

theorem maskFinalWord_length (ws : List (BitVec 64)) (len : Nat) : (maskFinalWord ws len).length = ws.length := by
  unfold maskFinalWord
  by_cases h : len % 64 ≠ 0
  · rw [if_pos h]
    rcases hr : ws.reverse with _ | ⟨last, revInit⟩
    · rfl
    · have hws : ws = revInit.reverse ++ [last] := by
        have := congrArg List.reverse hr
        simpa using this
      subst hws; simp
  · simp [h]

/-- Masking the final word does not change the first `len` bits. -/
theorem bitsOf_maskFinalWord (ws : List (BitVec 64)) (len : Nat) (hw : ws.length = (len + 63) / 64) :
    bitsOf (maskFinalWord ws len) len = bitsOf ws len := by
  apply List.ext_getElem?
  intro p
  rw [bitsOf_getElem?, bitsOf_getElem?]
  by_cases hp : p < len
  · simp only [hp, if_true]
    rw [maskFinalWord_getElem?]
    have hlt : p / 64 < ws.length := by omega
    rw [List.getElem?_eq_getElem hlt]
    simp only [Option.map_some]
    by_cases hc : p / 64 = ws.length - 1 ∧ len % 64 ≠ 0
    · simp only [hc, and_self, if_true, ne_eq, not_false_eq_true]
      have hm := lowMask_getLsbD ⟨len % 64, by omega⟩ ⟨p % 64, by omega⟩
      simp only at hm
      rw [BitVec.getLsbD_and, hm]
      have : p % 64 < len % 64 := by omega
      simp [this]
    · simp only [hc, if_false]
  · simp [hp]

/-! ### is_open / is_close -/

theorem isOpen_eq (simd : Bool) (st : List (BitVec 64)) (len : Nat) (k : SelKind) (p : Nat)
    (hw : st.length = (len + 63) / 64) :
    (mkBP simd st len k).isOpen p = BP.isOpen (bitsOf st len) p := by
  unfold BPM.BP.isOpen BP.isOpen BP.word
  simp only [mkBP, toArray_getD]
  rw [bitsOf_getElem?]
  by_cases hp : p < len
  · have hlt : p / 64 < st.length := by omega
    have : ¬ p ≥ len := by omega
    simp only [this, if_false, hp, if_true, List.getD_eq_getElem?_getD, List.getElem?_eq_getElem hlt]
    cases h : st[p / 64].getLsbD (p % 64) <;> simp [h]
  · have : p ≥ len := by omega
    simp [this, hp]

theorem isClose_eq (simd : Bool) (st : List (BitVec 64)) (len : Nat) (k : SelKind) (p : Nat)
    (hw : st.length = (len + 63) / 64) :
    (mkBP simd st len k).isClose p = BP.isClose (bitsOf st len) p := by
  unfold BPM.BP.isClose
  rw [isOpen_eq simd st len k p hw]
  unfold BP.isOpen BP.isClose
  have hlenf : (mkBP simd st len k).len = len := rfl
  rw [hlenf]
  have hl := bitsOf_length st len (by omega)
  by_cases hp : p < len
  · have : ¬ p ≥ len := by omega
    simp only [this, if_false]
    have : p < (bitsOf st len).length := by omega
    rw [List.getElem?_eq_getElem this]
    cases (bitsOf st len)[p] <;> simp
  · have : p ≥ len := by omega
    simp only [this, if_true]
    rw [List.getElem?_eq_none (by omega)]
    simp

/-! ### rank0 / excess / depth -/

theorem count_false_add_true (l : List Bool) : l.count false + l.count true = l.length := by
  induction l with
  | nil => rfl
  | cons x xs ih => cases x <;> simp <;> omega

theorem rank0_eq (simd : Bool) (st : List (BitVec 64)) (len : Nat) (k : SelKind) (p : Nat)
    (hw : st.length = (len + 63) / 64) (hlen : len < 2 ^ 32) :
    (mkBP simd st len k).rank0 p = rankB false (bitsOf st len) p := by
  unfold BPM.BP.rank0
  rw [rank1_eq simd st len k p hw hlen]
  have hlenf : (mkBP simd st len k).len = len := rfl
  rw [hlenf]
  unfold rankB
  have h := count_false_add_true ((bitsOf st len).take p)
  have hl := bitsOf_length st len (by omega)
  rw [List.length_take, hl] at h
  omega

theorem wrapI32_arith (a b : Int) : wrapI32 (2 * wrapI32 a - wrapI32 b) = wrapI32 (2 * a - b) := by
  unfold wrapI32; omega

theorem wrapI32_id (x : Int) (h1 : -2147483648 ≤ x) (h2 : x < 2147483648) : wrapI32 x = x := by
  unfold wrapI32; omega

/-- `excess(p)` is the linear-scan excess reduced to `i32` (no reduction when `len < 2^31`). -/
theorem excess_eq_wrap (simd : Bool) (st : List (BitVec 64)) (len : Nat) (k : SelKind) (p : Nat)
    (hw : st.length = (len + 63) / 64) (hlen : len < 2 ^ 32) :
    (mkBP simd st len k).excess p = wrapI32 (BP.excessAt (bitsOf st len) p) := by
  unfold BPM.BP.excess BP.excessAt
  have hlenf : (mkBP simd st len k).len = len := rfl
  have hl := bitsOf_length st len (by omega)
  rw [hlenf, hl]
  by_cases hp : p < len
  · have : ¬ p ≥ len := by omega
    simp only [this, if_false, hp, if_true]
    rw [wrapI32_arith, rank1_eq simd st len k (p + 1) hw hlen]
    unfold BP.excess rankB
    have h := count_false_add_true ((bitsOf st len).take (p + 1))
    rw [List.length_take, hl] at h
    congr 1
    have : min (p + 1) len = p + 1 := by omega
    rw [this] at h
    omega
  · have : p ≥ len := by omega
    simp [this, hp, wrapI32]

theorem excess_bound (bs : List Bool) (i : Nat) : - (bs.length : Int) ≤ BP.excess bs i ∧ BP.excess bs i ≤ bs.length := by
  unfold BP.excess
  have h := count_false_add_true (bs.take i)
  have : (bs.take i).length ≤ bs.length := by simp [List.length_take]; omega
  omega

theorem excess_eq (simd : Bool) (st : List (BitVec 64)) (len : Nat) (k : SelKind) (p : Nat)
    (hw : st.length = (len + 63) / 64) (hlen : len < 2 ^ 31) :
    (mkBP simd st len k).excess p = BP.excessAt (bitsOf st len) p := by
  rw [excess_eq_wrap simd st len k p hw (by omega)]
  apply wrapI32_id
  · unfold BP.excessAt
    have hl := bitsOf_length st len (by omega)
    have := excess_bound (bitsOf st len) (p + 1)
    split <;> omega
  · unfold BP.excessAt
    have hl := bitsOf_length st len (by omega)
    have := excess_bound (bitsOf st len) (p + 1)
    split <;> omega

theorem depth_eq (simd : Bool) (st : List (BitVec 64)) (len : Nat) (k : SelKind) (p : Nat)
    (hw : st.length = (len + 63) / 64) (hlen : len < 2 ^ 31) :
    (mkBP simd st len k).depth p = BP.depth (bitsOf st len) p := by
  unfold BPM.BP.depth BP.depth
  have hlenf : (mkBP simd st len k).len = len := rfl
  have hl := bitsOf_length st len (by omega)
  rw [hlenf, hl]
  by_cases hp : p < len
  · have : ¬ p ≥ len := by omega
    simp only [this, if_false, hp, if_true]
    rw [excess_eq simd st len k p hw hlen]
    unfold BP.excessAt
    rw [hl]; simp only [hp, if_true]
    rfl
  · have : p ≥ len := by omega
    simp [this, hp]

/-! ### first_child -/

theorem firstChild_eq (simd : Bool) (st : List (BitVec 64)) (len : Nat) (k : SelKind) (p : Nat)
    (hw : st.length = (len + 63) / 64) :
    (mkBP simd st len k).firstChild p = BP.firstChild (bitsOf st len) p := by
  unfold BPM.BP.firstChild BP.firstChild
  rw [isOpen_eq simd st len k p hw, isOpen_eq simd st len k (p + 1) hw]
  have hlenf : (mkBP simd st len k).len = len := rfl
  have hl := bitsOf_length st len (by omega)
  rw [hlenf]
  unfold BP.isOpen
  by_cases h1 : (bitsOf st len)[p]? = some true
  · by_cases h2 : (bitsOf st len)[p + 1]? = some true
    · have : p + 1 < len := by
        have := (List.getElem?_eq_some_iff.mp h2).1; omega
      have hn : ¬ p + 1 ≥ len := by omega
      simp [h1, h2, hn]
    · by_cases hn : p + 1 ≥ len
      · simp [h1, h2, hn]
      · simp [h1, h2, hn]
  · simp [h1]

end SV.BPR
