/-
Proof/JsonPdaWF — well-formedness of the states of the reference automaton (Spec/JsonPda): the
invariant of every state reachable from `init` (shared by the soundness, completeness and
completion proofs).
-/
import SuccinctlyVerif.Spec.JsonPda
namespace SV.Json.Pda
open SV.Json

/-- The proper non-empty tails of `true` / `false` / `null` after their first letter. -/
def kwTails : List Bytes :=
  [[0x72, 0x75, 0x65], [0x75, 0x65], [0x65],
   [0x61, 0x6C, 0x73, 0x65], [0x6C, 0x73, 0x65], [0x73, 0x65],
   [0x75, 0x6C, 0x6C], [0x6C, 0x6C], [0x6C]]

/-- a key string can only be open directly inside an object -/
def KeyOK (key : Bool) (stk : List Bool) : Prop := key = true → ∃ t, stk = false :: t

/-- Consistency of the lexical position with the stack of open containers. -/
def LexWF : Lex → List Bool → Prop
  | .top, stk => stk = []
  | .after, _ => True
  | .arrStart, stk | .arrNext, stk => ∃ t, stk = true :: t
  | .objStart, stk | .objKey, stk | .objColon, stk | .objVal, stk => ∃ t, stk = false :: t
  | .str k, stk | .esc k, stk | .hiDone k, stk | .hiBs k, stk => KeyOK k stk
  | .uni k n v, stk =>
    KeyOK k stk ∧ n ≤ 3 ∧ v < 16 ^ n ∧
      (2 ≤ n → ¬ (0xDC ≤ v / 16 ^ (n - 2) ∧ v / 16 ^ (n - 2) ≤ 0xDF))
  | .lo k n, stk => KeyOK k stk ∧ n ≤ 3
  | .utf8 k n lo hi, stk => KeyOK k stk ∧ 1 ≤ n ∧ n ≤ 3 ∧ 0x80 ≤ lo ∧ lo ≤ hi ∧ hi ≤ 0xBF
  | .minus, _ | .zero, _ | .int, _ | .dot, _ | .frac, _ | .e, _ | .esign, _ | .exp, _ => True
  | .kw r, _ => r ∈ kwTails

/-- Invariant of the states reachable from `init` under nesting limit `max`. -/
def WF (max : Nat) (s : PState) : Prop := s.stack.length ≤ max ∧ LexWF s.lex s.stack

theorem WF_init (max : Nat) : WF max init := ⟨Nat.zero_le _, rfl⟩

/-- Statement of invariance (proved in Proof/JsonPdaComplete). -/
def StepPreservesWF (max : Nat) : Prop :=
  ∀ (s s' : PState) (b : Byte), WF max s → step max s b = some s' → WF max s'

theorem runFrom_append (max : Nat) (a b : Bytes) : ∀ s : PState,
    runFrom max s (a ++ b) = (runFrom max s a).bind (fun s' => runFrom max s' b) := by
  induction a with
  | nil => intro s; simp [runFrom]
  | cons x a ih =>
    intro s
    simp only [List.cons_append, runFrom]
    cases step max s x with
    | none => simp
    | some s' => simpa using ih s'

end SV.Json.Pda
