/-
Proof/BPWrap — what happens for `2^31 ≤ len < 2^32`, where the constructors accept the input but
the `i32` excess of `excess()` / `depth()` / `find_close_from` no longer fits: model-level witnesses
(C04, finding F13).
-/
import SuccinctlyVerif.Proof.BPNavEq
namespace SV.BPR
open SV SV.BP SV.BPM SV.BPP

theorem allOnes_getLsbD : ∀ i : Fin 64, (BitVec.allOnes 64).getLsbD i.val = true := by decide

/-- Bits of an all-ones word vector. -/
theorem bitsOf_allOnes (m len : Nat) (h : len ≤ 64 * m) :
    bitsOf (List.replicate m (BitVec.allOnes 64)) len = List.replicate len true := by
  apply List.ext_getElem?
  intro p
  rw [bitsOf_getElem?, List.getElem?_replicate]
  by_cases hp : p < len
  · have h1 : p / 64 < m := by omega
    have h2 : p % 64 < 64 := by omega
    have hb := allOnes_getLsbD ⟨p % 64, h2⟩
    simp only at hb
    simp only [hp, if_true, h1, Option.map_some, hb]
    rw [List.getElem?_replicate]; simp [hp]
  · simp [hp]

theorem rankB_replicate_true (n p : Nat) (hp : p ≤ n) : rankB true (List.replicate n true) p = p := by
  unfold rankB
  rw [List.take_replicate, Nat.min_eq_left hp, List.count_replicate]
  simp

theorem depth_replicate_true (n p : Nat) (hp : p < n) : BP.depth (List.replicate n true) p = some (p + 1) := by
  unfold BP.depth BP.excess BP.i32AsUsize
  simp only [List.length_replicate, hp, if_true, List.take_replicate]
  have hm : min (p + 1) n = p + 1 := by omega
  rw [hm, List.count_replicate, List.count_replicate]
  simp
  omega

theorem maskFinalWord_id (ws : List (BitVec 64)) (len : Nat) (h : len % 64 = 0) : maskFinalWord ws len = ws := by
  unfold maskFinalWord
  have : ¬ len % 64 ≠ 0 := by omega
  rw [if_neg this]

/-- General form: any all-opens sequence of exactly `2^31` bits. -/
theorem depth_defect_general (st : List (BitVec 64)) (hw : st.length = (2147483648 + 63) / 64)
    (hb : bitsOf st 2147483648 = List.replicate 2147483648 true) :
    (construct false true st 2147483648 .noSelect).map (fun I => I.depth 2147483647) =
        some (some 18446744071562067968) ∧
    BP.depth (bitsOf st 2147483648) 2147483647 = some 2147483648 := by
  constructor
  · have hc : construct false true st 2147483648 .noSelect = some (mkBP false st 2147483648 .noSelect) := by
      unfold construct buildOwned build
      rw [maskFinalWord_id st 2147483648 (by omega)]
      have : ¬ (2147483648 ≥ 2 ^ 32) := by omega
      simp only [if_true, this, if_false]
    rw [hc, Option.map_some]
    have hr := rank1_eq false st 2147483648 .noSelect 2147483648 hw (by omega)
    rw [hb, rankB_replicate_true _ _ (Nat.le_refl _)] at hr
    unfold BPM.BP.depth BPM.BP.excess
    have hlenf : (mkBP false st 2147483648 .noSelect).len = 2147483648 := rfl
    rw [hlenf]
    have hnot : ¬ (2147483647 ≥ 2147483648) := by omega
    rw [if_neg hnot, if_neg hnot]
    have e : 2147483647 + 1 = 2147483648 := rfl
    rw [e, hr]
    decide
  · rw [hb, depth_replicate_true _ _ (by omega)]

/-- **Witness (depth)**: on `2^31` opens (a 256 MiB bitmap, accepted by every constructor) the depth
of the last open is `2^31`, but `depth()` — `excess() as usize` through a wrapping `i32` — yields
`2^64 − 2^31`. -/
theorem depth_defect_beyond_i32 :
    (construct false true (List.replicate 33554432 (BitVec.allOnes 64)) 2147483648 .noSelect).map
        (fun I => I.depth 2147483647) = some (some 18446744071562067968) ∧
    BP.depth (bitsOf (List.replicate 33554432 (BitVec.allOnes 64)) 2147483648) 2147483647 = some 2147483648 :=
  depth_defect_general _ (by rw [List.length_replicate]) (bitsOf_allOnes 33554432 2147483648 (by omega))

/-- **Witness (find_close_from mechanism)**: once the `i32` excess has wrapped to `−2^31` (after
`2^31` opens), `excess + l2_min_excess` wraps again and becomes positive, the block is not
searched, and the branch `is_close(pos) && excess <= 1` (unreachable while the excess is exact,
see `BPF.fcfLoop_sound`) returns the current position as a match. Shown on one `CheckL2` step of a
structure whose first L2 block is all closes. -/
theorem checkL2_false_match :
    fcfStep { words := #[0#64], len := 64, totalOnes := 0, l0 := #[(-64, -64)], l1 := #[(-64, -64)],
              l2 := #[(-65536, -65536)], rankL1 := #[0], rankL2 := #[0], sel := Sel.none }
      St.checkL2 (wrapI32 2147483648) 0 = Sum.inl (some 0) := by
  decide

end SV.BPR
