/-
Proof/DsvNav — facts about the quote-aware splitting spec of C21 (core Lean only).
-/
import SuccinctlyVerif.Model.DsvNav
namespace SV.DsvNavP
open SV SV.Dsv

theorem segs_ne_nil (sep q : Byte) : ∀ (bs : List Byte) (st : Bool), segs sep q st bs ≠ [] := by
  intro bs
  induction bs with
  | nil => intro st; simp [segs]
  | cons b bs ih =>
    intro st
    unfold segs
    simp only
    split
    · simp
    · split
      · simp
      · simp

/-- Appending an unquoted separator appends one empty segment. -/
theorem segs_snoc_sep (sep q : Byte) (hsq : sep ≠ q) : ∀ (t : List Byte) (st : Bool),
    finalQuote q st t = false → segs sep q st (t ++ [sep]) = segs sep q st t ++ [[]] := by
  intro t
  induction t with
  | nil =>
    intro st h
    simp only [finalQuote, List.foldl_nil] at h
    subst h
    have : (sep == q) = false := by simp [hsq]
    simp [segs, quoteAfter, this]
  | cons b bs ih =>
    intro st h
    have h' : finalQuote q (quoteAfter q st b) bs = false := by simpa [finalQuote] using h
    have ih' := ih _ h'
    rw [List.cons_append]
    unfold segs
    simp only
    split
    · rw [ih']; simp
    · rw [ih']
      have := segs_ne_nil sep q bs (quoteAfter q st b)
      cases hs : segs sep q (quoteAfter q st b) bs with
      | nil => exact absurd hs this
      | cons seg rest => simp

/-- The last segment is empty only for an empty text or a text ending with the separator. -/
theorem segs_getLast_ne (sep q : Byte) : ∀ (t : List Byte) (st : Bool), t ≠ [] → t.getLast? ≠ some sep →
    (segs sep q st t).getLast? ≠ some [] := by
  intro t
  induction t with
  | nil => intro st h; exact absurd rfl h
  | cons b bs ih =>
    intro st _ hl
    unfold segs
    simp only
    by_cases hbs : bs = []
    · subst hbs
      have hb : b ≠ sep := by simpa using hl
      have : (b == sep) = false := by simp [hb]
      simp [segs, this]
    · have hl' : bs.getLast? ≠ some sep := by
        rw [List.getLast?_cons_of_ne_nil hbs] at hl; exact hl
      have ih' := ih (quoteAfter q st b) hbs hl'
      have hne := segs_ne_nil sep q bs (quoteAfter q st b)
      split
      · rw [List.getLast?_cons_of_ne_nil hne]; exact ih'
      · cases hs : segs sep q (quoteAfter q st b) bs with
        | nil => exact absurd hs hne
        | cons seg rest =>
          rw [hs] at ih'
          simp only
          cases rest with
          | nil =>
            simp
          | cons r rs =>
            rw [List.getLast?_cons_of_ne_nil (by simp)]
            rw [List.getLast?_cons_of_ne_nil (by simp)] at ih'
            exact ih'

/-- Appending a record separator to a non-empty, quote-balanced text that does not end with one
changes neither the rows nor their fields. -/
theorem rowsSpec_append_sep (d q n : Byte) (hqn : q ≠ n) (t : List Byte) (ht : t ≠ [])
    (hb : balanced q t = true) (hl : t.getLast? ≠ some n) :
    rowsSpec d q n (t ++ [n]) = rowsSpec d q n t := by
  have hf : finalQuote q false t = false := by simpa [balanced] using hb
  unfold rowsSpec rowSegs
  simp only
  rw [segs_snoc_sep n q (fun h => hqn h.symm) t false hf]
  have h1 : (segs n q false t ++ [[]]).getLast? = some [] := by simp
  have h2 := segs_getLast_ne n q t false ht hl
  have h2' : ((segs n q false t).getLast? == some []) = false := by
    simpa using h2
  simp only [h1, beq_self_eq_true, if_true, List.dropLast_concat, h2', Bool.false_eq_true, if_false]

end SV.DsvNavP
