/-
Proof/JqCodec — `@base64 | @base64d` and `@uri` followed by percent-decoding are the identity on
every byte string. Table facts (64 alphabet entries, 256 byte values) by `decide`; the bit arithmetic
by `omega` after turning shifts into multiplications / divisions.
-/
import SuccinctlyVerif.Model.Jq
namespace SV.Jq

theorem b64val_chars : ∀ k : Fin 64, b64val (b64chars.getD k.val 'A') = some k.val := by decide
theorem b64chars_ne_pad : ∀ k : Fin 64, b64chars.getD k.val 'A' ≠ '=' := by decide

theorem b64val_char (k : Nat) (h : k < 64) : b64val (b64chars.getD k 'A') = some k := b64val_chars ⟨k, h⟩
theorem b64char_ne (k : Nat) (h : k < 64) : b64chars.getD k 'A' ≠ '=' := b64chars_ne_pad ⟨k, h⟩

theorem u8_lt (a : UInt8) : a.toNat < 256 := a.toNat_lt

theorem b64_round3 (a b c : UInt8) (rest : List UInt8) (ih : b64dec (b64enc rest) = some rest) :
    b64dec (b64enc (a :: b :: c :: rest)) = some (a :: b :: c :: rest) := by
  have ha := u8_lt a; have hb := u8_lt b; have hc := u8_lt c
  simp only [b64enc]
  generalize hn : (a.toNat <<< 16) + (b.toNat <<< 8) + c.toNat = n
  have hn' : n = a.toNat * 65536 + b.toNat * 256 + c.toNat := by
    rw [← hn]; simp [Nat.shiftLeft_eq]
  have h1 : n >>> 18 < 64 := by simp [Nat.shiftRight_eq_div_pow]; omega
  have h2 : (n >>> 12) % 64 < 64 := Nat.mod_lt _ (by decide)
  have h3 : (n >>> 6) % 64 < 64 := Nat.mod_lt _ (by decide)
  have h4 : n % 64 < 64 := Nat.mod_lt _ (by decide)
  have n3 := b64char_ne _ h3
  have n4 := b64char_ne _ h4
  rw [b64dec]
  · simp only [b64val_char _ h1, b64val_char _ h2, b64val_char _ h3, b64val_char _ h4, ih]
    congr 2
    · apply UInt8.toNat_inj.mp
      simp [Nat.shiftLeft_eq, Nat.shiftRight_eq_div_pow]; omega
    · congr 1
      · apply UInt8.toNat_inj.mp
        simp [Nat.shiftLeft_eq, Nat.shiftRight_eq_div_pow]; omega
      · congr 1
        apply UInt8.toNat_inj.mp
        simp [Nat.shiftLeft_eq, Nat.shiftRight_eq_div_pow]; omega
  all_goals (intros; simp_all)

theorem b64_round1 (a : UInt8) : b64dec (b64enc [a]) = some [a] := by
  have ha := u8_lt a
  simp only [b64enc]
  have h1 : (a.toNat <<< 16) >>> 18 < 64 := by simp [Nat.shiftLeft_eq, Nat.shiftRight_eq_div_pow]; omega
  have h2 : ((a.toNat <<< 16) >>> 12) % 64 < 64 := Nat.mod_lt _ (by decide)
  rw [b64dec]
  simp only [b64val_char _ h1, b64val_char _ h2]
  congr 2
  apply UInt8.toNat_inj.mp
  simp [Nat.shiftLeft_eq, Nat.shiftRight_eq_div_pow]; omega

theorem b64_round2 (a b : UInt8) : b64dec (b64enc [a, b]) = some [a, b] := by
  have ha := u8_lt a; have hb := u8_lt b
  simp only [b64enc]
  generalize hn : (a.toNat <<< 16) + (b.toNat <<< 8) = n
  have hn' : n = a.toNat * 65536 + b.toNat * 256 := by rw [← hn]; simp [Nat.shiftLeft_eq]
  have h1 : n >>> 18 < 64 := by simp [Nat.shiftRight_eq_div_pow]; omega
  have h2 : (n >>> 12) % 64 < 64 := Nat.mod_lt _ (by decide)
  have h3 : (n >>> 6) % 64 < 64 := Nat.mod_lt _ (by decide)
  have n3 := b64char_ne _ h3
  rw [b64dec]
  · simp only [b64val_char _ h1, b64val_char _ h2, b64val_char _ h3]
    congr 2
    · apply UInt8.toNat_inj.mp
      simp [Nat.shiftLeft_eq, Nat.shiftRight_eq_div_pow]; omega
    · congr 1
      apply UInt8.toNat_inj.mp
      simp [Nat.shiftLeft_eq, Nat.shiftRight_eq_div_pow]; omega
  all_goals (intros; simp_all)

/-- **`@base64 | @base64d` is the identity on every byte string.** -/
theorem base64_round_trip (bs : List UInt8) : b64dec (b64enc bs) = some bs := by
  fun_induction b64enc bs with
  | case1 => simp [b64dec]
  | case2 a => exact b64_round1 a
  | case3 a b => exact b64_round2 a b
  | case4 a b c rest n ih => exact b64_round3 a b c rest ih


def unres (c : Char) : Bool := c.isAlphanum || c == '-' || c == '_' || c == '.' || c == '~'

def encByte (b : UInt8) : List Char :=
  let c := Char.ofNat b.toNat
  if c.isAlphanum || c == '-' || c == '_' || c == '.' || c == '~' then [c]
  else ['%', hexUp (b.toNat / 16), hexUp (b.toNat % 16)]

theorem uriEnc_cons (b : UInt8) (rest : List UInt8) : uriEnc (b :: rest) = encByte b ++ uriEnc rest := by
  simp [uriEnc, encByte, List.flatMap_cons]

theorem byte_facts : ∀ n : Fin 256,
    (unres (Char.ofNat n.val) = true →
      Char.ofNat n.val ≠ '%' ∧ (Char.ofNat n.val).toNat < 128 ∧ (Char.ofNat n.val).toNat = n.val) ∧
    (hexVal (hexUp (n.val / 16)) = some (n.val / 16) ∧ hexVal (hexUp (n.val % 16)) = some (n.val % 16)) := by
  decide +kernel

theorem uri_round_trip (bs : List UInt8) : uriDec (uriEnc bs) = some bs := by
  induction bs with
  | nil => simp [uriEnc, uriDec]
  | cons b rest ih =>
    rw [uriEnc_cons]
    have hb : b.toNat < 256 := b.toNat_lt
    obtain ⟨f1, f2, f3⟩ := byte_facts ⟨b.toNat, hb⟩
    simp only [encByte]
    split
    · rename_i hu
      obtain ⟨ne, lt, eq⟩ := f1 (by simpa [unres] using hu)
      simp only [List.singleton_append]
      rw [uriDec]
      · simp only [lt, ↓reduceIte, ih, Option.map_some]
        congr 2
        apply UInt8.toNat_inj.mp
        simp only [eq]
        simp
      · intros; simp_all
    · simp only [List.cons_append, List.nil_append]
      rw [uriDec]
      simp only [f2, f3, ih]
      congr 2
      apply UInt8.toNat_inj.mp
      simp
      omega

end SV.Jq
