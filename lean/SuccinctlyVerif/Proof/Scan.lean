/-
Proof/Scan — the shared block-skipping select scan equals the plain per-word scan, and the plain
scan locates the word holding the requested set bit (used by C01, C02, C03, C17).
-/
import SuccinctlyVerif.Spec.Bits
import SuccinctlyVerif.Model.Scan
namespace SV.Scan
open SV

variable (pc : BitVec 64 → Nat)

/-! ### list-level facts about `selectB` / `rankB` -/

theorem selectB_append (b : Bool) (l1 l2 : List Bool) (k : Nat) :
    selectB b (l1 ++ l2) k =
      if k < l1.count b then selectB b l1 k
      else (selectB b l2 (k - l1.count b)).map (· + l1.length) := by
  induction l1 generalizing k with
  | nil => simp
  | cons x xs ih =>
    by_cases hx : x = b
    · subst hx
      cases k with
      | zero => simp [selectB]
      | succ k =>
        simp only [List.cons_append, selectB, if_true, List.count_cons_self, List.length_cons]
        rw [ih k]
        by_cases hk : k < List.count x xs
        · simp [hk]
        · simp only [hk, if_false, Nat.add_lt_add_iff_right, Nat.add_sub_add_right]
          cases selectB x l2 (k - List.count x xs) <;> simp; omega
    · have hc : List.count b (x :: xs) = List.count b xs := by
        rw [List.count_cons]; simp [hx]
      simp only [List.cons_append, selectB, hx, if_false, hc, List.length_cons]
      rw [ih k]
      by_cases hk : k < List.count b xs
      · simp [hk]
      · simp only [hk, if_false]
        cases selectB b l2 (k - List.count b xs) <;> simp; omega

theorem selectB_none_of_count_le (b : Bool) (l : List Bool) (k : Nat) (h : l.count b ≤ k) :
    selectB b l k = none := by
  induction l generalizing k with
  | nil => rfl
  | cons x xs ih =>
    by_cases hx : x = b
    · subst hx
      rw [List.count_cons_self] at h
      cases k with
      | zero => omega
      | succ k => simp [selectB, ih k (by omega)]
    · have hc : List.count b (x :: xs) = List.count b xs := by rw [List.count_cons]; simp [hx]
      rw [hc] at h
      simp [selectB, hx, ih k h]

theorem selectB_isSome_of_lt (b : Bool) (l : List Bool) (k : Nat) (h : k < l.count b) :
    (selectB b l k).isSome := by
  induction l generalizing k with
  | nil => simp at h
  | cons x xs ih =>
    by_cases hx : x = b
    · subst hx
      rw [List.count_cons_self] at h
      cases k with
      | zero => simp [selectB]
      | succ k =>
        have := ih k (by omega)
        simpa [selectB] using this
    · have hc : List.count b (x :: xs) = List.count b xs := by rw [List.count_cons]; simp [hx]
      rw [hc] at h
      have := ih k h
      simpa [selectB, hx] using this

theorem wordBits_length (w : BitVec 64) : (wordBits w).length = 64 := by simp [wordBits]

theorem allBits_cons (w : BitVec 64) (ws : List (BitVec 64)) :
    allBits (w :: ws) = wordBits w ++ allBits ws := by simp [allBits]

theorem allBits_length (ws : List (BitVec 64)) : (allBits ws).length = 64 * ws.length := by
  induction ws with
  | nil => simp [allBits]
  | cons w ws ih => rw [allBits_cons, List.length_append, wordBits_length, ih]; simp; omega

theorem count_allBits (ws : List (BitVec 64)) :
    (allBits ws).count true = (ws.map popcount).sum := by
  induction ws with
  | nil => simp [allBits]
  | cons w ws ih => rw [allBits_cons, List.count_append, ih]; simp [popcount]

/-! ### the plain scan -/

theorem scanScalar_append (a b : List (BitVec 64)) (off rem : Nat) :
    scanScalar pc (a ++ b) off rem =
      if (a.map pc).sum > rem then scanScalar pc a off rem
      else scanScalar pc b (off + a.length) (rem - (a.map pc).sum) := by
  induction a generalizing off rem with
  | nil => simp
  | cons w ws ih =>
    simp only [List.cons_append, scanScalar, List.map_cons, List.sum_cons, List.length_cons]
    by_cases h : pc w > rem
    · have : pc w + (ws.map pc).sum > rem := by omega
      simp [h, this]
    · simp only [h, if_false]
      rw [ih]
      have e1 : ((ws.map pc).sum > rem - pc w) ↔ (pc w + (ws.map pc).sum > rem) := by omega
      have e2 : off + 1 + ws.length = off + (ws.length + 1) := by omega
      have e3 : rem - pc w - (ws.map pc).sum = rem - (pc w + (ws.map pc).sum) := by omega
      simp only [e1, e2, e3]

theorem scanScalar_isSome (a : List (BitVec 64)) (off rem : Nat) (h : (a.map pc).sum > rem) :
    (scanScalar pc a off rem).isSome := by
  induction a generalizing off rem with
  | nil => simp at h
  | cons w ws ih =>
    simp only [scanScalar]
    by_cases hw : pc w > rem
    · simp [hw]
    · simp only [hw, if_false]
      apply ih
      simp only [List.map_cons, List.sum_cons] at h
      omega

theorem scanScalar_none (a : List (BitVec 64)) (off rem : Nat) (h : (a.map pc).sum ≤ rem) :
    scanScalar pc a off rem = none := by
  induction a generalizing off rem with
  | nil => rfl
  | cons w ws ih =>
    simp only [List.map_cons, List.sum_cons] at h
    have hw : ¬ pc w > rem := by omega
    simp only [scanScalar, hw, if_false]
    apply ih; omega

/-! ### block loop and prologue collapse to the plain scan, for every block size and prologue -/

theorem scanScalar_take_drop (n : Nat) (ws : List (BitVec 64)) (off rem : Nat) :
    scanScalar pc ws off rem =
      if ((ws.take n).map pc).sum > rem then scanScalar pc (ws.take n) off rem
      else scanScalar pc (ws.drop n) (off + (ws.take n).length) (rem - ((ws.take n).map pc).sum) := by
  have := scanScalar_append pc (ws.take n) (ws.drop n) off rem
  rwa [List.take_append_drop] at this

theorem scanBlocks_eq (B fuel : Nat) (ws : List (BitVec 64)) (idx rem : Nat) :
    scanBlocks pc B fuel ws idx rem = scanScalar pc ws idx rem := by
  induction fuel generalizing ws idx rem with
  | zero => rfl
  | succ fuel ih =>
    simp only [scanBlocks]
    by_cases hB : B ≤ ws.length
    · rw [if_pos hB]
      have hlen : (ws.take B).length = B := by rw [List.length_take]; omega
      rw [scanScalar_take_drop pc B ws idx rem, hlen]
      by_cases ht : ((ws.take B).map pc).sum > rem
      · rw [if_pos ht, if_pos ht]
      · rw [if_neg ht, if_neg ht, ih]
    · rw [if_neg hB]

/-- `scan_select` (prologue + block skipping) returns exactly what the per-word reference scan
returns, for every block size `B`, prologue `P`, word vector, start word and remaining count. -/
theorem scanSelectWith_eq_scalar (B P : Nat) (words : List (BitVec 64)) (start rem : Nat) :
    scanSelectWith pc B P words start rem = scanSelectScalar pc words start rem := by
  unfold scanSelectWith scanSelectScalar
  by_cases hs : start ≥ words.length
  · rw [if_pos hs, if_pos hs]
  · rw [if_neg hs, if_neg hs]
    generalize words.drop start = ws
    dsimp only
    rw [scanScalar_take_drop pc P ws start rem]
    by_cases ht : ((ws.take P).map pc).sum > rem
    · have hsome := scanScalar_isSome pc (ws.take P) start rem ht
      obtain ⟨r, hr⟩ := Option.isSome_iff_exists.mp hsome
      rw [if_pos ht, hr]
    · have hnone := scanScalar_none pc (ws.take P) start rem (by omega)
      rw [if_neg ht, hnone]
      simp only [scanBlocks_eq]

theorem scanSelect_eq_scalar (words : List (BitVec 64)) (start rem : Nat) :
    scanSelect pc words start rem = scanSelectScalar pc words start rem :=
  scanSelectWith_eq_scalar pc _ _ words start rem

/-! ### the plain scan finds the word holding the requested bit -/

/-- If the per-word popcount is exact, the plain scan's answer `(i, r)` satisfies: word `i - off`
holds more than `r` set bits and the `rem`-th set bit of the concatenated bits is the `r`-th set
bit of that word. `none` exactly when fewer than `rem + 1` bits are set. -/
theorem scanScalar_spec (hpc : ∀ w, pc w = popcount w) (ws : List (BitVec 64)) (off rem : Nat) :
    match scanScalar pc ws off rem with
    | some (i, r) => off ≤ i ∧ i - off < ws.length ∧
        selectB true (allBits ws) rem =
          (selectB true (wordBits (ws.getD (i - off) 0)) r).map (· + 64 * (i - off)) ∧
        r < popcount (ws.getD (i - off) 0)
    | none => selectB true (allBits ws) rem = none ∧ (allBits ws).count true ≤ rem := by
  induction ws generalizing off rem with
  | nil => simp [scanScalar, allBits, selectB]
  | cons w ws ih =>
    simp only [scanScalar]
    by_cases hw : pc w > rem
    · simp only [hw, if_true]
      rw [hpc] at hw
      refine ⟨Nat.le_refl _, by simp, ?_, by simpa using hw⟩
      rw [allBits_cons, selectB_append]
      have : rem < (wordBits w).count true := hw
      simp only [this, if_true, Nat.sub_self, List.getD_cons_zero, Nat.mul_zero, Nat.add_zero]
      cases selectB true (wordBits w) rem <;> simp
    · simp only [hw, if_false]
      have hw' : ¬ rem < (wordBits w).count true := by rw [hpc] at hw; exact hw
      have ih' := ih (off + 1) (rem - pc w)
      have hp : pc w = (wordBits w).count true := hpc w
      cases heq : scanScalar pc ws (off + 1) (rem - pc w) with
      | some ir =>
        obtain ⟨i, r⟩ := ir
        rw [heq] at ih'
        obtain ⟨h1, h2, h3, h4⟩ := ih'
        have hi : i - off = (i - (off + 1)) + 1 := by omega
        refine ⟨by omega, by simp; omega, ?_, ?_⟩
        · rw [allBits_cons, selectB_append]
          simp only [hw', if_false, wordBits_length]
          rw [hi, List.getD_cons_succ, ← hp, h3]
          cases selectB true (wordBits (ws.getD (i - (off + 1)) 0)) r <;> simp
          omega
        · rw [hi, List.getD_cons_succ]; exact h4
      | none =>
        rw [heq] at ih'
        obtain ⟨h1, h2⟩ := ih'
        constructor
        · rw [allBits_cons, selectB_append]
          simp only [hw', if_false]
          rw [← hp, h1]; rfl
        · rw [allBits_cons, List.count_append]; omega

end SV.Scan
