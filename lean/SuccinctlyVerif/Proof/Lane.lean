/-
Proof/Lane — facts about the lane primitives of Model/Lane.lean used to tie generated lane DAGs
(tools/rs2lean.py kind "lanes") to hand-written lane predicates with symbolic comparison bytes.
-/
import SuccinctlyVerif.Model.Lane
namespace SV.Lane

/-- The movemask bit of `cmpeq_epi8(a, b)` is `a == b`, for all 65536 pairs. -/
theorem cmpeq_msb (a b : BitVec 8) : (cmpeq a b).msb = (a == b) := by
  unfold cmpeq; split <;> simp_all <;> decide

/-- `cmpeq` lanes are `0xFF` or `0x00`. -/
theorem cmpeq_eq (a b : BitVec 8) : cmpeq a b = if a == b then 0xFF#8 else 0x00#8 := by
  unfold cmpeq; split <;> simp_all

end SV.Lane
