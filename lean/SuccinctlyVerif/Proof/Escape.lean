/-
Proof/Escape — C09: the JSON escape lane mask is the scalar predicate on all 256 bytes; the SSE2 and
AVX2 kernels are instances of the generic chunked scan; per-character facts about the writers.
-/
import SuccinctlyVerif.Proof.Chunked
set_option linter.unusedSimpArgs false
namespace SV.Escape
open SV SV.Chunked

/-- Lane lemma: top bit of the `json_{sse2,avx2}_mask` lane ⇔ `"`, `\` or `< 0x20`, all 256 bytes. -/
theorem jsonMaskLane_msb : ∀ c : BitVec 8, (jsonMaskLane c).msb = needsEscape c := by decide

theorem sse2Scan_eq (data : List (BitVec 8)) : sse2Scan data = scanTail needsEscape data := by
  unfold sse2Scan
  have h := chunkLoop_spec (p := needsEscape) jsonMaskLane jsonMaskLane_msb 16 data.length 0 data
  cases hr : chunkLoop jsonMaskLane 16 data.length 0 data with
  | inl r =>
    rw [hr] at h; obtain ⟨i, h1, h2⟩ := h
    simp [h1, h2]
  | inr pr =>
    rw [hr] at h
    obtain ⟨off', rest⟩ := pr
    obtain ⟨k, h1, h2, h3, h4⟩ := h
    have hd : scanTail needsEscape data = (scanTail needsEscape (data.drop k)).map (k + ·) := by
      conv => lhs; rw [← List.take_append_drop k data, scanTail_append, h4]
      simp [Nat.min_eq_left h2]
    simp only [h1, h3, Nat.zero_add, hd]

theorem avx2Scan_eq (data : List (BitVec 8)) : avx2Scan data = scanTail needsEscape data := by
  unfold avx2Scan
  have h := chunkLoop_spec (p := needsEscape) jsonMaskLane jsonMaskLane_msb 32 data.length 0 data
  cases hr : chunkLoop jsonMaskLane 32 data.length 0 data with
  | inl r =>
    rw [hr] at h; obtain ⟨i, h1, h2⟩ := h
    simp [h1, h2]
  | inr pr =>
    rw [hr] at h
    obtain ⟨off', rest⟩ := pr
    obtain ⟨k, h1, h2, h3, h4⟩ := h
    have hd : scanTail needsEscape data = (scanTail needsEscape (data.drop k)).map (k + ·) := by
      conv => lhs; rw [← List.take_append_drop k data, scanTail_append, h4]
      simp [Nat.min_eq_left h2]
    simp only [h1, Nat.zero_add, hd]
    subst h3
    have hs := chunkStep_spec (p := needsEscape) jsonMaskLane jsonMaskLane_msb 16 (data.drop k)
    cases hc : chunkStep jsonMaskLane 16 (data.drop k) with
    | none => simp
    | some o =>
      rw [hc] at hs
      cases o with
      | some i =>
        obtain ⟨hw, hi⟩ := hs
        simp only
        rw [← List.take_append_drop 16 (data.drop k), scanTail_append, hi]; simp
      | none =>
        obtain ⟨hw, hn⟩ := hs
        simp only
        conv => rhs; rw [← List.take_append_drop 16 (data.drop k), scanTail_append, hn]
        simp only [List.length_take, Nat.min_eq_left hw]
        cases scanTail needsEscape (List.drop 16 (List.drop k data)) <;> simp <;> omega

theorem scanTail_takeWhile (p : BitVec 8 → Bool) (l : List (BitVec 8)) :
    (match scanTail p l with | some i => i | none => l.length) = (l.takeWhile (fun b => !p b)).length := by
  induction l with
  | nil => rfl
  | cons b r ih =>
    unfold scanTail
    by_cases h : p b = true
    · simp [h, List.takeWhile_cons]
    · simp only [h, Bool.false_eq_true, if_false, List.takeWhile_cons, Bool.not_false, if_true, List.length_cons]
      rw [← ih]
      cases scanTail p r <;> simp

/-- Every tier wrapper returns the first index `≥ start` holding an escapable byte, else `len`. -/
theorem findWith_eq (kernel : List (BitVec 8) → Option Nat)
    (hk : ∀ d, kernel d = scanTail needsEscape d) (bytes : List (BitVec 8)) (start : Nat) :
    findWith kernel bytes start = firstEscapeSpec bytes start := by
  unfold findWith firstEscapeSpec
  by_cases h : start ≥ bytes.length
  · simp [h]
  · simp only [h, if_false, hk]
    rw [← scanTail_takeWhile]
    cases scanTail needsEscape (bytes.drop start) with
    | some i => rfl
    | none => simp; omega

/-! ### per-character facts about the writers -/

theorem jqChar_raw_iff (c : Nat) : jqChar c = [c] ↔ ¬ (c < 0x20 ∨ c = 0x7F ∨ c = 34 ∨ c = 92) := by
  unfold jqChar shortU
  repeat' split
  all_goals simp_all
  all_goals omega

theorem uEscape_ne (c : Nat) : uEscape c ≠ [c] := by
  unfold uEscape bmpU
  split <;> simp

theorem jqAsciiChar_raw_iff (c : Nat) :
    jqAsciiChar c = [c] ↔ ¬ (c < 0x20 ∨ c = 0x7F ∨ c = 34 ∨ c = 92 ∨ 0x80 ≤ c) := by
  unfold jqAsciiChar shortU
  repeat' split
  all_goals simp_all [uEscape_ne]
  all_goals omega

theorem yqAsciiChar_raw_iff (c : Nat) :
    yqAsciiChar c = [c] ↔ ¬ (c < 0x20 ∨ c = 34 ∨ c = 92 ∨ 0x80 ≤ c) := by
  unfold yqAsciiChar shortU
  repeat' split
  all_goals simp_all [uEscape_ne]
  all_goals omega

/-- Every ASCII character round-trips through each char-level writer and the RFC 8259 decoder. -/
theorem ascii_roundtrip : ∀ c : Fin 128,
    decode (jqChar c.val) = some [c.val] ∧ decode (jqAsciiChar c.val) = some [c.val] ∧
    decode (yqAsciiChar c.val) = some [c.val] := by decide

end SV.Escape
