/-
Proof/Utf8SpecLink — the model codec (`encode_code_point` / `decode_code_point`, over `BitVec 32`)
is the spec codec of Spec/Utf8 (`encode`, `decodeFirst`, over `Nat`).
-/
import SuccinctlyVerif.Proof.Utf8RoundTrip
set_option linter.unusedSimpArgs false
namespace SV.Utf8
open SV

theorem setWidth8_eq_ofNat (x : BitVec 32) : x.setWidth 8 = BitVec.ofNat 8 x.toNat := by
  apply BitVec.eq_of_toNat_eq; simp

/-! ### `encode_code_point` = `Spec.encode` -/

section enc
variable (cp : BitVec 32)

theorem enc_b2_0 (h : cp < 0x800#32) :
    0xC0#8 ||| (cp >>> 6).setWidth 8 = BitVec.ofNat 8 (0xC0 + cp.toNat / 64) := by
  have e : 0xC0#8 ||| (cp >>> 6).setWidth 8 = (0xC0#32 + (cp >>> 6)).setWidth 8 := by bv_decide (timeout := 300)
  have hlt : cp.toNat < 0x800 := by simpa [BitVec.lt_def] using h
  rw [e, setWidth8_eq_ofNat]; congr 1
  simp only [BitVec.toNat_add, BitVec.toNat_ushiftRight, BitVec.toNat_ofNat, Nat.shiftRight_eq_div_pow,
    Nat.reducePow, Nat.reduceMod]
  omega

theorem enc_lo (_h : True) :
    0x80#8 ||| (cp &&& 0x3F#32).setWidth 8 = BitVec.ofNat 8 (0x80 + cp.toNat % 64) := by
  have e : 0x80#8 ||| (cp &&& 0x3F#32).setWidth 8 = (0x80#32 + cp % 64#32).setWidth 8 := by bv_decide (timeout := 300)
  rw [e, setWidth8_eq_ofNat]; congr 1
  simp only [BitVec.toNat_add, BitVec.toNat_umod, BitVec.toNat_ofNat, Nat.reducePow, Nat.reduceMod]
  omega

theorem enc_mid (k : Nat) (hk : k = 6 ∨ k = 12) :
    0x80#8 ||| ((cp >>> k) &&& 0x3F#32).setWidth 8 = BitVec.ofNat 8 (0x80 + cp.toNat / 2 ^ k % 64) := by
  have e : 0x80#8 ||| ((cp >>> k) &&& 0x3F#32).setWidth 8 = (0x80#32 + (cp >>> k) % 64#32).setWidth 8 := by
    rcases hk with rfl | rfl <;> bv_decide (timeout := 300)
  rw [e, setWidth8_eq_ofNat]; congr 1
  simp only [BitVec.toNat_add, BitVec.toNat_umod, BitVec.toNat_ushiftRight, BitVec.toNat_ofNat,
    Nat.shiftRight_eq_div_pow, Nat.reducePow, Nat.reduceMod]
  omega

theorem enc_b3_0 (h : cp < 0x10000#32) :
    0xE0#8 ||| (cp >>> 12).setWidth 8 = BitVec.ofNat 8 (0xE0 + cp.toNat / 4096) := by
  have e : 0xE0#8 ||| (cp >>> 12).setWidth 8 = (0xE0#32 + (cp >>> 12)).setWidth 8 := by bv_decide (timeout := 300)
  have hlt : cp.toNat < 0x10000 := by simpa [BitVec.lt_def] using h
  rw [e, setWidth8_eq_ofNat]; congr 1
  simp only [BitVec.toNat_add, BitVec.toNat_ushiftRight, BitVec.toNat_ofNat, Nat.shiftRight_eq_div_pow,
    Nat.reducePow, Nat.reduceMod]
  omega

theorem enc_b4_0 (h : ¬ cp > 0x10FFFF#32) :
    0xF0#8 ||| (cp >>> 18).setWidth 8 = BitVec.ofNat 8 (0xF0 + cp.toNat / 262144) := by
  have e : 0xF0#8 ||| (cp >>> 18).setWidth 8 = (0xF0#32 + (cp >>> 18)).setWidth 8 := by bv_decide (timeout := 300)
  have hlt : cp.toNat ≤ 0x10FFFF := by simpa [BitVec.lt_def] using h
  rw [e, setWidth8_eq_ofNat]; congr 1
  simp only [BitVec.toNat_add, BitVec.toNat_ushiftRight, BitVec.toNat_ofNat, Nat.shiftRight_eq_div_pow,
    Nat.reducePow, Nat.reduceMod]
  omega

end enc

/-- `encode_code_point` produces exactly the spec encoding `encode` (Table 3-6 bit distribution) of the
scalar value, zero-padded to four bytes. -/
theorem encode_eq_spec (cp : BitVec 32) (buf : List Byte) (len : Nat)
    (h : encodeCodePoint cp = some (buf, len)) :
    buf.take len = encode cp.toNat ∧ len = (encode cp.toNat).length := by
  have hnone := (decode_encode_all cp).1
  have hns : ¬ ((0xD800#32 ≤ cp ∧ cp ≤ 0xDFFF#32) ∨ cp > 0x10FFFF#32) := by
    intro hc; rw [hnone.2 hc] at h; cases h
  have hs1 : ¬ (0xD800#32 ≤ cp ∧ cp ≤ 0xDFFF#32) := fun hc => hns (Or.inl hc)
  have hs2 : ¬ cp > 0x10FFFF#32 := fun hc => hns (Or.inr hc)
  by_cases h1 : cp < 0x80#32
  · rw [enc_of_class1 cp h1] at h
    simp only [Option.some.injEq, Prod.mk.injEq] at h
    obtain ⟨rfl, rfl⟩ := h
    have hlt : cp.toNat < 0x80 := by simpa [BitVec.lt_def] using h1
    have hE : encode cp.toNat = [BitVec.ofNat 8 cp.toNat] := by simp only [encode, hlt, if_true]
    rw [hE]; refine ⟨?_, rfl⟩
    simp only [List.take_succ_cons, List.take_zero]
    rw [setWidth8_eq_ofNat]
  · have n1 : ¬ cp.toNat < 0x80 := by simpa [BitVec.lt_def] using h1
    by_cases h2 : cp < 0x800#32
    · rw [enc_of_class2 cp h1 h2] at h
      simp only [Option.some.injEq, Prod.mk.injEq] at h
      obtain ⟨rfl, rfl⟩ := h
      have hlt : cp.toNat < 0x800 := by simpa [BitVec.lt_def] using h2
      have hE : encode cp.toNat = [BitVec.ofNat 8 (0xC0 + cp.toNat / 64), BitVec.ofNat 8 (0x80 + cp.toNat % 64)] := by
        simp only [encode, n1, hlt, if_true, if_false]
      rw [hE]; refine ⟨?_, rfl⟩
      simp only [List.take_succ_cons, List.take_zero]
      rw [enc_b2_0 cp h2, enc_lo cp trivial]
    · have n2 : ¬ cp.toNat < 0x800 := by simpa [BitVec.lt_def] using h2
      by_cases h3 : cp < 0x10000#32
      · rw [enc_of_class3 cp h2 h3 hs1] at h
        simp only [Option.some.injEq, Prod.mk.injEq] at h
        obtain ⟨rfl, rfl⟩ := h
        have hlt : cp.toNat < 0x10000 := by simpa [BitVec.lt_def] using h3
        have hm := enc_mid cp 6 (Or.inl rfl)
        simp only [Nat.reducePow] at hm
        have hE : encode cp.toNat = [BitVec.ofNat 8 (0xE0 + cp.toNat / 4096),
            BitVec.ofNat 8 (0x80 + cp.toNat / 64 % 64), BitVec.ofNat 8 (0x80 + cp.toNat % 64)] := by
          simp only [encode, n1, n2, hlt, if_true, if_false]
        rw [hE]; refine ⟨?_, rfl⟩
        simp only [List.take_succ_cons, List.take_zero]
        rw [enc_b3_0 cp h3, hm, enc_lo cp trivial]
      · have n3 : ¬ cp.toNat < 0x10000 := by simpa [BitVec.lt_def] using h3
        rw [enc_of_class4 cp h3 hs2] at h
        simp only [Option.some.injEq, Prod.mk.injEq] at h
        obtain ⟨rfl, rfl⟩ := h
        have hm6 := enc_mid cp 6 (Or.inl rfl)
        have hm12 := enc_mid cp 12 (Or.inr rfl)
        simp only [Nat.reducePow] at hm6 hm12
        have hE : encode cp.toNat = [BitVec.ofNat 8 (0xF0 + cp.toNat / 262144),
            BitVec.ofNat 8 (0x80 + cp.toNat / 4096 % 64), BitVec.ofNat 8 (0x80 + cp.toNat / 64 % 64),
            BitVec.ofNat 8 (0x80 + cp.toNat % 64)] := by
          simp only [encode, n1, n2, n3, if_false]
        rw [hE]; refine ⟨?_, rfl⟩
        simp only [List.take_succ_cons, List.take_zero]
        rw [enc_b4_0 cp hs2, hm12, hm6, enc_lo cp trivial]

/-! ### `decode_code_point` = `Spec.decodeFirst` -/

theorem seqlen_eq_declared : ∀ b : BitVec 8, sequenceLength b = declaredLen b := by decide

theorem cp2_toNat (lead b1 : BitVec 8) : (cp2 lead b1).toNat = lead.toNat % 32 * 64 + b1.toNat % 64 := by
  have e : cp2 lead b1 = (lead.setWidth 32 % 32#32) * 64#32 + (b1.setWidth 32 % 64#32) := by
    simp only [cp2]; bv_decide (timeout := 300)
  have := lead.isLt; have := b1.isLt
  rw [e]
  simp only [BitVec.toNat_add, BitVec.toNat_mul, BitVec.toNat_umod, BitVec.toNat_setWidth, BitVec.toNat_ofNat,
    Nat.reducePow, Nat.reduceMod]
  omega

theorem cp3_toNat (lead b1 b2 : BitVec 8) :
    (cp3 lead b1 b2).toNat = (lead.toNat % 16 * 64 + b1.toNat % 64) * 64 + b2.toNat % 64 := by
  have e : cp3 lead b1 b2 = ((lead.setWidth 32 % 16#32) * 64#32 + (b1.setWidth 32 % 64#32)) * 64#32 +
      (b2.setWidth 32 % 64#32) := by
    simp only [cp3]; bv_decide (timeout := 300)
  have := lead.isLt; have := b1.isLt; have := b2.isLt
  rw [e]
  simp only [BitVec.toNat_add, BitVec.toNat_mul, BitVec.toNat_umod, BitVec.toNat_setWidth, BitVec.toNat_ofNat,
    Nat.reducePow, Nat.reduceMod]
  omega

theorem cp4_toNat (lead b1 b2 b3 : BitVec 8) :
    (cp4 lead b1 b2 b3).toNat =
      ((lead.toNat % 8 * 64 + b1.toNat % 64) * 64 + b2.toNat % 64) * 64 + b3.toNat % 64 := by
  have e : cp4 lead b1 b2 b3 = (((lead.setWidth 32 % 8#32) * 64#32 + (b1.setWidth 32 % 64#32)) * 64#32 +
      (b2.setWidth 32 % 64#32)) * 64#32 + (b3.setWidth 32 % 64#32) := by
    simp only [cp4]; bv_decide (timeout := 300)
  have := lead.isLt; have := b1.isLt; have := b2.isLt; have := b3.isLt
  rw [e]
  simp only [BitVec.toNat_add, BitVec.toNat_mul, BitVec.toNat_umod, BitVec.toNat_setWidth, BitVec.toNat_ofNat,
    Nat.reducePow, Nat.reduceMod]
  omega

/-- View of a model decode result in the spec's types. -/
def toSpec (r : Option (BitVec 32 × Nat)) : Option (Nat × Nat) := r.map fun p => (p.1.toNat, p.2)

variable {lead b1 b2 b3 : Byte} {r : List Byte}

theorem decodeFirst_one (hd : declaredLen lead = 1) (hs : step .start lead = .start) :
    decodeFirst (lead :: r) = some (lead.toNat, 1) := by
  simp [decodeFirst, hd, leadPayload, hs]

theorem decodeFirst_zero (hd : declaredLen lead = 0) : decodeFirst (lead :: r) = none := by
  simp [decodeFirst, hd]

theorem decodeFirst_short (hd : (lead :: r).length < declaredLen lead) : decodeFirst (lead :: r) = none := by
  simp only [decodeFirst]
  simp only [List.length_cons] at hd
  simp
  intro _ h2; omega

theorem decodeFirst_two (hd : declaredLen lead = 2) :
    decodeFirst (lead :: b1 :: r) =
      if step (step .start lead) b1 = .start then some (lead.toNat % 32 * 64 + b1.toNat % 64, 2) else none := by
  have hl : ¬ (r.length + 1 + 1 < 2) := by omega
  by_cases hst : step (step .start lead) b1 = .start <;> simp [decodeFirst, hd, leadPayload, hl, hst]

theorem decodeFirst_three (hd : declaredLen lead = 3) :
    decodeFirst (lead :: b1 :: b2 :: r) =
      if step (step (step .start lead) b1) b2 = .start then
        some ((lead.toNat % 16 * 64 + b1.toNat % 64) * 64 + b2.toNat % 64, 3) else none := by
  have hl : ¬ (r.length + 1 + 1 + 1 < 3) := by omega
  by_cases hst : step (step (step .start lead) b1) b2 = .start <;> simp [decodeFirst, hd, leadPayload, hl, hst]

theorem decodeFirst_four (hd : declaredLen lead = 4) :
    decodeFirst (lead :: b1 :: b2 :: b3 :: r) =
      if step (step (step (step .start lead) b1) b2) b3 = .start then
        some (((lead.toNat % 8 * 64 + b1.toNat % 64) * 64 + b2.toNat % 64) * 64 + b3.toNat % 64, 4) else none := by
  have hl : ¬ (r.length + 1 + 1 + 1 + 1 < 4) := by omega
  by_cases hst : step (step (step (step .start lead) b1) b2) b3 = .start <;>
    simp [decodeFirst, hd, leadPayload, hl, hst]

theorem declared_of_seqlen {lead : Byte} {n : Nat} (h : sequenceLength lead = n) : declaredLen lead = n := by
  rw [← seqlen_eq_declared]; exact h

/-- `decode_code_point` = the spec decoder `decodeFirst` (first well-formed Table 3-7 sequence and
its scalar value), on every input — well-formed or not. -/
theorem decode_eq_spec (bs : List Byte) : toSpec (decodeCodePoint bs) = decodeFirst bs := by
  match bs with
  | [] => simp [decodeCodePoint, decodeFirst, toSpec]
  | lead :: r =>
    by_cases h0 : lead ≤ 0x7F#8
    · rw [dec1 _ _ h0, decodeFirst_one (declared_of_seqlen (by simp [sequenceLength, h0])) (by st_decide)]
      simp [toSpec]
      have := lead.isLt; omega
    · by_cases hA : inR 0xC0#8 0xDF#8 lead = true
      · have hd : declaredLen lead = 2 := declared_of_seqlen (by simp [sequenceLength, h0, hA])
        match r with
        | [] =>
          rw [decodeFirst_short (by rw [hd]; simp)]
          simp [decodeCodePoint, sequenceLength, h0, hA, toSpec]
        | b1 :: r1 =>
          rw [decodeFirst_two hd]
          by_cases c1 : isContinuationByte b1 = true
          · by_cases hb : cp2 lead b1 < 0x80#32
            · have hst : ¬ step (step .start lead) b1 = .start := by
                simp only [isContinuationByte, cp2] at *; st_decide
              simp [decodeCodePoint, sequenceLength, h0, hA, c1, cpBoundsViolation, hb, toSpec, hst]
            · have hst : step (step .start lead) b1 = .start := by
                simp only [isContinuationByte, cp2] at *; st_decide
              rw [dec2 _ _ _ h0 hA c1 hb]
              simp [toSpec, hst, cp2_toNat]
          · have hst : ¬ step (step .start lead) b1 = .start := by
              simp only [isContinuationByte] at *; st_decide
            simp [decodeCodePoint, sequenceLength, h0, hA, c1, toSpec, hst]
      · by_cases hB : inR 0xE0#8 0xEF#8 lead = true
        · have hd : declaredLen lead = 3 := declared_of_seqlen (by simp [sequenceLength, h0, hA, hB])
          match r with
          | [] =>
            rw [decodeFirst_short (by rw [hd]; simp)]
            simp [decodeCodePoint, sequenceLength, h0, hA, hB, toSpec]
          | [b1] =>
            rw [decodeFirst_short (by rw [hd]; simp)]
            simp [decodeCodePoint, sequenceLength, h0, hA, hB, toSpec]
          | b1 :: b2 :: r2 =>
            rw [decodeFirst_three hd]
            by_cases c1 : isContinuationByte b1 = true
            · by_cases c2 : isContinuationByte b2 = true
              · by_cases hb : cp3 lead b1 b2 < 0x800#32
                · have hst : ¬ step (step (step .start lead) b1) b2 = .start := by
                    simp only [isContinuationByte, cp3] at *; st_decide
                  simp [decodeCodePoint, sequenceLength, h0, hA, hB, c1, c2, cpBoundsViolation, hb, toSpec, hst]
                · by_cases hs : 0xD800#32 ≤ cp3 lead b1 b2 ∧ cp3 lead b1 b2 ≤ 0xDFFF#32
                  · have hst : ¬ step (step (step .start lead) b1) b2 = .start := by
                      simp only [isContinuationByte, cp3] at *; st_decide
                    simp [decodeCodePoint, sequenceLength, h0, hA, hB, c1, c2, cpBoundsViolation, hb, hs, toSpec, hst]
                  · have hst : step (step (step .start lead) b1) b2 = .start := by
                      simp only [isContinuationByte, cp3] at *; st_decide
                    rw [dec3 _ _ _ _ h0 hA hB c1 c2 hb hs]
                    simp [toSpec, hst, cp3_toNat]
              · have hst : ¬ step (step (step .start lead) b1) b2 = .start := by
                  simp only [isContinuationByte] at *; st_decide
                simp [decodeCodePoint, sequenceLength, h0, hA, hB, c1, c2, toSpec, hst]
            · have hst : ¬ step (step (step .start lead) b1) b2 = .start := by
                simp only [isContinuationByte] at *; st_decide
              simp [decodeCodePoint, sequenceLength, h0, hA, hB, c1, toSpec, hst]
        · by_cases hC : inR 0xF0#8 0xF7#8 lead = true
          · have hd : declaredLen lead = 4 := declared_of_seqlen (by simp [sequenceLength, h0, hA, hB, hC])
            match r with
            | [] =>
              rw [decodeFirst_short (by rw [hd]; simp)]
              simp [decodeCodePoint, sequenceLength, h0, hA, hB, hC, toSpec]
            | [b1] =>
              rw [decodeFirst_short (by rw [hd]; simp)]
              simp [decodeCodePoint, sequenceLength, h0, hA, hB, hC, toSpec]
            | [b1, b2] =>
              rw [decodeFirst_short (by rw [hd]; simp)]
              simp [decodeCodePoint, sequenceLength, h0, hA, hB, hC, toSpec]
            | b1 :: b2 :: b3 :: r3 =>
              rw [decodeFirst_four hd]
              by_cases c1 : isContinuationByte b1 = true
              · by_cases c2 : isContinuationByte b2 = true
                · by_cases c3 : isContinuationByte b3 = true
                  · by_cases hb : cp4 lead b1 b2 b3 < 0x10000#32
                    · have hst : ¬ step (step (step (step .start lead) b1) b2) b3 = .start := by
                        simp only [isContinuationByte, cp4] at *; st_decide
                      simp [decodeCodePoint, sequenceLength, h0, hA, hB, hC, c1, c2, c3, cpBoundsViolation, hb,
                        toSpec, hst]
                    · by_cases ho : cp4 lead b1 b2 b3 > 0x10FFFF#32
                      · have hst : ¬ step (step (step (step .start lead) b1) b2) b3 = .start := by
                          simp only [isContinuationByte, cp4] at *; st_decide
                        simp [decodeCodePoint, sequenceLength, h0, hA, hB, hC, c1, c2, c3, cpBoundsViolation, hb, ho,
                          toSpec, hst]
                      · have hst : step (step (step (step .start lead) b1) b2) b3 = .start := by
                          simp only [isContinuationByte, cp4] at *; st_decide
                        rw [dec4 _ _ _ _ _ h0 hA hB hC c1 c2 c3 hb ho]
                        simp [toSpec, hst, cp4_toNat]
                  · have hst : ¬ step (step (step (step .start lead) b1) b2) b3 = .start := by
                      simp only [isContinuationByte] at *; st_decide
                    simp [decodeCodePoint, sequenceLength, h0, hA, hB, hC, c1, c2, c3, toSpec, hst]
                · have hst : ¬ step (step (step (step .start lead) b1) b2) b3 = .start := by
                    simp only [isContinuationByte] at *; st_decide
                  simp [decodeCodePoint, sequenceLength, h0, hA, hB, hC, c1, c2, toSpec, hst]
              · have hst : ¬ step (step (step (step .start lead) b1) b2) b3 = .start := by
                  simp only [isContinuationByte] at *; st_decide
                simp [decodeCodePoint, sequenceLength, h0, hA, hB, hC, c1, toSpec, hst]
          · rw [decodeFirst_zero (declared_of_seqlen (by simp [sequenceLength, h0, hA, hB, hC]))]
            simp [decodeCodePoint, sequenceLength, h0, hA, hB, hC, toSpec]

end SV.Utf8
