/-
Proof/BPSse — the SSE4.1 lane model of the L1 builder equals the scalar fold (C04).
-/
import SuccinctlyVerif.Model.BP
namespace SV.BPX
open SV SV.BPM

theorem wrap_wrap (a : Int) : wrapI16 (wrapI16 a) = wrapI16 a := by unfold wrapI16; omega
theorem wrap_wrap_add (a b : Int) : wrapI16 (wrapI16 a + b) = wrapI16 (a + b) := by unfold wrapI16; omega
theorem wrap_add_wrap (a b : Int) : wrapI16 (a + wrapI16 b) = wrapI16 (a + b) := by unfold wrapI16; omega
theorem wrap_range (a : Int) : -32768 ≤ wrapI16 a ∧ wrapI16 a ≤ 32767 := by unfold wrapI16; omega

theorem lanePrefix8 (e0 e1 e2 e3 e4 e5 e6 e7 : Int) :
    lanePrefix [e0, e1, e2, e3, e4, e5, e6, e7] =
      [wrapI16 e0, wrapI16 (e0 + e1), wrapI16 (e0 + e1 + e2), wrapI16 (e0 + e1 + e2 + e3),
       wrapI16 (e0 + e1 + e2 + e3 + e4), wrapI16 (e0 + e1 + e2 + e3 + e4 + e5),
       wrapI16 (e0 + e1 + e2 + e3 + e4 + e5 + e6), wrapI16 (e0 + e1 + e2 + e3 + e4 + e5 + e6 + e7)] := by
  simp only [lanePrefix, laneAdd, laneShl, List.replicate, List.cons_append, List.nil_append, List.take,
    List.zipWith, wrap_wrap_add, wrap_add_wrap, Int.add_zero, wrap_wrap, List.cons.injEq, and_true]
  refine ⟨?_, ?_, ?_, ?_, ?_, ?_, ?_, ?_⟩ <;> first | trivial | (congr 1; omega)

theorem laneHSum8 (e0 e1 e2 e3 e4 e5 e6 e7 : Int) :
    laneHSum [e0, e1, e2, e3, e4, e5, e6, e7] = wrapI16 (e0 + e1 + e2 + e3 + e4 + e5 + e6 + e7) := by
  have h4 : ∀ a0 a1 a2 a3 a4 a5 a6 a7 : Int, laneShr [a0, a1, a2, a3, a4, a5, a6, a7] 4 = [a4, a5, a6, a7, 0, 0, 0, 0] :=
    fun _ _ _ _ _ _ _ _ => rfl
  have h2 : ∀ a0 a1 a2 a3 a4 a5 a6 a7 : Int, laneShr [a0, a1, a2, a3, a4, a5, a6, a7] 2 = [a2, a3, a4, a5, a6, a7, 0, 0] :=
    fun _ _ _ _ _ _ _ _ => rfl
  have h1 : ∀ a0 a1 a2 a3 a4 a5 a6 a7 : Int, laneShr [a0, a1, a2, a3, a4, a5, a6, a7] 1 = [a1, a2, a3, a4, a5, a6, a7, 0] :=
    fun _ _ _ _ _ _ _ _ => rfl
  unfold laneHSum
  simp only [laneAdd, h4, List.zipWith, h2, h1, List.getD_cons_zero, wrap_wrap_add, wrap_add_wrap, wrap_wrap]
  congr 1; omega

theorem min_add_const (x y c : Int) : min (x + c) (y + c) = min x y + c := by omega

theorem min_range (x y : Int) (hx : -32768 ≤ x ∧ x ≤ 32767) (hy : -32768 ≤ y ∧ y ≤ 32767) :
    -32768 ≤ min x y ∧ min x y ≤ 32767 := by omega

theorem unbias (M : Int) (h : -32768 ≤ M ∧ M ≤ 32767) :
    wrapI16 ((if M + 32768 ≥ 32768 then M + 32768 - 65536 else M + 32768) + -32768) = M := by
  unfold wrapI16; split <;> omega

theorem laneMinBiased8 (a0 a1 a2 a3 a4 a5 a6 a7 : Int)
    (h0 : -32768 ≤ a0 ∧ a0 ≤ 32767) (h1 : -32768 ≤ a1 ∧ a1 ≤ 32767) (h2 : -32768 ≤ a2 ∧ a2 ≤ 32767)
    (h3 : -32768 ≤ a3 ∧ a3 ≤ 32767) (h4 : -32768 ≤ a4 ∧ a4 ≤ 32767) (h5 : -32768 ≤ a5 ∧ a5 ≤ 32767)
    (h6 : -32768 ≤ a6 ∧ a6 ≤ 32767) (h7 : -32768 ≤ a7 ∧ a7 ≤ 32767) :
    laneMinBiased [a0, a1, a2, a3, a4, a5, a6, a7] =
      min (min (min (min (min (min (min a0 a1) a2) a3) a4) a5) a6) a7 := by
  have b0 : (a0 + 32768) % 65536 = a0 + 32768 := by omega
  have b1 : (a1 + 32768) % 65536 = a1 + 32768 := by omega
  have b2 : (a2 + 32768) % 65536 = a2 + 32768 := by omega
  have b3 : (a3 + 32768) % 65536 = a3 + 32768 := by omega
  have b4 : (a4 + 32768) % 65536 = a4 + 32768 := by omega
  have b5 : (a5 + 32768) % 65536 = a5 + 32768 := by omega
  have b6 : (a6 + 32768) % 65536 = a6 + 32768 := by omega
  have b7 : (a7 + 32768) % 65536 = a7 + 32768 := by omega
  have c0 : min (65535 : Int) (a0 + 32768) = a0 + 32768 := by omega
  have r1 := min_range _ _ h0 h1
  have r2 := min_range _ _ r1 h2
  have r3 := min_range _ _ r2 h3
  have r4 := min_range _ _ r3 h4
  have r5 := min_range _ _ r4 h5
  have r6 := min_range _ _ r5 h6
  have r7 := min_range _ _ r6 h7
  simp only [laneMinBiased, List.map, List.foldl, b0, b1, b2, b3, b4, b5, b6, b7, c0, min_add_const]
  exact unbias _ r7

/-- One 8-lane SSE4.1 iteration of the L1 builder = eight steps of the scalar `i16` fold, for all
lane values (wrapping included). -/
theorem sseChunkL1_eq (m0 m1 m2 m3 m4 m5 m6 m7 e0 e1 e2 e3 e4 e5 e6 e7 r bm : Int) :
    (min bm (sseChunkL1 [m0, m1, m2, m3, m4, m5, m6, m7] [e0, e1, e2, e3, e4, e5, e6, e7] r).1,
      wrapI16 (r + (sseChunkL1 [m0, m1, m2, m3, m4, m5, m6, m7] [e0, e1, e2, e3, e4, e5, e6, e7] r).2)) =
    foldI16 [(m0, e0), (m1, e1), (m2, e2), (m3, e3), (m4, e4), (m5, e5), (m6, e6), (m7, e7)] bm r := by
  unfold sseChunkL1
  rw [lanePrefix8, laneHSum8]
  simp only [List.map, List.take, laneAdd, List.zipWith, wrap_wrap_add, wrap_add_wrap, foldI16]
  rw [laneMinBiased8 _ _ _ _ _ _ _ _ (wrap_range _) (wrap_range _) (wrap_range _) (wrap_range _) (wrap_range _)
    (wrap_range _) (wrap_range _) (wrap_range _)]
  have l0 : wrapI16 (m0 + r) = wrapI16 (r + m0) := by congr 1; omega
  have l1 : wrapI16 (m1 + (e0 + r)) = wrapI16 (r + e0 + m1) := by congr 1; omega
  have l2 : wrapI16 (m2 + (e0 + e1 + r)) = wrapI16 (r + e0 + e1 + m2) := by congr 1; omega
  have l3 : wrapI16 (m3 + (e0 + e1 + e2 + r)) = wrapI16 (r + e0 + e1 + e2 + m3) := by congr 1; omega
  have l4 : wrapI16 (m4 + (e0 + e1 + e2 + e3 + r)) = wrapI16 (r + e0 + e1 + e2 + e3 + m4) := by congr 1; omega
  have l5 : wrapI16 (m5 + (e0 + e1 + e2 + e3 + e4 + r)) = wrapI16 (r + e0 + e1 + e2 + e3 + e4 + m5) := by
    congr 1; omega
  have l6 : wrapI16 (m6 + (e0 + e1 + e2 + e3 + e4 + e5 + r)) = wrapI16 (r + e0 + e1 + e2 + e3 + e4 + e5 + m6) := by
    congr 1; omega
  have l7 : wrapI16 (m7 + (e0 + e1 + e2 + e3 + e4 + e5 + e6 + r)) =
      wrapI16 (r + e0 + e1 + e2 + e3 + e4 + e5 + e6 + m7) := by congr 1; omega
  have ls : wrapI16 (r + (e0 + e1 + e2 + e3 + e4 + e5 + e6 + e7)) = wrapI16 (r + e0 + e1 + e2 + e3 + e4 + e5 + e6 + e7) := by
    congr 1; omega
  rw [l0, l1, l2, l3, l4, l5, l6, l7, ls]
  simp only [← Int.min_assoc]

theorem foldI16_append (a b : List (Int × Int)) (bm re : Int) :
    foldI16 (a ++ b) bm re = foldI16 b (foldI16 a bm re).1 (foldI16 a bm re).2 := by
  induction a generalizing bm re with
  | nil => rfl
  | cons x xs ih => obtain ⟨m, e⟩ := x; simp only [List.cons_append, foldI16, ih]

/-- A whole block: 8-lane iterations then the scalar tail = the scalar fold. -/
theorem sseBlockL1_eq (f : Nat) (c : List (Int × Int)) (bm re : Int) (hf : c.length < 8 * f + 8) :
    sseBlockL1 (f + 1) c bm re = foldI16 c bm re := by
  induction f generalizing c bm re with
  | zero =>
    unfold sseBlockL1
    have : ¬ 8 ≤ c.length := by omega
    simp [this]
  | succ f ih =>
    unfold sseBlockL1
    by_cases h8 : 8 ≤ c.length
    · simp only [h8, if_true]
      have hsplit : c = c.take 8 ++ c.drop 8 := (List.take_append_drop 8 c).symm
      have hl : (c.take 8).length = 8 := by rw [List.length_take]; omega
      match hc : c.take 8, hl with
      | [(m0, e0), (m1, e1), (m2, e2), (m3, e3), (m4, e4), (m5, e5), (m6, e6), (m7, e7)], _ =>
        have hchunk := sseChunkL1_eq m0 m1 m2 m3 m4 m5 m6 m7 e0 e1 e2 e3 e4 e5 e6 e7 re bm
        simp only [List.map] at hchunk ⊢
        rw [ih (c.drop 8) _ _ (by rw [List.length_drop]; omega)]
        conv => rhs; rw [hsplit, hc, foldI16_append, ← hchunk]
    · simp only [h8, if_false]

theorem buildL1Sse_eq (l0 : List (Int × Int)) : buildL1Sse l0 = buildL1 l0 := by
  unfold buildL1Sse buildL1
  apply List.map_congr_left
  intro c _
  exact sseBlockL1_eq c.length c 0 0 (by omega)

end SV.BPX
