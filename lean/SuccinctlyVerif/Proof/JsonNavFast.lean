/-
Proof/JsonNavFast — C06: the driver's array-backed primitives (`Prims.fast`) are the specification
primitives (`Prims.spec`).
-/
import SuccinctlyVerif.Proof.JsonNavTree
namespace SV.JsonNav
open SV SV.JsonSemi SV.JsonText SV.JsonSimple

/-! ### the array-backed primitives are the specification primitives -/

theorem arrB_getD (bp : List Bool) (i : Nat) : bp.toArray.getD i false = bp.getD i false := by
  simp [List.getD_eq_getElem?_getD, Array.getD_eq_getD_getElem?]

theorem dropB_cons (bp : List Bool) (i : Nat) (hi : i < bp.length) :
    bp.drop i = bp.getD i false :: bp.drop (i + 1) := by
  rw [List.drop_eq_getElem_cons hi]; simp [List.getD_eq_getElem?_getD, hi]

theorem scanCloseA_eq (bp : List Bool) (fuel i d : Nat) (hf : bp.length < fuel + i) :
    scanCloseA bp.toArray fuel i d = BP.scanClose (bp.drop i) i d := by
  induction fuel generalizing i d with
  | zero =>
    rw [List.drop_eq_nil_of_le (by omega)]; rfl
  | succ fuel ih =>
    rw [scanCloseA]
    simp only [List.size_toArray, arrB_getD]
    by_cases hi : i < bp.length
    · rw [dropB_cons bp i hi]
      cases hb : bp.getD i false
      · by_cases hd : d = 0
        · simp [hi, BP.scanClose, hd]
        · simp only [hi, if_true, Bool.false_eq_true, if_false, hd, BP.scanClose]
          exact ih (i + 1) (d - 1) (by omega)
      · simp only [hi, if_true, BP.scanClose]
        exact ih (i + 1) (d + 1) (by omega)
    · rw [List.drop_eq_nil_of_le (by omega)]; simp [hi, BP.scanClose]

theorem take_reverse_succ (bp : List Bool) (i : Nat) (hi : i < bp.length) :
    (bp.take (i + 1)).reverse = bp.getD i false :: (bp.take i).reverse := by
  rw [List.take_succ, List.reverse_append]
  simp [List.getD_eq_getElem?_getD, hi]

theorem scanOpenA_eq (bp : List Bool) (fuel i d : Nat) (hf : i < fuel) (hi : i ≤ bp.length) :
    scanOpenA bp.toArray fuel i d = BP.scanOpen (bp.take i).reverse i d := by
  induction fuel generalizing i d with
  | zero => omega
  | succ fuel ih =>
    rw [scanOpenA]
    cases i with
    | zero => simp [BP.scanOpen]
    | succ j =>
      have hj : j < bp.length := by omega
      rw [take_reverse_succ bp j hj]
      simp only [Nat.add_one_ne_zero, if_false, Nat.add_sub_cancel, arrB_getD]
      cases hb : bp.getD j false
      · simp only [Bool.false_eq_true, if_false, BP.scanOpen, Nat.add_sub_cancel]
        exact ih j (d + 1) (by omega) (by omega)
      · by_cases hd : d = 0
        · simp [BP.scanOpen, hd]
        · simp only [if_true, hd, if_false, BP.scanOpen, Nat.add_sub_cancel]
          exact ih j (d - 1) (by omega) (by omega)

/-- running counts of `true` after each element, starting from `c` -/
def pcs : List Bool → Nat → List Nat
  | [], _ => []
  | b :: bs, c => (if b then c + 1 else c) :: pcs bs (if b then c + 1 else c)

theorem prefix_fold (bs : List Bool) (A : Array Nat) (c : Nat) :
    (bs.foldl (fun (acc : Array Nat × Nat) b =>
        let c := if b then acc.2 + 1 else acc.2; (acc.1.push c, c)) (A, c)).1.toList = A.toList ++ pcs bs c := by
  induction bs generalizing A c with
  | nil => simp [pcs]
  | cons b bs ih => simp only [List.foldl_cons, pcs]; rw [ih]; simp

theorem pcs_getD (bs : List Bool) (c i : Nat) (hi : i < bs.length) :
    (pcs bs c).getD i 0 = c + (bs.take (i + 1)).count true := by
  induction bs generalizing c i with
  | nil => simp at hi
  | cons b bs ih =>
    cases i with
    | zero => cases b <;> simp [pcs]
    | succ i =>
      simp only [pcs, List.getD_cons_succ, List.take_succ_cons, List.count_cons]
      rw [ih _ i (by simpa using hi)]
      cases b <;> simp <;> omega

theorem prefixCounts_getD (bs : List Bool) (p : Nat) (hp : p ≤ bs.length) :
    (prefixCounts bs).getD p 0 = (bs.take p).count true := by
  have h := prefix_fold bs #[0] 0
  have hl : (prefixCounts bs).toList = 0 :: pcs bs 0 := by simpa [prefixCounts] using h
  have : (prefixCounts bs).getD p 0 = (prefixCounts bs).toList.getD p 0 := by
    simp [List.getD_eq_getElem?_getD, Array.getD_eq_getD_getElem?]
  rw [this, hl]
  cases p with
  | zero => simp
  | succ q => rw [List.getD_cons_succ, pcs_getD bs 0 q (by omega)]; simp

theorem ones_fold (bs : List Bool) (A : Array Nat) (off : Nat) :
    (bs.foldl (fun (acc : Array Nat × Nat) b => (if b then acc.1.push acc.2 else acc.1, acc.2 + 1)) (A, off)).1.toList =
      A.toList ++ (truePositions bs).map (· + off) := by
  induction bs generalizing A off with
  | nil => simp [truePositions]
  | cons b bs ih =>
    simp only [List.foldl_cons, truePositions]
    rw [ih]
    cases b <;> simp [List.map_map, Function.comp_def, Nat.add_assoc, Nat.add_comm 1]

theorem onesPositions_toList (bs : List Bool) : (onesPositions bs).toList = truePositions bs := by
  have := ones_fold bs #[] 0
  simpa [onesPositions] using this

theorem getElem?_true_iff (bp : List Bool) (p : Nat) : bp[p]? = some true ↔ bp.getD p false = true := by
  simp only [List.getD_eq_getElem?_getD]
  cases bp[p]? with
  | none => simp
  | some b => cases b <;> simp

/-- The driver's array-backed primitives are the specification primitives. -/
theorem prims_fast_eq_spec (ib bp : List Bool) : Prims.fast ib bp = Prims.spec ib bp := by
  have e_fc : ∀ p, (if bp.toArray.getD p false = true ∧ p < bp.toArray.size then
      scanCloseA bp.toArray (bp.toArray.size + 1) (p + 1) 0 else none) = BP.findClose bp p := by
    intro p
    rw [BP.findClose, arrB_getD, List.size_toArray]
    by_cases hb : bp.getD p false = true
    · have hp : p < bp.length := by
        apply Classical.byContradiction; intro hn
        simp [List.getD_eq_getElem?_getD, List.getElem?_eq_none (Nat.le_of_not_lt hn)] at hb
      rw [if_pos ⟨hb, hp⟩, if_pos ((getElem?_true_iff bp p).mpr hb)]
      exact scanCloseA_eq bp _ _ _ (by omega)
    · have h1 : ¬ (bp.getD p false = true ∧ p < bp.length) := fun h => hb h.1
      have h2 : ¬ (bp[p]? = some true) := fun h => hb ((getElem?_true_iff bp p).mp h)
      rw [if_neg h1, if_neg h2]
  have e_en : ∀ p, (if bp.toArray.getD p false = true ∧ p < bp.toArray.size then
      scanOpenA bp.toArray (bp.toArray.size + 1) p 0 else none) = BP.enclose bp p := by
    intro p
    rw [BP.enclose, arrB_getD, List.size_toArray]
    by_cases hb : bp.getD p false = true
    · have hp : p < bp.length := by
        apply Classical.byContradiction; intro hn
        simp [List.getD_eq_getElem?_getD, List.getElem?_eq_none (Nat.le_of_not_lt hn)] at hb
      rw [if_pos ⟨hb, hp⟩, if_pos ((getElem?_true_iff bp p).mpr hb)]
      exact scanOpenA_eq bp _ _ _ (by omega) (by omega)
    · have h1 : ¬ (bp.getD p false = true ∧ p < bp.length) := fun h => hb h.1
      have h2 : ¬ (bp[p]? = some true) := fun h => hb ((getElem?_true_iff bp p).mp h)
      rw [if_neg h1, if_neg h2]
  have e_rk : ∀ p, (prefixCounts bp).getD (min p bp.toArray.size) 0 = rankB true bp (min p bp.length) := by
    intro p
    rw [List.size_toArray, prefixCounts_getD bp _ (Nat.min_le_right _ _), rankB]
  have e_sel : ∀ k, (onesPositions ib)[k]? = selectB true ib k := by
    intro k
    rw [selectB_truePositions, ← onesPositions_toList]; simp
  have e_op : ∀ p, bp.toArray.getD p false = bp.getD p false := arrB_getD bp
  unfold Prims.fast Prims.spec
  simp only [e_fc, e_en, e_rk, e_sel]
  simp only [e_op, List.size_toArray]

/-- Hence the index built with either kind of primitives is the same. -/
theorem build_fast_eq (f : Bool) (json : List Byte) : build f true json = build f false json := by
  simp only [build, prims_fast_eq_spec, if_true, Bool.false_eq_true, if_false]

end SV.JsonNav
