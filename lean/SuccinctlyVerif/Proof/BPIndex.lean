/-
Proof/BPIndex — the L0 / L1 / L2 min-excess index built by the scalar builders is exact: every
entry is (minimum prefix excess, total excess) of the bits of its block, with the `i8` clamp and the
`i16` / `i32` folds lossless for `FACTOR_L1 = FACTOR_L2 = 32` (C04).
-/
import SuccinctlyVerif.Proof.BPClose2
namespace SV.BPI
open SV SV.BP SV.BPM SV.BPP SV.BPW SV.BPS SV.BPC

/-- (minimum prefix excess, total excess) of a bit list. -/
def summ (X : List Bool) : Int × Int := (minExc X, totExc X)

/-- The (at most `u`) bits of the block starting at bit `pos`. -/
def blk (bits : List Bool) (u pos : Nat) : List Bool := (bits.drop pos).take u

theorem blk_length_le (bits : List Bool) (u pos : Nat) : (blk bits u pos).length ≤ u := by
  unfold blk; rw [List.length_take]; omega

/-- A block of `u * (m + 1)` bits is its first `u` bits followed by the next `u * m`. -/
theorem blk_succ (bits : List Bool) (u s m : Nat) :
    blk bits (u * (m + 1)) (u * s) = blk bits u (u * s) ++ blk bits (u * m) (u * (s + 1)) := by
  unfold blk
  have e : u * (m + 1) = u + u * m := by rw [Nat.mul_add]; omega
  have e2 : u * (s + 1) = u * s + u := by rw [Nat.mul_add]; omega
  rw [e, List.take_add, List.drop_drop, e2]

/-! ### L0 -/

theorem blk64_eq (st : List (BitVec 64)) (len i : Nat) (hw : st.length = (len + 63) / 64) (hi : i < st.length) :
    blk (bitsOf st len) 64 (64 * i) = (wordBits (st.getD i 0)).take (vbits len i) := by
  unfold blk
  have hpos : i * 64 < len := by omega
  have e : 64 * i = i * 64 := by omega
  rw [e, bitsOf_drop_word st len i hi (by omega) hpos]
  have hvb2 : vbits len i ≤ 64 := by unfold vbits; split <;> omega
  have hl : ((wordBits (st.getD i 0)).take (vbits len i)).length = vbits len i := by
    rw [List.length_take, wordBits_length]; omega
  by_cases hfull : vbits len i = 64
  · rw [List.take_append_of_le_length (by omega), List.take_of_length_le (by omega)]
  · have hdrop : (bitsOf st len).drop ((i + 1) * 64) = [] := by
      apply List.drop_of_length_le
      rw [bitsOf_length st len (by omega)]
      unfold vbits at hfull; split at hfull <;> omega
    rw [hdrop, List.append_nil, List.take_of_length_le (by omega)]

theorem buildL0_getElem? (st : List (BitVec 64)) (len i : Nat) (hw : st.length = (len + 63) / 64) (hi : i < st.length) :
    (buildL0 st len)[i]? = some (summ (blk (bitsOf st len) 64 (64 * i))) := by
  rw [blk64_eq st len i hw hi]
  unfold buildL0 summ
  simp only
  by_cases hfull : i < (if len % 64 = 0 then st.length else st.length - 1)
  · rw [List.getElem?_append_left (by simp; omega)]
    have hv : vbits len i = 64 := by unfold vbits; split at hfull <;> split <;> omega
    rw [hv, wordBits_take_64, List.getElem?_map, List.getElem?_take]
    simp only [hfull, if_true, List.getElem?_eq_getElem hi, Option.map_some]
    rw [wordMinExcessUnrolled_spec]
    simp [List.getD_eq_getElem?_getD, List.getElem?_eq_getElem hi]
  · have hne : len % 64 ≠ 0 := by
      intro h0; simp only [h0, if_true] at hfull; omega
    simp only [hne, if_false] at hfull ⊢
    have hi' : i = st.length - 1 := by omega
    rw [List.getElem?_append_right (by simp; omega)]
    have hlt : st.length - 1 < st.length := by omega
    simp only [List.length_map, List.length_take, hlt, if_true]
    have e0 : i - min (st.length - 1) st.length = 0 := by omega
    rw [e0]
    have hv : vbits len i = len % 64 := by unfold vbits; split <;> omega
    rw [hv, hi']
    simp only [List.getElem?_cons_zero]
    rw [wordMinExcess_spec _ _ (by omega)]

theorem buildL0_length (st : List (BitVec 64)) (len : Nat) (hne : st ≠ []) : (buildL0 st len).length = st.length := by
  have : 0 < st.length := by cases st with | nil => exact absurd rfl hne | cons _ _ => simp
  unfold buildL0
  simp only [List.length_append, List.length_map, List.length_take]
  split <;> split <;> simp <;> omega

/-- L0 as a list: entry `i` summarises the valid bits of word `i`. -/
theorem buildL0_eq (st : List (BitVec 64)) (len : Nat) (hw : st.length = (len + 63) / 64) (hne : st ≠ []) :
    buildL0 st len = (List.range' 0 st.length).map fun i => summ (blk (bitsOf st len) 64 (64 * i)) := by
  apply List.ext_getElem?
  intro i
  by_cases hi : i < st.length
  · rw [buildL0_getElem? st len i hw hi, List.getElem?_map, List.getElem?_range' (by omega)]
    simp
  · rw [List.getElem?_eq_none (by rw [buildL0_length st len hne]; omega),
      List.getElem?_eq_none (by simp; omega)]

/-! ### folds without wrap -/

theorem wrapI16_id (x : Int) (h1 : -32768 ≤ x) (h2 : x ≤ 32767) : wrapI16 x = x := by
  unfold wrapI16; omega

/-- The `i16` fold over the summaries of `m` consecutive `u`-bit blocks summarises their
concatenation, as long as everything stays within `i16`. -/
theorem foldI16_blocks (bits : List Bool) (u s m : Nat) (bm re : Int) (hbm : bm ≤ re)
    (hb1 : -32768 ≤ re - (u * m : Nat)) (hb2 : re + (u * m : Nat) ≤ 32767) :
    foldI16 ((List.range' s m).map fun i => summ (blk bits u (u * i))) bm re =
      (min bm (re + minExc (blk bits (u * m) (u * s))), re + totExc (blk bits (u * m) (u * s))) := by
  unfold summ
  induction m generalizing s bm re with
  | zero =>
    simp only [List.range'_zero, List.map_nil, foldI16, Nat.mul_zero, blk, List.take_zero, minExc, totExc]
    congr 1 <;> omega
  | succ m ih =>
    rw [List.range'_succ, List.map_cons, blk_succ, minExc_append, totExc_append]
    simp only [foldI16]
    have hl := blk_length_le bits u (u * s)
    have ht := totExc_bound (blk bits u (u * s))
    have hm1 := minExc_ge (blk bits u (u * s))
    have hm2 := minExc_le_tot (blk bits u (u * s))
    have hm3 := minExc_le_zero (blk bits u (u * s))
    have e : u * (m + 1) = u + u * m := by rw [Nat.mul_add]; omega
    rw [e] at hb1 hb2
    rw [wrapI16_id _ (by omega) (by omega), wrapI16_id _ (by omega) (by omega),
      ih (s + 1) _ _ (by omega) (by omega) (by omega)]
    congr 1 <;> omega

theorem foldI32_blocks (bits : List Bool) (u s m : Nat) (bm re : Int) (hbm : bm ≤ re)
    (hb1 : -2147483648 ≤ re - (u * m : Nat)) (hb2 : re + (u * m : Nat) ≤ 2147483647) :
    foldI32 ((List.range' s m).map fun i => summ (blk bits u (u * i))) bm re =
      (min bm (re + minExc (blk bits (u * m) (u * s))), re + totExc (blk bits (u * m) (u * s))) := by
  unfold summ
  induction m generalizing s bm re with
  | zero =>
    simp only [List.range'_zero, List.map_nil, foldI32, Nat.mul_zero, blk, List.take_zero, minExc, totExc]
    congr 1 <;> omega
  | succ m ih =>
    rw [List.range'_succ, List.map_cons, blk_succ, minExc_append, totExc_append]
    simp only [foldI32]
    have hl := blk_length_le bits u (u * s)
    have ht := totExc_bound (blk bits u (u * s))
    have hm1 := minExc_ge (blk bits u (u * s))
    have hm2 := minExc_le_tot (blk bits u (u * s))
    have hm3 := minExc_le_zero (blk bits u (u * s))
    have e : u * (m + 1) = u + u * m := by rw [Nat.mul_add]; omega
    rw [e] at hb1 hb2
    rw [BPR.wrapI32_id _ (by omega) (by omega), BPR.wrapI32_id _ (by omega) (by omega),
      ih (s + 1) _ _ (by omega) (by omega) (by omega)]
    congr 1 <;> omega

end SV.BPI
