import SuccinctlyVerif.Spec.Json
import SuccinctlyVerif.Spec.Utf8
import SuccinctlyVerif.Spec.Lines
import SuccinctlyVerif.Proof.Utf8
import Std.Tactic.BVDecide

namespace SV.Json.Alias
open SV.Utf8 (St step run inR code code_inj code_step code_start code_dead stepC)

/-! ## Part A: `SV.Json.utf8Wf` versus the Table 3-7 automaton of `SV.Utf8` -/

theorem wf1 (a : BitVec 8) : SV.Json.utf8Wf [a] = true ↔ step .start a = .start := by
  simp only [SV.Json.utf8Wf, code_inj, code_step, code_start, decide_eq_true_eq]
  simp only [SV.Utf8.Byte, stepC, inR]
  bv_decide (timeout := 300)

theorem wf2 (a b : BitVec 8) : SV.Json.utf8Wf [a, b] = true ↔
    (step (step .start a) b = .start ∧ step .start a ≠ .start) := by
  simp only [SV.Json.utf8Wf, SV.Json.isCont, code_inj, code_step, code_start, ne_eq,
    Bool.and_eq_true, decide_eq_true_eq]
  simp only [SV.Utf8.Byte, stepC, inR]
  bv_decide (timeout := 300)

theorem wf3 (a b c : BitVec 8) : SV.Json.utf8Wf [a, b, c] = true ↔
    (step (step (step .start a) b) c = .start ∧ step .start a ≠ .start ∧
      step (step .start a) b ≠ .start) := by
  simp only [SV.Json.utf8Wf, SV.Json.isCont, code_inj, code_step, code_start, ne_eq,
    beq_iff_eq, Bool.and_eq_true, Bool.or_eq_true, decide_eq_true_eq]
  simp only [SV.Utf8.Byte, stepC, inR]
  bv_decide (timeout := 300)

theorem wf4 (a b c d : BitVec 8) : SV.Json.utf8Wf [a, b, c, d] = true ↔
    (step (step (step (step .start a) b) c) d = .start ∧ step .start a ≠ .start ∧
      step (step .start a) b ≠ .start ∧ step (step (step .start a) b) c ≠ .start) := by
  simp only [SV.Json.utf8Wf, SV.Json.isCont, code_inj, code_step, code_start, ne_eq,
    beq_iff_eq, Bool.and_eq_true, Bool.or_eq_true, decide_eq_true_eq]
  simp only [SV.Utf8.Byte, stepC, inR]
  bv_decide (timeout := 300)

theorem dead4 (a b c d : BitVec 8) (h1 : step .start a ≠ .start)
    (h2 : step (step .start a) b ≠ .start) (h3 : step (step (step .start a) b) c ≠ .start)
    (h4 : step (step (step (step .start a) b) c) d ≠ .start) :
    step (step (step (step .start a) b) c) d = .dead := by
  simp only [code_inj, code_step, code_start, code_dead, ne_eq] at *
  simp only [SV.Utf8.Byte, stepC, inR] at *
  bv_decide (timeout := 300)


/-- `utf8Wf c` says exactly: `c` is non-empty, the Table 3-7 automaton is back on a sequence boundary
after `c`, and on no proper non-empty prefix of `c` — i.e. `c` is ONE well-formed sequence. -/
theorem utf8Wf_iff_run (c : List (BitVec 8)) :
    SV.Json.utf8Wf c = true ↔
      c ≠ [] ∧ SV.Utf8.run .start c = .start ∧
        ∀ k, 0 < k → k < c.length → SV.Utf8.run .start (c.take k) ≠ .start := by
  match c with
  | [] => simp [SV.Json.utf8Wf]
  | [a] =>
    rw [wf1]
    constructor
    · intro h; exact ⟨by simp, by simpa using h, fun k h0 h1 => by simp at h1; omega⟩
    · rintro ⟨_, h, _⟩; simpa using h
  | [a, b] =>
    rw [wf2]
    constructor
    · rintro ⟨h, h1⟩
      refine ⟨by simp, by simpa using h, fun k h0 hk => ?_⟩
      simp at hk
      obtain rfl : k = 1 := by omega
      simpa using h1
    · rintro ⟨_, h, hk⟩
      exact ⟨by simpa using h, by simpa using hk 1 (by omega) (by simp)⟩
  | [a, b, c] =>
    rw [wf3]
    constructor
    · rintro ⟨h, h1, h2⟩
      refine ⟨by simp, by simpa using h, fun k h0 hk => ?_⟩
      simp at hk
      obtain rfl | rfl : k = 1 ∨ k = 2 := by omega
      · simpa using h1
      · simpa using h2
    · rintro ⟨_, h, hk⟩
      exact ⟨by simpa using h, by simpa using hk 1 (by omega) (by simp),
        by simpa using hk 2 (by omega) (by simp)⟩
  | [a, b, c, d] =>
    rw [wf4]
    constructor
    · rintro ⟨h, h1, h2, h3⟩
      refine ⟨by simp, by simpa using h, fun k h0 hk => ?_⟩
      simp at hk
      obtain rfl | rfl | rfl : k = 1 ∨ k = 2 ∨ k = 3 := by omega
      · simpa using h1
      · simpa using h2
      · simpa using h3
    · rintro ⟨_, h, hk⟩
      exact ⟨by simpa using h, by simpa using hk 1 (by omega) (by simp),
        by simpa using hk 2 (by omega) (by simp), by simpa using hk 3 (by omega) (by simp)⟩
  | a :: b :: c :: d :: e :: r =>
    have hf : SV.Json.utf8Wf (a :: b :: c :: d :: e :: r) = false := by simp [SV.Json.utf8Wf]
    rw [hf]
    constructor
    · intro h; cases h
    · rintro ⟨_, h, hk⟩
      exfalso
      have h1 := hk 1 (by omega) (by simp)
      have h2 := hk 2 (by omega) (by simp)
      have h3 := hk 3 (by omega) (by simp)
      have h4 := hk 4 (by omega) (by simp)
      simp only [List.take_succ_cons, List.take_zero, SV.Utf8.run_cons, SV.Utf8.run_nil] at h1 h2 h3 h4
      have hd := dead4 a b c d h1 h2 h3 h4
      simp only [SV.Utf8.run_cons, hd, SV.Utf8.step_dead, SV.Utf8.run_dead] at h
      cases h

theorem utf8Wf_wellFormed (c : List (BitVec 8)) (h : SV.Json.utf8Wf c = true) :
    SV.Utf8.WellFormed c := ((utf8Wf_iff_run c).1 h).2.1


/-! ### `utf8Wf` versus `SV.Utf8.encode` / `SV.Utf8.isScalar` / `SV.Json.utf8Scalar` -/

theorem ofNat8_eq (n : Nat) (a : BitVec 8) (h : n % 256 = a.toNat) : BitVec.ofNat 8 n = a := by
  apply BitVec.eq_of_toNat_eq; simpa using h

/-- The encoding of a scalar value is accepted by `utf8Wf`, and `utf8Scalar` decodes it. -/
theorem utf8Wf_encode (cp : Nat) (h : SV.Utf8.isScalar cp = true) :
    SV.Json.utf8Wf (SV.Utf8.encode cp) = true ∧ SV.Json.utf8Scalar (SV.Utf8.encode cp) = cp := by
  simp only [SV.Utf8.isScalar, Bool.or_eq_true, Bool.and_eq_true, decide_eq_true_eq] at h
  unfold SV.Utf8.encode
  split
  · simp [SV.Json.utf8Wf, SV.Json.utf8Scalar, BitVec.le_def]; omega
  split
  · simp [SV.Json.utf8Wf, SV.Json.utf8Scalar, SV.Json.isCont, BitVec.le_def]; omega
  split
  · simp [SV.Json.utf8Wf, SV.Json.utf8Scalar, SV.Json.isCont, BitVec.le_def, ← BitVec.toNat_inj]
    omega
  · simp [SV.Json.utf8Wf, SV.Json.utf8Scalar, SV.Json.isCont, BitVec.le_def, ← BitVec.toNat_inj]
    omega

/-- A sequence accepted by `utf8Wf` is the encoding of the scalar value `utf8Scalar` assigns it. -/
theorem utf8Wf_scalar (c : List (BitVec 8)) (h : SV.Json.utf8Wf c = true) :
    SV.Utf8.isScalar (SV.Json.utf8Scalar c) = true ∧
      SV.Utf8.encode (SV.Json.utf8Scalar c) = c := by
  match c with
  | [] => simp [SV.Json.utf8Wf] at h
  | [a] =>
    have ha := a.isLt
    simp [SV.Json.utf8Wf, BitVec.le_def] at h
    have hs : SV.Json.utf8Scalar [a] = a.toNat := rfl
    generalize SV.Json.utf8Scalar [a] = cp at hs ⊢
    simp only [SV.Utf8.isScalar, SV.Utf8.encode, Bool.or_eq_true, Bool.and_eq_true,
      decide_eq_true_eq]
    refine ⟨by omega, ?_⟩
    rw [if_pos (by omega)]
    simp only [List.cons.injEq, and_true]
    exact ofNat8_eq _ _ (by omega)
  | [a, b] =>
    have ha := a.isLt; have hb := b.isLt
    simp [SV.Json.utf8Wf, SV.Json.isCont, BitVec.le_def] at h
    have hs : SV.Json.utf8Scalar [a, b] = (a.toNat % 32) * 64 + b.toNat % 64 := rfl
    generalize SV.Json.utf8Scalar [a, b] = cp at hs ⊢
    simp only [SV.Utf8.isScalar, SV.Utf8.encode, Bool.or_eq_true, Bool.and_eq_true,
      decide_eq_true_eq]
    refine ⟨by omega, ?_⟩
    rw [if_neg (by omega), if_pos (by omega)]
    simp only [List.cons.injEq, and_true]
    refine ⟨ofNat8_eq _ _ ?_, ofNat8_eq _ _ ?_⟩ <;> omega
  | [a, b, c] =>
    have ha := a.isLt; have hb := b.isLt; have hc := c.isLt
    simp [SV.Json.utf8Wf, SV.Json.isCont, BitVec.le_def, ← BitVec.toNat_inj] at h
    have hs : SV.Json.utf8Scalar [a, b, c] =
      ((a.toNat % 16) * 64 + b.toNat % 64) * 64 + c.toNat % 64 := rfl
    generalize SV.Json.utf8Scalar [a, b, c] = cp at hs ⊢
    simp only [SV.Utf8.isScalar, SV.Utf8.encode, Bool.or_eq_true, Bool.and_eq_true,
      decide_eq_true_eq]
    refine ⟨by omega, ?_⟩
    rw [if_neg (by omega), if_neg (by omega), if_pos (by omega)]
    simp only [List.cons.injEq, and_true]
    refine ⟨ofNat8_eq _ _ ?_, ofNat8_eq _ _ ?_, ofNat8_eq _ _ ?_⟩ <;> omega
  | [a, b, c, d] =>
    have ha := a.isLt; have hb := b.isLt; have hc := c.isLt; have hd := d.isLt
    simp [SV.Json.utf8Wf, SV.Json.isCont, BitVec.le_def, ← BitVec.toNat_inj] at h
    have hs : SV.Json.utf8Scalar [a, b, c, d] =
      (((a.toNat % 8) * 64 + b.toNat % 64) * 64 + c.toNat % 64) * 64 + d.toNat % 64 := rfl
    generalize SV.Json.utf8Scalar [a, b, c, d] = cp at hs ⊢
    simp only [SV.Utf8.isScalar, SV.Utf8.encode, Bool.or_eq_true, Bool.and_eq_true,
      decide_eq_true_eq]
    refine ⟨by omega, ?_⟩
    rw [if_neg (by omega), if_neg (by omega), if_neg (by omega)]
    simp only [List.cons.injEq, and_true]
    refine ⟨ofNat8_eq _ _ ?_, ofNat8_eq _ _ ?_, ofNat8_eq _ _ ?_, ofNat8_eq _ _ ?_⟩ <;> omega
  | _ :: _ :: _ :: _ :: _ :: _ => simp [SV.Json.utf8Wf] at h

/-- `utf8Wf` accepts exactly the UTF-8 encodings of Unicode scalar values. -/
theorem utf8Wf_iff_encode (c : List (BitVec 8)) :
    SV.Json.utf8Wf c = true ↔ ∃ cp, SV.Utf8.isScalar cp = true ∧ c = SV.Utf8.encode cp := by
  constructor
  · intro h
    exact ⟨SV.Json.utf8Scalar c, (utf8Wf_scalar c h).1, (utf8Wf_scalar c h).2.symm⟩
  · rintro ⟨cp, h, rfl⟩
    exact (utf8Wf_encode cp h).1

/-- …and the scalar value is unique and is the one `utf8Scalar` computes. -/
theorem utf8Scalar_unique (c : List (BitVec 8)) (cp : Nat) (h : SV.Utf8.isScalar cp = true)
    (hc : c = SV.Utf8.encode cp) : SV.Json.utf8Scalar c = cp := by
  subst hc; exact (utf8Wf_encode cp h).2

/-! ### `utf8Wf` versus `SV.Utf8.decodeFirst` -/

open SV.Utf8 (declaredLen decodeFirst leadPayload)

theorem declaredLen_of_wf (a : BitVec 8) (t : List (BitVec 8)) (h : SV.Json.utf8Wf (a :: t) = true) :
    declaredLen a = t.length + 1 := by
  have ha := a.isLt
  match t with
  | [] =>
    simp [SV.Json.utf8Wf, BitVec.le_def] at h
    simp only [declaredLen, BitVec.le_def, BitVec.toNat_ofNat]
    repeat' split
    all_goals (simp at *; try omega)
  | [b] =>
    simp [SV.Json.utf8Wf, BitVec.le_def] at h
    simp only [declaredLen, BitVec.le_def, BitVec.toNat_ofNat]
    repeat' split
    all_goals (simp at *; try omega)
  | [b, c] =>
    simp [SV.Json.utf8Wf, BitVec.le_def, ← BitVec.toNat_inj] at h
    simp only [declaredLen, BitVec.le_def, BitVec.toNat_ofNat]
    repeat' split
    all_goals (simp at *; try omega)
  | [b, c, d] =>
    simp [SV.Json.utf8Wf, BitVec.le_def, ← BitVec.toNat_inj] at h
    simp only [declaredLen, BitVec.le_def, BitVec.toNat_ofNat]
    repeat' split
    all_goals (simp at *; try omega)
  | _ :: _ :: _ :: _ :: _ => simp [SV.Json.utf8Wf] at h


/-- `SV.Utf8.decodeFirst` on a text that begins with a `utf8Wf` sequence returns exactly that sequence's
scalar value (as `utf8Scalar` computes it) and its length. -/
theorem utf8Wf_decodeFirst (c r : List (BitVec 8)) (h : SV.Json.utf8Wf c = true) :
    decodeFirst (c ++ r) = some (SV.Json.utf8Scalar c, c.length) := by
  have hrun := ((utf8Wf_iff_run c).1 h).2.1
  match c, h, hrun with
  | a :: t, h, hrun =>
    have hn := declaredLen_of_wf a t h
    have htake : ((a :: t) ++ r).take (t.length + 1) = a :: t := by
      simp
    simp only [decodeFirst, List.cons_append, hn]
    rw [List.cons_append] at htake
    rw [htake, if_neg (by simp [hrun])]
    match t, h with
    | [], _ => simp [leadPayload, SV.Json.utf8Scalar]
    | [b], _ => simp [leadPayload, SV.Json.utf8Scalar]
    | [b, c], _ => simp [leadPayload, SV.Json.utf8Scalar]
    | [b, c, d], _ => simp [leadPayload, SV.Json.utf8Scalar]
    | _ :: _ :: _ :: _ :: _, h => simp [SV.Json.utf8Wf] at h

/-! ## Part B: `SV.Json.lineCol` versus `SV.Lines.lineCol` -/

open SV.Lines (startsLine lineColScan)

/-- Once the scan position is past the offset the answer is fixed. -/
theorem scan_past (off : Nat) (prev : Option (BitVec 8)) (rest : List (BitVec 8)) (pos l s : Nat)
    (h : off < pos) : lineColScan off prev rest pos l s = (l, off - s + 1) := by
  cases rest with
  | nil => simp [lineColScan]
  | cons c r => simp [lineColScan, h]

/-- The coupling between the Json fold state `J` (after the bytes before `pos`) and the state
`(l, s)` of the Lines scan at `pos` with look-behind byte `prev`: after a break byte the Json fold
is already on the next line, the Lines scan moves there only when it sees a byte beginning it. -/
def Inv (J : SV.Json.LC) (prev : Option (BitVec 8)) (pos l s : Nat) : Prop :=
  J.cr = (prev == some 0x0D#8) ∧
    if prev = some 0x0A#8 ∨ prev = some 0x0D#8 then J.line = l + 1 ∧ J.column = 1
    else J.line = l ∧ J.column = pos - s + 1 ∧ s ≤ pos

theorem Inv.step {J : SV.Json.LC} {prev : Option (BitVec 8)} {pos l s : Nat}
    (h : Inv J prev pos l s) (c : BitVec 8) :
    Inv (J.step c) (some c) (pos + 1) (if startsLine prev c then l + 1 else l)
      (if startsLine prev c then pos else s) := by
  obtain ⟨hcr, h⟩ := h
  obtain ⟨jl, jc, jcr⟩ := J
  simp only at hcr h
  subst hcr
  by_cases hL : prev = some 0x0A#8
  · subst hL
    by_cases c1 : c = 0x0A#8
    · subst c1; simp [Inv, SV.Json.LC.step, startsLine, SV.Lines.LF, SV.Lines.CR] at h ⊢; omega
    · by_cases c2 : c = 0x0D#8
      · subst c2; simp [Inv, SV.Json.LC.step, startsLine, SV.Lines.LF, SV.Lines.CR] at h ⊢; omega
      · simp [Inv, SV.Json.LC.step, startsLine, SV.Lines.LF, SV.Lines.CR, c1, c2] at h ⊢; omega
  · by_cases hC : prev = some 0x0D#8
    · subst hC
      by_cases c1 : c = 0x0A#8
      · subst c1; simp [Inv, SV.Json.LC.step, startsLine, SV.Lines.LF, SV.Lines.CR] at h ⊢; omega
      · by_cases c2 : c = 0x0D#8
        · subst c2; simp [Inv, SV.Json.LC.step, startsLine, SV.Lines.LF, SV.Lines.CR] at h ⊢; omega
        · simp [Inv, SV.Json.LC.step, startsLine, SV.Lines.LF, SV.Lines.CR, c1, c2] at h ⊢; omega
    · by_cases c1 : c = 0x0A#8
      · subst c1
        simp [Inv, SV.Json.LC.step, startsLine, SV.Lines.LF, SV.Lines.CR, hL, hC] at h ⊢; omega
      · by_cases c2 : c = 0x0D#8
        · subst c2
          simp [Inv, SV.Json.LC.step, startsLine, SV.Lines.LF, SV.Lines.CR, hL, hC] at h ⊢; omega
        · simp [Inv, SV.Json.LC.step, startsLine, SV.Lines.LF, SV.Lines.CR, c1, c2, hL, hC] at h ⊢
          omega


/-- The byte before position `k` of `rest`, `prev` being the byte before `rest`. -/
def prevAt (prev : Option (BitVec 8)) (rest : List (BitVec 8)) : Nat → Option (BitVec 8)
  | 0 => prev
  | k + 1 => rest[k]?

theorem prevAt_cons (prev : Option (BitVec 8)) (c : BitVec 8) (r : List (BitVec 8)) (k : Nat) :
    prevAt prev (c :: r) (k + 1) = prevAt (some c) r k := by
  cases k <;> simp [prevAt]

theorem scan_eq_fold : ∀ (k : Nat) (rest : List (BitVec 8)) (J : SV.Json.LC)
    (prev : Option (BitVec 8)) (pos l s : Nat), Inv J prev pos l s → k < rest.length →
    ¬ (prevAt prev rest k = some 0x0D#8 ∧ rest[k]? = some 0x0A#8) →
    lineColScan (pos + k) prev rest pos l s =
      (((rest.take k).foldl SV.Json.LC.step J).line, ((rest.take k).foldl SV.Json.LC.step J).column) := by
  intro k
  induction k with
  | zero =>
    intro rest J prev pos l s hI hk hc
    match rest, hk with
    | c :: r, _ =>
      obtain ⟨hcr, h⟩ := hI
      simp only [prevAt, List.getElem?_cons_zero, Option.some.injEq] at hc
      simp only [Nat.add_zero, lineColScan, Nat.lt_irrefl, if_false, List.take_zero, List.foldl_nil]
      by_cases hL : prev = some 0x0A#8
      · subst hL
        simp [startsLine, SV.Lines.LF, SV.Lines.CR, scan_past] at h ⊢
        omega
      · by_cases hC : prev = some 0x0D#8
        · subst hC
          have c1 : c ≠ 0x0A#8 := fun e => hc ⟨rfl, e⟩
          simp [startsLine, SV.Lines.LF, SV.Lines.CR, scan_past, c1] at h ⊢
          omega
        · simp [startsLine, SV.Lines.LF, SV.Lines.CR, scan_past, hL, hC] at h ⊢
          omega
  | succ k ih =>
    intro rest J prev pos l s hI hk hc
    match rest, hk with
    | c :: r, hk =>
      have hk' : k < r.length := by simpa using hk
      rw [prevAt_cons] at hc
      simp only [List.getElem?_cons_succ] at hc
      have := ih r (J.step c) (some c) (pos + 1) _ _ (hI.step c) hk' hc
      rw [List.take_succ_cons, List.foldl_cons, ← this]
      have e : pos + (k + 1) = pos + 1 + k := by omega
      have hlt : ¬ pos + 1 + k < pos := by omega
      rw [e]
      simp only [lineColScan, hlt, if_false]
      split <;> simp_all

/-- On an offset inside the text that is not the LF of a CRLF, the validator's line/column
(`SV.Json.lineCol`) and the shared one (`SV.Lines.lineCol`) coincide. -/
theorem lineCol_eq_lines (b : List (BitVec 8)) (off : Nat) (h : off < b.length)
    (hcrlf : ¬ (0 < off ∧ b[off - 1]? = some 0x0D ∧ b[off]? = some 0x0A)) :
    SV.Json.lineCol b off = SV.Lines.lineCol b off := by
  have hI : Inv ⟨1, 1, false⟩ none 0 1 0 := by simp [Inv]
  have hc : ¬ (prevAt none b off = some 0x0D#8 ∧ b[off]? = some 0x0A#8) := by
    rintro ⟨h1, h2⟩
    cases off with
    | zero => simp [prevAt] at h1
    | succ k => exact hcrlf ⟨by omega, by simpa [prevAt] using h1, h2⟩
  have := scan_eq_fold off b _ none 0 1 0 hI h hc
  rw [Nat.zero_add] at this
  simp only [SV.Json.lineCol, SV.Json.lcOf, SV.Lines.lineCol, this]

/-- At the end of a text that ends in a line break the two definitions differ: the validator is
already on the next line, the shared definition reports against the last line that has a byte. -/
example : SV.Json.lineCol [0x5B, 0x0A] 2 = (2, 1) ∧ SV.Lines.lineCol [0x5B, 0x0A] 2 = (1, 3) := by
  decide

/-- On the LF of a CRLF they differ too: for the validator the break happened at the CR, for the
shared definition the LF still belongs to the line the break ends. -/
example : SV.Json.lineCol [0x5B, 0x0D, 0x0A, 0x5D] 2 = (2, 1) ∧
    SV.Lines.lineCol [0x5B, 0x0D, 0x0A, 0x5D] 2 = (1, 3) := by
  decide

end SV.Json.Alias
