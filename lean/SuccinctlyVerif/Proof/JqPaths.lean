/-
Proof/JqPaths — the path laws by induction on the path.

`ValidPath v p`: `p` leads to a node of `v` through present object keys and in-range array indices
(exactly the members of `paths v` plus the empty path, `paths_valid`). For valid paths:
`getpath` is defined, `setpath(p; getpath(p))` is the identity, `getpath(p)` after `setpath(p; x)` is
`x`, and `setpath(p; x)` leaves every path that is neither a prefix nor an extension of `p` alone.
-/
import SuccinctlyVerif.Proof.JqOrder
namespace SV.Jq
variable {N : Type} [NumOps N] [LawfulNum N]

inductive ValidPath : JV N → List (JV N) → Prop
  | nil (v : JV N) : ValidPath v []
  | key (fs : List (String × JV N)) (k : String) (w : JV N) (rest : List (JV N)) :
      JV.lookup fs k = some w → ValidPath w rest → ValidPath (.obj fs) (.str k :: rest)
  | idx (xs : List (JV N)) (i : Nat) (w : JV N) (rest : List (JV N)) :
      xs[i]? = some w → ValidPath w rest → ValidPath (.arr xs) (JV.ofNat i :: rest)

/-! ### steps -/

theorem idxOf_ofNat (i : Nat) : idxOf (NumOps.ofInt (i : Int) : N) = some (some (i : Int)) := by
  simp [idxOf, LawfulNum.isNan_ofInt, LawfulNum.isInf_ofInt, LawfulNum.floor_ofInt, LawfulNum.toInt_ofInt]

theorem resolveIdx_ofNat (i len : Nat) : resolveIdx (i : Int) len = some i := by
  simp [resolveIdx]

theorem getStep_idx (xs : List (JV N)) (i : Nat) :
    (JV.arr xs).getStep (JV.ofNat i) = .ok (xs.getD i .null) := by
  simp [JV.getStep, JV.ofNat, idxOf_ofNat, resolveIdx_ofNat]

theorem getStep_key (fs : List (String × JV N)) (k : String) :
    (JV.obj fs).getStep (.str k) = .ok ((JV.lookup fs k).getD .null) := by
  simp [JV.getStep]

theorem updStep_key (fs : List (String × JV N)) (k : String) (f : JV N → Except String (JV N)) :
    (JV.obj fs).updStep (.str k) f =
      (f ((JV.lookup fs k).getD .null)).bind fun w => .ok (.obj (JV.insert fs k w)) := by
  simp [JV.updStep, bind, Except.bind]

theorem updStep_idx (xs : List (JV N)) (i : Nat) (hi : i < xs.length) (f : JV N → Except String (JV N)) :
    (JV.arr xs).updStep (JV.ofNat i) f =
      (f (xs.getD i .null)).bind fun w => .ok (.arr (listSet xs i w .null)) := by
  have : ¬ (i > xs.length + 100000) := by omega
  simp [JV.updStep, JV.ofNat, idxOf_ofNat, resolveIdx_ofNat, this, bind, Except.bind]

theorem listSet_length {α} (xs : List α) (i : Nat) (w pad : α) (hi : i < xs.length) :
    (listSet xs i w pad).length = xs.length := by
  induction xs generalizing i with
  | nil => simp at hi
  | cons x xs ih => cases i with
    | zero => simp [listSet]
    | succ i => simp [listSet, ih i (by simpa using hi)]

theorem listSet_get_same {α} (xs : List α) (i : Nat) (w pad : α) (hi : i < xs.length) :
    (listSet xs i w pad)[i]? = some w := by
  induction xs generalizing i with
  | nil => simp at hi
  | cons x xs ih => cases i with
    | zero => simp [listSet]
    | succ i => simp [listSet, ih i (by simpa using hi)]

theorem listSet_get_other {α} (xs : List α) (i j : Nat) (w pad : α) (hi : i < xs.length) (hne : j ≠ i) :
    (listSet xs i w pad)[j]? = xs[j]? := by
  induction xs generalizing i j with
  | nil => simp at hi
  | cons x xs ih =>
    cases i with
    | zero => cases j with
      | zero => exact absurd rfl hne
      | succ j => simp [listSet]
    | succ i => cases j with
      | zero => simp [listSet]
      | succ j => simp [listSet, ih i j (by simpa using hi) (by omega)]

theorem listSet_self {α} (xs : List α) (i : Nat) (w pad : α) (h : xs[i]? = some w) :
    listSet xs i w pad = xs := by
  induction xs generalizing i with
  | nil => simp at h
  | cons x xs ih => cases i with
    | zero => simp at h; simp [listSet, h]
    | succ i => simp at h; simp [listSet, ih i h]

theorem getD_of_get? {α} (xs : List α) (i : Nat) (w d : α) (h : xs[i]? = some w) : xs.getD i d = w := by
  simp [List.getD, h]

theorem lt_of_get? {α} (xs : List α) (i : Nat) (w : α) (h : xs[i]? = some w) : i < xs.length := by
  obtain ⟨h', _⟩ := List.getElem?_eq_some_iff.mp h
  exact h'

/-! ### the laws -/

/-- **`getpath_defined`** -/
theorem getpath_defined {v : JV N} {p : List (JV N)} (h : ValidPath v p) : ∃ w, v.getpath p = .ok w := by
  induction h with
  | nil v => exact ⟨v, rfl⟩
  | key fs k w rest hl _ ih =>
    obtain ⟨u, hu⟩ := ih
    exact ⟨u, by simp [JV.getpath, getStep_key, hl, bind, Except.bind, hu]⟩
  | idx xs i w rest hg _ ih =>
    obtain ⟨u, hu⟩ := ih
    exact ⟨u, by simp [JV.getpath, getStep_idx, hg, bind, Except.bind, hu]⟩

theorem setpath_cons_key (fs : List (String × JV N)) (k : String) (w : JV N) (rest : List (JV N)) (x : JV N)
    (hl : JV.lookup fs k = some w) :
    (JV.obj fs).setpath (.str k :: rest) x = (w.setpath rest x).bind fun w' => .ok (.obj (JV.insert fs k w')) := by
  simp [JV.setpath, JV.updpath, updStep_key, hl]

theorem setpath_cons_idx (xs : List (JV N)) (i : Nat) (w : JV N) (rest : List (JV N)) (x : JV N)
    (hg : xs[i]? = some w) :
    (JV.arr xs).setpath (JV.ofNat i :: rest) x =
      (w.setpath rest x).bind fun w' => .ok (.arr (listSet xs i w' .null)) := by
  simp [JV.setpath, JV.updpath, updStep_idx xs i (lt_of_get? xs i w hg), hg]

theorem getpath_cons_key (fs : List (String × JV N)) (k : String) (w : JV N) (rest : List (JV N))
    (hl : JV.lookup fs k = some w) : (JV.obj fs).getpath (.str k :: rest) = w.getpath rest := by
  simp [JV.getpath, getStep_key, hl, bind, Except.bind]

theorem getpath_cons_idx (xs : List (JV N)) (i : Nat) (w : JV N) (rest : List (JV N))
    (hg : xs[i]? = some w) : (JV.arr xs).getpath (JV.ofNat i :: rest) = w.getpath rest := by
  simp [JV.getpath, getStep_idx, hg, bind, Except.bind]

theorem ofNat_inj (i j : Nat) (h : (JV.ofNat i : JV N) = JV.ofNat j) : i = j := by
  simp only [JV.ofNat, JV.num.injEq] at h
  have := LawfulNum.ofInt_inj (N := N) _ _ h
  exact Int.ofNat.inj this

/-- two paths neither of which is a prefix of the other -/
def Incomparable (p q : List (JV N)) : Prop := ¬ p <+: q ∧ ¬ q <+: p

/-- the combined statement: `setpath` succeeds, reads back, and frames -/
theorem setpath_spec {v : JV N} {p : List (JV N)} (h : ValidPath v p) (x : JV N) :
    ∃ v', v.setpath p x = .ok v' ∧ v'.getpath p = .ok x ∧
      ∀ q, ValidPath v q → Incomparable p q → v'.getpath q = v.getpath q := by
  induction h with
  | nil v =>
    refine ⟨x, rfl, rfl, ?_⟩
    intro q _ hinc; exact absurd (List.nil_prefix) hinc.1
  | key fs k w rest hl _ ih =>
    obtain ⟨w', hs, hg, hf⟩ := ih
    refine ⟨.obj (JV.insert fs k w'), ?_, ?_, ?_⟩
    · rw [setpath_cons_key fs k w rest x hl, hs]; rfl
    · rw [getpath_cons_key _ k w' rest (by
        induction fs with
        | nil => simp [JV.insert, JV.lookup]
        | cons f r ihf =>
          obtain ⟨k', v'⟩ := f
          simp only [JV.insert]
          split
          · rename_i hk; simp [JV.lookup, hk]
          · rename_i hk
            simp only [JV.lookup, hk] at hl ⊢
            simpa using ihf hl)]
      exact hg
    · intro q hq hinc
      cases hq with
      | nil => exact absurd (List.nil_prefix) hinc.2
      | key _ k2 w2 q' hl2 hq' =>
        by_cases hk : k2 = k
        · subst hk
          have hw : w2 = w := by rw [hl] at hl2; exact (Option.some.inj hl2).symm
          subst hw
          have hinc' : Incomparable rest q' := by
            constructor
            · intro hp; exact hinc.1 (by simpa using hp)
            · intro hp; exact hinc.2 (by simpa using hp)
          have hl' : JV.lookup (JV.insert fs k2 w') k2 = some w' := by
            clear hinc hq' hinc' hf hg hs hl2
            induction fs with
            | nil => simp [JV.insert, JV.lookup]
            | cons f r ihf =>
              obtain ⟨k', v'⟩ := f
              simp only [JV.insert]
              split
              · rename_i hk; simp [JV.lookup, hk]
              · rename_i hk
                simp only [JV.lookup, hk] at hl ⊢
                simpa using ihf hl
          rw [getpath_cons_key _ k2 w' q' hl', getpath_cons_key _ k2 w2 q' hl]
          exact hf q' hq' hinc'
        · have hl' : JV.lookup (JV.insert fs k w') k2 = JV.lookup fs k2 := by
            clear hinc hq' hf hg hs
            induction fs with
            | nil =>
              have : (k == k2) = false := by simpa using fun e => hk e.symm
              simp [JV.insert, JV.lookup, this] at hl
            | cons f r ihf =>
              obtain ⟨k', v'⟩ := f
              simp only [JV.insert]
              split
              · rename_i hkk
                have e : k' = k := by simpa using hkk
                subst e
                have : (k' == k2) = false := by simpa using fun e => hk e.symm
                simp [JV.lookup, this]
              · rename_i hkk
                simp only [JV.lookup, hkk] at hl
                simp only [JV.lookup]
                split
                · rfl
                · rename_i hk2
                  simp only [JV.lookup, hk2] at hl2
                  exact ihf hl hl2
          rw [getpath_cons_key _ k2 w2 q' (by rw [hl']; exact hl2), getpath_cons_key _ k2 w2 q' hl2]
  | idx xs i w rest hgi _ ih =>
    obtain ⟨w', hs, hg, hf⟩ := ih
    have hi := lt_of_get? xs i w hgi
    refine ⟨.arr (listSet xs i w' .null), ?_, ?_, ?_⟩
    · rw [setpath_cons_idx xs i w rest x hgi, hs]; rfl
    · rw [getpath_cons_idx _ i w' rest (listSet_get_same xs i w' .null hi)]
      exact hg
    · intro q hq hinc
      cases hq with
      | nil => exact absurd (List.nil_prefix) hinc.2
      | idx _ j w2 q' hgj hq' =>
        by_cases hj : j = i
        · subst hj
          have hw : w2 = w := by rw [hgi] at hgj; exact (Option.some.inj hgj).symm
          subst hw
          have hinc' : Incomparable rest q' := by
            constructor
            · intro hp; exact hinc.1 (by simpa using hp)
            · intro hp; exact hinc.2 (by simpa using hp)
          rw [getpath_cons_idx _ j w' q' (listSet_get_same xs j w' .null hi), getpath_cons_idx _ j w2 q' hgi]
          exact hf q' hq' hinc'
        · rw [getpath_cons_idx _ j w2 q' (by rw [listSet_get_other xs i j w' .null hi hj]; exact hgj),
            getpath_cons_idx _ j w2 q' hgj]

/-- **`getpath_setpath`**: reading a valid path after writing it gives the written value. -/
theorem getpath_setpath {v : JV N} {p : List (JV N)} (h : ValidPath v p) (x : JV N) :
    (v.setpath p x).bind (fun v' => v'.getpath p) = .ok x := by
  obtain ⟨v', hs, hg, _⟩ := setpath_spec h x
  simp [hs, hg, Except.bind]

/-- **`setpath_frame`**: writing `p` changes exactly `p` — every valid path that is neither a prefix
nor an extension of `p` reads as before. -/
theorem setpath_frame {v : JV N} {p q : List (JV N)} (hp : ValidPath v p) (hq : ValidPath v q)
    (hinc : Incomparable p q) (x : JV N) :
    (v.setpath p x).bind (fun v' => v'.getpath q) = v.getpath q := by
  obtain ⟨v', hs, _, hf⟩ := setpath_spec hp x
  simp [hs, Except.bind, hf q hq hinc]

/-- **`setpath_getpath_id`**: writing back what is there changes nothing. -/
theorem setpath_getpath_id {v : JV N} {p : List (JV N)} (h : ValidPath v p) :
    (v.getpath p).bind (fun w => v.setpath p w) = .ok v := by
  induction h with
  | nil v => rfl
  | key fs k w rest hl _ ih =>
    rw [getpath_cons_key fs k w rest hl]
    cases hgw : w.getpath rest with
    | error e => rw [hgw] at ih; simp [Except.bind] at ih
    | ok u =>
      rw [hgw] at ih
      simp only [Except.bind] at ih ⊢
      rw [setpath_cons_key fs k w rest u hl, ih]
      simp only [Except.bind]
      congr 2
      clear ih hgw
      induction fs with
      | nil => simp [JV.lookup] at hl
      | cons f r ihf =>
        obtain ⟨k', v'⟩ := f
        simp only [JV.lookup] at hl
        simp only [JV.insert]
        split at hl
        · rename_i hk; simp [hk]; simpa using hl.symm
        · rename_i hk; simp [hk, ihf hl]
  | idx xs i w rest hg _ ih =>
    rw [getpath_cons_idx xs i w rest hg]
    cases hgw : w.getpath rest with
    | error e => rw [hgw] at ih; simp [Except.bind] at ih
    | ok u =>
      rw [hgw] at ih
      simp only [Except.bind] at ih ⊢
      rw [setpath_cons_idx xs i w rest u hg, ih]
      simp only [Except.bind]
      rw [listSet_self xs i w .null hg]


/-! ### every member of `paths v` is a valid path -/

theorem pathsArr_spec (pre : List (JV N)) (xs : List (JV N)) (i : Nat)
    (H : ∀ x ∈ xs, ∀ pre' q, q ∈ JV.pathsFrom pre' x → ∃ r, q = pre' ++ r ∧ ValidPath x r) :
    ∀ q ∈ pathsArr pre i xs, ∃ j w r, xs[j]? = some w ∧ q = pre ++ (JV.ofNat (i + j) :: r) ∧ ValidPath w r := by
  induction xs generalizing i with
  | nil => intro q hq; simp [pathsArr] at hq
  | cons x rest ih =>
    intro q hq
    simp only [pathsArr, List.mem_append, List.mem_cons] at hq
    rcases hq with (rfl | hq) | hq
    · exact ⟨0, x, [], by simp, by simp, ValidPath.nil x⟩
    · obtain ⟨r, rfl, hv⟩ := H x (by simp) _ q hq
      exact ⟨0, x, r, by simp, by simp, hv⟩
    · obtain ⟨j, w, r, hj, rfl, hv⟩ := ih (i + 1) (fun y hy => H y (by simp [hy])) q hq
      exact ⟨j + 1, w, r, by simpa using hj, by simp [Nat.add_assoc, Nat.add_comm 1 j], hv⟩

theorem pathsObj_spec (pre : List (JV N)) (fs : List (String × JV N))
    (H : ∀ f ∈ fs, ∀ pre' q, q ∈ JV.pathsFrom pre' f.2 → ∃ r, q = pre' ++ r ∧ ValidPath f.2 r) :
    ∀ q ∈ pathsObj pre fs, ∃ f r, f ∈ fs ∧ q = pre ++ (.str f.1 :: r) ∧ ValidPath f.2 r := by
  induction fs with
  | nil => intro q hq; simp [pathsObj] at hq
  | cons f rest ih =>
    obtain ⟨k, x⟩ := f
    intro q hq
    simp only [pathsObj, List.mem_append, List.mem_cons] at hq
    rcases hq with (rfl | hq) | hq
    · exact ⟨(k, x), [], by simp, by simp, ValidPath.nil x⟩
    · obtain ⟨r, rfl, hv⟩ := H (k, x) (by simp) _ q hq
      exact ⟨(k, x), r, by simp, by simp, hv⟩
    · obtain ⟨f, r, hf, rfl, hv⟩ := ih (fun y hy => H y (by simp [hy])) q hq
      exact ⟨f, r, by simp [hf], rfl, hv⟩

theorem mem_sizeF {fs : List (String × JV N)} {f : String × JV N} (h : f ∈ fs) : f.2.size ≤ sizeF fs := by
  induction fs with
  | nil => cases h
  | cons g rest ih =>
    obtain ⟨k, v⟩ := g
    simp only [sizeF]
    rcases List.mem_cons.mp h with rfl | h
    · simp
    · have := ih h; omega

theorem mem_wfF {fs : List (String × JV N)} {f : String × JV N} (hw : wfF fs) (h : f ∈ fs) : f.2.WF := by
  induction fs with
  | nil => cases h
  | cons g rest ih =>
    obtain ⟨k, v⟩ := g
    simp only [wfF] at hw
    rcases List.mem_cons.mp h with rfl | h
    · exact hw.1
    · exact ih hw.2 h

theorem pathsFrom_spec (n : Nat) : ∀ (v : JV N), v.size ≤ n → v.WF →
    ∀ pre q, q ∈ JV.pathsFrom pre v → ∃ r, q = pre ++ r ∧ ValidPath v r := by
  induction n with
  | zero => intro v hs; cases v <;> simp [JV.size] at hs <;> omega
  | succ n ih =>
    intro v hs hw pre q hq
    cases v with
    | arr xs =>
      simp only [JV.pathsFrom] at hq
      simp only [JV.size] at hs
      simp only [JV.WF] at hw
      obtain ⟨j, w, r, hj, rfl, hv⟩ := pathsArr_spec pre xs 0
        (fun x hx pre' q' hq' => ih x (by have := mem_sizeL hx; omega) (mem_wfL hw hx) pre' q' hq') q hq
      exact ⟨JV.ofNat j :: r, by simp, ValidPath.idx xs j w r hj hv⟩
    | obj fs =>
      simp only [JV.pathsFrom] at hq
      simp only [JV.size] at hs
      simp only [JV.WF] at hw
      obtain ⟨f, r, hf, rfl, hv⟩ := pathsObj_spec pre fs
        (fun f hf pre' q' hq' => ih f.2 (by have := mem_sizeF hf; omega) (mem_wfF hw.2 hf) pre' q' hq') q hq
      exact ⟨.str f.1 :: r, rfl, ValidPath.key fs f.1 f.2 r (lookup_of_nodup_mem hw.1 hf) hv⟩
    | null => simp [JV.pathsFrom] at hq
    | bool _ => simp [JV.pathsFrom] at hq
    | num _ => simp [JV.pathsFrom] at hq
    | str _ => simp [JV.pathsFrom] at hq

/-- **every `p ∈ paths v` of a duplicate-free value is a valid path** (so the laws above hold for
all of them) -/
theorem paths_valid (v : JV N) (hw : v.WF) (p : List (JV N)) (hp : p ∈ v.paths) : ValidPath v p := by
  obtain ⟨r, rfl, hv⟩ := pathsFrom_spec v.size v (Nat.le_refl _) hw [] p hp
  simpa using hv

end SV.Jq
