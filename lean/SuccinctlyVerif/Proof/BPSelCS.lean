/-
Proof/BPSelCS — pieces for `WithCsPoppy::select1`: directory lengths, raw vs counted cumulative
ones, existence of the word holding the k-th open, the 9-bit offset walk (C04).
-/
import SuccinctlyVerif.Proof.BPSelWS2
import SuccinctlyVerif.Proof.BPPart
namespace SV.BPR
open SV SV.BP SV.BPM SV.BPP SV.BPS SV.BPC SV.BPQ

/-! ### lengths of the rank directory -/

theorem rankSpec_length (st : List (BitVec 64)) (len : Nat) (blks : List (List Nat)) (cum : Nat) :
    (rankSpec st len blks cum).1.length = blks.length ∧ (rankSpec st len blks cum).2.1.length = blks.length := by
  induction blks generalizing cum with
  | nil => simp [rankSpec]
  | cons b r ih =>
    simp only [rankSpec, List.length_cons]
    have := ih ((cum + (rankBlock st len b 0 0 0).2) % 2 ^ 64)
    omega

theorem chunks8_length (f s m : Nat) (hf : m ≤ f) : (chunksOf 8 f (List.range' s m)).length = (m + 7) / 8 := by
  induction f generalizing s m with
  | zero =>
    have : m = 0 := by omega
    subst this; simp [chunksOf]
  | succ f ih =>
    by_cases hm : m = 0
    · subst hm; simp [chunksOf]
    · rw [chunksOf_range' 8 f s m (by omega), List.length_cons, ih (s + 8) (m - 8) (by omega)]
      omega

theorem buildRank_lengths (st : List (BitVec 64)) (len : Nat) :
    (buildRank st len).1.length = (st.length + 7) / 8 ∧ (buildRank st len).2.1.length = (st.length + 7) / 8 := by
  unfold buildRank
  have h8 : Gen.BP_WORDS_PER_RANK_BLOCK = 8 := rfl
  rw [h8, List.range_eq_range', rankLoop_eq]
  have := rankSpec_length st len (chunksOf 8 st.length (List.range' 0 st.length)) 0
  have hc := chunks8_length st.length 0 st.length (Nat.le_refl _)
  simp only [List.reverse_nil, List.nil_append]
  omega

/-! ### raw and counted cumulative ones agree before the final word -/

theorem rawCum_eq_sumC (st : List (BitVec 64)) (len a : Nat) (ha : a < st.length) :
    rawCum st a = sumC st len 0 a := by
  rw [sumC_eq_take st len a (Or.inl ha)]
  unfold rawCum
  congr 1
  apply List.map_congr_left
  intro w _; exact Kernels.popc_eq_popcount w

theorem cw_eq_popc (st : List (BitVec 64)) (len a : Nat) (ha : a + 1 < st.length) :
    cw st len a = popc (st.getD a 0) := by
  rw [cw_eq_popcount st len a (Or.inl ha)]
  exact (Kernels.popc_eq_popcount _).symm

/-! ### the word holding the k-th open -/

theorem holds_exists_aux (st : List (BitVec 64)) (len k m : Nat) (hm : m ≤ st.length) (hk : k < sumC st len 0 m) :
    ∃ w, Holds st len k w := by
  induction m with
  | zero => simp [sumC, sumL] at hk
  | succ m ih =>
    by_cases hlt : k < sumC st len 0 m
    · exact ih (by omega) hlt
    · exact ⟨m, by omega, by omega, hk⟩

/-! ### the 9-bit offset walk -/

/-- `csWordLoop` over the packed offsets of block `b` finds the word of the block that holds the
`k`-th open, when that word is `8b + d` with `d ≤ m`. -/
theorem csWordLoop_spec (st : List (BitVec 64)) (len b k d m : Nat)
    (hd : d ≤ m) (hm : m < min 8 (st.length - 8 * b))
    (h1 : sumC st len 0 (8 * b + d) ≤ k) (h2 : k < sumC st len 0 (8 * b + d + 1)) :
    csWordLoop (blockPacked st len (8 * b) (st.length - 8 * b)) (sumC st len 0 (8 * b)) k m =
      (d, sumC st len 0 (8 * b + d)) := by
  induction m with
  | zero =>
    have : d = 0 := by omega
    subst this
    simp [csWordLoop]
  | succ m ih =>
    unfold csWordLoop
    have hext := blockPacked_extract st len (8 * b) (st.length - 8 * b) (m + 1) (by omega) (by omega)
    simp only [Nat.add_sub_cancel] at hext
    simp only [hext]
    have hsum : sumC st len 0 (8 * b) + sumC st len (8 * b) (m + 1) = sumC st len 0 (8 * b + (m + 1)) := by
      rw [sumC_add st len 0 (8 * b) (m + 1)]; simp
    rw [hsum]
    by_cases hdm : d = m + 1
    · subst hdm
      simp [h1]
    · have hmono := sumC_mono st len (8 * b + d + 1) (8 * b + (m + 1)) (by omega)
      have hnot : ¬ sumC st len 0 (8 * b + (m + 1)) ≤ k := by omega
      simp only [hnot, if_false]
      exact ih (by omega) (by omega)

end SV.BPR
