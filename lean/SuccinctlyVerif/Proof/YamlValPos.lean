/-
Proof/YamlPos — the validator's cursor bookkeeping ends at the naive line/column of its offset (C18).
-/
import SuccinctlyVerif.Spec.YamlValPos
import SuccinctlyVerif.Model.YamlValPos
namespace SV.YamlVPos

/-- Invariant of the cursor: the naive scan of the consumed prefix is at the cursor's line/column,
and the cursor never sits between the CR and the LF of a CRLF. -/
def Inv (bs : List UInt8) (c : Cursor) : Prop :=
  ∃ cr, scan (bs.take c.off) = (c.line, c.col, cr) ∧ (cr = true → bs[c.off]? ≠ some 10)

theorem inv_init (bs : List UInt8) : Inv bs ⟨0, 1, 1⟩ := ⟨false, by simp [scan], by simp⟩

theorem scan_take_succ (bs : List UInt8) (n : Nat) (b : UInt8) (h : bs[n]? = some b) :
    scan (bs.take (n + 1)) = stepB (scan (bs.take n)) b := by
  simp [scan, List.take_add_one, h, List.foldl_append]

theorem inv_step (bs : List UInt8) (c c' : Cursor) (op : Op) (hi : Inv bs c) (hs : step bs c op = some c') :
    Inv bs c' := by
  obtain ⟨cr, hsc, hcr⟩ := hi
  cases op with
  | adv =>
    simp only [step] at hs
    split at hs
    · rename_i b hb
      split at hs
      · cases hs
      · rename_i hnb
        cases hs
        have h10 : b ≠ 10 := by intro e; subst e; simp [isBreak] at hnb
        have h13 : b ≠ 13 := by intro e; subst e; simp [isBreak] at hnb
        refine ⟨false, ?_, by simp⟩
        rw [scan_take_succ bs c.off b hb, hsc]
        simp [stepB, h10, h13]
    · cases hs
  | brk =>
    simp only [step] at hs
    have hlen : (lineBreakLen bs c.off = 2 ∧ bs[c.off]? = some 13 ∧ bs[c.off + 1]? = some 10)
        ∨ (lineBreakLen bs c.off = 1 ∧ bs[c.off]? = some 13 ∧ bs[c.off + 1]? ≠ some 10)
        ∨ (lineBreakLen bs c.off = 1 ∧ bs[c.off]? = some 10)
        ∨ lineBreakLen bs c.off = 0 := by
      unfold lineBreakLen
      cases h0 : bs[c.off]? with
      | none => simp
      | some x =>
        by_cases hx13 : x = 13
        · subst hx13
          cases h1 : bs[c.off + 1]? with
          | none => simp
          | some y =>
            by_cases hy : y = 10
            · subst hy; simp
            · right; left; simp [hy]
        · by_cases hx10 : x = 10
          · subst hx10; right; right; left; simp
          · right; right; right
            split <;> simp_all
    rcases hlen with ⟨hn, h0, h1⟩ | ⟨hn, h0, h1⟩ | ⟨hn, h0⟩ | hn
    · simp only [hn] at hs; cases hs
      refine ⟨false, ?_, by simp⟩
      show scan (List.take (c.off + 1 + 1) bs) = _
      rw [scan_take_succ bs (c.off + 1) 10 h1, scan_take_succ bs c.off 13 h0, hsc]
      simp [stepB]
    · simp only [hn] at hs; cases hs
      refine ⟨true, ?_, ?_⟩
      · rw [scan_take_succ bs c.off 13 h0, hsc]; simp [stepB]
      · intro _; exact h1
    · simp only [hn] at hs; cases hs
      have : cr = false := by
        cases cr with
        | false => rfl
        | true => exact absurd h0 (hcr rfl)
      subst this
      refine ⟨false, ?_, by simp⟩
      rw [scan_take_succ bs c.off 10 h0, hsc]; simp [stepB]
    · simp only [hn] at hs; cases hs; exact ⟨cr, hsc, hcr⟩

theorem inv_run (bs : List UInt8) (ops : List Op) (c c' : Cursor) (hi : Inv bs c) (hr : run bs c ops = some c') :
    Inv bs c' := by
  induction ops generalizing c with
  | nil => simp [run] at hr; subst hr; exact hi
  | cons op ops ih =>
    simp only [run] at hr
    cases hs : step bs c op with
    | none => simp [hs] at hr
    | some c1 =>
      simp only [hs, Option.bind_some] at hr
      exact ih c1 (inv_step bs c c1 op hi hs) hr

/-- Positions reported by the validator's single error constructor: after any sequence of cursor
movements from the initial cursor, `(line, column)` is the naive line/column of `offset`. -/
theorem run_linecol (bs : List UInt8) (ops : List Op) (c : Cursor) (h : run bs ⟨0, 1, 1⟩ ops = some c) :
    (c.line, c.col) = lineCol bs c.off := by
  obtain ⟨cr, hsc, _⟩ := inv_run bs ops ⟨0, 1, 1⟩ c (inv_init bs) h
  simp [lineCol, hsc]

end SV.YamlVPos
