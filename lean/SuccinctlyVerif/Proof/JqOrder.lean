/-
Proof/JqOrder — jq's order `JV.cmp` is a total preorder on well-formed (duplicate-free) values, for
every number carrier satisfying `LawfulNum`.

Plan: (1) lexicographic comparison of two lists under a comparator that is a preorder on their
elements is reflexive / anti-symmetric (`swap`) / transitive; (2) `cmpArr` is that lexicographic
comparison; for duplicate-free objects with the same sorted key list `K`, the object comparison is
the lexicographic comparison of the value lists taken along `K`; (3) induction on the size of the
values.
-/
import SuccinctlyVerif.Model.JqValue
namespace SV.Jq

/-! ### orderings -/

theorem Ordering.swap_eq_gt {o : Ordering} : o.swap = .gt ↔ o = .lt := by cases o <;> simp [Ordering.swap]
theorem Ordering.swap_eq_lt {o : Ordering} : o.swap = .lt ↔ o = .gt := by cases o <;> simp [Ordering.swap]
theorem Ordering.swap_eq_eq {o : Ordering} : o.swap = .eq ↔ o = .eq := by cases o <;> simp [Ordering.swap]

/-- a comparator restricted to a set `S` is a total preorder -/
structure PreorderOn {α : Type} (c : α → α → Ordering) (S : α → Prop) : Prop where
  refl : ∀ a, S a → c a a = .eq
  swap : ∀ a b, S a → S b → c b a = (c a b).swap
  trans : ∀ a b d, S a → S b → S d → c a b ≠ .gt → c b d ≠ .gt → c a d ≠ .gt

namespace PreorderOn
variable {α : Type} {c : α → α → Ordering} {S : α → Prop} (h : PreorderOn c S)
include h

theorem eq_trans {a b d : α} (ha : S a) (hb : S b) (hd : S d) (h1 : c a b = .eq) (h2 : c b d = .eq) :
    c a d = .eq := by
  have le1 : c a d ≠ .gt := h.trans a b d ha hb hd (by simp [h1]) (by simp [h2])
  have h1' : c b a = .eq := by rw [h.swap a b ha hb, h1]; rfl
  have h2' : c d b = .eq := by rw [h.swap b d hb hd, h2]; rfl
  have le2 : c d a ≠ .gt := h.trans d b a hd hb ha (by simp [h2']) (by simp [h1'])
  rw [h.swap a d ha hd] at le2
  cases hc : c a d <;> simp_all [Ordering.swap]

/-- `a ≤ b`, `b < d` ⇒ `a < d` … stated as: `c a d ≠ gt` and `c a d = eq → c b d = eq` fails -/
theorem lt_of_le_of_lt {a b d : α} (ha : S a) (hb : S b) (hd : S d) (h1 : c a b ≠ .gt) (h2 : c b d = .lt) :
    c a d = .lt := by
  have le : c a d ≠ .gt := h.trans a b d ha hb hd h1 (by simp [h2])
  cases hc : c a d with
  | lt => rfl
  | gt => exact absurd hc le
  | eq =>
    -- then d ≤ a ≤ b, so d ≤ b, contradicting b < d
    have hda : c d a ≠ .gt := by rw [h.swap a d ha hd, hc]; simp [Ordering.swap]
    have hdb : c d b ≠ .gt := h.trans d a b hd ha hb hda h1
    rw [h.swap b d hb hd, h2] at hdb
    simp [Ordering.swap] at hdb

theorem lt_of_lt_of_le {a b d : α} (ha : S a) (hb : S b) (hd : S d) (h1 : c a b = .lt) (h2 : c b d ≠ .gt) :
    c a d = .lt := by
  have le : c a d ≠ .gt := h.trans a b d ha hb hd (by simp [h1]) h2
  cases hc : c a d with
  | lt => rfl
  | gt => exact absurd hc le
  | eq =>
    have hda : c d a ≠ .gt := by rw [h.swap a d ha hd, hc]; simp [Ordering.swap]
    have hba : c b a ≠ .gt := h.trans b d a hb hd ha h2 hda
    rw [h.swap a b ha hb, h1] at hba
    simp [Ordering.swap] at hba

end PreorderOn

/-! ### lexicographic comparison -/

def lexCmp {α : Type} (c : α → α → Ordering) : List α → List α → Ordering
  | [], [] => .eq
  | [], _ :: _ => .lt
  | _ :: _, [] => .gt
  | x :: xs, y :: ys => (c x y).then (lexCmp c xs ys)

section lex
variable {α : Type} {c : α → α → Ordering} {S : α → Prop}

theorem lexCmp_refl (h : PreorderOn c S) (xs : List α) (hx : ∀ x ∈ xs, S x) : lexCmp c xs xs = .eq := by
  induction xs with
  | nil => rfl
  | cons x xs ih =>
    simp [lexCmp, h.refl x (hx x (by simp)), Ordering.then, ih (fun y hy => hx y (by simp [hy]))]

theorem lexCmp_swap (h : PreorderOn c S) (xs ys : List α) (hx : ∀ x ∈ xs, S x) (hy : ∀ y ∈ ys, S y) :
    lexCmp c ys xs = (lexCmp c xs ys).swap := by
  induction xs generalizing ys with
  | nil => cases ys <;> simp [lexCmp, Ordering.swap]
  | cons x xs ih =>
    cases ys with
    | nil => simp [lexCmp, Ordering.swap]
    | cons y ys =>
      simp only [lexCmp]
      rw [h.swap x y (hx x (by simp)) (hy y (by simp)),
        ih ys (fun a ha => hx a (by simp [ha])) (fun a ha => hy a (by simp [ha]))]
      cases c x y <;> simp [Ordering.then, Ordering.swap]

theorem lexCmp_trans (h : PreorderOn c S) (xs ys zs : List α) (hx : ∀ x ∈ xs, S x) (hy : ∀ y ∈ ys, S y)
    (hz : ∀ z ∈ zs, S z) (h1 : lexCmp c xs ys ≠ .gt) (h2 : lexCmp c ys zs ≠ .gt) :
    lexCmp c xs zs ≠ .gt := by
  induction xs generalizing ys zs with
  | nil => cases zs <;> simp [lexCmp]
  | cons x xs ih =>
    cases ys with
    | nil => simp [lexCmp] at h1
    | cons y ys =>
      cases zs with
      | nil => simp [lexCmp] at h2
      | cons z zs =>
        have sx := hx x (by simp); have sy := hy y (by simp); have sz := hz z (by simp)
        simp only [lexCmp] at h1 h2 ⊢
        cases hxy : c x y with
        | gt => simp [hxy, Ordering.then] at h1
        | lt =>
          cases hyz : c y z with
          | gt => simp [hyz, Ordering.then] at h2
          | lt => rw [h.lt_of_lt_of_le sx sy sz hxy (by simp [hyz])]; simp [Ordering.then]
          | eq => rw [h.lt_of_lt_of_le sx sy sz hxy (by simp [hyz])]; simp [Ordering.then]
        | eq =>
          cases hyz : c y z with
          | gt => simp [hyz, Ordering.then] at h2
          | lt => rw [h.lt_of_le_of_lt sx sy sz (by simp [hxy]) hyz]; simp [Ordering.then]
          | eq =>
            rw [h.eq_trans sx sy sz hxy hyz]
            simp only [Ordering.then]
            simp only [hxy, hyz, Ordering.then] at h1 h2
            exact ih ys zs (fun a ha => hx a (by simp [ha])) (fun a ha => hy a (by simp [ha]))
              (fun a ha => hz a (by simp [ha])) h1 h2

/-- a lexicographic comparison is itself a preorder on lists of `S`-elements -/
theorem lexCmp_preorder (h : PreorderOn c S) : PreorderOn (lexCmp c) (fun l => ∀ x ∈ l, S x) :=
  ⟨fun a ha => lexCmp_refl h a ha, fun a b ha hb => lexCmp_swap h a b ha hb,
   fun a b d ha hb hd => lexCmp_trans h a b d ha hb hd⟩

end lex

/-! ### strings and key lists -/

theorem strCmp_preorder : PreorderOn JV.strCmp (fun _ => True) where
  refl a _ := by simp [JV.strCmp, Std.ReflCmp.compare_self]
  swap a b _ _ := by
    simp only [JV.strCmp]
    rw [Std.OrientedCmp.eq_swap (cmp := (compare : String → String → Ordering)) (a := b) (b := a)]
  trans a b d _ _ _ h1 h2 := by
    simp only [JV.strCmp] at *
    intro hgt
    have : compare a d = .gt := hgt
    have h1' : (compare a b).isLE := by cases hc : compare a b <;> simp_all [Ordering.isLE]
    have h2' : (compare b d).isLE := by cases hc : compare b d <;> simp_all [Ordering.isLE]
    have := Std.TransCmp.isLE_trans (cmp := (compare : String → String → Ordering)) h1' h2'
    simp_all [Ordering.isLE]

theorem cmpKeys_eq_lexCmp (xs ys : List String) : JV.cmpKeys xs ys = lexCmp JV.strCmp xs ys := by
  induction xs generalizing ys with
  | nil => cases ys <;> rfl
  | cons x xs ih => cases ys with
    | nil => rfl
    | cons y ys => simp [JV.cmpKeys, lexCmp, ih]

theorem cmpKeys_preorder : PreorderOn JV.cmpKeys (fun _ => True) := by
  have h := lexCmp_preorder strCmp_preorder
  have e : JV.cmpKeys = lexCmp JV.strCmp := by funext a b; exact cmpKeys_eq_lexCmp a b
  rw [e]
  exact ⟨fun a _ => h.refl a (by simp), fun a b _ _ => h.swap a b (by simp) (by simp),
    fun a b d _ _ _ => h.trans a b d (by simp) (by simp) (by simp)⟩

theorem strCmp_eq_iff (a b : String) : JV.strCmp a b = .eq ↔ a = b := by
  simp [JV.strCmp, Std.LawfulEqCmp.compare_eq_iff_eq]

theorem cmpKeys_eq_iff (xs ys : List String) : JV.cmpKeys xs ys = .eq ↔ xs = ys := by
  induction xs generalizing ys with
  | nil => cases ys <;> simp [JV.cmpKeys]
  | cons x xs ih =>
    cases ys with
    | nil => simp [JV.cmpKeys]
    | cons y ys =>
      simp only [JV.cmpKeys, List.cons.injEq]
      cases h : JV.strCmp x y <;> simp [Ordering.then, ih, ← strCmp_eq_iff, h]


/-! ### size and well-formedness of values -/
section wf
variable {N : Type}

mutual
def JV.size : JV N → Nat
  | .arr xs => 1 + sizeL xs
  | .obj fs => 1 + sizeF fs
  | _ => 1
def sizeL : List (JV N) → Nat
  | [] => 0
  | x :: xs => x.size + sizeL xs
def sizeF : List (String × JV N) → Nat
  | [] => 0
  | (_, v) :: r => v.size + sizeF r
end

mutual
/-- duplicate-free at every level -/
def JV.WF : JV N → Prop
  | .arr xs => wfL xs
  | .obj fs => (fs.map (·.1)).Nodup ∧ wfF fs
  | _ => True
def wfL : List (JV N) → Prop
  | [] => True
  | x :: xs => x.WF ∧ wfL xs
def wfF : List (String × JV N) → Prop
  | [] => True
  | (_, v) :: r => v.WF ∧ wfF r
end

theorem mem_sizeL {xs : List (JV N)} {x : JV N} (h : x ∈ xs) : x.size ≤ sizeL xs := by
  induction xs with
  | nil => cases h
  | cons y ys ih =>
    simp only [sizeL]
    rcases List.mem_cons.mp h with rfl | h
    · omega
    · have := ih h; omega

theorem mem_wfL {xs : List (JV N)} {x : JV N} (hw : wfL xs) (h : x ∈ xs) : x.WF := by
  induction xs with
  | nil => cases h
  | cons y ys ih =>
    simp only [wfL] at hw
    rcases List.mem_cons.mp h with rfl | h
    · exact hw.1
    · exact ih hw.2 h

theorem lookup_some_of_mem {fs : List (String × JV N)} {k : String} (h : k ∈ fs.map (·.1)) :
    ∃ v, JV.lookup fs k = some v := by
  induction fs with
  | nil => simp at h
  | cons f rest ih =>
    obtain ⟨k', v'⟩ := f
    simp only [JV.lookup]
    by_cases hk : (k' == k) = true
    · exact ⟨v', by simp [hk]⟩
    · simp only [hk]
      simp only [List.map_cons, List.mem_cons] at h
      rcases h with h | h
      · exact absurd (by simpa using h.symm) hk
      · simpa using ih h

theorem lookup_size {fs : List (String × JV N)} {k : String} {v : JV N} (h : JV.lookup fs k = some v) :
    v.size ≤ sizeF fs := by
  induction fs with
  | nil => simp [JV.lookup] at h
  | cons f rest ih =>
    obtain ⟨k', v'⟩ := f
    simp only [JV.lookup] at h
    simp only [sizeF]
    split at h
    · cases h; omega
    · have := ih h; omega

theorem lookup_wf {fs : List (String × JV N)} {k : String} {v : JV N} (hw : wfF fs)
    (h : JV.lookup fs k = some v) : v.WF := by
  induction fs with
  | nil => simp [JV.lookup] at h
  | cons f rest ih =>
    obtain ⟨k', v'⟩ := f
    simp only [JV.lookup] at h
    simp only [wfF] at hw
    split at h
    · cases h; exact hw.1
    · exact ih hw.2 h

/-- value of a key, `null` when absent (as `cmpFields` reads the other object) -/
def getF (fs : List (String × JV N)) (k : String) : JV N := (JV.lookup fs k).getD .null

theorem insertKey_mem (k x : String) (l : List String) : x ∈ JV.insertKey k l ↔ x = k ∨ x ∈ l := by
  induction l with
  | nil => simp [JV.insertKey]
  | cons y ys ih =>
    simp only [JV.insertKey]
    split
    · simp only [List.mem_cons, ih]; constructor
      · rintro (h | h | h) <;> simp [h]
      · rintro (h | h | h) <;> simp [h]
    · simp

theorem sortKeys_mem (x : String) (l : List String) : x ∈ JV.sortKeys l ↔ x ∈ l := by
  induction l with
  | nil => simp [JV.sortKeys]
  | cons y ys ih =>
    have : JV.sortKeys (y :: ys) = JV.insertKey y (JV.sortKeys ys) := by simp [JV.sortKeys]
    rw [this, insertKey_mem, ih]; simp

end wf

/-! ### the object comparison as a lexicographic comparison along the sorted key list -/
section objects
variable {N : Type} [NumOps N]

theorem cmpArr_eq_lexCmp (xs ys : List (JV N)) : cmpArr xs ys = lexCmp JV.cmp xs ys := by
  induction xs generalizing ys with
  | nil => cases ys <;> simp [cmpArr, lexCmp]
  | cons x xs ih => cases ys with
    | nil => simp [cmpArr, lexCmp]
    | cons y ys => simp [cmpArr, lexCmp, ih]

theorem cmpFields_eq_map (fs gs : List (String × JV N)) :
    cmpFields fs gs = fs.map (fun f => (f.1, JV.cmp f.2 (getF gs f.1))) := by
  induction fs with
  | nil => simp [cmpFields]
  | cons f rest ih => obtain ⟨k, v⟩ := f; simp [cmpFields, ih, getF]

theorem lookup_of_nodup_mem {fs : List (String × JV N)} (hn : (fs.map (·.1)).Nodup) {f : String × JV N}
    (hf : f ∈ fs) : JV.lookup fs f.1 = some f.2 := by
  induction fs with
  | nil => cases hf
  | cons g rest ih =>
    obtain ⟨k', v'⟩ := g
    simp only [List.map_cons, List.nodup_cons] at hn
    simp only [JV.lookup]
    rcases List.mem_cons.mp hf with rfl | hf
    · simp
    · have hne : (k' == f.1) = false := by
        have : f.1 ∈ rest.map (·.1) := List.mem_map_of_mem (f := (·.1)) hf
        have : k' ≠ f.1 := fun e => hn.1 (e ▸ this)
        simpa using this
      simp [hne, ih hn.2 hf]

theorem insertKO_map (G : String → Ordering) (k : String) (l : List String) :
    insertKO (k, G k) (l.map fun x => (x, G x)) = (JV.insertKey k l).map fun x => (x, G x) := by
  induction l with
  | nil => simp [insertKO, JV.insertKey]
  | cons y ys ih =>
    simp only [List.map_cons, insertKO, JV.insertKey]
    split <;> simp [ih]

theorem foldr_insertKO_map (G : String → Ordering) (l : List String) :
    (l.map fun x => (x, G x)).foldr insertKO [] = (JV.sortKeys l).map fun x => (x, G x) := by
  induction l with
  | nil => simp [JV.sortKeys]
  | cons y ys ih =>
    have : JV.sortKeys (y :: ys) = JV.insertKey y (JV.sortKeys ys) := by simp [JV.sortKeys]
    simp only [List.map_cons, List.foldr_cons, ih, this, insertKO_map]

theorem firstNonEq_map (a b : String → JV N) (l : List String) :
    firstNonEq (l.map fun k => (k, JV.cmp (a k) (b k))) = lexCmp JV.cmp (l.map a) (l.map b) := by
  induction l with
  | nil => simp [firstNonEq, lexCmp]
  | cons k ks ih =>
    simp only [List.map_cons, lexCmp]
    cases h : JV.cmp (a k) (b k) <;> simp [firstNonEq, h, Ordering.then, ih]

def keysOf (fs : List (String × JV N)) : List String := JV.sortKeys (fs.map (·.1))

/-- the object case of `JV.cmp` for a duplicate-free left object -/
theorem cmp_obj (fs gs : List (String × JV N)) (hn : (fs.map (·.1)).Nodup) :
    JV.cmp (.obj fs) (.obj gs) =
      match JV.cmpKeys (keysOf fs) (keysOf gs) with
      | .eq => lexCmp JV.cmp ((keysOf fs).map (getF fs)) ((keysOf fs).map (getF gs))
      | o => o := by
  have h1 : cmpFields fs gs = (fs.map (·.1)).map (fun k => (k, JV.cmp (getF fs k) (getF gs k))) := by
    rw [cmpFields_eq_map, List.map_map]
    apply List.map_congr_left
    intro f hf
    simp [getF, lookup_of_nodup_mem hn hf]
  simp only [JV.cmp, keysOf]
  rw [h1, foldr_insertKO_map (fun k => JV.cmp (getF fs k) (getF gs k)), firstNonEq_map]
  rfl

theorem cmp_of_rank_lt (a b : JV N) (h : a.rank < b.rank) : JV.cmp a b = .lt := by
  rcases a with _ | (_|_) | _ | _ | _ | _ <;> rcases b with _ | (_|_) | _ | _ | _ | _ <;>
    simp_all [JV.cmp, JV.rank, compare, compareOfLessAndEq]

theorem cmp_of_rank_gt (a b : JV N) (h : b.rank < a.rank) : JV.cmp a b = .gt := by
  rcases a with _ | (_|_) | _ | _ | _ | _ <;> rcases b with _ | (_|_) | _ | _ | _ | _ <;>
    simp_all [JV.cmp, JV.rank, compare, compareOfLessAndEq] <;> omega

/-- `a ≤ b` in jq's order implies `rank a ≤ rank b` -/
theorem rank_le_of_cmp (a b : JV N) (h : JV.cmp a b ≠ .gt) : a.rank ≤ b.rank := by
  by_cases hr : b.rank < a.rank
  · exact absurd (cmp_of_rank_gt a b hr) h
  · omega

/-- equal ranks: same constructor (and equal booleans) -/
theorem same_kind_of_rank_eq (a b : JV N) (h : a.rank = b.rank) :
    (a = .null ∧ b = .null) ∨ (∃ x, a = .bool x ∧ b = .bool x) ∨ (∃ x y, a = .num x ∧ b = .num y) ∨
    (∃ x y, a = .str x ∧ b = .str y) ∨ (∃ x y, a = .arr x ∧ b = .arr y) ∨ (∃ x y, a = .obj x ∧ b = .obj y) := by
  rcases a with _ | (_|_) | _ | _ | _ | _ <;> rcases b with _ | (_|_) | _ | _ | _ | _ <;>
    simp_all [JV.rank]

end objects

/-! ### the order laws -/
section laws
variable {N : Type} [NumOps N] [LawfulNum N]

def Good (n : Nat) (v : JV N) : Prop := v.WF ∧ v.size ≤ n

theorem good_elems {n : Nat} {xs : List (JV N)} (h : Good (n + 1) (.arr xs)) : ∀ x ∈ xs, Good n x := by
  intro x hx
  have hs := mem_sizeL hx
  simp only [Good, JV.WF, JV.size] at h
  exact ⟨mem_wfL h.1 hx, by omega⟩

theorem good_vals {n : Nat} {fs : List (String × JV N)} (h : Good (n + 1) (.obj fs)) :
    ∀ x ∈ (keysOf fs).map (getF fs), Good n x := by
  intro x hx
  obtain ⟨k, hk, rfl⟩ := List.mem_map.mp hx
  have hk' : k ∈ fs.map (·.1) := (sortKeys_mem k _).mp hk
  obtain ⟨v, hv⟩ := lookup_some_of_mem hk'
  simp only [Good, JV.WF, JV.size] at h
  have hs := lookup_size hv
  simp only [getF, hv, Option.getD_some]
  exact ⟨lookup_wf h.1.2 hv, by omega⟩

/-- **jq's order is a total preorder on duplicate-free values**, by induction on their size. -/
theorem cmp_preorder_sized (n : Nat) : PreorderOn (JV.cmp (N := N)) (Good n) := by
  induction n with
  | zero =>
    have h0 : ∀ v : JV N, ¬ Good 0 v := by
      intro v h; cases v <;> simp [Good, JV.size] at h <;> omega
    exact ⟨fun a ha => absurd ha (h0 a), fun a _ ha => absurd ha (h0 a), fun a _ _ ha => absurd ha (h0 a)⟩
  | succ n ih =>
    have lexP := lexCmp_preorder ih
    have keyP := cmpKeys_preorder
    refine ⟨?_, ?_, ?_⟩
    · -- reflexivity
      intro a ha
      cases a with
      | null => simp [JV.cmp]
      | bool b => cases b <;> simp [JV.cmp, compare, compareOfLessAndEq]
      | num x => simp [JV.cmp, LawfulNum.cmp_refl]
      | str s => simpa [JV.cmp] using strCmp_preorder.refl s trivial
      | arr xs =>
        simp only [JV.cmp, cmpArr_eq_lexCmp]
        exact lexP.refl xs (good_elems ha)
      | obj fs =>
        rw [cmp_obj fs fs ha.1.1, keyP.refl _ trivial]
        exact lexP.refl _ (good_vals ha)
    · -- swap
      intro a b ha hb
      by_cases hr : a.rank = b.rank
      · rcases same_kind_of_rank_eq a b hr with ⟨rfl, rfl⟩ | ⟨x, rfl, rfl⟩ | ⟨x, y, rfl, rfl⟩ | ⟨x, y, rfl, rfl⟩ |
          ⟨xs, ys, rfl, rfl⟩ | ⟨fs, gs, rfl, rfl⟩
        · simp [JV.cmp, Ordering.swap]
        · cases x <;> simp [JV.cmp, compare, compareOfLessAndEq, Ordering.swap]
        · simp [JV.cmp, LawfulNum.cmp_swap x y]
        · simpa [JV.cmp] using strCmp_preorder.swap x y trivial trivial
        · simp only [JV.cmp, cmpArr_eq_lexCmp]
          exact lexP.swap xs ys (good_elems ha) (good_elems hb)
        · rw [cmp_obj fs gs ha.1.1, cmp_obj gs fs hb.1.1, keyP.swap (keysOf fs) (keysOf gs) trivial trivial]
          cases hk : JV.cmpKeys (keysOf fs) (keysOf gs) with
          | lt => simp [Ordering.swap]
          | gt => simp [Ordering.swap]
          | eq =>
            have hke : keysOf fs = keysOf gs := (cmpKeys_eq_iff _ _).mp hk
            simp only [Ordering.swap]
            have := lexP.swap ((keysOf fs).map (getF fs)) ((keysOf fs).map (getF gs)) (good_vals ha)
              (by rw [hke]; exact good_vals hb)
            rw [← hke]
            exact this
      · rcases Nat.lt_or_gt_of_ne hr with h | h
        · rw [cmp_of_rank_lt a b h, cmp_of_rank_gt b a h]; rfl
        · rw [cmp_of_rank_gt a b h, cmp_of_rank_lt b a h]; rfl
    · -- transitivity
      intro a b d ha hb hd h1 h2
      have r1 := rank_le_of_cmp a b h1
      have r2 := rank_le_of_cmp b d h2
      by_cases hr : a.rank < d.rank
      · rw [cmp_of_rank_lt a d hr]; simp
      · have e1 : a.rank = b.rank := by omega
        have e2 : b.rank = d.rank := by omega
        rcases same_kind_of_rank_eq a b e1 with ⟨rfl, rfl⟩ | ⟨x, rfl, rfl⟩ | ⟨x, y, rfl, rfl⟩ | ⟨x, y, rfl, rfl⟩ |
          ⟨xs, ys, rfl, rfl⟩ | ⟨fs, gs, rfl, rfl⟩
        · rcases same_kind_of_rank_eq _ d e2 with ⟨_, rfl⟩ | ⟨_, h, _⟩ | ⟨_, _, h, _⟩ | ⟨_, _, h, _⟩ | ⟨_, _, h, _⟩ | ⟨_, _, h, _⟩ <;>
            first | cases h | simp [JV.cmp]
        · rcases same_kind_of_rank_eq _ d e2 with ⟨h, _⟩ | ⟨z, h, rfl⟩ | ⟨_, _, h, _⟩ | ⟨_, _, h, _⟩ | ⟨_, _, h, _⟩ | ⟨_, _, h, _⟩ <;>
            first | cases h | skip
          exact h2
        · rcases same_kind_of_rank_eq _ d e2 with ⟨h, _⟩ | ⟨_, h, _⟩ | ⟨_, z, h, rfl⟩ | ⟨_, _, h, _⟩ | ⟨_, _, h, _⟩ | ⟨_, _, h, _⟩ <;>
            first | cases h | skip
          simp only [JV.cmp] at h1 h2 ⊢
          exact LawfulNum.cmp_trans x y z h1 h2
        · rcases same_kind_of_rank_eq _ d e2 with ⟨h, _⟩ | ⟨_, h, _⟩ | ⟨_, _, h, _⟩ | ⟨_, z, h, rfl⟩ | ⟨_, _, h, _⟩ | ⟨_, _, h, _⟩ <;>
            first | cases h | skip
          simp only [JV.cmp] at h1 h2 ⊢
          exact strCmp_preorder.trans x y z trivial trivial trivial h1 h2
        · rcases same_kind_of_rank_eq _ d e2 with ⟨h, _⟩ | ⟨_, h, _⟩ | ⟨_, _, h, _⟩ | ⟨_, _, h, _⟩ | ⟨_, zs, h, rfl⟩ | ⟨_, _, h, _⟩ <;>
            first | cases h | skip
          simp only [JV.cmp, cmpArr_eq_lexCmp] at h1 h2 ⊢
          exact lexP.trans xs ys zs (good_elems ha) (good_elems hb) (good_elems hd) h1 h2
        · rcases same_kind_of_rank_eq _ d e2 with ⟨h, _⟩ | ⟨_, h, _⟩ | ⟨_, _, h, _⟩ | ⟨_, _, h, _⟩ | ⟨_, _, h, _⟩ | ⟨_, hs, h, rfl⟩ <;>
            first | cases h | skip
          rw [cmp_obj fs gs ha.1.1] at h1
          rw [cmp_obj gs hs hb.1.1] at h2
          rw [cmp_obj fs hs ha.1.1]
          cases hk1 : JV.cmpKeys (keysOf fs) (keysOf gs) with
          | gt => simp [hk1] at h1
          | lt =>
            have hk2 : JV.cmpKeys (keysOf gs) (keysOf hs) ≠ .gt := by
              intro hgt; simp [hgt] at h2
            rw [keyP.lt_of_lt_of_le trivial trivial trivial hk1 hk2]; simp
          | eq =>
            have e1 : keysOf fs = keysOf gs := (cmpKeys_eq_iff _ _).mp hk1
            cases hk2 : JV.cmpKeys (keysOf gs) (keysOf hs) with
            | gt => simp [hk2] at h2
            | lt =>
              have : JV.cmpKeys (keysOf fs) (keysOf hs) = .lt := by rw [e1]; exact hk2
              rw [this]; simp
            | eq =>
              have e2 : keysOf gs = keysOf hs := (cmpKeys_eq_iff _ _).mp hk2
              have : JV.cmpKeys (keysOf fs) (keysOf hs) = .eq := by rw [e1]; exact hk2
              simp only [this]
              simp only [hk1] at h1
              simp only [hk2] at h2
              rw [← e1] at h2
              exact lexP.trans _ _ _ (good_vals ha) (by rw [e1]; exact good_vals hb)
                (by rw [e1, e2]; exact good_vals hd) h1 h2

/-- **`JV.cmp` is a total preorder on all duplicate-free values.** -/
theorem cmp_preorder : PreorderOn (JV.cmp (N := N)) JV.WF :=
  ⟨fun a ha => (cmp_preorder_sized a.size).refl a ⟨ha, Nat.le_refl _⟩,
   fun a b ha hb => (cmp_preorder_sized (max a.size b.size)).swap a b ⟨ha, Nat.le_max_left _ _⟩ ⟨hb, Nat.le_max_right _ _⟩,
   fun a b d ha hb hd => (cmp_preorder_sized (max a.size (max b.size d.size))).trans a b d
     ⟨ha, Nat.le_max_left _ _⟩ ⟨hb, by omega⟩ ⟨hd, by omega⟩⟩

end laws

end SV.Jq
