/-
Proof/JsonNumber — `validate_number` accepts exactly `NumberLit` (soundness and completeness).
-/
import SuccinctlyVerif.Proof.JsonBase
namespace SV.Json.Model
open SV.Json
set_option linter.unusedSimpArgs false
set_option linter.unusedVariables false

/-- integer part of `validate_number` -/
def numInt (s : St) : Res Unit :=
  match s.peek with
  | some b =>
    if b = 0x30 then
      let s := s.advance
      match s.peek with
      | some d => if isDigit d then .err (s.error .leadingZero) else .ok () s
      | none => .ok () s
    else if isDigit19 b then .ok () s.advance.skipDigits.2
    else .err (s.error (.invalidNumber .minus))
  | none => .err (s.error (.invalidNumber .minus))

/-- optional fraction of `validate_number` -/
def numFrac (s : St) : Res Unit :=
  if s.peek = some 0x2E then
    let (n, s) := s.advance.skipDigits
    if n = 0 then .err (s.error (.invalidNumber .frac)) else .ok () s
  else .ok () s

/-- optional exponent of `validate_number` -/
def numExp (s : St) : Res Unit :=
  match s.peek with
  | some e =>
    if isE e then
      let s := s.advance
      let s := match s.peek with
        | some g => if g = 0x2B ∨ g = 0x2D then s.advance else s
        | none => s
      let (n, s) := s.skipDigits
      if n = 0 then .err (s.error (.invalidNumber .exp)) else .ok () s
    else .ok () s
  | none => .ok () s

theorem validateNumber_eq (s : St) : validateNumber s =
    (match numInt (if s.peek = some 0x2D then s.advance else s) with
     | .err e => .err e
     | .fuel => .fuel
     | .ok _ s =>
       match numFrac s with
       | .err e => .err e
       | .fuel => .fuel
       | .ok _ s => numExp s) := rfl

theorem digit19_digit {b : Byte} (h : isDigit19 b = true) : isDigit b = true := by
  simp [isDigit19, isDigit] at *
  refine ⟨?_, h.2⟩
  have := h.1
  bv_omega

theorem numInt_sound {s s' : St} {u : Unit} (h : numInt s = .ok u s') :
    ∃ ip, IntPart ip ∧ Adv s ip s' := by
  unfold numInt at h
  split at h
  · rename_i b hb
    obtain ⟨r, hr⟩ := peek_eq_some hb
    split at h
    · rename_i hb0
      subst hb0
      have hs' : s' = s.advance := by
        simp only at h
        split at h
        · split at h
          · cases h
          · injection h with _ h; exact h.symm
        · injection h with _ h; exact h.symm
      subst hs'
      exact ⟨[0x30], Or.inl rfl, adv_advance hr⟩
    · split at h
      · rename_i hb19
        injection h with _ h
        subst h
        obtain ⟨ds, hds, hadv, _, _⟩ := adv_skipDigits s.advance
        exact ⟨b :: ds, Or.inr ⟨b, ds, rfl, hb19, hds⟩, (adv_advance hr).trans hadv⟩
      · cases h
  · cases h

theorem numInt_complete (s : St) (ip t : Bytes) (hip : IntPart ip)
    (ht : ∀ c, t.head? = some c → isDigit c = false) (h : s.rest = ip ++ t) :
    ∃ s', numInt s = .ok () s' ∧ s'.rest = t ∧ s'.depth = s.depth := by
  rcases hip with rfl | ⟨d, ds, rfl, hd, hds⟩
  · have hr : s.rest = 0x30 :: t := by simpa using h
    have ha := advance_cons hr
    unfold numInt
    rw [peek_cons hr]
    simp only [if_pos]
    cases ht' : t with
    | nil =>
      have : s.advance.peek = none := by simp [St.peek, ha.1, ht']
      simp [this, ha.1, ha.2.2, ht']
    | cons c t' =>
      have hp : s.advance.peek = some c := by simp [St.peek, ha.1, ht']
      have hc : isDigit c = false := ht c (by simp [ht'])
      simp [hp, hc, ha.1, ha.2.2, ht']
  · have hr : s.rest = d :: (ds ++ t) := by simpa using h
    have ha := advance_cons hr
    have hd0 : d ≠ 0x30 := by
      intro h0; subst h0; simp [isDigit19] at hd
    have := skipDigits_complete s.advance ds t hds ht ha.1
    unfold numInt
    rw [peek_cons hr]
    simp only [if_neg hd0, hd, if_true]
    exact ⟨_, rfl, this.1, by rw [this.2.2, ha.2.2]⟩

theorem numFrac_sound {s s' : St} {u : Unit} (h : numFrac s = .ok u s') :
    ∃ fp, FracPart fp ∧ Adv s fp s' := by
  unfold numFrac at h
  split at h
  · rename_i hp
    obtain ⟨r, hr⟩ := peek_eq_some hp
    obtain ⟨ds, hds, hadv, hn, _⟩ := adv_skipDigits s.advance
    simp only at h
    split at h
    · cases h
    · rename_i hn0
      injection h with _ h
      subst h
      refine ⟨0x2E :: ds, Or.inr ⟨ds, rfl, ?_, hds⟩, (adv_advance hr).trans hadv⟩
      intro hnil; subst hnil; simp at hn; exact hn0 hn
  · injection h with _ h
    subst h
    exact ⟨[], Or.inl rfl, Adv.refl _⟩

theorem numFrac_complete (s : St) (fp t : Bytes) (hfp : FracPart fp)
    (ht : ∀ c, t.head? = some c → isDigit c = false)
    (ht2 : fp = [] → t.head? ≠ some 0x2E) (h : s.rest = fp ++ t) :
    ∃ s', numFrac s = .ok () s' ∧ s'.rest = t ∧ s'.depth = s.depth := by
  rcases hfp with rfl | ⟨ds, rfl, hne, hds⟩
  · have : s.peek ≠ some 0x2E := by
      simp [St.peek, h]; simpa using ht2 rfl
    unfold numFrac
    rw [if_neg this]
    exact ⟨_, rfl, by simpa using h, rfl⟩
  · have hr : s.rest = 0x2E :: (ds ++ t) := by simpa using h
    have ha := advance_cons hr
    have := skipDigits_complete s.advance ds t hds ht ha.1
    unfold numFrac
    rw [if_pos (peek_cons hr)]
    simp only
    have hn : ¬ (s.advance.skipDigits.1 = 0) := by
      rw [this.2.1]; intro h0; exact hne (List.length_eq_zero_iff.mp h0)
    rw [if_neg hn]
    exact ⟨_, rfl, this.1, by rw [this.2.2, ha.2.2]⟩

theorem numExp_sound {s s' : St} {u : Unit} (h : numExp s = .ok u s') :
    ∃ ep, ExpPart ep ∧ Adv s ep s' := by
  unfold numExp at h
  split at h
  · rename_i e he
    obtain ⟨r, hr⟩ := peek_eq_some he
    split at h
    · rename_i hE
      have hE' : e = 0x65 ∨ e = 0x45 := by simpa [isE] using hE
      simp only at h
      -- the optional sign
      have hsign : ∃ sg s1, (sg = [] ∨ sg = [0x2B] ∨ sg = [0x2D]) ∧ Adv s.advance sg s1 ∧
          (match s.advance.peek with
            | some g => if g = 0x2B ∨ g = 0x2D then s.advance.advance else s.advance
            | none => s.advance) = s1 := by
        cases hp : s.advance.peek with
        | none => exact ⟨[], _, Or.inl rfl, Adv.refl _, rfl⟩
        | some g =>
          obtain ⟨r2, hr2⟩ := peek_eq_some hp
          by_cases hg : g = 0x2B ∨ g = 0x2D
          · refine ⟨[g], _, ?_, adv_advance hr2, by simp only [if_pos hg]⟩
            rcases hg with rfl | rfl <;> simp
          · exact ⟨[], _, Or.inl rfl, Adv.refl _, by simp only [if_neg hg]⟩
      obtain ⟨sg, s1, hsg, hadv1, heq⟩ := hsign
      rw [heq] at h
      obtain ⟨ds, hds, hadv, hn, _⟩ := adv_skipDigits s1
      split at h
      · cases h
      · rename_i hn0
        injection h with _ h
        subst h
        refine ⟨e :: (sg ++ ds), Or.inr ⟨e, sg, ds, rfl, hE', hsg, ?_, hds⟩, ?_⟩
        · intro hnil; subst hnil; simp at hn; exact hn0 hn
        · have := (adv_advance hr).trans (hadv1.trans hadv)
          simpa using this
    · injection h with _ h
      subst h
      exact ⟨[], Or.inl rfl, Adv.refl _⟩
  · injection h with _ h
    subst h
    exact ⟨[], Or.inl rfl, Adv.refl _⟩

theorem numExp_complete (s : St) (ep t : Bytes) (hep : ExpPart ep)
    (ht : ∀ c, t.head? = some c → isDigit c = false)
    (ht2 : ep = [] → ∀ c, t.head? = some c → isE c = false) (h : s.rest = ep ++ t) :
    ∃ s', numExp s = .ok () s' ∧ s'.rest = t ∧ s'.depth = s.depth := by
  rcases hep with rfl | ⟨e, sg, ds, rfl, he, hsg, hne, hds⟩
  · unfold numExp
    cases hp : s.peek with
    | none => exact ⟨_, rfl, by simpa using h, rfl⟩
    | some c =>
      have hc : isE c = false := ht2 rfl c (by simpa [St.peek, h] using hp)
      simp only [hc]
      exact ⟨_, rfl, by simpa using h, rfl⟩
  · have hr : s.rest = e :: (sg ++ (ds ++ t)) := by simpa using h
    have ha := advance_cons hr
    have hE : isE e = true := by rcases he with rfl | rfl <;> decide
    obtain ⟨d0, ds', hds'⟩ : ∃ d0 ds', ds = d0 :: ds' := by
      cases ds with
      | nil => exact absurd rfl hne
      | cons a b => exact ⟨a, b, rfl⟩
    have hd0 : isDigit d0 = true := hds d0 (by simp [hds'])
    have hd0' : ¬ (d0 = 0x2B ∨ d0 = 0x2D) := by
      rintro (rfl | rfl) <;> simp [isDigit] at hd0
    -- state after the optional sign
    have hsign : ∃ s1, (match s.advance.peek with
            | some g => if g = 0x2B ∨ g = 0x2D then s.advance.advance else s.advance
            | none => s.advance) = s1 ∧ s1.rest = ds ++ t ∧ s1.depth = s.depth := by
      rcases hsg with rfl | rfl | rfl
      · have hr1 : s.advance.rest = d0 :: (ds' ++ t) := by rw [ha.1, hds']; simp
        rw [peek_cons hr1]
        simp only [if_neg hd0']
        exact ⟨_, rfl, by rw [hr1, hds']; simp, ha.2.2⟩
      · have hr1 : s.advance.rest = 0x2B :: (ds ++ t) := by rw [ha.1]; simp
        rw [peek_cons hr1]
        have ha2 := advance_cons hr1
        simp only [true_or, if_true]
        exact ⟨_, rfl, ha2.1, by rw [ha2.2.2, ha.2.2]⟩
      · have hr1 : s.advance.rest = 0x2D :: (ds ++ t) := by rw [ha.1]; simp
        rw [peek_cons hr1]
        have ha2 := advance_cons hr1
        simp only [or_true, if_true]
        exact ⟨_, rfl, ha2.1, by rw [ha2.2.2, ha.2.2]⟩
    obtain ⟨s1, heq, hr1, hdep1⟩ := hsign
    have := skipDigits_complete s1 ds t hds ht hr1
    unfold numExp
    rw [peek_cons hr]
    simp only [hE, if_true]
    rw [heq]
    have hn : ¬ (s1.skipDigits.1 = 0) := by
      rw [this.2.1]; intro h0; exact hne (List.length_eq_zero_iff.mp h0)
    simp only [if_neg hn]
    exact ⟨_, rfl, this.1, by rw [this.2.2, hdep1]⟩

theorem number_sound {s s' : St} {u : Unit} (h : validateNumber s = .ok u s') :
    ∃ v, NumberLit v ∧ Adv s v s' := by
  rw [validateNumber_eq] at h
  have hsign : ∃ sg s0, (sg = [] ∨ sg = [0x2D]) ∧ Adv s sg s0 ∧
      (if s.peek = some 0x2D then s.advance else s) = s0 := by
    by_cases hp : s.peek = some 0x2D
    · obtain ⟨r, hr⟩ := peek_eq_some hp
      exact ⟨[0x2D], _, Or.inr rfl, adv_advance hr, by rw [if_pos hp]⟩
    · exact ⟨[], _, Or.inl rfl, Adv.refl _, by rw [if_neg hp]⟩
  obtain ⟨sg, s0, hsg, hadv0, heq⟩ := hsign
  rw [heq] at h
  split at h
  · cases h
  · cases h
  · rename_i u1 s1 h1
    split at h
    · cases h
    · cases h
    · rename_i u2 s2 h2
      obtain ⟨ip, hip, a1⟩ := numInt_sound h1
      obtain ⟨fp, hfp, a2⟩ := numFrac_sound h2
      obtain ⟨ep, hep, a3⟩ := numExp_sound h
      refine ⟨sg ++ (ip ++ (fp ++ ep)), ⟨sg, ip, fp, ep, rfl, hsg, hip, hfp, hep⟩, ?_⟩
      exact hadv0.trans (a1.trans (a2.trans a3))

/-- Bytes that may not directly follow a number token if it is to be read as that token. -/
def NumFollow (t : Bytes) : Prop :=
  ∀ c, t.head? = some c → isDigit c = false ∧ c ≠ 0x2E ∧ isE c = false

theorem intPart_head {ip : Bytes} (h : IntPart ip) : ∃ d r, ip = d :: r ∧ isDigit d = true := by
  rcases h with rfl | ⟨d, ds, rfl, hd, _⟩
  · exact ⟨0x30, [], rfl, by decide⟩
  · exact ⟨d, ds, rfl, digit19_digit hd⟩

theorem number_complete (s : St) (v t : Bytes) (hv : NumberLit v) (ht : NumFollow t)
    (h : s.rest = v ++ t) :
    ∃ s', validateNumber s = .ok () s' ∧ s'.rest = t ∧ s'.depth = s.depth := by
  obtain ⟨sg, ip, fp, ep, rfl, hsg, hip, hfp, hep⟩ := hv
  obtain ⟨d, ipr, hipd, hd⟩ := intPart_head hip
  -- after the sign
  have hsign : ∃ s0, (if s.peek = some 0x2D then s.advance else s) = s0 ∧
      s0.rest = ip ++ (fp ++ (ep ++ t)) ∧ s0.depth = s.depth := by
    rcases hsg with rfl | rfl
    · have hr : s.rest = d :: (ipr ++ (fp ++ (ep ++ t))) := by rw [h, hipd]; simp
      have : s.peek ≠ some 0x2D := by
        rw [peek_cons hr]; intro hh; injection hh with hh; subst hh; simp [isDigit] at hd
      rw [if_neg this]
      exact ⟨_, rfl, by rw [h]; simp, rfl⟩
    · have hr : s.rest = 0x2D :: (ip ++ (fp ++ (ep ++ t))) := by rw [h]; simp
      have ha := advance_cons hr
      rw [if_pos (peek_cons hr)]
      exact ⟨_, rfl, ha.1, ha.2.2⟩
  obtain ⟨s0, heq, hr0, hd0⟩ := hsign
  -- head facts
  have hep_head : ∀ c, (ep ++ t).head? = some c → isDigit c = false ∧ c ≠ 0x2E := by
    intro c hc
    rcases hep with rfl | ⟨e, sg', ds, rfl, he, _, _, _⟩
    · have := ht c (by simpa using hc); exact ⟨this.1, this.2.1⟩
    · simp at hc; subst hc; rcases he with rfl | rfl <;> decide
  have hfp_head : ∀ c, (fp ++ (ep ++ t)).head? = some c → isDigit c = false := by
    intro c hc
    rcases hfp with rfl | ⟨ds, rfl, _, _⟩
    · exact (hep_head c (by simpa using hc)).1
    · simp at hc; subst hc; decide
  obtain ⟨s1, h1, hr1, hd1⟩ := numInt_complete s0 ip _ hip hfp_head hr0
  obtain ⟨s2, h2, hr2, hd2⟩ := numFrac_complete s1 fp _ hfp (fun c hc => (hep_head c hc).1)
    (fun hnil hc => (hep_head _ hc).2 rfl) hr1
  obtain ⟨s3, h3, hr3, hd3⟩ := numExp_complete s2 ep t hep (fun c hc => (ht c hc).1)
    (fun _ c hc => (ht c hc).2.2) hr2
  refine ⟨s3, ?_, hr3, by rw [hd3, hd2, hd1, hd0]⟩
  rw [validateNumber_eq, heq, h1]
  simp only [h2, h3]

end SV.Json.Model
