/-
Proof/YamlRefDocs — documents and streams of `render_load` (C14): `---` / `...` markers, several
documents, filler lines before a document, the root node on the marker line or in a bare document.
-/
import SuccinctlyVerif.Proof.YamlRefBlock
namespace SV.YamlRef

/-! ## The root node's first line -/

theorem keyHead_more (k : Str) (ks : KStyle) (h : keyOk false k ks = true) :
    ∃ c t, keyText k ks = c :: t ∧ c ≠ '﻿' ∧ c ≠ '%' := by
  cases ks with
  | plain =>
    simp only [keyOk, Bool.and_eq_true] at h
    have hs := h.1.1
    simp only [plainSafe, Bool.and_eq_true] at hs
    obtain ⟨c, t, rfl, hc⟩ := plainFirst_head false k hs.1.1.1.1.2
    have hp : isPrintable c = true := by
      have := hs.1.1.1.1.1; simp only [List.all_cons, Bool.and_eq_true] at this; exact this.1
    exact ⟨c, t, rfl, by intro e; subst e; exact absurd hp (by decide), plainHead_ne c hc '%' (by decide)⟩
  | single => exact ⟨'\'', _, rfl, by decide, by decide⟩
  | double sh eu => exact ⟨'"', _, rfl, by decide, by decide⟩


/-- Head of an inline root node's text. -/
theorem inlineRoot_facts (x : PNode) (h : x.bl2 .root = true) (hi : x.isInline2 = true) (hne : x.flow ≠ []) :
    ∃ c r, x.flow = c :: r ∧ c ≠ ' ' ∧ c ≠ '#' ∧ c ≠ '﻿' ∧ c ≠ '%' ∧
      ("---".toList).isPrefixOf x.flow = false ∧ ("...".toList).isPrefixOf x.flow = false := by
  obtain ⟨⟨c, r, hx, hsp, _, hhash, _⟩, _⟩ := inline2_value x .root h hi hne
  have e1 : "---".toList = ['-', '-', '-'] := by decide
  have e2 : "...".toList = ['.', '.', '.'] := by decide
  have key : ("---".toList).isPrefixOf x.flow = false ∧ ("...".toList).isPrefixOf x.flow = false := by
    cases x with
    | null v =>
      refine ⟨notMarker_null v, ?_⟩
      have h4 : v % 5 ≠ 4 := by intro h4; apply hne; simp [PNode.flow, nullText, h4]
      have ht := tokOk_nullText v h4
      obtain ⟨c, r, hx, hc⟩ := headClass_tok _ ht
      simp only [PNode.flow]; rw [hx, e2]
      have : ('.' == c) = false := by
        have := headClass_ne c hc '.' (by decide); simp [Ne.symm this]
      simp [List.isPrefixOf, this]
    | bool b v =>
      refine ⟨notMarker_bool b v, ?_⟩
      obtain ⟨c, r, hx, hc⟩ := headClass_tok _ (tokOk_boolText b v)
      simp only [PNode.flow]; rw [hx, e2]
      have : ('.' == c) = false := by
        have := headClass_ne c hc '.' (by decide); simp [Ne.symm this]
      simp [List.isPrefixOf, this]
    | int i v =>
      refine ⟨(intText_facts i v).2.2, ?_⟩
      obtain ⟨c, r, hx, hc⟩ := headClass_tok _ (intText_facts i v).1
      simp only [PNode.flow]; rw [hx, e2]
      have : ('.' == c) = false := by
        have := headClass_ne c hc '.' (by decide); simp [Ne.symm this]
      simp [List.isPrefixOf, this]
    | str s st =>
      cases st with
      | plain =>
        have hs : plainSafe false s = true := by simp [PNode.bl2, PNode.sc2] at h; exact h.1
        simp only [plainSafe, Bool.and_eq_true, Bool.not_eq_true'] at hs
        exact ⟨hs.1.2, hs.2⟩
      | single => exact ⟨by simp [PNode.flow, strFlowText, sqText, e1, List.isPrefixOf], by simp [PNode.flow, strFlowText, sqText, e2, List.isPrefixOf]⟩
      | double sh eu => exact ⟨by simp [PNode.flow, strFlowText, dqText, e1, List.isPrefixOf], by simp [PNode.flow, strFlowText, dqText, e2, List.isPrefixOf]⟩
      | literal ch ind ex => simp [PNode.isInline2] at hi
      | folded ch ind ex fo => simp [PNode.isInline2] at hi
    | seq fl st c items =>
      cases fl with
      | true => exact ⟨by simp [PNode.flow, e1, List.isPrefixOf], by simp [PNode.flow, e2, List.isPrefixOf]⟩
      | false => simp [PNode.isInline2] at hi
    | map fl st c es =>
      cases fl with
      | true => exact ⟨by simp [PNode.flow, e1, List.isPrefixOf], by simp [PNode.flow, e2, List.isPrefixOf]⟩
      | false => simp [PNode.isInline2] at hi
    | anchored a n => simp [PNode.isInline2] at hi
    | alias a t => exact ⟨by simp [PNode.flow, e1, List.isPrefixOf], by simp [PNode.flow, e2, List.isPrefixOf]⟩
  refine ⟨c, r, hx, hsp, hhash, ?_, ?_, key.1, key.2⟩
  · -- BOM
    intro e; subst e
    have hok := okc_inline2 x .root h hi
    cases x with
    | null v =>
      have h4 : v % 5 ≠ 4 := by intro h4; apply hne; simp [PNode.flow, nullText, h4]
      have := (tokOk_nullText v h4).1
      rw [show nullText v = (PNode.null v).flow from rfl, hx] at this
      simp only [List.all_cons, Bool.and_eq_true] at this; exact absurd this.1 (by decide)
    | bool b v =>
      have := (tokOk_boolText b v).1
      rw [show boolText b v = (PNode.bool b v).flow from rfl, hx] at this
      simp only [List.all_cons, Bool.and_eq_true] at this; exact absurd this.1 (by decide)
    | int i v =>
      have := (intText_facts i v).1.1
      rw [show intText i v = (PNode.int i v).flow from rfl, hx] at this
      simp only [List.all_cons, Bool.and_eq_true] at this; exact absurd this.1 (by decide)
    | str s st =>
      cases st with
      | plain =>
        have hs : plainSafe false s = true := by simp [PNode.bl2, PNode.sc2] at h; exact h.1
        simp only [plainSafe, Bool.and_eq_true] at hs
        have hp := hs.1.1.1.1.1
        have : s = '﻿' :: r := by simpa [PNode.flow, strFlowText] using hx
        rw [this] at hp
        simp only [List.all_cons, Bool.and_eq_true] at hp; exact absurd hp.1 (by decide)
      | single => simp [PNode.flow, strFlowText, sqText] at hx
      | double sh eu => simp [PNode.flow, strFlowText, dqText] at hx
      | literal ch ind ex => simp [PNode.isInline2] at hi
      | folded ch ind ex fo => simp [PNode.isInline2] at hi
    | seq fl st c items => cases fl <;> simp [PNode.flow, PNode.isInline2] at hx hi
    | map fl st c es => cases fl <;> simp [PNode.flow, PNode.isInline2] at hx hi
    | anchored a n => simp [PNode.isInline2] at hi
    | alias a t => simp [PNode.flow] at hx
  · -- %
    intro e; subst e
    cases x with
    | null v =>
      have h4 : v % 5 ≠ 4 := by intro h4; apply hne; simp [PNode.flow, nullText, h4]
      have := (tokOk_nullText v h4).1
      rw [show nullText v = (PNode.null v).flow from rfl, hx] at this
      simp only [List.all_cons, Bool.and_eq_true] at this; exact absurd this.1 (by decide)
    | bool b v =>
      have := (tokOk_boolText b v).1
      rw [show boolText b v = (PNode.bool b v).flow from rfl, hx] at this
      simp only [List.all_cons, Bool.and_eq_true] at this; exact absurd this.1 (by decide)
    | int i v =>
      have := (intText_facts i v).1.1
      rw [show intText i v = (PNode.int i v).flow from rfl, hx] at this
      simp only [List.all_cons, Bool.and_eq_true] at this; exact absurd this.1 (by decide)
    | str s st =>
      cases st with
      | plain =>
        have hs : plainSafe false s = true := by simp [PNode.bl2, PNode.sc2] at h; exact h.1
        simp only [plainSafe, Bool.and_eq_true] at hs
        obtain ⟨c', t', hk', hc'⟩ := plainFirst_head false s hs.1.1.1.1.2
        have : s = '%' :: r := by simpa [PNode.flow, strFlowText] using hx
        rw [this] at hk'
        exact plainHead_ne c' hc' '%' (by decide) (List.cons.inj hk').1.symm
      | single => simp [PNode.flow, strFlowText, sqText] at hx
      | double sh eu => simp [PNode.flow, strFlowText, dqText] at hx
      | literal ch ind ex => simp [PNode.isInline2] at hi
      | folded ch ind ex fo => simp [PNode.isInline2] at hi
    | seq fl st c items => cases fl <;> simp [PNode.flow, PNode.isInline2] at hx hi
    | map fl st c es => cases fl <;> simp [PNode.flow, PNode.isInline2] at hx hi
    | anchored a n => simp [PNode.isInline2] at hi
    | alias a t => simp [PNode.flow] at hx

/-! ## Lines of a document -/

/-- The `---` line with the root node's own text. -/
def markerLine (x : PNode) (m : Meta) : Line := ⟨0, '-' :: '-' :: '-' :: (x.valueR .root 0 3 m).1⟩

/-- The comment after an (absent) `---` of a bare document whose root is a block collection: a
comment line of its own. -/
def trailLines : Option Str → List Line
  | none => []
  | some c => [⟨0, '#' :: c⟩]

/-- The lines of a bare document's root node. -/
def bareLines (x : PNode) (m : Meta) : List Line :=
  if x.isBlockColl then trailLines m.trail ++ (x.valueR .root 0 0 m).2
  else ⟨0, dropSpaces (x.valueR .root 0 0 m).1⟩ :: (x.valueR .root 0 0 m).2

def dotsLine : Line := ⟨0, "...".toList⟩

def PDoc.lines (d : PDoc) : List Line :=
  fillLines 0 d.fill ++
    (if d.marker then markerLine d.root d.rootMeta :: (d.root.valueR .root 0 3 d.rootMeta).2 else bareLines d.root d.rootMeta)
    ++ (if d.endMarker then [dotsLine] else [])

/-- A bare document's root: not the empty null. -/
def bareOk : PNode → Bool
  | .null v => v % 5 != 4
  | _ => true

/-- One document without anchors / aliases. -/
def docOk2 (d : PDoc) : Bool :=
  d.fill.all fillerOk && d.root.bl2 .root && trailOk2 d.rootMeta d.root && (d.marker || bareOk d.root)

theorem root_noncompact (x : PNode) (h : x.bl2 .root = true) : x.isCompact = false := by
  cases x with
  | seq fl st c items =>
    cases fl with
    | true => rfl
    | false =>
      cases c with
      | false => rfl
      | true => simp [PNode.bl2] at h
  | map fl st c es =>
    cases fl with
    | true => rfl
    | false =>
      cases c with
      | false => rfl
      | true => simp [PNode.bl2] at h
  | _ => rfl

theorem dropWhile_spaces_append (k : Nat) (c : Char) (r Y : Str) (hc : c ≠ ' ') :
    List.dropWhile (· == ' ') (spaces k ++ c :: r ++ Y) = c :: r ++ Y := by
  have := dropSpaces_spaces k c (r ++ Y) hc
  simpa [dropSpaces, List.append_assoc] using this

/-- First character of the text of a root node that is not a block collection (and not an empty null). -/
theorem rootText_head (x : PNode) (m : Meta) (col : Nat) (h : x.bl2 .root = true) (hb : x.isBlockColl = false)
    (hne : x.flow ≠ [] ∨ x.isInline2 = false) :
    ∃ c r, (x.valueR .root 0 col m).1 = spaces (m.gap + 1) ++ c :: r ∧ c ≠ ' ' := by
  by_cases hi : x.isInline2 = true
  · have hne' : x.flow ≠ [] := by
      rcases hne with h' | h'
      · exact h'
      · rw [hi] at h'; cases h'
    obtain ⟨c, r, hx, hsp, _⟩ := inlineRoot_facts x h hi hne'
    rw [valueR_inline x .root h hi 0 col m]
    simp only [hne', if_false, hx]
    exact ⟨c, r ++ trailText m.trail, by simp [List.append_assoc], hsp⟩
  · cases x with
    | str s st =>
      cases st with
      | literal ch ind ex =>
        exact ⟨'|', ((if ex then natDigits 10 ind else []) ++ chompChar ch) ++ trailText m.trail, by simp [PNode.valueR, List.append_assoc], by decide⟩
      | folded ch ind ex fo =>
        exact ⟨'>', ((if ex then natDigits 10 ind else []) ++ chompChar ch) ++ trailText m.trail, by simp [PNode.valueR, List.append_assoc], by decide⟩
      | _ => simp [PNode.isInline2] at hi
    | seq fl st c items => cases fl <;> simp [PNode.isInline2, PNode.isBlockColl] at hi hb
    | map fl st c es => cases fl <;> simp [PNode.isInline2, PNode.isBlockColl] at hi hb
    | anchored a n =>
      exact ⟨'&', a ++ (n.valueR .root 0 (col + m.gap + 1 + a.length + 1) { m with gap := 0 }).1,
        by simp [PNode.valueR, List.append_assoc], by decide⟩
    | _ => simp [PNode.isInline2] at hi

theorem bare_flow_ne (x : PNode) (h : x.bl2 .root = true) (hb : bareOk x = true) (hi : x.isInline2 = true) : x.flow ≠ [] := by
  intro he
  cases x with
  | null v =>
    have : nullText v = [] := by simpa [PNode.flow] using he
    by_cases h4 : v % 5 = 4
    · simp [bareOk, h4] at hb
    · exact (tokOk_nullText v h4).2.1 this
  | bool b v => exact (tokOk_boolText b v).2.1 (by simpa [PNode.flow] using he)
  | int i v => exact (intText_facts i v).1.2.1 (by simpa [PNode.flow] using he)
  | str s st =>
    have := node_of_empty_flow _ .root h hi he
    cases st <;> simp [PNode.node] at this
    · have hs : plainSafe false s = true := by simp [PNode.bl2, PNode.sc2] at h; exact h.1
      subst this; simp [plainSafe, plainFirstOk] at hs
  | seq fl st c items => cases fl <;> simp [PNode.flow, PNode.isInline2] at he hi
  | map fl st c es => cases fl <;> simp [PNode.flow, PNode.isInline2] at he hi
  | anchored a n => simp [PNode.isInline2] at hi
  | alias a t => simp [PNode.flow] at he


theorem rootColl_first (x : PNode) (m : Meta) (col : Nat) (h : x.bl2 .root = true) (hb : x.isBlockColl = true) :
    (x.valueR .root 0 col m).1 = trailText m.trail := by
  cases x with
  | seq fl st c items =>
    cases fl with
    | true => simp [PNode.isBlockColl] at hb
    | false =>
      have hc : c = false := by simpa [PNode.isCompact] using root_noncompact _ h
      subst hc; simp [PNode.valueR]
  | map fl st c es =>
    cases fl with
    | true => simp [PNode.isBlockColl] at hb
    | false =>
      have hc : c = false := by simpa [PNode.isCompact] using root_noncompact _ h
      subst hc; simp [PNode.valueR]
  | _ => simp [PNode.isBlockColl] at hb

/-- The text of a document is its lines. -/
theorem PDoc.text_eq (d : PDoc) (h : docOk2 d = true) : d.text = joinRaw d.lines := by
  simp only [docOk2, Bool.and_eq_true, Bool.or_eq_true] at h
  obtain ⟨⟨⟨hfill, hx⟩, htr⟩, hmb⟩ := h
  have hcwf := cwf_of_bl2 d.root .root hx
  simp only [PDoc.text, PDoc.lines, joinRaw_append, fillText_eq]
  congr 1
  congr 1
  · by_cases hm : d.marker = true
    · simp only [hm, if_true, value_eq d.root hcwf, joinRaw_cons, markerLine, Line.raw, spaces, List.replicate_zero,
        List.nil_append, List.cons_append]
    · have hmf : d.marker = false := by simpa using hm
      have hbare : bareOk d.root = true := by
        rcases hmb with h' | h'
        · exact absurd h' hm
        · exact h'
      simp only [hmf, Bool.false_eq_true, if_false, value_eq d.root hcwf, bareLines]
      by_cases hb : d.root.isBlockColl = true
      · rw [rootColl_first d.root d.rootMeta 0 hx hb]
        cases ht : d.rootMeta.trail with
        | none => simp [hb, trailText, trailLines, joinRaw]
        | some c =>
          simp only [hb, Option.isNone_some, Bool.and_false, Bool.false_eq_true, if_false, if_true, trailText, trailLines,
            List.cons_append, List.dropWhile_cons, beq_self_eq_true, show (('#' : Char) == ' ') = false by decide,
            List.singleton_append, joinRaw_cons, Line.raw, spaces, List.replicate_zero, List.nil_append]
      · have hbf : d.root.isBlockColl = false := by simpa using hb
        have hne : d.root.flow ≠ [] ∨ d.root.isInline2 = false := by
          by_cases hi : d.root.isInline2 = true
          · exact Or.inl (bare_flow_ne d.root hx hbare hi)
          · exact Or.inr (by simpa using hi)
        obtain ⟨c, r, h1, hc⟩ := rootText_head d.root d.rootMeta 0 hx hbf hne
        simp only [hbf, Bool.false_and, Bool.false_eq_true, if_false, h1, joinRaw_cons, Line.raw]
        rw [show spaces (d.rootMeta.gap + 1) ++ c :: r ++ '\n' :: joinRaw (d.root.valueR .root 0 0 d.rootMeta).2
          = spaces (d.rootMeta.gap + 1) ++ c :: r ++ ('\n' :: joinRaw (d.root.valueR .root 0 0 d.rootMeta).2) from rfl,
          dropWhile_spaces_append _ c r _ hc]
        have : dropSpaces (spaces (d.rootMeta.gap + 1) ++ c :: r) = c :: r := dropSpaces_spaces _ c r hc
        rw [this]; simp [spaces]
  · by_cases he : d.endMarker = true
    · simp [he, joinRaw, dotsLine, Line.raw, spaces]
    · have : d.endMarker = false := by simpa using he
      simp [this, joinRaw]


/-! ## All lines of a document are canonical -/

theorem doc_lines_canon (d : PDoc) (h : docOk2 d = true) : ∀ l ∈ d.lines, l.canon := by
  simp only [docOk2, Bool.and_eq_true, Bool.or_eq_true] at h
  obtain ⟨⟨⟨hfill, hx⟩, htr⟩, hmb⟩ := h
  obtain ⟨hT, hTok, _⟩ := trail_facts d.rootMeta d.root htr
  intro l hl
  simp only [PDoc.lines, List.mem_append] at hl
  rcases hl with (hl | hl) | hl
  · exact fillLines_canon 0 d.fill hfill l hl
  · by_cases hm : d.marker = true
    · obtain ⟨_, hok, hc⟩ := canon_value d.root .root hx 0 3 d.rootMeta htr
      simp only [hm, if_true, List.mem_cons] at hl
      rcases hl with rfl | hl
      · exact ⟨by simp [markerLine], by simp only [markerLine, List.all_cons, hok, Bool.and_true]; decide⟩
      · exact hc l hl
    · have hmf : d.marker = false := by simpa using hm
      have hbare : bareOk d.root = true := by
        rcases hmb with h' | h'
        · exact absurd h' hm
        · exact h'
      obtain ⟨_, hok, hc⟩ := canon_value d.root .root hx 0 0 d.rootMeta htr
      simp only [hmf, Bool.false_eq_true, if_false, bareLines] at hl
      by_cases hb : d.root.isBlockColl = true
      · simp only [hb, if_true, List.mem_append] at hl
        rcases hl with hl | hl
        · cases ht : d.rootMeta.trail with
          | none => simp [ht, trailLines] at hl
          | some c =>
            simp only [ht, trailLines, List.mem_singleton] at hl
            subst hl
            refine ⟨by simp, ?_⟩
            simp only [ht, trailText, List.all_cons, Bool.and_eq_true] at hTok
            simp only [List.all_cons, hTok.2.2, Bool.and_true]; decide
        · exact hc l hl
      · have hbf : d.root.isBlockColl = false := by simpa using hb
        simp only [hbf, Bool.false_eq_true, if_false, List.mem_cons] at hl
        rcases hl with rfl | hl
        · exact ⟨dropWhile_space_head _, all_dropWhile _ hok⟩
        · exact hc l hl
  · by_cases he : d.endMarker = true
    · simp only [he, if_true, List.mem_singleton] at hl
      subst hl; exact ⟨by decide, by decide⟩
    · have : d.endMarker = false := by simpa using he
      simp [this] at hl

/-! ## Splitting a stream at document markers -/

theorem parseDocs_congr (f : Nat) (a b : List Line) (h : skipFill a = skipFill b) : parseDocs f a = parseDocs f b := by
  cases f with
  | zero => simp [parseDocs]
  | succ f => rw [parseDocs, parseDocs, h]

theorem takeDoc_append (A B : List Line) (hA : ∀ l ∈ A, l.notMark) :
    takeDoc (A ++ B) = (A ++ (takeDoc B).1, (takeDoc B).2) := by
  induction A with
  | nil => simp
  | cons a A ih =>
    obtain ⟨h1, h2⟩ := hA a (List.mem_cons_self ..)
    have := ih (fun l hl => hA l (List.mem_cons_of_mem _ hl))
    simp [takeDoc, h1, h2, this]

/-- What follows a document: nothing, or a marker line. -/
def AtMarker (R : List Line) : Prop := R = [] ∨ ∃ l r, R = l :: r ∧ (isDocStart l = true ∨ isDocEnd l = true)

theorem takeDoc_atMarker (R : List Line) (h : AtMarker R) : takeDoc R = ([], R) := by
  rcases h with rfl | ⟨l, r, rfl, hl⟩
  · rfl
  · rcases hl with hl | hl <;> simp [takeDoc, hl]

/-- Only filler lines (of an admissible filler list). -/
theorem tail_fillOnly (n : Nat) (k : Bool) (fs : List Filler) (hk : k = true → fs.head? ≠ some .blank) :
    Tail n k (fillLines n fs) := by
  refine ⟨?_, ?_, ?_⟩
  · clear hk
    induction fs with
    | nil => intro l r h; simp [fillLines] at h
    | cons f fs ih =>
      intro l r h
      cases f with
      | blank =>
        simp only [fillLines, List.map_cons, fillerLine, List.dropWhile_cons, blankL, List.isEmpty_nil, if_true] at h
        exact ih l r h
      | comment c =>
        simp only [fillLines, List.map_cons, fillerLine, List.dropWhile_cons, blankL, List.isEmpty_cons,
          Bool.false_eq_true, if_false, List.cons.injEq] at h
        rw [← h.1]; exact Nat.le_refl _
  · clear hk
    induction fs with
    | nil => intro l h; simp [fillLines] at h
    | cons f fs ih =>
      intro l h
      cases f with
      | blank =>
        simp only [fillLines, List.map_cons, fillerLine, List.takeWhile_cons, blankL, List.isEmpty_nil,
          if_true, List.mem_cons] at h
        rcases h with h | h
        · rw [h]
        · exact ih l h
      | comment c =>
        simp [fillLines, fillerLine, List.takeWhile_cons, blankL] at h
  · intro hk' l r h
    cases fs with
    | nil => simp [fillLines] at h
    | cons f fs =>
      cases f with
      | blank => exact absurd rfl (hk hk')
      | comment c =>
        simp only [fillLines, List.map_cons, fillerLine, List.cons.injEq] at h
        rw [← h.1]; rfl

theorem skipFill_fillOnly (n : Nat) (fs : List Filler) : skipFill (fillLines n fs) = [] := by
  have := skipFill_fillLines n fs []
  simpa [skipFill] using this


/-! ## One document with a `---` line -/

theorem parseDocBody_marker (x : PNode) (m : Meta) (hx : x.bl2 .root = true) (htr : trailOk2 m x = true)
    (fs : List Filler) (hk : x.endsKeep = true → fs.head? ≠ some .blank) :
    parseDocBody (some (x.valueR .root 0 3 m).1) ((x.valueR .root 0 3 m).2 ++ fillLines 0 fs) = .ok x.node := by
  unfold parseDocBody
  simp only [Option.getD_some, fuelOf_wt, wt_append]
  have hb := bneed_value x .root hx 0 3 m
  have hA := afterL x .root hx 0 3 m htr (Or.inr rfl) (fun _ => rfl) false
    (by intro hc; rw [noncompact_of_ctx x .root hx (by decide)] at hc; cases hc)
    ((wt (x.valueR .root 0 3 m).2 + wt (fillLines 0 fs)) * 4 + 8 + (x.valueR .root 0 3 m).1.length * 4) (fillLines 0 fs)
    (by omega) (by simp [Bound, skipFill_fillOnly]) (tail_fillOnly 0 _ fs hk)
  simp only [pnOf, if_true, show (Ctx.root == Ctx.seq) = false by rfl, show (Ctx.root == Ctx.map) = false by rfl] at hA
  obtain ⟨rest', hp, hsk⟩ := hA
  rw [hp]
  simp only [hsk, skipFill_fillOnly, List.isEmpty_nil, if_true]

theorem markerLine_facts (x : PNode) (m : Meta) (hx : x.bl2 .root = true) (htr : trailOk2 m x = true) :
    (markerLine x m).isFiller = false ∧ (markerLine x m).txt.head? ≠ some '%' ∧ isDocEnd (markerLine x m) = false ∧
      isDocStart (markerLine x m) = true ∧ (markerLine x m).txt.drop 3 = (x.valueR .root 0 3 m).1 := by
  obtain ⟨hs, _, _⟩ := canon_value x .root hx 0 3 m htr
  refine ⟨by simp [markerLine, Line.isFiller], by simp [markerLine], by simp [markerLine, isDocEnd, isMarker, List.isPrefixOf], ?_,
    by simp [markerLine]⟩
  have e1 : "---".toList = ['-', '-', '-'] := by decide
  simp only [isDocStart, isMarker, markerLine, e1, List.isPrefixOf, beq_self_eq_true, Bool.true_and, List.drop_succ_cons,
    List.drop_zero, decide_true]
  rcases hs with h | h
  · simp [h]
  · simp [h]

/-- A `---` document followed by filler lines and then nothing or a marker line. -/
theorem parseDocs_marker (f : Nat) (x : PNode) (m : Meta) (hx : x.bl2 .root = true) (htr : trailOk2 m x = true)
    (fs : List Filler) (hk : x.endsKeep = true → fs.head? ≠ some .blank) (R : List Line) (hR : AtMarker R) :
    parseDocs (f + 1) (markerLine x m :: ((x.valueR .root 0 3 m).2 ++ fillLines 0 fs ++ R))
      = (parseDocs f R).map (x.node :: ·) := by
  obtain ⟨h1, h2, h3, h4, h5⟩ := markerLine_facts x m hx htr
  have hnm : ∀ l ∈ (x.valueR .root 0 3 m).2 ++ fillLines 0 fs, l.notMark := by
    intro l hl
    rcases List.mem_append.mp hl with hl | hl
    · exact nm_value x .root hx 0 3 m htr l hl
    · exact fillLines_notMark 0 fs l hl
  have htd : takeDoc ((x.valueR .root 0 3 m).2 ++ fillLines 0 fs ++ R) = ((x.valueR .root 0 3 m).2 ++ fillLines 0 fs, R) := by
    rw [takeDoc_append _ _ hnm, takeDoc_atMarker R hR]; simp
  rw [parseDocs]
  have hp : ((markerLine x m).txt.head? == some '%') = false := by simpa using h2
  simp only [skipFill, h1, Bool.false_eq_true, if_false, hp, Bool.false_and, h3, h4, if_true, htd, h5,
    parseDocBody_marker x m hx htr fs hk]


/-! ## A bare document -/

/-- `parseBlock` at the document root on a first line that is a node of its own. -/
theorem parseBlock_first (f : Nat) (c : Char) (r : Str) (rest : List Line) (nd : Node) (rest' : List Line)
    (htab : c ≠ '\t') (hhash : c ≠ '#') (hdash : isDash (c :: r) = false) (hkey : splitKey (c :: r) = .ok none)
    (hpa : parseAfter f (c :: r) 0 0 false false rest = .ok (nd, rest')) :
    parseBlock (f + 1) 0 false (⟨0, c :: r⟩ :: rest) = .ok (nd, rest') := by
  have hfill : Line.isFiller ⟨0, c :: r⟩ = false := by simp [Line.isFiller, hhash]
  rw [parseBlock]
  simp only [skipFill, hfill, Bool.false_eq_true, if_false, List.head?_cons]
  simp only [show (some c == some '\t') = false by simp [htab], Bool.false_eq_true, if_false,
    show (0 + 1 = 0) = False by simp, false_and, hdash, Nat.not_lt_zero, hkey, Bool.and_false, hpa]
  cases skipFill rest' <;> simp

theorem bneed_items_first (m : Meta) (x : PNode) (r : PItems) (h : (PItems.cons m x r).bl2 = true) (n : Nat) :
    (PItems.cons m x r).bneed + 8 ≤
      4 * wt (⟨n, '-' :: (x.valueR .seq n (n + 1) m).1⟩ :: ((x.valueR .seq n (n + 1) m).2 ++ r.linesR n)) + 1 := by
  simp only [PItems.bl2, Bool.and_eq_true] at h
  have h1 := bneed_value x .seq h.1.2 n (n + 1) m
  have h2 := bneed_items r h.2 n
  simp only [PItems.bneed, wt_cons, wt_append, List.length_cons] at h1 h2 ⊢
  split at h2 <;> omega

theorem bneed_entries_first (m : Meta) (k : Str) (ks : KStyle) (x : PNode) (r : PEntries)
    (h : (PEntries.cons m k ks x r).bl2 = true) (n : Nat) :
    (PEntries.cons m k ks x r).bneed + 8 ≤
      4 * wt (⟨n, keyText k ks ++ ':' :: (x.valueR .map n (n + (keyText k ks).length + 1) m).1⟩ ::
        ((x.valueR .map n (n + (keyText k ks).length + 1) m).2 ++ r.linesR n)) + 1 := by
  simp only [PEntries.bl2, Bool.and_eq_true] at h
  have h1 := bneed_value x .map h.1.2 n (n + (keyText k ks).length + 1) m
  have h2 := bneed_entries r h.2 n
  simp only [PEntries.bneed, wt_cons, wt_append, List.length_cons, List.length_append] at h1 h2 ⊢
  split at h2 <;> omega

/-- A three-character marker is not a prefix of a text followed by a trailing comment if it is not
a prefix of the text (the marker character is not a space). -/
theorem prefix3_trail (a : Char) (X T : Str) (ha : a ≠ ' ') (hT : TrailOk T) (h : List.isPrefixOf [a, a, a] X = false) :
    List.isPrefixOf [a, a, a] (X ++ T) = false := by
  have hq : (a == ' ') = false := by simp [ha]
  rcases hT with rfl | ⟨c, rfl⟩
  · simpa using h
  · cases X with
    | nil => simp [List.isPrefixOf, hq]
    | cons x X1 =>
      cases X1 with
      | nil => simp [List.isPrefixOf, hq]
      | cons y X2 =>
        cases X2 with
        | nil => simp [List.isPrefixOf, hq]
        | cons z X3 => simpa [List.isPrefixOf] using h


theorem trailLine_filler (t : Option Str) : ∀ p ∈ trailLines t, p.isFiller = true := by
  intro p hp
  cases t with
  | none => cases hp
  | some c =>
    have : p = ⟨0, '#' :: c⟩ := by simpa [trailLines] using hp
    subst this; simp [Line.isFiller]

/-- The body of a bare document whose root is a block collection. -/
theorem bare_body_coll (x : PNode) (m : Meta) (hx : x.bl2 .root = true) (htr : trailOk2 m x = true)
    (hcoll : x.isBlockColl = true)
    (fs : List Filler) (hk : x.endsKeep = true → fs.head? ≠ some .blank) :
    ∃ pre l post, bareLines x m = pre ++ l :: post ∧ (∀ p ∈ pre, p.isFiller = true) ∧ l.isFiller = false ∧
      l.txt.head? ≠ some '%' ∧ l.txt.head? ≠ some '﻿' ∧ (∀ q ∈ l :: post, q.notMark) ∧
      parseDocBody none (l :: post ++ fillLines 0 fs) = .ok x.node := by
  have hfirst := rootColl_first x m 0 hx hcoll
  -- the parse of the collection's lines, whatever filler lines precede the first entry
  have hparse : ∀ (pre : List Line) (l : Line) (post : List Line), (x.valueR .root 0 0 m).2 = pre ++ l :: post →
      (∀ p ∈ pre, p.isFiller = true) → x.bneed ≤ 4 * wt (l :: post) + 2 →
      parseDocBody none (l :: post ++ fillLines 0 fs) = .ok x.node := by
    intro pre l post h2 hpre hfuel
    unfold parseDocBody
    simp only [Option.getD_none, List.length_nil, Nat.zero_mul, Nat.add_zero, fuelOf_wt]
    have hA := afterL x .root hx 0 0 m htr (Or.inr rfl) (fun _ => rfl) false
      (by intro hc; rw [noncompact_of_ctx x .root hx (by decide)] at hc; cases hc) (wt (l :: post ++ fillLines 0 fs) * 4 + 8 + 1)
      (fillLines 0 fs) (by rw [wt_append]; omega) (by simp [Bound, skipFill_fillOnly]) (tail_fillOnly 0 _ fs hk)
    rw [hfirst, parseAfter_trail _ _ _ _ _ _ (trailOk_trailText m.trail)] at hA
    simp only [pnOf, if_true, show (Ctx.root == Ctx.map) = false by rfl] at hA
    have hsk : skipFill ((x.valueR .root 0 0 m).2 ++ fillLines 0 fs) = skipFill (l :: post ++ fillLines 0 fs) := by
      rw [h2, List.append_assoc]
      clear h2 hfuel hA
      induction pre with
      | nil => rfl
      | cons p pre ih =>
        have := hpre p (List.mem_cons_self ..)
        simp only [List.cons_append, skipFill, this, if_true]
        exact ih (fun q hq => hpre q (List.mem_cons_of_mem _ hq))
    rw [parseBlock_congr _ _ _ _ _ hsk] at hA
    obtain ⟨rest', hp, hsk'⟩ := hA
    rw [hp]
    simp only [hsk', skipFill_fillOnly, List.isEmpty_nil, if_true]
  cases x with
  | seq fl st c items =>
    cases fl with
    | true => simp [PNode.isBlockColl] at hcoll
    | false =>
      have hc : c = false := by simpa [PNode.isCompact] using root_noncompact _ hx
      subst hc
      have hx' := hx
      simp only [PNode.bl2, Bool.and_eq_true] at hx'
      obtain ⟨⟨hst, hi⟩, _⟩ := hx'
      cases items with
      | nil => simp [PItems.startOk, PItems.isNil] at hst
      | cons m' y r =>
        have hi' := hi
        simp only [PItems.bl2, Bool.and_eq_true] at hi'
        obtain ⟨⟨⟨hfl, htr'⟩, hy⟩, hr⟩ := hi'
        obtain ⟨hs, _, _⟩ := canon_value y .seq hy 0 1 m' htr'
        obtain ⟨_, hfil⟩ := seqLine_facts 0 _ hs
        have hnm := nm_items (.cons m' y r) hi 0
        have h2 : ((PNode.seq false st false (.cons m' y r)).valueR .root 0 0 m).2 =
            fillLines 0 m'.fill ++ ⟨0, '-' :: (y.valueR .seq 0 1 m').1⟩ :: ((y.valueR .seq 0 1 m').2 ++ r.linesR 0) := by
          simp [PNode.valueR, PItems.linesR]
        refine ⟨trailLines m.trail ++ fillLines 0 m'.fill,
          ⟨0, '-' :: (y.valueR .seq 0 1 m').1⟩, (y.valueR .seq 0 1 m').2 ++ r.linesR 0, ?_, ?_, hfil, by simp, by simp, ?_, ?_⟩
        · rw [bareLines]; simp only [hcoll, if_true]; rw [h2]; simp [List.append_assoc]
        · intro p hp
          rcases List.mem_append.mp hp with hp | hp
          · exact trailLine_filler m.trail p hp
          · exact fillLines_filler 0 m'.fill p hp
        · intro q hq
          apply hnm
          simp only [PItems.linesR, List.mem_append]
          exact Or.inr hq
        · apply hparse (fillLines 0 m'.fill) _ _ h2 (fillLines_filler 0 m'.fill)
          have := bneed_items_first m' y r hi 0
          simp only [PNode.bneed, Nat.zero_add] at this ⊢
          omega
  | map fl st c es =>
    cases fl with
    | true => simp [PNode.isBlockColl] at hcoll
    | false =>
      have hc : c = false := by simpa [PNode.isCompact] using root_noncompact _ hx
      subst hc
      have hx' := hx
      simp only [PNode.bl2, Bool.and_eq_true] at hx'
      obtain ⟨⟨hst, hi⟩, _⟩ := hx'
      cases es with
      | nil => simp [PEntries.startOk, PEntries.isNil] at hst
      | cons m' k ks y r =>
        have hi' := hi
        simp only [PEntries.bl2, Bool.and_eq_true] at hi'
        obtain ⟨⟨⟨⟨hfl, htr'⟩, hkey⟩, hy⟩, hr⟩ := hi'
        obtain ⟨hs, _, _⟩ := canon_value y .map hy 0 (0 + (keyText k ks).length + 1) m' htr'
        obtain ⟨_, _, hfil, _⟩ := keyLine_facts 0 k ks hkey _ hs
        obtain ⟨c0, t0, hkt, q1, q2⟩ := keyHead_more k ks hkey
        have hnm := nm_entries (.cons m' k ks y r) hi 0
        have h2 : ((PNode.map false st false (.cons m' k ks y r)).valueR .root 0 0 m).2 =
            fillLines 0 m'.fill ++ ⟨0, keyText k ks ++ ':' :: (y.valueR .map 0 (0 + (keyText k ks).length + 1) m').1⟩ ::
              ((y.valueR .map 0 (0 + (keyText k ks).length + 1) m').2 ++ r.linesR 0) := by
          simp [PNode.valueR, PEntries.linesR]
        refine ⟨trailLines m.trail ++ fillLines 0 m'.fill,
          ⟨0, keyText k ks ++ ':' :: (y.valueR .map 0 (0 + (keyText k ks).length + 1) m').1⟩,
          (y.valueR .map 0 (0 + (keyText k ks).length + 1) m').2 ++ r.linesR 0, ?_, ?_, hfil, ?_, ?_, ?_, ?_⟩
        · rw [bareLines]; simp only [hcoll, if_true]; rw [h2]; simp [List.append_assoc]
        · intro p hp
          rcases List.mem_append.mp hp with hp | hp
          · exact trailLine_filler m.trail p hp
          · exact fillLines_filler 0 m'.fill p hp
        · rw [hkt]; simpa using q2
        · rw [hkt]; simpa using q1
        · intro q hq
          apply hnm
          simp only [PEntries.linesR, List.mem_append]
          exact Or.inr hq
        · apply hparse (fillLines 0 m'.fill) _ _ h2 (fillLines_filler 0 m'.fill)
          have := bneed_entries_first m' k ks y r hi 0
          simp only [PNode.bneed] at this ⊢
          omega
  | _ => simp [PNode.isBlockColl] at hcoll


/-- The body of a bare document whose root is a scalar, a flow collection or a block scalar. -/
theorem valueR_col (n : PNode) (fl : Bool) (h : n.anchorable fl = true) (ctx : Ctx) (e c1 c2 : Nat) (m : Meta) :
    n.valueR ctx e c1 m = n.valueR ctx e c2 m := by
  cases n with
  | str s st => cases st <;> rfl
  | seq f st c items =>
    cases f with
    | true => rfl
    | false =>
      have hc : c = false := by simpa [PNode.anchorable] using h
      subst hc; simp [PNode.valueR]
  | map f st c es =>
    cases f with
    | true => rfl
    | false =>
      have hc : c = false := by simpa [PNode.anchorable] using h
      subst hc; simp [PNode.valueR]
  | anchored a n' => simp [PNode.anchorable] at h
  | _ => rfl

theorem fuel_split (n : Nat) : ∃ F, n * 4 + 8 = F + 2 := ⟨n * 4 + 6, by omega⟩

theorem bare_body_leaf (x : PNode) (m : Meta) (hx : x.bl2 .root = true) (htr : trailOk2 m x = true) (hb : bareOk x = true)
    (hcoll : x.isBlockColl = false)
    (fs : List Filler) (hk : x.endsKeep = true → fs.head? ≠ some .blank) :
    ∃ pre l post, bareLines x m = pre ++ l :: post ∧ (∀ p ∈ pre, p.isFiller = true) ∧ l.isFiller = false ∧
      l.txt.head? ≠ some '%' ∧ l.txt.head? ≠ some '﻿' ∧ (∀ q ∈ l :: post, q.notMark) ∧
      parseDocBody none (l :: post ++ fillLines 0 fs) = .ok x.node := by
  have hT := trailOk_trailText m.trail
  have e1 : "---".toList = ['-', '-', '-'] := by decide
  have e2 : "...".toList = ['.', '.', '.'] := by decide
  by_cases hi : x.isInline2 = true
  · -- one line: the node's text and its comment
    have hne := bare_flow_ne x hx hb hi
    obtain ⟨c, r, hfl, hsp, hhash, hbom, hpct, hm1, hm2⟩ := inlineRoot_facts x hx hi hne
    have h3 := inline3_value x .root hx hi hne
    have hv := valueR_inline x .root hx hi 0 0 m
    have hline : dropSpaces (x.valueR .root 0 0 m).1 = c :: (r ++ trailText m.trail) := by
      rw [hv]; simp only [hne, if_false, hfl]
      have := dropSpaces_spaces (m.gap + 1) c (r ++ trailText m.trail) hsp
      simpa [List.append_assoc] using this
    have hpost : (x.valueR .root 0 0 m).2 = [] := by rw [hv]
    refine ⟨[], ⟨0, c :: (r ++ trailText m.trail)⟩, [], ?_, by simp, by simp [Line.isFiller, hhash], by simpa using hpct,
      by simpa using hbom, ?_, ?_⟩
    · simp [bareLines, hcoll, hline, hpost]
    · intro q hq
      have : q = ⟨0, c :: (r ++ trailText m.trail)⟩ := by simpa using hq
      subst this
      have k1 := prefix3_trail '-' x.flow _ (by decide) hT (by rw [← e1]; exact hm1)
      have k2 := prefix3_trail '.' x.flow _ (by decide) hT (by rw [← e2]; exact hm2)
      rw [hfl] at k1 k2
      simp only [List.cons_append] at k1 k2
      exact ⟨by simp only [isDocStart, isMarker, e1, k1, Bool.and_false, Bool.false_and],
        by simp only [isDocEnd, isMarker, e2, k2, Bool.and_false, Bool.false_and]⟩
    · obtain ⟨⟨c', r', hfl', _, htab, _⟩, hdash, hkey, hinl⟩ := h3
      have hcc : c' = c := by rw [hfl] at hfl'; exact (List.cons.inj hfl').1.symm
      subst hcc
      have hdash' := hdash _ hT
      have hkey' := hkey _ hT
      rw [hfl] at hdash' hkey'
      simp only [List.cons_append] at hdash' hkey'
      unfold parseDocBody
      simp only [Option.getD_none, List.length_nil, Nat.zero_mul, Nat.add_zero, fuelOf_wt, List.nil_append, List.cons_append]
      obtain ⟨F, hF⟩ := fuel_split (wt (⟨0, c' :: (r ++ trailText m.trail)⟩ :: fillLines 0 fs))
      rw [hF]
      have hpa := parseAfter_inline3 F 0 0 0 false false x.flow x.node _ hT (fillLines 0 fs)
        (inline3_value x .root hx hi hne)
      rw [hfl] at hpa
      simp only [spaces, List.replicate_zero, List.nil_append, List.cons_append] at hpa
      rw [parseBlock_first (F + 1) c' _ _ _ _ htab hhash hdash' hkey' hpa]
      simp only [skipFill_fillOnly, List.isEmpty_nil, if_true]
  · -- a block scalar
    cases x with
    | str s st =>
      cases st with
      | literal ch ind ex =>
        have hx' := hx
        simp only [PNode.bl2, show (Ctx.root == Ctx.root) = true by rfl] at hx'
        have hkk : (PNode.str s (.literal ch ind ex)).endsKeep = (ch == .keep) := by cases ch <;> rfl
        rw [hkk] at hk
        have hline : dropSpaces ((PNode.str s (.literal ch ind ex)).valueR .root 0 0 m).1
            = '|' :: (((if ex then natDigits 10 ind else []) ++ chompChar ch) ++ trailText m.trail) := by
          have := dropSpaces_spaces (m.gap + 1) '|' (((if ex then natDigits 10 ind else []) ++ chompChar ch) ++ trailText m.trail)
            (by decide)
          simpa [PNode.valueR, List.append_assoc] using this
        have hnm := nm_value (.str s (.literal ch ind ex)) .root hx 0 0 m htr
        refine ⟨[], ⟨0, '|' :: (((if ex then natDigits 10 ind else []) ++ chompChar ch) ++ trailText m.trail)⟩,
          ((PNode.str s (.literal ch ind ex)).valueR .root 0 0 m).2, ?_, by simp, by simp [Line.isFiller], by simp, by simp, ?_, ?_⟩
        · simp [bareLines, PNode.isBlockColl, hline]
        · intro q hq
          rcases List.mem_cons.mp hq with rfl | hq
          · exact notMark_of_head 0 '|' _ (by decide) (by decide)
          · exact hnm q hq
        · unfold parseDocBody
          simp only [Option.getD_none, List.length_nil, Nat.zero_mul, Nat.add_zero, fuelOf_wt, List.cons_append]
          obtain ⟨F, hF⟩ := fuel_split (wt (⟨0, '|' :: (((if ex then natDigits 10 ind else []) ++ chompChar ch) ++ trailText m.trail)⟩ ::
              (((PNode.str s (.literal ch ind ex)).valueR .root 0 0 m).2 ++ fillLines 0 fs)))
          rw [hF]
          have hpa := after_literal F 0 0 0 0 false false true s ch ind ex rfl (fun _ => rfl) hx' (fillLines 0 fs)
            (tail_fillOnly 0 _ fs (by simpa using hk)) _ hT
          simp only [spaces, List.replicate_zero, List.nil_append, Nat.zero_add] at hpa
          rw [parseBlock_first (F + 1) '|' _ _ _ _ (by decide) (by decide) (by simp [isDash]) (by simp [splitKey])
            (by simpa [PNode.valueR] using hpa)]
          simp only [skipFill_dropBlank, skipFill_fillOnly, List.isEmpty_nil, if_true, PNode.node]
      | folded ch ind ex fo =>
        have hx' := hx
        simp only [PNode.bl2, show (Ctx.root == Ctx.root) = true by rfl] at hx'
        have hkk : (PNode.str s (.folded ch ind ex fo)).endsKeep = (ch == .keep) := by cases ch <;> rfl
        rw [hkk] at hk
        have hline : dropSpaces ((PNode.str s (.folded ch ind ex fo)).valueR .root 0 0 m).1
            = '>' :: (((if ex then natDigits 10 ind else []) ++ chompChar ch) ++ trailText m.trail) := by
          have := dropSpaces_spaces (m.gap + 1) '>' (((if ex then natDigits 10 ind else []) ++ chompChar ch) ++ trailText m.trail)
            (by decide)
          simpa [PNode.valueR, List.append_assoc] using this
        have hnm := nm_value (.str s (.folded ch ind ex fo)) .root hx 0 0 m htr
        refine ⟨[], ⟨0, '>' :: (((if ex then natDigits 10 ind else []) ++ chompChar ch) ++ trailText m.trail)⟩,
          ((PNode.str s (.folded ch ind ex fo)).valueR .root 0 0 m).2, ?_, by simp, by simp [Line.isFiller], by simp, by simp, ?_, ?_⟩
        · simp [bareLines, PNode.isBlockColl, hline]
        · intro q hq
          rcases List.mem_cons.mp hq with rfl | hq
          · exact notMark_of_head 0 '>' _ (by decide) (by decide)
          · exact hnm q hq
        · unfold parseDocBody
          simp only [Option.getD_none, List.length_nil, Nat.zero_mul, Nat.add_zero, fuelOf_wt, List.cons_append]
          obtain ⟨F, hF⟩ := fuel_split (wt (⟨0, '>' :: (((if ex then natDigits 10 ind else []) ++ chompChar ch) ++ trailText m.trail)⟩ ::
              (((PNode.str s (.folded ch ind ex fo)).valueR .root 0 0 m).2 ++ fillLines 0 fs)))
          rw [hF]
          have hpa := after_folded F 0 0 0 0 false false true s ch ind ex fo rfl (fun _ => rfl) hx' (fillLines 0 fs)
            (tail_fillOnly 0 _ fs (by simpa using hk)) _ hT
          simp only [spaces, List.replicate_zero, List.nil_append, Nat.zero_add] at hpa
          rw [parseBlock_first (F + 1) '>' _ _ _ _ (by decide) (by decide) (by simp [isDash]) (by simp [splitKey])
            (by simpa [PNode.valueR] using hpa)]
          simp only [skipFill_dropBlank, skipFill_fillOnly, List.isEmpty_nil, if_true, PNode.node]
      | _ => simp [PNode.isInline2] at hi
    | seq fl st c items => cases fl <;> simp [PNode.isInline2, PNode.isBlockColl] at hi hcoll
    | map fl st c es => cases fl <;> simp [PNode.isInline2, PNode.isBlockColl] at hi hcoll
    | anchored a n =>
      have hx' := hx
      simp only [PNode.bl2, Bool.and_eq_true] at hx'
      obtain ⟨⟨ha, hanc⟩, hn⟩ := hx'
      have htn := trailOk2_inner m a n htr hanc
      have hcolE := valueR_col n false hanc .root 0 (0 + m.gap + 1 + a.length + 1) (0 + 0 + 1 + a.length) { m with gap := 0 }
      have hv : (PNode.anchored a n).valueR .root 0 0 m =
          (spaces (m.gap + 1) ++ ('&' :: a) ++ (n.valueR .root 0 (0 + 0 + 1 + a.length) { m with gap := 0 }).1,
            (n.valueR .root 0 (0 + 0 + 1 + a.length) { m with gap := 0 }).2) := by
        rw [← hcolE]; rfl
      have hline : dropSpaces ((PNode.anchored a n).valueR .root 0 0 m).1
          = '&' :: (a ++ (n.valueR .root 0 (0 + 0 + 1 + a.length) { m with gap := 0 }).1) := by
        rw [hv]
        have := dropSpaces_spaces (m.gap + 1) '&' (a ++ (n.valueR .root 0 (0 + 0 + 1 + a.length) { m with gap := 0 }).1) (by decide)
        simpa only [List.append_assoc, List.cons_append] using this
      have hpost : ((PNode.anchored a n).valueR .root 0 0 m).2 = (n.valueR .root 0 (0 + 0 + 1 + a.length) { m with gap := 0 }).2 := by
        rw [hv]
      have hnm := nm_value n .root hn 0 (0 + 0 + 1 + a.length) { m with gap := 0 } htn
      obtain ⟨hs, _, _⟩ := canon_value n .root hn 0 (0 + 0 + 1 + a.length) { m with gap := 0 } htn
      obtain ⟨hkey, hdash⟩ := value_first_facts n .root hn hanc 0 (0 + 0 + 1 + a.length) { m with gap := 0 } htn
      refine ⟨[], ⟨0, '&' :: (a ++ (n.valueR .root 0 (0 + 0 + 1 + a.length) { m with gap := 0 }).1)⟩,
        (n.valueR .root 0 (0 + 0 + 1 + a.length) { m with gap := 0 }).2, ?_, by simp, by simp [Line.isFiller], by simp, by simp, ?_, ?_⟩
      · simp [bareLines, PNode.isBlockColl, hline, hpost]
      · intro q hq
        rcases List.mem_cons.mp hq with rfl | hq
        · exact notMark_of_head 0 '&' _ (by decide) (by decide)
        · exact hnm q hq
      · unfold parseDocBody
        simp only [Option.getD_none, List.length_nil, Nat.zero_mul, Nat.add_zero, fuelOf_wt, List.cons_append]
        obtain ⟨F, hF⟩ := fuel_split (wt (⟨0, '&' :: (a ++ (n.valueR .root 0 (0 + 0 + 1 + a.length) { m with gap := 0 }).1)⟩ ::
            ((n.valueR .root 0 (0 + 0 + 1 + a.length) { m with gap := 0 }).2 ++ fillLines 0 fs)))
        rw [hF]
        have hbn := bneed_value n .root hn 0 (0 + 0 + 1 + a.length) { m with gap := 0 }
        have hfuel : n.bneed ≤ F := by
          simp only [wt_cons, wt_append, List.length_cons, List.length_append] at hF
          omega
        obtain ⟨rest', hp, hsk⟩ := afterL n .root hn 0 (0 + 0 + 1 + a.length) { m with gap := 0 } htn (Or.inr rfl) (fun _ => rfl)
          false (by intro hc; rw [anchorable_noncompact n false hanc] at hc; cases hc) F (fillLines 0 fs) hfuel
          (by simp [Bound, skipFill_fillOnly]) (tail_fillOnly 0 _ fs (by simpa [PNode.endsKeep] using hk))
        simp only [pnOf, if_true, show (Ctx.root == Ctx.map) = false by rfl] at hp
        have hpa := parseAfter_anchor F 0 0 0 false false a _ ((n.valueR .root 0 (0 + 0 + 1 + a.length) { m with gap := 0 }).2 ++ fillLines 0 fs)
          ha hs hkey hdash
        simp only [spaces, List.replicate_zero, List.nil_append] at hpa
        rw [hp] at hpa
        rw [parseBlock_first (F + 1) '&' _ _ _ _ (by decide) (by decide) (by simp [isDash]) (by simp [splitKey]) hpa]
        simp only [hsk, skipFill_fillOnly, List.isEmpty_nil, if_true, PNode.node]
    | _ => simp [PNode.isInline2] at hi


theorem bare_body (x : PNode) (m : Meta) (hx : x.bl2 .root = true) (htr : trailOk2 m x = true) (hb : bareOk x = true)
    (fs : List Filler) (hk : x.endsKeep = true → fs.head? ≠ some .blank) :
    ∃ pre l post, bareLines x m = pre ++ l :: post ∧ (∀ p ∈ pre, p.isFiller = true) ∧ l.isFiller = false ∧
      l.txt.head? ≠ some '%' ∧ l.txt.head? ≠ some '﻿' ∧ (∀ q ∈ l :: post, q.notMark) ∧
      parseDocBody none (l :: post ++ fillLines 0 fs) = .ok x.node := by
  by_cases hc : x.isBlockColl = true
  · exact bare_body_coll x m hx htr hc fs hk
  · exact bare_body_leaf x m hx htr hb (by simpa using hc) fs hk

theorem skipFill_pre (pre : List Line) (X : List Line) (h : ∀ p ∈ pre, p.isFiller = true) : skipFill (pre ++ X) = skipFill X := by
  induction pre with
  | nil => rfl
  | cons p pre ih =>
    have := h p (List.mem_cons_self ..)
    simp only [List.cons_append, skipFill, this, if_true]
    exact ih (fun q hq => h q (List.mem_cons_of_mem _ hq))

/-- A bare document followed by filler lines and then nothing or a marker line. -/
theorem parseDocs_bare (f : Nat) (x : PNode) (m : Meta) (hx : x.bl2 .root = true) (htr : trailOk2 m x = true)
    (hb : bareOk x = true)
    (fs : List Filler) (hk : x.endsKeep = true → fs.head? ≠ some .blank) (R : List Line) (hR : AtMarker R) :
    parseDocs (f + 1) (bareLines x m ++ fillLines 0 fs ++ R) = (parseDocs f R).map (x.node :: ·) := by
  obtain ⟨pre, l, post, hbl, hpre, hlf, hpct, _, hnm, hbody⟩ := bare_body x m hx htr hb fs hk
  rw [hbl]
  have e : pre ++ l :: post ++ fillLines 0 fs ++ R = pre ++ (l :: (post ++ fillLines 0 fs ++ R)) := by simp [List.append_assoc]
  rw [e, parseDocs_congr _ _ _ (skipFill_pre pre _ hpre)]
  obtain ⟨hs, he⟩ := hnm l (List.mem_cons_self ..)
  have hnm' : ∀ q ∈ l :: post ++ fillLines 0 fs, q.notMark := by
    intro q hq
    rcases List.mem_append.mp hq with hq | hq
    · exact hnm q hq
    · exact fillLines_notMark 0 fs q hq
  have htd : takeDoc (l :: (post ++ fillLines 0 fs ++ R)) = (l :: post ++ fillLines 0 fs, R) := by
    have := takeDoc_append (l :: post ++ fillLines 0 fs) R hnm'
    rw [takeDoc_atMarker R hR] at this
    simpa [List.append_assoc] using this
  rw [parseDocs]
  have hp : (l.txt.head? == some '%') = false := by simpa using hpct
  simp only [skipFill, hlf, Bool.false_eq_true, if_false, hp, Bool.false_and, he, hs, htd, hbody]

/-! ## Streams -/

def streamLines (ds : List PDoc) : List Line := ds.flatMap PDoc.lines

/-- Documents without anchors / aliases, in stream order (`first`: a bare document is possible). -/
def docsOk2 : Bool → List PDoc → Bool
  | _, [] => true
  | first, d :: ds =>
    docOk2 d && (d.marker || first) && docsOk2 false ds &&
      (match ds with
       | d' :: _ => !(d.root.endsKeep && !d.endMarker && d'.fill.head? == some .blank)
       | [] => true)

def docsNeed : List PDoc → Nat
  | [] => 1
  | d :: ds => (if d.endMarker then 2 else 1) + docsNeed ds

theorem parseDocs_dots (f : Nat) (R : List Line) : parseDocs (f + 1) (dotsLine :: R) = parseDocs f R := by
  rw [parseDocs]
  have h1 : dotsLine.isFiller = false := by decide
  have h2 : isDocEnd dotsLine = true := by decide
  simp only [skipFill, h1, Bool.false_eq_true, if_false, h2, if_true]
  simp [dotsLine, restOk]

theorem parseDocs_stream : ∀ (ds : List PDoc) (first : Bool), docsOk2 first ds = true → ∀ f, docsNeed ds ≤ f →
    parseDocs f (streamLines ds) = .ok (ds.map (·.root.node))
  | [], _, _, f, hf => by
    obtain ⟨f', rfl⟩ : ∃ f', f = f' + 1 := ⟨f - 1, by simp [docsNeed] at hf; omega⟩
    simp [streamLines, parseDocs, skipFill]
  | d :: ds, first, h, f, hf => by
    simp only [docsOk2, Bool.and_eq_true, Bool.or_eq_true] at h
    obtain ⟨⟨⟨hd, hmf⟩, hds⟩, hkb⟩ := h
    have hd' := hd
    simp only [docOk2, Bool.and_eq_true, Bool.or_eq_true] at hd'
    obtain ⟨⟨⟨hfill, hx⟩, htr⟩, hmb⟩ := hd'
    -- what follows this document's own lines
    obtain ⟨fs, R, hR, hk, hrest, hcont⟩ : ∃ fs R, AtMarker R ∧ (d.root.endsKeep = true → fs.head? ≠ some .blank) ∧
        (if d.endMarker then [dotsLine] else []) ++ streamLines ds = fillLines 0 fs ++ R ∧
        ∀ g, docsNeed ds + (if d.endMarker then 1 else 0) ≤ g → parseDocs g R = .ok (ds.map (·.root.node)) := by
      by_cases he : d.endMarker = true
      · refine ⟨[], dotsLine :: streamLines ds, Or.inr ⟨_, _, rfl, Or.inr (by decide)⟩, by simp, by simp [he, fillLines], ?_⟩
        intro g hg
        obtain ⟨g', rfl⟩ : ∃ g', g = g' + 1 := ⟨g - 1, by simp [he] at hg; omega⟩
        rw [parseDocs_dots]
        exact parseDocs_stream ds false hds g' (by simp [he] at hg; omega)
      · have hef : d.endMarker = false := by simpa using he
        cases ds with
        | nil =>
          refine ⟨[], [], Or.inl rfl, by simp, by simp [hef, streamLines, fillLines], ?_⟩
          intro g hg
          obtain ⟨g', rfl⟩ : ∃ g', g = g' + 1 := ⟨g - 1, by simp [docsNeed] at hg; omega⟩
          simp [parseDocs, skipFill]
        | cons d2 ds2 =>
          have hds' := hds
          simp only [docsOk2, Bool.and_eq_true, Bool.or_eq_true] at hds'
          obtain ⟨⟨⟨hd2, hm2⟩, _⟩, _⟩ := hds'
          have hmk : d2.marker = true := by
            rcases hm2 with h' | h'
            · exact h'
            · cases h'
          have hd2' := hd2
          simp only [docOk2, Bool.and_eq_true, Bool.or_eq_true] at hd2'
          obtain ⟨⟨⟨_, hx2⟩, htr2⟩, _⟩ := hd2'
          obtain ⟨_, _, _, hstart, _⟩ := markerLine_facts d2.root d2.rootMeta hx2 htr2
          refine ⟨d2.fill, markerLine d2.root d2.rootMeta :: ((d2.root.valueR .root 0 3 d2.rootMeta).2 ++
            (if d2.endMarker then [dotsLine] else []) ++ streamLines ds2), Or.inr ⟨_, _, rfl, Or.inl hstart⟩, ?_, ?_, ?_⟩
          · intro hk hb
            simp only [hef, Bool.not_false, Bool.and_true, Bool.not_eq_true', Bool.and_eq_false_imp] at hkb
            have := hkb hk
            simp [hb] at this
          · simp [hef, streamLines, PDoc.lines, hmk, List.append_assoc]
          · intro g hg
            have := parseDocs_stream (d2 :: ds2) false hds g (by simp [hef] at hg; omega)
            rw [← this]
            apply parseDocs_congr
            have e : streamLines (d2 :: ds2) = fillLines 0 d2.fill ++ (markerLine d2.root d2.rootMeta ::
                ((d2.root.valueR .root 0 3 d2.rootMeta).2 ++ (if d2.endMarker then [dotsLine] else []) ++ streamLines ds2)) := by
              simp [streamLines, PDoc.lines, hmk, List.append_assoc]
            rw [e, skipFill_fillLines]
    obtain ⟨f', rfl⟩ : ∃ f', f = f' + 1 := ⟨f - 1, by simp only [docsNeed] at hf; split at hf <;> omega⟩
    have hf' : docsNeed ds + (if d.endMarker then 1 else 0) ≤ f' := by
      simp only [docsNeed] at hf
      split at hf <;> simp_all <;> omega
    have hlines : streamLines (d :: ds) = fillLines 0 d.fill ++
        ((if d.marker then markerLine d.root d.rootMeta :: (d.root.valueR .root 0 3 d.rootMeta).2 else bareLines d.root d.rootMeta)
          ++ fillLines 0 fs ++ R) := by
      have : streamLines (d :: ds) = fillLines 0 d.fill ++
          ((if d.marker then markerLine d.root d.rootMeta :: (d.root.valueR .root 0 3 d.rootMeta).2 else bareLines d.root d.rootMeta)
            ++ ((if d.endMarker then [dotsLine] else []) ++ streamLines ds)) := by
        simp [streamLines, PDoc.lines, List.append_assoc]
      rw [this, hrest]; simp [List.append_assoc]
    rw [hlines, parseDocs_congr _ _ _ (skipFill_fillLines 0 d.fill _)]
    by_cases hm : d.marker = true
    · simp only [hm, if_true, List.cons_append]
      rw [parseDocs_marker f' d.root d.rootMeta hx htr fs hk R hR, hcont f' hf']
      rfl
    · have hmf' : d.marker = false := by simpa using hm
      have hbare : bareOk d.root = true := by
        rcases hmb with h' | h'
        · exact absurd h' hm
        · exact h'
      simp only [hmf', Bool.false_eq_true, if_false]
      rw [parseDocs_bare f' d.root d.rootMeta hx htr hbare fs hk R hR, hcont f' hf']
      rfl


/-! ## The whole stream -/

theorem docsOk2_each : ∀ (ds : List PDoc) (first : Bool), docsOk2 first ds = true → ∀ d ∈ ds, docOk2 d = true
  | [], _, _, d, hd => by cases hd
  | d0 :: ds, first, h, d, hd => by
    simp only [docsOk2, Bool.and_eq_true] at h
    rcases List.mem_cons.mp hd with rfl | hd
    · exact h.1.1.1
    · exact docsOk2_each ds false h.1.2 d hd

theorem lfChars_lines (s : PStream) (h : docsOk2 true s.docs = true) : s.lfChars = joinRaw (streamLines s.docs) := by
  have he := docsOk2_each s.docs true h
  simp only [PStream.lfChars, streamLines]
  generalize s.docs = ds at he
  induction ds with
  | nil => rfl
  | cons d ds ih =>
    simp only [List.flatMap_cons, joinRaw_append]
    rw [PDoc.text_eq d (he d (List.mem_cons_self ..)), ih (fun x hx => he x (List.mem_cons_of_mem _ hx))]

theorem stream_canon (ds : List PDoc) (h : ∀ d ∈ ds, docOk2 d = true) : ∀ l ∈ streamLines ds, l.canon := by
  intro l hl
  obtain ⟨d, hd, hld⟩ := List.mem_flatMap.mp hl
  exact doc_lines_canon d (h d hd) l hld

theorem resolveDocs_nodes (ds : List PDoc) (h : ∀ d ∈ ds, docOk2 d = true) (hsc : ∀ d ∈ ds, (d.root.scope []).isSome = true) :
    resolveDocs (ds.map (·.root.node)) = .ok (ds.map (·.root.tree)) := by
  induction ds with
  | nil => rfl
  | cons d ds ih =>
    have hd := h d (List.mem_cons_self ..)
    simp only [docOk2, Bool.and_eq_true] at hd
    have := ih (fun x hx => h x (List.mem_cons_of_mem _ hx)) (fun x hx => hsc x (List.mem_cons_of_mem _ hx))
    have hs := hsc d (List.mem_cons_self ..)
    cases he : d.root.scope [] with
    | none => rw [he] at hs; cases hs
    | some env' =>
      simp only [List.map_cons, resolveDocs, resolveB d.root .root hd.1.1.2 [] env' he, this]
      rfl

/-- Every document has a line of its own (and one more with `...`). -/
theorem doc_lines_length (d : PDoc) (h : docOk2 d = true) : (if d.endMarker then 2 else 1) ≤ d.lines.length := by
  simp only [docOk2, Bool.and_eq_true, Bool.or_eq_true] at h
  obtain ⟨⟨⟨_, hx⟩, htr⟩, hmb⟩ := h
  have hcore : 1 ≤ (if d.marker then markerLine d.root d.rootMeta :: (d.root.valueR .root 0 3 d.rootMeta).2
      else bareLines d.root d.rootMeta).length := by
    by_cases hm : d.marker = true
    · simp [hm]
    · have hb : bareOk d.root = true := by
        rcases hmb with h' | h'
        · exact absurd h' hm
        · exact h'
      obtain ⟨pre, l, post, hbl, _⟩ := bare_body d.root d.rootMeta hx htr hb [] (by simp)
      have hmf : d.marker = false := by simpa using hm
      simp only [hmf, Bool.false_eq_true, if_false, hbl, List.length_append, List.length_cons]
      omega
  simp only [PDoc.lines, List.length_append]
  split <;> simp <;> omega

theorem docsNeed_le (ds : List PDoc) (h : ∀ d ∈ ds, docOk2 d = true) : docsNeed ds ≤ (streamLines ds).length + 1 := by
  induction ds with
  | nil => simp [docsNeed, streamLines]
  | cons d ds ih =>
    have h1 := doc_lines_length d (h d (List.mem_cons_self ..))
    have h2 := ih (fun x hx => h x (List.mem_cons_of_mem _ hx))
    simp only [docsNeed, streamLines, List.flatMap_cons, List.length_append] at h2 ⊢
    omega

theorem raw_head (L : Line) (h : L.txt.head? ≠ some '﻿') : L.raw.head? ≠ some '﻿' := by
  obtain ⟨n, t⟩ := L
  cases n with
  | zero => simpa [Line.raw, spaces] using h
  | succ n => simp [Line.raw, spaces, List.replicate_succ]

theorem filler_head (p : Line) (h : p.isFiller = true) : p.txt.head? ≠ some '﻿' := by
  simp only [Line.isFiller, Bool.or_eq_true, beq_iff_eq] at h
  rcases h with h | h
  · have : p.txt = [] := by cases hp : p.txt <;> simp_all
    simp [this]
  · rw [h]; decide

/-- The stream does not start with a byte order mark. -/
theorem stream_first (ds : List PDoc) (first : Bool) (h : docsOk2 first ds = true) :
    ∀ L rest, streamLines ds = L :: rest → L.txt.head? ≠ some '﻿' := by
  intro L rest hL
  cases ds with
  | nil => simp [streamLines] at hL
  | cons d ds =>
    simp only [docsOk2, Bool.and_eq_true, Bool.or_eq_true] at h
    obtain ⟨⟨⟨hd, _⟩, _⟩, _⟩ := h
    simp only [docOk2, Bool.and_eq_true, Bool.or_eq_true] at hd
    obtain ⟨⟨⟨_, hx⟩, htr⟩, hmb⟩ := hd
    simp only [streamLines, List.flatMap_cons, PDoc.lines, List.append_assoc] at hL
    cases hf : d.fill with
    | cons f fs =>
      rw [hf] at hL
      simp only [fillLines, List.map_cons, List.cons_append, List.cons.injEq] at hL
      rw [← hL.1]
      exact filler_head _ (fillLines_filler 0 [f] _ (by simp [fillLines]))
    | nil =>
      rw [hf] at hL
      simp only [fillLines, List.map_nil, List.nil_append] at hL
      by_cases hm : d.marker = true
      · simp only [hm, if_true, List.cons_append, List.cons.injEq] at hL
        rw [← hL.1]; simp [markerLine]
      · have hb : bareOk d.root = true := by
          rcases hmb with h' | h'
          · exact absurd h' hm
          · exact h'
        obtain ⟨pre, l, post, hbl, hpre, _, _, hbom, _⟩ := bare_body d.root d.rootMeta hx htr hb [] (by simp)
        have hmf : d.marker = false := by simpa using hm
        simp only [hmf, Bool.false_eq_true, if_false, hbl] at hL
        cases pre with
        | nil =>
          simp only [List.nil_append, List.cons_append, List.cons.injEq] at hL
          rw [← hL.1]; exact hbom
        | cons p pre =>
          simp only [List.cons_append, List.cons.injEq] at hL
          rw [← hL.1]; exact filler_head p (hpre p (List.mem_cons_self ..))

/-- `render_load` on characters for every stream of documents without anchors / aliases. -/
theorem loadChars_docs (s : PStream) (h : docsOk2 true s.docs = true)
    (hsc : ∀ d ∈ s.docs, (d.root.scope []).isSome = true) : loadChars s.chars = .ok s.trees := by
  have he := docsOk2_each s.docs true h
  have hcan := stream_canon s.docs he
  have hlf := lfChars_lines s h
  have hnocr : s.lfChars.all (· != '\r') = true := by rw [hlf]; exact nocr_joinRaw _ hcan
  rw [loadChars_breaks s hnocr, hlf]
  have hbom : stripBom (joinRaw (streamLines s.docs)) = joinRaw (streamLines s.docs) := by
    cases hL : streamLines s.docs with
    | nil => rfl
    | cons L rest =>
      have h1 := raw_head L (stream_first s.docs true h L rest hL)
      rw [joinRaw_cons]
      unfold stripBom
      split
      · rename_i r heq
        exfalso
        cases hr : L.raw with
        | nil => rw [hr] at heq; simp at heq
        | cons c t =>
          rw [hr] at heq h1
          simp only [List.cons_append, List.cons.injEq] at heq
          simp only [List.head?_cons, ne_eq, Option.some.injEq] at h1
          exact h1 heq.1
      · rfl
  rw [hbom, linesOf_joinRaw _ hcan]
  unfold loadLines
  rw [parseDocs_stream s.docs true h _ (by have := docsNeed_le s.docs he; omega)]
  simp only [resolveDocs_nodes s.docs he hsc]
  rfl


/-! ## From `admissible` to the proof-side predicates -/

theorem anchorable_eq (flow : Bool) (n : PNode) :
    (match n with
      | .anchored _ _ => false
      | .alias _ _ => false
      | .seq false _ c _ => !c
      | .map false _ c _ => !c
      | .null v => !flow || v % 5 != 4
      | _ => true) = n.anchorable flow := by
  cases n with
  | seq fl st c items => cases fl <;> rfl
  | map fl st c es => cases fl <;> rfl
  | _ => rfl

mutual
theorem fl2_of_ok : (x : PNode) → ∀ (ctx : Ctx) (m : Meta), x.ok true ctx m = true → x.fl2 = true
  | .null v, _, _, h => by simpa [PNode.ok, PNode.fl2, PNode.sc2] using h
  | .bool _ _, _, _, _ => rfl
  | .int _ _, _, _, _ => rfl
  | .str s st, ctx, m, h => by
    cases st <;> simp_all [PNode.ok, PNode.fl2, PNode.sc2, strOk]
  | .seq fl st c items, ctx, m, h => by
    cases fl with
    | true =>
      simp only [PNode.ok, if_true] at h
      simp only [PNode.fl2]
      exact fl2_items_of_ok items h
    | false => simp [PNode.ok] at h
  | .map fl st c es, ctx, m, h => by
    cases fl with
    | true =>
      simp only [PNode.ok, if_true, Bool.and_eq_true] at h
      simp only [PNode.fl2]
      exact fl2_entries_of_ok es h.1
    | false => simp [PNode.ok] at h
  | .anchored a n, ctx, m, h => by
    simp only [PNode.ok, Bool.and_eq_true] at h
    obtain ⟨⟨ha, hn⟩, hm⟩ := h
    have hanc : n.anchorable true = true := by
      cases n with
      | seq fl st c items => cases fl <;> simpa [PNode.anchorable] using hm
      | map fl st c es => cases fl <;> simpa [PNode.anchorable] using hm
      | _ => simpa [PNode.anchorable] using hm
    simp only [PNode.fl2, Bool.and_eq_true]
    exact ⟨⟨ha, hanc⟩, fl2_of_ok n ctx _ hn⟩
  | .alias a _, _, _, h => by simpa [PNode.ok, PNode.fl2] using h
theorem fl2_items_of_ok : (items : PItems) → items.ok true = true → items.fl2 = true
  | .nil, _ => rfl
  | .cons m x r, h => by
    simp only [PItems.ok, Bool.and_eq_true] at h
    simp only [PItems.fl2, Bool.and_eq_true]
    exact ⟨fl2_of_ok x .seq m h.1.1.2, fl2_items_of_ok r h.1.2⟩
theorem fl2_entries_of_ok : (es : PEntries) → es.ok true = true → es.fl2 = true
  | .nil, _ => rfl
  | .cons m k ks x r, h => by
    simp only [PEntries.ok, Bool.and_eq_true] at h
    simp only [PEntries.fl2, Bool.and_eq_true]
    exact ⟨⟨h.1.1.1.1.2, fl2_of_ok x .map m h.1.1.2⟩, fl2_entries_of_ok r h.1.2⟩
end

theorem trailOk2_of (m : Meta) (x : PNode) (hm : metaOk m = true) (hc : x.isCompact = true → m.trail = none) :
    trailOk2 m x = true := by
  simp only [metaOk, Bool.and_eq_true] at hm
  cases ht : m.trail with
  | none => simp [trailOk2, ht]
  | some c =>
    have h1 := hm.1.2
    rw [ht] at h1
    simp only [trailOk2, ht, Bool.and_eq_true, Bool.not_eq_true']
    refine ⟨h1, ?_⟩
    cases hx : x.isCompact with
    | false => rfl
    | true => have := hc hx; rw [ht] at this; cases this

mutual
theorem bl2_of_ok : (x : PNode) → ∀ (ctx : Ctx) (m : Meta), x.ok false ctx m = true →
    x.bl2 ctx = true ∧ (x.isCompact = true → m.trail = none)
  | .null v, _, _, _ => ⟨by simp [PNode.bl2, PNode.sc2], by simp [PNode.isCompact]⟩
  | .bool _ _, _, _, _ => ⟨rfl, by simp [PNode.isCompact]⟩
  | .int _ _, _, _, _ => ⟨rfl, by simp [PNode.isCompact]⟩
  | .str s st, ctx, m, h => by
    refine ⟨?_, by simp [PNode.isCompact]⟩
    cases st <;> simp_all [PNode.ok, PNode.bl2, PNode.sc2, strOk]
  | .seq fl st c items, ctx, m, h => by
    cases fl with
    | true =>
      simp only [PNode.ok, if_true] at h
      exact ⟨by simp only [PNode.bl2, PNode.fl2]; exact fl2_items_of_ok items h, by simp [PNode.isCompact]⟩
    | false =>
      simp only [PNode.ok, Bool.false_eq_true, if_false, Bool.not_false, Bool.true_and, Bool.and_eq_true,
        Bool.not_eq_true'] at h
      obtain ⟨⟨hnil, hi⟩, hc⟩ := h
      have hb := bl2_items_of_ok items hi
      cases c with
      | false =>
        simp only [Bool.false_eq_true, if_false, Bool.or_eq_true, Bool.and_eq_true, decide_eq_true_eq] at hc
        refine ⟨?_, by simp [PNode.isCompact]⟩
        simp only [PNode.bl2, PItems.startOk, hnil, Bool.not_false, Bool.true_and, Bool.true_or, hb, Bool.false_eq_true,
          if_false, Bool.and_eq_true, Bool.or_eq_true, decide_eq_true_eq, and_true, true_and]
        rcases hc with (hc | hc) | hc
        · exact Or.inl (Or.inl hc)
        · exact Or.inl (Or.inr hc.1)
        · exact Or.inr hc
      | true =>
        simp only [if_true, Bool.and_eq_true, Option.isNone_iff_eq_none] at hc
        refine ⟨?_, fun _ => hc.2⟩
        simp only [PNode.bl2, PItems.startOk, hnil, Bool.not_false, Bool.true_and, Bool.not_true, Bool.false_or, hc.1.2, hb,
          if_true, hc.1.1, Bool.and_self]
  | .map fl st c es, ctx, m, h => by
    cases fl with
    | true =>
      simp only [PNode.ok, if_true, Bool.and_eq_true] at h
      exact ⟨by simp only [PNode.bl2, PNode.fl2]; exact fl2_entries_of_ok es h.1, by simp [PNode.isCompact]⟩
    | false =>
      simp only [PNode.ok, Bool.false_eq_true, if_false, Bool.not_false, Bool.true_and, Bool.and_eq_true,
        Bool.not_eq_true'] at h
      obtain ⟨⟨⟨hnil, hi⟩, _⟩, hc⟩ := h
      have hb := bl2_entries_of_ok es hi
      cases c with
      | false =>
        simp only [Bool.false_eq_true, if_false, Bool.or_eq_true, Bool.and_eq_true, decide_eq_true_eq] at hc
        refine ⟨?_, by simp [PNode.isCompact]⟩
        simp only [PNode.bl2, PEntries.startOk, hnil, Bool.not_false, Bool.true_and, Bool.true_or, hb, Bool.false_eq_true,
          if_false, Bool.and_eq_true, Bool.or_eq_true, decide_eq_true_eq, and_true, true_and]
        rcases hc with hc | hc
        · exact Or.inl hc
        · exact Or.inr hc.1
      | true =>
        simp only [if_true, Bool.and_eq_true, Option.isNone_iff_eq_none] at hc
        refine ⟨?_, fun _ => hc.2⟩
        simp only [PNode.bl2, PEntries.startOk, hnil, Bool.not_false, Bool.true_and, Bool.not_true, Bool.false_or, hc.1.2, hb,
          if_true, hc.1.1, Bool.and_self]
  | .anchored a n, ctx, m, h => by
    simp only [PNode.ok, Bool.and_eq_true] at h
    obtain ⟨⟨ha, hn⟩, hm⟩ := h
    have hanc : n.anchorable false = true := by
      cases n with
      | seq fl st c items => cases fl <;> simpa [PNode.anchorable] using hm
      | map fl st c es => cases fl <;> simpa [PNode.anchorable] using hm
      | _ => simpa [PNode.anchorable] using hm
    obtain ⟨hb, _⟩ := bl2_of_ok n ctx _ hn
    refine ⟨?_, by simp [PNode.isCompact]⟩
    simp only [PNode.bl2, Bool.and_eq_true]
    exact ⟨⟨ha, hanc⟩, hb⟩
  | .alias a _, _, _, h => ⟨by simpa [PNode.ok, PNode.bl2] using h, by simp [PNode.isCompact]⟩
theorem bl2_items_of_ok : (items : PItems) → items.ok false = true → items.bl2 = true
  | .nil, _ => rfl
  | .cons m x r, h => by
    simp only [PItems.ok, Bool.and_eq_true] at h
    obtain ⟨⟨⟨hm, hx⟩, hr⟩, hk⟩ := h
    obtain ⟨hb, hc⟩ := bl2_of_ok x .seq m hx
    have hm' := hm
    simp only [metaOk, Bool.and_eq_true] at hm'
    simp only [PItems.bl2, itemFill, Bool.and_eq_true]
    exact ⟨⟨⟨⟨hm'.1.1, hk⟩, trailOk2_of m x hm hc⟩, hb⟩, bl2_items_of_ok r hr⟩
theorem bl2_entries_of_ok : (es : PEntries) → es.ok false = true → es.bl2 = true
  | .nil, _ => rfl
  | .cons m k ks x r, h => by
    simp only [PEntries.ok, Bool.and_eq_true] at h
    obtain ⟨⟨⟨⟨⟨hm, hkey⟩, _⟩, hx⟩, hr⟩, hk⟩ := h
    obtain ⟨hb, hc⟩ := bl2_of_ok x .map m hx
    have hm' := hm
    simp only [metaOk, Bool.and_eq_true] at hm'
    simp only [PEntries.bl2, entryFill, Bool.and_eq_true]
    exact ⟨⟨⟨⟨⟨hm'.1.1, hk⟩, trailOk2_of m x hm hc⟩, hkey⟩, hb⟩, bl2_entries_of_ok r hr⟩
end

theorem docOk2_of_ok (first : Bool) (d : PDoc) (h : d.ok first = true) : docOk2 d = true ∧ (d.root.scope []).isSome = true := by
  simp only [PDoc.ok, Bool.and_eq_true] at h
  obtain ⟨⟨⟨⟨⟨⟨hfill, hmeta⟩, _⟩, hroot⟩, hscope⟩, hnull⟩, _⟩ := h
  obtain ⟨hb, hc⟩ := bl2_of_ok d.root .root d.rootMeta hroot
  refine ⟨?_, hscope⟩
  simp only [docOk2, Bool.and_eq_true, Bool.or_eq_true]
  refine ⟨⟨⟨hfill, hb⟩, trailOk2_of _ _ hmeta hc⟩, ?_⟩
  by_cases hm : d.marker = true
  · exact Or.inl hm
  · right
    cases hr : d.root with
    | null v =>
      rw [hr] at hnull
      simp only [Bool.or_eq_true] at hnull
      rcases hnull with h' | h'
      · exact absurd h' hm
      · simpa [bareOk] using h'
    | _ => rfl

theorem docsOk2_of_ok : ∀ (ds : List PDoc) (first : Bool), docsOk first ds = true →
    docsOk2 first ds = true ∧ ∀ d ∈ ds, (d.root.scope []).isSome = true
  | [], _, _ => ⟨rfl, by intro d hd; cases hd⟩
  | d :: ds, first, h => by
    simp only [docsOk, Bool.and_eq_true] at h
    obtain ⟨⟨hd, hds⟩, hk⟩ := h
    have hd' := hd
    simp only [PDoc.ok, Bool.and_eq_true] at hd'
    obtain ⟨h1, h2⟩ := docOk2_of_ok first d hd
    obtain ⟨i1, i2⟩ := docsOk2_of_ok ds false hds
    refine ⟨?_, ?_⟩
    · simp only [docsOk2, Bool.and_eq_true]
      exact ⟨⟨⟨h1, hd'.1.1.1.1.2⟩, i1⟩, hk⟩
    · intro x hx
      rcases List.mem_cons.mp hx with rfl | hx
      · exact h2
      · exact i2 x hx

/-- `render_load` on characters: every admissible stream loads back to its trees. -/
theorem loadChars_admissible (s : PStream) (ha : admissible s = true) : loadChars s.chars = .ok s.trees := by
  obtain ⟨h1, h2⟩ := docsOk2_of_ok s.docs true ha
  exact loadChars_docs s h1 h2

/-- One bare document (no `---`, no `...`, no filler lines before it, no comment on the root). -/
def bareStream (x : PNode) (g : Nat) : PStream := { docs := [{ root := x, rootMeta := { gap := g } }] }

theorem bareStream_ok (x : PNode) (g : Nat) (h : x.bl2 .root = true) (hb : bareOk x = true) :
    docsOk2 true (bareStream x g).docs = true := by
  simp [bareStream, docsOk2, docOk2, h, hb, trailOk2]

theorem bareStream_scope (x : PNode) (g : Nat) (hs : (x.scope []).isSome = true) :
    ∀ d ∈ (bareStream x g).docs, (d.root.scope []).isSome = true := by
  intro d hd
  simp only [bareStream, List.mem_singleton] at hd
  subst hd; exact hs

end SV.YamlRef
