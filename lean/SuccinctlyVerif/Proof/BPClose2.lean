/-
Proof/BPClose2 — the word loop of `trees::find_close` (skipping words by `word_min_excess_i32`)
equals `scanClose` over the remaining bits (C04).
-/
import SuccinctlyVerif.Proof.BPClose
namespace SV.BPC
open SV SV.BP SV.BPM SV.BPP SV.BPW SV.BPS

/-- Valid bits of word `idx`. -/
def vbits (len idx : Nat) : Nat := if idx * 64 + 64 ≤ len then 64 else len - idx * 64

theorem bitsOf_drop_word (ws : List (BitVec 64)) (len idx : Nat) (hi : idx < ws.length)
    (hlen : len ≤ 64 * ws.length) (hpos : idx * 64 < len) :
    (bitsOf ws len).drop (idx * 64) =
      (wordBits (ws.getD idx 0)).take (vbits len idx) ++ (bitsOf ws len).drop ((idx + 1) * 64) := by
  have hvb1 : 1 ≤ vbits len idx := by unfold vbits; split <;> omega
  have hvb2 : vbits len idx ≤ 64 := by unfold vbits; split <;> omega
  apply List.ext_getElem?
  intro j
  rw [List.getElem?_drop, bitsOf_getElem?]
  have hl : ((wordBits (ws.getD idx 0)).take (vbits len idx)).length = vbits len idx := by
    rw [List.length_take, wordBits_length]; omega
  by_cases hj : j < vbits len idx
  · rw [List.getElem?_append_left (by omega), List.getElem?_take]
    have h1 : idx * 64 + j < len := by unfold vbits at hj; split at hj <;> omega
    have h2 : (idx * 64 + j) / 64 = idx := by omega
    have h3 : (idx * 64 + j) % 64 = j := by omega
    have h4 : j < 64 := by omega
    simp [h1, h2, h3, hj, h4, wordBits, List.getD_eq_getElem?_getD, List.getElem?_eq_getElem hi]
  · rw [List.getElem?_append_right (by omega), hl, List.getElem?_drop, bitsOf_getElem?]
    by_cases hfull : idx * 64 + 64 ≤ len
    · have hv : vbits len idx = 64 := by unfold vbits; simp [hfull]
      rw [hv]
      have : (idx + 1) * 64 + (j - 64) = idx * 64 + j := by omega
      rw [this]
    · have hv : vbits len idx = len - idx * 64 := by unfold vbits; simp [hfull]
      have h1 : ¬ idx * 64 + j < len := by omega
      have h2 : ¬ (idx + 1) * 64 + (j - vbits len idx) < len := by omega
      simp [h1, h2]

theorem take_masked (w : BitVec 64) (vb : Nat) (hvb : vb ≤ 64) :
    (wordBits (if vb = 64 then w else w &&& ((1#64 <<< vb) - 1))).take vb = (wordBits w).take vb := by
  by_cases h : vb = 64
  · simp [h]
  · simp only [h, if_false]
    rw [wordBits_and_lowMask w vb (by omega)]
    apply List.take_left'
    rw [List.length_take, wordBits_length]; omega

theorem fcWordLoop_out (ws : List (BitVec 64)) (len f idx : Nat) (e : Int) (h : ws.length ≤ idx) :
    fcWordLoop ws.toArray len f idx e = none := by
  cases f with
  | zero => rfl
  | succ f => unfold fcWordLoop; simp [h]

theorem fcWordLoop_beyond (ws : List (BitVec 64)) (len f idx : Nat) (e : Int) (h : idx * 64 ≥ len) :
    fcWordLoop ws.toArray len f idx e = none := by
  cases f with
  | zero => rfl
  | succ f => unfold fcWordLoop; simp [h]

theorem fcWordLoop_scanClose (ws : List (BitVec 64)) (len : Nat) (hw : (len + 63) / 64 ≤ ws.length)
    (f idx : Nat) (e : Int) (he : 1 ≤ e) (hf : ws.length + 1 ≤ f + idx) (hb : e + ((len - idx * 64 : Nat) : Int) < 2 ^ 31) :
    fcWordLoop ws.toArray len f idx e =
      scanClose ((bitsOf ws len).drop (idx * 64)) (idx * 64) (e - 1).toNat := by
  induction f generalizing idx e with
  | zero =>
    have : ws.length ≤ idx := by omega
    have hl := bitsOf_length ws len (by omega)
    rw [List.drop_of_length_le (by omega)]; rfl
  | succ f ih =>
    have hl := bitsOf_length ws len (by omega)
    by_cases hi : ws.length ≤ idx
    · rw [fcWordLoop_out ws len _ idx e hi, List.drop_of_length_le (by omega)]; rfl
    have hi' : idx < ws.length := by omega
    by_cases hbey : idx * 64 ≥ len
    · rw [fcWordLoop_beyond ws len _ idx e hbey, List.drop_of_length_le (by omega)]; rfl
    have hpos : idx * 64 < len := by omega
    have hvb1 : 1 ≤ vbits len idx := by unfold vbits; split <;> omega
    have hvb2 : vbits len idx ≤ 64 := by unfold vbits; split <;> omega
    rw [bitsOf_drop_word ws len idx hi' (by omega) hpos, scanClose_append]
    unfold fcWordLoop
    have hsz : ¬ idx ≥ ws.toArray.size := by simp; omega
    have hwd : wordAt ws.toArray idx = ws.getD idx 0 := by simp [wordAt]
    simp only [hsz, if_false, hbey, hwd]
    have hvbdef : (if idx * 64 + 64 ≤ len then 64 else len - idx * 64) = vbits len idx := rfl
    rw [hvbdef]
    generalize hA : (wordBits (ws.getD idx 0)).take (vbits len idx) = A
    have hmask := take_masked (ws.getD idx 0) (vbits len idx) hvb2
    rw [hA] at hmask
    generalize hmw : (if vbits len idx = 64 then ws.getD idx 0 else ws.getD idx 0 &&& ((1#64 <<< vbits len idx) - 1)) = mw at *
    have hraw : wordMinExcessI32 mw (vbits len idx) = (minExc A, totExc A) := by
      unfold wordMinExcessI32
      rw [wordMinExcessRaw_spec mw _ hvb2, hmask]
    rw [hraw]
    simp only
    have hAl : A.length = vbits len idx := by
      rw [← hA, List.length_take, wordBits_length]; omega
    have hhit : (if e + minExc A ≤ 0 then fcBitLoop mw (idx * 64) (vbits len idx) 0 e else none) =
        scanClose A (idx * 64) (e - 1).toNat := by
      by_cases hc : e + minExc A ≤ 0
      · simp only [hc, if_true]
        rw [fcBitLoop_scanClose mw _ _ 0 e he, ← wordBits_take_eq_seg mw _ hvb2, hmask]
        rfl
      · simp only [hc, if_false]
        symm
        apply block_min_sound
        omega
    rw [hhit]
    cases hs : scanClose A (idx * 64) (e - 1).toNat with
    | some r => rfl
    | none =>
      simp only
      have htot := scanClose_none_tot A _ _ hs
      have htb := totExc_bound A
      have hnot : ¬ idx * 64 ≥ len := by omega
      try simp only [hnot, if_false]
      have hkey : ((len - (idx + 1) * 64 : Nat) : Int) + A.length ≤ ((len - idx * 64 : Nat) : Int) := by
        rw [hAl]; unfold vbits; split <;> omega
      have hwrap : wrapI32 (e + totExc A) = e + totExc A := by
        apply BPR.wrapI32_id <;> omega
      rw [hwrap, ih (idx + 1) (e + totExc A) (by omega) (by omega) (by omega)]
      by_cases hfull : vbits len idx = 64
      · rw [hAl, hfull]
        congr 1 <;> omega
      · have hdrop : (bitsOf ws len).drop ((idx + 1) * 64) = [] := by
          apply List.drop_of_length_le
          unfold vbits at hfull; split at hfull <;> omega
        rw [hdrop]; rfl

end SV.BPC
