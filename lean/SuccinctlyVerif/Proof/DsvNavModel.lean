/-
Proof/DsvNavModel — the cursor model of C21 (`DsvRows`, `DsvFields`, `DsvRow::get`, `Dsv::row` over
rank/select) equals the quote-aware splitting spec.  Route: cursor operations over the spec bit lists
(Proof/DsvRank) → a reference table read off the list of (byte, marker bit, newline bit) triples
(`rowFieldsL`, `tblD`) → the spec `rowsSpec`.
-/
import SuccinctlyVerif.Proof.DsvRank
import SuccinctlyVerif.Proof.DsvCsv
open SV SV.Dsv SV.Scan SV.DsvRank

namespace SV.DsvNavM

/-- The context `parse` builds, stated over the spec bit lists. -/
structure Good (c : Ctx) (M N : List Bool) : Prop where
  hm : c.ix.markers = mkVec M
  hn : c.ix.newlines = mkVec N
  lm : M.length = c.text.length
  ln : N.length = c.text.length

theorem parse_good (d q n : Byte) (text : List Byte) :
    Good (parse d q n text) (markerBits d q n text) (newlineBits d q n text)
    ∧ (parse d q n text).text = text := by
  have hM : (markerBits d q n text).length = text.length := DsvP.selBitsFrom_length _ _ _ _
  have hN : (newlineBits d q n text).length = text.length := DsvP.selBitsFrom_length _ _ _ _
  have hs := DsvP.buildIndexScalar_eq_spec d q n text
  unfold parse
  rw [hs]
  simp only [indexSpec, Index.new]
  refine ⟨⟨?_, ?_, hM, hN⟩, trivial⟩
  · simp only [mkVec, hM]
  · simp only [mkVec, hN]

variable {c : Ctx} {M N : List Bool}

theorem mrank_eq (g : Good c M N) (p : Nat) : c.mrank p = rankB true M p := by
  simp [Ctx.mrank, g.hm, rank1_eq]

theorem nrank_eq (g : Good c M N) (p : Nat) : c.nrank p = rankB true N p := by
  simp [Ctx.nrank, g.hn, rank1_eq]

theorem fieldEnd_eq (g : Good c M N) (p : Nat) : c.fieldEnd p = nextTrue M p := by
  simp only [Ctx.fieldEnd, mrank_eq g, g.hm, select1_eq, nextTrue, Ctx.len, g.lm]

theorem nextField_eq (g : Good c M N) (p : Nat) (hp : p < c.len) :
    c.nextField p = if nextTrue M p < c.len then (nextTrue M p + 1, decide (nextTrue M p + 1 < c.len))
      else (c.len, false) := by
  have hl : M.length = c.len := g.lm
  obtain ⟨_, _, _, _, hsel⟩ := nextTrue_spec M p (by omega)
  have hae : c.atEnd p = false := by simp [Ctx.atEnd]; omega
  simp only [Ctx.nextField, hae, Bool.false_eq_true, if_false, mrank_eq g, g.hm, select1_eq, hsel, hl]
  by_cases h : nextTrue M p < c.len
  · simp only [h, if_true, Ctx.atEnd]
    congr 1
    by_cases h2 : nextTrue M p + 1 < c.len <;> simp [h2] <;> omega
  · simp [h]

theorem nextRow_eq (g : Good c M N) (p : Nat) (hp : p < c.len) :
    c.nextRow p = if nextTrue N p < c.len then (nextTrue N p + 1, decide (nextTrue N p + 1 < c.len))
      else (c.len, false) := by
  have hl : N.length = c.len := g.ln
  obtain ⟨_, _, _, _, hsel⟩ := nextTrue_spec N p (by omega)
  have hae : c.atEnd p = false := by simp [Ctx.atEnd]; omega
  simp only [Ctx.nextRow, hae, Bool.false_eq_true, if_false, nrank_eq g, g.hn, select1_eq, hsel, hl]
  by_cases h : nextTrue N p < c.len
  · simp only [h, if_true, Ctx.atEnd]
    congr 1
    by_cases h2 : nextTrue N p + 1 < c.len <;> simp [h2] <;> omega
  · simp [h]

theorem atNewline_eq (g : Good c M N) (p : Nat) (hp : p < c.len) :
    c.atNewline (p + 1) = decide (N[p]? = some true) := by
  have h1 : ¬ (p + 1 = 0 ∨ p + 1 > c.len) := by omega
  simp only [Ctx.atNewline, h1, if_false, nrank_eq g, Nat.add_sub_cancel]
  have := rank_step_iff N p
  by_cases h : N[p]? = some true
  · simp [h, this.mpr h]
  · have h' : ¬ rankB true N (p + 1) > rankB true N p := fun x => h (this.mp x)
    simp [h, h']

theorem lastFieldCheck_eq (g : Good c M N) (p e : Nat) (field : List Byte) (hf : p + field.length = e) :
    c.lastFieldCheck p field = (decide (e ≥ c.len) || decide (N[e]? = some true)) := by
  simp only [Ctx.lastFieldCheck, hf, nrank_eq g]
  by_cases h : e ≥ c.len
  · simp [h]
  · simp only [h, if_false, decide_false, Bool.false_or]
    have := rank_step_iff N e
    by_cases h2 : N[e]? = some true
    · simp [h2, this.mpr h2]
    · have h' : ¬ rankB true N (e + 1) > rankB true N e := fun x => h2 (this.mp x)
      simp [h2, h']

theorem atEndAfterDelimiter_eq (g : Good c M N) (pos : Nat) :
    c.atEndAfterDelimiter pos =
      (decide (c.len > 0) && decide (pos = c.len) && decide (M[c.len - 1]? = some true)
        && !decide (N[c.len - 1]? = some true)) := by
  simp only [Ctx.atEndAfterDelimiter, mrank_eq g, nrank_eq g]
  by_cases h0 : c.len > 0
  · have e : c.len = (c.len - 1) + 1 := by omega
    have hM := rank_step_iff M (c.len - 1)
    have hN := rank_step_iff N (c.len - 1)
    rw [← e] at hM hN
    have hmono := JsonIb.rankB_mono true N (c.len - 1) c.len (by omega)
    have hMd : decide (rankB true M c.len > rankB true M (c.len - 1)) = decide (M[c.len - 1]? = some true) :=
      decide_eq_decide.mpr hM
    have hNd : (rankB true N c.len == rankB true N (c.len - 1)) = !decide (N[c.len - 1]? = some true) := by
      by_cases b : N[c.len - 1]? = some true
      · have := hN.mpr b
        simp [b]; omega
      · have nb : ¬ rankB true N c.len > rankB true N (c.len - 1) := fun x => b (hN.mp x)
        simp [b]; omega
    simp only [hMd, hNd]
    by_cases hp : pos = c.len <;> simp [hp, h0]
  · simp [h0]

theorem currentField_eq (g : Good c M N) (p : Nat) (hp : p < c.len) :
    c.currentField p = c.slice p (nextTrue M p) := by
  have hae : c.atEnd p = false := by simp [Ctx.atEnd]; omega
  simp [Ctx.currentField, hae, fieldEnd_eq g]

theorem slice_length (c : Ctx) (p e : Nat) (h1 : p ≤ e) (h2 : e ≤ c.len) : (c.slice p e).length = e - p := by
  simp [Ctx.slice, Ctx.len] at *; omega

/-! ### the reference: rows and fields read off the list of (byte, marker bit, newline bit) -/

abbrev Tr := Byte × Bool × Bool
open SV.DsvCsvP (consFirst consFirst_consFirst)

/-- One byte in front of the row read so far: a marker starts a new (empty) field. -/
def stepF (b : Byte) (m : Bool) (r : List (List Byte)) : List (List Byte) :=
  if m then [] :: r else consFirst [b] r

/-- Fields of the row that starts at this suffix (ends at the first newline bit or the end). -/
def rowFieldsL : List Tr → List (List Byte)
  | [] => [[]]
  | (b, m, nl) :: zs => if nl then [[]] else stepF b m (rowFieldsL zs)

/-- The suffix after the newline that ends the current row (`[]` if there is none). -/
def restAfterRow : List Tr → List Tr
  | [] => []
  | (_, _, nl) :: zs => if nl then zs else restAfterRow zs

/-- All rows, in one pass; an empty suffix holds no row (a final newline starts none). -/
def tblD : List Tr → List (List (List Byte))
  | [] => []
  | (b, m, nl) :: zs =>
    if nl then [[]] :: tblD zs
    else
      match tblD zs with
      | r :: rs => stepF b m r :: rs
      | [] => [stepF b m [[]]]

theorem rowFieldsL_ne_nil : ∀ zs : List Tr, rowFieldsL zs ≠ [] := by
  intro zs
  induction zs with
  | nil => simp [rowFieldsL]
  | cons z zs ih =>
    obtain ⟨b, m, nl⟩ := z
    simp only [rowFieldsL, stepF]
    split
    · simp
    · split
      · simp
      · cases h : rowFieldsL zs with
        | nil => exact absurd h ih
        | cons s r => simp [consFirst]

theorem tblD_eq_nil_iff : ∀ zs : List Tr, tblD zs = [] ↔ zs = [] := by
  intro zs
  cases zs with
  | nil => simp [tblD]
  | cons z zs =>
    obtain ⟨b, m, nl⟩ := z
    simp only [tblD]
    split
    · simp
    · split <;> simp

/-- Lemma T: the one-pass table is "first row, then the table of what follows its newline". -/
theorem tblD_unfold : ∀ zs : List Tr, zs ≠ [] → tblD zs = rowFieldsL zs :: tblD (restAfterRow zs) := by
  intro zs
  induction zs with
  | nil => intro h; exact absurd rfl h
  | cons z zs ih =>
    intro _
    obtain ⟨b, m, nl⟩ := z
    by_cases hnl : nl = true
    · simp [tblD, rowFieldsL, restAfterRow, hnl]
    · simp only [tblD, rowFieldsL, restAfterRow, hnl, Bool.false_eq_true, if_false]
      by_cases hz : zs = []
      · subst hz; simp [tblD, rowFieldsL, restAfterRow]
      · rw [ih hz]

/-! ### positions in the zipped list -/

section pos
variable (T : List Byte) (M N : List Bool)

/-- The triples of a text with its marker and newline bits. -/
def zip3 : List Tr := T.zip (M.zip N)

theorem zip3_length (hM : M.length = T.length) (hN : N.length = T.length) : (zip3 T M N).length = T.length := by
  simp [zip3, hM, hN]

theorem zip3_drop (hM : M.length = T.length) (hN : N.length = T.length) (p : Nat) (hp : p < T.length) :
    (zip3 T M N).drop p = (T[p], M[p]'(by omega), N[p]'(by omega)) :: (zip3 T M N).drop (p + 1) := by
  have hl : p < (zip3 T M N).length := by rw [zip3_length T M N hM hN]; exact hp
  rw [List.drop_eq_getElem_cons hl]
  simp [zip3]

theorem zip3_drop_nil (hM : M.length = T.length) (hN : N.length = T.length) (p : Nat) (hp : T.length ≤ p) :
    (zip3 T M N).drop p = [] := by
  apply List.drop_of_length_le; rw [zip3_length T M N hM hN]; exact hp

theorem getElem_of_getElem? {l : List Bool} {j : Nat} {b : Bool} (h : l[j]? = some b) (hj : j < l.length) :
    l[j] = b := by
  rw [List.getElem?_eq_getElem hj] at h; exact Option.some.inj h

/-- A stretch without markers (hence without newline bits) is one piece of a field. -/
theorem rowFieldsL_stretch (hM : M.length = T.length) (hN : N.length = T.length)
    (hsub : ∀ j : Nat, N[j]? = some true → M[j]? = some true) (e : Nat) (he : e ≤ T.length) :
    ∀ (k p : Nat), p + k = e → (∀ j : Nat, p ≤ j → j < e → M[j]? = some false) →
      rowFieldsL ((zip3 T M N).drop p) = consFirst ((T.drop p).take (e - p)) (rowFieldsL ((zip3 T M N).drop e)) := by
  intro k
  induction k with
  | zero =>
    intro p hp _
    have : p = e := by omega
    subst this
    cases h : rowFieldsL ((zip3 T M N).drop p) with
    | nil => exact absurd h (rowFieldsL_ne_nil _)
    | cons s r => simp [consFirst]
  | succ k ih =>
    intro p hp hno
    have hpl : p < T.length := by omega
    have hmp : M[p]'(by omega) = false := getElem_of_getElem? (hno p (Nat.le_refl _) (by omega)) (by omega)
    have hnp : N[p]'(by omega) = false := by
      cases hb : N[p]'(by omega) with
      | false => rfl
      | true =>
        have := hsub p (by rw [List.getElem?_eq_getElem (by omega), hb])
        rw [hno p (Nat.le_refl _) (by omega)] at this; simp at this
    rw [zip3_drop T M N hM hN p hpl, hmp, hnp]
    simp only [rowFieldsL, stepF, Bool.false_eq_true, if_false]
    rw [ih (p + 1) (by omega) (fun j h1 h2 => hno j (by omega) h2),
      consFirst_consFirst _ _ _ (rowFieldsL_ne_nil _)]
    congr 1
    have : e - p = (e - (p + 1)) + 1 := by omega
    rw [this, List.drop_eq_getElem_cons hpl, List.take_succ_cons]
    simp

theorem restAfterRow_stretch (hM : M.length = T.length) (hN : N.length = T.length) (e : Nat) (he : e ≤ T.length) :
    ∀ (k p : Nat), p + k = e → (∀ j : Nat, p ≤ j → j < e → N[j]? = some false) →
      restAfterRow ((zip3 T M N).drop p) = restAfterRow ((zip3 T M N).drop e) := by
  intro k
  induction k with
  | zero => intro p hp _; have : p = e := by omega
            subst this; rfl
  | succ k ih =>
    intro p hp hno
    have hpl : p < T.length := by omega
    have hnp : N[p]'(by omega) = false := getElem_of_getElem? (hno p (Nat.le_refl _) (by omega)) (by omega)
    rw [zip3_drop T M N hM hN p hpl, hnp]
    simp only [restAfterRow, Bool.false_eq_true, if_false]
    exact ih (p + 1) (by omega) (fun j h1 h2 => hno j (by omega) h2)

end pos

/-! ### iteration of the cursor model = the reference -/

section model
variable {c : Ctx} {M N : List Bool}

/-- Lemma R: the reference row, one field at a time. -/
theorem rowFieldsL_step (g : Good c M N) (hsub : ∀ j : Nat, N[j]? = some true → M[j]? = some true)
    (p : Nat) (hp : p < c.len) :
    rowFieldsL ((zip3 c.text M N).drop p) =
      c.slice p (nextTrue M p) ::
        (if nextTrue M p ≥ c.len ∨ N[nextTrue M p]? = some true then []
         else rowFieldsL ((zip3 c.text M N).drop (nextTrue M p + 1))) := by
  have hl : M.length = c.len := g.lm
  obtain ⟨h1, h2, h3, h4, _⟩ := nextTrue_spec M p (by omega)
  rw [hl] at h2 h4
  generalize nextTrue M p = e at h1 h2 h3 h4
  rw [rowFieldsL_stretch c.text M N g.lm g.ln hsub e h2 (e - p) p (by omega) h3]
  have hs : (c.text.drop p).take (e - p) = c.slice p e := rfl
  rw [hs]
  by_cases he : e ≥ c.len
  · rw [zip3_drop_nil c.text M N g.lm g.ln e he]
    simp [rowFieldsL, consFirst, he]
  · have hel : e < c.len := by omega
    have hme : M[e]'(by omega) = true := getElem_of_getElem? (h4 hel) (by omega)
    rw [zip3_drop c.text M N g.lm g.ln e hel, hme]
    have hne : N[e]? = some (N[e]'(by have := g.ln; simp [Ctx.len] at hel; omega)) :=
      List.getElem?_eq_getElem _
    cases hb : N[e]'(by have := g.ln; simp [Ctx.len] at hel; omega) with
    | true =>
      rw [hb] at hne
      simp [rowFieldsL, consFirst, hne]
    | false =>
      rw [hb] at hne
      simp [rowFieldsL, stepF, consFirst, hne, he]

/-- After a field that did not end its row, the rest of the iteration yields the reference fields
from just behind the delimiter (`[[]]` when the text ends there). -/
theorem collectFields_started (g : Good c M N) (hsub : ∀ j : Nat, N[j]? = some true → M[j]? = some true) :
    ∀ (fuel p : Nat), p < c.len → c.len - p ≤ fuel → nextTrue M p < c.len → N[nextTrue M p]? ≠ some true →
      c.collectFields fuel ⟨p, true, false⟩ = rowFieldsL ((zip3 c.text M N).drop (nextTrue M p + 1)) := by
  intro fuel
  induction fuel with
  | zero => intro p hp hf; omega
  | succ fuel ih =>
    intro p hp hf he hne
    have hl : M.length = c.len := g.lm
    obtain ⟨h1, h2, h3, h4, _⟩ := nextTrue_spec M p (by omega)
    simp only [Ctx.collectFields, Ctx.fieldsNext, Bool.false_eq_true, if_false, Bool.not_true,
      nextField_eq g p hp, he, if_true]
    by_cases hok : nextTrue M p + 1 < c.len
    · have han : c.atNewline (nextTrue M p + 1) = false := by
        rw [atNewline_eq g _ he]; simp [hne]
      simp only [hok, decide_true, Bool.not_true, Bool.false_eq_true, if_false, han]
      rw [currentField_eq g _ hok, rowFieldsL_step g hsub _ hok]
      obtain ⟨k1, k2, _, _, _⟩ := nextTrue_spec M (nextTrue M p + 1) (by omega)
      rw [hl] at k2
      rw [lastFieldCheck_eq g _ (nextTrue M (nextTrue M p + 1)) _
        (by rw [slice_length c _ _ k1 k2]; omega)]
      congr 1
      by_cases hlast : nextTrue M (nextTrue M p + 1) ≥ c.len ∨ N[nextTrue M (nextTrue M p + 1)]? = some true
      · simp only [hlast, if_true]
        have : (decide (nextTrue M (nextTrue M p + 1) ≥ c.len) ||
            decide (N[nextTrue M (nextTrue M p + 1)]? = some true)) = true := by
          rcases hlast with h | h <;> simp [h]
        rw [this]
        cases fuel with
        | zero => rfl
        | succ f => simp [Ctx.collectFields, Ctx.fieldsNext]
      · simp only [hlast, if_false]
        have hl1 : ¬ nextTrue M (nextTrue M p + 1) ≥ c.len := fun h => hlast (Or.inl h)
        have hl2 : ¬ N[nextTrue M (nextTrue M p + 1)]? = some true := fun h => hlast (Or.inr h)
        have : (decide (nextTrue M (nextTrue M p + 1) ≥ c.len) ||
            decide (N[nextTrue M (nextTrue M p + 1)]? = some true)) = false := by simp [hl1, hl2]
        rw [this]
        exact ih (nextTrue M p + 1) hok (by omega) (by omega) hl2
    · have heq : nextTrue M p + 1 = c.len := by omega
      have hd : c.atEndAfterDelimiter (nextTrue M p + 1) = true := by
        rw [atEndAfterDelimiter_eq g]
        have e1 : c.len - 1 = nextTrue M p := by omega
        rw [e1]
        simp [heq, h4 (by omega), hne]; omega
      simp only [hok, decide_false, Bool.not_false, if_true, hd]
      rw [zip3_drop_nil c.text M N g.lm g.ln _ (by simp [Ctx.len] at heq; omega)]
      cases fuel with
      | zero => rfl
      | succ f => simp [Ctx.collectFields, Ctx.fieldsNext, rowFieldsL]

/-- `row.fields().collect()` = the reference fields of the row. -/
theorem rowFields_eq (g : Good c M N) (hsub : ∀ j : Nat, N[j]? = some true → M[j]? = some true)
    (p : Nat) (hp : p < c.len) : c.rowFields p = rowFieldsL ((zip3 c.text M N).drop p) := by
  have hl : M.length = c.len := g.lm
  obtain ⟨h1, h2, _, _, _⟩ := nextTrue_spec M p (by omega)
  rw [hl] at h2
  unfold Ctx.rowFields
  simp only [Ctx.collectFields, Ctx.fieldsNext, Bool.false_eq_true, if_false, Bool.not_false, if_true]
  rw [currentField_eq g p hp, rowFieldsL_step g hsub p hp,
    lastFieldCheck_eq g p (nextTrue M p) _ (by rw [slice_length c _ _ h1 h2]; omega)]
  congr 1
  by_cases hlast : nextTrue M p ≥ c.len ∨ N[nextTrue M p]? = some true
  · simp only [hlast, if_true]
    have : (decide (nextTrue M p ≥ c.len) || decide (N[nextTrue M p]? = some true)) = true := by
      rcases hlast with h | h <;> simp [h]
    rw [this]
    simp [Ctx.collectFields, Ctx.fieldsNext]
  · simp only [hlast, if_false]
    have hl1 : ¬ nextTrue M p ≥ c.len := fun h => hlast (Or.inl h)
    have hl2 : ¬ N[nextTrue M p]? = some true := fun h => hlast (Or.inr h)
    have : (decide (nextTrue M p ≥ c.len) || decide (N[nextTrue M p]? = some true)) = false := by simp [hl1, hl2]
    rw [this]
    exact collectFields_started g hsub (c.len + 1) p hp (by omega) (by omega) hl2

end model

section rows
variable {c : Ctx} {M N : List Bool}

theorem restAfterRow_step (g : Good c M N) (p : Nat) (hp : p < c.len) :
    restAfterRow ((zip3 c.text M N).drop p) =
      if nextTrue N p < c.len then (zip3 c.text M N).drop (nextTrue N p + 1) else [] := by
  have hl : N.length = c.len := g.ln
  obtain ⟨h1, h2, h3, h4, _⟩ := nextTrue_spec N p (by omega)
  rw [hl] at h2 h4
  generalize nextTrue N p = e at h1 h2 h3 h4
  rw [restAfterRow_stretch c.text M N g.lm g.ln e h2 (e - p) p (by omega) h3]
  by_cases he : e < c.len
  · have hne : N[e]'(by omega) = true := getElem_of_getElem? (h4 he) (by omega)
    rw [zip3_drop c.text M N g.lm g.ln e he, hne]
    simp [restAfterRow, he]
  · rw [zip3_drop_nil c.text M N g.lm g.ln e (by simp [Ctx.len] at he h2 ⊢; omega)]
    simp [restAfterRow, he]

theorem collectRows_started (g : Good c M N) (hsub : ∀ j : Nat, N[j]? = some true → M[j]? = some true) :
    ∀ (fuel p : Nat), p < c.len → c.len - p ≤ fuel →
      (c.collectRows fuel p true).map c.rowFields = tblD (restAfterRow ((zip3 c.text M N).drop p)) := by
  intro fuel
  induction fuel with
  | zero => intro p hp hf; omega
  | succ fuel ih =>
    intro p hp hf
    have hl : N.length = c.len := g.ln
    obtain ⟨h1, _, _, _, _⟩ := nextTrue_spec N p (by omega)
    rw [restAfterRow_step g p hp]
    simp only [Ctx.collectRows, Ctx.rowsNext, Bool.not_true, Bool.false_eq_true, if_false, nextRow_eq g p hp]
    by_cases he : nextTrue N p < c.len
    · simp only [he, if_true]
      by_cases hok : nextTrue N p + 1 < c.len
      · simp only [hok, decide_true, if_true, List.map_cons]
        have hz : (zip3 c.text M N).drop (nextTrue N p + 1) ≠ [] := by
          rw [zip3_drop c.text M N g.lm g.ln _ hok]; simp
        rw [tblD_unfold _ hz, rowFields_eq g hsub _ hok, ih _ hok (by omega)]
      · simp only [hok, decide_false, Bool.false_eq_true, if_false, List.map_nil]
        rw [zip3_drop_nil c.text M N g.lm g.ln _ (by simp [Ctx.len] at hok ⊢; omega)]
        rfl
    · simp [he, tblD]

/-- `dsv.rows().map(|r| r.fields().collect())` = the reference table. -/
theorem rows_eq_tblD (g : Good c M N) (hsub : ∀ j : Nat, N[j]? = some true → M[j]? = some true) :
    c.rows = tblD (zip3 c.text M N) := by
  unfold Ctx.rows Ctx.rowStarts
  rw [Ctx.collectRows]
  simp only [Ctx.rowsNext, Bool.not_false, if_true]
  by_cases h0 : c.len = 0
  · have : c.text = [] := by simpa [Ctx.len] using h0
    simp [Ctx.atEnd, h0, zip3, this, tblD]
  · have hae : c.atEnd 0 = false := by simp [Ctx.atEnd]; omega
    have hp0 : 0 < c.len := by omega
    simp only [hae, Bool.false_eq_true, if_false, List.map_cons]
    have hz : zip3 c.text M N ≠ [] := by
      have := zip3_drop c.text M N g.lm g.ln 0 hp0
      rw [List.drop_zero] at this; rw [this]; simp
    have hr := rowFields_eq g hsub 0 hp0
    have hc := collectRows_started g hsub (c.len + 1) 0 hp0 (by omega)
    rw [List.drop_zero] at hr hc
    rw [tblD_unfold _ hz, hr, hc]

end rows

/-! ### the splitting spec = the reference -/

section spec
variable (d q n : Byte)

/-- Triples of a text scanned from quote state `st`. -/
def trip (st : Bool) (text : List Byte) : List Tr :=
  zip3 text (selBitsFrom (fun b => b == d || b == n) q st text) (selBitsFrom (fun b => b == n) q st text)

theorem trip_nil (st : Bool) : trip d q n st [] = [] := by simp [trip, zip3, selBitsFrom]

theorem trip_cons (st : Bool) (b : Byte) (bs : List Byte) :
    trip d q n st (b :: bs) =
      (b, !(quoteAfter q st b) && (b == d || b == n), !(quoteAfter q st b) && b == n)
        :: trip d q n (quoteAfter q st b) bs := by
  simp [trip, zip3, selBitsFrom]

/-- Row segments with the final empty one dropped, from state `st`. -/
def rs (st : Bool) (text : List Byte) : List (List Byte) :=
  let ss := segs n q st text
  if ss.getLast? == some [] then ss.dropLast else ss

theorem rs_nil (st : Bool) : rs q n st [] = [] := by simp [rs, segs]

theorem rs_cons (st : Bool) (b : Byte) (bs : List Byte) :
    rs q n st (b :: bs) =
      if (!(quoteAfter q st b) && b == n) = true then [] :: rs q n (quoteAfter q st b) bs
      else match rs q n (quoteAfter q st b) bs with
        | r :: rest => (b :: r) :: rest
        | [] => [[b]] := by
  have hne := DsvCsvP.segs_ne_nil n q bs (quoteAfter q st b)
  by_cases hsep : (!(quoteAfter q st b) && b == n) = true
  · simp only [hsep, if_true]
    unfold rs
    have hs : segs n q st (b :: bs) = [] :: segs n q (quoteAfter q st b) bs := by
      conv => lhs; unfold segs
      simp [hsep]
    simp only [hs]
    rw [List.getLast?_cons_of_ne_nil hne, List.dropLast_cons_of_ne_nil hne]
    split <;> rfl
  · simp only [hsep, if_false]
    unfold rs
    have hs := DsvCsvP.segs_cons_noSep n q st b bs (by simpa using hsep)
    cases hss : segs n q (quoteAfter q st b) bs with
    | nil => exact absurd hss hne
    | cons seg rest =>
      rw [hs, hss]
      simp only [DsvCsvP.consFirst, List.singleton_append]
      cases rest with
      | nil =>
        by_cases hseg : seg = []
        · subst hseg; simp
        · simp [hseg]
      | cons r2 rest2 =>
        by_cases hl : ((r2 :: rest2).getLast? == some []) = true
        · simp [List.getLast?_cons_cons, hl]
        · simp [List.getLast?_cons_cons, hl]

/-- Rows with their fields, the first row split from state `st`. -/
def specRows (st : Bool) (text : List Byte) : List (List (List Byte)) :=
  match rs q n st text with
  | [] => []
  | r :: rest => segs d q st r :: rest.map (segs d q false)

theorem specRows_false (text : List Byte) :
    specRows d q n false text = (rs q n false text).map (segs d q false) := by
  unfold specRows; cases rs q n false text <;> simp

theorem specRows_eq_tblD : ∀ (text : List Byte) (st : Bool), specRows d q n st text = tblD (trip d q n st text) := by
  intro text
  induction text with
  | nil => intro st; simp [specRows, rs_nil, trip_nil, tblD]
  | cons b bs ih =>
    intro st
    rw [trip_cons]
    unfold specRows
    rw [rs_cons]
    by_cases hnl : (!(quoteAfter q st b) && b == n) = true
    · have hs : quoteAfter q st b = false := by
        cases h : quoteAfter q st b <;> simp [h] at hnl ⊢
      simp only [hnl, if_true, tblD]
      rw [← ih, hs, specRows_false]
      simp [segs]
    · have hnl' : (!(quoteAfter q st b) && b == n) = false := by simpa using hnl
      simp only [hnl, if_false, tblD, hnl', Bool.false_eq_true]
      have hm : (!(quoteAfter q st b) && (b == d || b == n)) = (!(quoteAfter q st b) && b == d) := by
        cases h1 : quoteAfter q st b <;> cases h2 : (b == n) <;> simp [h1, h2] at hnl' ⊢
      rw [hm, ← ih]
      unfold specRows
      cases hrs : rs q n (quoteAfter q st b) bs with
      | nil =>
        simp only
        by_cases hd : (!(quoteAfter q st b) && b == d) = true
        · simp [segs, stepF, hd]
        · have hd' : (!(quoteAfter q st b) && b == d) = false := by simpa using hd
          simp [segs, stepF, hd', DsvCsvP.consFirst]
      | cons r rest =>
        simp only
        by_cases hd : (!(quoteAfter q st b) && b == d) = true
        · conv => lhs; arg 1; unfold segs
          simp [stepF, hd]
        · have hd' : (!(quoteAfter q st b) && b == d) = false := by simpa using hd
          rw [DsvCsvP.segs_cons_noSep d q st b r hd']
          simp [stepF, hd']

theorem rowsSpec_eq_tblD (text : List Byte) :
    rowsSpec d q n text = tblD (zip3 text (markerBits d q n text) (newlineBits d q n text)) := by
  have := specRows_eq_tblD d q n text false
  rw [specRows_false] at this
  exact this

theorem newline_sub_marker (text : List Byte) (j : Nat)
    (h : (newlineBits d q n text)[j]? = some true) : (markerBits d q n text)[j]? = some true := by
  unfold newlineBits at h
  unfold markerBits
  rw [DsvP.selBitsFrom_getElem?] at h ⊢
  cases hb : text[j]? with
  | none => rw [hb] at h; simp at h
  | some b =>
    rw [hb] at h
    simp only [Option.map_some, Option.some.injEq, Bool.and_eq_true] at h ⊢
    refine ⟨h.1, ?_⟩
    simp [h.2]

end spec

/-- **rows_eq / fields_eq on the model**: iterating rows and their fields with the cursor model
yields exactly the quote-aware splitting spec. -/
theorem rows_eq_spec (d q n : Byte) (text : List Byte) : (parse d q n text).rows = rowsSpec d q n text := by
  obtain ⟨g, ht⟩ := parse_good d q n text
  rw [rows_eq_tblD g (newline_sub_marker d q n text), rowsSpec_eq_tblD, ht]

end SV.DsvNavM
