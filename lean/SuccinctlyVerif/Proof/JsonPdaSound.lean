/-
Proof/JsonPdaSound — soundness of the reference automaton (Spec/JsonPda) w.r.t. the grammar
(Spec/Json): `acceptB max b = true → Valid max b`, by backward residual languages `Suff`.
-/
import SuccinctlyVerif.Proof.JsonPdaWF
import SuccinctlyVerif.Proof.JsonComplete
namespace SV.Json.Pda.Snd
open SV.Json SV.Json.Model
set_option linter.unusedSimpArgs false
set_option linter.unusedVariables false

/-! ### residual languages of the syntactic positions -/

/-- a non-empty element list, the closing bracket, then `A` -/
def ArrBodyP (d : Nat) (A : Bytes → Prop) (q : Bytes) : Prop :=
  ∃ body q', q = body ++ 0x5D :: q' ∧ Elems (JValueAt d) body ∧ A q'

/-- a non-empty member list, the closing brace, then `A` -/
def ObjBodyP (d : Nat) (A : Bytes → Prop) (q : Bytes) : Prop :=
  ∃ body q', q = body ++ 0x7D :: q' ∧ Members (JValueAt d) body ∧ A q'

/-- What may follow a complete value under the stack of open containers. -/
def AfterRest (max : Nat) : List Bool → Bytes → Prop
  | [] => fun q => Ws q
  | true :: t => fun q => ∃ w, Ws w ∧
      ((∃ q', q = w ++ 0x5D :: q' ∧ AfterRest max t q') ∨
       (∃ q1, q = w ++ 0x2C :: q1 ∧ ArrBodyP (max - (t.length + 1)) (AfterRest max t) q1))
  | false :: t => fun q => ∃ w, Ws w ∧
      ((∃ q', q = w ++ 0x7D :: q' ∧ AfterRest max t q') ∨
       (∃ q1, q = w ++ 0x2C :: q1 ∧ ObjBodyP (max - (t.length + 1)) (AfterRest max t) q1))

/-- whitespace, a value, then `AfterRest` -/
def ValRest (max : Nat) (stk : List Bool) (q : Bytes) : Prop :=
  ∃ w v q2, Ws w ∧ JValueAt (max - stk.length) v ∧ AfterRest max stk q2 ∧ q = w ++ (v ++ q2)

def ArrStartRest (max : Nat) (stk : List Bool) (q : Bytes) : Prop :=
  ∃ t, stk = true :: t ∧
    ((∃ w q', Ws w ∧ q = w ++ 0x5D :: q' ∧ AfterRest max t q') ∨ ValRest max stk q)

def KeyRest (max : Nat) (stk : List Bool) (q : Bytes) : Prop :=
  ∃ t, stk = false :: t ∧ ObjBodyP (max - stk.length) (AfterRest max t) q

def ObjStartRest (max : Nat) (stk : List Bool) (q : Bytes) : Prop :=
  ∃ t, stk = false :: t ∧
    ((∃ w q', Ws w ∧ q = w ++ 0x7D :: q' ∧ AfterRest max t q') ∨
      ObjBodyP (max - stk.length) (AfterRest max t) q)

def ObjColonRest (max : Nat) (stk : List Bool) (q : Bytes) : Prop :=
  ∃ w q3, Ws w ∧ q = w ++ 0x3A :: q3 ∧ ValRest max stk q3

/-- what follows the closing quote of a string -/
def StrEnd (max : Nat) (key : Bool) (stk : List Bool) (q : Bytes) : Prop :=
  match key with
  | true => ObjColonRest max stk q
  | false => AfterRest max stk q

/-! ### residual languages inside a string (`E` = what follows the closing quote) -/

def StrR (E : Bytes → Prop) (q : Bytes) : Prop :=
  ∃ body q2, q = body ++ 0x22 :: q2 ∧ StrBody body ∧ E q2

def EscR (E : Bytes → Prop) (q : Bytes) : Prop :=
  ∃ rest q1, q = rest ++ q1 ∧ EscSeq (0x5C :: rest) ∧ StrR E q1

def UniR (E : Bytes → Prop) (n v : Nat) (q : Bytes) : Prop :=
  ∀ pre : Bytes, pre.length = n → (∀ h ∈ pre, isHex h = true) → hexFold 0 pre = v →
    ∃ rest q1, q = rest ++ q1 ∧ EscSeq (0x5C :: 0x75 :: (pre ++ rest)) ∧ StrR E q1

def HiBsR (E : Bytes → Prop) (q : Bytes) : Prop :=
  ∃ a b c d q1, q = 0x75 :: a :: b :: c :: d :: q1 ∧
    isHex a = true ∧ isHex b = true ∧ isHex c = true ∧ isHex d = true ∧
    isLowSurr (hex4 a b c d) = true ∧ StrR E q1

def HiDoneR (E : Bytes → Prop) (q : Bytes) : Prop :=
  ∃ q0, q = 0x5C :: q0 ∧ HiBsR E q0

def LoR (E : Bytes → Prop) (n : Nat) (q : Bytes) : Prop :=
  match n with
  | 0 => ∃ a b c d q1, q = a :: b :: c :: d :: q1 ∧
      isHex a = true ∧ isHex b = true ∧ isHex c = true ∧ isHex d = true ∧
      isLowSurr (hex4 a b c d) = true ∧ StrR E q1
  | 1 => ∃ b c d q1, q = b :: c :: d :: q1 ∧
      isHex b = true ∧ isHex c = true ∧ isHex d = true ∧ 12 ≤ hexVal b ∧ StrR E q1
  | 2 => ∃ c d q1, q = c :: d :: q1 ∧ isHex c = true ∧ isHex d = true ∧ StrR E q1
  | _ => ∃ d q1, q = d :: q1 ∧ isHex d = true ∧ StrR E q1

def Utf8R (E : Bytes → Prop) (n : Nat) (lo hi : Byte) (q : Bytes) : Prop :=
  ∃ c cs q1, q = c :: (cs ++ q1) ∧ cs.length + 1 = n ∧ lo ≤ c ∧ c ≤ hi ∧
    (∀ x ∈ cs, isCont x = true) ∧ StrR E q1

/-! ### residual languages inside a number (`A` = what follows the number) -/

def SignP (sg : Bytes) : Prop := sg = [] ∨ sg = [0x2B] ∨ sg = [0x2D]

def ExpR (A : Bytes → Prop) (q : Bytes) : Prop :=
  ∃ ds q2, q = ds ++ q2 ∧ Digits ds ∧ A q2
def ESignR (A : Bytes → Prop) (q : Bytes) : Prop :=
  ∃ ds q2, q = ds ++ q2 ∧ ds ≠ [] ∧ Digits ds ∧ A q2
def ER (A : Bytes → Prop) (q : Bytes) : Prop :=
  ∃ sg ds q2, q = sg ++ (ds ++ q2) ∧ SignP sg ∧ ds ≠ [] ∧ Digits ds ∧ A q2
def FracR (A : Bytes → Prop) (q : Bytes) : Prop :=
  ∃ ds ep q2, q = ds ++ (ep ++ q2) ∧ Digits ds ∧ ExpPart ep ∧ A q2
def DotR (A : Bytes → Prop) (q : Bytes) : Prop :=
  ∃ ds ep q2, q = ds ++ (ep ++ q2) ∧ ds ≠ [] ∧ Digits ds ∧ ExpPart ep ∧ A q2
def ZeroR (A : Bytes → Prop) (q : Bytes) : Prop :=
  ∃ fp ep q2, q = fp ++ (ep ++ q2) ∧ FracPart fp ∧ ExpPart ep ∧ A q2
def IntR (A : Bytes → Prop) (q : Bytes) : Prop :=
  ∃ ds fp ep q2, q = ds ++ (fp ++ (ep ++ q2)) ∧ Digits ds ∧ FracPart fp ∧ ExpPart ep ∧ A q2
def MinusR (A : Bytes → Prop) (q : Bytes) : Prop :=
  ∃ ip fp ep q2, q = ip ++ (fp ++ (ep ++ q2)) ∧ IntPart ip ∧ FracPart fp ∧ ExpPart ep ∧ A q2
def KwR (A : Bytes → Prop) (r : Bytes) (q : Bytes) : Prop :=
  ∃ q2, q = r ++ q2 ∧ A q2

/-- `Suff max st q`: the suffix `q`, read from state `st`, completes a valid text. -/
def Suff (max : Nat) (st : PState) (q : Bytes) : Prop :=
  match st.lex with
  | .top | .arrNext | .objVal => ValRest max st.stack q
  | .after => AfterRest max st.stack q
  | .arrStart => ArrStartRest max st.stack q
  | .objStart => ObjStartRest max st.stack q
  | .objKey => KeyRest max st.stack q
  | .objColon => ObjColonRest max st.stack q
  | .str k => StrR (StrEnd max k st.stack) q
  | .esc k => EscR (StrEnd max k st.stack) q
  | .uni k n v => UniR (StrEnd max k st.stack) n v q
  | .hiDone k => HiDoneR (StrEnd max k st.stack) q
  | .hiBs k => HiBsR (StrEnd max k st.stack) q
  | .lo k n => LoR (StrEnd max k st.stack) n q
  | .utf8 k n lo hi => Utf8R (StrEnd max k st.stack) n lo hi q
  | .minus => MinusR (AfterRest max st.stack) q
  | .zero => ZeroR (AfterRest max st.stack) q
  | .int => IntR (AfterRest max st.stack) q
  | .dot => DotR (AfterRest max st.stack) q
  | .frac => FracR (AfterRest max st.stack) q
  | .e => ER (AfterRest max st.stack) q
  | .esign => ESignR (AfterRest max st.stack) q
  | .exp => ExpR (AfterRest max st.stack) q
  | .kw r => KwR (AfterRest max st.stack) r q

/-! ### whitespace closure and assembling of containers -/

theorem ws_cons {b : Byte} {w : Bytes} (hb : isWs b = true) (hw : Ws w) : Ws (b :: w) := by
  intro x hx; simp at hx; rcases hx with rfl | hx
  · exact hb
  · exact hw x hx

theorem afterRest_ws (max : Nat) {b : Byte} (hb : isWs b = true) :
    ∀ (stk : List Bool) (q : Bytes), AfterRest max stk q → AfterRest max stk (b :: q) := by
  intro stk q h
  match stk, h with
  | [], h => exact ws_cons hb h
  | true :: t, ⟨w, hw, h⟩ =>
    refine ⟨b :: w, ws_cons hb hw, ?_⟩
    rcases h with ⟨q', rfl, h'⟩ | ⟨q1, rfl, h'⟩
    · exact Or.inl ⟨q', rfl, h'⟩
    · exact Or.inr ⟨q1, rfl, h'⟩
  | false :: t, ⟨w, hw, h⟩ =>
    refine ⟨b :: w, ws_cons hb hw, ?_⟩
    rcases h with ⟨q', rfl, h'⟩ | ⟨q1, rfl, h'⟩
    · exact Or.inl ⟨q', rfl, h'⟩
    · exact Or.inr ⟨q1, rfl, h'⟩

theorem valRest_ws (max : Nat) {b : Byte} (hb : isWs b = true) {stk : List Bool} {q : Bytes}
    (h : ValRest max stk q) : ValRest max stk (b :: q) := by
  obtain ⟨w, v, q2, hw, hv, ha, rfl⟩ := h
  exact ⟨b :: w, v, q2, ws_cons hb hw, hv, ha, rfl⟩

theorem arrBody_ws {d : Nat} {A : Bytes → Prop} {b : Byte} (hb : isWs b = true) {q : Bytes}
    (h : ArrBodyP d A q) : ArrBodyP d A (b :: q) := by
  obtain ⟨body, q', rfl, he, ha⟩ := h
  exact ⟨[b] ++ body, q', rfl, elems_prependWs (ws_cons hb ws_nil) he, ha⟩

theorem objBody_ws {d : Nat} {A : Bytes → Prop} {b : Byte} (hb : isWs b = true) {q : Bytes}
    (h : ObjBodyP d A q) : ObjBodyP d A (b :: q) := by
  obtain ⟨body, q', rfl, he, ha⟩ := h
  exact ⟨[b] ++ body, q', rfl, members_prependWs (ws_cons hb ws_nil) he, ha⟩

/-- a value followed by what may follow it inside an array is an element list and the closer -/
theorem valRest_arrBody (max : Nat) {t : List Bool} {q : Bytes} (h : ValRest max (true :: t) q) :
    ArrBodyP (max - (t.length + 1)) (AfterRest max t) q := by
  obtain ⟨w, v, q2, hw, hv, ha, rfl⟩ := h
  simp only [List.length_cons] at hv
  obtain ⟨w2, hw2, ha⟩ := ha
  rcases ha with ⟨q', rfl, ha⟩ | ⟨q1, rfl, body, q', rfl, hb, ha⟩
  · exact ⟨w ++ (v ++ w2), q', by simp, Elems.one w v w2 hw hv hw2, ha⟩
  · exact ⟨w ++ (v ++ (w2 ++ 0x2C :: body)), q', by simp, Elems.cons w v w2 body hw hv hw2 hb, ha⟩

/-- a key, the colon part, a value and what may follow it inside an object -/
theorem key_objBody (max : Nat) {t : List Bool} {k q : Bytes} (hk : StringLit k)
    (h : ObjColonRest max (false :: t) q) :
    ObjBodyP (max - (t.length + 1)) (AfterRest max t) (k ++ q) := by
  obtain ⟨w2, q3, hw2, rfl, w3, v, q4, hw3, hv, ha, rfl⟩ := h
  simp only [List.length_cons] at hv
  obtain ⟨w4, hw4, ha⟩ := ha
  rcases ha with ⟨q', rfl, ha⟩ | ⟨q1, rfl, body, q', rfl, hb, ha⟩
  · exact ⟨[] ++ (k ++ (w2 ++ 0x3A :: (w3 ++ (v ++ w4)))), q', by simp,
      Members.one [] k w2 w3 v w4 ws_nil hk hw2 hw3 hv hw4, ha⟩
  · exact ⟨[] ++ (k ++ (w2 ++ 0x3A :: (w3 ++ (v ++ (w4 ++ 0x2C :: body))))), q', by simp,
      Members.cons [] k w2 w3 v w4 body ws_nil hk hw2 hw3 hv hw4 hb, ha⟩

/-! ### `afterStep` and `startValue` -/

theorem afterStep_sound (max : Nat) {stk : List Bool} {b : Byte} {st' : PState} {q : Bytes}
    (h : afterStep stk b = some st') (hs : Suff max st' q) : AfterRest max stk (b :: q) := by
  unfold afterStep at h
  split at h
  · rename_i hb; cases h; exact afterRest_ws max hb _ _ hs
  · split at h
    · cases h
    · split at h
      · rename_i hb; subst hb; cases h
        exact ⟨[], ws_nil, Or.inr ⟨q, rfl, valRest_arrBody max hs⟩⟩
      · split at h
        · rename_i hb; subst hb; cases h
          exact ⟨[], ws_nil, Or.inl ⟨q, rfl, hs⟩⟩
        · cases h
    · split at h
      · rename_i hb; subst hb; cases h
        obtain ⟨t, ht, hs⟩ := hs
        cases ht
        exact ⟨[], ws_nil, Or.inr ⟨q, rfl, hs⟩⟩
      · split at h
        · rename_i hb; subst hb; cases h
          exact ⟨[], ws_nil, Or.inl ⟨q, rfl, hs⟩⟩
        · cases h

theorem digits_nil : Digits [] := by intro x hx; simp at hx
theorem digits_cons {b : Byte} {ds : Bytes} (hb : isDigit b = true) (hd : Digits ds) :
    Digits (b :: ds) := by
  intro x hx; simp at hx; rcases hx with rfl | hx
  · exact hb
  · exact hd x hx

theorem isE_cases {b : Byte} (h : isE b = true) : b = 0x65 ∨ b = 0x45 := by
  simpa [isE] using h

theorem scalar_num {v : Bytes} (h : NumberLit v) : Scalar v := Or.inr (Or.inr (Or.inr (Or.inl h)))
theorem scalar_str {v : Bytes} (h : StringLit v) : Scalar v := Or.inr (Or.inr (Or.inr (Or.inr h)))

theorem startValue_sound (max : Nat) {stk : List Bool} {b : Byte} {st' : PState} {q : Bytes}
    (h : startValue max stk b = some st') (hs : Suff max st' q) :
    ∃ v q2, b :: q = v ++ q2 ∧ JValueAt (max - stk.length) v ∧ AfterRest max stk q2 := by
  unfold startValue at h
  split at h
  · rename_i hb; subst hb
    split at h
    · cases h
    · rename_i hlen; cases h
      have hmax : max - stk.length = (max - (stk.length + 1)) + 1 := by omega
      obtain ⟨t, ht, hs⟩ := hs
      cases ht
      rcases hs with ⟨w, q', hw, rfl, ha⟩ | hv
      · refine ⟨0x5B :: (w ++ [0x5D]), q', by simp, ?_, ha⟩
        rw [hmax]; exact Or.inr (Or.inl ⟨w, hw, rfl⟩)
      · obtain ⟨body, q', rfl, he, ha⟩ := valRest_arrBody max hv
        refine ⟨0x5B :: (body ++ [0x5D]), q', by simp, ?_, ha⟩
        rw [hmax]; exact Or.inr (Or.inr (Or.inl ⟨body, he, rfl⟩))
  · split at h
    · rename_i hb; subst hb
      split at h
      · cases h
      · rename_i hlen; cases h
        have hmax : max - stk.length = (max - (stk.length + 1)) + 1 := by omega
        obtain ⟨t, ht, hs⟩ := hs
        cases ht
        rcases hs with ⟨w, q', hw, rfl, ha⟩ | ⟨body, q', rfl, he, ha⟩
        · refine ⟨0x7B :: (w ++ [0x7D]), q', by simp, ?_, ha⟩
          rw [hmax]; exact Or.inr (Or.inr (Or.inr (Or.inl ⟨w, hw, rfl⟩)))
        · refine ⟨0x7B :: (body ++ [0x7D]), q', by simp, ?_, ha⟩
          rw [hmax]; exact Or.inr (Or.inr (Or.inr (Or.inr ⟨body, he, rfl⟩)))
    · split at h
      · rename_i hb; subst hb; cases h
        obtain ⟨body, q2, rfl, hbody, ha⟩ := hs
        exact ⟨0x22 :: (body ++ [0x22]), q2, by simp,
          JValueAt.ofScalar (scalar_str ⟨body, hbody, rfl⟩) _, ha⟩
      · split at h
        · rename_i hb; subst hb; cases h
          obtain ⟨ip, fp, ep, q2, rfl, hip, hfp, hep, ha⟩ := hs
          exact ⟨[0x2D] ++ (ip ++ (fp ++ ep)), q2, by simp,
            JValueAt.ofScalar (scalar_num ⟨[0x2D], ip, fp, ep, rfl, Or.inr rfl, hip, hfp, hep⟩) _, ha⟩
        · split at h
          · rename_i hb; subst hb; cases h
            obtain ⟨fp, ep, q2, rfl, hfp, hep, ha⟩ := hs
            exact ⟨[] ++ ([0x30] ++ (fp ++ ep)), q2, by simp,
              JValueAt.ofScalar (scalar_num ⟨[], [0x30], fp, ep, rfl, Or.inl rfl, Or.inl rfl, hfp, hep⟩) _,
              ha⟩
          · split at h
            · rename_i hb; cases h
              obtain ⟨ds, fp, ep, q2, rfl, hds, hfp, hep, ha⟩ := hs
              exact ⟨[] ++ ((b :: ds) ++ (fp ++ ep)), q2, by simp,
                JValueAt.ofScalar (scalar_num ⟨[], b :: ds, fp, ep, rfl, Or.inl rfl,
                  Or.inr ⟨b, ds, rfl, hb, hds⟩, hfp, hep⟩) _, ha⟩
            · split at h
              · rename_i hb; subst hb; cases h
                obtain ⟨q2, rfl, ha⟩ := hs
                exact ⟨kwTrue, q2, rfl, JValueAt.ofScalar (Or.inr (Or.inl rfl)) _, ha⟩
              · split at h
                · rename_i hb; subst hb; cases h
                  obtain ⟨q2, rfl, ha⟩ := hs
                  exact ⟨kwFalse, q2, rfl, JValueAt.ofScalar (Or.inr (Or.inr (Or.inl rfl))) _, ha⟩
                · split at h
                  · rename_i hb; subst hb; cases h
                    obtain ⟨q2, rfl, ha⟩ := hs
                    exact ⟨kwNull, q2, rfl, JValueAt.ofScalar (Or.inl rfl) _, ha⟩
                  · cases h

theorem startValue_valRest (max : Nat) {stk : List Bool} {b : Byte} {st' : PState} {q : Bytes}
    (h : startValue max stk b = some st') (hs : Suff max st' q) : ValRest max stk (b :: q) := by
  obtain ⟨v, q2, he, hv, ha⟩ := startValue_sound max h hs
  exact ⟨[], v, q2, ws_nil, hv, ha, by simpa using he⟩

/-! ### one step: syntactic positions -/

theorem step_top (max : Nat) {stk : List Bool} {b : Byte} {st' : PState} {q : Bytes}
    (h : step max ⟨.top, stk⟩ b = some st') (hs : Suff max st' q) :
    Suff max ⟨.top, stk⟩ (b :: q) := by
  simp only [step] at h
  split at h
  · rename_i hb; cases h; exact valRest_ws max hb hs
  · exact startValue_valRest max h hs

theorem step_arrNext (max : Nat) {stk : List Bool} {b : Byte} {st' : PState} {q : Bytes}
    (h : step max ⟨.arrNext, stk⟩ b = some st') (hs : Suff max st' q) :
    Suff max ⟨.arrNext, stk⟩ (b :: q) := by
  simp only [step] at h
  split at h
  · rename_i hb; cases h; exact valRest_ws max hb hs
  · exact startValue_valRest max h hs

theorem step_objVal (max : Nat) {stk : List Bool} {b : Byte} {st' : PState} {q : Bytes}
    (h : step max ⟨.objVal, stk⟩ b = some st') (hs : Suff max st' q) :
    Suff max ⟨.objVal, stk⟩ (b :: q) := by
  simp only [step] at h
  split at h
  · rename_i hb; cases h; exact valRest_ws max hb hs
  · exact startValue_valRest max h hs

theorem step_after (max : Nat) {stk : List Bool} {b : Byte} {st' : PState} {q : Bytes}
    (h : step max ⟨.after, stk⟩ b = some st') (hs : Suff max st' q) :
    Suff max ⟨.after, stk⟩ (b :: q) := by
  simp only [step] at h
  exact afterStep_sound max h hs

theorem step_arrStart (max : Nat) {stk : List Bool} {b : Byte} {st' : PState} {q : Bytes}
    (hwf : WF max ⟨.arrStart, stk⟩)
    (h : step max ⟨.arrStart, stk⟩ b = some st') (hs : Suff max st' q) :
    Suff max ⟨.arrStart, stk⟩ (b :: q) := by
  obtain ⟨t, ht⟩ := hwf.2
  simp only at ht; subst ht
  simp only [step] at h
  split at h
  · rename_i hb; cases h
    obtain ⟨t', ht', hs⟩ := hs
    cases ht'
    refine ⟨t, rfl, ?_⟩
    rcases hs with ⟨w, q', hw, rfl, ha⟩ | hv
    · exact Or.inl ⟨b :: w, q', ws_cons hb hw, rfl, ha⟩
    · exact Or.inr (valRest_ws max hb hv)
  · split at h
    · rename_i hb; subst hb; cases h
      exact ⟨t, rfl, Or.inl ⟨[], q, ws_nil, rfl, hs⟩⟩
    · exact ⟨t, rfl, Or.inr (startValue_valRest max h hs)⟩

theorem str_key_objBody (max : Nat) {t : List Bool} {q : Bytes}
    (hs : StrR (StrEnd max true (false :: t)) q) :
    ObjBodyP (max - (t.length + 1)) (AfterRest max t) (0x22 :: q) := by
  obtain ⟨body, q2, rfl, hbody, he⟩ := hs
  have := key_objBody max (k := 0x22 :: (body ++ [0x22])) ⟨body, hbody, rfl⟩ he
  simpa using this

theorem step_objStart (max : Nat) {stk : List Bool} {b : Byte} {st' : PState} {q : Bytes}
    (hwf : WF max ⟨.objStart, stk⟩)
    (h : step max ⟨.objStart, stk⟩ b = some st') (hs : Suff max st' q) :
    Suff max ⟨.objStart, stk⟩ (b :: q) := by
  obtain ⟨t, ht⟩ := hwf.2
  simp only at ht; subst ht
  simp only [step] at h
  split at h
  · rename_i hb; cases h
    obtain ⟨t', ht', hs⟩ := hs
    cases ht'
    refine ⟨t, rfl, ?_⟩
    rcases hs with ⟨w, q', hw, rfl, ha⟩ | hv
    · exact Or.inl ⟨b :: w, q', ws_cons hb hw, rfl, ha⟩
    · exact Or.inr (objBody_ws hb hv)
  · split at h
    · rename_i hb; subst hb; cases h
      exact ⟨t, rfl, Or.inl ⟨[], q, ws_nil, rfl, hs⟩⟩
    · split at h
      · rename_i hb; subst hb; cases h
        exact ⟨t, rfl, Or.inr (str_key_objBody max hs)⟩
      · cases h

theorem step_objKey (max : Nat) {stk : List Bool} {b : Byte} {st' : PState} {q : Bytes}
    (hwf : WF max ⟨.objKey, stk⟩)
    (h : step max ⟨.objKey, stk⟩ b = some st') (hs : Suff max st' q) :
    Suff max ⟨.objKey, stk⟩ (b :: q) := by
  obtain ⟨t, ht⟩ := hwf.2
  simp only at ht; subst ht
  simp only [step] at h
  split at h
  · rename_i hb; cases h
    obtain ⟨t', ht', hs⟩ := hs
    cases ht'
    exact ⟨t, rfl, objBody_ws hb hs⟩
  · split at h
    · rename_i hb; subst hb; cases h
      exact ⟨t, rfl, str_key_objBody max hs⟩
    · cases h

theorem step_objColon (max : Nat) {stk : List Bool} {b : Byte} {st' : PState} {q : Bytes}
    (h : step max ⟨.objColon, stk⟩ b = some st') (hs : Suff max st' q) :
    Suff max ⟨.objColon, stk⟩ (b :: q) := by
  simp only [step] at h
  split at h
  · rename_i hb; cases h
    obtain ⟨w, q3, hw, rfl, hv⟩ := hs
    exact ⟨b :: w, q3, ws_cons hb hw, rfl, hv⟩
  · split at h
    · rename_i hb; subst hb; cases h
      exact ⟨[], q, ws_nil, rfl, hs⟩
    · cases h

/-! ### one step: numbers and keywords -/

theorem step_minus (max : Nat) {stk : List Bool} {b : Byte} {st' : PState} {q : Bytes}
    (h : step max ⟨.minus, stk⟩ b = some st') (hs : Suff max st' q) :
    Suff max ⟨.minus, stk⟩ (b :: q) := by
  simp only [step] at h
  split at h
  · rename_i hb; subst hb; cases h
    obtain ⟨fp, ep, q2, rfl, hfp, hep, ha⟩ := hs
    exact ⟨[0x30], fp, ep, q2, rfl, Or.inl rfl, hfp, hep, ha⟩
  · split at h
    · rename_i hb; cases h
      obtain ⟨ds, fp, ep, q2, rfl, hds, hfp, hep, ha⟩ := hs
      exact ⟨b :: ds, fp, ep, q2, rfl, Or.inr ⟨b, ds, rfl, hb, hds⟩, hfp, hep, ha⟩
    · cases h

theorem step_zero (max : Nat) {stk : List Bool} {b : Byte} {st' : PState} {q : Bytes}
    (h : step max ⟨.zero, stk⟩ b = some st') (hs : Suff max st' q) :
    Suff max ⟨.zero, stk⟩ (b :: q) := by
  simp only [step] at h
  split at h
  · rename_i hb; subst hb; cases h
    obtain ⟨ds, ep, q2, rfl, hne, hds, hep, ha⟩ := hs
    exact ⟨0x2E :: ds, ep, q2, rfl, Or.inr ⟨ds, rfl, hne, hds⟩, hep, ha⟩
  · split at h
    · rename_i hE; cases h
      obtain ⟨sg, ds, q2, rfl, hsg, hne, hds, ha⟩ := hs
      exact ⟨[], b :: (sg ++ ds), q2, by simp, Or.inl rfl,
        Or.inr ⟨b, sg, ds, rfl, isE_cases hE, hsg, hne, hds⟩, ha⟩
    · exact ⟨[], [], b :: q, rfl, Or.inl rfl, Or.inl rfl, afterStep_sound max h hs⟩

theorem step_int (max : Nat) {stk : List Bool} {b : Byte} {st' : PState} {q : Bytes}
    (h : step max ⟨.int, stk⟩ b = some st') (hs : Suff max st' q) :
    Suff max ⟨.int, stk⟩ (b :: q) := by
  simp only [step] at h
  split at h
  · rename_i hd; cases h
    obtain ⟨ds, fp, ep, q2, rfl, hds, hfp, hep, ha⟩ := hs
    exact ⟨b :: ds, fp, ep, q2, rfl, digits_cons hd hds, hfp, hep, ha⟩
  · split at h
    · rename_i hb; subst hb; cases h
      obtain ⟨ds, ep, q2, rfl, hne, hds, hep, ha⟩ := hs
      exact ⟨[], 0x2E :: ds, ep, q2, rfl, digits_nil, Or.inr ⟨ds, rfl, hne, hds⟩, hep, ha⟩
    · split at h
      · rename_i hE; cases h
        obtain ⟨sg, ds, q2, rfl, hsg, hne, hds, ha⟩ := hs
        exact ⟨[], [], b :: (sg ++ ds), q2, by simp, digits_nil, Or.inl rfl,
          Or.inr ⟨b, sg, ds, rfl, isE_cases hE, hsg, hne, hds⟩, ha⟩
      · exact ⟨[], [], [], b :: q, rfl, digits_nil, Or.inl rfl, Or.inl rfl,
          afterStep_sound max h hs⟩

theorem step_dot (max : Nat) {stk : List Bool} {b : Byte} {st' : PState} {q : Bytes}
    (h : step max ⟨.dot, stk⟩ b = some st') (hs : Suff max st' q) :
    Suff max ⟨.dot, stk⟩ (b :: q) := by
  simp only [step] at h
  split at h
  · rename_i hd; cases h
    obtain ⟨ds, ep, q2, rfl, hds, hep, ha⟩ := hs
    exact ⟨b :: ds, ep, q2, rfl, by simp, digits_cons hd hds, hep, ha⟩
  · cases h

theorem step_frac (max : Nat) {stk : List Bool} {b : Byte} {st' : PState} {q : Bytes}
    (h : step max ⟨.frac, stk⟩ b = some st') (hs : Suff max st' q) :
    Suff max ⟨.frac, stk⟩ (b :: q) := by
  simp only [step] at h
  split at h
  · rename_i hd; cases h
    obtain ⟨ds, ep, q2, rfl, hds, hep, ha⟩ := hs
    exact ⟨b :: ds, ep, q2, rfl, digits_cons hd hds, hep, ha⟩
  · split at h
    · rename_i hE; cases h
      obtain ⟨sg, ds, q2, rfl, hsg, hne, hds, ha⟩ := hs
      exact ⟨[], b :: (sg ++ ds), q2, by simp, digits_nil,
        Or.inr ⟨b, sg, ds, rfl, isE_cases hE, hsg, hne, hds⟩, ha⟩
    · exact ⟨[], [], b :: q, rfl, digits_nil, Or.inl rfl, afterStep_sound max h hs⟩

theorem step_e (max : Nat) {stk : List Bool} {b : Byte} {st' : PState} {q : Bytes}
    (h : step max ⟨.e, stk⟩ b = some st') (hs : Suff max st' q) :
    Suff max ⟨.e, stk⟩ (b :: q) := by
  simp only [step] at h
  split at h
  · rename_i hb; cases h
    obtain ⟨ds, q2, rfl, hne, hds, ha⟩ := hs
    refine ⟨[b], ds, q2, rfl, ?_, hne, hds, ha⟩
    rcases hb with rfl | rfl
    · exact Or.inr (Or.inl rfl)
    · exact Or.inr (Or.inr rfl)
  · split at h
    · rename_i hd; cases h
      obtain ⟨ds, q2, rfl, hds, ha⟩ := hs
      exact ⟨[], b :: ds, q2, rfl, Or.inl rfl, by simp, digits_cons hd hds, ha⟩
    · cases h

theorem step_esign (max : Nat) {stk : List Bool} {b : Byte} {st' : PState} {q : Bytes}
    (h : step max ⟨.esign, stk⟩ b = some st') (hs : Suff max st' q) :
    Suff max ⟨.esign, stk⟩ (b :: q) := by
  simp only [step] at h
  split at h
  · rename_i hd; cases h
    obtain ⟨ds, q2, rfl, hds, ha⟩ := hs
    exact ⟨b :: ds, q2, rfl, by simp, digits_cons hd hds, ha⟩
  · cases h

theorem step_exp (max : Nat) {stk : List Bool} {b : Byte} {st' : PState} {q : Bytes}
    (h : step max ⟨.exp, stk⟩ b = some st') (hs : Suff max st' q) :
    Suff max ⟨.exp, stk⟩ (b :: q) := by
  simp only [step] at h
  split at h
  · rename_i hd; cases h
    obtain ⟨ds, q2, rfl, hds, ha⟩ := hs
    exact ⟨b :: ds, q2, rfl, digits_cons hd hds, ha⟩
  · exact ⟨[], b :: q, rfl, digits_nil, afterStep_sound max h hs⟩

theorem step_kw (max : Nat) {stk : List Bool} {r : Bytes} {b : Byte} {st' : PState} {q : Bytes}
    (h : step max ⟨.kw r, stk⟩ b = some st') (hs : Suff max st' q) :
    Suff max ⟨.kw r, stk⟩ (b :: q) := by
  simp only [step] at h
  split at h
  · exact ⟨b :: q, rfl, afterStep_sound max h hs⟩
  · split at h
    · rename_i c r' hb; subst hb
      split at h
      · rename_i he; cases h
        have : r' = [] := by simpa using he
        subst this
        exact ⟨q, rfl, hs⟩
      · cases h
        obtain ⟨q2, rfl, ha⟩ := hs
        exact ⟨q2, rfl, ha⟩
    · cases h

/-! ### one step: strings -/

theorem strR_close {E : Bytes → Prop} {q : Bytes} (h : E q) : StrR E (0x22 :: q) :=
  ⟨[], q, rfl, StrBody.nil, h⟩

theorem strR_char {E : Bytes → Prop} {c q : Bytes} (hc : strCharOk c = true) (h : StrR E q) :
    StrR E (c ++ q) := by
  obtain ⟨body, q2, rfl, hb, he⟩ := h
  exact ⟨c ++ body, q2, by simp, StrBody.char c body hc hb, he⟩

theorem strR_esc {E : Bytes → Prop} {e q : Bytes} (hc : EscSeq e) (h : StrR E q) :
    StrR E (e ++ q) := by
  obtain ⟨body, q2, rfl, hb, he⟩ := h
  exact ⟨e ++ body, q2, by simp, StrBody.ofEsc hc hb, he⟩

theorem ok1 (a : Byte) (h1 : ¬ a = 0x22) (h2 : ¬ a = 0x5C) (h3 : ¬ a < 0x20) (h4 : a ≤ 0x7F) :
    strCharOk [a] = true := by
  simp [strCharOk, utf8Wf]
  refine ⟨h4, ⟨?_, h1⟩, h2⟩
  bv_omega

theorem ok2 (a b : Byte) (h : 0xC2 ≤ a ∧ a ≤ 0xDF) (h1 : 0x80 ≤ b) (h2 : b ≤ 0xBF) :
    strCharOk [a, b] = true := by
  simp [strCharOk, utf8Wf, isCont]
  exact ⟨h, h1, h2⟩

theorem ok3 (a b c : Byte)
    (h : (a = 0xE0 ∧ 0xA0 ≤ b ∧ b ≤ 0xBF) ∨ (a = 0xED ∧ 0x80 ≤ b ∧ b ≤ 0x9F) ∨
      ((0xE1 ≤ a ∧ a ≤ 0xEF) ∧ ¬ a = 0xED ∧ 0x80 ≤ b ∧ b ≤ 0xBF))
    (hc : isCont c = true) : strCharOk [a, b, c] = true := by
  simp [strCharOk, utf8Wf, isCont] at *
  bv_omega

theorem ok4 (a b c d : Byte)
    (h : (a = 0xF0 ∧ 0x90 ≤ b ∧ b ≤ 0xBF) ∨ (a = 0xF4 ∧ 0x80 ≤ b ∧ b ≤ 0x8F) ∨
      ((0xF1 ≤ a ∧ a ≤ 0xF3) ∧ 0x80 ≤ b ∧ b ≤ 0xBF))
    (hc : isCont c = true) (hd : isCont d = true) : strCharOk [a, b, c, d] = true := by
  simp [strCharOk, utf8Wf, isCont] at *
  bv_omega

theorem utf8R_1 {E : Bytes → Prop} {lo hi a : Byte} {q : Bytes} (hs : Utf8R E 1 lo hi q)
    (hok : ∀ b, lo ≤ b → b ≤ hi → strCharOk [a, b] = true) : StrR E (a :: q) := by
  obtain ⟨c, cs, q1, rfl, hlen, hlo, hhi, hcs, hs1⟩ := hs
  match cs, hlen, hcs with
  | [], _, _ => exact strR_char (c := [a, c]) (hok c hlo hhi) hs1

theorem utf8R_2 {E : Bytes → Prop} {lo hi a : Byte} {q : Bytes} (hs : Utf8R E 2 lo hi q)
    (hok : ∀ b c, lo ≤ b → b ≤ hi → isCont c = true → strCharOk [a, b, c] = true) :
    StrR E (a :: q) := by
  obtain ⟨c, cs, q1, rfl, hlen, hlo, hhi, hcs, hs1⟩ := hs
  match cs, hlen, hcs with
  | [c2], _, hcs =>
    exact strR_char (c := [a, c, c2]) (hok c c2 hlo hhi (hcs c2 (by simp))) hs1

theorem utf8R_3 {E : Bytes → Prop} {lo hi a : Byte} {q : Bytes} (hs : Utf8R E 3 lo hi q)
    (hok : ∀ b c d, lo ≤ b → b ≤ hi → isCont c = true → isCont d = true →
      strCharOk [a, b, c, d] = true) :
    StrR E (a :: q) := by
  obtain ⟨c, cs, q1, rfl, hlen, hlo, hhi, hcs, hs1⟩ := hs
  match cs, hlen, hcs with
  | [c2, c3], _, hcs =>
    exact strR_char (c := [a, c, c2, c3])
      (hok c c2 c3 hlo hhi (hcs c2 (by simp)) (hcs c3 (by simp))) hs1

theorem step_str (max : Nat) {stk : List Bool} {k : Bool} {b : Byte} {st' : PState} {q : Bytes}
    (h : step max ⟨.str k, stk⟩ b = some st') (hs : Suff max st' q) :
    Suff max ⟨.str k, stk⟩ (b :: q) := by
  simp only [step] at h
  split at h
  · rename_i hb; subst hb; cases h
    cases k <;> exact strR_close hs
  · rename_i n22
    split at h
    · rename_i hb; subst hb; cases h
      obtain ⟨rest, q1, rfl, he, hs1⟩ := hs
      exact strR_esc he hs1
    · rename_i n5c
      split at h
      · cases h
      · rename_i nctl
        split at h
        · rename_i h7f; cases h
          exact strR_char (c := [b]) (ok1 b n22 n5c nctl h7f) hs
        · split at h
          · rename_i hb; cases h
            exact utf8R_1 hs (fun c h1 h2 => ok2 b c hb h1 h2)
          · split at h
            · rename_i hb; cases h
              exact utf8R_2 hs (fun c d h1 h2 hd => ok3 b c d (Or.inl ⟨hb, h1, h2⟩) hd)
            · split at h
              · rename_i hb; cases h
                exact utf8R_2 hs (fun c d h1 h2 hd => ok3 b c d (Or.inr (Or.inl ⟨hb, h1, h2⟩)) hd)
              · rename_i ned
                split at h
                · rename_i hb; cases h
                  exact utf8R_2 hs
                    (fun c d h1 h2 hd => ok3 b c d (Or.inr (Or.inr ⟨hb, ned, h1, h2⟩)) hd)
                · split at h
                  · rename_i hb; cases h
                    exact utf8R_3 hs
                      (fun c d e h1 h2 hd he => ok4 b c d e (Or.inl ⟨hb, h1, h2⟩) hd he)
                  · split at h
                    · rename_i hb; cases h
                      exact utf8R_3 hs
                        (fun c d e h1 h2 hd he => ok4 b c d e (Or.inr (Or.inr ⟨hb, h1, h2⟩)) hd he)
                    · split at h
                      · rename_i hb; cases h
                        exact utf8R_3 hs
                          (fun c d e h1 h2 hd he => ok4 b c d e (Or.inr (Or.inl ⟨hb, h1, h2⟩)) hd he)
                      · cases h

theorem step_utf8 (max : Nat) {stk : List Bool} {k : Bool} {n : Nat} {lo hi b : Byte}
    {st' : PState} {q : Bytes} (hwf : WF max ⟨.utf8 k n lo hi, stk⟩)
    (h : step max ⟨.utf8 k n lo hi, stk⟩ b = some st') (hs : Suff max st' q) :
    Suff max ⟨.utf8 k n lo hi, stk⟩ (b :: q) := by
  have hn : 1 ≤ n := hwf.2.2.1
  simp only [step] at h
  split at h
  · rename_i hb
    split at h
    · rename_i hn1; cases h
      exact ⟨b, [], q, rfl, by simp; omega, hb.1, hb.2, by simp, hs⟩
    · rename_i hn1; cases h
      obtain ⟨c, cs, q1, rfl, hlen, hlo, hhi, hcs, hs1⟩ := hs
      refine ⟨b, c :: cs, q1, rfl, by simp; omega, hb.1, hb.2, ?_, hs1⟩
      intro x hx; simp at hx; rcases hx with rfl | hx
      · simp [isCont]; exact ⟨hlo, hhi⟩
      · exact hcs x hx
  · cases h

/-! ### one step: escapes -/

theorem hexVal_lt16 (b : Byte) : hexVal b < 16 := by
  unfold hexVal
  split
  · rename_i h; simp [isDigit] at h; obtain ⟨h1, h2⟩ := h; bv_omega
  · split
    · rename_i h; simp [isLowerHex] at h; obtain ⟨h1, h2⟩ := h; bv_omega
    · split
      · rename_i h; simp [isUpperHex] at h; obtain ⟨h1, h2⟩ := h; bv_omega
      · omega

theorem hex4_fold (x y z b : Byte) : hex4 x y z b = hexFold 0 [x, y, z] * 16 + hexVal b := by
  simp [hexFold, hex4]

theorem len3 (hs : Bytes) (h : hs.length = 3) : ∃ a b c, hs = [a, b, c] := by
  match hs, h with
  | [a, b, c], _ => exact ⟨a, b, c, rfl⟩

theorem step_esc (max : Nat) {stk : List Bool} {k : Bool} {b : Byte} {st' : PState} {q : Bytes}
    (h : step max ⟨.esc k, stk⟩ b = some st') (hs : Suff max st' q) :
    Suff max ⟨.esc k, stk⟩ (b :: q) := by
  simp only [step] at h
  split at h
  · rename_i he; cases h
    exact ⟨[b], q, rfl, EscSeq.simple b he, hs⟩
  · split at h
    · rename_i hb; subst hb; cases h
      obtain ⟨rest, q1, rfl, he, hs1⟩ := hs [] rfl (by simp) rfl
      exact ⟨0x75 :: rest, q1, rfl, by simpa using he, hs1⟩
    · cases h

theorem step_uni (max : Nat) {stk : List Bool} {k : Bool} {n v : Nat} {b : Byte} {st' : PState}
    {q : Bytes} (hwf : WF max ⟨.uni k n v, stk⟩)
    (h : step max ⟨.uni k n v, stk⟩ b = some st') (hs : Suff max st' q) :
    Suff max ⟨.uni k n v, stk⟩ (b :: q) := by
  obtain ⟨_, hn3, hv, hdc⟩ := hwf.2
  simp only [step] at h
  split at h
  · rename_i hb
    split at h
    · cases h
    · split at h
      · rename_i hge
        have hn : n = 3 := by omega
        subst hn
        split at h
        · rename_i hhi; cases h
          obtain ⟨q0, rfl, a', b', c', d', q1, rfl, ha, hb', hc, hd, hlow, hs1⟩ := hs
          intro pre hlen hall hfold
          obtain ⟨x, y, z, rfl⟩ := len3 pre hlen
          refine ⟨b :: 0x5C :: 0x75 :: a' :: b' :: c' :: d' :: [], q1, by simp, ?_, hs1⟩
          have := EscSeq.pair x y z b a' b' c' d' (hall x (by simp)) (hall y (by simp))
            (hall z (by simp)) hb ha hb' hc hd (by rw [hex4_fold, hfold]; exact hhi) hlow
          simpa using this
        · rename_i hhi; cases h
          intro pre hlen hall hfold
          obtain ⟨x, y, z, rfl⟩ := len3 pre hlen
          refine ⟨[b], q, rfl, ?_⟩
          have hlo : isLowSurr (hex4 x y z b) = false := by
            rw [hex4_fold, hfold]
            have h1 := hexVal_lt16 b
            have h2 := hdc (by omega)
            simp at h2
            simp [isLowSurr]
            omega
          have := EscSeq.uni x y z b (hall x (by simp)) (hall y (by simp))
            (hall z (by simp)) hb (by rw [hex4_fold, hfold]; simpa using hhi) hlo
          exact ⟨by simpa using this, hs⟩
      · rename_i hlt; cases h
        intro pre hlen hall hfold
        subst hfold
        obtain ⟨rest, q1, rfl, he, hs1⟩ := hs (pre ++ [b]) (by simp [hlen])
          (by
            intro x hx; simp at hx; rcases hx with hx | rfl
            · exact hall x hx
            · exact hb)
          (by simp [hexFold])
        exact ⟨b :: rest, q1, rfl, by simpa using he, hs1⟩
  · cases h

theorem step_hiDone (max : Nat) {stk : List Bool} {k : Bool} {b : Byte} {st' : PState}
    {q : Bytes} (h : step max ⟨.hiDone k, stk⟩ b = some st') (hs : Suff max st' q) :
    Suff max ⟨.hiDone k, stk⟩ (b :: q) := by
  simp only [step] at h
  split at h
  · rename_i hb; subst hb; cases h
    exact ⟨q, rfl, hs⟩
  · cases h

theorem step_hiBs (max : Nat) {stk : List Bool} {k : Bool} {b : Byte} {st' : PState}
    {q : Bytes} (h : step max ⟨.hiBs k, stk⟩ b = some st') (hs : Suff max st' q) :
    Suff max ⟨.hiBs k, stk⟩ (b :: q) := by
  simp only [step] at h
  split at h
  · rename_i hb; subst hb; cases h
    obtain ⟨a, b, c, d, q1, rfl, h1, h2, h3, h4, h5, hs1⟩ := hs
    exact ⟨a, b, c, d, q1, rfl, h1, h2, h3, h4, h5, hs1⟩
  · cases h

theorem step_lo (max : Nat) {stk : List Bool} {k : Bool} {n : Nat} {b : Byte} {st' : PState}
    {q : Bytes} (hwf : WF max ⟨.lo k n, stk⟩)
    (h : step max ⟨.lo k n, stk⟩ b = some st') (hs : Suff max st' q) :
    Suff max ⟨.lo k n, stk⟩ (b :: q) := by
  have hn3 : n ≤ 3 := hwf.2.2
  simp only [step] at h
  split at h
  · rename_i hn; subst hn
    split at h
    · rename_i hb; cases h
      obtain ⟨b', c, d, q1, rfl, hb', hc, hd, h12, hs1⟩ := hs
      have hx : isHex b = true := by rcases hb with rfl | rfl <;> decide
      have h13 : hexVal b = 13 := by rcases hb with rfl | rfl <;> decide
      refine ⟨b, b', c, d, q1, rfl, hx, hb', hc, hd, ?_, hs1⟩
      have h1 := hexVal_lt16 b'
      have h2 := hexVal_lt16 c
      have h3 := hexVal_lt16 d
      simp [isLowSurr, hex4, h13]
      omega
    · cases h
  · split at h
    · rename_i hn; subst hn
      split at h
      · rename_i hb; cases h
        obtain ⟨c, d, q1, rfl, hc, hd, hs1⟩ := hs
        exact ⟨b, c, d, q1, rfl, hb.1, hc, hd, hb.2, hs1⟩
      · cases h
    · split at h
      · rename_i hn; subst hn
        split at h
        · rename_i hb; cases h
          obtain ⟨d, q1, rfl, hd, hs1⟩ := hs
          exact ⟨b, d, q1, rfl, hb, hd, hs1⟩
        · cases h
      · rename_i n0 n1 n2
        have hn : n = 3 := by omega
        subst hn
        split at h
        · rename_i hb; cases h
          exact ⟨b, q, rfl, hb, hs⟩
        · cases h

/-! ### the three properties of `Suff` and soundness -/

/-- (S1) the empty completion is in the residual of an accepting state -/
theorem suff_of_accepting (max : Nat) (st : PState) (h : accepting st = true) :
    Suff max st [] := by
  obtain ⟨lex, stk⟩ := st
  simp only [accepting, Bool.and_eq_true, List.isEmpty_iff] at h
  obtain ⟨hstk, hlex⟩ := h
  have hstk' : stk = [] := hstk
  subst hstk'
  cases lex <;> simp at hlex
  · exact ws_nil
  · exact ⟨[], [], [], rfl, Or.inl rfl, Or.inl rfl, ws_nil⟩
  · exact ⟨[], [], [], [], rfl, digits_nil, Or.inl rfl, Or.inl rfl, ws_nil⟩
  · exact ⟨[], [], [], rfl, digits_nil, Or.inl rfl, ws_nil⟩
  · exact ⟨[], [], rfl, digits_nil, ws_nil⟩

/-- (S2) one transition of the automaton, read backwards -/
theorem suff_step (max : Nat) (st st' : PState) (b : Byte) (q : Bytes) (hwf : WF max st)
    (h : step max st b = some st') (hs : Suff max st' q) : Suff max st (b :: q) := by
  obtain ⟨lex, stk⟩ := st
  cases lex with
  | top => exact step_top max h hs
  | after => exact step_after max h hs
  | arrStart => exact step_arrStart max hwf h hs
  | arrNext => exact step_arrNext max h hs
  | objStart => exact step_objStart max hwf h hs
  | objKey => exact step_objKey max hwf h hs
  | objColon => exact step_objColon max h hs
  | objVal => exact step_objVal max h hs
  | str k => exact step_str max h hs
  | esc k => exact step_esc max h hs
  | uni k n v => exact step_uni max hwf h hs
  | hiDone k => exact step_hiDone max h hs
  | hiBs k => exact step_hiBs max h hs
  | lo k n => exact step_lo max hwf h hs
  | utf8 k n lo hi => exact step_utf8 max hwf h hs
  | minus => exact step_minus max h hs
  | zero => exact step_zero max h hs
  | int => exact step_int max h hs
  | dot => exact step_dot max h hs
  | frac => exact step_frac max h hs
  | e => exact step_e max h hs
  | esign => exact step_esign max h hs
  | exp => exact step_exp max h hs
  | kw r => exact step_kw max h hs

/-- (S3) the residual language of the initial state is the set of valid texts -/
theorem valid_of_suff_init (max : Nat) (q : Bytes) (h : Suff max init q) : Valid max q := by
  obtain ⟨w, v, q2, hw, hv, ha, rfl⟩ := h
  exact ⟨w, v, q2, hw, hv, ha, rfl⟩

theorem runFrom_sound (max : Nat) (hpres : StepPreservesWF max) :
    ∀ (b : Bytes) (st fin : PState), WF max st → runFrom max st b = some fin →
      accepting fin = true → Suff max st b := by
  intro b
  induction b with
  | nil =>
    intro st fin _ h hacc
    simp only [runFrom, Option.some.injEq] at h
    subst h
    exact suff_of_accepting max st hacc
  | cons x r ih =>
    intro st fin hwf h hacc
    simp only [runFrom] at h
    split at h
    · cases h
    · rename_i st' hst
      exact suff_step max st st' x r hwf hst (ih st' fin (hpres st st' x hwf hst) h hacc)

/-- Soundness of the reference automaton: every accepted input is a valid JSON text. -/
theorem acceptB_sound (max : Nat) (hpres : SV.Json.Pda.StepPreservesWF max) (b : Bytes) :
    SV.Json.Pda.acceptB max b = true → SV.Json.Valid max b := by
  intro h
  unfold acceptB at h
  split at h
  · rename_i fin hrun
    exact valid_of_suff_init max b (runFrom_sound max hpres b init fin (WF_init max) hrun h)
  · cases h

end SV.Json.Pda.Snd
