/-
Proof/JsonNav — helper lemmas for C06 (JSON index navigation).
-/
import SuccinctlyVerif.Proof.JsonSimple
import SuccinctlyVerif.Model.JsonNav
namespace SV.JsonNav
open SV SV.JsonSemi SV.JsonText SV.JsonSimple

/-! ### the standard-cursor machine on token sequences -/

instance : DecidableEq (Semi St) := fun a b =>
  decidable_of_iff (a.ib = b.ib ∧ a.bp = b.bp ∧ a.st = b.st) (by cases a; cases b; simp)

/-- Does the token start a node of the standard cursor (container open, string, number, literal)? -/
def Tok.isNode : Tok → Bool
  | .lbrace | .lbracket | .str _ | .num _ | .lit _ => true
  | _ => false

/-- Interest bits of one token: set on the first byte of a node token. -/
def tokStdIb (t : Tok) : List Bool :=
  if Tok.isNode t then true :: List.replicate (t.bytes.length - 1) false
  else List.replicate t.bytes.length false

/-- BP bits of one token: `1` open, `0` close, `10` leaf. -/
def tokStdBp : Tok → List Bool
  | .lbrace | .lbracket => [true]
  | .rbrace | .rbracket => [false]
  | .str _ | .num _ | .lit _ => [true, false]
  | _ => []

/-- State the machine is left in by a token. -/
def tokEnd : Tok → St
  | .num _ | .lit _ => .inValue
  | _ => .inJson

/-- Tokens that are read correctly right after a number / literal (machine in `InValue`). -/
def Tok.isSep : Tok → Bool
  | .ws _ | .comma | .colon | .rbrace | .rbracket | .lbrace | .lbracket => true
  | _ => false

def okAfter (s : St) (t : Tok) : Prop := s = .inJson ∨ (s = .inValue ∧ Tok.isSep t = true)

theorem value_chars_run (bs : List (BitVec 8)) (h : ∀ b ∈ bs, isValueChar b = true) :
    runG step .inValue bs = ⟨List.replicate bs.length false, [], .inValue⟩ := by
  induction bs with
  | nil => rfl
  | cons b bs ih =>
    have hb := h b (by simp)
    have h1 : ∀ c : BitVec 8, isValueChar c = true → step .inValue c = (.inValue, Out.none) := by decide
    simp [runG, h1 b hb, ih (fun x hx => h x (by simp [hx])), Out.none, List.replicate_succ]

theorem number_byte_value_char : ∀ b : BitVec 8, isNumberByte b = true → isValueChar b = true := by decide

theorem first_value_char : ∀ c : BitVec 8, isValueChar c = true → step .inJson c = (.inValue, Out.leaf) := by
  decide

/-- An atom (all bytes value characters, non-empty) read from `InJson`. -/
theorem atom_run (b : BitVec 8) (bs : List (BitVec 8)) (h : ∀ x ∈ b :: bs, isValueChar x = true) :
    runG step .inJson (b :: bs) = ⟨true :: List.replicate bs.length false, [true, false], .inValue⟩ := by
  simp only [runG, first_value_char b (h b (by simp)),
    value_chars_run bs (fun x hx => h x (by simp [hx])), Out.leaf]
  rfl

theorem std_inert (bs : List (BitVec 8)) (h : ∀ b ∈ bs, inert b = true) :
    runG step .inString bs = ⟨List.replicate bs.length false, [], .inString⟩ := by
  induction bs with
  | nil => rfl
  | cons b bs ih =>
    have hb := h b (by simp)
    simp only [inert, Bool.and_eq_true, Bool.not_eq_true'] at hb
    have hs : step .inString b = (.inString, Out.none) := by simp [step, hb.1, hb.2]
    simp [runG, hs, ih (fun x hx => h x (by simp [hx])), Out.none, List.replicate_succ]

theorem std_schar_run (c : SChar) :
    runG step .inString c.bytes = ⟨List.replicate c.bytes.length false, [], .inString⟩ := by
  cases c with
  | plain b =>
    obtain ⟨b, h1, h2, _⟩ := b
    have : step .inString b = (.inString, Out.none) := by simp [step, isQuote, isBackslash, h1, h2]
    simp [SChar.bytes, runG, this, Out.none]
  | esc e => cases e <;> decide
  | uni h1 h2 h3 h4 =>
    have hi : ∀ h : HexDigit, inert h.byte = true := fun h => hex_inert h.val h.upper
    have hrun := std_inert [h1.byte, h2.byte, h3.byte, h4.byte] (by
      intro b hb; simp at hb; rcases hb with rfl | rfl | rfl | rfl <;> exact hi _)
    have hpre : runG step .inString [0x5C#8, 0x75#8] = ⟨[false, false], [], .inString⟩ := by decide
    show runG step .inString ([0x5C#8, 0x75#8] ++ [h1.byte, h2.byte, h3.byte, h4.byte]) = _
    rw [runG_append, hpre, hrun]; rfl

theorem std_body_run (body : List SChar) :
    runG step .inString (body.flatMap SChar.bytes) =
      ⟨List.replicate (body.flatMap SChar.bytes).length false, [], .inString⟩ := by
  induction body with
  | nil => rfl
  | cons c cs ih =>
    simp only [List.flatMap_cons, runG_append, std_schar_run, ih, List.length_append,
      List.append_nil, List.replicate_append_replicate]

theorem lit_bytes_value (l : Lit) : ∀ x ∈ l.bytes, isValueChar x = true := by
  cases l <;> decide

theorem num_head_tail (n : NumLit) : ∃ b bs, n.bytes = b :: bs := by
  obtain ⟨b0, rest, h, _⟩ := num_head n
  exact ⟨b0, rest, h⟩

/-- One token, read from a state it may follow. -/
theorem tok_std_run (s : St) (t : Tok) (h : okAfter s t) :
    runG step s t.bytes = ⟨tokStdIb t, tokStdBp t, tokEnd t⟩ := by
  rcases h with rfl | ⟨rfl, hsep⟩
  · cases t with
    | lbrace => decide
    | rbrace => decide
    | lbracket => decide
    | rbracket => decide
    | comma => decide
    | colon => decide
    | ws w => cases w <;> decide
    | lit l =>
      cases l <;> decide
    | num n =>
      obtain ⟨b, bs, hb⟩ := num_head_tail n
      have hall : ∀ x ∈ b :: bs, isValueChar x = true := by
        intro x hx; rw [← hb] at hx; exact number_byte_value_char x (num_bytes_number n x hx)
      have := atom_run b bs hall
      simp only [Tok.bytes, hb, tokStdIb, Tok.isNode, tokStdBp, tokEnd, if_true] at this ⊢
      simpa using this
    | str body =>
      have hq : step .inJson 0x22#8 = (.inString, Out.leaf) := by decide
      have hq2 : step .inString 0x22#8 = (.inJson, Out.none) := by decide
      simp only [Tok.bytes, runG, hq, runG_append, std_body_run, hq2, tokStdIb, Tok.isNode, tokStdBp,
        tokEnd, Out.none, Out.leaf, if_true]
      simp [List.replicate_succ']
  · cases t with
    | lbrace => decide
    | rbrace => decide
    | lbracket => decide
    | rbracket => decide
    | comma => decide
    | colon => decide
    | ws w => cases w <;> decide
    | lit l => simp [Tok.isSep] at hsep
    | num n => simp [Tok.isSep] at hsep
    | str body => simp [Tok.isSep] at hsep

/-- Each token may follow the state left by its predecessor. -/
def Chain : St → List Tok → Prop
  | _, [] => True
  | s, t :: ts => okAfter s t ∧ Chain (tokEnd t) ts

def endSt : St → List Tok → St
  | s, [] => s
  | _, t :: ts => endSt (tokEnd t) ts

def toksStdIb (ts : List Tok) : List Bool := ts.flatMap tokStdIb
def toksStdBp (ts : List Tok) : List Bool := ts.flatMap tokStdBp

theorem toks_std_run (s : St) (ts : List Tok) (h : Chain s ts) :
    runG step s (toksBytes ts) = ⟨toksStdIb ts, toksStdBp ts, endSt s ts⟩ := by
  induction ts generalizing s with
  | nil => rfl
  | cons t ts ih =>
    obtain ⟨h1, h2⟩ := h
    simp only [toksBytes, List.flatMap_cons] at ih ⊢
    rw [runG_append, tok_std_run s t h1]
    simp only [ih _ h2, toksStdIb, toksStdBp, List.flatMap_cons, endSt]

/-! ### document token sequences are read correctly; the BP string is the tree encoding -/

/-- `ys` is read correctly whatever state precedes it. -/
def Robust (ys : List Tok) : Prop := ∀ s, s = St.inJson ∨ s = St.inValue → Chain s ys

theorem tokEnd_cases (t : Tok) : tokEnd t = .inJson ∨ tokEnd t = .inValue := by
  cases t <;> simp [tokEnd]

theorem chain_append_robust {s : St} {xs ys : List Tok} (hs : s = .inJson ∨ s = .inValue)
    (hx : Chain s xs) (hy : Robust ys) : Chain s (xs ++ ys) := by
  induction xs generalizing s with
  | nil => exact hy s hs
  | cons t ts ih => exact ⟨hx.1, ih (tokEnd_cases t) hx.2⟩

theorem robust_sep (t : Tok) (ht : Tok.isSep t = true) (hend : tokEnd t = .inJson) {ys : List Tok}
    (hy : Chain .inJson ys) : Robust (t :: ys) := by
  intro s hs
  refine ⟨?_, by rw [hend]; exact hy⟩
  rcases hs with rfl | rfl
  · exact Or.inl rfl
  · exact Or.inr ⟨rfl, ht⟩

theorem robust_ws (w : Ws) {ys : List Tok} (hy : Robust ys) : Robust (wsToks w ++ ys) := by
  induction w with
  | nil => exact hy
  | cons c cs ih => exact robust_sep (.ws c) rfl rfl (ih .inJson (Or.inl rfl))

theorem chain_ws (w : Ws) {ys : List Tok} (hy : Chain .inJson ys) : Chain .inJson (wsToks w ++ ys) := by
  induction w with
  | nil => exact hy
  | cons c cs ih => exact ⟨Or.inl rfl, ih⟩

theorem robust_nil : Robust [] := fun _ _ => trivial

theorem robust_close (t : Tok) (ht : t = .rbracket ∨ t = .rbrace) {ys : List Tok} (hy : Robust ys) :
    Robust (t :: ys) := by
  rcases ht with rfl | rfl
  · exact robust_sep _ rfl rfl (hy .inJson (Or.inl rfl))
  · exact robust_sep _ rfl rfl (hy .inJson (Or.inl rfl))

mutual
  theorem val_chain : ∀ (v : JVal) (ys : List Tok), Robust ys → Chain .inJson (v.toks ++ ys)
    | .lit l, ys, hy => ⟨Or.inl rfl, hy _ (Or.inr rfl)⟩
    | .num n, ys, hy => ⟨Or.inl rfl, hy _ (Or.inr rfl)⟩
    | .str b, ys, hy => ⟨Or.inl rfl, hy _ (Or.inl rfl)⟩
    | .arr0 ws, ys, hy => by
      simp only [JVal.toks, List.cons_append, List.append_assoc]
      exact ⟨Or.inl rfl, chain_ws ws ((robust_close .rbracket (Or.inl rfl) hy) _ (Or.inl rfl))⟩
    | .obj0 ws, ys, hy => by
      simp only [JVal.toks, List.cons_append, List.append_assoc]
      exact ⟨Or.inl rfl, chain_ws ws ((robust_close .rbrace (Or.inr rfl) hy) _ (Or.inl rfl))⟩
    | .arr ws0 v ws1 rest, ys, hy => by
      simp only [JVal.toks, List.cons_append, List.append_assoc]
      refine ⟨Or.inl rfl, chain_ws ws0 (val_chain v _ (robust_ws ws1 (items_robust rest _ ?_)))⟩
      exact robust_close .rbracket (Or.inl rfl) hy
    | .obj ws0 k ws1 ws2 v ws3 rest, ys, hy => by
      simp only [JVal.toks, List.cons_append, List.append_assoc, List.nil_append]
      refine ⟨Or.inl rfl, chain_ws ws0 ⟨Or.inl rfl, chain_ws ws1 ⟨Or.inl rfl, chain_ws ws2
        (val_chain v _ (robust_ws ws3 (members_robust rest _ ?_)))⟩⟩⟩
      exact robust_close .rbrace (Or.inr rfl) hy
  theorem items_robust : ∀ (r : JItems) (ys : List Tok), Robust ys → Robust (r.toks ++ ys)
    | .nil, ys, hy => hy
    | .cons ws0 v ws1 rest, ys, hy => by
      simp only [JItems.toks, List.cons_append, List.append_assoc]
      exact robust_sep .comma rfl rfl (chain_ws ws0 (val_chain v _ (robust_ws ws1 (items_robust rest _ hy))))
  theorem members_robust : ∀ (r : JMembers) (ys : List Tok), Robust ys → Robust (r.toks ++ ys)
    | .nil, ys, hy => hy
    | .cons ws0 k ws1 ws2 v ws3 rest, ys, hy => by
      simp only [JMembers.toks, List.cons_append, List.append_assoc, List.nil_append]
      exact robust_sep .comma rfl rfl (chain_ws ws0 ⟨Or.inl rfl, chain_ws ws1 ⟨Or.inl rfl, chain_ws ws2
        (val_chain v _ (robust_ws ws3 (members_robust rest _ hy)))⟩⟩)
end

theorem doc_chain (d : Doc) : Chain .inJson d.toks := by
  simp only [Doc.toks, List.append_assoc]
  exact chain_ws d.ws0 (val_chain d.value _ (by simpa using robust_ws d.ws1 robust_nil))

/-! #### the tree encoding -/

mutual
  /-- Balanced-parentheses encoding of a value: `1 … 0` around the children of a container (keys are
  leaf children of an object, before their value), `10` for every scalar. -/
  def treeBp : JVal → List Bool
    | .lit _ | .num _ | .str _ => [true, false]
    | .arr0 _ | .obj0 _ => [true, false]
    | .arr _ v _ rest => true :: (treeBp v ++ itemsBp rest ++ [false])
    | .obj _ _ _ _ v _ rest => true :: ([true, false] ++ treeBp v ++ membersBp rest ++ [false])
  def itemsBp : JItems → List Bool
    | .nil => []
    | .cons _ v _ rest => treeBp v ++ itemsBp rest
  def membersBp : JMembers → List Bool
    | .nil => []
    | .cons _ _ _ _ v _ rest => [true, false] ++ treeBp v ++ membersBp rest
end

theorem toksStdBp_append (a b : List Tok) : toksStdBp (a ++ b) = toksStdBp a ++ toksStdBp b := by
  simp [toksStdBp]
theorem toksStdBp_cons (t : Tok) (ts : List Tok) : toksStdBp (t :: ts) = tokStdBp t ++ toksStdBp ts := by
  simp [toksStdBp]
theorem toksStdBp_nil : toksStdBp [] = [] := rfl
theorem toksStdBp_ws (w : Ws) : toksStdBp (wsToks w) = [] := by
  induction w with
  | nil => rfl
  | cons c cs ih => simp [wsToks, toksStdBp, tokStdBp] at ih ⊢

mutual
  theorem treeBp_eq : ∀ v : JVal, toksStdBp v.toks = treeBp v
    | .lit l => rfl
    | .num n => rfl
    | .str b => rfl
    | .arr0 ws => by simp [JVal.toks, treeBp, toksStdBp_cons, toksStdBp_append, toksStdBp_ws, toksStdBp_nil, tokStdBp]
    | .obj0 ws => by simp [JVal.toks, treeBp, toksStdBp_cons, toksStdBp_append, toksStdBp_ws, toksStdBp_nil, tokStdBp]
    | .arr ws0 v ws1 rest => by
      simp [JVal.toks, treeBp, toksStdBp_cons, toksStdBp_append, toksStdBp_ws, toksStdBp_nil, tokStdBp,
        treeBp_eq v, itemsBp_eq rest]
    | .obj ws0 k ws1 ws2 v ws3 rest => by
      simp [JVal.toks, treeBp, toksStdBp_cons, toksStdBp_append, toksStdBp_ws, toksStdBp_nil, tokStdBp,
        treeBp_eq v, membersBp_eq rest]
  theorem itemsBp_eq : ∀ r : JItems, toksStdBp r.toks = itemsBp r
    | .nil => rfl
    | .cons ws0 v ws1 rest => by
      simp [JItems.toks, itemsBp, toksStdBp_cons, toksStdBp_append, toksStdBp_ws, tokStdBp,
        treeBp_eq v, itemsBp_eq rest]
  theorem membersBp_eq : ∀ r : JMembers, toksStdBp r.toks = membersBp r
    | .nil => rfl
    | .cons ws0 k ws1 ws2 v ws3 rest => by
      simp [JMembers.toks, membersBp, toksStdBp_cons, toksStdBp_append, toksStdBp_ws, toksStdBp_nil, tokStdBp,
        treeBp_eq v, membersBp_eq rest]
end

/-- The reference standard-cursor index of a document. -/
theorem reference_doc (d : Doc) :
    (reference d.text).ib = toksStdIb d.toks ∧ (reference d.text).bp = treeBp d.value := by
  rw [reference, run_eq_runG, Doc.text, toks_std_run _ _ (doc_chain d)]
  refine ⟨rfl, ?_⟩
  simp [Doc.toks, toksStdBp_append, toksStdBp_ws, treeBp_eq]

/-! ### text-level lemmas, for every byte string -/

/-- Naive definition of the end of a string body as a two-state scan of the bytes after the opening
quote (`skip` = the previous byte was an unescaped backslash): the first `"` met while not skipping
is the end.  Returns its offset (`base` = offset of the first byte of the list), `none` if the bytes
run out first. -/
def strEndSpec : List Byte → Nat → Bool → Option Nat
  | [], _, _ => none
  | _ :: cs, base, true => strEndSpec cs (base + 1) false
  | c :: cs, base, false =>
    if c = 0x22#8 then some base
    else if c = 0x5C#8 then strEndSpec cs (base + 1) true
    else strEndSpec cs (base + 1) false

/-- Was a backslash met before the end? -/
def strEscSpec : List Byte → Bool → Bool → Bool
  | [], e, _ => e
  | _ :: cs, e, true => strEscSpec cs e false
  | c :: cs, e, false =>
    if c = 0x22#8 then e
    else if c = 0x5C#8 then strEscSpec cs true true
    else strEscSpec cs e false

theorem byteAt_drop (x : Index) (i : Nat) (hi : i < x.len) :
    x.text.toList.drop i = x.byteAt i :: x.text.toList.drop (i + 1) := by
  have h : i < x.text.toList.length := by simpa [Index.len] using hi
  rw [List.drop_eq_getElem_cons h]
  congr 1
  simp [Index.byteAt, Array.getD_eq_getD_getElem?, show i < x.text.size from hi]

theorem stringScan_eq (x : Index) (fuel i : Nat) (e : Bool) (hf : x.len < fuel + i) :
    stringScan x fuel i e =
      (strEndSpec (x.text.toList.drop i) i false, strEscSpec (x.text.toList.drop i) e false) := by
  induction fuel generalizing i e with
  | zero =>
    have : x.text.toList.drop i = [] := List.drop_eq_nil_of_le (by simp [Index.len] at hf ⊢; omega)
    simp [stringScan, this, strEndSpec, strEscSpec]
  | succ fuel ih =>
    simp only [stringScan]
    by_cases hi : i < x.len
    · rw [byteAt_drop x i hi]
      simp only [hi, if_true]
      by_cases hq : x.byteAt i = 0x22#8
      · simp [hq, strEndSpec, strEscSpec]
      · by_cases hb : x.byteAt i = 0x5C#8
        · have hne : ¬ ((0x5C#8 : BitVec 8) = 0x22#8) := by decide
          simp only [hb, hne, if_false, if_true]
          rw [ih (i + 2) true (by omega)]
          by_cases hi1 : i + 1 < x.len
          · rw [byteAt_drop x (i + 1) hi1]
            simp [strEndSpec, strEscSpec, hne]
          · have h1 : x.text.toList.drop (i + 1) = [] := List.drop_eq_nil_of_le (by simp [Index.len] at hi1 ⊢; omega)
            have h2 : x.text.toList.drop (i + 2) = [] := List.drop_eq_nil_of_le (by simp [Index.len] at hi1 ⊢; omega)
            simp [h1, h2, strEndSpec, strEscSpec, hne]
        · simp only [hq, hb, if_false]
          rw [ih (i + 1) e (by omega)]
          simp [strEndSpec, strEscSpec, hq, hb]
    · have : x.text.toList.drop i = [] := List.drop_eq_nil_of_le (by simp [Index.len] at hi ⊢; omega)
      simp [hi, this, strEndSpec, strEscSpec]

/-- `find_string_end` is the naive end of the string body (or `text.len()`), for every text and start. -/
theorem findStringEnd_eq (x : Index) (start : Nat) :
    findStringEnd x start = (strEndSpec (x.text.toList.drop (start + 1)) (start + 1) false).getD x.len := by
  rw [findStringEnd, stringScan_eq x _ _ _ (by omega)]

/-- `raw_and_escaped`: the span ends just after the closing quote (or at the end of the text), and the
flag says whether a backslash occurs in the body. -/
theorem rawAndEscaped_eq (x : Index) (start : Nat) :
    rawAndEscaped x start =
      (match strEndSpec (x.text.toList.drop (start + 1)) (start + 1) false with
        | some i => i + 1 | none => x.len,
       strEscSpec (x.text.toList.drop (start + 1)) false false) := by
  rw [rawAndEscaped, stringScan_eq x _ _ _ (by omega)]
  cases strEndSpec (x.text.toList.drop (start + 1)) (start + 1) false <;> rfl

theorem spanLoop_eq (x : Index) (fuel i : Nat) (hf : x.len < fuel + i) :
    spanLoop x fuel i = i + ((x.text.toList.drop i).takeWhile isSpanByte).length := by
  induction fuel generalizing i with
  | zero =>
    have : x.text.toList.drop i = [] := List.drop_eq_nil_of_le (by simp [Index.len] at hf ⊢; omega)
    simp [spanLoop, this]
  | succ fuel ih =>
    simp only [spanLoop]
    by_cases hi : i < x.len
    · rw [byteAt_drop x i hi]
      by_cases hs : isSpanByte (x.byteAt i) = true
      · simp only [hi, hs, and_self, if_true, List.takeWhile_cons, List.length_cons]
        rw [ih (i + 1) (by omega)]; omega
      · simp [hi, hs]
    · have : x.text.toList.drop i = [] := List.drop_eq_nil_of_le (by simp [Index.len] at hi ⊢; omega)
      simp [hi, this]

/-- `nested_number_span(text, start)` = `start` + the length of the longest run of `0-9 . e E + -`
bytes starting at `start`, for every text and start. -/
theorem nestedNumberSpan_eq (x : Index) (start : Nat) :
    nestedNumberSpan x start = start + ((x.text.toList.drop start).takeWhile isSpanByte).length := by
  simp only [nestedNumberSpan]
  by_cases h : start < x.len ∧ x.byteAt start = 0x2D#8
  · simp only [h, and_self, if_true]
    rw [spanLoop_eq x _ _ (by omega), byteAt_drop x start h.1, h.2]
    simp [isSpanByte]; omega
  · simp only [h, if_false]
    exact spanLoop_eq x _ _ (by omega)

end SV.JsonNav
