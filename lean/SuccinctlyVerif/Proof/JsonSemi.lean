/-
Proof/JsonSemi — helper lemmas for C05 (engine independence of the JSON semi-index).

Structure: every engine model threads `(state, ib writer, bp writer)`; the invariant proved for each
loop is "the writers received, bit by bit, exactly the reference machine's IB / BP output and the
state is the reference state" (`Agrees`).  Word-level equality of the results then follows because
all engines feed the same `BitWriter`; `finish_writeAll` identifies those words with the naive
packing `pack`.
-/
import SuccinctlyVerif.Spec.JsonSemi
import SuccinctlyVerif.Model.JsonSemi
namespace SV.JsonSemi

/-! ### generic scan -/

/-- The reference scan for an arbitrary step function. -/
def runG {σ : Type} (f : σ → BitVec 8 → σ × Out) (s : σ) : List (BitVec 8) → Semi σ
  | [] => ⟨[], [], s⟩
  | c :: cs =>
    let r := runG f (f s c).1 cs
    ⟨(f s c).2.ib :: r.ib, (f s c).2.bp ++ r.bp, r.st⟩

theorem run_eq_runG (s : St) (cs : List (BitVec 8)) : run s cs = runG step s cs := by
  induction cs generalizing s with
  | nil => rfl
  | cons c cs ih => simp only [run, runG, ih]

theorem srun_eq_runG (s : SSt) (cs : List (BitVec 8)) : srun s cs = runG sstep s cs := by
  induction cs generalizing s with
  | nil => rfl
  | cons c cs ih => simp only [srun, runG, ih]

theorem runG_append {σ : Type} (f : σ → BitVec 8 → σ × Out) (s : σ) (a b : List (BitVec 8)) :
    runG f s (a ++ b) =
      ⟨(runG f s a).ib ++ (runG f (runG f s a).st b).ib,
       (runG f s a).bp ++ (runG f (runG f s a).st b).bp,
       (runG f (runG f s a).st b).st⟩ := by
  induction a generalizing s with
  | nil => simp [runG]
  | cons c cs ih => simp [runG, ih]

/-! ### writer algebra -/

theorem writeAll_nil (w : BitWriter) : w.writeAll [] = w := rfl
theorem writeAll_cons (w : BitWriter) (b : Bool) (bs : List Bool) :
    w.writeAll (b :: bs) = (w.writeBit b).writeAll bs := rfl
theorem writeAll_append (w : BitWriter) (a b : List Bool) :
    w.writeAll (a ++ b) = (w.writeAll a).writeAll b := by
  simp [BitWriter.writeAll, List.foldl_append]

/-- "The loop result `r` is what the reference machine `f` produces on `cs` from `(s, ib, bp)`". -/
def Agrees {σ : Type} (f : σ → BitVec 8 → σ × Out) (cs : List (BitVec 8)) (s : σ)
    (ib bp : BitWriter) (r : σ × BitWriter × BitWriter) : Prop :=
  r = ((runG f s cs).st, ib.writeAll (runG f s cs).ib, bp.writeAll (runG f s cs).bp)

theorem Agrees.nil {σ : Type} (f : σ → BitVec 8 → σ × Out) (s : σ) (ib bp : BitWriter) :
    Agrees f [] s ib bp (s, ib, bp) := rfl

/-- One reference step followed by an agreeing remainder. -/
theorem Agrees.cons {σ : Type} {f : σ → BitVec 8 → σ × Out} {c : BitVec 8} {cs : List (BitVec 8)}
    {s s' : σ} {ib bp ib' bp' : BitWriter} {r : σ × BitWriter × BitWriter}
    (hs : s' = (f s c).1) (hib : ib' = ib.writeBit (f s c).2.ib) (hbp : bp' = bp.writeAll (f s c).2.bp)
    (h : Agrees f cs s' ib' bp' r) : Agrees f (c :: cs) s ib bp r := by
  subst hs hib hbp
  simp only [Agrees, runG] at *
  rw [h, writeAll_cons, writeAll_append]

theorem Agrees.append {σ : Type} {f : σ → BitVec 8 → σ × Out} {a b : List (BitVec 8)}
    {s : σ} {ib bp : BitWriter} {r1 r : σ × BitWriter × BitWriter}
    (h1 : Agrees f a s ib bp r1) (h2 : Agrees f b r1.1 r1.2.1 r1.2.2 r) :
    Agrees f (a ++ b) s ib bp r := by
  simp only [Agrees] at *
  subst h1
  rw [h2, runG_append]
  simp [writeAll_append]

/-! ### scalar reference loop (standard cursor) -/

/-- Decoding of a `Phi` value into what the loop writes. -/
def phiOut (phi : BitVec 8) : Out :=
  ⟨phi &&& 0b100#8 != 0#8,
   (if phi &&& 0b010#8 != 0#8 then [true] else []) ++ (if phi &&& 0b001#8 != 0#8 then [false] else [])⟩

theorem St.cases_mem (s : St) : s ∈ [St.inJson, .inString, .inEscape, .inValue] := by
  cases s <;> simp

theorem stateMachine_spec_all : ∀ c : BitVec 8, ∀ s ∈ [St.inJson, .inString, .inEscape, .inValue],
    ((stateMachine c s).1, phiOut (stateMachine c s).2) = step s c := by
  decide

theorem stateMachine_spec (c : BitVec 8) (s : St) :
    ((stateMachine c s).1, phiOut (stateMachine c s).2) = step s c :=
  stateMachine_spec_all c s (St.cases_mem s)

/-- What the body of the scalar loop writes for a `Phi` value. -/
theorem write_phi (bp : BitWriter) (phi : BitVec 8) :
    (if phi &&& 0b001#8 != 0#8 then
      (if phi &&& 0b010#8 != 0#8 then bp.write1 else bp).write0
     else (if phi &&& 0b010#8 != 0#8 then bp.write1 else bp)) = bp.writeAll (phiOut phi).bp := by
  simp only [phiOut, BitWriter.write0, BitWriter.write1]
  by_cases h1 : (phi &&& 0b010#8 != 0#8) = true <;> by_cases h2 : (phi &&& 0b001#8 != 0#8) = true <;>
    simp [h1, h2, BitWriter.writeAll]

theorem scalarLoop_agrees (cs : List (BitVec 8)) (s : St) (ib bp : BitWriter) :
    Agrees step cs s ib bp (scalarLoop cs s ib bp) := by
  induction cs generalizing s ib bp with
  | nil => exact Agrees.nil _ _ _ _
  | cons c cs ih =>
    have hsp := stateMachine_spec c s
    simp only [scalarLoop]
    refine Agrees.cons (c := c) (s := s) ?_ ?_ ?_ (ih _ _ _)
    · rw [← hsp]
    · rw [← hsp]; rfl
    · rw [← hsp, ← write_phi]

/-! ### PFSM -/

/-- Every entry of the generated `TRANSITION_TABLE` / `PHI_TABLE` (256 bytes × 4 states), decoded by
`extract_next_state` / `extract_phi`, is the reference `state_machine`. -/
theorem pfsm_step_all : ∀ c : BitVec 8, ∀ s ∈ [St.inJson, .inString, .inEscape, .inValue],
    (extractNextState (transitionEntry c) s, extractPhi (phiEntry c) s) = stateMachine c s := by
  decide +kernel

theorem pfsm_step (c : BitVec 8) (s : St) :
    (extractNextState (transitionEntry c) s, extractPhi (phiEntry c) s) = stateMachine c s :=
  pfsm_step_all c s (St.cases_mem s)

/-- The PFSM loop's bit extraction (`phi & 1`, `(phi >> 1) & 1`, `(phi >> 2) & 1`) reads the same
bits as `Phi::{bp_close, bp_open, ib}`. -/
theorem phi_bits_all : ∀ phi : BitVec 8,
    ((phi >>> 2) &&& 1#8 != 0#8) = (phi &&& 0b100#8 != 0#8) ∧
    ((phi >>> 1) &&& 1#8 != 0#8) = (phi &&& 0b010#8 != 0#8) ∧
    (phi &&& 1#8 != 0#8) = (phi &&& 0b001#8 != 0#8) := by
  decide

theorem pfsmLoop_eq_scalarLoop (cs : List (BitVec 8)) (s : St) (ib bp : BitWriter) :
    pfsmLoop cs s ib bp = scalarLoop cs s ib bp := by
  induction cs generalizing s ib bp with
  | nil => rfl
  | cons c cs ih =>
    have h := pfsm_step c s
    have hb := phi_bits_all (extractPhi (phiEntry c) s)
    simp only [pfsmLoop, scalarLoop, ← h, hb.1, hb.2.1, ih]

/-! ### SIMD engines: masks -/

theorem msb_laneOfBool (b : Bool) : (laneOfBool b).msb = b := by cases b <;> decide

/-- `movemask`: bit `i` of the mask is the sign bit of lane `i`. -/
theorem testBit_movemask (W : Nat) (lanes : List (BitVec 8)) (i : Nat) (hi : i < W) :
    testBit (movemask W lanes) i = (lanes.map (·.msb)).getD i false := by
  rw [testBit_eq_getLsbD, movemask, getLsbD_packBits]
  simp [hi]

/-- The six masks of `classify_chars` at a lane holding byte `c` are the scalar predicates of `c`. -/
theorem classify_bits (W : Nat) (ch : List (BitVec 8)) (i : Nat) (hW : i < W) (hi : i < ch.length) :
    testBit (classifyChars W ch).quotes i = isQuote ch[i] ∧
    testBit (classifyChars W ch).backslashes i = isBackslash ch[i] ∧
    testBit (classifyChars W ch).opens i = isOpen ch[i] ∧
    testBit (classifyChars W ch).closes i = isClose ch[i] ∧
    testBit (classifyChars W ch).delims i = isDelim ch[i] ∧
    testBit (classifyChars W ch).valueChars i = isValueChar ch[i] := by
  simp only [classifyChars, testBit_movemask _ _ _ hW, classifyLane_eq_scalar]
  simp [List.getD_eq_getElem?_getD, hi, classifyLaneScalar, msb_laneOfBool]

theorem drop_take_succ {α : Type} (l : List α) (i n : Nat) (h : i < l.length) :
    (l.drop i).take (n + 1) = l[i] :: (l.drop (i + 1)).take n := by
  rw [List.drop_eq_getElem_cons h, List.take_succ_cons]

/-! ### SIMD engines: `process_chunk_*` -/

theorem processChunkStd_agrees (W : Nat) (ch : List (BitVec 8)) (n : Nat) :
    ∀ (i : Nat), i + n ≤ W → i + n ≤ ch.length → ∀ (s : St) (ib bp : BitWriter),
      Agrees step ((ch.drop i).take n) s ib bp (processChunkStd (classifyChars W ch) n i s ib bp) := by
  induction n with
  | zero => intro i _ _ s ib bp; simp only [List.take_zero]; exact Agrees.nil _ _ _ _
  | succ n ih =>
    intro i hW hl s ib bp
    obtain ⟨hq, hb, ho, hc, hd, hv⟩ := classify_bits W ch i (by omega) (by omega)
    rw [drop_take_succ ch i n (by omega)]
    simp only [processChunkStd, hq, hb, ho, hc, hd, hv]
    cases s <;> simp only [] <;> (repeat' split) <;>
      (refine Agrees.cons ?_ ?_ ?_ (ih (i + 1) (by omega) (by omega) _ _ _) <;>
        simp [step, *, BitWriter.write0, BitWriter.write1, BitWriter.writeAll, Out.open, Out.close,
          Out.none, Out.leaf])

theorem processChunkSimple_agrees (W : Nat) (ch : List (BitVec 8)) (n : Nat) :
    ∀ (i : Nat), i + n ≤ W → i + n ≤ ch.length → ∀ (s : SSt) (ib bp : BitWriter),
      Agrees sstep ((ch.drop i).take n) s ib bp
        (processChunkSimple (classifyChars W ch) n i s ib bp) := by
  induction n with
  | zero => intro i _ _ s ib bp; simp only [List.take_zero]; exact Agrees.nil _ _ _ _
  | succ n ih =>
    intro i hW hl s ib bp
    obtain ⟨hq, hb, ho, hc, hd, _⟩ := classify_bits W ch i (by omega) (by omega)
    rw [drop_take_succ ch i n (by omega)]
    simp only [processChunkSimple, hq, hb, ho, hc, hd]
    cases s <;> simp only [] <;> (repeat' split) <;>
      (refine Agrees.cons ?_ ?_ ?_ (ih (i + 1) (by omega) (by omega) _ _ _) <;>
        simp [sstep, *, BitWriter.write0, BitWriter.write1, BitWriter.writeAll, Out.none])

/-! ### SIMD engines: the chunk loop -/

theorem chunkLoop_agrees {σ : Type} (f : σ → BitVec 8 → σ × Out) (W : Nat) (hW : 0 < W)
    (proc : CharClass W → Nat → Nat → σ → BitWriter → BitWriter → σ × BitWriter × BitWriter)
    (hproc : ∀ (ch : List (BitVec 8)) (n i : Nat), i + n ≤ W → i + n ≤ ch.length →
      ∀ (s : σ) (ib bp : BitWriter),
        Agrees f ((ch.drop i).take n) s ib bp (proc (classifyChars W ch) n i s ib bp)) :
    ∀ (fuel : Nat) (rest : List (BitVec 8)), rest.length < fuel → ∀ (s : σ) (ib bp : BitWriter),
      Agrees f rest s ib bp (chunkLoop W proc fuel rest s ib bp) := by
  intro fuel
  induction fuel with
  | zero => intro rest h; omega
  | succ fuel ih =>
    intro rest hfuel s ib bp
    unfold chunkLoop
    by_cases hfull : W ≤ rest.length
    · simp only [hfull, if_true]
      have hlen : (rest.take W).length = W := by simp [List.length_take]; omega
      have h1 := hproc (rest.take W) W 0 (by omega) (by omega) s ib bp
      simp only [List.drop_zero, List.take_take, Nat.min_self] at h1
      rw [hlen, Nat.min_self]
      generalize proc (classifyChars W (rest.take W)) W 0 s ib bp = r1 at h1 ⊢
      obtain ⟨s1, ib1, bp1⟩ := r1
      have h2 := ih (rest.drop W) (by simp [List.length_drop]; omega) s1 ib1 bp1
      have := Agrees.append h1 h2
      rwa [List.take_append_drop] at this
    · simp only [hfull, if_false]
      by_cases hpos : 0 < rest.length
      · simp only [hpos, if_true]
        have hmin : min rest.length W = rest.length := by omega
        rw [hmin]
        have h1 := hproc (rest ++ List.replicate (W - rest.length) 0#8) rest.length 0 (by omega)
          (by simp) s ib bp
        simpa [List.take_left'] using h1
      · simp only [hpos, if_false]
        have : rest = [] := List.eq_nil_of_length_eq_zero (by omega)
        subst this
        exact Agrees.nil _ _ _ _

/-! ### BitWriter = naive packing -/

theorem getLsbD_packWord (bs : List Bool) (i : Nat) :
    (packWord bs).getLsbD i = (decide (i < 64) && bs.getD i false) := getLsbD_packBits 64 bs i

theorem packWord_snoc (xs : List Bool) (b : Bool) :
    packWord (xs ++ [b]) = packWord xs ||| (if b then 1#64 <<< xs.length else 0#64) := by
  apply BitVec.eq_of_getLsbD_eq
  intro i hi
  rw [BitVec.getLsbD_or, getLsbD_packWord, getLsbD_packWord]
  simp only [hi, decide_true, Bool.true_and]
  by_cases h1 : i < xs.length
  · have : (if b then 1#64 <<< xs.length else 0#64).getLsbD i = false := by
      cases b <;> simp [BitVec.getLsbD_shiftLeft, h1]
    simp [this, List.getD_eq_getElem?_getD, List.getElem?_append_left h1]
  · by_cases h2 : i = xs.length
    · subst h2
      cases b <;> simp [List.getD_eq_getElem?_getD, hi]
    · have h3 : xs.length < i := by omega
      have : (if b then 1#64 <<< xs.length else 0#64).getLsbD i = false := by
        cases b <;> simp [BitVec.getLsbD_shiftLeft, BitVec.getLsbD_one]; omega
      have h4 : (xs ++ [b])[i]? = none := by
        apply List.getElem?_eq_none; simp; omega
      have h5 : xs[i]? = none := List.getElem?_eq_none (by omega)
      simp [this, List.getD_eq_getElem?_getD, h4, h5]

theorem packN_append (k : Nat) (xs ys : List Bool) (h : 64 * k ≤ xs.length) :
    packN k (xs ++ ys) = packN k xs := by
  induction k generalizing xs with
  | zero => rfl
  | succ k ih =>
    have h64 : 64 ≤ xs.length := by omega
    simp only [packN]
    rw [List.take_append_of_le_length h64, List.drop_append_of_le_length h64,
      ih (xs.drop 64) (by simp [List.length_drop]; omega)]

theorem packN_succ (k : Nat) (xs : List Bool) :
    packN (k + 1) xs = packN k xs ++ [packWord ((xs.drop (64 * k)).take 64)] := by
  induction k generalizing xs with
  | zero => simp [packN]
  | succ k ih =>
    rw [packN, ih (xs.drop 64)]
    simp only [packN, List.drop_drop, List.cons_append]
    have : 64 + 64 * k = 64 * (k + 1) := by omega
    rw [this]

/-- The writer state after writing the bit list `bs` from scratch. -/
def canonWriter (bs : List Bool) : BitWriter :=
  ⟨packN (bs.length / 64) bs, packWord (bs.drop (64 * (bs.length / 64))), bs.length % 64⟩

theorem writeBit_canon (bs : List Bool) (b : Bool) :
    (canonWriter bs).writeBit b = canonWriter (bs ++ [b]) := by
  have hk : 64 * (bs.length / 64) ≤ bs.length := Nat.mul_div_le _ _
  have hdrop : (bs ++ [b]).drop (64 * (bs.length / 64)) = bs.drop (64 * (bs.length / 64)) ++ [b] :=
    List.drop_append_of_le_length hk
  have hdl : (bs.drop (64 * (bs.length / 64))).length = bs.length % 64 := by
    rw [List.length_drop]; have := Nat.div_add_mod bs.length 64; omega
  have hcur : (if b then packWord (bs.drop (64 * (bs.length / 64))) ||| (1#64 <<< (bs.length % 64))
      else packWord (bs.drop (64 * (bs.length / 64)))) =
      packWord (bs.drop (64 * (bs.length / 64)) ++ [b]) := by
    rw [packWord_snoc, hdl]; cases b <;> simp
  simp only [BitWriter.writeBit, canonWriter, hcur]
  by_cases hp : bs.length % 64 + 1 = 64
  · have hq : (bs.length + 1) / 64 = bs.length / 64 + 1 := by omega
    have hr : (bs.length + 1) % 64 = 0 := by omega
    simp only [hp, if_true, List.length_append, List.length_singleton, hq, hr]
    have hall : (bs ++ [b]).drop (64 * (bs.length / 64 + 1)) = [] := by
      apply List.drop_eq_nil_of_le; simp; omega
    rw [packN_succ, packN_append _ _ _ hk, hdrop, hall]
    have : (bs.drop (64 * (bs.length / 64)) ++ [b]).take 64 = bs.drop (64 * (bs.length / 64)) ++ [b] := by
      apply List.take_of_length_le; simp [hdl]; omega
    rw [this]; rfl
  · have hq : (bs.length + 1) / 64 = bs.length / 64 := by omega
    have hr : (bs.length + 1) % 64 = bs.length % 64 + 1 := by omega
    simp only [hp, if_false, List.length_append, List.length_singleton, hq, hr]
    rw [packN_append _ _ _ hk, hdrop]

theorem writeAll_canon (bs cs : List Bool) :
    (canonWriter bs).writeAll cs = canonWriter (bs ++ cs) := by
  induction cs generalizing bs with
  | nil => simp [writeAll_nil]
  | cons c cs ih => rw [writeAll_cons, writeBit_canon, ih]; simp

theorem writeAll_empty (bs : List Bool) : BitWriter.empty.writeAll bs = canonWriter bs := by
  have : BitWriter.empty = canonWriter [] := by simp [canonWriter, BitWriter.empty, packN, packWord, packBits]
  rw [this, writeAll_canon]; simp

theorem finish_canon (bs : List Bool) : (canonWriter bs).finish = pack bs := by
  simp only [BitWriter.finish, canonWriter, pack]
  by_cases hp : bs.length % 64 > 0
  · have hq : (bs.length + 63) / 64 = bs.length / 64 + 1 := by omega
    simp only [hp, if_true, hq, packN_succ]
    have : (bs.drop (64 * (bs.length / 64))).take 64 = bs.drop (64 * (bs.length / 64)) := by
      apply List.take_of_length_le; rw [List.length_drop]; have := Nat.div_add_mod bs.length 64; omega
    rw [this]
  · have hq : (bs.length + 63) / 64 = bs.length / 64 := by omega
    simp only [hp, if_false, hq]

/-- `finish` after writing `bs` bit by bit from an empty writer = the naive packing of `bs`. -/
theorem finish_writeAll (bs : List Bool) : (BitWriter.empty.writeAll bs).finish = pack bs := by
  rw [writeAll_empty, finish_canon]

theorem len_writeAll (bs : List Bool) : (BitWriter.empty.writeAll bs).len = bs.length := by
  rw [writeAll_empty]
  simp only [BitWriter.len, canonWriter]
  have : ∀ k xs, (packN k xs).length = k := by
    intro k; induction k with
    | zero => intro xs; rfl
    | succ k ih => intro xs; simp [packN, ih]
  rw [this]; have := Nat.div_add_mod bs.length 64; omega

/-! ### `write_zeros` -/

theorem packWord_append_zeros (xs : List Bool) (n : Nat) :
    packWord (xs ++ List.replicate n false) = packWord xs := by
  apply BitVec.eq_of_getLsbD_eq
  intro i hi
  rw [getLsbD_packWord, getLsbD_packWord]
  congr 1
  simp only [List.getD_eq_getElem?_getD]
  by_cases h : i < xs.length
  · rw [List.getElem?_append_left h]
  · rw [List.getElem?_append_right (by omega), List.getElem?_eq_none (by omega : xs.length ≤ i)]
    simp only [List.getElem?_replicate]
    split <;> rfl

theorem packWord_zeros (n : Nat) : packWord (List.replicate n false) = 0#64 := by
  have := packWord_append_zeros [] n
  simpa [packWord, packBits] using this

theorem packN_zeros (m n : Nat) : packN m (List.replicate n false) = List.replicate m 0#64 := by
  induction m generalizing n with
  | zero => rfl
  | succ m ih =>
    simp only [packN, List.take_replicate, List.drop_replicate, packWord_zeros, ih, List.replicate_succ]

theorem packN_add (j m : Nat) (xs : List Bool) :
    packN (j + m) xs = packN j xs ++ packN m (xs.drop (64 * j)) := by
  induction j generalizing xs with
  | zero => simp [packN]
  | succ j ih =>
    have : j + 1 + m = (j + m) + 1 := by omega
    rw [this, packN, packN, ih, List.drop_drop]
    have : 64 + 64 * j = 64 * (j + 1) := by omega
    rw [this]; rfl

theorem drop_append_zeros (bs : List Bool) (n j r : Nat) (h : n - j = r) :
    (bs ++ List.replicate n false).drop (bs.length + j) = List.replicate r false := by
  rw [List.drop_append, List.drop_eq_nil_of_le (by omega), List.drop_replicate, List.nil_append]
  congr 1; omega

theorem writeZeros_canon (bs : List Bool) (n : Nat) :
    (canonWriter bs).writeZeros n = canonWriter (bs ++ List.replicate n false) := by
  by_cases hn : n = 0
  · subst hn; simp [BitWriter.writeZeros]
  have hk : 64 * (bs.length / 64) ≤ bs.length := Nat.mul_div_le _ _
  have hmod := Nat.div_add_mod bs.length 64
  have hdl : (bs.drop (64 * (bs.length / 64))).length = bs.length % 64 := by
    rw [List.length_drop]; omega
  simp only [BitWriter.writeZeros, hn, if_false]
  by_cases hp : bs.length % 64 > 0
  · have hpc : (canonWriter bs).pos > 0 := hp
    simp only [hpc, if_true]
    by_cases hfit : n < 64 - (canonWriter bs).pos
    · simp only [hfit, if_true]
      have hfit' : n < 64 - bs.length % 64 := hfit
      have hq : (bs.length + n) / 64 = bs.length / 64 := by omega
      have hr : (bs.length + n) % 64 = bs.length % 64 + n := by omega
      simp only [canonWriter, List.length_append, List.length_replicate, hq, hr]
      rw [packN_append _ _ _ hk, List.drop_append_of_le_length hk, packWord_append_zeros]
    · simp only [hfit, if_false]
      have hfit' : ¬ (n < 64 - bs.length % 64) := hfit
      have hq : (bs.length + n) / 64 = (bs.length / 64 + 1) + (n - (64 - bs.length % 64)) / 64 := by omega
      have hr : (bs.length + n) % 64 = (n - (64 - bs.length % 64)) % 64 := by omega
      simp only [canonWriter, List.length_append, List.length_replicate, hq, hr]
      have hdropall : (bs ++ List.replicate n false).drop (64 * (bs.length / 64 + 1)) =
          List.replicate (n - (64 - bs.length % 64)) false := by
        have : 64 * (bs.length / 64 + 1) = bs.length + (64 - bs.length % 64) := by omega
        rw [this]; exact drop_append_zeros _ _ _ _ rfl
      have htake : ((bs ++ List.replicate n false).drop (64 * (bs.length / 64))).take 64 =
          bs.drop (64 * (bs.length / 64)) ++ List.replicate (64 - bs.length % 64) false := by
        rw [List.drop_append_of_le_length hk, List.take_append, hdl, List.take_of_length_le (by omega),
          List.take_replicate]
        congr 2; omega
      rw [packN_add, packN_succ, packN_append _ _ _ hk, htake, packWord_append_zeros, hdropall, packN_zeros]
      have hd2 : (bs ++ List.replicate n false).drop
          (64 * (bs.length / 64 + 1 + (n - (64 - bs.length % 64)) / 64)) =
          List.replicate ((n - (64 - bs.length % 64)) % 64) false := by
        have : 64 * (bs.length / 64 + 1 + (n - (64 - bs.length % 64)) / 64) =
            bs.length + ((64 - bs.length % 64) + 64 * ((n - (64 - bs.length % 64)) / 64)) := by omega
        rw [this]
        exact drop_append_zeros _ _ _ _ (by have := Nat.div_add_mod (n - (64 - bs.length % 64)) 64; omega)
      rw [hd2, packWord_zeros]
  · have hp0 : bs.length % 64 = 0 := by omega
    have hpc : ¬ ((canonWriter bs).pos > 0) := by show ¬ (bs.length % 64 > 0); omega
    simp only [hpc, if_false]
    have hq : (bs.length + n) / 64 = bs.length / 64 + n / 64 := by omega
    have hr : (bs.length + n) % 64 = n % 64 := by omega
    simp only [canonWriter, List.length_append, List.length_replicate, hq, hr]
    have hL : 64 * (bs.length / 64) = bs.length := by omega
    have hcur : packWord (bs.drop (64 * (bs.length / 64))) = 0#64 := by
      rw [hL, List.drop_length]; rfl
    have hd1 : (bs ++ List.replicate n false).drop (64 * (bs.length / 64)) = List.replicate n false := by
      rw [hL, List.drop_left']; rfl
    have hd2 : (bs ++ List.replicate n false).drop (64 * (bs.length / 64 + n / 64)) =
        List.replicate (n % 64) false := by
      have : 64 * (bs.length / 64 + n / 64) = bs.length + 64 * (n / 64) := by omega
      rw [this]
      exact drop_append_zeros _ _ _ _ (by have := Nat.div_add_mod n 64; omega)
    rw [packN_add, packN_append _ _ _ hk, hd1, packN_zeros, hd2, packWord_zeros, hcur]

/-! ### `write_bits` -/

/-- The lowest `c` bits of a word, LSB first. -/
def lowBits (v : BitVec 64) (c : Nat) : List Bool := (List.range c).map v.getLsbD

theorem mask_bits64 : ∀ c : Fin 64, ∀ i : Fin 64,
    ((1#64 <<< c.val) - 1#64).getLsbD i.val = decide (i.val < c.val) := by decide +kernel

/-- `bits & mask` keeps exactly the lowest `count` bits. -/
theorem getLsbD_masked (v : BitVec 64) (c : Nat) (hc : c ≤ 64) (i : Nat) (hi : i < 64) :
    (v &&& (if c = 64 then BitVec.allOnes 64 else (1#64 <<< c) - 1#64)).getLsbD i =
      (v.getLsbD i && decide (i < c)) := by
  by_cases h64 : c = 64
  · subst h64; rw [if_pos rfl, BitVec.and_allOnes]; simp [hi]
  · have := mask_bits64 ⟨c, by omega⟩ ⟨i, hi⟩
    simp only at this
    simp [h64, BitVec.getLsbD_and, this]

theorem getD_lowBits (v : BitVec 64) (c i : Nat) : (lowBits v c).getD i false = (v.getLsbD i && decide (i < c)) := by
  simp only [lowBits, List.getD_eq_getElem?_getD, List.getElem?_map]
  by_cases h : i < c <;> simp [h]

theorem lowBits_length (v : BitVec 64) (c : Nat) : (lowBits v c).length = c := by simp [lowBits]

/-- `cur | (masked << pos)` appends the new bits after the `pos` bits already in the word. -/
theorem packWord_append_low (tail : List Bool) (v : BitVec 64) (c : Nat) (hc : c ≤ 64) :
    packWord tail ||| ((v &&& (if c = 64 then BitVec.allOnes 64 else (1#64 <<< c) - 1#64)) <<< tail.length) =
      packWord (tail ++ lowBits v c) := by
  apply BitVec.eq_of_getLsbD_eq
  intro i hi
  rw [BitVec.getLsbD_or, getLsbD_packWord, getLsbD_packWord, BitVec.getLsbD_shiftLeft]
  simp only [hi, decide_true, Bool.true_and, List.getD_eq_getElem?_getD]
  by_cases h : i < tail.length
  · rw [List.getElem?_append_left h]; simp [h]
  · rw [List.getElem?_append_right (by omega), List.getElem?_eq_none (by omega : tail.length ≤ i)]
    have hm := getLsbD_masked v c hc (i - tail.length) (by omega)
    have hl := getD_lowBits v c (i - tail.length)
    simp only [List.getD_eq_getElem?_getD] at hl
    rw [hm, hl]; simp [h]

/-- `masked >> space` holds the new bits that did not fit. -/
theorem packWord_drop_low (v : BitVec 64) (c s : Nat) (hc : c ≤ 64) :
    (v &&& (if c = 64 then BitVec.allOnes 64 else (1#64 <<< c) - 1#64)) >>> s = packWord ((lowBits v c).drop s) := by
  apply BitVec.eq_of_getLsbD_eq
  intro i hi
  rw [BitVec.getLsbD_ushiftRight, getLsbD_packWord]
  simp only [hi, decide_true, Bool.true_and, List.getD_eq_getElem?_getD, List.getElem?_drop]
  have hl := getD_lowBits v c (s + i)
  simp only [List.getD_eq_getElem?_getD] at hl
  rw [hl]
  by_cases h64 : s + i < 64
  · exact getLsbD_masked v c hc (s + i) h64
  · have : ¬ (s + i < c) := by omega
    simp [this, BitVec.getLsbD_of_ge _ _ (by omega : 64 ≤ s + i)]

theorem writeBits_canon (bs : List Bool) (v : BitVec 64) (c : Nat) (hc : c ≤ 64) :
    (canonWriter bs).writeBits v c = canonWriter (bs ++ lowBits v c) := by
  by_cases h0 : c = 0
  · subst h0; simp [BitWriter.writeBits, lowBits]
  have hcond : ¬ (c = 0 ∨ c > 64) := by omega
  have hk : 64 * (bs.length / 64) ≤ bs.length := Nat.mul_div_le _ _
  have hmod := Nat.div_add_mod bs.length 64
  have hdl : (bs.drop (64 * (bs.length / 64))).length = bs.length % 64 := by
    rw [List.length_drop]; omega
  have hdrop : (bs ++ lowBits v c).drop (64 * (bs.length / 64)) = bs.drop (64 * (bs.length / 64)) ++ lowBits v c :=
    List.drop_append_of_le_length hk
  have hcur := packWord_append_low (bs.drop (64 * (bs.length / 64))) v c hc
  rw [hdl] at hcur
  simp only [BitWriter.writeBits, hcond, if_false]
  by_cases hfit : c ≤ 64 - (canonWriter bs).pos
  · have hfit' : c ≤ 64 - bs.length % 64 := hfit
    simp only [hfit, if_true]
    by_cases hfull : (canonWriter bs).pos + c = 64
    · have hfull' : bs.length % 64 + c = 64 := hfull
      simp only [hfull, if_true]
      have hq : (bs.length + c) / 64 = bs.length / 64 + 1 := by omega
      have hr : (bs.length + c) % 64 = 0 := by omega
      simp only [canonWriter, List.length_append, lowBits_length, hq, hr, hcur]
      have hall : (bs ++ lowBits v c).drop (64 * (bs.length / 64 + 1)) = [] := by
        apply List.drop_eq_nil_of_le; simp [lowBits_length]; omega
      have htk : (bs.drop (64 * (bs.length / 64)) ++ lowBits v c).take 64 =
          bs.drop (64 * (bs.length / 64)) ++ lowBits v c := by
        apply List.take_of_length_le; simp [hdl, lowBits_length]; omega
      rw [packN_succ, packN_append _ _ _ hk, hdrop, htk, hall]; rfl
    · have hfull' : ¬ (bs.length % 64 + c = 64) := hfull
      simp only [hfull, if_false]
      have hq : (bs.length + c) / 64 = bs.length / 64 := by omega
      have hr : (bs.length + c) % 64 = bs.length % 64 + c := by omega
      simp only [canonWriter, List.length_append, lowBits_length, hq, hr, hcur]
      rw [packN_append _ _ _ hk, hdrop]
  · have hfit' : ¬ (c ≤ 64 - bs.length % 64) := hfit
    simp only [hfit, if_false]
    have hq : (bs.length + c) / 64 = bs.length / 64 + 1 := by omega
    have hr : (bs.length + c) % 64 = c - (64 - bs.length % 64) := by omega
    simp only [canonWriter, List.length_append, lowBits_length, hq, hr, hcur]
    have htk : (bs.drop (64 * (bs.length / 64)) ++ lowBits v c).take 64 =
        bs.drop (64 * (bs.length / 64)) ++ (lowBits v c).take (64 - bs.length % 64) := by
      rw [List.take_append, hdl, List.take_of_length_le (by omega)]
    have hw : packWord (bs.drop (64 * (bs.length / 64)) ++ (lowBits v c).take (64 - bs.length % 64)) =
        packWord (bs.drop (64 * (bs.length / 64)) ++ lowBits v c) := by
      apply BitVec.eq_of_getLsbD_eq
      intro i hi
      rw [getLsbD_packWord, getLsbD_packWord]
      congr 1
      simp only [List.getD_eq_getElem?_getD]
      by_cases h : i < (bs.drop (64 * (bs.length / 64))).length
      · rw [List.getElem?_append_left h, List.getElem?_append_left h]
      · rw [List.getElem?_append_right (by omega), List.getElem?_append_right (by omega), List.getElem?_take]
        have : i - (bs.drop (64 * (bs.length / 64))).length < 64 - bs.length % 64 := by omega
        rw [if_pos this]
    have hd2 : (bs ++ lowBits v c).drop (64 * (bs.length / 64 + 1)) = (lowBits v c).drop (64 - bs.length % 64) := by
      have : 64 * (bs.length / 64 + 1) = bs.length + (64 - bs.length % 64) := by omega
      rw [this, List.drop_append, List.drop_eq_nil_of_le (by omega), List.nil_append]
      congr 1; omega
    rw [packN_succ, packN_append _ _ _ hk, hdrop, htk, hw, hd2, packWord_drop_low v c _ hc]

/-! ### arbitrary `BitWriter` call sequences -/

/-- One call on a `BitWriter`. -/
inductive BwOp where
  | bit (b : Bool)
  | bits (v : BitVec 64) (count : Nat)
  | zeros (count : Nat)

/-- The bits a call appends. -/
def BwOp.denote : BwOp → List Bool
  | .bit b => [b]
  | .bits v c => lowBits v c
  | .zeros n => List.replicate n false

def BwOp.apply (w : BitWriter) : BwOp → BitWriter
  | .bit b => w.writeBit b
  | .bits v c => w.writeBits v c
  | .zeros n => w.writeZeros n

/-- `write_bits` is called within its documented domain. -/
def BwOp.ok : BwOp → Prop
  | .bits _ c => c ≤ 64
  | _ => True

theorem apply_canon (bs : List Bool) (op : BwOp) (h : op.ok) :
    op.apply (canonWriter bs) = canonWriter (bs ++ op.denote) := by
  cases op with
  | bit b => exact writeBit_canon bs b
  | bits v c => exact writeBits_canon bs v c h
  | zeros n => exact writeZeros_canon bs n

theorem foldl_apply_canon (ops : List BwOp) (h : ∀ op ∈ ops, op.ok) (bs : List Bool) :
    ops.foldl BwOp.apply (canonWriter bs) = canonWriter (bs ++ ops.flatMap BwOp.denote) := by
  induction ops generalizing bs with
  | nil => simp
  | cons op ops ih =>
    rw [List.foldl_cons, apply_canon bs op (h op (by simp)), ih (fun o ho => h o (by simp [ho]))]
    simp

theorem canon_nil : BitWriter.empty = canonWriter [] := by
  simp [canonWriter, BitWriter.empty, packN, packWord, packBits]

theorem len_canon (bs : List Bool) : (canonWriter bs).len = bs.length := by
  rw [← writeAll_empty]; exact len_writeAll bs

/-! ### simple-cursor scalar loop -/

theorem simpleLoop_agrees (cs : List (BitVec 8)) (s : SSt) (ib bp : BitWriter) :
    Agrees sstep cs s ib bp (simpleLoop cs s ib bp) := by
  induction cs generalizing s ib bp with
  | nil => exact Agrees.nil _ _ _ _
  | cons c cs ih =>
    simp only [simpleLoop]
    cases s <;> simp only [] <;> (repeat' split) <;>
      (refine Agrees.cons ?_ ?_ ?_ (ih _ _ _) <;>
        simp [sstep, *, BitWriter.write0, BitWriter.write1, BitWriter.writeAll, Out.none])

/-! ### from loop agreement to the returned words -/

theorem finishBuilt_agrees {σ : Type} {f : σ → BitVec 8 → σ × Out} {cs : List (BitVec 8)} {s0 : σ}
    {r : σ × BitWriter × BitWriter} (h : Agrees f cs s0 .empty .empty r) :
    finishBuilt r = ⟨pack (runG f s0 cs).ib, pack (runG f s0 cs).bp, (runG f s0 cs).st⟩ := by
  simp only [Agrees] at h
  subst h
  simp [finishBuilt, finish_writeAll]

/-! ### class codes (for comparing the lane model with the dumped masks of the compiled code) -/

/-- 6-bit class code of a byte under the lane model (bit j = sign bit of result vector j). -/
def classCode (c : BitVec 8) : Int :=
  let l := classifyLane c
  ((if l.quotes.msb then 1 else 0) + (if l.backslashes.msb then 2 else 0) + (if l.opens.msb then 4 else 0)
    + (if l.closes.msb then 8 else 0) + (if l.delims.msb then 16 else 0)
    + (if l.valueChars.msb then 32 else 0) : Nat)

end SV.JsonSemi
