/-
Proof/JsonSemi — helper lemmas for C05 (engine independence of the JSON semi-index).
-/
import SuccinctlyVerif.Spec.JsonSemi
import SuccinctlyVerif.Model.JsonSemi
namespace SV.JsonSemi

end SV.JsonSemi
