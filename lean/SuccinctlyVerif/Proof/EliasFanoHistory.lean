/-
Proof/EliasFanoHistory — C03: the iterator yields the sequence; any operation history on the
cursor is observed exactly as on the plain sequence (induction over the operation list).
-/
import SuccinctlyVerif.Proof.EliasFanoCursor
namespace SV.EF
open SV SV.Scan

section
variable {R : Nat} {vs : List Nat} {ef : EliasFano}

theorem goto_le (vs : List Nat) (i : Nat) : EFSpec.goto vs i ≤ vs.length := by
  unfold EFSpec.goto; split <;> omega

theorem iterRest_spec (hb : Built R vs ef) (hs : EFSpec.Sorted vs) (hu : EFSpec.AllU32 vs)
    (fuel : Nat) (c : Cursor) (hc : CurInv vs ef c) (hf : vs.length - c.idx ≤ fuel) :
    iterRest ef fuel c = some (vs.drop (c.idx + 1)) := by
  induction fuel generalizing c with
  | zero =>
    have := hc.1
    simp only [iterRest]
    rw [List.drop_of_length_le (by omega)]
  | succ fuel ih =>
    obtain ⟨c', h1, h2, h3⟩ := advanceOne_spec hb hs hu c hc
    unfold EFSpec.goto at h1 h2
    simp only [iterRest, h1]
    by_cases hi : c.idx + 1 < vs.length
    · rw [if_pos hi] at h2
      simp only [if_pos hi, List.getElem?_eq_getElem hi]
      rw [ih c' h3 (by omega), h2]
      simp
    · rw [if_neg hi] at h2
      simp only [if_neg hi, getElem?_length_self]
      rw [List.drop_of_length_le (by omega)]

theorem toList_spec (hb : Built R vs ef) (hs : EFSpec.Sorted vs) (hu : EFSpec.AllU32 vs) :
    toList ef = some vs := by
  unfold toList
  obtain ⟨h1, h2⟩ := cursor_spec hb hs
  simp only [current_spec hb hs hu _ h2, h1]
  unfold EFSpec.goto at h1 ⊢
  by_cases hn : 0 < vs.length
  · simp only [if_pos hn, List.getElem?_eq_getElem hn]
    rw [if_pos hn] at h1
    rw [iterRest_spec hb hs hu ef.len _ h2 (by rw [hb.len]; omega), h1]
    cases vs with
    | nil => simp at hn
    | cons v vs => simp
  · have : vs = [] := by cases vs <;> simp_all
    subst this
    simp

theorem stepOp_spec (hb : Built R vs ef) (hs : EFSpec.Sorted vs) (hu : EFSpec.AllU32 vs)
    (hR : 0 < R) (h32 : 64 * ef.highBits.length ≤ 2 ^ 32)
    (c : Cursor) (hc : CurInv vs ef c) (op : EFSpec.Op) :
    ∃ c', stepOp R ef c op = some (c', (EFSpec.step vs c.idx op).2) ∧
      c'.idx = (EFSpec.step vs c.idx op).1 ∧ CurInv vs ef c' := by
  cases op with
  | advanceOne =>
    obtain ⟨c', h1, h2, h3⟩ := advanceOne_spec hb hs hu c hc
    exact ⟨c', by simp [stepOp, EFSpec.step, h1], h2, h3⟩
  | advanceBy k =>
    obtain ⟨c', h1, h2, h3⟩ := advanceBy_spec hb hs hu hR h32 c hc k
    exact ⟨c', by simp [stepOp, EFSpec.step, h1], h2, h3⟩
  | seek i =>
    obtain ⟨c', h1, h2, h3⟩ := seek_spec hb hs hu hR h32 c i
    exact ⟨c', by simp [stepOp, EFSpec.step, h1], h2, h3⟩
  | cursorFrom i =>
    obtain ⟨c', h1, h2, h3⟩ := cursorFrom_spec hb hs hR h32 i
    exact ⟨c', by simp [stepOp, EFSpec.step, h1], h2, h3⟩
  | cursor =>
    obtain ⟨h2, h3⟩ := cursor_spec hb hs
    exact ⟨_, by simp [stepOp, EFSpec.step], h2, h3⟩
  | current =>
    exact ⟨c, by simp [stepOp, EFSpec.step, current_spec hb hs hu c hc], rfl, hc⟩
  | index => exact ⟨c, by simp [stepOp, EFSpec.step], rfl, hc⟩
  | isExhausted => exact ⟨c, by simp [stepOp, EFSpec.step], rfl, hc⟩

theorem observe_spec (hb : Built R vs ef) (hs : EFSpec.Sorted vs) (hu : EFSpec.AllU32 vs)
    (c : Cursor) (hc : CurInv vs ef c) (r : Option (Option Nat)) :
    observe ef c r = some (EFSpec.observe vs c.idx r) := by
  simp [observe, EFSpec.observe, current_spec hb hs hu c hc, index, isExhausted, hb.len]

theorem run_spec (hb : Built R vs ef) (hs : EFSpec.Sorted vs) (hu : EFSpec.AllU32 vs)
    (hR : 0 < R) (h32 : 64 * ef.highBits.length ≤ 2 ^ 32)
    (ops : List EFSpec.Op) (c : Cursor) (hc : CurInv vs ef c) :
    run R ef c ops = some (EFSpec.runPlain vs c.idx ops) := by
  induction ops generalizing c with
  | nil => rfl
  | cons op ops ih =>
    obtain ⟨c', h1, h2, h3⟩ := stepOp_spec hb hs hu hR h32 c hc op
    simp only [run, h1, observe_spec hb hs hu c' h3, EFSpec.runPlain]
    rw [ih c' h3, h2]

end
end SV.EF
