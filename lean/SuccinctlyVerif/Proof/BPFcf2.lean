/-
Proof/BPFcf2 — `find_close_from`: the seven-state loop over the exact L0/L1/L2 index returns the
linear-scan answer; invariant "no match before `pos` ∧ running excess exact", termination measure
`7·(words left) + rank(state)` (C04).
-/
import SuccinctlyVerif.Proof.BPFcf
namespace SV.BPF
open SV SV.BP SV.BPM SV.BPP SV.BPW SV.BPS SV.BPC SV.BPI

theorem getD_map_range' {α} (f : Nat → α) (m i : Nat) (h : i < m) (d : α) :
    ((List.range' 0 m).map f).getD i d = f i := by
  rw [List.getD_eq_getElem?_getD, List.getElem?_map, List.getElem?_range' h]
  simp

/-- Field facts of the structure built by the scalar builders over a non-empty sequence. -/
theorem acc (st : List (BitVec 64)) (len : Nat) (k : SelKind) (hw : st.length = (len + 63) / 64) (hpos : 0 < len) :
    (mkBP false st len k).l0.size = st.length ∧
    (mkBP false st len k).l1.size = (st.length + 31) / 32 ∧
    (mkBP false st len k).l2.size = ((st.length + 31) / 32 + 31) / 32 ∧
    (∀ i, i < st.length → (mkBP false st len k).l0Min i = minExc (blk (bitsOf st len) 64 (64 * i)) ∧
        (mkBP false st len k).l0Exc i = totExc (blk (bitsOf st len) 64 (64 * i))) ∧
    (∀ j, j < (st.length + 31) / 32 → (mkBP false st len k).l1Min j = minExc (blk (bitsOf st len) 2048 (2048 * j)) ∧
        (mkBP false st len k).l1Exc j = totExc (blk (bitsOf st len) 2048 (2048 * j))) ∧
    (∀ j, j < ((st.length + 31) / 32 + 31) / 32 →
        (mkBP false st len k).l2Min j = minExc (blk (bitsOf st len) 65536 (65536 * j)) ∧
        (mkBP false st len k).l2Exc j = totExc (blk (bitsOf st len) 65536 (65536 * j))) := by
  have hne : st ≠ [] := by
    intro h; rw [h] at hw; simp at hw; omega
  have hne' : ¬ (st = [] ∨ len = 0) := by
    intro h; rcases h with h | h
    · exact hne h
    · omega
  obtain ⟨h0, h1, h2⟩ := index_exact st len hw hne
  have hl0 : (mkBP false st len k).l0 = (buildL0 st len).toArray := by simp [mkBP, hne']
  have hl1 : (mkBP false st len k).l1 = (buildL1 (buildL0 st len)).toArray := by simp [mkBP, hne']
  have hl2 : (mkBP false st len k).l2 = (buildL2 (buildL1 (buildL0 st len))).toArray := by simp [mkBP, hne']
  refine ⟨?_, ?_, ?_, ?_, ?_, ?_⟩
  · rw [hl0, h0]; simp
  · rw [hl1, h1]; simp
  · rw [hl2, h2]; simp
  · intro i hi
    unfold BP.l0Min BP.l0Exc
    rw [hl0, BPR.toArray_getD, h0, getD_map_range' _ _ _ hi]
    exact ⟨rfl, rfl⟩
  · intro j hj
    unfold BP.l1Min BP.l1Exc
    rw [hl1, BPR.toArray_getD, h1, getD_map_range' _ _ _ hj]
    exact ⟨rfl, rfl⟩
  · intro j hj
    unfold BP.l2Min BP.l2Exc
    rw [hl2, BPR.toArray_getD, h2, getD_map_range' _ _ _ hj]
    exact ⟨rfl, rfl⟩

def rank : St → Nat
  | .scanWord => 0 | .checkL0 => 1 | .checkL1 => 2 | .checkL2 => 3 | .fromL2 => 4 | .fromL1 => 5 | .fromL0 => 6

/-- Termination measure: `7 · (word boundaries left) + rank(state)`. -/
def mu (n : Nat) (s : St) (pos : Nat) : Nat := 7 * (n + 1 - pos / 64) + rank s

/-- Alignment (and range) facts the loop maintains on entry to each state. -/
def entry (len : Nat) : St → Nat → Prop
  | .scanWord, _ => True
  | .checkL0, p => p % 64 = 0 ∧ p < len
  | .checkL1, p => p % 2048 = 0 ∧ p < len
  | .checkL2, p => p % 65536 = 0 ∧ p < len
  | .fromL0, _ => True
  | .fromL1, p => p % 64 = 0
  | .fromL2, p => p % 2048 = 0

theorem l1Bits_eq : l1Bits = 2048 := rfl
theorem l2Bits_eq : l2Bits = 65536 := rfl

end SV.BPF
