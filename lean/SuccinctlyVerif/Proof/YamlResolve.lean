/-
Proof/YamlResolve — `resolve_plain` (model of `src/yaml/scalar.rs`) agrees with the YAML 1.2 core
schema (`coreResolve`, written from §10.3.2) except for the deviations the source documents.
-/
import SuccinctlyVerif.Model.YamlEmit
namespace SV.Yaml.Emit
open SV.Yaml

theorem isFloatBody_nil : isFloatBody [] = false := by decide

/-- A text whose first character is neither a digit nor `.` is not a float body. -/
theorem isFloatBody_cons_false {c : Char} (rest : List Char) (hd : isDigit c = false) (hdot : c ≠ '.') :
    isFloatBody (c :: rest) = false := by
  simp [isFloatBody, hd, hdot]

theorem allDigits_cons_false {c : Char} (rest : List Char) (hd : isDigit c = false) :
    allDigits (c :: rest) = false := by
  simp [allDigits, hd]

theorem splitSign_other {c : Char} (rest : List Char) (h1 : c ≠ '-') (h2 : c ≠ '+') :
    splitSign (c :: rest) = (false, c :: rest) := by
  unfold splitSign
  split
  · rename_i h; simp at h; exact absurd h.1 h1
  · rename_i h; simp at h; exact absurd h.1 h2
  · rfl

/-- First character outside digits, signs and `.`: the core schema says string unless the text is
one of the eleven null/bool words. -/
theorem coreResolve_str_of_first {c : Char} (rest : List Char)
    (hd : isDigit c = false) (hdot : c ≠ '.') (h1 : c ≠ '-') (h2 : c ≠ '+')
    (hw : ∀ w ∈ ["null", "Null", "NULL", "~", "true", "True", "TRUE", "false", "False", "FALSE"],
      c :: rest ≠ String.toList w) :
    coreResolve (c :: rest) = .str (c :: rest) := by
  have h0 : c ≠ '0' := by intro e; subst e; simp [isDigit] at hd
  unfold coreResolve
  have w1 := hw "null" (by simp); have w2 := hw "Null" (by simp); have w3 := hw "NULL" (by simp)
  have w4 := hw "~" (by simp); have w5 := hw "true" (by simp); have w6 := hw "True" (by simp)
  have w7 := hw "TRUE" (by simp); have w8 := hw "false" (by simp); have w9 := hw "False" (by simp)
  have w10 := hw "FALSE" (by simp)
  simp only [w1, w2, w3, w4, w5, w6, w7, w8, w9, w10, splitSign_other rest h1 h2,
    allDigits_cons_false rest hd, isFloatBody_cons_false rest hd hdot, decide_false, Bool.or_false,
    Bool.false_eq_true, if_false, List.cons_ne_nil]
  have hinf : isInfWord (c :: rest) = false := by
    simp [isInfWord, hdot]
  have hnan : isNanWord (c :: rest) = false := by
    simp [isNanWord, hdot]
  simp [hinf, hnan, h0]

theorem first_ne {c d : Char} (rest : List Char) (w : String) (hd : w.toList.head? = some d)
    (hne : c ≠ d) : c :: rest ≠ w.toList := by
  intro e
  rw [← e] at hd
  simp at hd
  exact hne hd

/-- The word list of `coreResolve_str_of_first`, when the first character differs from the first
character of every word except possibly those equal to `c0`, which are excluded by `hex`. -/
theorem words_ne {c : Char} (rest : List Char)
    (hn : c ≠ 'n' ∨ c :: rest ≠ "null".toList)
    (hN : c ≠ 'N' ∨ (c :: rest ≠ "Null".toList ∧ c :: rest ≠ "NULL".toList))
    (htl : c ≠ '~' ∨ c :: rest ≠ "~".toList)
    (ht : c ≠ 't' ∨ c :: rest ≠ "true".toList)
    (hT : c ≠ 'T' ∨ (c :: rest ≠ "True".toList ∧ c :: rest ≠ "TRUE".toList))
    (hf : c ≠ 'f' ∨ c :: rest ≠ "false".toList)
    (hF : c ≠ 'F' ∨ (c :: rest ≠ "False".toList ∧ c :: rest ≠ "FALSE".toList)) :
    ∀ w ∈ ["null", "Null", "NULL", "~", "true", "True", "TRUE", "false", "False", "FALSE"],
      c :: rest ≠ String.toList w := by
  intro w hw
  simp only [List.mem_cons, List.not_mem_nil, or_false] at hw
  rcases hw with rfl | rfl | rfl | rfl | rfl | rfl | rfl | rfl | rfl | rfl
  · rcases hn with h | h; exact first_ne rest _ (by decide) h; exact h
  · rcases hN with h | h; exact first_ne rest _ (by decide) h; exact h.1
  · rcases hN with h | h; exact first_ne rest _ (by decide) h; exact h.2
  · rcases htl with h | h; exact first_ne rest _ (by decide) h; exact h
  · rcases ht with h | h; exact first_ne rest _ (by decide) h; exact h
  · rcases hT with h | h; exact first_ne rest _ (by decide) h; exact h.1
  · rcases hT with h | h; exact first_ne rest _ (by decide) h; exact h.2
  · rcases hf with h | h; exact first_ne rest _ (by decide) h; exact h
  · rcases hF with h | h; exact first_ne rest _ (by decide) h; exact h.1
  · rcases hF with h | h; exact first_ne rest _ (by decide) h; exact h.2

theorem kw_eq (s : List Char) (m : Bool) (r : Scalar) (hpos : m = true → coreResolve s = r)
    (hneg : m = false → coreResolve s = .str s) :
    (if m = true then r else Scalar.str s) = coreResolve s := by
  cases m
  · simp [hneg rfl]
  · simp [hpos rfl]

/-- `coreResolve` on a text starting with `.`. -/
theorem coreResolve_dot (rest : List Char) :
    coreResolve ('.' :: rest) =
      if isFloatBody ('.' :: rest) then .float .finite
      else if isInfWord ('.' :: rest) then .float .posInf
      else if isNanWord ('.' :: rest) then .float .nan
      else .str ('.' :: rest) := by
  have hw := words_ne (c := '.') rest (Or.inl (by decide)) (Or.inl (by decide)) (Or.inl (by decide))
    (Or.inl (by decide)) (Or.inl (by decide)) (Or.inl (by decide)) (Or.inl (by decide))
  have w1 := hw "null" (by simp); have w2 := hw "Null" (by simp); have w3 := hw "NULL" (by simp)
  have w4 := hw "~" (by simp); have w5 := hw "true" (by simp); have w6 := hw "True" (by simp)
  have w7 := hw "TRUE" (by simp); have w8 := hw "false" (by simp); have w9 := hw "False" (by simp)
  have w10 := hw "FALSE" (by simp)
  unfold coreResolve
  simp only [w1, w2, w3, w4, w5, w6, w7, w8, w9, w10,
    splitSign_other rest (by decide : ('.' : Char) ≠ '-') (by decide : ('.' : Char) ≠ '+'),
    allDigits_cons_false rest (by decide : isDigit '.' = false), decide_false, Bool.or_false,
    Bool.false_eq_true, if_false, List.cons_ne_nil]
  simp

theorem infWord_not_float (s : List Char) (h : isInfWord s = true) : isFloatBody s = false := by
  simp only [isInfWord, Bool.or_eq_true, decide_eq_true_eq] at h
  rcases h with (h | h) | h <;> (subst h; decide)

theorem nanWord_not_float (s : List Char) (h : isNanWord s = true) : isFloatBody s = false := by
  simp only [isNanWord, Bool.or_eq_true, decide_eq_true_eq] at h
  rcases h with (h | h) | h <;> (subst h; decide)

theorem nanWord_not_inf (s : List Char) (h : isNanWord s = true) : isInfWord s = false := by
  simp only [isNanWord, Bool.or_eq_true, decide_eq_true_eq] at h
  rcases h with (h | h) | h <;> (subst h; decide)

/-- `resolve_plain` = core schema for every text that does not start with a digit or a sign,
outside the documented deviations. -/
theorem resolve_agrees_core_nonnumeric (c : Char) (rest : List Char)
    (hd : isDigit c = false) (hm : c ≠ '-') (hp : c ≠ '+')
    (hdev : deviates (c :: rest) = false) :
    resolvePlainRs (c :: rest) = coreResolve (c :: rest) := by
  unfold resolvePlainRs
  simp only []
  by_cases h1 : c = 'n'
  · subst h1; simp only [if_true]
    apply kw_eq
    · intro h; simp only [decide_eq_true_eq] at h; rw [h]; decide
    · intro h; simp only [decide_eq_false_iff_not] at h
      exact coreResolve_str_of_first rest (by decide) (by decide) (by decide) (by decide)
        (words_ne rest (Or.inr h) (Or.inl (by decide)) (Or.inl (by decide)) (Or.inl (by decide))
          (Or.inl (by decide)) (Or.inl (by decide)) (Or.inl (by decide)))
  simp only [h1, if_false]
  by_cases h2 : c = 'N'
  · subst h2; simp only [if_true]
    apply kw_eq
    · intro h; simp only [Bool.or_eq_true, decide_eq_true_eq] at h
      rcases h with h | h <;> (rw [h]; decide)
    · intro h; simp only [Bool.or_eq_false_iff, decide_eq_false_iff_not] at h
      exact coreResolve_str_of_first rest (by decide) (by decide) (by decide) (by decide)
        (words_ne rest (Or.inl (by decide)) (Or.inr h) (Or.inl (by decide)) (Or.inl (by decide))
          (Or.inl (by decide)) (Or.inl (by decide)) (Or.inl (by decide)))
  simp only [h2, if_false]
  by_cases h3 : c = '~'
  · subst h3; simp only [if_true]
    apply kw_eq
    · intro h
      have : rest = [] := by simpa using h
      subst this; decide
    · intro h
      have hne : '~' :: rest ≠ "~".toList := by
        intro e
        have : rest = [] := by simpa using e
        subst this; simp at h
      exact coreResolve_str_of_first rest (by decide) (by decide) (by decide) (by decide)
        (words_ne rest (Or.inl (by decide)) (Or.inl (by decide)) (Or.inr hne) (Or.inl (by decide))
          (Or.inl (by decide)) (Or.inl (by decide)) (Or.inl (by decide)))
  simp only [h3, if_false]
  by_cases h4 : c = 't'
  · subst h4; simp only [if_true]
    apply kw_eq
    · intro h; simp only [decide_eq_true_eq] at h; rw [h]; decide
    · intro h; simp only [decide_eq_false_iff_not] at h
      exact coreResolve_str_of_first rest (by decide) (by decide) (by decide) (by decide)
        (words_ne rest (Or.inl (by decide)) (Or.inl (by decide)) (Or.inl (by decide)) (Or.inr h)
          (Or.inl (by decide)) (Or.inl (by decide)) (Or.inl (by decide)))
  simp only [h4, if_false]
  by_cases h5 : c = 'T'
  · subst h5; simp only [if_true]
    apply kw_eq
    · intro h; simp only [Bool.or_eq_true, decide_eq_true_eq] at h
      rcases h with h | h <;> (rw [h]; decide)
    · intro h; simp only [Bool.or_eq_false_iff, decide_eq_false_iff_not] at h
      exact coreResolve_str_of_first rest (by decide) (by decide) (by decide) (by decide)
        (words_ne rest (Or.inl (by decide)) (Or.inl (by decide)) (Or.inl (by decide)) (Or.inl (by decide))
          (Or.inr h) (Or.inl (by decide)) (Or.inl (by decide)))
  simp only [h5, if_false]
  by_cases h6 : c = 'f'
  · subst h6; simp only [if_true]
    apply kw_eq
    · intro h; simp only [decide_eq_true_eq] at h; rw [h]; decide
    · intro h; simp only [decide_eq_false_iff_not] at h
      exact coreResolve_str_of_first rest (by decide) (by decide) (by decide) (by decide)
        (words_ne rest (Or.inl (by decide)) (Or.inl (by decide)) (Or.inl (by decide)) (Or.inl (by decide))
          (Or.inl (by decide)) (Or.inr h) (Or.inl (by decide)))
  simp only [h6, if_false]
  by_cases h7 : c = 'F'
  · subst h7; simp only [if_true]
    apply kw_eq
    · intro h; simp only [Bool.or_eq_true, decide_eq_true_eq] at h
      rcases h with h | h <;> (rw [h]; decide)
    · intro h; simp only [Bool.or_eq_false_iff, decide_eq_false_iff_not] at h
      exact coreResolve_str_of_first rest (by decide) (by decide) (by decide) (by decide)
        (words_ne rest (Or.inl (by decide)) (Or.inl (by decide)) (Or.inl (by decide)) (Or.inl (by decide))
          (Or.inl (by decide)) (Or.inl (by decide)) (Or.inr h))
  simp only [h7, if_false]
  by_cases h8 : c = '.'
  · subst h8; simp only [if_true]
    rw [coreResolve_dot]
    by_cases hi : isInfWord ('.' :: rest) = true
    · simp [hi, infWord_not_float _ hi]
    by_cases hn : isNanWord ('.' :: rest) = true
    · simp [hi, hn, nanWord_not_float _ hn]
    simp only [hi, hn, Bool.false_eq_true, if_false]
    unfold parseFloatRs
    simp only [splitSign_other rest (by decide : ('.' : Char) ≠ '-') (by decide : ('.' : Char) ≠ '+')]
    by_cases hf : isFloatBody ('.' :: rest) = true
    · have : floatBodyFinite ('.' :: rest) = true := by
        have hc : coreResolve ('.' :: rest) = .float .finite := by rw [coreResolve_dot]; simp [hf]
        simp only [deviates, hc,
          splitSign_other rest (by decide : ('.' : Char) ≠ '-') (by decide : ('.' : Char) ≠ '+')] at hdev
        simpa using hdev
      simp [hf, this]
    · simp [hf]
  simp only [h8, if_false]
  have hs : (c = '+' || c = '-') = false := by simp [hm, hp]
  simp only [hs, Bool.false_eq_true, if_false, hd]
  exact (coreResolve_str_of_first rest hd h8 hm hp
    (words_ne rest (Or.inl h1) (Or.inl h2) (Or.inl h3) (Or.inl h4) (Or.inl h5) (Or.inl h6) (Or.inl h7))).symm

/-! ### texts starting with a sign -/

theorem words_ne_of_not_letter {c : Char} (rest : List Char)
    (h : c ≠ 'n' ∧ c ≠ 'N' ∧ c ≠ '~' ∧ c ≠ 't' ∧ c ≠ 'T' ∧ c ≠ 'f' ∧ c ≠ 'F') :
    ∀ w ∈ ["null", "Null", "NULL", "~", "true", "True", "TRUE", "false", "False", "FALSE"],
      c :: rest ≠ String.toList w :=
  words_ne rest (Or.inl h.1) (Or.inl h.2.1) (Or.inl h.2.2.1) (Or.inl h.2.2.2.1)
    (Or.inl h.2.2.2.2.1) (Or.inl h.2.2.2.2.2.1) (Or.inl h.2.2.2.2.2.2)

/-- `coreResolve` after the word tests, for a text that is none of the words and does not start
with `0`: decimal integer, float, infinity, not-a-number, string — in the table's order. -/
theorem coreResolve_tail {c : Char} (rest : List Char)
    (hw : ∀ w ∈ ["null", "Null", "NULL", "~", "true", "True", "TRUE", "false", "False", "FALSE"],
      c :: rest ≠ String.toList w) (h0 : c ≠ '0') :
    coreResolve (c :: rest) =
      if allDigits (splitSign (c :: rest)).2 then
        .int (if (splitSign (c :: rest)).1 then -(natOfDigits 10 (splitSign (c :: rest)).2 : Int)
              else natOfDigits 10 (splitSign (c :: rest)).2)
      else if isFloatBody (splitSign (c :: rest)).2 then .float .finite
      else if isInfWord (splitSign (c :: rest)).2 then
        .float (if (splitSign (c :: rest)).1 then .negInf else .posInf)
      else if isNanWord (c :: rest) then .float .nan
      else .str (c :: rest) := by
  have w1 := hw "null" (by simp); have w2 := hw "Null" (by simp); have w3 := hw "NULL" (by simp)
  have w4 := hw "~" (by simp); have w5 := hw "true" (by simp); have w6 := hw "True" (by simp)
  have w7 := hw "TRUE" (by simp); have w8 := hw "false" (by simp); have w9 := hw "False" (by simp)
  have w10 := hw "FALSE" (by simp)
  unfold coreResolve
  simp only [w1, w2, w3, w4, w5, w6, w7, w8, w9, w10, decide_false, Bool.or_false,
    Bool.false_eq_true, if_false, List.cons_ne_nil]
  cases hs : splitSign (c :: rest) with
  | mk neg body =>
    simp only []
    by_cases ha : allDigits body = true
    · simp [ha]
    · simp [ha, h0]

theorem splitSign_minus (rest : List Char) : splitSign ('-' :: rest) = (true, rest) := rfl
theorem splitSign_plus (rest : List Char) : splitSign ('+' :: rest) = (false, rest) := rfl

theorem isNanWord_cons_false {c : Char} (rest : List Char) (h : c ≠ '.') :
    isNanWord (c :: rest) = false := by simp [isNanWord, h]
theorem isInfWord_cons_false {c : Char} (rest : List Char) (h : c ≠ '.') :
    isInfWord (c :: rest) = false := by simp [isInfWord, h]

/-- `parse_float` against the core schema's float/inf/string tail, for a body that is not an
infinity word. -/
theorem parseFloatRs_eq (s : List Char) (hfin : isFloatBody (splitSign s).2 = true →
    floatBodyFinite (splitSign s).2 = true) :
    parseFloatRs s = if isFloatBody (splitSign s).2 then .float .finite else .str s := by
  unfold parseFloatRs
  by_cases hf : isFloatBody (splitSign s).2 = true
  · simp [hf, hfin hf]
  · simp [hf]

/-- `resolve_signed` on the text after the sign. -/
def resolveSignedRs (c : Char) (rest : List Char) : Scalar :=
  match rest with
  | c2 :: _ =>
    if c2 = '.' then
      if isInfWord rest then .float (if c = '-' then .negInf else .posInf) else parseFloatRs (c :: rest)
    else if isDigit c2 then parseIntOrFloatRs (c :: rest) else .str (c :: rest)
  | [] => .str (c :: rest)

theorem resolve_agrees_core_signed (c : Char) (rest : List Char) (hc : c = '+' ∨ c = '-')
    (hdev : deviates (c :: rest) = false) :
    resolvePlainRs (c :: rest) = coreResolve (c :: rest) := by
  have hnl : c ≠ 'n' ∧ c ≠ 'N' ∧ c ≠ '~' ∧ c ≠ 't' ∧ c ≠ 'T' ∧ c ≠ 'f' ∧ c ≠ 'F' := by
    rcases hc with h | h <;> (subst h; decide)
  have h0 : c ≠ '0' := by rcases hc with h | h <;> (subst h; decide)
  have hdot : c ≠ '.' := by rcases hc with h | h <;> (subst h; decide)
  have hcore := coreResolve_tail rest (words_ne_of_not_letter rest hnl) h0
  have hss : splitSign (c :: rest) = (decide (c = '-'), rest) := by
    rcases hc with h | h <;> (subst h; rfl)
  rw [hss] at hcore
  simp only [isNanWord_cons_false rest hdot, Bool.false_eq_true, if_false] at hcore
  -- the Rust side
  have hr : resolvePlainRs (c :: rest) = resolveSignedRs c rest := by
    cases rest with
    | nil => rcases hc with h | h <;> (subst h; rfl)
    | cons c2 r2 =>
      unfold resolvePlainRs resolveSignedRs
      rcases hc with h | h <;> (subst h; simp)
  rw [hr, hcore]
  -- finiteness from the deviation hypothesis
  have hfin : isFloatBody (splitSign (c :: rest)).2 = true → allDigits rest = false →
      floatBodyFinite (splitSign (c :: rest)).2 = true := by
    intro hf ha
    rw [hss] at hf ⊢
    simp only at hf ⊢
    have : coreResolve (c :: rest) = .float .finite := by rw [hcore]; simp [ha, hf]
    simp only [deviates, this, hss] at hdev
    simpa using hdev
  cases rest with
  | nil =>
    have e : resolveSignedRs c [] = .str [c] := rfl
    rw [e]; simp [allDigits, isFloatBody, isInfWord]
  | cons c2 r2 =>
    have e : resolveSignedRs c (c2 :: r2) =
        (if c2 = '.' then
          if isInfWord (c2 :: r2) then .float (if c = '-' then .negInf else .posInf)
          else parseFloatRs (c :: c2 :: r2)
        else if isDigit c2 then parseIntOrFloatRs (c :: c2 :: r2) else .str (c :: c2 :: r2)) := rfl
    rw [e]
    by_cases h2 : c2 = '.'
    · subst h2
      have ha : allDigits ('.' :: r2) = false := allDigits_cons_false r2 (by decide)
      simp only [if_true, ha, Bool.false_eq_true, if_false]
      by_cases hi : isInfWord ('.' :: r2) = true
      · simp [hi, infWord_not_float _ hi]
      · simp only [hi, Bool.false_eq_true, if_false]
        rw [parseFloatRs_eq _ (fun hf => hfin hf ha), hss]
    · simp only [h2, if_false]
      by_cases hd2 : isDigit c2 = true
      · simp only [hd2, if_true]
        unfold parseIntOrFloatRs rustI64Parse
        rw [hss]
        simp only []
        by_cases ha : allDigits (c2 :: r2) = true
        · -- an integer: in range by the deviation hypothesis
          have hci : coreResolve (c :: c2 :: r2) =
              .int (if decide (c = '-') = true then -(natOfDigits 10 (c2 :: r2) : Int)
                    else natOfDigits 10 (c2 :: r2)) := by rw [hcore]; simp [ha]
          simp [deviates, hci] at hdev
          simp [ha, hdev]
        · simp only [ha, Bool.false_eq_true, if_false]
          have ha' : allDigits (c2 :: r2) = false := by simpa using ha
          rw [parseFloatRs_eq _ (fun hf => hfin hf ha'), hss]
          simp [isInfWord_cons_false r2 h2]
      · have hd2' : isDigit c2 = false := by simpa using hd2
        simp [hd2', allDigits_cons_false r2 hd2', isFloatBody_cons_false r2 hd2' h2,
          isInfWord_cons_false r2 h2]

/-! ### texts starting with a digit -/

theorem digit_facts {c : Char} (hd : isDigit c = true) :
    (c ≠ 'n' ∧ c ≠ 'N' ∧ c ≠ '~' ∧ c ≠ 't' ∧ c ≠ 'T' ∧ c ≠ 'f' ∧ c ≠ 'F') ∧ c ≠ '.' ∧ c ≠ '+' ∧ c ≠ '-' := by
  refine ⟨⟨?_, ?_, ?_, ?_, ?_, ?_, ?_⟩, ?_, ?_, ?_⟩ <;> (intro e; subst e; simp [isDigit] at hd)

/-- Not of the form `0x…` / `0o…`. -/
def notBased (c : Char) (rest : List Char) : Prop :=
  c ≠ '0' ∨ ∀ x r2, rest = x :: r2 → x ≠ 'x' ∧ x ≠ 'o'

theorem coreResolve_digit_general (c : Char) (rest : List Char) (hd : isDigit c = true)
    (hs : notBased c rest) :
    coreResolve (c :: rest) =
      if allDigits (c :: rest) then .int (natOfDigits 10 (c :: rest) : Int)
      else if isFloatBody (c :: rest) then .float .finite else .str (c :: rest) := by
  obtain ⟨hnl, hdot, hp, hm⟩ := digit_facts hd
  have hw := words_ne_of_not_letter rest hnl
  have w1 := hw "null" (by simp); have w2 := hw "Null" (by simp); have w3 := hw "NULL" (by simp)
  have w4 := hw "~" (by simp); have w5 := hw "true" (by simp); have w6 := hw "True" (by simp)
  have w7 := hw "TRUE" (by simp); have w8 := hw "false" (by simp); have w9 := hw "False" (by simp)
  have w10 := hw "FALSE" (by simp)
  unfold coreResolve
  simp only [w1, w2, w3, w4, w5, w6, w7, w8, w9, w10, decide_false, Bool.or_false,
    Bool.false_eq_true, if_false, List.cons_ne_nil, splitSign_other rest hm hp]
  by_cases ha : allDigits (c :: rest) = true
  · simp [ha]
  · simp only [ha, Bool.false_eq_true, if_false]
    split
    · rename_i d heq
      simp only [List.cons.injEq] at heq
      rcases hs with h | h
      · exact absurd heq.1 h
      · exact absurd rfl (h 'o' d heq.2).2
    · rename_i d heq
      simp only [List.cons.injEq] at heq
      rcases hs with h | h
      · exact absurd heq.1 h
      · exact absurd rfl (h 'x' d heq.2).1
    · simp [isInfWord_cons_false rest hdot, isNanWord_cons_false rest hdot]

theorem resolvePlainRs_digit_general (c : Char) (rest : List Char) (hd : isDigit c = true)
    (hs : notBased c rest) :
    resolvePlainRs (c :: rest) = parseIntOrFloatRs (c :: rest) := by
  obtain ⟨hnl, hdot, hp, hm⟩ := digit_facts hd
  unfold resolvePlainRs
  simp only [hnl.1, hnl.2.1, hnl.2.2.1, hnl.2.2.2.1, hnl.2.2.2.2.1, hnl.2.2.2.2.2.1, hnl.2.2.2.2.2.2,
    hdot, hp, hm, if_false, decide_false, Bool.or_false, Bool.false_eq_true, hd, if_true]
  split
  · rename_i d ds heq
    simp only [List.cons.injEq] at heq
    rcases hs with h | h
    · exact absurd heq.1 h
    · exact absurd rfl (h 'x' (d :: ds) heq.2).1
  · rename_i d ds heq
    simp only [List.cons.injEq] at heq
    rcases hs with h | h
    · exact absurd heq.1 h
    · exact absurd rfl (h 'o' (d :: ds) heq.2).2
  · rfl

theorem resolve_agrees_core_digit_general (c : Char) (rest : List Char) (hd : isDigit c = true)
    (hs : notBased c rest) (hdev : deviates (c :: rest) = false) :
    resolvePlainRs (c :: rest) = coreResolve (c :: rest) := by
  obtain ⟨_, _, hp, hm⟩ := digit_facts hd
  have hcore := coreResolve_digit_general c rest hd hs
  rw [resolvePlainRs_digit_general c rest hd hs, hcore]
  unfold parseIntOrFloatRs rustI64Parse
  simp only [splitSign_other rest hm hp]
  by_cases ha : allDigits (c :: rest) = true
  · have hci : coreResolve (c :: rest) = .int (natOfDigits 10 (c :: rest) : Int) := by
      rw [hcore]; simp [ha]
    simp [deviates, hci] at hdev
    simp [ha, hdev]
  · have ha' : allDigits (c :: rest) = false := by simpa using ha
    simp only [ha, Bool.false_eq_true, if_false]
    rw [parseFloatRs_eq]
    · simp [splitSign_other rest hm hp]
    · intro hf
      rw [splitSign_other rest hm hp] at hf ⊢
      have hcf : coreResolve (c :: rest) = .float .finite := by
        rw [hcore]; simp [ha', hf]
      simp only [deviates, hcf, splitSign_other rest hm hp] at hdev
      simpa using hdev

theorem isRadixDigit_16 : isRadixDigit 16 = isHexDigit := by
  funext c; simp [isRadixDigit]
theorem isRadixDigit_8 : isRadixDigit 8 = isOctDigit := by
  funext c; simp [isRadixDigit]

theorem resolve_agrees_core_based16 (d : Char) (ds : List Char)
    (hdev : deviates ('0' :: 'x' :: d :: ds) = false) :
    resolvePlainRs ('0' :: 'x' :: d :: ds) = coreResolve ('0' :: 'x' :: d :: ds) := by
  have hR : resolvePlainRs ('0' :: 'x' :: d :: ds) =
      parseRadixRs ('0' :: 'x' :: d :: ds) (d :: ds) 16 := by
    unfold resolvePlainRs
    simp [isDigit]
  have hw := words_ne_of_not_letter (c := '0') ('x' :: d :: ds) (by decide)
  have w1 := hw "null" (by simp); have w2 := hw "Null" (by simp); have w3 := hw "NULL" (by simp)
  have w4 := hw "~" (by simp); have w5 := hw "true" (by simp); have w6 := hw "True" (by simp)
  have w7 := hw "TRUE" (by simp); have w8 := hw "false" (by simp); have w9 := hw "False" (by simp)
  have w10 := hw "FALSE" (by simp)
  have hC : coreResolve ('0' :: 'x' :: d :: ds) =
      if (d :: ds).all isHexDigit then .int (natOfDigits 16 (d :: ds) : Int)
      else .str ('0' :: 'x' :: d :: ds) := by
    unfold coreResolve
    simp only [w1, w2, w3, w4, w5, w6, w7, w8, w9, w10, decide_false, Bool.or_false,
      Bool.false_eq_true, if_false, List.cons_ne_nil,
      splitSign_other ('x' :: d :: ds) (by decide : ('0' : Char) ≠ '-') (by decide : ('0' : Char) ≠ '+')]
    have ha : allDigits ('0' :: 'x' :: d :: ds) = false := by simp [allDigits, isDigit]
    simp [ha]
  rw [hR, hC]
  unfold parseRadixRs
  simp only [isRadixDigit_16, isRadixDigit_8]
  by_cases hs : (d = '+' || d = '-') = true
  · have hnh : isHexDigit d = false := by
      simp only [Bool.or_eq_true, decide_eq_true_eq] at hs
      rcases hs with h | h <;> (subst h; decide)
    simp [hs, hnh]
  · by_cases hall : (d :: ds).all isHexDigit = true
    · have hci : coreResolve ('0' :: 'x' :: d :: ds) = .int (natOfDigits 16 (d :: ds) : Int) := by
        rw [hC]; simp [hall]
      simp [deviates, hci] at hdev
      have hlt : natOfDigits 16 (d :: ds) < 2 ^ 63 := by
        omega
      simp only [hs, Bool.false_eq_true, if_false]
      simp [hall, hlt]
    · simp only [hs, Bool.false_eq_true, if_false]
      simp [hall]

theorem resolve_agrees_core_based8 (d : Char) (ds : List Char)
    (hdev : deviates ('0' :: 'o' :: d :: ds) = false) :
    resolvePlainRs ('0' :: 'o' :: d :: ds) = coreResolve ('0' :: 'o' :: d :: ds) := by
  have hR : resolvePlainRs ('0' :: 'o' :: d :: ds) =
      parseRadixRs ('0' :: 'o' :: d :: ds) (d :: ds) 8 := by
    unfold resolvePlainRs
    simp [isDigit]
  have hw := words_ne_of_not_letter (c := '0') ('o' :: d :: ds) (by decide)
  have w1 := hw "null" (by simp); have w2 := hw "Null" (by simp); have w3 := hw "NULL" (by simp)
  have w4 := hw "~" (by simp); have w5 := hw "true" (by simp); have w6 := hw "True" (by simp)
  have w7 := hw "TRUE" (by simp); have w8 := hw "false" (by simp); have w9 := hw "False" (by simp)
  have w10 := hw "FALSE" (by simp)
  have hC : coreResolve ('0' :: 'o' :: d :: ds) =
      if (d :: ds).all isOctDigit then .int (natOfDigits 8 (d :: ds) : Int)
      else .str ('0' :: 'o' :: d :: ds) := by
    unfold coreResolve
    simp only [w1, w2, w3, w4, w5, w6, w7, w8, w9, w10, decide_false, Bool.or_false,
      Bool.false_eq_true, if_false, List.cons_ne_nil,
      splitSign_other ('o' :: d :: ds) (by decide : ('0' : Char) ≠ '-') (by decide : ('0' : Char) ≠ '+')]
    have ha : allDigits ('0' :: 'o' :: d :: ds) = false := by simp [allDigits, isDigit]
    simp [ha]
  rw [hR, hC]
  unfold parseRadixRs
  simp only [isRadixDigit_16, isRadixDigit_8]
  by_cases hs : (d = '+' || d = '-') = true
  · have hnh : isOctDigit d = false := by
      simp only [Bool.or_eq_true, decide_eq_true_eq] at hs
      rcases hs with h | h <;> (subst h; decide)
    simp [hs, hnh]
  · by_cases hall : (d :: ds).all isOctDigit = true
    · have hci : coreResolve ('0' :: 'o' :: d :: ds) = .int (natOfDigits 8 (d :: ds) : Int) := by
        rw [hC]; simp [hall]
      simp [deviates, hci] at hdev
      have hlt : natOfDigits 8 (d :: ds) < 2 ^ 63 := by
        omega
      simp only [hs, Bool.false_eq_true, if_false]
      simp [hall, hlt]
    · simp only [hs, Bool.false_eq_true, if_false]
      simp [hall]

/-- `resolve_plain` = core schema on every text starting with a digit, outside the deviations. -/
theorem resolve_agrees_core_digit (c : Char) (rest : List Char) (hd : isDigit c = true)
    (hdev : deviates (c :: rest) = false) :
    resolvePlainRs (c :: rest) = coreResolve (c :: rest) := by
  by_cases hc0 : c = '0'
  · subst hc0
    cases rest with
    | nil => decide
    | cons x r2 =>
      by_cases hx : x = 'x'
      · subst hx
        cases r2 with
        | nil => decide
        | cons d ds => exact resolve_agrees_core_based16 d ds hdev
      by_cases ho : x = 'o'
      · subst ho
        cases r2 with
        | nil => decide
        | cons d ds => exact resolve_agrees_core_based8 d ds hdev
      exact resolve_agrees_core_digit_general '0' (x :: r2) hd
        (Or.inr (fun x' r' e => by
          simp only [List.cons.injEq] at e
          rw [← e.1]; exact ⟨hx, ho⟩)) hdev
  · exact resolve_agrees_core_digit_general c rest hd (Or.inl hc0) hdev

/-- `resolve_plain` (model of `src/yaml/scalar.rs`) equals the YAML 1.2 core schema resolution
(`coreResolve`, written from §10.3.2) on EVERY text outside the documented deviations. -/
theorem resolve_agrees_core (s : List Char) (hdev : deviates s = false) :
    resolvePlainRs s = coreResolve s := by
  cases s with
  | nil => decide
  | cons c rest =>
    by_cases hd : isDigit c = true
    · exact resolve_agrees_core_digit c rest hd hdev
    by_cases hm : c = '-'
    · exact resolve_agrees_core_signed c rest (Or.inr hm) hdev
    by_cases hp : c = '+'
    · exact resolve_agrees_core_signed c rest (Or.inl hp) hdev
    exact resolve_agrees_core_nonnumeric c rest (by simpa using hd) hm hp hdev

end SV.Yaml.Emit
