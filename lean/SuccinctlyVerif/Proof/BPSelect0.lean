/-
Proof/BPSelect0 — `total_ones` and `select0` of the structure = linear-scan definitions (C04).
-/
import SuccinctlyVerif.Proof.BPSelect
namespace SV.BPR
open SV SV.BP SV.BPM SV.BPP

theorem totalOnes_eq (simd : Bool) (st : List (BitVec 64)) (len : Nat) (k : SelKind)
    (hw : st.length = (len + 63) / 64) (hlen : len < 2 ^ 32) :
    (mkBP simd st len k).totalOnes = (bitsOf st len).count true := by
  by_cases hemp : st = [] ∨ len = 0
  · have hb : bitsOf st len = [] := by
      rcases hemp with h | h
      · subst h; simp [bitsOf, allBits]
      · subst h; simp [bitsOf]
    have : (mkBP simd st len k).totalOnes = 0 := by simp [mkBP, hemp]
    rw [this, hb]; rfl
  · have ht : (mkBP simd st len k).totalOnes = (buildRank st len).2.2 := by simp [mkBP, hemp]
    obtain ⟨_, _, d3⟩ := buildRank_spec st len (by omega)
    rw [ht, d3]
    have hcount : (bitsOf st len).count true = rankB true (bitsOf st len) len := by
      unfold rankB
      rw [List.take_of_length_le (by rw [bitsOf_length st len (by omega)]; omega)]
    rw [hcount, rankB_bitsOf st len len (Nat.le_refl _)]
    by_cases h0 : len % 64 = 0
    · have hn : st.length = len / 64 := by omega
      rw [sumC_eq_take st len st.length (Or.inr ⟨Nat.le_refl _, h0⟩), hn, h0]
      simp
    · have hn : st.length = len / 64 + 1 := by omega
      rw [hn, sumC_add st len 0 (len / 64) 1, sumC_eq_take st len (len / 64) (Or.inl (by omega))]
      congr 1
      simp only [sumC, sumL, Nat.zero_add, List.range'_one, List.map_cons, List.map_nil, List.sum_cons, List.sum_nil,
        Nat.add_zero]
      unfold cw countedWord
      have hc : len / 64 = st.length - 1 ∧ len % 64 ≠ 0 := ⟨by omega, h0⟩
      simp only [hc, and_self, if_true, ne_eq, not_false_eq_true]
      have := popcBelow_eq (st.getD (len / 64) 0) (len % 64) (by omega)
      unfold popcBelow at this
      rw [← hc.1]
      exact this

theorem select0_eq (simd : Bool) (st : List (BitVec 64)) (len : Nat) (k : SelKind) (j : Nat)
    (hw : st.length = (len + 63) / 64) (hlen : len < 2 ^ 32) :
    (mkBP simd st len k).select0 j = selectB false (bitsOf st len) j := by
  unfold BPM.BP.select0
  have hlenf : (mkBP simd st len k).len = len := rfl
  have hl := bitsOf_length st len (by omega)
  have hcf := count_false_add_true (bitsOf st len)
  rw [hlenf, totalOnes_eq simd st len k hw hlen]
  by_cases hge : j ≥ len - (bitsOf st len).count true
  · simp only [hge, if_true]
    symm
    apply selectB_none
    omega
  · simp only [hge, if_false]
    have hex : rankB false (bitsOf st len) (bitsOf st len).length > j := by
      unfold rankB; rw [List.take_of_length_le (Nat.le_refl _)]; omega
    have hspec := select0Loop_spec (mkBP simd st len k) (bitsOf st len) j
      (fun p => rank0_eq simd st len k p hw hlen) (len + 1) 0 len (by omega) (by omega)
      (by intro m hm; omega) (Or.inr hl.symm) hex (by omega)
    simp only at hspec
    obtain ⟨hq1, hq2, hq3⟩ := hspec
    generalize select0Loop (mkBP simd st len k) j (len + 1) 0 len = q at *
    have hstep := rankB_step false (bitsOf st len) q
    have hle : rankB false (bitsOf st len) q ≤ j := by
      cases q with
      | zero => simp [rankB]
      | succ q' => exact hq3 q' (by omega)
    symm
    apply selectB_of_rank
    · by_cases hb : (bitsOf st len)[q]? = some false
      · exact hb
      · simp only [hb, if_false] at hstep; omega
    · by_cases hb : (bitsOf st len)[q]? = some false
      · simp only [hb, if_true] at hstep; omega
      · simp only [hb, if_false] at hstep; omega

end SV.BPR
