/-
Proof/Utf8Codec — the index law of `firstViolation`.
-/
import Std.Tactic.BVDecide
import SuccinctlyVerif.Model.Utf8
import SuccinctlyVerif.Proof.Utf8
set_option linter.unusedSimpArgs false
namespace SV.Utf8
open SV

theorem firstViolation_idx {l : List Byte} {k : ErrKind} {i : Nat}
    (h : firstViolation l = some (k, i)) (hk : k ≠ .invalidContinuationByte) : i = 0 := by
  unfold firstViolation at h
  split at h
  · cases h
  · repeat' split at h
    all_goals
      first
      | (cases h; done)
      | (cases h; first | rfl | exact absurd rfl hk)

end SV.Utf8
