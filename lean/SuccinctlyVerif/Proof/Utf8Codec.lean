/-
Proof/Utf8Codec — the index law of `firstViolation`.
-/
import Std.Tactic.BVDecide
import SuccinctlyVerif.Model.Utf8
import SuccinctlyVerif.Proof.Utf8
set_option linter.unusedSimpArgs false
namespace SV.Utf8
open SV

theorem firstViolation_idx {l : List Byte} {k : ErrKind} {i : Nat}
    (h : firstViolation l = some (k, i)) (hk : k ≠ .invalidContinuationByte) : i = 0 := by
  unfold firstViolation at h
  split at h
  · cases h
  · repeat' split at h
    all_goals
      first
      | (cases h; done)
      | (cases h; first | rfl | exact absurd rfl hk)

theorem takeWhile_lt_of_any (p : Byte → Bool) (l : List Byte) (h : l.any (fun b => !p b) = true) :
    (l.takeWhile p).length < l.length := by
  induction l with
  | nil => simp at h
  | cons b r ih =>
    by_cases hb : p b = true
    · simp only [List.any_cons, hb, Bool.not_true, Bool.false_or] at h
      simp only [List.takeWhile_cons, hb, if_true, List.length_cons]
      have := ih h; omega
    · simp [List.takeWhile_cons, hb]

/-- The index reported with a violation points inside the suffix. -/
theorem firstViolation_idx_lt {l : List Byte} {k : ErrKind} {i : Nat}
    (h : firstViolation l = some (k, i)) : i < l.length := by
  unfold firstViolation at h
  split at h
  · cases h
  · rename_i b0 r
    repeat' split at h
    all_goals first | (cases h; done) | skip
    all_goals cases h
    all_goals try (simp; done)
    rename_i hv
    simp only [violates, Bool.and_eq_true] at hv
    have h1 := takeWhile_lt_of_any isContByte _ hv.2
    have h2 : (r.take (declaredLen b0 - 1)).length ≤ r.length := by simp [List.length_take]; omega
    simp only [List.length_cons]
    omega

end SV.Utf8
