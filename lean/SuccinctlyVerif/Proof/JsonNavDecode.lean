/-
Proof/JsonNavDecode — C06: `decode_escapes` equals the specification decoder on every byte string.
-/
import SuccinctlyVerif.Proof.JsonNavTree
namespace SV.JsonNav
open SV SV.JsonSemi

/-! ### `decode_escapes` = the specification decoder, for every byte string -/

instance : DecidableEq (Except JErr (List Byte)) := fun a b =>
  match a, b with
  | .ok x, .ok y => decidable_of_iff (x = y) (by simp)
  | .error x, .error y => decidable_of_iff (x = y) (by simp)
  | .ok _, .error _ => isFalse (by simp)
  | .error _, .ok _ => isFalse (by simp)

/-- Value of four hex digits, `none` if one of them is not a hex digit. -/
def hex4 (a b c d : Byte) : Option Nat :=
  match hexDigit a, hexDigit b, hexDigit c, hexDigit d with
  | some x, some y, some z, some w => some (((x * 16 + y) * 16 + z) * 16 + w)
  | _, _, _, _ => none

/-- not a backslash -/
def notBs (b : Byte) : Bool := b != 0x5C#8

/-- What follows `\u`: `(UTF-8 bytes of the denoted scalar value, remaining bytes)`.  Four hex digits
denote the code point if it is not a surrogate; a high surrogate must be followed immediately by
`\uXXXX` denoting a low surrogate, the pair denoting one scalar value above U+FFFF; anything else is
`InvalidUnicodeEscape`. -/
def specUnicode : List Byte → Except JErr (List Byte × List Byte)
  | a :: b :: c :: d :: r =>
    match hex4 a b c d with
    | none => .error .invalidUnicodeEscape
    | some cp =>
      if 0xD800 ≤ cp ∧ cp ≤ 0xDBFF then
        match r with
        | bs :: u :: a' :: b' :: c' :: d' :: r' =>
          if bs = 0x5C#8 ∧ u = 0x75#8 then
            match hex4 a' b' c' d' with
            | none => .error .invalidUnicodeEscape
            | some lo =>
              if 0xDC00 ≤ lo ∧ lo ≤ 0xDFFF then
                .ok (Utf8.encode (0x10000 + (cp - 0xD800) * 1024 + (lo - 0xDC00)), r')
              else .error .invalidUnicodeEscape
          else .error .invalidUnicodeEscape
        | _ => .error .invalidUnicodeEscape
      else if 0xDC00 ≤ cp ∧ cp ≤ 0xDFFF then .error .invalidUnicodeEscape
      else .ok (Utf8.encode cp, r)
  | _ => .error .invalidUnicodeEscape

/-- Specification of the string-body decoder, by recursion on the byte list (`fuel` ≥ length):
* a maximal run of bytes other than `\` must be well-formed UTF-8 and is copied;
* `\" \\ \/ \b \f \n \r \t` denote one character; `\u…` as in `specUnicode`; any other `\x` is
  `InvalidEscape`;
the result is the UTF-8 encoding of the denoted scalar values. -/
def specDecode : Nat → List Byte → Except JErr (List Byte)
  | 0, _ => .ok []
  | _ + 1, [] => .ok []
  | fuel + 1, c :: rest =>
    if c = 0x5C#8 then
      match rest with
      | [] => .error .invalidEscape
      | e :: rest' =>
        match simpleEsc e with
        | some ch => (specDecode fuel rest').map (ch :: ·)
        | none =>
          if e = 0x75#8 then
            match specUnicode rest' with
            | .error e => .error e
            | .ok (out, r) => (specDecode fuel r).map (out ++ ·)
          else .error .invalidEscape
    else
      let chunk := (c :: rest).takeWhile notBs
      if Utf8.wellFormed chunk then (specDecode fuel ((c :: rest).dropWhile notBs)).map (chunk ++ ·)
      else .error .invalidUtf8

def specDecodeAll (bs : List Byte) : Except JErr (List Byte) := specDecode (bs.length + 1) bs

theorem hexDigit_lt : ∀ b : Byte, ∀ d, hexDigit b = some d → d < 16 := by
  intro b d h
  simp only [hexDigit] at h
  split at h
  · simp at h; omega
  · split at h
    · simp at h; omega
    · split at h
      · simp at h; omega
      · simp at h

theorem parseHex4_eq (a b c d : Byte) :
    parseHex4 [a, b, c, d] = match hex4 a b c d with
      | some v => .ok v
      | none => .error .invalidUnicodeEscape := by
  simp only [parseHex4, hex4, List.length_cons, List.length_nil, List.foldlM, ne_eq, not_true_eq_false, if_false]
  cases ha : hexDigit a <;> simp [bind, Except.bind, pure, Except.pure]
  rename_i x
  cases hb : hexDigit b <;> simp [bind, Except.bind, pure, Except.pure]
  rename_i y
  cases hc : hexDigit c <;> simp [bind, Except.bind, pure, Except.pure]
  rename_i z
  cases hd : hexDigit d <;> simp [bind, Except.bind, pure, Except.pure]
  rename_i w
  have := hexDigit_lt a x ha; have := hexDigit_lt b y hb
  have := hexDigit_lt c z hc; have := hexDigit_lt d w hd
  omega

theorem hex4_lt (a b c d : Byte) (v : Nat) (h : hex4 a b c d = some v) : v < 65536 := by
  simp only [hex4] at h
  cases ha : hexDigit a <;> simp [ha] at h
  rename_i x
  cases hb : hexDigit b <;> simp [hb] at h
  rename_i y
  cases hc : hexDigit c <;> simp [hc] at h
  rename_i z
  cases hd : hexDigit d <;> simp [hd] at h
  rename_i w
  have := hexDigit_lt a x ha; have := hexDigit_lt b y hb
  have := hexDigit_lt c z hc; have := hexDigit_lt d w hd
  omega

theorem arr_getD (L : List Byte) (i : Nat) : L.toArray.getD i 0#8 = L.getD i 0#8 := by
  simp [List.getD_eq_getElem?_getD, Array.getD_eq_getD_getElem?]

theorem drop_add {L R : List Byte} {i : Nat} (h : L.drop i = R) (k : Nat) : L.drop (i + k) = R.drop k := by
  rw [← h, List.drop_drop]

theorem scalar_pair (cp lo : Nat) (h1 : 0xD800 ≤ cp ∧ cp ≤ 0xDBFF) (h2 : 0xDC00 ≤ lo ∧ lo ≤ 0xDFFF) :
    charFromU32 (0x10000 + (cp - 0xD800) * 1024 + (lo - 0xDC00)) =
      some (0x10000 + (cp - 0xD800) * 1024 + (lo - 0xDC00)) := by
  have : Utf8.isScalar (0x10000 + (cp - 0xD800) * 1024 + (lo - 0xDC00)) = true := by
    simp only [Utf8.isScalar, Bool.or_eq_true, decide_eq_true_eq, Bool.and_eq_true]; omega
  simp [charFromU32, this]

theorem scalar_bmp (cp : Nat) (h0 : cp < 65536) (h1 : ¬ (0xD800 ≤ cp ∧ cp ≤ 0xDBFF))
    (h2 : ¬ (0xDC00 ≤ cp ∧ cp ≤ 0xDFFF)) : charFromU32 cp = some cp := by
  have : Utf8.isScalar cp = true := by
    simp only [Utf8.isScalar, Bool.or_eq_true, decide_eq_true_eq, Bool.and_eq_true]; omega
  simp [charFromU32, this]

/-- The `\u` arm against its specification: `i` is the index of the `u`. -/
theorem unicode_eq (L : List Byte) (i : Nat) :
    match specUnicode (L.drop (i + 1)) with
    | .error e => decodeUnicode L.toArray i = .error e
    | .ok (out, r) => ∃ i', decodeUnicode L.toArray i = .ok (i', out) ∧ r = L.drop (i' + 1) ∧ i < i' := by
  have hlen : (L.drop (i + 1)).length = L.length - (i + 1) := List.length_drop
  generalize hR : L.drop (i + 1) = R at hlen
  have short : R.length < 4 → decodeUnicode L.toArray i = .error .invalidUnicodeEscape := by
    intro h
    have : i + 4 ≥ L.toArray.size := by simp; omega
    rw [decodeUnicode, if_pos this]
  rcases R with _ | ⟨a, _ | ⟨b, _ | ⟨c, _ | ⟨d, r⟩⟩⟩⟩
  · simpa [specUnicode] using short (by simp)
  · simpa [specUnicode] using short (by simp)
  · simpa [specUnicode] using short (by simp)
  · simpa [specUnicode] using short (by simp)
  · have hsz : ¬ (i + 4 ≥ L.toArray.size) := by simp at hlen ⊢; omega
    have hsl : slice L.toArray (i + 1) (i + 5) = [a, b, c, d] := by
      have := slice_of_drop (T := L) (a := i + 1) (xs := [a, b, c, d]) (tC := r) (by rw [hR]; rfl)
      simpa using this
    simp only [specUnicode, decodeUnicode, hsz, if_false, hsl, parseHex4_eq]
    cases hh : hex4 a b c d with
    | none => simp
    | some cp =>
      simp only []
      have hcp := hex4_lt a b c d cp hh
      by_cases hhi : 0xD800 ≤ cp ∧ cp ≤ 0xDBFF
      · simp only [hhi, and_self, if_true]
        have shortr : r.length < 6 →
            ¬ (i + 4 + 6 < L.toArray.size ∧ L.toArray.getD (i + 4 + 1) 0#8 = 0x5C#8 ∧
              L.toArray.getD (i + 4 + 2) 0#8 = 0x75#8) := by
          intro h hc; simp at hlen hc; omega
        rcases r with _ | ⟨x1, _ | ⟨x2, _ | ⟨x3, _ | ⟨x4, _ | ⟨x5, _ | ⟨x6, r'⟩⟩⟩⟩⟩⟩
        · rw [if_neg (shortr (by simp))]
        · rw [if_neg (shortr (by simp))]
        · rw [if_neg (shortr (by simp))]
        · rw [if_neg (shortr (by simp))]
        · rw [if_neg (shortr (by simp))]
        · rw [if_neg (shortr (by simp))]
        · have hg1 : L.toArray.getD (i + 4 + 1) 0#8 = x1 := by
            rw [arr_getD]
            have := getD_of_drop (T := L) (a := i + 1) (xs := [a, b, c, d, x1, x2]) (tC := x3 :: x4 :: x5 :: x6 :: r')
              (by rw [hR]; rfl) 4 (by simp)
            simpa [Nat.add_assoc] using this
          have hg2 : L.toArray.getD (i + 4 + 2) 0#8 = x2 := by
            rw [arr_getD]
            have := getD_of_drop (T := L) (a := i + 1) (xs := [a, b, c, d, x1, x2]) (tC := x3 :: x4 :: x5 :: x6 :: r')
              (by rw [hR]; rfl) 5 (by simp)
            simpa [Nat.add_assoc] using this
          have hsz2 : i + 4 + 6 < L.toArray.size := by simp at hlen ⊢; omega
          have hd7 : L.drop (i + 4 + 3) = [x3, x4, x5, x6] ++ r' := by
            have := drop_add hR 6
            simpa [Nat.add_assoc] using this
          have hsl2 : slice L.toArray (i + 4 + 3) (i + 4 + 7) = [x3, x4, x5, x6] := by
            have := slice_of_drop (T := L) (a := i + 4 + 3) (xs := [x3, x4, x5, x6]) (tC := r') hd7
            simpa using this
          simp only [hg1, hg2, hsz2, true_and]
          by_cases hbu : x1 = 0x5C#8 ∧ x2 = 0x75#8
          · simp only [hbu, and_self, if_true, hsl2, parseHex4_eq]
            cases hl : hex4 x3 x4 x5 x6 with
            | none => simp
            | some lo =>
              simp only []
              by_cases hlo : 0xDC00 ≤ lo ∧ lo ≤ 0xDFFF
              · simp only [hlo, and_self, if_true, scalar_pair cp lo hhi hlo]
                refine ⟨i + 4 + 6, rfl, ?_, by omega⟩
                have := drop_add hR 10
                simpa [Nat.add_assoc] using this.symm
              · simp [hlo]
          · simp [hbu]
      · simp only [hhi, if_false]
        by_cases hlo : 0xDC00 ≤ cp ∧ cp ≤ 0xDFFF
        · simp [hlo]
        · simp only [hlo, if_false, scalar_bmp cp hcp hhi hlo]
          refine ⟨i + 4, rfl, ?_, by omega⟩
          have := drop_add hR 4
          simpa [Nat.add_assoc] using this.symm

theorem chunkEnd_eq (L : List Byte) (fuel i : Nat) (hf : L.length < fuel + i) :
    chunkEnd L.toArray fuel i = i + ((L.drop i).takeWhile notBs).length := by
  induction fuel generalizing i with
  | zero =>
    have : L.drop i = [] := List.drop_eq_nil_of_le (by omega)
    rw [chunkEnd, this]; rfl
  | succ fuel ih =>
    rw [chunkEnd]
    simp only [List.size_toArray, arr_getD]
    by_cases hi : i < L.length
    · have hd : L.drop i = L.getD i 0#8 :: L.drop (i + 1) := by
        rw [List.drop_eq_getElem_cons hi]; simp [List.getD_eq_getElem?_getD, hi]
      rw [hd]
      by_cases hb : L.getD i 0#8 = 0x5C#8
      · have hnb : notBs (L.getD i 0#8) = false := by rw [hb]; rfl
        have hc : ¬ (i < L.length ∧ L.getD i 0#8 ≠ 0x5C#8) := by intro h; exact h.2 hb
        rw [if_neg hc, List.takeWhile_cons, hnb]; rfl
      · have hnb : notBs (L.getD i 0#8) = true := by simp only [notBs, bne_iff_ne]; exact hb
        have hc : i < L.length ∧ L.getD i 0#8 ≠ 0x5C#8 := ⟨hi, hb⟩
        rw [if_pos hc, List.takeWhile_cons, hnb, ih (i + 1) (by omega)]
        simp only [if_true, List.length_cons]; omega
    · have : L.drop i = [] := List.drop_eq_nil_of_le (by omega)
      have hc : ¬ (i < L.length ∧ L.getD i 0#8 ≠ 0x5C#8) := by intro h; exact hi h.1
      rw [if_neg hc, this]; rfl

theorem drop_takeWhile_length {α : Type} (p : α → Bool) (l : List α) :
    l.drop (l.takeWhile p).length = l.dropWhile p := by
  induction l with
  | nil => rfl
  | cons a l ih => by_cases h : p a <;> simp [List.takeWhile_cons, List.dropWhile_cons, h, ih]

theorem map_map_ex (r : Except JErr (List Byte)) (f g : List Byte → List Byte) :
    (r.map f).map g = r.map (g ∘ f) := by cases r <;> rfl

/-- Main invariant: the index loop from position `i` with accumulator `acc` is the specification
decoder on the remaining bytes, prefixed by `acc`. -/
theorem decodeLoop_eq (L : List Byte) : ∀ (n i : Nat) (acc : List Byte) (F G : Nat),
    L.length - i ≤ n → n < F → n < G →
    decodeLoop L.toArray F i acc = (specDecode G (L.drop i)).map (acc ++ ·) := by
  intro n
  induction n using Nat.strongRecOn with
  | ind n ih =>
    intro i acc F G hn hF hG
    obtain ⟨F, rfl⟩ : ∃ F', F = F' + 1 := ⟨F - 1, by omega⟩
    obtain ⟨G, rfl⟩ : ∃ G', G = G' + 1 := ⟨G - 1, by omega⟩
    by_cases hi : i < L.length
    · have hd : L.drop i = L.getD i 0#8 :: L.drop (i + 1) := by
        rw [List.drop_eq_getElem_cons hi]; simp [List.getD_eq_getElem?_getD, hi]
      have hn1 : 1 ≤ n := by omega
      rw [decodeLoop]
      simp only [List.size_toArray, hi, if_true, arr_getD]
      by_cases hb : L.getD i 0#8 = 0x5C#8
      · -- escape
        simp only [hb, if_true]
        rw [hd, hb]
        simp only [specDecode, if_true]
        by_cases hi1 : i + 1 < L.length
        · have hd1 : L.drop (i + 1) = L.getD (i + 1) 0#8 :: L.drop (i + 2) := by
            rw [List.drop_eq_getElem_cons hi1]; simp [List.getD_eq_getElem?_getD, hi1]
          have hge : ¬ (i + 1 ≥ L.length) := by omega
          simp only [hge, if_false, hd1]
          cases hse : simpleEsc (L.getD (i + 1) 0#8) with
          | some ch =>
            simp only []
            rw [ih (n - 1) (by omega) (i + 1 + 1) (acc ++ [ch]) F G (by omega) (by omega) (by omega), map_map_ex]
            congr 1; funext t; simp
          | none =>
            simp only []
            by_cases hu : L.getD (i + 1) 0#8 = 0x75#8
            · simp only [hu, if_true]
              have hun := unicode_eq L (i + 1)
              cases hsu : specUnicode (L.drop (i + 2)) with
              | error e =>
                rw [show L.drop (i + 1 + 1) = L.drop (i + 2) from rfl, hsu] at hun
                simp only [] at hun
                rw [hun]; rfl
              | ok p =>
                obtain ⟨out, r⟩ := p
                rw [show L.drop (i + 1 + 1) = L.drop (i + 2) from rfl, hsu] at hun
                obtain ⟨i', hdu, hr, hlt⟩ := hun
                rw [hdu]
                simp only []
                rw [ih (n - 1) (by omega) (i' + 1) (acc ++ out) F G (by omega) (by omega) (by omega), map_map_ex, hr]
                congr 1; funext t; simp
            · simp only [hu, if_false]; rfl
        · have hge : i + 1 ≥ L.length := by omega
          have : L.drop (i + 1) = [] := List.drop_eq_nil_of_le (by omega)
          simp [hge, this]; rfl
      · -- unescaped chunk
        simp only [hb, if_false]
        rw [hd]
        simp only [specDecode, hb, if_false]
        rw [← hd]
        have hce := chunkEnd_eq L (L.length + 1) i (by omega)
        have hj : i < chunkEnd L.toArray (L.toArray.size + 1) i := by
          simp only [List.size_toArray]; rw [hce, hd]; rw [List.takeWhile_cons]; have hnb : notBs (L.getD i 0#8) = true := by simp only [notBs, bne_iff_ne]; exact hb
          rw [hnb]; simp
        simp only [List.size_toArray] at hj ⊢
        rw [hce] at hj ⊢
        have hsl : slice L.toArray i (i + ((L.drop i).takeWhile notBs).length) =
            (L.drop i).takeWhile notBs := by
          have := slice_of_drop (T := L) (a := i) (xs := (L.drop i).takeWhile notBs)
            (tC := (L.drop i).dropWhile notBs) (by rw [List.takeWhile_append_dropWhile])
          exact this
        rw [hsl]
        by_cases hwf : Utf8.wellFormed ((L.drop i).takeWhile notBs) = true
        · simp only [hwf, if_true]
          rw [ih (n - 1) (by omega) _ _ F G (by omega) (by omega) (by omega), map_map_ex]
          rw [← List.drop_drop, drop_takeWhile_length]
          congr 1; funext t; simp
        · simp only [hwf, if_false]; rfl
    · have : L.drop i = [] := List.drop_eq_nil_of_le (by omega)
      rw [decodeLoop, this]
      simp [specDecode, hi, Except.map]

/-- `decode_escapes` is the specification decoder, on every byte string (errors included). -/
theorem decodeEscapes_eq (bs : List Byte) : decodeEscapes bs = specDecodeAll bs := by
  rw [decodeEscapes, decodeLoop_eq bs bs.length 0 [] (bs.length + 1) (bs.length + 1) (by omega) (by omega)
    (by omega), specDecodeAll]
  simp only [List.drop_zero, List.nil_append]
  cases specDecode (bs.length + 1) bs <;> rfl

end SV.JsonNav
