/-
Proof/Binary — helper lemmas for C31: byte/word packing (bv_decide), vector round trips
(induction), model layout = arithmetic spec.
-/
import SuccinctlyVerif.Model.Binary
import Std.Tactic.BVDecide
namespace SV.BinaryP
open SV.Binary SV.BinaryM

/-! ### one word -/

theorem bytesToWord_wordToBytes (w : BitVec 64) :
    bytesToWord (w.setWidth 8) ((w >>> 8).setWidth 8) ((w >>> 16).setWidth 8) ((w >>> 24).setWidth 8)
      ((w >>> 32).setWidth 8) ((w >>> 40).setWidth 8) ((w >>> 48).setWidth 8) ((w >>> 56).setWidth 8) = w := by
  unfold bytesToWord; bv_decide

theorem wordToBytes_bytesToWord (b0 b1 b2 b3 b4 b5 b6 b7 : Byte) :
    wordToBytes (bytesToWord b0 b1 b2 b3 b4 b5 b6 b7) = [b0, b1, b2, b3, b4, b5, b6, b7] := by
  unfold wordToBytes bytesToWord
  have h0 : (b0.setWidth 64 ||| b1.setWidth 64 <<< 8 ||| b2.setWidth 64 <<< 16 ||| b3.setWidth 64 <<< 24 |||
      b4.setWidth 64 <<< 32 ||| b5.setWidth 64 <<< 40 ||| b6.setWidth 64 <<< 48 ||| b7.setWidth 64 <<< 56).setWidth 8 = b0 := by bv_decide
  have h1 : ((b0.setWidth 64 ||| b1.setWidth 64 <<< 8 ||| b2.setWidth 64 <<< 16 ||| b3.setWidth 64 <<< 24 |||
      b4.setWidth 64 <<< 32 ||| b5.setWidth 64 <<< 40 ||| b6.setWidth 64 <<< 48 ||| b7.setWidth 64 <<< 56) >>> 8).setWidth 8 = b1 := by bv_decide
  have h2 : ((b0.setWidth 64 ||| b1.setWidth 64 <<< 8 ||| b2.setWidth 64 <<< 16 ||| b3.setWidth 64 <<< 24 |||
      b4.setWidth 64 <<< 32 ||| b5.setWidth 64 <<< 40 ||| b6.setWidth 64 <<< 48 ||| b7.setWidth 64 <<< 56) >>> 16).setWidth 8 = b2 := by bv_decide
  have h3 : ((b0.setWidth 64 ||| b1.setWidth 64 <<< 8 ||| b2.setWidth 64 <<< 16 ||| b3.setWidth 64 <<< 24 |||
      b4.setWidth 64 <<< 32 ||| b5.setWidth 64 <<< 40 ||| b6.setWidth 64 <<< 48 ||| b7.setWidth 64 <<< 56) >>> 24).setWidth 8 = b3 := by bv_decide
  have h4 : ((b0.setWidth 64 ||| b1.setWidth 64 <<< 8 ||| b2.setWidth 64 <<< 16 ||| b3.setWidth 64 <<< 24 |||
      b4.setWidth 64 <<< 32 ||| b5.setWidth 64 <<< 40 ||| b6.setWidth 64 <<< 48 ||| b7.setWidth 64 <<< 56) >>> 32).setWidth 8 = b4 := by bv_decide
  have h5 : ((b0.setWidth 64 ||| b1.setWidth 64 <<< 8 ||| b2.setWidth 64 <<< 16 ||| b3.setWidth 64 <<< 24 |||
      b4.setWidth 64 <<< 32 ||| b5.setWidth 64 <<< 40 ||| b6.setWidth 64 <<< 48 ||| b7.setWidth 64 <<< 56) >>> 40).setWidth 8 = b5 := by bv_decide
  have h6 : ((b0.setWidth 64 ||| b1.setWidth 64 <<< 8 ||| b2.setWidth 64 <<< 16 ||| b3.setWidth 64 <<< 24 |||
      b4.setWidth 64 <<< 32 ||| b5.setWidth 64 <<< 40 ||| b6.setWidth 64 <<< 48 ||| b7.setWidth 64 <<< 56) >>> 48).setWidth 8 = b6 := by bv_decide
  have h7 : ((b0.setWidth 64 ||| b1.setWidth 64 <<< 8 ||| b2.setWidth 64 <<< 16 ||| b3.setWidth 64 <<< 24 |||
      b4.setWidth 64 <<< 32 ||| b5.setWidth 64 <<< 40 ||| b6.setWidth 64 <<< 48 ||| b7.setWidth 64 <<< 56) >>> 56).setWidth 8 = b7 := by bv_decide
  rw [h0, h1, h2, h3, h4, h5, h6, h7]

/-- OR of the shifted bytes = Horner sum `Σ bᵢ·256^i` (mod 2^64). -/
theorem bytesToWord_eq_leWord (b0 b1 b2 b3 b4 b5 b6 b7 : Byte) :
    bytesToWord b0 b1 b2 b3 b4 b5 b6 b7 = leWord [b0, b1, b2, b3, b4, b5, b6, b7] := by
  simp only [leWord, List.foldr, bytesToWord]
  bv_decide

/-- Shift-and-truncate byte extraction = `⌊w / 256^j⌋ mod 256`. -/
theorem wordToBytes_eq_leBytes (w : Word) : wordToBytes w = leBytes w := by
  have hr : List.range 8 = [0, 1, 2, 3, 4, 5, 6, 7] := by decide
  simp only [leBytes, hr, List.map, wordToBytes, byteOf]
  have key : ∀ j : Nat, (w >>> (8 * j)).setWidth 8 = BitVec.ofNat 8 (w.toNat / 256 ^ j % 256) := by
    intro j
    apply BitVec.eq_of_toNat_eq
    simp only [BitVec.toNat_setWidth, BitVec.toNat_ushiftRight, BitVec.toNat_ofNat,
      Nat.shiftRight_eq_div_pow]
    have : (2 : Nat) ^ (8 * j) = 256 ^ j := by rw [Nat.pow_mul]
    rw [this]
    omega
  have k0 := key 0; have k1 := key 1; have k2 := key 2; have k3 := key 3
  have k4 := key 4; have k5 := key 5; have k6 := key 6; have k7 := key 7
  simp only [Nat.mul_zero, BitVec.ushiftRight_zero] at k0
  simp only [Nat.reduceMul] at k1 k2 k3 k4 k5 k6 k7
  rw [k0, k1, k2, k3, k4, k5, k6, k7]

/-! ### vectors -/

theorem wordsToBytes_length (ws : List Word) : (wordsToBytes ws).length = 8 * ws.length := by
  induction ws with
  | nil => rfl
  | cons w ws ih =>
    have h8 : (wordToBytes w).length = 8 := rfl
    simp only [wordsToBytes, List.flatMap_cons, List.length_append, List.length_cons] at ih ⊢
    rw [h8, ih]; omega

theorem reinterpret_wordsToBytes (ws : List Word) : reinterpret (wordsToBytes ws) = ws := by
  induction ws with
  | nil => rfl
  | cons w ws ih =>
    simp only [wordsToBytes, List.flatMap_cons] at *
    simp only [wordToBytes, List.cons_append, List.nil_append, reinterpret, ih,
      bytesToWord_wordToBytes]

theorem wordsToBytes_reinterpret : ∀ (n : Nat) (bs : List Byte), bs.length = 8 * n →
    wordsToBytes (reinterpret bs) = bs := by
  intro n
  induction n with
  | zero =>
    intro bs h
    have : bs = [] := List.eq_nil_of_length_eq_zero (by omega)
    subst this; rfl
  | succ n ih =>
    intro bs h
    match bs, h with
    | b0 :: b1 :: b2 :: b3 :: b4 :: b5 :: b6 :: b7 :: rest, h =>
      have hr : rest.length = 8 * n := by simp only [List.length_cons] at h; omega
      simp only [reinterpret, wordsToBytes, List.flatMap_cons]
      have := ih rest hr
      simp only [wordsToBytes] at this
      rw [this, wordToBytes_bytesToWord]; rfl
    | [], h => (simp only [List.length_nil] at h; omega)
    | [_], h => (simp only [List.length_nil, List.length_cons] at h; omega)
    | [_, _], h => (simp only [List.length_nil, List.length_cons] at h; omega)
    | [_, _, _], h => (simp only [List.length_nil, List.length_cons] at h; omega)
    | [_, _, _, _], h => (simp only [List.length_nil, List.length_cons] at h; omega)
    | [_, _, _, _, _], h => (simp only [List.length_nil, List.length_cons] at h; omega)
    | [_, _, _, _, _, _], h => (simp only [List.length_nil, List.length_cons] at h; omega)
    | [_, _, _, _, _, _, _], h => (simp only [List.length_nil, List.length_cons] at h; omega)

theorem wordsToBytes_eq_wordsBytes (ws : List Word) : wordsToBytes ws = wordsBytes ws := by
  simp only [wordsToBytes, wordsBytes]
  congr 1; funext w; exact wordToBytes_eq_leBytes w

theorem reinterpret_eq_groups : ∀ (n : Nat) (bs : List Byte), bs.length = 8 * n →
    reinterpret bs = groups n bs := by
  intro n
  induction n with
  | zero =>
    intro bs h
    have : bs = [] := List.eq_nil_of_length_eq_zero (by omega)
    subst this; rfl
  | succ n ih =>
    intro bs h
    match bs, h with
    | b0 :: b1 :: b2 :: b3 :: b4 :: b5 :: b6 :: b7 :: rest, h =>
      have hr : rest.length = 8 * n := by simp only [List.length_cons] at h; omega
      have hl : ¬ ((b0 :: b1 :: b2 :: b3 :: b4 :: b5 :: b6 :: b7 :: rest).length < 8) := by
        simp only [List.length_cons]; omega
      simp only [reinterpret, groups, hl, if_false, List.take, List.drop, ih rest hr,
        bytesToWord_eq_leWord]
    | [], h => (simp only [List.length_nil] at h; omega)
    | [_], h => (simp only [List.length_nil, List.length_cons] at h; omega)
    | [_, _], h => (simp only [List.length_nil, List.length_cons] at h; omega)
    | [_, _, _], h => (simp only [List.length_nil, List.length_cons] at h; omega)
    | [_, _, _, _], h => (simp only [List.length_nil, List.length_cons] at h; omega)
    | [_, _, _, _, _], h => (simp only [List.length_nil, List.length_cons] at h; omega)
    | [_, _, _, _, _, _], h => (simp only [List.length_nil, List.length_cons] at h; omega)
    | [_, _, _, _, _, _, _], h => (simp only [List.length_nil, List.length_cons] at h; omega)

end SV.BinaryP
