/-
Proof/JsonBase — consumption relation, whitespace / digit-run / keyword lemmas for the validator model.
-/
import SuccinctlyVerif.Model.JsonValidate
namespace SV.Json.Model
open SV.Json
set_option linter.unusedSimpArgs false
set_option linter.unusedVariables false

/-! ### list splitting -/

theorem takeWhile_append_of_all {p : Byte → Bool} (a t : Bytes) (ha : ∀ x ∈ a, p x = true)
    (ht : ∀ c, t.head? = some c → p c = false) :
    (a ++ t).takeWhile p = a ∧ (a ++ t).dropWhile p = t := by
  induction a with
  | nil =>
    cases t with
    | nil => simp
    | cons c t => simp [List.takeWhile, List.dropWhile, ht c rfl]
  | cons x a ih =>
    have hx := ha x (by simp)
    have := ih (fun y hy => ha y (by simp [hy]))
    simp [List.takeWhile, List.dropWhile, hx, this]

theorem takeWhile_all {p : Byte → Bool} (l : Bytes) : ∀ x ∈ l.takeWhile p, p x = true := by
  intro x hx
  induction l with
  | nil => simp at hx
  | cons y l ih =>
    by_cases hy : p y = true
    · simp [List.takeWhile, hy] at hx
      rcases hx with rfl | hx
      · exact hy
      · exact ih hx
    · simp [List.takeWhile, hy] at hx

theorem dropWhile_head {p : Byte → Bool} (l : Bytes) : ∀ c, (l.dropWhile p).head? = some c → p c = false := by
  intro c hc
  induction l with
  | nil => simp at hc
  | cons x l ih =>
    by_cases hx : p x = true
    · simp [List.dropWhile, hx] at hc; exact ih hc
    · simp [List.dropWhile, hx] at hc; subst hc; simpa using hx

/-! ### whitespace -/

theorem skipWsL_rest (r : Bytes) (cr : Bool) (o l c : Nat) :
    (skipWsL r cr o l c).1 = r.dropWhile isWs ∧
    (skipWsL r cr o l c).2.1 = o + (r.takeWhile isWs).length := by
  induction r generalizing cr o l c with
  | nil => simp [skipWsL]
  | cons b r ih =>
    unfold skipWsL
    split
    · rename_i h; have hb : isWs b = true := by simp [isWs, h.2]
      simp [List.dropWhile, List.takeWhile, hb, ih]; omega
    · split
      · rename_i h; have hb : isWs b = true := by rcases h with h | h <;> simp [isWs, h]
        simp [List.dropWhile, List.takeWhile, hb, ih]; omega
      · split
        · rename_i h; have hb : isWs b = true := by simp [isWs, h]
          simp [List.dropWhile, List.takeWhile, hb, ih]; omega
        · split
          · rename_i h; have hb : isWs b = true := by simp [isWs, h]
            simp [List.dropWhile, List.takeWhile, hb, ih]; omega
          · rename_i h1 h2 h3 h4
            have hb : isWs b = false := by
              simp [isWs]; simp at h2; exact ⟨⟨⟨h2.1, h2.2⟩, h3⟩, h4⟩
            simp [List.dropWhile, List.takeWhile, hb]

theorem skipWs_rest (s : St) : s.skipWs.rest = s.rest.dropWhile isWs := by
  simp [St.skipWs]; exact (skipWsL_rest _ _ _ _ _).1
theorem skipWs_offset (s : St) : s.skipWs.offset = s.offset + (s.rest.takeWhile isWs).length := by
  simp [St.skipWs]; exact (skipWsL_rest _ _ _ _ _).2
@[simp] theorem skipWs_depth (s : St) : s.skipWs.depth = s.depth := by
  simp [St.skipWs]


/-! ### consumption relation -/

/-- `s` consumed exactly `v` reaching `s'` (nesting depth unchanged). -/
def Adv (s : St) (v : Bytes) (s' : St) : Prop :=
  s.rest = v ++ s'.rest ∧ s'.offset = s.offset + v.length ∧ s'.depth = s.depth

theorem Adv.refl (s : St) : Adv s [] s := by simp [Adv]

theorem Adv.trans {s s1 s2 : St} {v w : Bytes} (h1 : Adv s v s1) (h2 : Adv s1 w s2) :
    Adv s (v ++ w) s2 := by
  obtain ⟨a1, a2, a3⟩ := h1; obtain ⟨b1, b2, b3⟩ := h2
  refine ⟨by rw [a1, b1]; simp, by rw [b2, a2]; simp; omega, by rw [b3, a3]⟩

theorem peek_cons {s : St} {c : Byte} {r : Bytes} (h : s.rest = c :: r) : s.peek = some c := by
  simp [St.peek, h]

theorem peek_eq_some {s : St} {c : Byte} (h : s.peek = some c) : ∃ r, s.rest = c :: r := by
  cases hr : s.rest with
  | nil => simp [St.peek, hr] at h
  | cons x r => simp [St.peek, hr] at h; exact ⟨r, by rw [h]⟩

theorem peek_none {s : St} (h : s.peek = none) : s.rest = [] := by
  cases hr : s.rest with
  | nil => rfl
  | cons x r => simp [St.peek, hr] at h

theorem advance_cons {s : St} {c : Byte} {r : Bytes} (h : s.rest = c :: r) :
    s.advance.rest = r ∧ s.advance.offset = s.offset + 1 ∧ s.advance.depth = s.depth := by
  simp [St.advance, h]

theorem adv_advance {s : St} {c : Byte} {r : Bytes} (h : s.rest = c :: r) : Adv s [c] s.advance := by
  have := advance_cons h
  simp [Adv, h, this]

theorem adv_skipWs (s : St) :
    ∃ w, Ws w ∧ Adv s w s.skipWs ∧ ∀ c, s.skipWs.peek = some c → isWs c = false := by
  refine ⟨s.rest.takeWhile isWs, takeWhile_all _, ⟨?_, ?_, by simp⟩, ?_⟩
  · rw [skipWs_rest]; exact (List.takeWhile_append_dropWhile).symm
  · exact skipWs_offset s
  · intro c hc; rw [St.peek, skipWs_rest] at hc; exact dropWhile_head _ c hc

theorem skipWs_complete (s : St) (w t : Bytes) (hw : Ws w) (ht : ∀ c, t.head? = some c → isWs c = false)
    (h : s.rest = w ++ t) : s.skipWs.rest = t := by
  rw [skipWs_rest, h]; exact (takeWhile_append_of_all w t hw ht).2

theorem adv_skipDigits (s : St) :
    ∃ ds, Digits ds ∧ Adv s ds s.skipDigits.2 ∧ s.skipDigits.1 = ds.length ∧
      ∀ c, s.skipDigits.2.peek = some c → isDigit c = false := by
  refine ⟨s.rest.takeWhile isDigit, takeWhile_all _, ⟨?_, ?_, ?_⟩, ?_, ?_⟩
  · simp [St.skipDigits]
  · simp [St.skipDigits]
  · simp [St.skipDigits]
  · simp [St.skipDigits]
  · intro c hc; simp [St.skipDigits, St.peek] at hc; exact dropWhile_head _ c hc

theorem skipDigits_complete (s : St) (ds t : Bytes) (hd : Digits ds)
    (ht : ∀ c, t.head? = some c → isDigit c = false) (h : s.rest = ds ++ t) :
    s.skipDigits.2.rest = t ∧ s.skipDigits.1 = ds.length ∧ s.skipDigits.2.depth = s.depth := by
  have := takeWhile_append_of_all ds t hd ht
  simp [St.skipDigits, h, this]

/-! ### keywords -/

theorem keyword_sound {s s' : St} {u : Unit} (h : validateKeyword s = .ok u s') :
    ∃ v, (v = kwNull ∨ v = kwTrue ∨ v = kwFalse) ∧ Adv s v s' := by
  unfold validateKeyword at h
  simp only at h
  split at h
  · rename_i hk
    injection h with _ h
    subst h
    refine ⟨s.rest.takeWhile isLower, hk, ?_, ?_, ?_⟩ <;> simp
  · cases h

theorem keyword_complete (s : St) (v t : Bytes) (hv : v = kwNull ∨ v = kwTrue ∨ v = kwFalse)
    (ht : ∀ c, t.head? = some c → isLower c = false) (h : s.rest = v ++ t) :
    ∃ s', validateKeyword s = .ok () s' ∧ s'.rest = t ∧ s'.depth = s.depth := by
  have hall : ∀ x ∈ v, isLower x = true := by
    rcases hv with rfl | rfl | rfl <;> decide
  have := takeWhile_append_of_all v t hall ht
  unfold validateKeyword
  simp only [h, this]
  rw [if_pos hv]
  exact ⟨_, rfl, rfl, rfl⟩

end SV.Json.Model
