/-
Proof/JsonNavRange — C06: `text_range` of every node of a document is its token or bracketed span.
-/
import SuccinctlyVerif.Proof.JsonNavTree
namespace SV.JsonNav
open SV SV.JsonSemi SV.JsonText SV.JsonSimple

/-! ### `text_range`: the container arm as a structural scan -/

/-- The container arm of `text_range` as a scan of the bytes after the open bracket: `d` = nesting
depth in brackets of the container's own kind (`o`/`c`), `inStr`/`skip` = inside a string / after a
backslash.  Returns the offset just after the bracket that closes depth 1. -/
def cscanSpec (o c : Byte) : List Byte → Nat → Nat → Bool → Bool → Option Nat
  | [], _, _, _, _ => none
  | _ :: xs, base, d, true, true => cscanSpec o c xs (base + 1) d true false
  | x :: xs, base, d, true, false =>
    if x = 0x22#8 then cscanSpec o c xs (base + 1) d false false
    else if x = 0x5C#8 then cscanSpec o c xs (base + 1) d true true
    else cscanSpec o c xs (base + 1) d true false
  | x :: xs, base, d, false, _ =>
    if x = 0x22#8 then cscanSpec o c xs (base + 1) d true false
    else if x = o then cscanSpec o c xs (base + 1) (d + 1) false false
    else if x = c then (if d - 1 = 0 then some (base + 1) else cscanSpec o c xs (base + 1) (d - 1) false false)
    else cscanSpec o c xs (base + 1) d false false

theorem drop_cons_of_lt (x : Index) (i : Nat) (hi : i < x.len) :
    x.text.toList.drop i = x.byteAt i :: x.text.toList.drop (i + 1) := byteAt_drop x i hi

theorem drop_nil_of_ge (x : Index) (i : Nat) (hi : ¬ i < x.len) : x.text.toList.drop i = [] :=
  List.drop_eq_nil_of_le (by simp [Index.len] at hi ⊢; omega)

/-- Skipping a string inside a container, against the structural scan. -/
theorem skipString_spec (x : Index) (o c : Byte) (d : Nat) : ∀ (n i G : Nat), x.len - i ≤ n → n < G →
    cscanSpec o c (x.text.toList.drop i) i d true false =
      cscanSpec o c (x.text.toList.drop (skipString x G i)) (skipString x G i) d false false ∧
    i ≤ skipString x G i ∧ (i < x.len → i < skipString x G i) := by
  intro n
  induction n using Nat.strongRecOn with
  | ind n ih =>
    intro i G hn hG
    obtain ⟨G, rfl⟩ : ∃ G', G = G' + 1 := ⟨G - 1, by omega⟩
    rw [skipString]
    by_cases hi : i < x.len
    · rw [drop_cons_of_lt x i hi]
      simp only [hi, if_true]
      by_cases hq : x.byteAt i = 0x22#8
      · simp only [hq, if_true, cscanSpec]
        exact ⟨trivial, by omega, fun _ => by omega⟩
      · by_cases hb : x.byteAt i = 0x5C#8
        · have hne : ¬ ((0x5C#8 : BitVec 8) = 0x22#8) := by decide
          simp only [hb, hne, if_false, if_true, cscanSpec]
          by_cases hi1 : i + 1 < x.len
          · rw [drop_cons_of_lt x (i + 1) hi1]
            simp only [cscanSpec]
            obtain ⟨h1, h2, h3⟩ := ih (n - 1) (by omega) (i + 2) G (by omega) (by omega)
            exact ⟨h1, by omega, fun _ => by omega⟩
          · rw [drop_nil_of_ge x (i + 1) hi1]
            have hge : ¬ (i + 2 < x.len) := by omega
            cases G with
            | zero => simp [skipString, cscanSpec, drop_nil_of_ge x (i + 2) hge]
            | succ G => simp [skipString, hge, cscanSpec, drop_nil_of_ge x (i + 2) hge]
        · simp only [hq, hb, if_false, cscanSpec]
          obtain ⟨h1, h2, h3⟩ := ih (n - 1) (by omega) (i + 1) G (by omega) (by omega)
          exact ⟨h1, by omega, fun _ => by omega⟩
    · rw [if_neg hi]
      exact ⟨by rw [drop_nil_of_ge x i hi]; simp [cscanSpec], by omega, fun h => absurd h hi⟩

theorem containerScan_eq (x : Index) (o c : Byte) : ∀ (n i d F : Nat), x.len - i ≤ n → n < F →
    containerScan x o c F i d = cscanSpec o c (x.text.toList.drop i) i d false false := by
  intro n
  induction n using Nat.strongRecOn with
  | ind n ih =>
    intro i d F hn hF
    obtain ⟨F, rfl⟩ : ∃ F', F = F' + 1 := ⟨F - 1, by omega⟩
    rw [containerScan]
    by_cases hi : i < x.len
    · rw [drop_cons_of_lt x i hi]
      simp only [hi, if_true]
      by_cases hq : x.byteAt i = 0x22#8
      · simp only [hq, if_true, cscanSpec]
        obtain ⟨h1, h2, h3⟩ := skipString_spec x o c d (x.len - (i + 1)) (i + 1) (x.len + 1) (Nat.le_refl _) (by omega)
        rw [h1]
        exact ih (n - 1) (by omega) (skipString x (x.len + 1) (i + 1)) d F (by omega) (by omega)
      · by_cases ho : x.byteAt i = o
        · have hoq : ¬ (o = 0x22#8) := fun h => hq (ho.trans h)
          simp only [ho, hoq, if_false, cscanSpec, if_true]
          exact ih (n - 1) (by omega) (i + 1) (d + 1) F (by omega) (by omega)
        · by_cases hc : x.byteAt i = c
          · simp only [hq, ho, if_false, hc, if_true, cscanSpec]
            have hco : ¬ (c = o) := by intro h; exact ho (hc.trans h)
            have hcq : ¬ (c = 0x22#8) := by intro h; exact hq (hc.trans h)
            simp only [hcq, hco, if_false, if_true]
            by_cases hd : d - 1 = 0
            · simp [hd]
            · simp only [hd, if_false]
              exact ih (n - 1) (by omega) (i + 1) (d - 1) F (by omega) (by omega)
          · simp only [hq, ho, hc, if_false, cscanSpec]
            exact ih (n - 1) (by omega) (i + 1) d F (by omega) (by omega)
    · simp only [hi, if_false, drop_nil_of_ge x i hi, cscanSpec]

/-- `bs` is passed over by the container scan at any depth ≥ 1, outside strings. -/
def CPass (o c : Byte) (bs : List Byte) : Prop :=
  ∀ (R : List Byte) (base d : Nat), 1 ≤ d →
    cscanSpec o c (bs ++ R) base d false false = cscanSpec o c R (base + bs.length) d false false

theorem CPass.nil (o c : Byte) : CPass o c [] := by intro R base d _; simp

theorem CPass.append {o c : Byte} {xs ys : List Byte} (hx : CPass o c xs) (hy : CPass o c ys) :
    CPass o c (xs ++ ys) := by
  intro R base d hd
  rw [List.append_assoc, hx _ _ _ hd, hy _ _ _ hd, List.length_append, Nat.add_assoc]

theorem cpass_plain (o c : Byte) (bs : List Byte) (h : ∀ b ∈ bs, b ≠ 0x22#8 ∧ b ≠ o ∧ b ≠ c) : CPass o c bs := by
  induction bs with
  | nil => exact CPass.nil o c
  | cons b bs ih =>
    intro R base d hd
    obtain ⟨h1, h2, h3⟩ := h b (by simp)
    simp only [List.cons_append, cscanSpec, h1, h2, h3, if_false]
    rw [ih (fun x hx => h x (by simp [hx])) R (base + 1) d hd]
    simp only [List.length_cons]; congr 1; omega

/-- inside a string: a body is passed over, staying inside the string -/
theorem cs_schar (o c : Byte) (ch : SChar) (R : List Byte) (base d : Nat) :
    cscanSpec o c (ch.bytes ++ R) base d true false = cscanSpec o c R (base + ch.bytes.length) d true false := by
  cases ch with
  | plain b =>
    obtain ⟨b, h1, h2, _⟩ := b
    simp [SChar.bytes, cscanSpec, h1, h2]
  | esc e =>
    have hne : ¬ ((0x5C#8 : BitVec 8) = 0x22#8) := by decide
    simp [SChar.bytes, cscanSpec, hne]
  | uni h1 h2 h3 h4 =>
    have hne : ¬ ((0x5C#8 : BitVec 8) = 0x22#8) := by decide
    have q1 := hex_not_special h1; have q2 := hex_not_special h2
    have q3 := hex_not_special h3; have q4 := hex_not_special h4
    simp [SChar.bytes, cscanSpec, hne, q1.1, q1.2, q2.1, q2.2, q3.1, q3.2, q4.1, q4.2]

theorem cs_body (o c : Byte) (body : List SChar) (R : List Byte) (base d : Nat) :
    cscanSpec o c (body.flatMap SChar.bytes ++ R) base d true false =
      cscanSpec o c R (base + (body.flatMap SChar.bytes).length) d true false := by
  induction body generalizing base with
  | nil => simp
  | cons ch cs ih =>
    simp only [List.flatMap_cons, List.append_assoc, List.length_append]
    rw [cs_schar, ih]; congr 1; omega

theorem cpass_str (o c : Byte) (body : List SChar) : CPass o c (Tok.str body).bytes := by
  intro R base d _
  simp only [Tok.bytes, List.cons_append, List.append_assoc, cscanSpec, if_true]
  rw [cs_body]
  simp only [List.cons_append, List.nil_append, cscanSpec, if_true, List.length_cons, List.length_append,
    List.length_nil]
  congr 1; omega

/-- The two bracket pairs. -/
def IsPair (o c : Byte) : Prop := (o = 0x5B#8 ∧ c = 0x5D#8) ∨ (o = 0x7B#8 ∧ c = 0x7D#8)

theorem number_byte_plain : ∀ b : BitVec 8, isNumberByte b = true →
    b ≠ 0x22#8 ∧ b ≠ 0x5B#8 ∧ b ≠ 0x5D#8 ∧ b ≠ 0x7B#8 ∧ b ≠ 0x7D#8 := by decide

theorem lit_bytes_plain (l : Lit) : ∀ b ∈ l.bytes,
    b ≠ 0x22#8 ∧ b ≠ 0x5B#8 ∧ b ≠ 0x5D#8 ∧ b ≠ 0x7B#8 ∧ b ≠ 0x7D#8 := by
  cases l <;> decide

theorem cpass_atom {o c : Byte} (hp : IsPair o c) (t : Tok)
    (ht : match t with | .ws _ | .comma | .colon | .num _ | .lit _ => True | _ => False) :
    CPass o c t.bytes := by
  apply cpass_plain
  intro b hb
  have key : b ≠ 0x22#8 ∧ b ≠ 0x5B#8 ∧ b ≠ 0x5D#8 ∧ b ≠ 0x7B#8 ∧ b ≠ 0x7D#8 := by
    cases t with
    | ws w => cases w <;> simp [Tok.bytes, WsChar.byte] at hb <;> subst hb <;> decide
    | comma => simp [Tok.bytes] at hb; subst hb; decide
    | colon => simp [Tok.bytes] at hb; subst hb; decide
    | num n => exact number_byte_plain b (num_bytes_number n b hb)
    | lit l => exact lit_bytes_plain l b hb
    | lbrace => exact absurd ht (by simp)
    | rbrace => exact absurd ht (by simp)
    | lbracket => exact absurd ht (by simp)
    | rbracket => exact absurd ht (by simp)
    | str _ => exact absurd ht (by simp)
  rcases hp with ⟨rfl, rfl⟩ | ⟨rfl, rfl⟩
  · exact ⟨key.1, key.2.1, key.2.2.1⟩
  · exact ⟨key.1, key.2.2.2.1, key.2.2.2.2⟩

theorem cpass_ws {o c : Byte} (hp : IsPair o c) (w : Ws) : CPass o c (toksBytes (wsToks w)) := by
  induction w with
  | nil => exact CPass.nil o c
  | cons ch cs ih =>
    simp only [wsToks, List.map_cons] at ih ⊢
    rw [toksBytes_cons]
    exact CPass.append (cpass_atom hp (.ws ch) trivial) ih

theorem cpass_wrap_same (o c : Byte) (hq : o ≠ 0x22#8 ∧ c ≠ 0x22#8 ∧ c ≠ o) (inner : List Byte)
    (hin : CPass o c inner) : CPass o c (o :: (inner ++ [c])) := by
  intro R base d hd
  simp only [List.cons_append, List.append_assoc, cscanSpec, hq.1, if_false, if_true]
  rw [hin _ _ _ (by omega)]
  simp only [List.cons_append, List.nil_append, cscanSpec, hq.2.1, hq.2.2, if_false, if_true]
  have h1 : ¬ (d + 1 - 1 = 0) := by omega
  simp only [h1, if_false, List.length_cons, List.length_append, List.length_nil]
  have e1 : d + 1 - 1 = d := by omega
  have e2 : base + 1 + inner.length + 1 = base + (inner.length + (0 + 1) + 1) := by omega
  rw [e1, e2]

theorem cpass_wrap_other (o c ob cb : Byte) (h1 : ob ≠ 0x22#8 ∧ ob ≠ o ∧ ob ≠ c)
    (h2 : cb ≠ 0x22#8 ∧ cb ≠ o ∧ cb ≠ c) (inner : List Byte) (hin : CPass o c inner) :
    CPass o c (ob :: (inner ++ [cb])) := by
  have := CPass.append (CPass.append (cpass_plain o c [ob] (by intro b hb; simp at hb; subst hb; exact h1)) hin)
    (cpass_plain o c [cb] (by intro b hb; simp at hb; subst hb; exact h2))
  simpa using this

/-- a bracketed group of either kind is passed over by the scan for either kind -/
theorem cpass_group {o c : Byte} (hp : IsPair o c) (ob cb : Byte) (hg : IsPair ob cb) (inner : List Byte)
    (hin : CPass o c inner) : CPass o c (ob :: (inner ++ [cb])) := by
  rcases hp with ⟨rfl, rfl⟩ | ⟨rfl, rfl⟩ <;> rcases hg with ⟨rfl, rfl⟩ | ⟨rfl, rfl⟩
  · exact cpass_wrap_same _ _ (by decide) inner hin
  · exact cpass_wrap_other _ _ _ _ (by decide) (by decide) inner hin
  · exact cpass_wrap_other _ _ _ _ (by decide) (by decide) inner hin
  · exact cpass_wrap_same _ _ (by decide) inner hin

mutual
  theorem cpass_val {o c : Byte} (hp : IsPair o c) : ∀ v : JVal, CPass o c (toksBytes v.toks)
    | .lit l => by simpa [JVal.toks, toksBytes] using cpass_atom hp (.lit l) trivial
    | .num n => by simpa [JVal.toks, toksBytes] using cpass_atom hp (.num n) trivial
    | .str b => by simpa [JVal.toks, toksBytes] using cpass_str o c b
    | .arr0 ws => by
      have := cpass_group hp 0x5B#8 0x5D#8 (Or.inl ⟨rfl, rfl⟩) _ (cpass_ws hp ws)
      simpa [JVal.toks, toksBytes_cons, toksBytes_append, Tok.bytes, toksBytes] using this
    | .obj0 ws => by
      have := cpass_group hp 0x7B#8 0x7D#8 (Or.inr ⟨rfl, rfl⟩) _ (cpass_ws hp ws)
      simpa [JVal.toks, toksBytes_cons, toksBytes_append, Tok.bytes, toksBytes] using this
    | .arr ws0 v ws1 rest => by
      have hin := CPass.append (CPass.append (CPass.append (cpass_ws hp ws0) (cpass_val hp v)) (cpass_ws hp ws1))
        (cpass_items hp rest)
      have := cpass_group hp 0x5B#8 0x5D#8 (Or.inl ⟨rfl, rfl⟩) _ hin
      simpa [JVal.toks, toksBytes_cons, toksBytes_append, Tok.bytes, toksBytes] using this
    | .obj ws0 k ws1 ws2 v ws3 rest => by
      have hin := CPass.append (CPass.append (CPass.append (CPass.append (CPass.append (CPass.append (CPass.append
        (cpass_ws hp ws0) (cpass_str o c k)) (cpass_ws hp ws1)) (cpass_atom hp .colon trivial)) (cpass_ws hp ws2))
        (cpass_val hp v)) (cpass_ws hp ws3)) (cpass_members hp rest)
      have := cpass_group hp 0x7B#8 0x7D#8 (Or.inr ⟨rfl, rfl⟩) _ hin
      simpa [JVal.toks, toksBytes_cons, toksBytes_append, Tok.bytes, toksBytes] using this
  theorem cpass_items {o c : Byte} (hp : IsPair o c) : ∀ r : JItems, CPass o c (toksBytes r.toks)
    | .nil => CPass.nil o c
    | .cons ws0 v ws1 rest => by
      have := CPass.append (CPass.append (CPass.append (CPass.append (cpass_atom hp .comma trivial) (cpass_ws hp ws0))
        (cpass_val hp v)) (cpass_ws hp ws1)) (cpass_items hp rest)
      simpa [JItems.toks, toksBytes_cons, toksBytes_append, Tok.bytes, toksBytes] using this
  theorem cpass_members {o c : Byte} (hp : IsPair o c) : ∀ r : JMembers, CPass o c (toksBytes r.toks)
    | .nil => CPass.nil o c
    | .cons ws0 k ws1 ws2 v ws3 rest => by
      have := CPass.append (CPass.append (CPass.append (CPass.append (CPass.append (CPass.append (CPass.append
        (CPass.append (cpass_atom hp .comma trivial) (cpass_ws hp ws0)) (cpass_str o c k)) (cpass_ws hp ws1))
        (cpass_atom hp .colon trivial)) (cpass_ws hp ws2)) (cpass_val hp v)) (cpass_ws hp ws3)) (cpass_members hp rest)
      simpa [JMembers.toks, toksBytes_cons, toksBytes_append, Tok.bytes, toksBytes] using this
end

theorem nestedNumberSpan_at {T : List Byte} {IB BP : List Bool} (n : NumLit) (follow : List Tok) {b a : Nat}
    (h : LocT T IB BP ((JVal.num n).toks ++ follow) b a) (hs : SafeNext follow)
    (ha : Anch T ((JVal.num n).toks ++ follow) follow a) :
    nestedNumberSpan (mkIndex T IB BP) a = a + n.bytes.length := by
  obtain ⟨tC, hd⟩ := drop_at h
  have hd' : T.drop a = n.bytes ++ (toksBytes follow ++ tC) := by
    rw [hd]; simp [JVal.toks, toksBytes, Tok.bytes]
  have hnext : ∀ c, (toksBytes follow ++ tC).head? = some c → isNumberByte c = false := by
    intro c hc
    cases hf : toksBytes follow with
    | cons f fs => rw [hf] at hc; exact hs c (by rw [hf]; simpa using hc)
    | nil =>
      rcases ha with ha | ha
      · exact absurd hf ha
      · have hl := congrArg List.length hd
        simp [List.length_drop, toksBytes_append, hf] at hl ha
        have : tC = [] := List.eq_nil_of_length_eq_zero (by omega)
        rw [hf, this] at hc; simp at hc
  rw [nestedNumberSpan_eq, mkIndex_toList, hd', takeWhile_span _ _ (num_bytes_number n) hnext]

theorem container_bytes (v : JVal) (hc : v.isContainer = true) :
    ∃ ob cb inner, IsPair ob cb ∧ toksBytes v.toks = ob :: (inner ++ [cb]) ∧ CPass ob cb inner := by
  cases v with
  | lit l => simp [JVal.isContainer] at hc
  | num n => simp [JVal.isContainer] at hc
  | str b => simp [JVal.isContainer] at hc
  | arr0 ws =>
    have hp : IsPair 0x5B#8 0x5D#8 := Or.inl ⟨rfl, rfl⟩
    exact ⟨_, _, toksBytes (wsToks ws), hp,
      by simp [JVal.toks, toksBytes_cons, toksBytes_append, Tok.bytes, toksBytes], cpass_ws hp ws⟩
  | obj0 ws =>
    have hp : IsPair 0x7B#8 0x7D#8 := Or.inr ⟨rfl, rfl⟩
    exact ⟨_, _, toksBytes (wsToks ws), hp,
      by simp [JVal.toks, toksBytes_cons, toksBytes_append, Tok.bytes, toksBytes], cpass_ws hp ws⟩
  | arr ws0 v ws1 rest =>
    have hp : IsPair 0x5B#8 0x5D#8 := Or.inl ⟨rfl, rfl⟩
    refine ⟨_, _, toksBytes (wsToks ws0) ++ toksBytes v.toks ++ toksBytes (wsToks ws1) ++ toksBytes rest.toks, hp,
      by simp [JVal.toks, toksBytes_cons, toksBytes_append, Tok.bytes, toksBytes], ?_⟩
    exact CPass.append (CPass.append (CPass.append (cpass_ws hp ws0) (cpass_val hp v)) (cpass_ws hp ws1))
      (cpass_items hp rest)
  | obj ws0 k ws1 ws2 v ws3 rest =>
    have hp : IsPair 0x7B#8 0x7D#8 := Or.inr ⟨rfl, rfl⟩
    refine ⟨_, _, toksBytes (wsToks ws0) ++ (Tok.str k).bytes ++ toksBytes (wsToks ws1) ++ Tok.colon.bytes ++
      toksBytes (wsToks ws2) ++ toksBytes v.toks ++ toksBytes (wsToks ws3) ++ toksBytes rest.toks, hp,
      by simp [JVal.toks, toksBytes_cons, toksBytes_append, Tok.bytes, toksBytes], ?_⟩
    exact CPass.append (CPass.append (CPass.append (CPass.append (CPass.append (CPass.append (CPass.append
      (cpass_ws hp ws0) (cpass_str _ _ k)) (cpass_ws hp ws1)) (cpass_atom hp .colon trivial)) (cpass_ws hp ws2))
      (cpass_val hp v)) (cpass_ws hp ws3)) (cpass_members hp rest)

/-- `text_range` at a located value (or key): exactly its token, or its bracketed span. -/
theorem textRange_at {T : List Byte} {IB BP : List Bool} (v : JVal) (follow : List Tok) {b a : Nat}
    (h : LocT T IB BP (v.toks ++ follow) b a) (hs : SafeNext follow)
    (ha : Anch T (v.toks ++ follow) follow a) :
    textRange (mkIndex T IB BP) b = some (a, a + (toksBytes v.toks).length) := by
  have htp := textPosition_at h (val_ib_head v follow)
  have hk := value_at v follow h
  obtain ⟨tC, hd⟩ := drop_at h
  rw [toksBytes_append, List.append_assoc] at hd
  have hne : 0 < (toksBytes v.toks).length := by
    obtain ⟨t, ts, ht, _⟩ := val_first_node v
    rw [ht, toksBytes_cons, List.length_append]; have := tok_bytes_pos t; omega
  have hlen := length_of_drop (xs := toksBytes v.toks) (tC := toksBytes follow ++ tC) hd hne
  have hge : ¬ (a ≥ (mkIndex T IB BP).len) := by simp; omega
  have hb0 : ∀ c rest, toksBytes v.toks = c :: rest → (mkIndex T IB BP).byteAt a = c := by
    intro c rest hc
    rw [mkIndex_byteAt]
    have := getD_of_drop (xs := c :: rest) (tC := toksBytes follow ++ tC) (by rw [← hc]; exact hd) 0 (by simp)
    simpa using this
  simp only [textRange, htp, hge, if_false]
  by_cases hc : v.isContainer = true
  · obtain ⟨ob, cb, inner, hp, hbytes, hpass⟩ := container_bytes v hc
    have hbyte := hb0 ob _ hbytes
    have hd1 : T.drop (a + 1) = inner ++ cb :: (toksBytes follow ++ tC) := by
      have : T.drop (a + 1) = (T.drop a).drop 1 := by rw [List.drop_drop]
      rw [this, hd, hbytes]; simp
    have hscan : containerScan (mkIndex T IB BP) ob cb (T.length + 1) (a + 1) 1 =
        some (a + (toksBytes v.toks).length) := by
      rw [containerScan_eq _ ob cb (T.length - (a + 1)) (a + 1) 1 _ (by simp) (by omega),
        mkIndex_toList, hd1, hpass _ _ _ (Nat.le_refl 1)]
      rcases hp with ⟨rfl, rfl⟩ | ⟨rfl, rfl⟩ <;>
        (simp [cscanSpec, hbytes]; omega)
    rcases hp with ⟨rfl, rfl⟩ | ⟨rfl, rfl⟩
    · simp [hbyte, hscan]
    · simp [hbyte, hscan]
  · cases v with
    | arr0 ws => simp [JVal.isContainer] at hc
    | arr ws0 v ws1 rest => simp [JVal.isContainer] at hc
    | obj0 ws => simp [JVal.isContainer] at hc
    | obj ws0 k ws1 ws2 v ws3 rest => simp [JVal.isContainer] at hc
    | lit l =>
      have hbytes : toksBytes (JVal.lit l).toks = l.bytes := by simp [JVal.toks, toksBytes, Tok.bytes]
      rw [hbytes] at hd hb0 ⊢
      cases l with
      | tru =>
        have hbyte := hb0 0x74#8 _ rfl
        have := startsWithAt_of_drop (IB := IB) (BP := BP) (lit := litTrue) hd (by decide)
        simp [hbyte, this, Lit.bytes]
      | fls =>
        have hbyte := hb0 0x66#8 _ rfl
        have := startsWithAt_of_drop (IB := IB) (BP := BP) (lit := litFalse) hd (by decide)
        simp [hbyte, this, Lit.bytes]
      | null =>
        have hbyte := hb0 0x6E#8 _ rfl
        have := startsWithAt_of_drop (IB := IB) (BP := BP) (lit := litNull) hd (by decide)
        simp [hbyte, this, Lit.bytes]
    | num n =>
      have hbytes : toksBytes (JVal.num n).toks = n.bytes := by simp [JVal.toks, toksBytes, Tok.bytes]
      obtain ⟨b0, rest, hb0', hkind⟩ := num_head n
      have hbyte := hb0 b0 rest (by rw [hbytes, hb0'])
      obtain ⟨n1, n2, n3, n4, n5, n6⟩ := number_first_byte b0 hkind
      have hnum : b0 = 0x2D#8 ∨ b0 = 0x2E#8 ∨ isAsciiDigit b0 = true := by
        rcases hkind with h | h
        · exact Or.inl h
        · exact Or.inr (Or.inr (by simp [isAsciiDigit, h.1, h.2]))
      have hspan := nestedNumberSpan_at n follow h hs ha
      simp [hbyte, n1, n2, n3, n4, n5, n6, hnum, hspan, hbytes]
    | str body =>
      have hbytes : toksBytes (JVal.str body).toks = 0x22#8 :: (body.flatMap SChar.bytes ++ [0x22#8]) := by
        simp [JVal.toks, toksBytes, Tok.bytes]
      have hbyte := hb0 0x22#8 _ hbytes
      have hd1 : T.drop (a + 1) = body.flatMap SChar.bytes ++ 0x22#8 :: (toksBytes follow ++ tC) := by
        have : T.drop (a + 1) = (T.drop a).drop 1 := by rw [List.drop_drop]
        rw [this, hd, hbytes]; simp
      have hscan : (stringScan (mkIndex T IB BP) (T.length + 1) (a + 1) false).1 =
          some (a + 1 + (body.flatMap SChar.bytes).length) := by
        rw [stringScan_eq _ _ _ _ (by simp; omega), mkIndex_toList, hd1, strEndSpec_body]
      simp [hbyte, hscan, hbytes]; omega

/-- `text_range` of the root of a document: the whole value, without the surrounding whitespace. -/
theorem textRange_root (f : Bool) (d : Doc) :
    textRange (build f false d.text) 0 =
      some ((toksBytes (wsToks d.ws0)).length,
        (toksBytes (wsToks d.ws0)).length + (toksBytes d.value.toks).length) := by
  rw [build_doc]
  refine textRange_at d.value (wsToks d.ws1) (doc_loc d) ?_ ?_
  · simpa using safe_ws d.ws1 [] safe_nil
  · right
    simp [Doc.text, Doc.toks, toksBytes_append]

/-! ### `text_range` of every node of the walk -/

theorem field_loc {T : List Byte} {IB BP : List Bool} (k : List SChar) (ws1 ws2 : Ws) (v : JVal)
    (G : List Tok) {kp a : Nat}
    (h : LocT T IB BP ((JVal.str k).toks ++ ((wsToks ws1 ++ (Tok.colon :: wsToks ws2)) ++ (v.toks ++ G))) kp a) :
    LocT T IB BP (v.toks ++ G) (kp + 2)
      (a + blen (JVal.str k).toks + blen (wsToks ws1 ++ (Tok.colon :: wsToks ws2))) ∧
    textRange (mkIndex T IB BP) kp = some (a, a + blen (JVal.str k).toks) := by
  have hsafe : SafeNext ((wsToks ws1 ++ (Tok.colon :: wsToks ws2)) ++ (v.toks ++ G)) := by
    rw [List.append_assoc]; exact safe_ws _ _ (safe_colon _)
  have hanch : Anch T ((JVal.str k).toks ++ ((wsToks ws1 ++ (Tok.colon :: wsToks ws2)) ++ (v.toks ++ G)))
      ((wsToks ws1 ++ (Tok.colon :: wsToks ws2)) ++ (v.toks ++ G)) a :=
    anch_inner (bytes_ne_nil_of_mem _ Tok.colon (by simp))
  have h3 := ((h.split).2.split).2
  have e1 : (toksStdBp (JVal.str k).toks).length = 2 := rfl
  have e2 : (toksStdBp (wsToks ws1 ++ (Tok.colon :: wsToks ws2))).length = 0 := by rw [toksStdBp_sep]; rfl
  rw [e1, e2] at h3
  exact ⟨h3, textRange_at (JVal.str k) _ h hsafe hanch⟩

theorem rangesWalk_leaf {T : List Byte} {IB BP : List Bool} (v : JVal) (follow : List Tok) (b a fuel : Nat)
    (h : LocT T IB BP (v.toks ++ follow) b a) (hs : SafeNext follow)
    (ha : Anch T (v.toks ++ follow) follow a) (hleaf : v.isContainer = false) :
    rangesWalk (mkIndex T IB BP) (fuel + 1) b = [some (a, a + blen v.toks)] := by
  rw [rangesWalk, value_at v follow h, textRange_at v follow h hs ha]
  cases v with
  | lit l => cases l <;> simp [kindOf, blen]
  | num n => simp [kindOf, blen]
  | str body => simp [kindOf, blen]
  | arr0 ws => simp [JVal.isContainer] at hleaf
  | arr ws0 v ws1 rest => simp [JVal.isContainer] at hleaf
  | obj0 ws => simp [JVal.isContainer] at hleaf
  | obj ws0 k ws1 ws2 v ws3 rest => simp [JVal.isContainer] at hleaf

mutual
  theorem val_rng (T : List Byte) (IB BP : List Bool) : ∀ (v : JVal) (follow : List Tok) (b a fuel : Nat),
      LocT T IB BP (v.toks ++ follow) b a → SafeNext follow → Anch T (v.toks ++ follow) follow a →
      depth v ≤ fuel → rangesWalk (mkIndex T IB BP) fuel b = (spansOf v a).map some
    | .lit l, follow, b, a, fuel, h, hs, ha, hd => by
      obtain ⟨f, rfl⟩ : ∃ f, fuel = f + 1 := ⟨fuel - 1, by simp [depth] at hd; omega⟩
      rw [rangesWalk_leaf _ follow b a f h hs ha rfl]; rfl
    | .num n, follow, b, a, fuel, h, hs, ha, hd => by
      obtain ⟨f, rfl⟩ : ∃ f, fuel = f + 1 := ⟨fuel - 1, by simp [depth] at hd; omega⟩
      rw [rangesWalk_leaf _ follow b a f h hs ha rfl]; rfl
    | .str s, follow, b, a, fuel, h, hs, ha, hd => by
      obtain ⟨f, rfl⟩ : ∃ f, fuel = f + 1 := ⟨fuel - 1, by simp [depth] at hd; omega⟩
      rw [rangesWalk_leaf _ follow b a f h hs ha rfl]; rfl
    | .arr0 ws, follow, b, a, fuel, h, hs, ha, hd => by
      obtain ⟨f, rfl⟩ : ∃ f, fuel = f + 1 := ⟨fuel - 1, by simp [depth] at hd; omega⟩
      have hfc := firstChild_none h (toksStdBp follow) (by rw [toksStdBp_append, treeBp_eq]; rfl)
      rw [rangesWalk, value_at _ follow h, textRange_at _ follow h hs ha]
      simp [kindOf, children, hfc, siblingsFrom_none, spansOf, blen]
    | .obj0 ws, follow, b, a, fuel, h, hs, ha, hd => by
      obtain ⟨f, rfl⟩ : ∃ f, fuel = f + 1 := ⟨fuel - 1, by simp [depth] at hd; omega⟩
      have hfc := firstChild_none h (toksStdBp follow) (by rw [toksStdBp_append, treeBp_eq]; rfl)
      rw [rangesWalk, value_at _ follow h, textRange_at _ follow h hs ha]
      simp [kindOf, objectFields, hfc, fieldsList_none, spansOf, blen]
    | .arr ws0 v ws1 rest, follow, b, a, fuel, h, hs, ha, hd => by
      obtain ⟨f, rfl⟩ : ∃ f, fuel = f + 1 := ⟨fuel - 1, by simp [depth] at hd; omega⟩
      have hdv : depth v ≤ f := by simp [depth] at hd; omega
      have hdr : itemsDepth rest ≤ f := by simp [depth] at hd; omega
      obtain ⟨tv, htv⟩ := treeBp_head v
      have hfc := firstChild_some h (tv ++ itemsBp rest ++ [false] ++ toksStdBp follow)
        (by rw [toksStdBp_append, treeBp_eq]; simp [treeBp, htv])
      have htoks : (JVal.arr ws0 v ws1 rest).toks ++ follow =
          (Tok.lbracket :: wsToks ws0) ++ (v.toks ++ (wsToks ws1 ++ (rest.toks ++ (Tok.rbracket :: follow)))) := by
        simp [JVal.toks]
      have h' := h
      rw [htoks] at h'
      have h2 := (h'.split).2
      rw [toksStdBp_open_ws _ rfl] at h2
      have hsF : SafeNext (wsToks ws1 ++ (rest.toks ++ (Tok.rbracket :: follow))) :=
        safe_ws _ _ (safe_items rest follow)
      have haF : toksBytes (wsToks ws1 ++ (rest.toks ++ (Tok.rbracket :: follow))) ≠ [] :=
        bytes_ne_nil_of_mem _ Tok.rbracket (by simp)
      have hv := val_rng T IB BP v _ (b + 1) _ f h2 hsF (anch_inner haF) hdv
      obtain ⟨post, _, hns⟩ := nextSibling_loc v _ h2
      have hhead : toksStdBp (wsToks ws1 ++ (rest.toks ++ (Tok.rbracket :: follow))) ++ post =
          itemsBp rest ++ false :: (toksStdBp follow ++ post) := by
        simp [toksStdBp_append, toksStdBp_ws, toksStdBp_cons, itemsBp_eq, tokStdBp]
      rw [hhead, itemsNext] at hns
      have h3 := ((h2.split).2.split).2
      rw [treeBp_eq, toksStdBp_ws] at h3
      have hbp : BP.length < BP.length + (b + 1 + (treeBp v).length + 0) := by omega
      have hitems := items_rng T IB BP rest follow (b + 1 + (treeBp v).length + 0) _ BP.length f
        (by simpa using h3) hdr hbp
      rw [rangesWalk, value_at _ follow h, textRange_at _ follow h hs ha]
      simp only [kindOf, children, hfc, spansOf, List.map_cons, List.map_append]
      have hN : (mkIndex T IB BP).P.bpLen + 1 = BP.length + 1 := rfl
      rw [hN, siblingsFrom, hns]
      simp only [List.flatMap_cons, hv]
      simp only [Nat.add_zero] at hitems
      rw [hitems]
      simp only [blen]
    | .obj ws0 k ws1 ws2 v ws3 rest, follow, b, a, fuel, h, hs, ha, hd => by
      obtain ⟨f, rfl⟩ : ∃ f, fuel = f + 1 := ⟨fuel - 1, by simp [depth] at hd; omega⟩
      have hdv : depth v ≤ f := by simp [depth] at hd; omega
      have hdr : membersDepth rest ≤ f := by simp [depth] at hd; omega
      obtain ⟨f', rfl⟩ : ∃ f', f = f' + 1 := ⟨f - 1, by have := depth_pos v; omega⟩
      have hfc := firstChild_some h (false :: (treeBp v ++ membersBp rest ++ [false] ++ toksStdBp follow))
        (by rw [toksStdBp_append, treeBp_eq]; simp [treeBp])
      have htoks : (JVal.obj ws0 k ws1 ws2 v ws3 rest).toks ++ follow =
          (Tok.lbrace :: wsToks ws0) ++ ((JVal.str k).toks ++ ((wsToks ws1 ++ (Tok.colon :: wsToks ws2)) ++
            (v.toks ++ (wsToks ws3 ++ (rest.toks ++ (Tok.rbrace :: follow)))))) := by
        simp [JVal.toks]
      have h' := h
      rw [htoks] at h'
      have h2 := (h'.split).2
      rw [toksStdBp_open_ws _ rfl] at h2
      obtain ⟨_, _, hnsk, _⟩ := field_step (fuel := f') k ws1 ws2 v _ h2
      obtain ⟨hvloc, hkrng⟩ := field_loc k ws1 ws2 v _ h2
      have hkw : rangesWalk (mkIndex T IB BP) (f' + 1) (b + 1) =
          [some (a + blen (Tok.lbrace :: wsToks ws0), a + blen (Tok.lbrace :: wsToks ws0) + blen (JVal.str k).toks)] := by
        have hkv := value_at (JVal.str k) _ h2
        rw [rangesWalk, hkv, hkrng]; simp [kindOf, blen]
      have hsF : SafeNext (wsToks ws3 ++ (rest.toks ++ (Tok.rbrace :: follow))) :=
        safe_ws _ _ (safe_members rest follow)
      have haF : toksBytes (wsToks ws3 ++ (rest.toks ++ (Tok.rbrace :: follow))) ≠ [] :=
        bytes_ne_nil_of_mem _ Tok.rbrace (by simp)
      have hv := val_rng T IB BP v _ (b + 1 + 2) _ (f' + 1) hvloc hsF (anch_inner haF) hdv
      obtain ⟨post, _, hns⟩ := nextSibling_loc v _ hvloc
      have hhead : toksStdBp (wsToks ws3 ++ (rest.toks ++ (Tok.rbrace :: follow))) ++ post =
          membersBp rest ++ false :: (toksStdBp follow ++ post) := by
        simp [toksStdBp_append, toksStdBp_ws, toksStdBp_cons, membersBp_eq, tokStdBp]
      rw [hhead, membersNext] at hns
      have h3 := ((hvloc.split).2.split).2
      rw [treeBp_eq, toksStdBp_ws] at h3
      have hbp : BP.length < BP.length + (b + 1 + 2 + (treeBp v).length + 0) := by omega
      have hmem := members_rng T IB BP rest follow (b + 1 + 2 + (treeBp v).length + 0) _ BP.length (f' + 1)
        (by simpa using h3) hdr hbp
      rw [rangesWalk, value_at _ follow h, textRange_at _ follow h hs ha]
      simp only [kindOf, objectFields, hfc, spansOf, List.map_cons, List.map_append]
      have hN : (mkIndex T IB BP).P.bpLen + 1 = BP.length + 1 := rfl
      rw [hN, fieldsList]
      simp only [fieldsUncons, hnsk, hns, List.flatMap_cons, hkw, hv]
      simp only [Nat.add_zero] at hmem
      rw [hmem]
      simp only [blen, List.cons_append, List.nil_append]
  theorem items_rng (T : List Byte) (IB BP : List Bool) : ∀ (r : JItems) (follow : List Tok) (q a N fuel : Nat),
      LocT T IB BP (r.toks ++ (Tok.rbracket :: follow)) q a → itemsDepth r ≤ fuel → BP.length < N + q →
      (siblingsFrom (mkIndex T IB BP) N (itemsHead r q)).flatMap (rangesWalk (mkIndex T IB BP) fuel) =
        (itemsSpans r a).map some
    | .nil, follow, q, a, N, fuel, h, hd, hN => by
      simp [itemsHead, siblingsFrom_none, itemsSpans]
    | .cons ws0 v ws1 rest, follow, q, a, N, fuel, h, hd, hN => by
      have hdv : depth v ≤ fuel := by simp [itemsDepth] at hd; omega
      have hdr : itemsDepth rest ≤ fuel := by simp [itemsDepth] at hd; omega
      have htoks : (JItems.cons ws0 v ws1 rest).toks ++ (Tok.rbracket :: follow) =
          (Tok.comma :: wsToks ws0) ++ (v.toks ++ (wsToks ws1 ++ (rest.toks ++ (Tok.rbracket :: follow)))) := by
        simp [JItems.toks]
      rw [htoks] at h
      have h2 := (h.split).2
      rw [toksStdBp_comma_ws] at h2
      have hsF : SafeNext (wsToks ws1 ++ (rest.toks ++ (Tok.rbracket :: follow))) :=
        safe_ws _ _ (safe_items rest follow)
      have haF : toksBytes (wsToks ws1 ++ (rest.toks ++ (Tok.rbracket :: follow))) ≠ [] :=
        bytes_ne_nil_of_mem _ Tok.rbracket (by simp)
      have hv := val_rng T IB BP v _ (q + 0) _ fuel h2 hsF (anch_inner haF) hdv
      obtain ⟨post, _, hns⟩ := nextSibling_loc v _ h2
      have hhead : toksStdBp (wsToks ws1 ++ (rest.toks ++ (Tok.rbracket :: follow))) ++ post =
          itemsBp rest ++ false :: (toksStdBp follow ++ post) := by
        simp [toksStdBp_append, toksStdBp_ws, toksStdBp_cons, itemsBp_eq, tokStdBp]
      rw [hhead, itemsNext] at hns
      have h3 := ((h2.split).2.split).2
      rw [treeBp_eq, toksStdBp_ws] at h3
      obtain ⟨pre, post', hB, hb⟩ := bp_at h2
      have hqlt : q < BP.length := by
        have := treeBp_length_pos v
        rw [hB, toksStdBp_append, treeBp_eq]; simp; omega
      obtain ⟨N', rfl⟩ : ∃ N', N = N' + 1 := ⟨N - 1, by omega⟩
      have hitems := items_rng T IB BP rest follow (q + 0 + (treeBp v).length + 0) _ N' fuel
        (by simpa using h3) hdr (by have := treeBp_length_pos v; omega)
      simp only [Nat.add_zero] at hitems hns hv
      simp only [itemsHead_cons, siblingsFrom, hns, List.flatMap_cons, hv, itemsSpans, hitems, List.map_append, blen]
  theorem members_rng (T : List Byte) (IB BP : List Bool) : ∀ (r : JMembers) (follow : List Tok) (q a N fuel : Nat),
      LocT T IB BP (r.toks ++ (Tok.rbrace :: follow)) q a → membersDepth r ≤ fuel → BP.length < N + q →
      (fieldsList (mkIndex T IB BP) N (membersHead r q)).flatMap
        (fun kv => rangesWalk (mkIndex T IB BP) fuel kv.1 ++ rangesWalk (mkIndex T IB BP) fuel kv.2) =
        (membersSpans r a).map some
    | .nil, follow, q, a, N, fuel, h, hd, hN => by
      simp [membersHead, fieldsList_none, membersSpans]
    | .cons ws0 k ws1 ws2 v ws3 rest, follow, q, a, N, fuel, h, hd, hN => by
      have hdv : depth v ≤ fuel := by simp [membersDepth] at hd; omega
      have hdr : membersDepth rest ≤ fuel := by simp [membersDepth] at hd; omega
      obtain ⟨f', rfl⟩ : ∃ f', fuel = f' + 1 := ⟨fuel - 1, by have := depth_pos v; omega⟩
      have htoks : (JMembers.cons ws0 k ws1 ws2 v ws3 rest).toks ++ (Tok.rbrace :: follow) =
          (Tok.comma :: wsToks ws0) ++ ((JVal.str k).toks ++ ((wsToks ws1 ++ (Tok.colon :: wsToks ws2)) ++
            (v.toks ++ (wsToks ws3 ++ (rest.toks ++ (Tok.rbrace :: follow)))))) := by
        simp [JMembers.toks, JVal.toks]
      rw [htoks] at h
      have h2 := (h.split).2
      rw [toksStdBp_comma_ws] at h2
      obtain ⟨_, _, hnsk, _⟩ := field_step (fuel := f') k ws1 ws2 v _ h2
      obtain ⟨hvloc, hkrng⟩ := field_loc k ws1 ws2 v _ h2
      have hkw : rangesWalk (mkIndex T IB BP) (f' + 1) (q + 0) =
          [some (a + blen (Tok.comma :: wsToks ws0), a + blen (Tok.comma :: wsToks ws0) + blen (JVal.str k).toks)] := by
        have hkv := value_at (JVal.str k) _ h2
        rw [rangesWalk, hkv, hkrng]; simp [kindOf, blen]
      have hsF : SafeNext (wsToks ws3 ++ (rest.toks ++ (Tok.rbrace :: follow))) :=
        safe_ws _ _ (safe_members rest follow)
      have haF : toksBytes (wsToks ws3 ++ (rest.toks ++ (Tok.rbrace :: follow))) ≠ [] :=
        bytes_ne_nil_of_mem _ Tok.rbrace (by simp)
      have hv := val_rng T IB BP v _ (q + 0 + 2) _ (f' + 1) hvloc hsF (anch_inner haF) hdv
      obtain ⟨post, _, hns⟩ := nextSibling_loc v _ hvloc
      have hhead : toksStdBp (wsToks ws3 ++ (rest.toks ++ (Tok.rbrace :: follow))) ++ post =
          membersBp rest ++ false :: (toksStdBp follow ++ post) := by
        simp [toksStdBp_append, toksStdBp_ws, toksStdBp_cons, membersBp_eq, tokStdBp]
      rw [hhead, membersNext] at hns
      have h3 := ((hvloc.split).2.split).2
      rw [treeBp_eq, toksStdBp_ws] at h3
      obtain ⟨pre, post', hB, hb⟩ := bp_at h2
      have hqlt : q < BP.length := by
        rw [hB, toksStdBp_append]; simp [JVal.toks, toksStdBp, tokStdBp]; omega
      obtain ⟨N', rfl⟩ : ∃ N', N = N' + 1 := ⟨N - 1, by omega⟩
      have hmem := members_rng T IB BP rest follow (q + 0 + 2 + (treeBp v).length + 0) _ N' (f' + 1)
        (by simpa using h3) hdr (by have := treeBp_length_pos v; omega)
      simp only [Nat.add_zero] at hmem hns hv hnsk hkw
      simp only [membersHead_cons, fieldsList, fieldsUncons, hnsk, hns, List.flatMap_cons, hkw, hv, membersSpans,
        hmem, List.map_cons, List.map_append, blen, List.cons_append, List.nil_append]
end

/-- `text_range` of every node visited by the walk from the root of a document. -/
theorem rangesWalk_doc (f : Bool) (d : Doc) (fuel : Nat) (hf : depth d.value ≤ fuel) :
    rangesWalk (build f false d.text) fuel 0 = (spansOf d.value (blen (wsToks d.ws0))).map some := by
  rw [build_doc]
  show _ = (spansOf d.value (toksBytes (wsToks d.ws0)).length).map some
  refine val_rng _ _ _ d.value (wsToks d.ws1) 0 _ fuel (doc_loc d) ?_ ?_ hf
  · simpa using safe_ws d.ws1 [] safe_nil
  · right
    simp [Doc.text, Doc.toks, toksBytes_append]

/-! ### tree-level statement of the interest bits -/

theorem truePositions_append (xs ys : List Bool) :
    truePositions (xs ++ ys) = truePositions xs ++ (truePositions ys).map (· + xs.length) := by
  induction xs with
  | nil => simp [truePositions]
  | cons b bs ih =>
    simp only [List.cons_append, truePositions, ih, List.map_append, List.map_map, List.length_cons]
    rw [List.append_assoc]
    congr 2
    all_goals (try (apply List.map_congr_left; intro x _; simp; omega))

/-- positions of the interest bits of a token segment that starts at text offset `a` -/
def nodeStarts (ts : List Tok) (a : Nat) : List Nat := (truePositions (toksStdIb ts)).map (· + a)

@[simp] theorem nodeStarts_nil (a : Nat) : nodeStarts [] a = [] := rfl

theorem nodeStarts_append (t1 t2 : List Tok) (a : Nat) :
    nodeStarts (t1 ++ t2) a = nodeStarts t1 a ++ nodeStarts t2 (a + blen t1) := by
  simp only [nodeStarts, toksStdIb_append, truePositions_append, List.map_append, List.map_map,
    toksStdIb_length, blen]
  congr 1
  apply List.map_congr_left; intro x _; simp; omega

theorem nodeStarts_ws (w : Ws) (a : Nat) : nodeStarts (wsToks w) a = [] := by
  simp only [nodeStarts, toksStdIb_ws]
  have : ∀ n, truePositions (List.replicate n false) = [] := by
    intro n; induction n with
    | zero => rfl
    | succ n ih => simp [List.replicate_succ, truePositions, ih]
  simp [this]

theorem truePositions_replicate_false (n : Nat) : truePositions (List.replicate n false) = [] := by
  induction n with
  | zero => rfl
  | succ n ih => simp [List.replicate_succ, truePositions, ih]

theorem nodeStarts_single (t : Tok) (a : Nat) :
    nodeStarts [t] a = if Tok.isNode t then [a] else [] := by
  simp only [nodeStarts, toksStdIb, List.flatMap_cons, List.flatMap_nil, List.append_nil, tokStdIb]
  by_cases h : Tok.isNode t = true
  · simp [h, truePositions, truePositions_replicate_false]
  · simp [h, truePositions_replicate_false]

theorem nodeStarts_cons (t : Tok) (ts : List Tok) (a : Nat) :
    nodeStarts (t :: ts) a = (if Tok.isNode t then [a] else []) ++ nodeStarts ts (a + blen [t]) := by
  have := nodeStarts_append [t] ts a
  simpa [nodeStarts_single] using this

mutual
  theorem starts_val : ∀ (v : JVal) (a : Nat), nodeStarts v.toks a = (spansOf v a).map (·.1)
    | .lit l, a => by simp [JVal.toks, nodeStarts_single, Tok.isNode, spansOf]
    | .num n, a => by simp [JVal.toks, nodeStarts_single, Tok.isNode, spansOf]
    | .str s, a => by simp [JVal.toks, nodeStarts_single, Tok.isNode, spansOf]
    | .arr0 ws, a => by
      simp [JVal.toks, nodeStarts_cons, nodeStarts_append, nodeStarts_ws, nodeStarts_single, Tok.isNode, spansOf]
    | .obj0 ws, a => by
      simp [JVal.toks, nodeStarts_cons, nodeStarts_append, nodeStarts_ws, nodeStarts_single, Tok.isNode, spansOf]
    | .arr ws0 v ws1 rest, a => by
      have e : (JVal.arr ws0 v ws1 rest).toks =
          (Tok.lbracket :: wsToks ws0) ++ (v.toks ++ (wsToks ws1 ++ (rest.toks ++ [Tok.rbracket]))) := by
        simp [JVal.toks]
      simp only [e, nodeStarts_append]
      rw [starts_val v, starts_items rest]
      simp [nodeStarts_cons, nodeStarts_ws, nodeStarts_single, Tok.isNode, spansOf, Nat.add_assoc]
    | .obj ws0 k ws1 ws2 v ws3 rest, a => by
      have e : (JVal.obj ws0 k ws1 ws2 v ws3 rest).toks =
          (Tok.lbrace :: wsToks ws0) ++ ((JVal.str k).toks ++ ((wsToks ws1 ++ (Tok.colon :: wsToks ws2)) ++
            (v.toks ++ (wsToks ws3 ++ (rest.toks ++ [Tok.rbrace]))))) := by
        simp [JVal.toks]
      simp only [e, nodeStarts_append]
      rw [starts_val v, starts_members rest]
      simp [JVal.toks, nodeStarts_cons, nodeStarts_append, nodeStarts_ws, nodeStarts_single, Tok.isNode, spansOf,
        Nat.add_assoc]
  theorem starts_items : ∀ (r : JItems) (a : Nat), nodeStarts r.toks a = (itemsSpans r a).map (·.1)
    | .nil, a => by simp [JItems.toks, nodeStarts, toksStdIb, truePositions, itemsSpans]
    | .cons ws0 v ws1 rest, a => by
      have e : (JItems.cons ws0 v ws1 rest).toks =
          (Tok.comma :: wsToks ws0) ++ (v.toks ++ (wsToks ws1 ++ rest.toks)) := by
        simp [JItems.toks]
      simp only [e, nodeStarts_append]
      rw [starts_val v, starts_items rest]
      simp [nodeStarts_cons, nodeStarts_ws, Tok.isNode, itemsSpans, Nat.add_assoc]
  theorem starts_members : ∀ (r : JMembers) (a : Nat), nodeStarts r.toks a = (membersSpans r a).map (·.1)
    | .nil, a => by simp [JMembers.toks, nodeStarts, toksStdIb, truePositions, membersSpans]
    | .cons ws0 k ws1 ws2 v ws3 rest, a => by
      have e : (JMembers.cons ws0 k ws1 ws2 v ws3 rest).toks =
          (Tok.comma :: wsToks ws0) ++ ((JVal.str k).toks ++ ((wsToks ws1 ++ (Tok.colon :: wsToks ws2)) ++
            (v.toks ++ (wsToks ws3 ++ rest.toks)))) := by
        simp [JMembers.toks, JVal.toks]
      simp only [e, nodeStarts_append]
      rw [starts_val v, starts_members rest]
      simp [JVal.toks, nodeStarts_cons, nodeStarts_append, nodeStarts_ws, nodeStarts_single, Tok.isNode,
        membersSpans, Nat.add_assoc]
end

/-- The positions of the interest bits of a document are the first bytes of its nodes in preorder. -/
theorem ib_preorder (d : Doc) :
    truePositions (reference d.text).ib = (spansOf d.value (blen (wsToks d.ws0))).map (·.1) := by
  rw [(reference_doc d).1]
  have h := nodeStarts_append (wsToks d.ws0) (d.value.toks ++ wsToks d.ws1) 0
  have h2 := nodeStarts_append d.value.toks (wsToks d.ws1) (0 + blen (wsToks d.ws0))
  simp only [nodeStarts_ws, List.nil_append, List.append_nil, Nat.zero_add] at h h2
  rw [h2, starts_val] at h
  simpa [nodeStarts, Doc.toks] using h

end SV.JsonNav
