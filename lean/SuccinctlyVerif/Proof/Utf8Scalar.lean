/-
Proof/Utf8Scalar — the scalar validator's case analysis: three- and four-byte leaves and the main
simulation theorem `scalarGo_spec`.
-/
import SuccinctlyVerif.Proof.Utf8Engines
set_option linter.unusedSimpArgs false
namespace SV.Utf8
open SV

section leaves34
variable {b0 b1 b2 b3 : Byte} {r : List Byte}

/-! three-byte sequences (`E0..EF`) -/

theorem l3_trunc0 (h2 : ¬ b0 ≤ 0xDF#8) (h3 : b0 ≤ 0xEF#8) :
    HeadBad [b0] ∧ firstViolation [b0] = some (.truncatedSequence, 0) :=
  ⟨hbt1 (by st_decide), by simp [firstViolation, violates, dl3 h2 h3]⟩

theorem l3_trunc1 (h2 : ¬ b0 ≤ 0xDF#8) (h3 : b0 ≤ 0xEF#8) :
    HeadBad [b0, b1] ∧ firstViolation [b0, b1] = some (.truncatedSequence, 0) :=
  ⟨hbt2 (by st_decide) (by st_decide), by simp [firstViolation, violates, dl3 h2 h3]⟩

theorem l3_bad1 (h2 : ¬ b0 ≤ 0xDF#8) (h3 : b0 ≤ 0xEF#8) (c1 : isContinuationByte b1 = false) :
    HeadBad (b0 :: b1 :: b2 :: r) ∧
      firstViolation (b0 :: b1 :: b2 :: r) = some (.invalidContinuationByte, 1) := by
  have c1' : isContByte b1 = false := by rw [← isCont_eq]; exact c1
  refine ⟨hb2 (by st_decide) (by simp only [isContByte] at c1'; st_decide), ?_⟩
  simp [firstViolation, violates, dl3 h2 h3, c1']

theorem l3_bad2 (h2 : ¬ b0 ≤ 0xDF#8) (h3 : b0 ≤ 0xEF#8) (c1 : isContinuationByte b1 = true)
    (c2 : isContinuationByte b2 = false) :
    HeadBad (b0 :: b1 :: b2 :: r) ∧
      firstViolation (b0 :: b1 :: b2 :: r) = some (.invalidContinuationByte, 2) := by
  have c1' : isContByte b1 = true := by rw [← isCont_eq]; exact c1
  have c2' : isContByte b2 = false := by rw [← isCont_eq]; exact c2
  refine ⟨hb3 (by st_decide) (by st_decide) (by simp only [isContByte] at c2'; st_decide), ?_⟩
  simp [firstViolation, violates, dl3 h2 h3, c1', c2']

theorem l3_over (h2 : ¬ b0 ≤ 0xDF#8) (h3 : b0 ≤ 0xEF#8) (c1 : isContinuationByte b1 = true)
    (c2 : isContinuationByte b2 = true) (hc : cp3 b0 b1 b2 < 0x800#32) :
    HeadBad (b0 :: b1 :: b2 :: r) ∧ firstViolation (b0 :: b1 :: b2 :: r) = some (.overlongEncoding, 0) := by
  have c1' : isContByte b1 = true := by rw [← isCont_eq]; exact c1
  have c2' : isContByte b2 = true := by rw [← isCont_eq]; exact c2
  have e0 : b0 = 0xE0#8 := by byte_decide
  have hov : inR 0x80#8 0x9F#8 b1 = true := by byte_decide
  refine ⟨hb2 (by st_decide) (by simp only [isContinuationByte, cp3] at *; st_decide), ?_⟩
  subst e0
  have hl : ¬ (r.length + 1 + 1 + 1 < 3) := by omega
  have hov' := hov
  simp only [inR, Bool.and_eq_true, decide_eq_true_eq] at hov'
  simp [firstViolation, violates, dl3 h2 h3, c1', c2', hov', inR, hl]

theorem l3_sur (h2 : ¬ b0 ≤ 0xDF#8) (h3 : b0 ≤ 0xEF#8) (c1 : isContinuationByte b1 = true)
    (c2 : isContinuationByte b2 = true) (hc : ¬ cp3 b0 b1 b2 < 0x800#32)
    (hs : 0xD800#32 ≤ cp3 b0 b1 b2 ∧ cp3 b0 b1 b2 ≤ 0xDFFF#32) :
    HeadBad (b0 :: b1 :: b2 :: r) ∧ firstViolation (b0 :: b1 :: b2 :: r) = some (.surrogateCodepoint, 0) := by
  have c1' : isContByte b1 = true := by rw [← isCont_eq]; exact c1
  have c2' : isContByte b2 = true := by rw [← isCont_eq]; exact c2
  obtain ⟨hs1, hs2⟩ := hs
  have ed : b0 = 0xED#8 := by byte_decide
  have hsu : inR 0xA0#8 0xBF#8 b1 = true := by byte_decide
  refine ⟨hb2 (by st_decide) (by simp only [isContinuationByte, cp3] at *; st_decide), ?_⟩
  subst ed
  have hl : ¬ (r.length + 1 + 1 + 1 < 3) := by omega
  have hsu' := hsu
  simp only [inR, Bool.and_eq_true, decide_eq_true_eq] at hsu'
  simp [firstViolation, violates, dl3 h2 h3, c1', c2', hsu', inR, hl]

theorem l3_ok (h2 : ¬ b0 ≤ 0xDF#8) (h3 : b0 ≤ 0xEF#8) (c1 : isContinuationByte b1 = true)
    (c2 : isContinuationByte b2 = true) (hc : ¬ cp3 b0 b1 b2 < 0x800#32)
    (hs : ¬ (0xD800#32 ≤ cp3 b0 b1 b2 ∧ cp3 b0 b1 b2 ≤ 0xDFFF#32)) :
    step (step (step .start b0) b1) b2 = .start := by
  simp only [isContinuationByte, cp3] at *; st_decide

/-! four-byte sequences (`F0..F7`) -/

theorem l4_trunc0 (h3 : ¬ b0 ≤ 0xEF#8) (h4 : b0 ≤ 0xF7#8) :
    HeadBad [b0] ∧ firstViolation [b0] = some (.truncatedSequence, 0) :=
  ⟨hbt1 (by st_decide), by simp [firstViolation, violates, dl4 h3 h4]⟩

theorem l4_trunc1 (h3 : ¬ b0 ≤ 0xEF#8) (h4 : b0 ≤ 0xF7#8) :
    HeadBad [b0, b1] ∧ firstViolation [b0, b1] = some (.truncatedSequence, 0) :=
  ⟨hbt2 (by st_decide) (by st_decide), by simp [firstViolation, violates, dl4 h3 h4]⟩

theorem l4_trunc2 (h3 : ¬ b0 ≤ 0xEF#8) (h4 : b0 ≤ 0xF7#8) :
    HeadBad [b0, b1, b2] ∧ firstViolation [b0, b1, b2] = some (.truncatedSequence, 0) :=
  ⟨hbt3 (by st_decide) (by st_decide) (by st_decide), by simp [firstViolation, violates, dl4 h3 h4]⟩

theorem l4_bad1 (h3 : ¬ b0 ≤ 0xEF#8) (h4 : b0 ≤ 0xF7#8) (c1 : isContinuationByte b1 = false) :
    HeadBad (b0 :: b1 :: b2 :: b3 :: r) ∧
      firstViolation (b0 :: b1 :: b2 :: b3 :: r) = some (.invalidContinuationByte, 1) := by
  have c1' : isContByte b1 = false := by rw [← isCont_eq]; exact c1
  refine ⟨hb2 (by st_decide) (by simp only [isContByte] at c1'; st_decide), ?_⟩
  simp [firstViolation, violates, dl4 h3 h4, c1']

theorem l4_bad2 (h3 : ¬ b0 ≤ 0xEF#8) (h4 : b0 ≤ 0xF7#8) (c1 : isContinuationByte b1 = true)
    (c2 : isContinuationByte b2 = false) :
    HeadBad (b0 :: b1 :: b2 :: b3 :: r) ∧
      firstViolation (b0 :: b1 :: b2 :: b3 :: r) = some (.invalidContinuationByte, 2) := by
  have c1' : isContByte b1 = true := by rw [← isCont_eq]; exact c1
  have c2' : isContByte b2 = false := by rw [← isCont_eq]; exact c2
  refine ⟨hb3 (by st_decide) (by st_decide) (by simp only [isContByte] at c2'; st_decide), ?_⟩
  simp [firstViolation, violates, dl4 h3 h4, c1', c2']

theorem l4_bad3 (h3 : ¬ b0 ≤ 0xEF#8) (h4 : b0 ≤ 0xF7#8) (c1 : isContinuationByte b1 = true)
    (c2 : isContinuationByte b2 = true) (c3 : isContinuationByte b3 = false) :
    HeadBad (b0 :: b1 :: b2 :: b3 :: r) ∧
      firstViolation (b0 :: b1 :: b2 :: b3 :: r) = some (.invalidContinuationByte, 3) := by
  have c1' : isContByte b1 = true := by rw [← isCont_eq]; exact c1
  have c2' : isContByte b2 = true := by rw [← isCont_eq]; exact c2
  have c3' : isContByte b3 = false := by rw [← isCont_eq]; exact c3
  refine ⟨hb4 (by st_decide) (by st_decide) (by st_decide) (by simp only [isContByte] at c3'; st_decide), ?_⟩
  simp [firstViolation, violates, dl4 h3 h4, c1', c2', c3']

theorem l4_over (h3 : ¬ b0 ≤ 0xEF#8) (h4 : b0 ≤ 0xF7#8) (c1 : isContinuationByte b1 = true)
    (c2 : isContinuationByte b2 = true) (c3 : isContinuationByte b3 = true)
    (hc : cp4 b0 b1 b2 b3 < 0x10000#32) :
    HeadBad (b0 :: b1 :: b2 :: b3 :: r) ∧
      firstViolation (b0 :: b1 :: b2 :: b3 :: r) = some (.overlongEncoding, 0) := by
  have c1' : isContByte b1 = true := by rw [← isCont_eq]; exact c1
  have c2' : isContByte b2 = true := by rw [← isCont_eq]; exact c2
  have c3' : isContByte b3 = true := by rw [← isCont_eq]; exact c3
  have f0 : b0 = 0xF0#8 := by byte_decide
  have hov : inR 0x80#8 0x8F#8 b1 = true := by byte_decide
  refine ⟨hb2 (by st_decide) (by simp only [isContinuationByte, cp4] at *; st_decide), ?_⟩
  subst f0
  have hl : ¬ (r.length + 1 + 1 + 1 + 1 < 4) := by omega
  have hov' := hov
  simp only [inR, Bool.and_eq_true, decide_eq_true_eq] at hov'
  simp [firstViolation, violates, dl4 h3 h4, c1', c2', c3', hov', inR, hl]

theorem l4_oor (h3 : ¬ b0 ≤ 0xEF#8) (h4 : b0 ≤ 0xF7#8) (c1 : isContinuationByte b1 = true)
    (c2 : isContinuationByte b2 = true) (c3 : isContinuationByte b3 = true)
    (hc : ¬ cp4 b0 b1 b2 b3 < 0x10000#32) (ho : cp4 b0 b1 b2 b3 > 0x10FFFF#32) :
    HeadBad (b0 :: b1 :: b2 :: b3 :: r) ∧
      firstViolation (b0 :: b1 :: b2 :: b3 :: r) = some (.outOfRangeCodepoint, 0) := by
  have c1' : isContByte b1 = true := by rw [← isCont_eq]; exact c1
  have c2' : isContByte b2 = true := by rw [← isCont_eq]; exact c2
  have c3' : isContByte b3 = true := by rw [← isCont_eq]; exact c3
  have hcase : (b0 = 0xF4#8 ∧ inR 0x90#8 0xBF#8 b1 = true) ∨ inR 0xF5#8 0xF7#8 b0 = true := by byte_decide
  have hb : HeadBad (b0 :: b1 :: b2 :: b3 :: r) := by
    rcases hcase with ⟨e, hr⟩ | hr
    · exact hb2 (by st_decide) (by st_decide)
    · exact hb1 (by st_decide)
  refine ⟨hb, ?_⟩
  have hno1 : inR 0xC0#8 0xC1#8 b0 = false := by byte_decide
  have hno2 : (b0 == 0xE0#8) = false := by byte_decide
  have hno3 : (b0 == 0xED#8) = false := by byte_decide
  have hno4 : (b0 == 0xF0#8 && inR 0x80#8 0x8F#8 b1) = false := by byte_decide
  rcases hcase with ⟨e, hr⟩ | hr
  · subst e
    have hl : ¬ (r.length + 1 + 1 + 1 + 1 < 4) := by omega
    have hr' := hr
    simp only [inR, Bool.and_eq_true, decide_eq_true_eq] at hr'
    simp [firstViolation, violates, dl4 h3 h4, c1', c2', c3', hr', inR, hl]
  · simp [firstViolation, violates, dl4 h3 h4, c1', c2', c3', hr, hno1, hno2, hno3, hno4]

theorem l4_ok (h3 : ¬ b0 ≤ 0xEF#8) (h4 : b0 ≤ 0xF7#8) (c1 : isContinuationByte b1 = true)
    (c2 : isContinuationByte b2 = true) (c3 : isContinuationByte b3 = true)
    (hc : ¬ cp4 b0 b1 b2 b3 < 0x10000#32) (ho : ¬ cp4 b0 b1 b2 b3 > 0x10FFFF#32) :
    step (step (step (step .start b0) b1) b2) b3 = .start := by
  simp only [isContinuationByte, cp4] at *; st_decide

end leaves34

end SV.Utf8
