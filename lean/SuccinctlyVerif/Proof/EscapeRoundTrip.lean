/-
Proof/EscapeRoundTrip — C09: every escape the writers emit decodes (RFC 8259 §7 body decoder) back
to the character, including `\uXXXX` and surrogate pairs, and the lift to whole strings.
-/
import SuccinctlyVerif.Model.Escape
set_option linter.unusedSimpArgs false
namespace SV.Escape
open SV SV.Utf8

theorem hexVal_hexDigit : ∀ d : Fin 16, hexVal (hexDigit d.val) = some d.val := by decide

theorem hexVal_hexDigit' (d : Nat) (h : d < 16) : hexVal (hexDigit d) = some d :=
  hexVal_hexDigit ⟨d, h⟩

/-- Four hex digits of `n < 65536` read back as `n`. -/
theorem hex4_digits (n : Nat) (h : n < 65536) (rest : List Nat) :
    hex4 (hexDigit (n / 4096 % 16) :: hexDigit (n / 256 % 16) :: hexDigit (n / 16 % 16) ::
      hexDigit (n % 16) :: rest) = some (n, rest) := by
  simp only [hex4, hexVal_hexDigit' _ (Nat.mod_lt _ (by decide : 16 > 0))]
  simp only [Option.some.injEq, Prod.mk.injEq, and_true]
  omega

/-- `\uXXXX` of a BMP scalar value decodes to it (one decoder step). -/
theorem decode_bmpU (cp : Nat) (h : cp < 65536) (hns : ¬ (0xD800 ≤ cp ∧ cp ≤ 0xDFFF)) (f : Nat)
    (rest : List Nat) :
    decodeBody (f + 1) (bmpU cp ++ rest) = (decodeBody f rest).map (cp :: ·) := by
  have h1 : ¬ (0xD800 ≤ cp ∧ cp ≤ 0xDBFF) := by omega
  have h2 : ¬ (0xDC00 ≤ cp ∧ cp ≤ 0xDFFF) := by omega
  simp [bmpU, decodeBody, hex4_digits cp h, h1, h2]

/-- A surrogate pair decodes to the supplementary scalar value (one decoder step). -/
theorem decode_pair (cp : Nat) (h1 : 0x10000 ≤ cp) (h2 : cp ≤ 0x10FFFF) (f : Nat) (rest : List Nat) :
    decodeBody (f + 1) (bmpU (0xD800 + (cp - 0x10000) / 1024) ++ bmpU (0xDC00 + (cp - 0x10000) % 1024) ++ rest) =
      (decodeBody f rest).map (cp :: ·) := by
  have hh : 0xD800 + (cp - 0x10000) / 1024 < 65536 := by omega
  have hl : 0xDC00 + (cp - 0x10000) % 1024 < 65536 := by omega
  have hhi : 0xD800 ≤ 0xD800 + (cp - 0x10000) / 1024 ∧ 0xD800 + (cp - 0x10000) / 1024 ≤ 0xDBFF := by omega
  have hlo : 0xDC00 ≤ 0xDC00 + (cp - 0x10000) % 1024 ∧ 0xDC00 + (cp - 0x10000) % 1024 ≤ 0xDFFF := by omega
  have hv : 0x10000 + (0xD800 + (cp - 0x10000) / 1024 - 0xD800) * 1024 +
      (0xDC00 + (cp - 0x10000) % 1024 - 0xDC00) = cp := by omega
  simp only [bmpU, List.cons_append, List.nil_append, decodeBody]
  simp only [hex4_digits _ hh, hex4_digits _ hl, hhi, hlo, hv]
  simp

theorem decode_uEscape (cp : Nat) (hs : isScalar cp = true) (hna : ¬ cp < 0x80) (f : Nat) (rest : List Nat) :
    decodeBody (f + 1) (uEscape cp ++ rest) = (decodeBody f rest).map (cp :: ·) := by
  simp only [isScalar, Bool.or_eq_true, Bool.and_eq_true, decide_eq_true_eq] at hs
  unfold uEscape
  by_cases hb : cp ≤ 0xFFFF
  · simp only [hb, if_true]
    exact decode_bmpU cp (by omega) (by omega) f rest
  · simp only [hb, if_false]
    exact decode_pair cp (by omega) (by omega) f rest

theorem shortU_eq_bmpU (b : Nat) (h : b < 256) : shortU b = bmpU b := by
  have h1 : b / 4096 % 16 = 0 := by omega
  have h2 : b / 256 % 16 = 0 := by omega
  simp [shortU, bmpU, h1, h2, hexDigit]

theorem decode_shortU (b : Nat) (h : b < 256) (f : Nat) (rest : List Nat) :
    decodeBody (f + 1) (shortU b ++ rest) = (decodeBody f rest).map (b :: ·) := by
  rw [shortU_eq_bmpU b h]; exact decode_bmpU b (by omega) (by omega) f rest

theorem decode_raw (c : Nat) (h1 : c ≠ 92) (h2 : c ≠ 34) (h3 : ¬ c < 0x20) (f : Nat) (rest : List Nat) :
    decodeBody (f + 1) ([c] ++ rest) = (decodeBody f rest).map (c :: ·) := by
  simp [decodeBody, h1, h2, h3]

theorem decode_simple (e v : Nat) (f : Nat) (rest : List Nat)
    (h : (e = 34 ∧ v = 34) ∨ (e = 92 ∧ v = 92) ∨ (e = 98 ∧ v = 8) ∨ (e = 102 ∧ v = 12) ∨ (e = 110 ∧ v = 10) ∨
      (e = 114 ∧ v = 13) ∨ (e = 116 ∧ v = 9)) :
    decodeBody (f + 1) ([92, e] ++ rest) = (decodeBody f rest).map (v :: ·) := by
  rcases h with ⟨rfl, rfl⟩ | ⟨rfl, rfl⟩ | ⟨rfl, rfl⟩ | ⟨rfl, rfl⟩ | ⟨rfl, rfl⟩ | ⟨rfl, rfl⟩ | ⟨rfl, rfl⟩ <;>
    simp [decodeBody]

/-- A per-character writer `w` is *decodable* if each of its outputs is consumed by exactly one
decoder step that yields the character. -/
def Decodable (w : Nat → List Nat) : Prop :=
  ∀ c, isScalar c = true → ∀ f rest, decodeBody (f + 1) (w c ++ rest) = (decodeBody f rest).map (c :: ·)

theorem jqChar_decodable : Decodable jqChar := by
  intro c hs f rest
  unfold jqChar
  repeat' split
  all_goals try (subst_vars; exact decode_simple _ _ f rest (by simp))
  · rename_i h; exact decode_shortU c (by omega) f rest
  · exact decode_raw c (by omega) (by omega) (by omega) f rest

theorem jqAsciiChar_decodable : Decodable jqAsciiChar := by
  intro c hs f rest
  unfold jqAsciiChar
  repeat' split
  all_goals try (subst_vars; exact decode_simple _ _ f rest (by simp))
  · rename_i h; exact decode_shortU c (by omega) f rest
  · rename_i h; exact decode_uEscape c hs h f rest
  · exact decode_raw c (by omega) (by omega) (by omega) f rest

theorem yqAsciiChar_decodable : Decodable yqAsciiChar := by
  intro c hs f rest
  unfold yqAsciiChar
  repeat' split
  all_goals try (subst_vars; exact decode_simple _ _ f rest (by simp))
  · rename_i h; exact decode_shortU c (by omega) f rest
  · rename_i h; exact decode_uEscape c hs h f rest
  · exact decode_raw c (by omega) (by omega) (by omega) f rest

/-- Lift to whole strings: with enough fuel the decoder returns the string. -/
theorem decodeBody_flatMap (w : Nat → List Nat) (hw : Decodable w) (s : List Nat)
    (hs : ∀ c ∈ s, isScalar c = true) (k : Nat) :
    decodeBody (s.length + 1 + k) (s.flatMap w) = some s := by
  induction s with
  | nil =>
    simp only [List.length_nil, List.flatMap_nil]
    rw [show 0 + 1 + k = k + 1 by omega]; rfl
  | cons c s ih =>
    have e : (c :: s).length + 1 + k = (s.length + 1 + k) + 1 := by simp; omega
    rw [List.flatMap_cons, e, hw c (hs c (by simp)), ih (fun x hx => hs x (by simp [hx]))]
    rfl

theorem length_le_flatMap (w : Nat → List Nat) (hne : ∀ c, w c ≠ []) (s : List Nat) :
    s.length ≤ (s.flatMap w).length := by
  induction s with
  | nil => simp
  | cons c s ih =>
    have : 1 ≤ (w c).length := by
      cases h : w c with
      | nil => exact absurd h (hne c)
      | cons _ _ => simp
    simp only [List.flatMap_cons, List.length_append, List.length_cons]; omega

theorem decode_flatMap (w : Nat → List Nat) (hw : Decodable w) (hne : ∀ c, w c ≠ []) (s : List Nat)
    (hs : ∀ c ∈ s, isScalar c = true) : decode (s.flatMap w) = some s := by
  unfold decode
  have hl := length_le_flatMap w hne s
  obtain ⟨k, hk⟩ : ∃ k, (s.flatMap w).length + 1 = s.length + 1 + k := ⟨(s.flatMap w).length - s.length, by omega⟩
  rw [hk]; exact decodeBody_flatMap w hw s hs k

end SV.Escape
