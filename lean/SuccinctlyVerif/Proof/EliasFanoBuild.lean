/-
Proof/EliasFanoBuild — C03: `build` never panics on a non-decreasing u32 sequence and establishes
the encoding invariants (unary-coded high bits, packed low bits).
-/
import SuccinctlyVerif.Proof.EliasFanoLow
namespace SV.EF
open SV SV.Scan

theorem lowWidthOf_lt (n u : Nat) : lowWidthOf n u < 64 := by
  unfold lowWidthOf
  split <;> omega

theorem lowWidthOf_bound (n u : Nat) (hn : 0 < n) (hu1 : 0 < u) (hu : u < 2 ^ 64) :
    (u - 1) >>> lowWidthOf n u < 2 * n := by
  unfold lowWidthOf
  by_cases h : n = 0 ∨ u ≤ n
  · rw [if_pos h]; simp; omega
  · rw [if_neg h]
    have hx : 0 < u / n := Nat.div_pos (by omega) hn
    have hx64 : u / n < 2 ^ 64 := Nat.lt_of_le_of_lt (Nat.div_le_self _ _) hu
    have hne : BitVec.ofNat 64 (u / n) ≠ 0#64 := by
      intro h0
      have := congrArg BitVec.toNat h0
      simp [Nat.mod_eq_of_lt hx64] at this
      omega
    have hclz : (BitVec.ofNat 64 (u / n)).clz.toNat < 64 := by
      have := (BitVec.clz_lt_iff_ne_zero (x := BitVec.ofNat 64 (u / n))).mpr hne
      simpa [BitVec.lt_def] using this
    have hlt := BitVec.toNat_lt_two_pow_sub_clz (x := BitVec.ofNat 64 (u / n))
    rw [BitVec.toNat_ofNat, Nat.mod_eq_of_lt hx64] at hlt
    unfold lz64
    generalize (BitVec.ofNat 64 (u / n)).clz.toNat = z at *
    have e : 64 - z = (64 - z - 1) + 1 := by omega
    rw [e] at hlt
    generalize 64 - z - 1 = w at *
    rw [Nat.shiftRight_eq_div_pow, Nat.div_lt_iff_lt_mul (Nat.pow_pos (by omega))]
    have h2 : u < 2 ^ (w + 1) * n := by
      have := (Nat.div_lt_iff_lt_mul hn).mp hlt
      exact this
    rw [Nat.pow_succ] at h2
    have : 2 * n * 2 ^ w = 2 ^ w * 2 * n := by
      rw [Nat.mul_comm (2 * n), ← Nat.mul_assoc]
    omega

/-- What `build` establishes. -/
structure Built (R : Nat) (vs : List Nat) (ef : EliasFano) : Prop where
  len : ef.len = vs.length
  univ : ef.univ = EFSpec.universeOf vs
  w_lt : ef.lowWidth < 64
  lowsz : vs.length * ef.lowWidth ≤ 64 * ef.lowBits.length
  low : LowOK ef.lowWidth ef.lowBits vs
  high : ∀ q, getBit ef.highBits q = decide (q ∈ posList ef.lowWidth vs 0)
  highsz : ∀ p ∈ posList ef.lowWidth vs 0, p < 64 * ef.highBits.length
  samples : ef.selectSamples = sampleLoop R ((vs.length + R - 1) / R) ef.highBits 0 0 0 []
  highlen : 64 * ef.highBits.length ≤ vs.length + (vs.getLastD 0 >>> ef.lowWidth) + 64
  width : vs ≠ [] → ef.lowWidth = lowWidthOf vs.length (vs.getLastD 0 + 1)

theorem sorted_le_last (vs : List Nat) (hs : EFSpec.Sorted vs) (j v : Nat) (hj : vs[j]? = some v) :
    v ≤ vs.getLastD 0 := by
  have hjl : j < vs.length := by
    rcases Nat.lt_or_ge j vs.length with h | h
    · exact h
    · rw [List.getElem?_eq_none h] at hj; simp at hj
  rw [List.getLastD_eq_getLast?, List.getLast?_eq_getElem?,
    List.getElem?_eq_getElem (by omega : vs.length - 1 < vs.length)]
  rw [List.getElem?_eq_getElem hjl] at hj
  simp only [Option.some.injEq] at hj
  subst hj
  simp only [Option.getD_some]
  by_cases h : j = vs.length - 1
  · subst h; exact Nat.le_refl _
  · exact (List.pairwise_iff_getElem.mp hs) j (vs.length - 1) hjl (by omega) (by omega)

theorem universeOf_eq (vs : List Nat) (h : vs ≠ []) : EFSpec.universeOf vs = vs.getLastD 0 + 1 := by
  unfold EFSpec.universeOf
  rw [List.getLastD_eq_getLast?]
  cases hl : vs.getLast? with
  | none => simp at hl; exact absurd hl h
  | some m => simp

theorem build_ok (R : Nat) (vs : List Nat) (hs : EFSpec.Sorted vs) (hu : EFSpec.AllU32 vs) :
    ∃ ef, build R vs = some ef ∧ Built R vs ef := by
  unfold build
  by_cases he : vs = []
  · subst he
    simp only [List.isEmpty_nil, if_true]
    refine ⟨_, rfl, ?_⟩
    constructor <;> simp [EFSpec.universeOf, LowOK, posList, getBit, sampleLoop]
  · have hemp : vs.isEmpty = false := by cases vs <;> simp_all
    rw [hemp]
    simp only [Bool.false_eq_true, if_false]
    generalize hw : lowWidthOf vs.length (vs.getLastD 0 + 1) = w
    have hw64 : w < 64 := by rw [← hw]; exact lowWidthOf_lt _ _
    rw [encodeLoop_split]
    -- low half
    have hlow : ∃ low', lowLoop w (if w = 0 then 0 else (1#64 <<< w) - 1) vs 0
          (List.replicate ((vs.length * w + 63) / 64) (0 : BitVec 64)) = some low' ∧
        low'.length = (vs.length * w + 63) / 64 ∧ LowOK w low' vs := by
      by_cases hw0 : w = 0
      · subst hw0
        exact ⟨_, lowLoop_zero _ _ _ _, by simp, fun j v t _ ht => by omega⟩
      · rw [if_neg hw0]
        obtain ⟨low', h1, h2, h3⟩ := lowLoop_spec w (by omega) hw64 vs 0
          (List.replicate ((vs.length * w + 63) / 64) (0 : BitVec 64)) (by simp; omega)
        refine ⟨low', h1, by simpa using h2, fun j v t hj ht => ?_⟩
        rw [h3, getBit_replicate_zero, Bool.false_or, Nat.zero_mul]
        have := lowBitAt_elem w vs 0 j t v hj ht
        simpa using this
    obtain ⟨low', hl1, hl2, hl3⟩ := hlow
    rw [hl1]
    -- high half
    have hmax : (BitVec.ofNat 64 (vs.getLastD 0) >>> w).toNat = vs.getLastD 0 >>> w := by
      have : vs.getLastD 0 < 2 ^ 64 := by
        rw [List.getLastD_eq_getLast?]
        cases hl : vs.getLast? with
        | none => simp
        | some m => have := hu m (List.mem_of_getLast? hl); simp; omega
      rw [BitVec.toNat_ushiftRight, BitVec.toNat_ofNat, Nat.mod_eq_of_lt this]
    rw [hmax]
    have hpos : ∀ p ∈ posList w vs 0,
        p < 64 * (List.replicate ((vs.length + vs.getLastD 0 >>> w + 1 + 63) / 64) (0 : BitVec 64)).length := by
      intro p hp
      obtain ⟨j, v, hj, rfl⟩ := mem_posList hp
      have hjl : j < vs.length := by
        rcases Nat.lt_or_ge j vs.length with h | h
        · exact h
        · rw [List.getElem?_eq_none h] at hj; simp at hj
      have hle := sorted_le_last vs hs j v hj
      have : v >>> w ≤ vs.getLastD 0 >>> w := by
        rw [Nat.shiftRight_eq_div_pow, Nat.shiftRight_eq_div_pow]
        exact Nat.div_le_div_right hle
      simp only [List.length_replicate]
      omega
    obtain ⟨high', hh1, hh2, hh3⟩ := highLoop_spec w vs 0 _
      (fun v hv => by have := hu v hv; omega) hpos
    rw [hh1]
    refine ⟨_, rfl, ?_⟩
    constructor
    · rfl
    · exact (universeOf_eq vs he).symm
    · exact hw64
    · show vs.length * w ≤ 64 * low'.length
      rw [hl2]; omega
    · exact hl3
    · intro q
      show getBit high' q = _
      rw [hh3, getBit_replicate_zero, Bool.false_or]
    · intro p hp
      show p < 64 * high'.length
      rw [hh2]; exact hpos p hp
    · rfl
    · show 64 * high'.length ≤ _
      rw [hh2]; simp only [List.length_replicate]; omega
    · exact fun _ => hw.symm

/-- The high bits are the unary code: the `k`-th one sits at `(vs[k] >>> w) + k`. -/
theorem Built.select_high {R : Nat} {vs : List Nat} {ef : EliasFano} (hb : Built R vs ef)
    (hs : EFSpec.Sorted vs) (k : Nat) :
    selectB true (allBits ef.highBits) k = (posList ef.lowWidth vs 0)[k]? := by
  have := selectB_of_positions (allBits ef.highBits) (posList ef.lowWidth vs 0) 0
    (posList_pairwise _ vs 0 hs)
    (by
      intro q hq
      rw [allBits_length] at hq
      rw [allBits_getElem?, if_pos hq, hb.high]
      simp)
    (by
      intro p hp
      rw [allBits_length]
      exact ⟨Nat.zero_le _, by simpa using hb.highsz p hp⟩) k
  rw [this]
  cases (posList ef.lowWidth vs 0)[k]? <;> simp

theorem Built.count_high {R : Nat} {vs : List Nat} {ef : EliasFano} (hb : Built R vs ef)
    (hs : EFSpec.Sorted vs) : (allBits ef.highBits).count true = vs.length := by
  have h1 := hb.select_high hs vs.length
  have h2 := hb.select_high hs (vs.length - 1)
  rw [getElem?_posList] at h1 h2
  rcases Nat.lt_or_ge (vs.length) ((allBits ef.highBits).count true) with h | h
  · have := selectB_isSome_of_lt true _ _ h
    rw [h1] at this; simp at this
  · rcases Nat.eq_or_lt_of_le h with h | h
    · exact h
    · have hn := selectB_none_of_count_le true (allBits ef.highBits) (vs.length - 1) (by omega)
      rw [hn] at h2
      have : vs.length - 1 < vs.length := by omega
      rw [List.getElem?_eq_getElem this] at h2
      simp at h2

/-- At most `(2^32 - 64) / 3` elements: every high-bit position (hence every select sample) fits
`u32`. -/
theorem Built.high_fits {R : Nat} {vs : List Nat} {ef : EliasFano} (hb : Built R vs ef)
    (hu : EFSpec.AllU32 vs) (hn : 3 * vs.length + 64 ≤ 2 ^ 32) : 64 * ef.highBits.length ≤ 2 ^ 32 := by
  have h1 := hb.highlen
  by_cases he : vs = []
  · subst he; simp at h1; omega
  · have hw := hb.width he
    have hpos : 0 < vs.length := by cases vs <;> simp_all
    have hlast : vs.getLastD 0 < 2 ^ 32 := by
      rw [List.getLastD_eq_getLast?]
      cases hl : vs.getLast? with
      | none => simp
      | some m => have := hu m (List.mem_of_getLast? hl); simpa using this
    have := lowWidthOf_bound vs.length (vs.getLastD 0 + 1) hpos (by omega) (by omega)
    rw [← hw, Nat.add_sub_cancel] at this
    omega
