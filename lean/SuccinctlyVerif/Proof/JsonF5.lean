/-
Proof/JsonF5 — the finding F5 on the model: after `"\uD800\u0` no continuation is a valid text,
yet the validator reports `"\uD800A"` only at offset 13.
-/
import SuccinctlyVerif.Proof.JsonComplete
namespace SV.Json.Model
open SV.Json
set_option linter.unusedSimpArgs false
set_option linter.unusedVariables false

def Res.isOk {α : Type} : Res α → Bool
  | .ok _ _ => true
  | _ => false

def Res.err? {α : Type} : Res α → Option Err
  | .err e => some e
  | _ => none

theorem Res.isOk_iff {α : Type} (r : Res α) : r.isOk = true ↔ ∃ a s, r = .ok a s := by
  cases r <;> simp [Res.isOk]

theorem hexVal_lt (b : Byte) : hexVal b < 16 := by
  unfold hexVal
  split
  · rename_i h; simp [isDigit] at h; obtain ⟨h1, h2⟩ := h; bv_omega
  · split
    · rename_i h; simp [isLowerHex] at h; obtain ⟨h1, h2⟩ := h; bv_omega
    · split
      · rename_i h; simp [isUpperHex] at h; obtain ⟨h1, h2⟩ := h; bv_omega
      · omega

/-- `\uD800\u0…` is not the beginning of any escape sequence. -/
theorem no_esc_D800_u0 (e r t : Bytes) (he : EscSeq e)
    (h : e ++ r = [0x5C, 0x75, 0x44, 0x38, 0x30, 0x30, 0x5C, 0x75, 0x30] ++ t) : False := by
  cases he with
  | simple c hc =>
    simp at h
    obtain ⟨rfl, _⟩ := h
    revert hc; decide
  | uni a b c d h1 h2 h3 h4 h5 h6 =>
    simp at h
    obtain ⟨rfl, rfl, rfl, rfl, _⟩ := h
    revert h5; decide
  | pair a b c d a' b' c' d' h1 h2 h3 h4 h1' h2' h3' h4' h5 h6 =>
    simp at h
    obtain ⟨rfl, rfl, rfl, rfl, rfl, _⟩ := h
    have hb := hexVal_lt b'; have hc := hexVal_lt c'; have hd := hexVal_lt d'
    have h0 : hexVal (0x30 : Byte) = 0 := by decide
    have hlt : ∀ x : Byte, hexVal x = 0 → hex4 x b' c' d' < 0x1000 := by
      intro x hx; simp only [hex4, hx]; omega
    have := hlt (48#8) (by decide)
    simp only [isLowSurr, Bool.and_eq_true, decide_eq_true_eq] at h6
    omega

theorem stringLoop_ok_escape {f : Nat} {s s' : St} {u : Unit} (h : stringLoop f s = .ok u s')
    (hp : s.peek = some 0x5C) : ∃ u1 s1, validateEscape s = .ok u1 s1 := by
  cases f with
  | zero => simp [stringLoop] at h
  | succ f =>
    unfold stringLoop at h
    simp [hp] at h
    split at h
    · rename_i u1 s1 h1; exact ⟨u1, s1, h1⟩
    · rename_i hne; exact absurd h (by intro hh; exact hne _ _ hh)

theorem skipWs_id {s : St} {c : Byte} {r : Bytes} (hr : s.rest = c :: r) (hc : isWs c = false) :
    s.skipWs = s := by
  have h1 : c ≠ 0x20 := by intro e; subst e; simp [isWs] at hc
  have h2 : c ≠ 0x09 := by intro e; subst e; simp [isWs] at hc
  have h3 : c ≠ 0x0A := by intro e; subst e; simp [isWs] at hc
  have h4 : c ≠ 0x0D := by intro e; subst e; simp [isWs] at hc
  cases s
  simp at hr
  subst hr
  simp only [St.skipWs, skipWsL, Bool.false_eq_true, false_and, if_false,
    if_neg (not_or.mpr ⟨h1, h2⟩), if_neg h3, if_neg h4]

/-- No valid text starts with `"\uD800\u0`. -/
theorem f5_not_valid (max : Nat) (t : Bytes) :
    ¬ Valid max ([0x22, 0x5C, 0x75, 0x44, 0x38, 0x30, 0x30, 0x5C, 0x75, 0x30] ++ t) := by
  intro hv
  obtain ⟨sf, hok⟩ := validate_complete max _ hv
  unfold validate at hok
  have hr0 : (St.init ([0x22, 0x5C, 0x75, 0x44, 0x38, 0x30, 0x30, 0x5C, 0x75, 0x30] ++ t)).rest
      = 0x22 :: ([0x5C, 0x75, 0x44, 0x38, 0x30, 0x30, 0x5C, 0x75, 0x30] ++ t) := rfl
  rw [skipWs_id hr0 (by decide)] at hok
  have ne : (St.init ([0x22, 0x5C, 0x75, 0x44, 0x38, 0x30, 0x30, 0x5C, 0x75, 0x30] ++ t)).isEof = false := rfl
  simp only [ne, Bool.false_eq_true, if_false] at hok
  have hfuel : 2 * ([0x22, 0x5C, 0x75, 0x44, 0x38, 0x30, 0x30, 0x5C, 0x75, 0x30] ++ t : Bytes).length + 2
      = (2 * ([0x22, 0x5C, 0x75, 0x44, 0x38, 0x30, 0x30, 0x5C, 0x75, 0x30] ++ t : Bytes).length + 1) + 1 := by omega
  rw [hfuel, run_value_string (peek_cons hr0)] at hok
  split at hok
  · rename_i u1 s1 h1
    unfold validateString at h1
    have ha := advance_cons hr0
    obtain ⟨u2, s2, h2⟩ := stringLoop_ok_escape h1 (peek_cons ha.1)
    obtain ⟨e, he, adv⟩ := escape_sound (peek_cons ha.1) h2
    exact no_esc_D800_u0 e s2.rest t he (by rw [← adv.1, ha.1])
  · rename_i hne
    exact absurd hok (by intro hh; exact hne _ _ hh)

/-- F5 on the model: `"\uD800A"` is reported at offset 13 (line 1, column 14) … -/
theorem f5_model :
    (validate 128 [0x22, 0x5C, 0x75, 0x44, 0x38, 0x30, 0x30, 0x5C, 0x75, 0x30, 0x30, 0x34, 0x31, 0x22]).err?
      = some ⟨.unpairedSurrogate 0xD800, 13, 1, 14⟩ := by decide +kernel

/-- … but already the first 10 bytes cannot be extended to a valid text, … -/
theorem f5_prefix10_not_viable (max : Nat) :
    ¬ Viable max [0x22, 0x5C, 0x75, 0x44, 0x38, 0x30, 0x30, 0x5C, 0x75, 0x30] := by
  rintro ⟨s, hs⟩; exact f5_not_valid max s hs

/-- … while the first 9 bytes can (`"𐀀"`). -/
theorem f5_prefix9_viable :
    Viable 128 [0x22, 0x5C, 0x75, 0x44, 0x38, 0x30, 0x30, 0x5C, 0x75] := by
  refine ⟨[0x44, 0x43, 0x30, 0x30, 0x22], ?_⟩
  have h : (validate 128 ([0x22, 0x5C, 0x75, 0x44, 0x38, 0x30, 0x30, 0x5C, 0x75] ++ [0x44, 0x43, 0x30, 0x30, 0x22])).isOk = true := by
    decide +kernel
  obtain ⟨a, s, hs⟩ := (Res.isOk_iff _).mp h
  exact validate_sound 128 _ s a hs

end SV.Json.Model
