/-
Proof/YamlChunked — generic lemmas about chunked SIMD scans as modelled in Model/YamlSimd:
`movemask`/`ctz32`/`not32`/"clear lowest set bit" against the list of lanes, one-chunk steps of a
"first matching byte" scan and of a "count leading matches" scan, and the chunk loops built from
them.  (C09/C13 own a `Proof/Chunked.lean`; this file is self-contained and can be unified later.)
-/
import SuccinctlyVerif.Model.YamlSimd
namespace SV.Yaml

/-- A statement about all 256 byte values follows from its 256 instances. -/
theorem byte_forall (P : Byte → Prop) (h : ∀ i : Fin 256, P (BitVec.ofFin i)) : ∀ x : Byte, P x := by
  intro x; exact h x.toFin

/-! ### lane lemmas: most significant bit of the lane DAG = scalar predicate, for every byte -/

theorem laneQuoteOrEsc_msb : ∀ x : Byte, (laneQuoteOrEsc x).msb = isQuoteOrEsc x := by
  apply byte_forall; decide +kernel
theorem laneSingleQuote_msb : ∀ x : Byte, (laneSingleQuote x).msb = isSingleQuote x := by
  apply byte_forall; decide +kernel
theorem laneSpace_msb : ∀ x : Byte, (laneSpace x).msb = isSpace x := by
  apply byte_forall; decide +kernel
theorem laneNewline_msb : ∀ x : Byte, (laneNewline x).msb = isLF x := by
  apply byte_forall; decide +kernel
theorem laneBreak_msb : ∀ x : Byte, (laneBreak x).msb = isBreak x := by
  apply byte_forall; decide +kernel
theorem laneAnchorDefinite_msb : ∀ x : Byte, (laneAnchorDefinite x).msb = isAnchorStop x := by
  apply byte_forall; decide +kernel
theorem laneColon_msb : ∀ x : Byte, (laneColon x).msb = isColon x := by
  apply byte_forall; decide +kernel
/-- `cmpeq c` for every comparison byte `c` and every lane byte: 65536 cases, by structure. -/
theorem cmpeq_msb (c x : Byte) : (cmpeq c x).msb = (x == c) := by
  unfold cmpeq; split <;> simp_all <;> decide

end SV.Yaml
