/-
Proof/YamlChunked — generic lemmas about chunked SIMD scans as modelled in Model/YamlSimd:
`movemask`/`ctz32`/`not32`/"clear lowest set bit" against the list of lanes, one-chunk steps of a
"first matching byte" scan and of a "count leading matches" scan, and the chunk loops built from
them.  (C09/C13 own a `Proof/Chunked.lean`; this file is self-contained and can be unified later.)
-/
import SuccinctlyVerif.Model.YamlSimd
namespace SV.YamlK

/-- A statement about all 256 byte values follows from its 256 instances. -/
theorem byte_forall (P : Byte → Prop) (h : ∀ i : Fin 256, P (BitVec.ofFin i)) : ∀ x : Byte, P x := by
  intro x; exact h x.toFin

/-! ### lane lemmas: most significant bit of the lane DAG = scalar predicate, for every byte -/

theorem laneQuoteOrEsc_msb : ∀ x : Byte, (laneQuoteOrEsc x).msb = isQuoteOrEsc x := by
  apply byte_forall; decide +kernel
theorem laneSingleQuote_msb : ∀ x : Byte, (laneSingleQuote x).msb = isSingleQuote x := by
  apply byte_forall; decide +kernel
theorem laneSpace_msb : ∀ x : Byte, (laneSpace x).msb = isSpace x := by
  apply byte_forall; decide +kernel
theorem laneNewline_msb : ∀ x : Byte, (laneNewline x).msb = isLF x := by
  apply byte_forall; decide +kernel
theorem laneBreak_msb : ∀ x : Byte, (laneBreak x).msb = isBreak x := by
  apply byte_forall; decide +kernel
theorem laneAnchorDefinite_msb : ∀ x : Byte, (laneAnchorDefinite x).msb = isAnchorStop x := by
  apply byte_forall; decide +kernel
theorem laneColon_msb : ∀ x : Byte, (laneColon x).msb = isColon x := by
  apply byte_forall; decide +kernel
/-- `cmpeq c` for every comparison byte `c` and every lane byte: 65536 cases, by structure. -/
theorem cmpeq_msb (c x : Byte) : (cmpeq c x).msb = (x == c) := by
  unfold cmpeq; split <;> simp_all <;> decide

/-! ### masks against lists of lanes -/

theorem ctzGo_succ (f m : Nat) : ctzGo (f+1) m = if m % 2 = 1 then 0 else 1 + ctzGo f (m/2) := rfl
theorem movemask_cons (l : Byte) (ls : List Byte) :
    movemask (l :: ls) = (if l.msb then 1 else 0) + 2 * movemask ls := rfl
theorem movemask_nil : movemask [] = 0 := rfl

theorem movemask_lt (lanes : List Byte) : movemask lanes < 2 ^ lanes.length := by
  induction lanes with
  | nil => simp [movemask_nil]
  | cons l ls ih =>
    rw [movemask_cons, List.length_cons, Nat.pow_succ]
    split <;> omega

theorem movemask_eq_zero (lanes : List Byte) : movemask lanes = 0 ↔ ∀ l ∈ lanes, l.msb = false := by
  induction lanes with
  | nil => simp [movemask_nil]
  | cons l ls ih =>
    rw [movemask_cons]
    simp only [List.mem_cons, forall_eq_or_imp]
    rw [← ih]
    cases h : l.msb <;> simp <;> omega

theorem ctzGo_movemask (lanes : List Byte) : ∀ f, lanes.length ≤ f → movemask lanes ≠ 0 →
    ctzGo f (movemask lanes) = lanes.findIdx (·.msb) := by
  induction lanes with
  | nil => intro f _ h; simp [movemask_nil] at h
  | cons l ls ih =>
    intro f hf hne
    cases f with
    | zero => simp at hf
    | succ f =>
      rw [movemask_cons, ctzGo_succ, List.findIdx_cons]
      rw [movemask_cons] at hne
      cases h : l.msb
      · simp only [h] at hne
        have hne' : movemask ls ≠ 0 := by simp at hne; omega
        have := ih f (by simpa using hf) hne'
        simp only [Bool.false_eq_true, if_false, Nat.zero_add, cond_false]
        rw [if_neg (by omega)]
        rw [show 2 * movemask ls / 2 = movemask ls by omega, this]; omega
      · simp only [if_true, cond_true]
        rw [if_pos (by omega)]

theorem movemask_allOnes (lanes : List Byte) :
    movemask lanes = allOnes lanes.length ↔ ∀ l ∈ lanes, l.msb = true := by
  unfold allOnes
  induction lanes with
  | nil => simp [movemask_nil]
  | cons l ls ih =>
    rw [movemask_cons, List.length_cons, Nat.pow_succ]
    simp only [List.mem_cons, forall_eq_or_imp]
    rw [← ih]
    have := movemask_lt ls
    have : 0 < 2 ^ ls.length := Nat.pow_pos (by decide)
    cases h : l.msb <;> simp <;> omega

/-- `(!mask).trailing_zeros()` = index of the first lane that did not match. -/
theorem ctzGo_not_movemask (lanes : List Byte) : ∀ n f, lanes.length ≤ n → n ≤ f →
    (∃ l ∈ lanes, l.msb = false) →
    ctzGo f (2 ^ n - 1 - movemask lanes) = lanes.findIdx (fun l => !l.msb) := by
  induction lanes with
  | nil => intro n f _ _ h; simp at h
  | cons l ls ih =>
    intro n f hn hf hex
    cases n with
    | zero => simp at hn
    | succ n =>
    cases f with
    | zero => simp at hf
    | succ f =>
      have hlt := movemask_lt ls
      have hpow : 2 ^ ls.length ≤ 2 ^ n := Nat.pow_le_pow_right (by decide) (by simpa using hn)
      rw [movemask_cons, ctzGo_succ, List.findIdx_cons, Nat.pow_succ]
      cases h : l.msb
      · simp only [Bool.false_eq_true, if_false, Nat.zero_add, Bool.not_false, cond_true]
        rw [if_pos (by omega)]
      · have hex' : ∃ l ∈ ls, l.msb = false := by
          rcases hex with ⟨x, hx, hx2⟩
          rcases List.mem_cons.mp hx with rfl | hx
          · simp [h] at hx2
          · exact ⟨x, hx, hx2⟩
        have := ih n f (by simpa using hn) (by omega) hex'
        simp only [if_true, Bool.not_true, cond_false]
        rw [if_neg (by omega)]
        rw [show (2 ^ n * 2 - 1 - (1 + 2 * movemask ls)) / 2 = 2 ^ n - 1 - movemask ls by omega, this]
        omega


/-! ### "first matching byte" scans -/

theorem ctz32_lanes (lane : Byte → Byte) (p : Byte → Bool) (hl : ∀ x, (lane x).msb = p x)
    (chunk : List Byte) (hW : chunk.length ≤ 32) (hne : movemask (chunk.map lane) ≠ 0) :
    ctz32 (movemask (chunk.map lane)) = chunk.findIdx p := by
  unfold ctz32
  rw [ctzGo_movemask _ 32 (by simpa using hW) hne]
  have hcomp : ((fun x : Byte => x.msb) ∘ lane) = p := funext hl
  clear hW hne
  induction chunk with
  | nil => rfl
  | cons c cs ih => simp [List.findIdx_cons, hl, hcomp]

theorem movemask_map_eq_zero (lane : Byte → Byte) (p : Byte → Bool) (hl : ∀ x, (lane x).msb = p x)
    (chunk : List Byte) : movemask (chunk.map lane) = 0 ↔ ∀ x ∈ chunk, p x = false := by
  rw [movemask_eq_zero]; simp [hl]

/-- One `W`-byte step of a "first matching byte" scan. -/
theorem findStep (lane : Byte → Byte) (p : Byte → Bool) (hl : ∀ x, (lane x).msb = p x)
    (W : Nat) (hW : W ≤ 32) (rest : List Byte) (off : Nat) (hlen : W ≤ rest.length) :
    (if movemask ((rest.take W).map lane) ≠ 0
      then some (off + ctz32 (movemask ((rest.take W).map lane)))
      else findTail p (rest.drop W) (off + W)) = findTail p rest off := by
  unfold findTail
  have hsplit : rest = rest.take W ++ rest.drop W := (List.take_append_drop W rest).symm
  have htl : (rest.take W).length = W := by simp [List.length_take]; omega
  split
  · rename_i hne
    rw [ctz32_lanes lane p hl _ (by omega) hne]
    have hex : ∃ x ∈ rest.take W, p x = true := by
      have := mt (movemask_map_eq_zero lane p hl (rest.take W)).mpr hne
      simp at this; simpa using this
    conv => rhs; rw [hsplit, List.findIdx?_append]
    rw [List.findIdx?_eq_some_of_exists hex]; simp
  · rename_i heq
    have heq : movemask ((rest.take W).map lane) = 0 := by simpa using heq
    have hall := (movemask_map_eq_zero lane p hl _).mp heq
    conv => rhs; rw [hsplit, List.findIdx?_append]
    have : List.findIdx? p (rest.take W) = none := by
      rw [List.findIdx?_eq_none_iff]; exact hall
    rw [this, htl]
    cases List.findIdx? p (rest.drop W) <;> simp; omega

theorem findMain_succ (lane : Byte → Byte) (W fuel : Nat) (rest : List Byte) (off : Nat) :
    findMain lane W (fuel + 1) rest off =
      if W ≤ rest.length then
        if movemask ((rest.take W).map lane) ≠ 0
          then .inl (some (off + ctz32 (movemask ((rest.take W).map lane))))
          else findMain lane W fuel (rest.drop W) (off + W)
      else .inr (rest, off) := rfl

/-- Whatever the main loop does, finishing with a correct tail finder gives the scalar answer. -/
theorem findMain_correct (lane : Byte → Byte) (p : Byte → Bool) (hl : ∀ x, (lane x).msb = p x)
    (W : Nat) (hW : W ≤ 32) : ∀ (fuel : Nat) (rest : List Byte) (off : Nat),
    (match findMain lane W fuel rest off with
      | .inl r => r
      | .inr (rest', off') => findTail p rest' off') = findTail p rest off := by
  intro fuel
  induction fuel with
  | zero => intro rest off; rfl
  | succ fuel ih =>
    intro rest off
    rw [findMain_succ]
    by_cases hlen : W ≤ rest.length
    · rw [if_pos hlen]
      have hs := findStep lane p hl W hW rest off hlen
      by_cases hne : movemask ((rest.take W).map lane) ≠ 0
      · rw [if_pos hne] at hs; simp only [if_pos hne]; exact hs
      · rw [if_neg hne] at hs; simp only [if_neg hne]; rw [ih]; exact hs
    · rw [if_neg hlen]

/-- The main loop leaves fewer than `W` bytes when given enough fuel (it is the `while` loop). -/
theorem findMain_runs_out (lane : Byte → Byte) (W : Nat) (hW : 0 < W) :
    ∀ (fuel : Nat) (rest : List Byte) (off : Nat), rest.length < fuel →
    ∀ rest' off', findMain lane W fuel rest off = .inr (rest', off') → rest'.length < W := by
  intro fuel
  induction fuel with
  | zero => intro rest off h; omega
  | succ fuel ih =>
    intro rest off hf rest' off' h
    rw [findMain_succ] at h
    by_cases hlen : W ≤ rest.length
    · rw [if_pos hlen] at h
      by_cases hne : movemask ((rest.take W).map lane) ≠ 0
      · rw [if_pos hne] at h; cases h
      · rw [if_neg hne] at h
        exact ih _ _ (by simp [List.length_drop]; omega) _ _ h
    · rw [if_neg hlen] at h; cases h; omega

theorem findTail_zero (p : Byte → Bool) (data : List Byte) : findTail p data 0 = data.findIdx? p := by
  unfold findTail; cases data.findIdx? p <;> simp

theorem findSse2_eq (lane : Byte → Byte) (p : Byte → Bool) (hl : ∀ x, (lane x).msb = p x)
    (data : List Byte) : findSse2 lane p data = data.findIdx? p := by
  unfold findSse2
  rw [← findTail_zero, ← findMain_correct lane p hl 16 (by decide) (data.length + 1) data 0]
  split <;> simp_all

theorem findAvx2_eq (lane : Byte → Byte) (p : Byte → Bool) (hl : ∀ x, (lane x).msb = p x)
    (data : List Byte) : findAvx2 lane p data = data.findIdx? p := by
  unfold findAvx2
  rw [← findTail_zero, ← findMain_correct lane p hl 32 (by decide) (data.length + 1) data 0]
  split
  · simp_all
  · rename_i rest off heq
    simp only [heq]
    split
    · rename_i hlen
      exact findStep lane p hl 16 (by decide) rest off hlen
    · rfl

theorem findAt_eq (lvl : Level) (lane : Byte → Byte) (p : Byte → Bool) (hl : ∀ x, (lane x).msb = p x)
    (data : List Byte) : findAt lvl lane p data = data.findIdx? p := by
  cases lvl
  · exact findAvx2_eq lane p hl data
  · exact findSse2_eq lane p hl data
  · rfl

/-! ### "count leading matches" scans -/

theorem twl_append_ex {p : Byte → Bool} (a b : List Byte) (h : ∃ x ∈ a, p x = false) :
    ((a ++ b).takeWhile p).length = (a.takeWhile p).length := by
  induction a with
  | nil => simp at h
  | cons x xs ih =>
    simp only [List.cons_append, List.takeWhile_cons]
    cases hx : p x
    · simp
    · simp only [if_true, List.length_cons]
      rcases h with ⟨y, hy, hy2⟩
      rcases List.mem_cons.mp hy with rfl | hy
      · simp [hx] at hy2
      · rw [ih ⟨y, hy, hy2⟩]

theorem twl_append_all {p : Byte → Bool} (a b : List Byte) (h : ∀ x ∈ a, p x = true) :
    ((a ++ b).takeWhile p).length = a.length + (b.takeWhile p).length := by
  induction a with
  | nil => simp
  | cons x xs ih =>
    simp only [List.cons_append, List.takeWhile_cons]
    have hx : p x = true := h x (by simp)
    simp only [hx, if_true, List.length_cons]
    rw [ih (fun y hy => h y (by simp [hy]))]; omega

theorem twl_eq_findIdx {p : Byte → Bool} (a : List Byte) :
    (a.takeWhile p).length = a.findIdx (fun x => !p x) := by
  induction a with
  | nil => rfl
  | cons x xs ih =>
    simp only [List.takeWhile_cons, List.findIdx_cons]
    cases hx : p x <;> simp [ih]

theorem ctz32_not_lanes (chunk : List Byte) (hW : chunk.length ≤ 32)
    (hex : ∃ x ∈ chunk, isSpace x = false) :
    ctz32 (not32 (movemask (chunk.map laneSpace))) = (chunk.takeWhile isSpace).length := by
  unfold ctz32 not32
  have h32 : (0xFFFFFFFF : Nat) = 2 ^ 32 - 1 := by decide
  rw [h32, ctzGo_not_movemask _ 32 32 (by simpa using hW) (by decide)
    (by rcases hex with ⟨x, hx, hx2⟩; exact ⟨laneSpace x, List.mem_map.mpr ⟨x, hx, rfl⟩, by rw [laneSpace_msb]; exact hx2⟩)]
  rw [twl_eq_findIdx]
  have hcomp : ((fun l : Byte => !l.msb) ∘ laneSpace) = (fun x => !isSpace x) := by
    funext x; simp [laneSpace_msb]
  clear hW hex
  induction chunk with
  | nil => rfl
  | cons c cs ih => simp [List.findIdx_cons, laneSpace_msb, hcomp]

/-- One `W`-byte step of `count_leading_spaces`. -/
theorem countStep (W : Nat) (hW : W ≤ 32) (rest : List Byte) (off : Nat) (hlen : W ≤ rest.length) :
    (if movemask ((rest.take W).map laneSpace) ≠ allOnes W
      then off + ctz32 (not32 (movemask ((rest.take W).map laneSpace)))
      else countTail (rest.drop W) (off + W)) = countTail rest off := by
  unfold countTail
  have hsplit : rest = rest.take W ++ rest.drop W := (List.take_append_drop W rest).symm
  have htl : (rest.take W).length = W := by simp [List.length_take]; omega
  have hml : ((rest.take W).map laneSpace).length = W := by rw [List.length_map]; exact htl
  have hiff := movemask_allOnes ((rest.take W).map laneSpace)
  rw [hml] at hiff
  have hall_iff : (∀ l ∈ (rest.take W).map laneSpace, l.msb = true) ↔
      ∀ x ∈ rest.take W, isSpace x = true := by
    simp only [List.forall_mem_map, laneSpace_msb]
  split
  · rename_i hne
    have hex : ∃ x ∈ rest.take W, isSpace x = false := by
      have hn := mt (fun h => hiff.mpr (hall_iff.mpr h)) hne
      exact Classical.byContradiction (fun hc => hn (fun x hx => by
        cases h : isSpace x
        · exact absurd ⟨x, hx, h⟩ hc
        · rfl))
    rw [ctz32_not_lanes _ (by omega) hex]
    conv => rhs; rw [hsplit, twl_append_ex _ _ hex]
  · rename_i heq
    have heq : movemask ((rest.take W).map laneSpace) = allOnes W := by simpa using heq
    have hall : ∀ x ∈ rest.take W, isSpace x = true := hall_iff.mp (hiff.mp heq)
    conv => rhs; rw [hsplit, twl_append_all _ _ hall, htl]
    omega

theorem countMain_succ (W fuel : Nat) (rest : List Byte) (off : Nat) :
    countMain W (fuel + 1) rest off =
      if W ≤ rest.length then
        if movemask ((rest.take W).map laneSpace) ≠ allOnes W
          then .inl (off + ctz32 (not32 (movemask ((rest.take W).map laneSpace))))
          else countMain W fuel (rest.drop W) (off + W)
      else .inr (rest, off) := rfl

theorem countMain_correct (W : Nat) (hW : W ≤ 32) : ∀ (fuel : Nat) (rest : List Byte) (off : Nat),
    (match countMain W fuel rest off with
      | .inl r => r
      | .inr (rest', off') => countTail rest' off') = countTail rest off := by
  intro fuel
  induction fuel with
  | zero => intro rest off; rfl
  | succ fuel ih =>
    intro rest off
    rw [countMain_succ]
    by_cases hlen : W ≤ rest.length
    · rw [if_pos hlen]
      have hs := countStep W hW rest off hlen
      by_cases hne : movemask ((rest.take W).map laneSpace) ≠ allOnes W
      · rw [if_pos hne] at hs; simp only [if_pos hne]; exact hs
      · rw [if_neg hne] at hs; simp only [if_neg hne]; rw [ih]; exact hs
    · rw [if_neg hlen]

theorem countSse2_eq (data : List Byte) : countSse2 data = (data.takeWhile isSpace).length := by
  unfold countSse2
  have := countMain_correct 16 (by decide) (data.length + 1) data 0
  unfold countTail at this ⊢
  rw [show (data.takeWhile isSpace).length = 0 + (data.takeWhile isSpace).length by omega, ← this]
  split <;> simp_all

theorem countAvx2_eq (data : List Byte) : countAvx2 data = (data.takeWhile isSpace).length := by
  unfold countAvx2
  have := countMain_correct 32 (by decide) (data.length + 1) data 0
  rw [show (data.takeWhile isSpace).length = countTail data 0 by unfold countTail; omega, ← this]
  split
  · simp_all
  · rename_i rest off heq
    simp only [heq]
    split
    · rename_i hlen
      exact countStep 16 (by decide) rest off hlen
    · rfl


/-! ### mask bits, `|` of masks, `(mask >> i) & 1` -/

theorem testBit_movemask (lanes : List Byte) : ∀ i, (movemask lanes).testBit i =
    (match lanes[i]? with | some l => l.msb | none => false) := by
  induction lanes with
  | nil => intro i; simp [movemask_nil]
  | cons l ls ih =>
    intro i
    rw [movemask_cons]
    cases i with
    | zero =>
      rw [Nat.testBit_zero]
      cases h : l.msb <;> simp <;> omega
    | succ i =>
      rw [Nat.testBit_succ]
      have : ((if l.msb = true then 1 else 0) + 2 * movemask ls) / 2 = movemask ls := by
        split <;> omega
      rw [this, ih i]; simp

theorem movemask_or (l1 l2 : Byte → Byte) (chunk : List Byte) :
    movemask (chunk.map l1) ||| movemask (chunk.map l2) =
      movemask (chunk.map fun x => por (l1 x) (l2 x)) := by
  apply Nat.eq_of_testBit_eq
  intro i
  rw [Nat.testBit_or, testBit_movemask, testBit_movemask, testBit_movemask]
  simp only [List.getElem?_map]
  cases chunk[i]? <;> simp [por, BitVec.msb_or]

theorem shr_and_one (m i : Nat) : ((m >>> i) &&& 1 ≠ 0) ↔ m.testBit i = true := by
  unfold Nat.testBit
  rw [Nat.and_comm]; simp


/-! ### `while mask != 0 { ctz; …; mask &= mask - 1 }` visits the set lanes in ascending order -/

theorem ctzGo_pow_mul_odd (m : Nat) : ∀ k f, k < f → ctzGo f (2 ^ k * (1 + 2 * m)) = k := by
  intro k
  induction k with
  | zero =>
    intro f hf
    cases f with
    | zero => omega
    | succ f => rw [ctzGo_succ, if_pos (by simp)]
  | succ k ih =>
    intro f hf
    cases f with
    | zero => omega
    | succ f =>
      rw [ctzGo_succ, Nat.pow_succ]
      have h2 : 2 ^ k * 2 * (1 + 2 * m) = 2 * (2 ^ k * (1 + 2 * m)) := by
        rw [Nat.mul_comm (2 ^ k) 2, Nat.mul_assoc]
      rw [h2, if_neg (by omega), show 2 * (2 ^ k * (1 + 2 * m)) / 2 = 2 ^ k * (1 + 2 * m) by omega,
        ih f (by omega)]
      omega

theorem and_pred_double (y : Nat) (hy : 0 < y) : (2 * y) &&& (2 * y - 1) = 2 * (y &&& (y - 1)) := by
  apply Nat.eq_of_testBit_eq
  intro i
  cases i with
  | zero =>
    rw [Nat.testBit_and, Nat.testBit_zero, Nat.testBit_zero, Nat.testBit_zero]
    have h1 : 2 * y % 2 = 0 := by omega
    have h2 : 2 * (y &&& y - 1) % 2 = 0 := by omega
    rw [h1, h2]; simp
  | succ i =>
    rw [Nat.testBit_and, Nat.testBit_succ, Nat.testBit_succ, Nat.testBit_succ]
    rw [show 2 * y / 2 = y by omega, show (2 * y - 1) / 2 = y - 1 by omega,
      show 2 * (y &&& y - 1) / 2 = (y &&& y - 1) by omega, Nat.testBit_and]

theorem and_pred_odd (m : Nat) : (1 + 2 * m) &&& (1 + 2 * m - 1) = 2 * m := by
  apply Nat.eq_of_testBit_eq
  intro i
  cases i with
  | zero =>
    rw [Nat.testBit_and, Nat.testBit_zero, Nat.testBit_zero, Nat.testBit_zero]
    simp
  | succ i =>
    rw [Nat.testBit_and, Nat.testBit_succ, Nat.testBit_succ, Nat.testBit_succ]
    rw [show (1 + 2 * m) / 2 = m by omega, show (1 + 2 * m - 1) / 2 = m by omega,
      show 2 * m / 2 = m by omega]
    simp

/-- `mask &= mask - 1` clears the lowest set bit. -/
theorem clear_lowest (m : Nat) : ∀ k, (2 ^ k * (1 + 2 * m)) &&& (2 ^ k * (1 + 2 * m) - 1) = 2 ^ (k + 1) * m := by
  intro k
  induction k with
  | zero => simp only [Nat.pow_zero, Nat.one_mul, Nat.zero_add, Nat.pow_one]; exact and_pred_odd m
  | succ k ih =>
    have hpos : 0 < 2 ^ k * (1 + 2 * m) := Nat.mul_pos (Nat.pow_pos (by decide)) (by omega)
    have h2 : 2 ^ (k + 1) * (1 + 2 * m) = 2 * (2 ^ k * (1 + 2 * m)) := by
      rw [Nat.pow_succ, Nat.mul_comm (2 ^ k) 2, Nat.mul_assoc]
    rw [h2, and_pred_double _ hpos, ih]
    rw [show 2 ^ (k + 1 + 1) = 2 * 2 ^ (k + 1) by rw [Nat.pow_succ, Nat.mul_comm], Nat.mul_assoc]

/-- Visiting the set lanes of a chunk in ascending order (what the `while nl_mask != 0` loop does). -/
def laneLoop (test : Nat → Option Nat) (pos : Nat) : List Byte → Nat → Option Nat
  | [], _ => none
  | l :: ls, k =>
    if l.msb then
      match test (pos + k + 1) with
      | some r => some r
      | none => laneLoop test pos ls (k + 1)
    else laneLoop test pos ls (k + 1)

theorem nlMaskLoop_succ (test : Nat → Option Nat) (pos fuel m : Nat) :
    nlMaskLoop test pos (fuel + 1) m =
      if m = 0 then none
      else match test (pos + ctz32 m + 1) with
        | some r => some r
        | none => nlMaskLoop test pos fuel (m &&& (m - 1)) := rfl

theorem nlMaskLoop_lanes (test : Nat → Option Nat) (pos : Nat) (lanes : List Byte) :
    ∀ k fuel, lanes.length < fuel → k + lanes.length ≤ 32 →
    nlMaskLoop test pos fuel (2 ^ k * movemask lanes) = laneLoop test pos lanes k := by
  induction lanes with
  | nil =>
    intro k fuel hf _
    cases fuel with
    | zero => simp at hf
    | succ fuel => rw [nlMaskLoop_succ, movemask_nil, Nat.mul_zero, if_pos rfl]; rfl
  | cons l ls ih =>
    intro k fuel hf hk
    simp only [List.length_cons] at hf hk
    rw [movemask_cons]
    cases h : l.msb
    · simp only [Bool.false_eq_true, if_false, Nat.zero_add, laneLoop, h]
      rw [← ih (k + 1) fuel (by omega) (by omega), Nat.pow_succ, Nat.mul_assoc]
    · simp only [if_true, laneLoop, h]
      cases fuel with
      | zero => omega
      | succ fuel =>
        have hpos : 0 < 2 ^ k * (1 + 2 * movemask ls) := Nat.mul_pos (Nat.pow_pos (by decide)) (by omega)
        rw [nlMaskLoop_succ, if_neg (by omega)]
        have hc : ctz32 (2 ^ k * (1 + 2 * movemask ls)) = k := ctzGo_pow_mul_odd _ k 32 (by omega)
        rw [hc, clear_lowest, ih (k + 1) fuel (by omega) (by omega)]


end SV.YamlK
