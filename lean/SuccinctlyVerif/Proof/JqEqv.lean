/-
Proof/JqEqv — on duplicate-free values, "equal under jq's order" (`JV.cmp a b = .eq`) is jq's `==`
(`JV.eqv`). Needs: the sorted key list of an object is determined by its key *set* (insertion sort
gives a sorted permutation; sorted permutations of each other are equal), and a duplicate-free key
list contained in another of the same length is a permutation of it.
-/
import SuccinctlyVerif.Proof.JqOrder
import Batteries.Data.List.Perm
namespace SV.Jq

theorem insertKey_perm (k : String) (l : List String) : (JV.insertKey k l).Perm (k :: l) := by
  induction l with
  | nil => simp [JV.insertKey]
  | cons x xs ih =>
    simp only [JV.insertKey]
    split
    · exact ((List.Perm.cons x ih).trans (List.Perm.swap k x xs))
    · exact List.Perm.refl _

theorem sortKeys_perm (l : List String) : (JV.sortKeys l).Perm l := by
  induction l with
  | nil => simp [JV.sortKeys]
  | cons x xs ih =>
    have : JV.sortKeys (x :: xs) = JV.insertKey x (JV.sortKeys xs) := by simp [JV.sortKeys]
    rw [this]; exact (insertKey_perm x _).trans (List.Perm.cons x ih)

theorem insertKey_sorted (k : String) (l : List String) (h : l.Pairwise (· ≤ ·)) :
    (JV.insertKey k l).Pairwise (· ≤ ·) := by
  induction l with
  | nil => simp [JV.insertKey]
  | cons x xs ih =>
    have hx := (List.pairwise_cons.mp h).1
    have hxs := (List.pairwise_cons.mp h).2
    simp only [JV.insertKey]
    split
    · rename_i hlt
      have hlt' : x < k := by simpa [JV.strLt] using hlt
      refine List.pairwise_cons.mpr ⟨?_, ih hxs⟩
      intro b hb
      rcases (insertKey_mem k b xs).mp hb with rfl | hb
      · exact (String.le_total x b).resolve_right (fun hkx => absurd hlt' (String.not_lt.mpr hkx))
      · exact hx b hb
    · rename_i hnlt
      have hle : k ≤ x := by
        have : ¬ x < k := by simpa [JV.strLt] using hnlt
        exact String.not_lt.mp this
      refine List.pairwise_cons.mpr ⟨?_, h⟩
      intro b hb
      rcases List.mem_cons.mp hb with rfl | hb
      · exact hle
      · exact String.le_trans hle (hx b hb)

theorem sortKeys_sorted (l : List String) : (JV.sortKeys l).Pairwise (· ≤ ·) := by
  induction l with
  | nil => simp [JV.sortKeys]
  | cons x xs ih =>
    have : JV.sortKeys (x :: xs) = JV.insertKey x (JV.sortKeys xs) := by simp [JV.sortKeys]
    rw [this]; exact insertKey_sorted x _ ih

/-- sorted key lists of two permutations coincide -/
theorem sortKeys_eq_of_perm {l₁ l₂ : List String} (h : l₁.Perm l₂) : JV.sortKeys l₁ = JV.sortKeys l₂ :=
  List.Perm.eq_of_pairwise (le := (· ≤ ·)) (fun a b _ _ h1 h2 => String.le_antisymm h1 h2)
    (sortKeys_sorted l₁) (sortKeys_sorted l₂) ((sortKeys_perm l₁).trans (h.trans (sortKeys_perm l₂).symm))


section eqv
variable {N : Type} [NumOps N] [LawfulNum N]

theorem lookup_mem_keys {fs : List (String × JV N)} {k : String} {w : JV N} (h : JV.lookup fs k = some w) :
    k ∈ fs.map (·.1) := by
  induction fs with
  | nil => simp [JV.lookup] at h
  | cons f rest ih =>
    obtain ⟨k', v'⟩ := f
    simp only [JV.lookup] at h
    split at h
    · rename_i hk; simp at hk; simp [hk]
    · simp [ih h]

theorem eqvFields_iff (fs gs : List (String × JV N)) :
    eqvFields fs gs = true ↔ ∀ f ∈ fs, ∃ w, JV.lookup gs f.1 = some w ∧ JV.eqv f.2 w = true := by
  induction fs with
  | nil => simp [eqvFields]
  | cons f rest ih =>
    obtain ⟨k, v⟩ := f
    simp only [eqvFields, Bool.and_eq_true, ih, List.mem_cons, forall_eq_or_imp]
    constructor
    · rintro ⟨h1, h2⟩
      refine ⟨?_, h2⟩
      cases hl : JV.lookup gs k with
      | none => simp [hl] at h1
      | some w => simp [hl] at h1; exact ⟨w, rfl, h1⟩
    · rintro ⟨⟨w, hl, he⟩, h2⟩
      exact ⟨by simp [hl, he], h2⟩

theorem lex_map_eq_iff (K : List String) (a b : String → JV N) :
    lexCmp JV.cmp (K.map a) (K.map b) = .eq ↔ ∀ k ∈ K, JV.cmp (a k) (b k) = .eq := by
  induction K with
  | nil => simp [lexCmp]
  | cons k ks ih =>
    simp only [List.map_cons, lexCmp, List.mem_cons, forall_eq_or_imp, ← ih]
    cases JV.cmp (a k) (b k) <;> simp [Ordering.then]

theorem lexCmp_eq_iff_eqvArr (xs ys : List (JV N))
    (H : ∀ x ∈ xs, ∀ y ∈ ys, (JV.cmp x y = .eq ↔ JV.eqv x y = true)) :
    lexCmp JV.cmp xs ys = .eq ↔ eqvArr xs ys = true := by
  induction xs generalizing ys with
  | nil => cases ys <;> simp [lexCmp, eqvArr]
  | cons x xs ih =>
    cases ys with
    | nil => simp [lexCmp, eqvArr]
    | cons y ys =>
      have hxy := H x (by simp) y (by simp)
      have ih' := ih ys (fun a ha b hb => H a (by simp [ha]) b (by simp [hb]))
      simp only [lexCmp, eqvArr, Bool.and_eq_true, ← hxy, ← ih']
      cases JV.cmp x y <;> simp [Ordering.then]

theorem getF_of_mem {fs : List (String × JV N)} (hn : (fs.map (·.1)).Nodup) {f : String × JV N} (hf : f ∈ fs) :
    getF fs f.1 = f.2 := by simp [getF, lookup_of_nodup_mem hn hf]

/-- **on duplicate-free values, `cmp a b = .eq` is exactly jq's `==`** -/
theorem cmp_eq_iff_eqv_sized (n : Nat) : ∀ a b : JV N, Good n a → Good n b →
    (JV.cmp a b = .eq ↔ JV.eqv a b = true) := by
  induction n with
  | zero => intro a b ha; cases a <;> simp [Good, JV.size] at ha <;> omega
  | succ n ih =>
    intro a b ha hb
    by_cases hr : a.rank = b.rank
    · rcases same_kind_of_rank_eq a b hr with ⟨rfl, rfl⟩ | ⟨x, rfl, rfl⟩ | ⟨x, y, rfl, rfl⟩ | ⟨x, y, rfl, rfl⟩ |
        ⟨xs, ys, rfl, rfl⟩ | ⟨fs, gs, rfl, rfl⟩
      · simp [JV.cmp, JV.eqv]
      · cases x <;> simp [JV.cmp, JV.eqv, compare, compareOfLessAndEq]
      · simp [JV.cmp, JV.eqv, LawfulNum.eq_iff_cmp]
      · simp [JV.cmp, JV.eqv, strCmp_eq_iff]
      · simp only [JV.cmp, JV.eqv, cmpArr_eq_lexCmp]
        exact lexCmp_eq_iff_eqvArr xs ys (fun x hx y hy => ih x y (good_elems ha x hx) (good_elems hb y hy))
      · have hnf := ha.1.1
        have hng := hb.1.1
        rw [cmp_obj fs gs hnf]
        simp only [JV.eqv, Bool.and_eq_true, beq_iff_eq, eqvFields_iff]
        have goodF : ∀ f ∈ fs, Good n f.2 := by
          intro f hf
          have h := good_vals ha (getF fs f.1) (List.mem_map.mpr ⟨f.1, (sortKeys_mem _ _).mpr (List.mem_map_of_mem (f := (·.1)) hf), rfl⟩)
          rwa [getF_of_mem hnf hf] at h
        have goodG : ∀ k w, JV.lookup gs k = some w → Good n w := by
          intro k w hl
          have h := good_vals hb (getF gs k) (List.mem_map.mpr ⟨k, (sortKeys_mem _ _).mpr (lookup_mem_keys hl), rfl⟩)
          simpa [getF, hl] using h
        constructor
        · intro hc
          cases hk : JV.cmpKeys (keysOf fs) (keysOf gs) with
          | lt => simp [hk] at hc
          | gt => simp [hk] at hc
          | eq =>
            simp only [hk] at hc
            have hke : keysOf fs = keysOf gs := (cmpKeys_eq_iff _ _).mp hk
            have hall := (lex_map_eq_iff (keysOf fs) (getF fs) (getF gs)).mp hc
            refine ⟨?_, ?_⟩
            · have h1 := (sortKeys_perm (fs.map (·.1))).length_eq
              have h2 := (sortKeys_perm (gs.map (·.1))).length_eq
              simp only [keysOf] at hke
              rw [hke] at h1
              simpa using h1.symm.trans h2
            · intro f hf
              have hkf : f.1 ∈ keysOf fs := (sortKeys_mem _ _).mpr (List.mem_map_of_mem (f := (·.1)) hf)
              have hkg : f.1 ∈ gs.map (·.1) := (sortKeys_mem _ _).mp (by rw [keysOf] at hkf; rw [← show keysOf gs = JV.sortKeys (gs.map (·.1)) from rfl, ← hke]; exact hkf)
              obtain ⟨w, hw⟩ := lookup_some_of_mem hkg
              refine ⟨w, hw, ?_⟩
              have hcf := hall f.1 hkf
              rw [getF_of_mem hnf hf] at hcf
              simp only [getF, hw, Option.getD_some] at hcf
              exact (ih f.2 w (goodF f hf) (goodG f.1 w hw)).mp hcf
        · rintro ⟨hlen, hall⟩
          have hsub : fs.map (·.1) ⊆ gs.map (·.1) := by
            intro k hk
            obtain ⟨f, hf, rfl⟩ := List.mem_map.mp hk
            obtain ⟨w, hw, _⟩ := hall f hf
            exact lookup_mem_keys hw
          have hperm : (fs.map (·.1)).Perm (gs.map (·.1)) :=
            (List.subperm_of_subset hnf hsub).perm_of_length_le (by simp [hlen])
          have hke : keysOf fs = keysOf gs := sortKeys_eq_of_perm hperm
          have hk : JV.cmpKeys (keysOf fs) (keysOf gs) = .eq := (cmpKeys_eq_iff _ _).mpr hke
          simp only [hk]
          apply (lex_map_eq_iff (keysOf fs) (getF fs) (getF gs)).mpr
          intro k hkm
          have hkf : k ∈ fs.map (·.1) := (sortKeys_mem _ _).mp hkm
          obtain ⟨f, hf, rfl⟩ := List.mem_map.mp hkf
          obtain ⟨w, hw, he⟩ := hall f hf
          rw [getF_of_mem hnf hf]
          simp only [getF, hw, Option.getD_some]
          exact (ih f.2 w (goodF f hf) (goodG f.1 w hw)).mpr he
    · -- different kinds: never equal
      have hne : JV.cmp a b ≠ .eq := by
        rcases Nat.lt_or_gt_of_ne hr with h | h
        · rw [cmp_of_rank_lt a b h]; simp
        · rw [cmp_of_rank_gt a b h]; simp
      have hev : JV.eqv a b = false := by
        rcases a with _ | (_|_) | _ | _ | _ | _ <;> rcases b with _ | (_|_) | _ | _ | _ | _ <;>
          simp_all [JV.eqv, JV.rank]
      simp [hne, hev]

theorem cmp_eq_iff_eqv (a b : JV N) (ha : a.WF) (hb : b.WF) : JV.cmp a b = .eq ↔ JV.eqv a b = true :=
  cmp_eq_iff_eqv_sized (max a.size b.size) a b ⟨ha, Nat.le_max_left _ _⟩ ⟨hb, Nat.le_max_right _ _⟩

end eqv

end SV.Jq
