/-
Proof/JsonErrTok — when a token function fails, the bytes consumed up to the reported offset can
still be completed to a well-formed token (error offsets never exceed the longest viable prefix).
-/
import SuccinctlyVerif.Proof.JsonNumber
import SuccinctlyVerif.Proof.JsonString
namespace SV.Json.Model
open SV.Json
set_option linter.unusedSimpArgs false
set_option linter.unusedVariables false

/-- the prefix of `s.rest` up to the error offset extends to a text in `P` -/
def ErrAt (P : Bytes → Prop) (s : St) (e : Err) : Prop :=
  s.offset ≤ e.offset ∧ e.offset ≤ s.offset + s.rest.length ∧
    ∃ c, P (s.rest.take (e.offset - s.offset) ++ c)

/-- the two error kinds of the finding F5 -/
def SurrKind (k : Kind) : Prop :=
  (∃ cp, k = .unpairedSurrogate cp) ∨ (∃ r, k = .invalidUnicodeEscape r)

/-! ### working form: consumed bytes `v`, completion `c` -/

/-- `e` is reported after consuming a prefix `v` of `s.rest` that some `c` completes into `P`. -/
def ErrC (P : Bytes → Prop) (s : St) (e : Err) : Prop :=
  ∃ v r c, s.rest = v ++ r ∧ e.offset = s.offset + v.length ∧ P (v ++ c)

theorem ErrC.errAt {P : Bytes → Prop} {s : St} {e : Err} (h : ErrC P s e) : ErrAt P s e := by
  obtain ⟨v, r, c, h1, h2, h3⟩ := h
  refine ⟨by omega, by rw [h1, h2, List.length_append]; omega, c, ?_⟩
  have : e.offset - s.offset = v.length := by omega
  rw [this, h1]
  simpa using h3

theorem ErrC.here {P : Bytes → Prop} {s : St} {k : Kind} (c : Bytes) (h : P c) :
    ErrC P s (s.error k) :=
  ⟨[], s.rest, c, by simp, by simp [St.error], by simpa using h⟩

theorem ErrC.shift {P Q : Bytes → Prop} {s s1 : St} {w : Bytes} {e : Err} (ha : Adv s w s1)
    (h : ErrC Q s1 e) (hPQ : ∀ x, Q x → P (w ++ x)) : ErrC P s e := by
  obtain ⟨v, r, c, h1, h2, h3⟩ := h
  refine ⟨w ++ v, r, c, by rw [ha.1, h1]; simp, by rw [h2, ha.2.1]; simp; omega, ?_⟩
  simpa using hPQ _ h3

theorem digits_zero : Digits [0x30] := by
  intro b hb
  simp at hb
  subst hb
  decide

/-! ### numbers -/

theorem numInt_err {s : St} {e : Err} (h : numInt s = .err e) : ErrC IntPart s e := by
  unfold numInt at h
  split at h
  · rename_i b hb
    obtain ⟨r, hr⟩ := peek_eq_some hb
    split at h
    · rename_i hb0
      subst hb0
      simp only at h
      split at h
      · split at h
        · injection h with h; subst h
          refine ErrC.shift (Q := fun x => x = []) (adv_advance hr) (ErrC.here [] rfl) ?_
          intro x hx; subst hx; exact Or.inl rfl
        · cases h
      · cases h
    · split at h
      · cases h
      · injection h with h; subst h
        exact ErrC.here [0x30] (Or.inl rfl)
  · injection h with h; subst h
    exact ErrC.here [0x30] (Or.inl rfl)

theorem numFrac_err {s : St} {e : Err} (h : numFrac s = .err e) : ErrC FracPart s e := by
  unfold numFrac at h
  split at h
  · rename_i hp
    obtain ⟨r, hr⟩ := peek_eq_some hp
    obtain ⟨ds, hds, hadv, hn, _⟩ := adv_skipDigits s.advance
    simp only at h
    split at h
    · rename_i hn0
      injection h with h; subst h
      have hnil : ds = [] := by
        rw [hn0] at hn; exact List.length_eq_zero_iff.mp hn.symm
      subst hnil
      refine ErrC.shift (Q := fun x => x = [0x30]) ((adv_advance hr).trans hadv)
        (ErrC.here [0x30] rfl) ?_
      intro x hx; subst hx
      exact Or.inr ⟨[0x30], rfl, by simp, digits_zero⟩
    · cases h
  · cases h

theorem numExp_err {s : St} {e : Err} (h : numExp s = .err e) : ErrC ExpPart s e := by
  unfold numExp at h
  split at h
  · rename_i b he
    obtain ⟨r, hr⟩ := peek_eq_some he
    split at h
    · rename_i hE
      have hE' : b = 0x65 ∨ b = 0x45 := by simpa [isE] using hE
      simp only at h
      have tail : ∀ (sg : Bytes) (s1 : St), (sg = [] ∨ sg = [0x2B] ∨ sg = [0x2D]) →
          Adv s.advance sg s1 →
          (if s1.skipDigits.1 = 0 then Res.err (s1.skipDigits.2.error (.invalidNumber .exp))
            else Res.ok () s1.skipDigits.2) = Res.err e → ErrC ExpPart s e := by
        intro sg s1 hsg hadv1 h
        obtain ⟨ds, hds, hadv, hn, _⟩ := adv_skipDigits s1
        split at h
        · rename_i hn0
          injection h with h; subst h
          have hnil : ds = [] := by
            rw [hn0] at hn; exact List.length_eq_zero_iff.mp hn.symm
          subst hnil
          refine ErrC.shift (Q := fun x => x = [0x30])
            ((adv_advance hr).trans (hadv1.trans hadv)) (ErrC.here [0x30] rfl) ?_
          intro x hx; subst hx
          exact Or.inr ⟨b, sg, [0x30], by simp, hE', hsg, by simp, digits_zero⟩
        · cases h
      cases hp : s.advance.peek with
      | none =>
        simp only [hp] at h
        exact tail [] _ (Or.inl rfl) (Adv.refl _) h
      | some g =>
        obtain ⟨r2, hr2⟩ := peek_eq_some hp
        simp only [hp] at h
        by_cases hg : g = 0x2B ∨ g = 0x2D
        · simp only [if_pos hg] at h
          refine tail [g] _ ?_ (adv_advance hr2) h
          rcases hg with rfl | rfl <;> simp
        · simp only [if_neg hg] at h
          exact tail [] _ (Or.inl rfl) (Adv.refl _) h
    · cases h
  · cases h

theorem number_errC {s : St} {e : Err} (h : validateNumber s = .err e) : ErrC NumberLit s e := by
  rw [validateNumber_eq] at h
  have hsign : ∃ sg s0, (sg = [] ∨ sg = [0x2D]) ∧ Adv s sg s0 ∧
      (if s.peek = some 0x2D then s.advance else s) = s0 := by
    by_cases hp : s.peek = some 0x2D
    · obtain ⟨r, hr⟩ := peek_eq_some hp
      exact ⟨[0x2D], _, Or.inr rfl, adv_advance hr, by rw [if_pos hp]⟩
    · exact ⟨[], _, Or.inl rfl, Adv.refl _, by rw [if_neg hp]⟩
  obtain ⟨sg, s0, hsg, hadv0, heq⟩ := hsign
  rw [heq] at h
  split at h
  · rename_i e1 h1
    injection h with h; subst h
    refine ErrC.shift hadv0 (numInt_err h1) ?_
    intro x hx
    exact ⟨sg, x, [], [], by simp, hsg, hx, Or.inl rfl, Or.inl rfl⟩
  · cases h
  · rename_i u1 s1 h1
    obtain ⟨ip, hip, a1⟩ := numInt_sound h1
    split at h
    · rename_i e2 h2
      injection h with h; subst h
      refine ErrC.shift (hadv0.trans a1) (numFrac_err h2) ?_
      intro x hx
      exact ⟨sg, ip, x, [], by simp, hsg, hip, hx, Or.inl rfl⟩
    · cases h
    · rename_i u2 s2 h2
      obtain ⟨fp, hfp, a2⟩ := numFrac_sound h2
      refine ErrC.shift (hadv0.trans (a1.trans a2)) (numExp_err h) ?_
      intro x hx
      exact ⟨sg, ip, fp, x, by simp, hsg, hip, hfp, hx⟩

theorem number_err {s : St} {e : Err} (h : validateNumber s = .err e) : ErrAt NumberLit s e :=
  (number_errC h).errAt

/-! ### keywords -/

theorem keyword_err {s : St} {e : Err} (h : validateKeyword s = .err e) : e.offset = s.offset := by
  unfold validateKeyword at h
  simp only at h
  split at h
  · cases h
  · injection h with h; subst h; rfl

/-! ### strings -/

theorem hexDigits_err : ∀ (k v : Nat) (s : St) (e : Err), hexDigits k v s = .err e →
    SurrKind e.kind := by
  intro k
  induction k with
  | zero => intro v s e h; simp [hexDigits] at h
  | succ k ih =>
    intro v s e h
    unfold hexDigits at h
    split at h
    · injection h with h; subst h; exact Or.inr ⟨_, rfl⟩
    · split at h
      · exact ih _ _ _ h
      · split at h
        · exact ih _ _ _ h
        · split at h
          · exact ih _ _ _ h
          · injection h with h; subst h; exact Or.inr ⟨_, rfl⟩

theorem unicodeEscape_err {s : St} {e : Err} (h : validateUnicodeEscape s = .err e) :
    SurrKind e.kind := hexDigits_err 4 0 s e h

/-- a non-surrogate error of `validate_escape` is reported right after the backslash -/
theorem escape_err {s : St} {e : Err} (hp : s.peek = some 0x5C)
    (h : validateEscape s = .err e) (hk : ¬ SurrKind e.kind) : e.offset = s.offset + 1 := by
  obtain ⟨r, hr⟩ := peek_eq_some hp
  have a0 := advance_cons hr
  unfold validateEscape at h
  simp only at h
  split at h
  · injection h with h; subst h; exact a0.2.1
  · rename_i c hc
    split at h
    · cases h
    · split at h
      · rename_i hcu
        subst hcu
        split at h
        · rename_i e2 h2
          injection h with h; subst h
          exact absurd (unicodeEscape_err h2) hk
        · cases h
        · rename_i high s2 h2
          split at h
          · split at h
            · injection h with h; subst h; exact absurd (Or.inl ⟨_, rfl⟩) hk
            · split at h
              · injection h with h; subst h; exact absurd (Or.inl ⟨_, rfl⟩) hk
              · split at h
                · rename_i e5 h5
                  injection h with h; subst h
                  exact absurd (unicodeEscape_err h5) hk
                · cases h
                · split at h
                  · injection h with h; subst h; exact absurd (Or.inl ⟨_, rfl⟩) hk
                  · cases h
          · split at h
            · injection h with h; subst h; exact absurd (Or.inl ⟨_, rfl⟩) hk
            · cases h
      · injection h with h; subst h; exact a0.2.1

theorem strBody_bs_n : StrBody ([0x5C] ++ [0x6E]) :=
  StrBody.esc 0x6E [] (by decide) StrBody.nil

theorem stringLoop_err : ∀ (f : Nat) (s : St) (e : Err), stringLoop f s = .err e →
    ¬ SurrKind e.kind → ErrC StrBody s e := by
  intro f
  induction f with
  | zero => intro s e h; simp [stringLoop] at h
  | succ f ih =>
    intro s e h hk
    unfold stringLoop at h
    split at h
    · injection h with h; subst h
      exact ErrC.here [] StrBody.nil
    · rename_i b hb
      obtain ⟨r, hr⟩ := peek_eq_some hb
      split at h
      · cases h
      · rename_i hq
        split at h
        · rename_i hbs
          subst hbs
          split at h
          · rename_i u1 s1 h1
            obtain ⟨esc, he, adv1⟩ := escape_sound hb h1
            exact ErrC.shift adv1 (ih s1 e h hk) (fun x hx => StrBody.ofEsc he hx)
          · rename_i x hne
            have ho := escape_err hb h hk
            exact ⟨[0x5C], r, [0x6E], by simpa using hr, by simpa using ho, strBody_bs_n⟩
        · rename_i hbs
          split at h
          · injection h with h; subst h
            exact ErrC.here [] StrBody.nil
          · rename_i hctl
            split at h
            · rename_i u1 s1 h1
              unfold validateUtf8Char at h1
              split at h1
              · cases h1
              · rename_i n hn
                injection h1 with _ h1; subst h1
                obtain ⟨c, r', hcr, hcl, hwf⟩ := utf8Len_sound _ _ hn
                obtain ⟨adv1, hrest⟩ := advanceN_adv c s r' hcr
                rw [hcl] at adv1
                refine ErrC.shift adv1 (ih _ e h hk) (fun x hx => StrBody.char c x ?_ hx)
                simp only [strCharOk, hwf, Bool.true_and]
                match c, hcr, hwf with
                | [a], hcr, _ =>
                  have : a = b := by rw [hr] at hcr; simp at hcr; exact hcr.1.symm
                  subst this
                  simp [hq, hbs]
                  exact ⟨⟨BitVec.not_lt.mp hctl, hq⟩, hbs⟩
                | [], _, hwf => simp [utf8Wf] at hwf
                | _ :: _ :: _, _, _ => rfl
            · rename_i x hne
              unfold validateUtf8Char at h
              split at h
              · injection h with h; subst h
                exact ErrC.here [] StrBody.nil
              · cases h

theorem string_err {s : St} {e : Err} (hp : s.peek = some 0x22) (h : validateString s = .err e)
    (hk : ¬ SurrKind e.kind) : ErrAt StringLit s e := by
  obtain ⟨r, hr⟩ := peek_eq_some hp
  have ha := advance_cons hr
  obtain ⟨v, r', c, h1, h2, h3⟩ := stringLoop_err _ _ _ h hk
  refine ErrC.errAt ⟨0x22 :: v, r', c ++ [0x22], ?_, ?_, ⟨v ++ c, h3, by simp⟩⟩
  · rw [hr, ← ha.1, h1]; simp
  · rw [h2, ha.2.1]; simp; omega

end SV.Json.Model
