/-
Proof/BPClose3 — `find_close_in_word` (C02's in-word kernel, as used by `trees::find_close`) against
`scanClose`, and the free `find_close` = linear-scan definition (C04).
-/
import SuccinctlyVerif.Proof.BPClose2
namespace SV.BPC
open SV SV.BP SV.BPM SV.BPP SV.BPW SV.BPS

theorem scanClose_shift (a : List Bool) (i k d : Nat) :
    scanClose a (i + k) d = (scanClose a i d).map (· + k) := by
  induction a generalizing i d with
  | nil => rfl
  | cons x xs ih =>
    cases x
    · simp only [scanClose]
      by_cases hd : d = 0
      · simp [hd]
      · simp only [hd, if_false]
        have : i + k + 1 = (i + 1) + k := by omega
        rw [this, ih]
    · simp only [scanClose]
      have : i + k + 1 = (i + 1) + k := by omega
      rw [this, ih]

theorem fucLoop_scanClose (x : BitVec 64) (n bit : Nat) (exc : Int) (he : 0 ≤ exc) :
    fucLoop x n bit exc = (scanClose (seg x bit n) bit exc.toNat).getD 64 := by
  induction n generalizing bit exc with
  | zero => simp [fucLoop, seg_zero, scanClose]
  | succ n ih =>
    rw [seg_succ_left]
    unfold fucLoop
    cases hb : x.getLsbD bit
    · simp only [Bool.false_eq_true, if_false, scanClose]
      by_cases h0 : exc - 1 < 0
      · have : exc.toNat = 0 := by omega
        simp [h0, this]
      · have : exc.toNat ≠ 0 := by omega
        simp only [h0, this, if_false]
        rw [ih (bit + 1) (exc - 1) (by omega)]
        congr 2; omega
    · simp only [if_true, scanClose]
      rw [ih (bit + 1) (exc + 1) (by omega)]
      congr 2; omega

theorem seg_ushiftRight (w : BitVec 64) (k a n : Nat) : seg (w >>> k) a n = seg w (k + a) n := by
  unfold seg
  apply List.map_congr_left
  intro j _
  rw [BitVec.getLsbD_ushiftRight]
  congr 1; omega

theorem seg_high_false (w : BitVec 64) (a n : Nat) (ha : 64 ≤ a) : ∀ b ∈ seg w a n, b = false := by
  intro b hb
  unfold seg at hb
  simp only [List.mem_map, List.mem_range] at hb
  obtain ⟨j, _, rfl⟩ := hb
  exact BitVec.getLsbD_of_ge w _ (by omega)

/-- `find_close_in_word(word, p)` for an open at `p < 64`: the forward scan inside the word. -/
theorem findCloseInWord_scanClose (w : BitVec 64) (bi : Nat) (hbi : bi < 64) (hset : w.getLsbD bi = true) :
    findCloseInWord w bi = scanClose (seg w (bi + 1) (63 - bi)) (bi + 1) 0 := by
  unfold findCloseInWord
  have h1 : ¬ bi ≥ 64 := by omega
  have h2 : ¬ ((w >>> bi) &&& 1#64 = 0) := by
    intro h0
    have := congrArg (fun x => x.getLsbD 0) h0
    simp [hset] at this
  simp only [h1, if_false, h2]
  by_cases hr : 63 - bi = 0
  · simp [hr, seg_zero, scanClose]
  simp only [hr, if_false]
  unfold findUnmatchedCloseInWord
  rw [fucLoop_scanClose _ 64 0 0 (by omega)]
  have hseg : seg (w >>> bi >>> 1) 0 64 = seg w (bi + 1) (63 - bi) ++ seg w 64 (bi + 1) := by
    rw [seg_ushiftRight, seg_ushiftRight]
    have e : 64 = (63 - bi) + (bi + 1) := by omega
    have e2 : bi + (1 + 0) = bi + 1 := by omega
    have e3 : bi + 1 + (63 - bi) = 64 := by omega
    conv => lhs; rw [e2, e, seg_append, e3]
  rw [hseg, scanClose_append]
  have hsh := scanClose_shift (seg w (bi + 1) (63 - bi)) 0 (bi + 1) 0
  simp only [Nat.zero_add] at hsh
  rw [hsh]
  have hz : (0 : Int).toNat = 0 := rfl
  rw [hz]
  cases hs : scanClose (seg w (bi + 1) (63 - bi)) 0 0 with
  | some r =>
    have hb := scanClose_bounds _ _ _ _ hs
    rw [seg_length] at hb
    have : r < 63 - bi := by omega
    simp only [Option.getD_some, this, if_true, Option.map_some]
    congr 1; omega
  | none =>
    simp only [Option.map_none, seg_length, Nat.zero_add]
    cases hs2 : scanClose (seg w 64 (bi + 1)) (63 - bi) ((0 : Nat) + totExc (seg w (bi + 1) (63 - bi))).toNat with
    | some r =>
      have hb := scanClose_bounds _ _ _ _ hs2
      have : ¬ r < 63 - bi := by omega
      simp [this]
    | none =>
      have : ¬ 64 < 63 - bi := by omega
      simp [this]

theorem popc_ushiftRight (w : BitVec 64) (bi : Nat) (hbi : bi < 64) :
    popc (w >>> bi) = (seg w bi (64 - bi)).count true := by
  rw [popc_eq_count, wordBits_eq_seg, seg_ushiftRight]
  have e : 64 = (64 - bi) + bi := by omega
  have e2 : bi + 0 = bi := rfl
  conv => lhs; rw [e2, e, seg_append]
  rw [List.count_append]
  have hz : (seg w (bi + (64 - bi)) bi).count true = 0 := by
    apply List.count_eq_zero.mpr
    intro hmem
    have := seg_high_false w (bi + (64 - bi)) bi (by omega) true hmem
    simp at this
  rw [hz]; simp

/-- `trees::find_close(words, len, p)` = the matching close by the left-to-right scan over the first
`len` bits, `none` for out-of-range / close / unmatched, for every `|ws| = ⌈len/64⌉`, `len < 2^31`,
and any bits above `len` in the final word. -/
theorem freeFindClose_eq (ws : List (BitVec 64)) (len p : Nat) (hw : (len + 63) / 64 ≤ ws.length)
    (hlen : len < 2 ^ 31) :
    freeFindClose ws.toArray len p = BP.findClose (bitsOf ws len) p := by
  unfold freeFindClose BP.findClose
  rw [bitsOf_getElem?]
  have hl := bitsOf_length ws len (by omega)
  by_cases hp : p < len
  · have hne : ¬ (p ≥ len ∨ ws.toArray.isEmpty = true) := by
      intro h; rcases h with h | h
      · omega
      · have : ws.length = 0 := by simpa using h
        omega
    have hlt : p / 64 < ws.length := by omega
    simp only [hne, if_false, hp, if_true, List.getElem?_eq_getElem hlt, Option.map_some]
    have hwd : wordAt ws.toArray (p / 64) = ws[p / 64] := by
      simp [wordAt, List.getD_eq_getElem?_getD, List.getElem?_eq_getElem hlt]
    have hg : ws.getD (p / 64) 0 = ws[p / 64] := by
      simp [List.getD_eq_getElem?_getD, List.getElem?_eq_getElem hlt]
    rw [hwd]
    generalize hwv : ws[p / 64] = w at *
    cases hb : w.getLsbD (p % 64)
    · simp
    · simp only [Bool.not_true, Bool.false_eq_true, if_false, if_true]
      have hbi : p % 64 < 64 := by omega
      have hpos : p / 64 * 64 < len := by omega
      have hvb1 : p % 64 < vbits len (p / 64) := by unfold vbits; split <;> omega
      have hvb2 : vbits len (p / 64) ≤ 64 := by unfold vbits; split <;> omega
      -- the bits after p
      have hdrop : (bitsOf ws len).drop (p + 1) =
          seg w (p % 64 + 1) (vbits len (p / 64) - (p % 64 + 1)) ++ (bitsOf ws len).drop ((p / 64 + 1) * 64) := by
        have e : p + 1 = p / 64 * 64 + (p % 64 + 1) := by omega
        rw [e, ← List.drop_drop, bitsOf_drop_word ws len (p / 64) hlt (by omega) hpos, hg,
          List.drop_append_of_le_length (by rw [List.length_take, wordBits_length]; omega),
          wordBits_take_eq_seg w _ hvb2]
        have e2 : vbits len (p / 64) = (p % 64 + 1) + (vbits len (p / 64) - (p % 64 + 1)) := by omega
        conv => lhs; rw [e2, seg_append, List.drop_left' (seg_length _ _ _)]
        simp
      rw [hdrop, findCloseInWord_scanClose w _ hbi hb]
      -- split the in-word scan at the valid-bit boundary
      have esplit : 63 - p % 64 = (vbits len (p / 64) - (p % 64 + 1)) + (64 - vbits len (p / 64)) := by omega
      rw [esplit, seg_append, scanClose_append, scanClose_append]
      generalize hA' : seg w (p % 64 + 1) (vbits len (p / 64) - (p % 64 + 1)) = A'
      have hA'l : A'.length = vbits len (p / 64) - (p % 64 + 1) := by rw [← hA', seg_length]
      have hsh := scanClose_shift A' (p % 64 + 1) (p / 64 * 64) 0
      have e1 : p % 64 + 1 + p / 64 * 64 = p + 1 := by omega
      rw [e1] at hsh
      rw [hsh]
      cases hs : scanClose A' (p % 64 + 1) 0 with
      | some r =>
        have hbd := scanClose_bounds _ _ _ _ hs
        have hr : p / 64 * 64 + r < len := by
          rw [hA'l] at hbd; unfold vbits at hbd hvb1; split at hbd <;> omega
        simp only [hr, if_true, Option.map_some]
        congr 1; omega
      | none =>
        simp only [Option.map_none]
        have htot := scanClose_none_tot A' _ _ hs
        -- the continuation after the word
        have main : fcWordLoop ws.toArray len (ws.toArray.size + 1) (p / 64 + 1)
              (wrapI32 (2 * (popc (w >>> (p % 64)) : Int) - ((64 - p % 64 : Nat) : Int))) =
            scanClose ((bitsOf ws len).drop ((p / 64 + 1) * 64)) (p + 1 + A'.length) (((0 : Nat) : Int) + totExc A').toNat := by
          by_cases hfull : vbits len (p / 64) = 64
          · -- full word: continue in the following words with the exact excess
            have hA64 : A' = seg w (p % 64 + 1) (63 - p % 64) := by
              rw [← hA', hfull]; congr 1; omega
            have hones : (popc (w >>> (p % 64)) : Int) = 1 + (A'.count true : Int) := by
              rw [popc_ushiftRight w _ hbi]
              have e : 64 - p % 64 = (63 - p % 64) + 1 := by omega
              rw [e, seg_succ_left, hb, ← hA64]
              simp; omega
            have hexc : (2 * (popc (w >>> (p % 64)) : Int) - ((64 - p % 64 : Nat) : Int)) = totExc A' + 1 := by
              rw [hones, totExc_eq_count, hA'l, hfull]; omega
            have htb := totExc_bound A'
            rw [hexc, BPR.wrapI32_id _ (by omega) (by omega),
              fcWordLoop_scanClose ws len hw _ _ _ (by omega) (by simp) (by
                rw [hA'l, hfull] at htb; omega)]
            rw [hA'l, hfull]
            congr 1 <;> omega
          · -- partial final word: nothing follows
            have hlast : (p / 64 + 1) * 64 ≥ len := by unfold vbits at hfull; split at hfull <;> omega
            rw [fcWordLoop_beyond ws len _ _ _ hlast, List.drop_of_length_le (by omega)]
            rfl
        -- any hit in the invalid part of the word is at or beyond `len`
        have hloc : ∀ l, scanClose (seg w (p % 64 + 1 + (vbits len (p / 64) - (p % 64 + 1))) (64 - vbits len (p / 64)))
              (p % 64 + 1 + A'.length) (((0 : Nat) : Int) + totExc A').toNat = some l → ¬ p / 64 * 64 + l < len := by
          intro l hs2
          have hbd := scanClose_bounds _ _ _ _ hs2
          rw [seg_length, hA'l] at hbd
          unfold vbits at hbd hvb1; split at hbd <;> omega
        generalize scanClose (seg w (p % 64 + 1 + (vbits len (p / 64) - (p % 64 + 1))) (64 - vbits len (p / 64)))
              (p % 64 + 1 + A'.length) (((0 : Nat) : Int) + totExc A').toNat = S2 at hloc ⊢
        rcases S2 with _ | l
        · exact main
        · have := hloc l rfl
          simp only [this, if_false]
          exact main
  · have : p ≥ len := by omega
    simp [this, hp]

end SV.BPC
