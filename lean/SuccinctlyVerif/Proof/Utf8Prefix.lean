/-
Proof/Utf8Prefix — the executable `validPrefixLen` of Spec/Utf8 computes the longest valid prefix.
-/
import SuccinctlyVerif.Proof.Utf8
set_option linter.unusedSimpArgs false
namespace SV.Utf8

theorem vpg_dead {s : St} {b : Byte} (pos last : Nat) (bs : List Byte) (h : step s b = .dead) :
    validPrefixGo s pos last (b :: bs) = last := by
  rw [validPrefixGo]; simp [h]

theorem vpg_start {s : St} {b : Byte} (pos last : Nat) (bs : List Byte) (h : step s b = .start) :
    validPrefixGo s pos last (b :: bs) = validPrefixGo .start (pos + 1) (pos + 1) bs := by
  rw [validPrefixGo]; simp [h]

theorem vpg_other {s : St} {b : Byte} (pos last : Nat) (bs : List Byte)
    (h1 : step s b ≠ .dead) (h2 : step s b ≠ .start) :
    validPrefixGo s pos last (b :: bs) = validPrefixGo (step s b) (pos + 1) last bs := by
  rw [validPrefixGo]
  generalize step s b = t at *
  cases t <;> simp_all

theorem take_append_le {pre suf : List Byte} {m : Nat} (h : m ≤ pre.length) :
    (pre ++ suf).take m = pre.take m := by
  rw [List.take_append]
  have : m - pre.length = 0 := by omega
  simp [this]

theorem validPrefixGo_spec (bs : List Byte) : ∀ (pre : List Byte) (s : St) (last : Nat),
    run .start pre = s → s ≠ .dead → last ≤ pre.length → run .start (pre.take last) = .start →
    (∀ m, last < m → m ≤ pre.length → run .start (pre.take m) ≠ .start) →
    IsLongestValidPrefix (pre ++ bs) (validPrefixGo s pre.length last bs) := by
  induction bs with
  | nil =>
    intro pre s last _ _ h1 h2 h3
    simp only [validPrefixGo, List.append_nil]
    exact ⟨h1, h2, h3⟩
  | cons b bs ih =>
    intro pre s last hs hd h1 h2 h3
    have hassoc : pre ++ b :: bs = (pre ++ [b]) ++ bs := by simp
    have hlen : (pre ++ [b]).length = pre.length + 1 := by simp
    have hrun : run .start (pre ++ [b]) = step s b := by simp [run_append, hs]
    by_cases hdead : step s b = .dead
    · rw [vpg_dead _ _ _ hdead]
      refine ⟨by simp; omega, by simpa [WellFormed, take_append_le h1] using h2, fun m hlt hle => ?_⟩
      by_cases hm : m ≤ pre.length
      · simpa [WellFormed, take_append_le hm] using h3 m hlt hm
      · have : (pre ++ b :: bs).take m = pre ++ b :: bs.take (m - pre.length - 1) := by
          rw [List.take_append]
          have e1 : pre.take m = pre := List.take_of_length_le (by omega)
          obtain ⟨j, hj⟩ : ∃ j, m - pre.length = j + 1 := ⟨m - pre.length - 1, by omega⟩
          rw [e1, hj, List.take_succ_cons]
          simp
        simp [WellFormed, this, run_append, hs, hdead]
    · by_cases hstart : step s b = .start
      · rw [vpg_start _ _ _ hstart, hassoc, ← hlen]
        apply ih (pre ++ [b]) .start (pre ++ [b]).length (by rw [hrun, hstart]) (by decide) (Nat.le_refl _)
        · rw [List.take_length]; exact hrun.trans hstart
        · intro m hlt hle; omega
      · rw [vpg_other _ _ _ hdead hstart, hassoc, ← hlen]
        apply ih (pre ++ [b]) (step s b) last hrun hdead (by omega)
        · simpa [take_append_le h1] using h2
        · intro m hlt hle
          by_cases hm : m ≤ pre.length
          · simpa [take_append_le hm] using h3 m hlt hm
          · have : m = (pre ++ [b]).length := by omega
            rw [this, List.take_length, hrun]; exact hstart

/-- `validPrefixLen bs` is the length of the longest well-formed prefix of `bs`. -/
theorem validPrefixLen_spec (bs : List Byte) : IsLongestValidPrefix bs (validPrefixLen bs) := by
  have := validPrefixGo_spec bs [] .start 0 rfl (by decide) (Nat.le_refl _) rfl
    (fun m h1 h2 => by simp at h2; omega)
  simpa [validPrefixLen] using this

end SV.Utf8
