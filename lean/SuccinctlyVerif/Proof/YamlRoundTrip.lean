/-
Proof/YamlRoundTrip — lemmas for `loadRef (render s) = ok s.trees` (C14), by layer.
-/
import SuccinctlyVerif.Spec.YamlRef
namespace SV.Yaml

/-! ## Byte layer: UTF-8 -/

theorem loadRef_render (s : PStream) : loadRef (render s) = loadChars s.chars := by
  unfold loadRef render
  simp [String.toUTF8_eq_toByteArray, String.toByteArray_ofList, List.utf8Decode?_utf8Encode]

end SV.Yaml
