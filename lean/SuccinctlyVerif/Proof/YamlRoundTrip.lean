/-
Proof/YamlRoundTrip — lemmas for `loadRef (render s) = ok s.trees` (C14), by layer.
-/
import SuccinctlyVerif.Spec.YamlRef
namespace SV.YamlRef

/-! ## Byte layer: UTF-8 -/

theorem loadRef_render (s : PStream) : loadRef (render s) = loadChars s.chars := by
  unfold loadRef render
  simp [String.toUTF8_eq_toByteArray, String.toByteArray_ofList, List.utf8Decode?_utf8Encode]

/-! ## Digits -/

theorem digitVal_digitChar (d : Nat) (h : d < 16) : digitVal (Nat.digitChar d) = d := by
  have : d = 0 ∨ d = 1 ∨ d = 2 ∨ d = 3 ∨ d = 4 ∨ d = 5 ∨ d = 6 ∨ d = 7 ∨ d = 8 ∨ d = 9 ∨ d = 10 ∨
      d = 11 ∨ d = 12 ∨ d = 13 ∨ d = 14 ∨ d = 15 := by omega
  rcases this with h | h | h | h | h | h | h | h | h | h | h | h | h | h | h | h <;> subst h <;> decide

theorem natOfDigits_append (b : Nat) (xs ys : Str) :
    natOfDigits b (xs ++ ys) = ys.foldl (fun a c => a * b + digitVal c) (natOfDigits b xs) := by
  simp [natOfDigits, List.foldl_append]

theorem natOfDigits_toDigits (b : Nat) (hb : 1 < b) (hb16 : b ≤ 16) (n : Nat) :
    natOfDigits b (Nat.toDigits b n) = n := by
  induction n using Nat.strongRecOn with
  | _ n ih =>
    rw [Nat.toDigits_eq_if hb]
    split
    · simp [natOfDigits, digitVal_digitChar n (by omega)]
    · rename_i h
      have hlt : n / b < n := Nat.div_lt_self (by omega) hb
      rw [natOfDigits_append, ih _ hlt]
      simp only [List.foldl_cons, List.foldl_nil]
      rw [digitVal_digitChar _ (by have := Nat.mod_lt n (show b > 0 by omega); omega)]
      have := Nat.div_add_mod n b
      rw [Nat.mul_comm]; exact this


/-! ## Double-quoted scalars -/

theorem parseDQ_raw (c : Char) (rest : Str) (h1 : c ≠ '"') (h2 : c ≠ '\n') (h3 : c ≠ '\\') :
    parseDQ (c :: rest) = consR c (parseDQ rest) := by
  rw [parseDQ.eq_def]
  split <;> simp_all

theorem parseDQ_simple (e c : Char) (rest : Str) (h : simpleEscape? e = some c)
    (hx : e ≠ 'x') (hu : e ≠ 'u') (hU : e ≠ 'U') :
    parseDQ ('\\' :: e :: rest) = consR c (parseDQ rest) := by
  rw [parseDQ.eq_def]
  split <;> first | (simp_all; done) | grind

theorem parseDQ_x (a b c : Char) (rest : Str) (h : hexChar? [a, b] = some c) :
    parseDQ ('\\' :: 'x' :: a :: b :: rest) = consR c (parseDQ rest) := by
  rw [parseDQ.eq_def]; simp [h]
theorem parseDQ_u (a b c d ch : Char) (rest : Str) (h : hexChar? [a, b, c, d] = some ch) :
    parseDQ ('\\' :: 'u' :: a :: b :: c :: d :: rest) = consR ch (parseDQ rest) := by
  rw [parseDQ.eq_def]; simp [h]
theorem parseDQ_U (a b c d e f g h' ch : Char) (rest : Str) (h : hexChar? [a, b, c, d, e, f, g, h'] = some ch) :
    parseDQ ('\\' :: 'U' :: a :: b :: c :: d :: e :: f :: g :: h' :: rest) = consR ch (parseDQ rest) := by
  rw [parseDQ.eq_def]; simp [h]

theorem charOfNat?_toNat (c : Char) : charOfNat? c.toNat = some c := by
  unfold charOfNat?
  have hv : c.toNat.isValidChar := c.valid
  rw [dif_pos hv]
  congr 1
  apply Char.ext
  show c.toNat.toUInt32 = c.val
  apply UInt32.toNat_inj.mp
  have : c.val.toNat < 4294967296 := c.val.toNat_lt
  show (UInt32.ofNat c.val.toNat).toNat = c.val.toNat
  simp [UInt32.toNat_ofNat']
  exact this

theorem hexDigitChar_ok (d : Nat) (h : d < 16) : digitVal (hexDigitChar d) = d ∧ isHexDigit (hexDigitChar d) = true := by
  have : d = 0 ∨ d = 1 ∨ d = 2 ∨ d = 3 ∨ d = 4 ∨ d = 5 ∨ d = 6 ∨ d = 7 ∨ d = 8 ∨ d = 9 ∨ d = 10 ∨
      d = 11 ∨ d = 12 ∨ d = 13 ∨ d = 14 ∨ d = 15 := by omega
  rcases this with h | h | h | h | h | h | h | h | h | h | h | h | h | h | h | h <;> subst h <;> decide

theorem hexFixed_all (w n : Nat) : (hexFixed w n).all isHexDigit = true := by
  induction w generalizing n with
  | zero => simp [hexFixed]
  | succ w ih =>
    simp only [hexFixed, List.all_append, ih, List.all_cons, List.all_nil, Bool.and_true, Bool.true_and]
    exact (hexDigitChar_ok _ (Nat.mod_lt _ (by omega))).2

theorem natOfDigits_hexFixed (w n : Nat) : natOfDigits 16 (hexFixed w n) = n % 16 ^ w := by
  induction w generalizing n with
  | zero => simp [hexFixed, natOfDigits, Nat.mod_one]
  | succ w ih =>
    simp only [hexFixed]
    rw [natOfDigits_append, ih]
    simp only [List.foldl_cons, List.foldl_nil]
    rw [(hexDigitChar_ok _ (Nat.mod_lt n (by omega))).1]
    rw [Nat.pow_succ, Nat.mul_comm (16 ^ w) 16, Nat.mod_mul]
    omega

theorem hexChar?_hexFixed (w : Nat) (c : Char) (h : c.toNat < 16 ^ w) : hexChar? (hexFixed w c.toNat) = some c := by
  simp [hexChar?, hexVal?, hexFixed_all, natOfDigits_hexFixed, Nat.mod_eq_of_lt h, charOfNat?_toNat]


theorem shortEscape_sound (c e : Char) (h : shortEscape? c = some e) :
    simpleEscape? e = some c ∧ e ≠ 'x' ∧ e ≠ 'u' ∧ e ≠ 'U' := by
  have hc : c = Char.ofNat c.toNat := (Char.ofNat_toNat c).symm
  unfold shortEscape? at h
  split at h <;> simp at h <;> subst h <;> rename_i hn <;> rw [hc, hn] <;> decide

theorem printable_ne_nl (c : Char) (h : isPrintable c = true) : c ≠ '\n' := by
  intro hc; subst hc; revert h; decide

theorem parseDQ_numEscape (c : Char) (rest : Str) :
    parseDQ (numEscape c ++ rest) = consR c (parseDQ rest) := by
  unfold numEscape
  simp only
  split
  · rename_i h
    have := hexChar?_hexFixed 2 c (by simpa using h)
    simp only [hexFixed, List.nil_append, List.cons_append] at this ⊢
    exact parseDQ_x _ _ _ _ this
  · split
    · rename_i h
      have := hexChar?_hexFixed 4 c (by simpa using h)
      simp only [hexFixed, List.nil_append, List.cons_append] at this ⊢
      exact parseDQ_u _ _ _ _ _ _ this
    · have hlt : c.toNat < 16 ^ 8 := by
        have hv : c.val.toNat.isValidChar := c.valid
        have h2 : c.toNat = c.val.toNat := rfl
        unfold Nat.isValidChar at hv
        omega
      have := hexChar?_hexFixed 8 c hlt
      simp only [hexFixed, List.nil_append, List.cons_append] at this ⊢
      exact parseDQ_U _ _ _ _ _ _ _ _ _ _ this

theorem parseDQ_dqChar (sh eu : Bool) (c : Char) (rest : Str) :
    parseDQ (dqChar sh eu c ++ rest) = consR c (parseDQ rest) := by
  unfold dqChar
  split
  · rename_i h; have : c = '"' := by simpa using h
    subst this; exact parseDQ_simple '"' '"' rest (by decide) (by decide) (by decide) (by decide)
  · split
    · rename_i h; have : c = '\\' := by simpa using h
      subst this; exact parseDQ_simple '\\' '\\' rest (by decide) (by decide) (by decide) (by decide)
    · rename_i h1 h2
      split
      · rename_i h3
        have hp : isPrintable c = true := by
          simp only [Bool.and_eq_true] at h3; exact h3.1.1
        exact parseDQ_raw c rest (by simpa using h1) (printable_ne_nl c hp) (by simpa using h2)
      · split
        · split
          · rename_i e he
            obtain ⟨a, b, c', d⟩ := shortEscape_sound c e he
            exact parseDQ_simple e c rest a b c' d
          · exact parseDQ_numEscape c rest
        · exact parseDQ_numEscape c rest

theorem parseDQ_dqBody (sh eu : Bool) (s rest : Str) :
    parseDQ (s.flatMap (dqChar sh eu) ++ '"' :: rest) = .ok (s, rest) := by
  induction s with
  | nil => simp [parseDQ]
  | cons c s ih =>
    simp only [List.flatMap_cons, List.append_assoc]
    rw [parseDQ_dqChar, ih]; rfl


/-! ## Simple tokens (null / bool / decimal int spellings) as plain scalars -/

def simpleChar (c : Char) : Bool := c.isAlphanum || c == '+' || c == '-' || c == '~'

/-- The remaining input ends the token: end of line or a flow indicator. -/
def Delim (rest : Str) : Prop := rest = [] ∨ ∃ d r, rest = d :: r ∧ isFlowInd d = true

theorem simpleChar_facts (c : Char) (h : simpleChar c = true) :
    c ≠ ':' ∧ c ≠ ' ' ∧ c ≠ '\t' ∧ isFlowInd c = false ∧ c ≠ '#' := by
  have hn : c.toNat = c.toNat := rfl
  refine ⟨?_, ?_, ?_, ?_, ?_⟩ <;> (try intro hc; subst hc; revert h; decide)
  -- isFlowInd
  cases hf : isFlowInd c with
  | false => rfl
  | true =>
    exfalso
    have : c = ',' ∨ c = '[' ∨ c = ']' ∨ c = '{' ∨ c = '}' := by
      simp [isFlowInd] at hf; omega
    rcases this with h' | h' | h' | h' | h' <;> subst h' <;> revert h <;> decide

theorem plainLen_flowInd (d : Char) (r : Str) (hd : isFlowInd d = true) : plainLen true (d :: r) = 0 := by
  cases r with
  | nil => simp [plainLen, hd]
  | cons e r => simp [plainLen, hd]

theorem plainLen_simple (flow : Bool) (t rest : Str) (ht : t.all simpleChar = true)
    (hr : rest = [] ∨ (flow = true ∧ ∃ d r, rest = d :: r ∧ isFlowInd d = true)) :
    plainLen flow (t ++ rest) = t.length := by
  induction t with
  | nil =>
    rcases hr with rfl | ⟨rfl, d, r, rfl, hd⟩
    · simp [plainLen]
    · simpa using plainLen_flowInd d r hd
  | cons c t ih =>
    simp only [List.all_cons, Bool.and_eq_true] at ht
    obtain ⟨h1, h2, h3, h4, h5⟩ := simpleChar_facts c ht.1
    have ih' := ih ht.2
    cases hrest : t ++ rest with
    | nil =>
      simp only [List.cons_append, hrest]
      have : t = [] := by cases t <;> simp_all
      subst this
      simp [plainLen, h1, h4]
    | cons d r =>
      simp only [List.cons_append, hrest]
      rw [plainLen]
      simp only [h4, Bool.and_false, Bool.false_eq_true, if_false]
      rw [← hrest, ih']
      simp [h1, h2]; omega
  all_goals trivial


theorem indicator_not_simple (c : Char) (h : isIndicator c = true) : c = '-' ∨ simpleChar c = false := by
  have h' : c ∈ ['-', '?', ':', ',', '[', ']', '{', '}', '#', '&', '*', '!', '|', '>', '\'', '"', '%', '@', '`'] := by
    simpa [isIndicator] using h
  simp only [List.mem_cons, List.mem_nil_iff, or_false] at h'
  rcases h' with h' | h' | h' | h' | h' | h' | h' | h' | h' | h' | h' | h' | h' | h' | h' | h' | h' | h' | h' <;>
    subst h' <;> first | (left; rfl) | (right; decide)

/-- A token made of simple characters that can start a plain scalar. -/
def tokOk (t : Str) : Prop := t.all simpleChar = true ∧ t ≠ [] ∧ (t.head? = some '-' → 2 ≤ t.length)

theorem trimRight_of_last (t : Str) (h : t.getLast? ≠ some ' ') : trimRight t = t := by
  unfold trimRight
  cases hr : t.reverse with
  | nil => simp_all
  | cons l r =>
    have : t.getLast? = some l := by
      rw [List.getLast?_eq_head?_reverse, hr]; rfl
    have hl : l ≠ ' ' := by intro h'; subst h'; exact h this
    rw [List.dropWhile_cons]
    simp only [beq_iff_eq, hl, if_false]
    rw [← hr, List.reverse_reverse]

theorem parsePlain_tok (flow : Bool) (t rest : Str) (ht : tokOk t)
    (hr : rest = [] ∨ (flow = true ∧ ∃ d r, rest = d :: r ∧ isFlowInd d = true)) :
    parsePlain flow (t ++ rest) = .ok (t, rest) := by
  obtain ⟨hall, hne, hdash⟩ := ht
  have hlen := plainLen_simple flow t rest hall hr
  have hfirst : plainFirstOk flow (t ++ rest) = true := by
    cases t with
    | nil => exact absurd rfl hne
    | cons c t' =>
      simp only [List.all_cons, Bool.and_eq_true] at hall
      obtain ⟨h1, h2, h3, h4, h5⟩ := simpleChar_facts c hall.1
      simp only [List.cons_append, plainFirstOk]
      by_cases hc : c = '-'
      · subst hc
        have : 2 ≤ (('-' : Char) :: t').length := hdash rfl
        cases t' with
        | nil => simp at this
        | cons d t'' =>
          simp only [List.all_cons, Bool.and_eq_true] at hall
          obtain ⟨g1, g2, g3, g4, g5⟩ := simpleChar_facts d hall.2.1
          simp [g2, g4]
      · have hq : c ≠ '?' := by
          intro h; subst h; have := hall.1; revert this; decide
        have hni : isIndicator c = false := by
          cases hi : isIndicator c with
          | false => rfl
          | true =>
            rcases indicator_not_simple c hi with h | h
            · exact absurd h hc
            · rw [hall.1] at h; cases h
        simp [hc, hq, h1, hni, h2]
  unfold parsePlain
  simp only [hfirst, Bool.not_true, Bool.false_eq_true, if_false, hlen, List.take_left', List.drop_left']
  have hlast : t.getLast? ≠ some ' ' := by
    intro h
    have hm : ' ' ∈ t := List.mem_of_getLast? h
    have := List.all_eq_true.mp hall ' ' hm
    revert this; decide
  rw [trimRight_of_last t hlast]
  have hnotab : t.any (· == '\t') = false := by
    rw [List.any_eq_false]
    intro x hx
    have := List.all_eq_true.mp hall x hx
    obtain ⟨_, _, g3, _, _⟩ := simpleChar_facts x this
    simpa using g3
  simp [hnotab]


/-! ## Syntax tree of a presentation-annotated tree, layer-1 predicate, fuel -/

def keyNode (k : Str) : KStyle → Node
  | .plain => .scalar true k
  | _ => .scalar false k

mutual
def PNode.node : PNode → Node
  | .null v => .scalar true (nullText v)
  | .bool b v => .scalar true (boolText b v)
  | .int i v => .scalar true (intText i v)
  | .str s .plain => .scalar true s
  | .str s _ => .scalar false s
  | .seq _ _ _ items => .seq items.nodes
  | .map _ _ _ es => .map es.nodes
  | .anchored a n => .anchored a n.node
  | .alias a _ => .alias a
def PItems.nodes : PItems → List Node
  | .nil => []
  | .cons _ n r => n.node :: r.nodes
def PEntries.nodes : PEntries → List (Node × Node)
  | .nil => []
  | .cons _ k ks n r => (keyNode k ks, n.node) :: r.nodes
end

mutual
/-- Layer 1: flow collections, double-quoted strings and keys, `null`/bool spellings, decimal ints. -/
def PNode.l1 : PNode → Bool
  | .null v => v % 5 != 4
  | .bool _ _ => true
  | .int _ v => v % 5 == 0
  | .str _ (.double _ _) => true
  | .seq true _ _ items => items.l1
  | .map true _ _ es => es.l1
  | _ => false
def PItems.l1 : PItems → Bool
  | .nil => true
  | .cons _ n r => n.l1 && r.l1
def PEntries.l1 : PEntries → Bool
  | .nil => true
  | .cons _ _ ks n r => (match ks with | .double _ _ => true | _ => false) && n.l1 && r.l1
end

mutual
def PNode.need : PNode → Nat
  | .seq _ _ _ items => items.need + 2
  | .map _ _ _ es => es.need + 2
  | .anchored _ n => n.need + 1
  | _ => 1
def PItems.need : PItems → Nat
  | .nil => 1
  | .cons _ n r => n.need + r.need + 2
def PEntries.need : PEntries → Nat
  | .nil => 1
  | .cons _ _ _ n r => n.need + r.need + 3
end

theorem dropSpaces_spaces (k : Nat) (c : Char) (t : Str) (h : c ≠ ' ') :
    dropSpaces (spaces k ++ c :: t) = c :: t := by
  induction k with
  | zero => simp [spaces, dropSpaces, List.dropWhile_cons, h]
  | succ k ih =>
    have : spaces (k + 1) = ' ' :: spaces k := by simp [spaces, List.replicate_succ]
    rw [this, List.cons_append]
    unfold dropSpaces at ih ⊢
    rw [List.dropWhile_cons]
    simpa using ih

/-! ### tokens -/

theorem tokOk_nullText (v : Nat) (h : v % 5 ≠ 4) : tokOk (nullText v) := by
  have : v % 5 = 0 ∨ v % 5 = 1 ∨ v % 5 = 2 ∨ v % 5 = 3 := by omega
  rcases this with h' | h' | h' | h' <;> simp only [nullText, h'] <;> refine ⟨by decide, by decide, by decide⟩

theorem tokOk_boolText (b : Bool) (v : Nat) : tokOk (boolText b v) := by
  have : v % 3 = 0 ∨ v % 3 = 1 ∨ v % 3 = 2 := by omega
  cases b <;> rcases this with h' | h' | h' <;> simp only [boolText, h'] <;> refine ⟨by decide, by decide, by decide⟩

theorem toDigits10_all (n : Nat) : (Nat.toDigits 10 n).all simpleChar = true := by
  rw [List.all_eq_true]
  intro c hc
  have := Nat.isDigit_of_mem_toDigits (b := 10) (by decide) (by decide) hc
  simp [simpleChar, Char.isAlphanum, this]

theorem tokOk_intText (i : Int) (v : Nat) (h : v % 5 = 0) : tokOk (intText i v) := by
  unfold intText
  simp only [h]
  split
  · refine ⟨toDigits10_all _, Nat.toDigits_ne_nil, ?_⟩
    intro hh
    cases hd : Nat.toDigits 10 i.toNat with
    | nil => exact absurd hd Nat.toDigits_ne_nil
    | cons c t =>
      have hm : c ∈ Nat.toDigits 10 i.toNat := by rw [hd]; simp
      have := Nat.isDigit_of_mem_toDigits (b := 10) (by decide) (by decide) hm
      simp only [natDigits, hd, List.head?_cons, Option.some.injEq] at hh
      subst hh; exact absurd this (by decide)
  · refine ⟨?_, by simp, ?_⟩
    · simp only [List.all_cons, natDigits, toDigits10_all, Bool.and_true]; decide
    · intro _
      have := Nat.length_toDigits_pos (b := 10) (n := i.natAbs)
      simp [natDigits]; omega

theorem parseFlow_tok (f k : Nat) (t rest : Str) (ht : tokOk t) (hr : Delim rest) :
    parseFlow (f + 1) (spaces k ++ t ++ rest) = .ok (.scalar true t, rest) := by
  obtain ⟨hall, hne, hdash⟩ := ht
  cases t with
  | nil => exact absurd rfl hne
  | cons c t' =>
    have hc : simpleChar c = true := by simp only [List.all_cons, Bool.and_eq_true] at hall; exact hall.1
    obtain ⟨h1, h2, h3, h4, h5⟩ := simpleChar_facts c hc
    have hp := parsePlain_tok true (c :: t') rest ⟨hall, hne, hdash⟩
      (by rcases hr with h | ⟨d, r, h, hd⟩
          · exact Or.inl h
          · exact Or.inr ⟨rfl, d, r, h, hd⟩)
    rw [parseFlow]
    simp only [List.append_assoc, List.cons_append, dropSpaces_spaces k c _ h2]
    simp only [List.cons_append] at hp
    split
    · rename_i heq; simp at heq
    all_goals (try (rename_i heq; have := (List.cons.inj heq).1; subst this; exact absurd hc (by decide)))
    rw [hp]; rfl


theorem parseFlow_dq (f k : Nat) (sh eu : Bool) (s rest : Str) :
    parseFlow (f + 1) (spaces k ++ dqText sh eu s ++ rest) = .ok (.scalar false s, rest) := by
  rw [parseFlow]
  simp only [dqText, List.append_assoc, List.cons_append, dropSpaces_spaces k '"' _ (by decide)]
  have := parseDQ_dqBody sh eu s rest
  simp only [List.nil_append, List.cons_append] at this ⊢
  rw [this]; rfl

/-- The first character of a layer-1 node's flow text is not a space, comma or closing bracket. -/
def goodHead (t : Str) : Prop :=
  ∃ c r, t = c :: r ∧ c ≠ ' ' ∧ c ≠ ']' ∧ c ≠ '}' ∧ c ≠ ','

theorem goodHead_tok (t : Str) (h : tokOk t) : goodHead t := by
  obtain ⟨hall, hne, _⟩ := h
  cases t with
  | nil => exact absurd rfl hne
  | cons c r =>
    have hc : simpleChar c = true := by simp only [List.all_cons, Bool.and_eq_true] at hall; exact hall.1
    refine ⟨c, r, rfl, ?_, ?_, ?_, ?_⟩ <;> (intro h; subst h; exact absurd hc (by decide))

theorem goodHead_flow (n : PNode) (h : n.l1 = true) : goodHead n.flow := by
  cases n with
  | null v => exact goodHead_tok _ (tokOk_nullText v (by simpa [PNode.l1] using h))
  | bool b v => exact goodHead_tok _ (tokOk_boolText b v)
  | int i v => exact goodHead_tok _ (tokOk_intText i v (by simpa [PNode.l1] using h))
  | str s st =>
    cases st <;> simp [PNode.l1] at h
    exact ⟨'"', _, rfl, by decide, by decide, by decide, by decide⟩
  | seq fl st c items => exact ⟨'[', _, rfl, by decide, by decide, by decide, by decide⟩
  | map fl st c es => exact ⟨'{', _, rfl, by decide, by decide, by decide, by decide⟩
  | anchored a n => simp [PNode.l1] at h
  | alias a t => simp [PNode.l1] at h

theorem delim_items (r : PItems) (rest : Str) : Delim (r.flow false ++ ']' :: rest) := by
  cases r with
  | nil => exact Or.inr ⟨']', rest, by simp [PItems.flow], by decide⟩
  | cons m x r' =>
    exact Or.inr ⟨',', spaces (m.gap + 1) ++ (x.flow ++ (r'.flow false ++ ']' :: rest)), by simp [PItems.flow], by decide⟩

theorem delim_entries (r : PEntries) (rest : Str) : Delim (r.flow false ++ '}' :: rest) := by
  cases r with
  | nil => exact Or.inr ⟨'}', rest, by simp [PEntries.flow], by decide⟩
  | cons m k ks x r' =>
    exact Or.inr ⟨',', ' ' :: (keyText k ks ++ ':' :: (spaces (m.gap + 1) ++ (x.flow ++ (r'.flow false ++ '}' :: rest)))),
      by simp [PEntries.flow], by decide⟩

/-- One item of a flow sequence. -/
theorem itemStep (f j : Nat) (xt R : Str) (xn : Node) (acc : List Node) (hg : goodHead xt)
    (hx : parseFlow f (xt ++ R) = .ok (xn, R)) :
    parseFlowSeq (f + 1) (spaces j ++ xt ++ R) acc = parseFlowSeqTail f R (xn :: acc) := by
  obtain ⟨c0, t0, rfl, g1, g2, g3, g4⟩ := hg
  rw [parseFlowSeq]
  simp only [List.append_assoc, List.cons_append, dropSpaces_spaces j c0 _ g1] at hx ⊢
  split
  · rename_i heq; exact absurd (List.cons.inj heq).1 g2
  · rw [hx]

/-- One entry of a flow mapping with a double-quoted key. -/
theorem entryStep (f j g : Nat) (sh eu : Bool) (k xt R : Str) (xn : Node) (acc : List (Node × Node)) (hg : goodHead xt)
    (hx : parseFlow f (spaces (g + 1) ++ xt ++ R) = .ok (xn, R)) :
    parseFlowMap (f + 1) (spaces j ++ dqText sh eu k ++ (':' :: spaces (g + 1)) ++ xt ++ R) acc
      = parseFlowMapTail f R ((.scalar false k, xn) :: acc) := by
  obtain ⟨c0, t0, rfl, g1, g2, g3, g4⟩ := hg
  rw [parseFlowMap]
  have hk : ∀ T, dropSpaces (spaces j ++ (dqText sh eu k ++ T)) = dqText sh eu k ++ T := by
    intro T; simp only [dqText, List.append_assoc, List.cons_append]; exact dropSpaces_spaces j '"' _ (by decide)
  simp only [List.append_assoc] at hx ⊢
  rw [hk]
  obtain ⟨f', rfl⟩ : ∃ f', f = f' + 1 := by
    cases f with
    | zero => simp [parseFlow] at hx
    | succ f' => exact ⟨f', rfl⟩
  have hkey := parseFlow_dq f' 0 sh eu k (':' :: (spaces (g + 1) ++ (c0 :: t0 ++ R)))
  simp only [spaces, List.replicate_zero, List.nil_append, List.append_assoc, List.cons_append] at hkey hx ⊢
  split
  · rename_i heq; simp [dqText] at heq
  · rw [hkey]
    simp only [dropSpaces, List.dropWhile_cons, show ((':' : Char) == ' ') = false by decide, Bool.false_eq_true, if_false]
    have hd : List.dropWhile (fun x => x == ' ') (List.replicate (g + 1) ' ' ++ c0 :: (t0 ++ R)) = c0 :: (t0 ++ R) := by
      have := dropSpaces_spaces (g + 1) c0 (t0 ++ R) g1
      simpa [dropSpaces, spaces] using this
    rw [hd]
    split
    · rename_i heq; exact absurd (List.cons.inj heq).1 g4
    · rename_i heq; exact absurd (List.cons.inj heq).1 g3
    · rw [hx]

mutual
theorem flowNode : (n : PNode) → n.l1 = true → ∀ (f : Nat) (rest : Str) (k : Nat), n.need ≤ f → Delim rest →
    parseFlow f (spaces k ++ n.flow ++ rest) = .ok (n.node, rest)
  | .null v, h, f, rest, k, hf, hd => by
    obtain ⟨f', rfl⟩ : ∃ f', f = f' + 1 := ⟨f - 1, by simp [PNode.need] at hf; omega⟩
    exact parseFlow_tok f' k _ rest (tokOk_nullText v (by simpa [PNode.l1] using h)) hd
  | .bool b v, h, f, rest, k, hf, hd => by
    obtain ⟨f', rfl⟩ : ∃ f', f = f' + 1 := ⟨f - 1, by simp [PNode.need] at hf; omega⟩
    exact parseFlow_tok f' k _ rest (tokOk_boolText b v) hd
  | .int i v, h, f, rest, k, hf, hd => by
    obtain ⟨f', rfl⟩ : ∃ f', f = f' + 1 := ⟨f - 1, by simp [PNode.need] at hf; omega⟩
    exact parseFlow_tok f' k _ rest (tokOk_intText i v (by simpa [PNode.l1] using h)) hd
  | .str s st, h, f, rest, k, hf, hd => by
    obtain ⟨f', rfl⟩ : ∃ f', f = f' + 1 := ⟨f - 1, by simp [PNode.need] at hf; omega⟩
    cases st <;> simp [PNode.l1] at h
    simp only [PNode.flow, strFlowText, PNode.node]
    exact parseFlow_dq f' k _ _ s rest
  | .seq fl st c items, h, f, rest, k, hf, hd => by
    have hfl : fl = true := by cases fl <;> simp [PNode.l1] at h ⊢
    subst hfl
    have hi : items.l1 = true := by simpa [PNode.l1] using h
    obtain ⟨f', rfl⟩ : ∃ f', f = f' + 2 := ⟨f - 2, by simp [PNode.need] at hf; omega⟩
    have hf' : items.need ≤ f' := by simp [PNode.need] at hf; omega
    rw [parseFlow]
    simp only [PNode.flow, List.append_assoc, List.cons_append, dropSpaces_spaces k '[' _ (by decide), PNode.node]
    cases items with
    | nil =>
      rw [parseFlowSeq]
      simp [PItems.flow, dropSpaces, PItems.nodes]
    | cons m x r =>
      have hx : x.l1 = true := by simp [PItems.l1] at hi; exact hi.1
      have hr : r.l1 = true := by simp [PItems.l1] at hi; exact hi.2
      have hneed : x.need + r.need + 2 ≤ f' := by simpa [PItems.need] using hf'
      have e2 := flowNode x hx f' (r.flow false ++ ']' :: rest) 0 (by omega) (delim_items r rest)
      simp only [spaces, List.replicate_zero, List.nil_append, List.append_assoc] at e2
      have st := itemStep f' m.gap x.flow (r.flow false ++ ']' :: rest) x.node [] (goodHead_flow x hx) e2
      simp only [PItems.flow, if_true, List.nil_append, List.append_assoc] at st ⊢
      rw [st, flowItemsTail r hr f' rest [x.node] (by omega)]
      simp [PItems.nodes]
  | .map fl st c es, h, f, rest, k, hf, hd => by
    have hfl : fl = true := by cases fl <;> simp [PNode.l1] at h ⊢
    subst hfl
    have hi : es.l1 = true := by simpa [PNode.l1] using h
    obtain ⟨f', rfl⟩ : ∃ f', f = f' + 2 := ⟨f - 2, by simp [PNode.need] at hf; omega⟩
    have hf' : es.need ≤ f' := by simp [PNode.need] at hf; omega
    rw [parseFlow]
    simp only [PNode.flow, List.append_assoc, List.cons_append, dropSpaces_spaces k '{' _ (by decide), PNode.node]
    cases es with
    | nil =>
      rw [parseFlowMap]
      simp [PEntries.flow, dropSpaces, PEntries.nodes]
    | cons m key ks x r =>
      have hks : ∃ sh eu, ks = .double sh eu := by
        cases ks <;> simp [PEntries.l1] at hi
        exact ⟨_, _, rfl⟩
      obtain ⟨sh, eu, rfl⟩ := hks
      have hx : x.l1 = true := by simp [PEntries.l1] at hi; exact hi.1
      have hr : r.l1 = true := by simp [PEntries.l1] at hi; exact hi.2
      have hneed : x.need + r.need + 3 ≤ f' := by simpa [PEntries.need] using hf'
      have e2 := flowNode x hx f' (r.flow false ++ '}' :: rest) (m.gap + 1) (by omega) (delim_entries r rest)
      have st := entryStep f' 0 m.gap sh eu key x.flow (r.flow false ++ '}' :: rest) x.node [] (goodHead_flow x hx) e2
      simp only [spaces, List.replicate_zero, PEntries.flow, if_true, List.nil_append, List.append_assoc, keyText, List.cons_append] at st ⊢
      rw [st, flowEntriesTail r hr f' rest [(.scalar false key, x.node)] (by omega)]
      simp [PEntries.nodes, keyNode]
  | .anchored a n, h, _, _, _, _, _ => by simp [PNode.l1] at h
  | .alias a t, h, _, _, _, _, _ => by simp [PNode.l1] at h
theorem flowItemsTail : (items : PItems) → items.l1 = true → ∀ (f : Nat) (rest : Str) (acc : List Node), items.need ≤ f →
    parseFlowSeqTail f (items.flow false ++ ']' :: rest) acc = .ok (.seq (acc.reverse ++ items.nodes), rest)
  | .nil, _, f, rest, acc, hf => by
    obtain ⟨f', rfl⟩ : ∃ f', f = f' + 1 := ⟨f - 1, by simp [PItems.need] at hf; omega⟩
    rw [parseFlowSeqTail]
    simp [PItems.flow, dropSpaces, PItems.nodes]
  | .cons m x r, hi, f, rest, acc, hf => by
    have hx : x.l1 = true := by simp [PItems.l1] at hi; exact hi.1
    have hr : r.l1 = true := by simp [PItems.l1] at hi; exact hi.2
    have hneed : x.need + r.need + 2 ≤ f := by simpa [PItems.need] using hf
    obtain ⟨f'', rfl⟩ : ∃ f'', f = f'' + 2 := ⟨f - 2, by omega⟩
    rw [parseFlowSeqTail]
    simp only [PItems.flow, Bool.false_eq_true, if_false, List.append_assoc, List.cons_append, List.nil_append,
      dropSpaces, List.dropWhile_cons]
    simp only [show ((',' : Char) == ' ') = false by decide, Bool.false_eq_true, if_false]
    have e2 := flowNode x hx f'' (r.flow false ++ ']' :: rest) 0 (by omega) (delim_items r rest)
    simp only [spaces, List.replicate_zero, List.nil_append, List.append_assoc] at e2
    have st := itemStep f'' (m.gap + 1) x.flow (r.flow false ++ ']' :: rest) x.node acc (goodHead_flow x hx) e2
    simp only [List.append_assoc] at st
    rw [st, flowItemsTail r hr f'' rest (x.node :: acc) (by omega)]
    simp [PItems.nodes]
theorem flowEntriesTail : (es : PEntries) → es.l1 = true → ∀ (f : Nat) (rest : Str) (acc : List (Node × Node)), es.need ≤ f →
    parseFlowMapTail f (es.flow false ++ '}' :: rest) acc = .ok (.map (acc.reverse ++ es.nodes), rest)
  | .nil, _, f, rest, acc, hf => by
    obtain ⟨f', rfl⟩ : ∃ f', f = f' + 1 := ⟨f - 1, by simp [PEntries.need] at hf; omega⟩
    rw [parseFlowMapTail]
    simp [PEntries.flow, dropSpaces, PEntries.nodes]
  | .cons m key ks x r, hi, f, rest, acc, hf => by
    have hks : ∃ sh eu, ks = .double sh eu := by
      cases ks <;> simp [PEntries.l1] at hi
      exact ⟨_, _, rfl⟩
    obtain ⟨sh, eu, rfl⟩ := hks
    have hx : x.l1 = true := by simp [PEntries.l1] at hi; exact hi.1
    have hr : r.l1 = true := by simp [PEntries.l1] at hi; exact hi.2
    have hneed : x.need + r.need + 3 ≤ f := by simpa [PEntries.need] using hf
    obtain ⟨f'', rfl⟩ : ∃ f'', f = f'' + 2 := ⟨f - 2, by omega⟩
    rw [parseFlowMapTail]
    simp only [PEntries.flow, Bool.false_eq_true, if_false, List.append_assoc, List.cons_append, List.nil_append,
      dropSpaces, List.dropWhile_cons]
    simp only [show ((',' : Char) == ' ') = false by decide, Bool.false_eq_true, if_false]
    have e2 := flowNode x hx f'' (r.flow false ++ '}' :: rest) (m.gap + 1) (by omega) (delim_entries r rest)
    have st := entryStep f'' 1 m.gap sh eu key x.flow (r.flow false ++ '}' :: rest) x.node acc (goodHead_flow x hx) e2
    simp only [spaces, List.replicate_succ, List.replicate_zero, List.append_assoc, List.cons_append, List.nil_append, keyText] at st ⊢
    rw [st, flowEntriesTail r hr f'' rest ((.scalar false key, x.node) :: acc) (by omega)]
    simp [PEntries.nodes, keyNode]
end


theorem isDigit_eq (c : Char) : isDigit c = c.isDigit := by
  simp only [isDigit, Char.isDigit]
  rfl

theorem resolvePlain_digits (s : Str) (hne : s ≠ []) (hall : s.all isDigit = true) :
    resolvePlain s = .int (natOfDigits 10 s) := by
  cases s with
  | nil => exact absurd rfl hne
  | cons c t =>
    have hc : isDigit c = true := by simp only [List.all_cons, Bool.and_eq_true] at hall; exact hall.1
    have hw : ∀ w : Str, (∃ d r, w = d :: r ∧ isDigit d = false) → c :: t ≠ w := by
      intro w ⟨d, r, hw, hd⟩ h
      rw [hw] at h
      have := (List.cons.inj h).1
      subst this; rw [hc] at hd; cases hd
    unfold resolvePlain
    rw [if_neg, if_neg, if_neg]
    · split
      · rename_i ds heq
        exfalso
        have h2 := (List.cons.inj heq).2
        subst h2
        simp only [List.all_cons, Bool.and_eq_true] at hall
        exact absurd hall.2.1 (by decide)
      · rename_i ds heq
        exfalso
        have h2 := (List.cons.inj heq).2
        subst h2
        simp only [List.all_cons, Bool.and_eq_true] at hall
        exact absurd hall.2.1 (by decide)
      · rename_i ds heq
        exfalso
        have h1 := (List.cons.inj heq).1
        subst h1; exact absurd hc (by decide)
      · rename_i ds heq
        exfalso
        have h1 := (List.cons.inj heq).1
        subst h1; exact absurd hc (by decide)
      · simp [allDigits, hall]
    · intro h
      rcases h with h | h | h <;> exact hw _ ⟨_, _, rfl, by decide⟩ h
    · intro h
      rcases h with h | h | h <;> exact hw _ ⟨_, _, rfl, by decide⟩ h
    · intro h
      rcases h with h | h | h | h | h
      · cases h
      all_goals exact hw _ ⟨_, _, rfl, by decide⟩ h

theorem resolvePlain_neg (s : Str) (hne : s ≠ []) (hall : s.all isDigit = true) :
    resolvePlain ('-' :: s) = .int (- (natOfDigits 10 s : Int)) := by
  have hw : ∀ w : Str, (∃ d r, w = d :: r ∧ d ≠ '-') → '-' :: s ≠ w := by
    intro w ⟨d, r, hw, hd⟩ h
    rw [hw] at h
    exact hd (List.cons.inj h).1.symm
  unfold resolvePlain
  rw [if_neg, if_neg, if_neg]
  · simp [allDigits, hall, hne]
  · intro h
    rcases h with h | h | h <;> exact hw _ ⟨_, _, rfl, by decide⟩ h
  · intro h
    rcases h with h | h | h <;> exact hw _ ⟨_, _, rfl, by decide⟩ h
  · intro h
    rcases h with h | h | h | h | h
    · cases h
    all_goals exact hw _ ⟨_, _, rfl, by decide⟩ h


/-! ## Resolution of layer-1 syntax trees -/

theorem toDigits10_isDigit (n : Nat) : (Nat.toDigits 10 n).all isDigit = true := by
  rw [List.all_eq_true]
  intro c hc
  rw [isDigit_eq]
  exact Nat.isDigit_of_mem_toDigits (b := 10) (by decide) (by decide) hc

theorem resolvePlain_nullText (v : Nat) : resolvePlain (nullText v) = .null := by
  have : v % 5 = 0 ∨ v % 5 = 1 ∨ v % 5 = 2 ∨ v % 5 = 3 ∨ v % 5 = 4 := by omega
  rcases this with h | h | h | h | h <;> simp only [nullText, h] <;> decide

theorem resolvePlain_boolText (b : Bool) (v : Nat) : resolvePlain (boolText b v) = .bool b := by
  have : v % 3 = 0 ∨ v % 3 = 1 ∨ v % 3 = 2 := by omega
  cases b <;> rcases this with h | h | h <;> simp only [boolText, h] <;> decide

theorem resolvePlain_intText (i : Int) (v : Nat) (h : v % 5 = 0) : resolvePlain (intText i v) = .int i := by
  unfold intText
  simp only [h]
  split
  · rename_i hi
    rw [natDigits, resolvePlain_digits _ Nat.toDigits_ne_nil (toDigits10_isDigit _),
      natOfDigits_toDigits 10 (by decide) (by decide)]
    congr 1; omega
  · rename_i hi
    rw [natDigits, resolvePlain_neg _ Nat.toDigits_ne_nil (toDigits10_isDigit _),
      natOfDigits_toDigits 10 (by decide) (by decide)]
    congr 1; omega

mutual
theorem resolveNode : (n : PNode) → n.l1 = true → ∀ env, n.node.resolve env = .ok (n.tree, env)
  | .null v, _, env => by simp [PNode.node, Node.resolve, resolveScalar, resolvePlain_nullText, PNode.tree]; rfl
  | .bool b v, _, env => by simp [PNode.node, Node.resolve, resolveScalar, resolvePlain_boolText, PNode.tree]; rfl
  | .int i v, h, env => by
    have hv : v % 5 = 0 := by simpa [PNode.l1] using h
    simp [PNode.node, Node.resolve, resolveScalar, resolvePlain_intText i v hv, PNode.tree]; rfl
  | .str s st, h, env => by
    cases st <;> simp [PNode.l1] at h
    simp [PNode.node, Node.resolve, resolveScalar, PNode.tree]; rfl
  | .seq fl st c items, h, env => by
    have hfl : fl = true := by cases fl <;> simp [PNode.l1] at h ⊢
    subst hfl
    have hi : items.l1 = true := by simpa [PNode.l1] using h
    simp [PNode.node, Node.resolve, resolveItems items hi env, PNode.tree]; rfl
  | .map fl st c es, h, env => by
    have hfl : fl = true := by cases fl <;> simp [PNode.l1] at h ⊢
    subst hfl
    have hi : es.l1 = true := by simpa [PNode.l1] using h
    simp [PNode.node, Node.resolve, resolveEntries es hi env, PNode.tree]; rfl
  | .anchored a n, h, _ => by simp [PNode.l1] at h
  | .alias a t, h, _ => by simp [PNode.l1] at h
theorem resolveItems : (items : PItems) → items.l1 = true → ∀ env, resolveList env items.nodes = .ok (items.trees, env)
  | .nil, _, env => by simp [PItems.nodes, resolveList, PItems.trees]
  | .cons m x r, hi, env => by
    have hx : x.l1 = true := by simp [PItems.l1] at hi; exact hi.1
    have hr : r.l1 = true := by simp [PItems.l1] at hi; exact hi.2
    simp [PItems.nodes, resolveList, resolveNode x hx env, resolveItems r hr env, PItems.trees]; rfl
theorem resolveEntries : (es : PEntries) → es.l1 = true → ∀ env, resolveKVs env es.nodes = .ok (es.trees, env)
  | .nil, _, env => by simp [PEntries.nodes, resolveKVs, PEntries.trees]
  | .cons m k ks x r, hi, env => by
    have hks : ∃ sh eu, ks = .double sh eu := by
      cases ks <;> simp [PEntries.l1] at hi
      exact ⟨_, _, rfl⟩
    obtain ⟨sh, eu, rfl⟩ := hks
    have hx : x.l1 = true := by simp [PEntries.l1] at hi; exact hi.1
    have hr : r.l1 = true := by simp [PEntries.l1] at hi; exact hi.2
    simp [PEntries.nodes, resolveKVs, keyNode, resolveKey, resolveNode x hx env, resolveEntries r hr env, PEntries.trees]; rfl
end


/-! ## Flow text contains no line break; fuel bound -/

def okc (c : Char) : Bool := c != '\n' && c != '\r'

theorem okc_simple (c : Char) (h : simpleChar c = true) : okc c = true := by
  simp only [okc, Bool.and_eq_true, bne_iff_ne]
  constructor <;> (intro hc; subst hc; exact absurd h (by decide))

theorem okc_tok (t : Str) (h : tokOk t) : t.all okc = true := by
  rw [List.all_eq_true]; intro c hc
  exact okc_simple c (List.all_eq_true.mp h.1 c hc)

theorem okc_spaces (k : Nat) : (spaces k).all okc = true := by
  simp [spaces, List.all_replicate]; right; decide

theorem okc_hexFixed (w n : Nat) : (hexFixed w n).all okc = true := by
  induction w generalizing n with
  | zero => simp [hexFixed]
  | succ w ih =>
    simp only [hexFixed, List.all_append, ih, List.all_cons, List.all_nil, Bool.and_true, Bool.true_and]
    have hd : n % 16 < 16 := Nat.mod_lt _ (by omega)
    have : n % 16 = 0 ∨ n % 16 = 1 ∨ n % 16 = 2 ∨ n % 16 = 3 ∨ n % 16 = 4 ∨ n % 16 = 5 ∨ n % 16 = 6 ∨ n % 16 = 7 ∨
      n % 16 = 8 ∨ n % 16 = 9 ∨ n % 16 = 10 ∨ n % 16 = 11 ∨ n % 16 = 12 ∨ n % 16 = 13 ∨ n % 16 = 14 ∨ n % 16 = 15 := by omega
    rcases this with h | h | h | h | h | h | h | h | h | h | h | h | h | h | h | h <;> rw [h] <;> decide

theorem okc_numEscape (c : Char) : (numEscape c).all okc = true := by
  unfold numEscape
  simp only
  split
  · simp only [List.all_cons, okc_hexFixed, Bool.and_true]; decide
  · split
    · simp only [List.all_cons, okc_hexFixed, Bool.and_true]; decide
    · simp only [List.all_cons, okc_hexFixed, Bool.and_true]; decide

theorem okc_printable (c : Char) (h : isPrintable c = true) : okc c = true := by
  simp only [okc, Bool.and_eq_true, bne_iff_ne]
  constructor <;> (intro hc; subst hc; exact absurd h (by decide))

theorem okc_shortEscape (c e : Char) (h : shortEscape? c = some e) : okc e = true := by
  unfold shortEscape? at h
  split at h <;> simp at h <;> subst h <;> decide

theorem okc_dqChar (sh eu : Bool) (c : Char) : (dqChar sh eu c).all okc = true := by
  unfold dqChar
  split
  · decide
  · split
    · decide
    · split
      · rename_i h3
        have hp : isPrintable c = true := by
          simp only [Bool.and_eq_true] at h3; exact h3.1.1
        simp [okc_printable c hp]
      · split
        · split
          · rename_i e he
            simp only [List.all_cons, List.all_nil, Bool.and_true, okc_shortEscape c e he]; decide
          · exact okc_numEscape c
        · exact okc_numEscape c

theorem okc_dqText (sh eu : Bool) (s : Str) : (dqText sh eu s).all okc = true := by
  simp only [dqText, List.all_cons, List.all_append, List.all_nil, Bool.and_true]
  refine Bool.and_eq_true_iff.mpr ⟨by decide, Bool.and_eq_true_iff.mpr ⟨?_, by decide⟩⟩
  rw [List.all_eq_true]
  intro x hx
  obtain ⟨c, _, hc⟩ := List.mem_flatMap.mp hx
  exact List.all_eq_true.mp (okc_dqChar sh eu c) x hc

mutual
theorem okc_flow : (n : PNode) → n.l1 = true → n.flow.all okc = true
  | .null v, h => okc_tok _ (tokOk_nullText v (by simpa [PNode.l1] using h))
  | .bool b v, _ => okc_tok _ (tokOk_boolText b v)
  | .int i v, h => okc_tok _ (tokOk_intText i v (by simpa [PNode.l1] using h))
  | .str s st, h => by
    cases st <;> simp [PNode.l1] at h
    exact okc_dqText _ _ s
  | .seq fl st c items, h => by
    have hfl : fl = true := by cases fl <;> simp [PNode.l1] at h ⊢
    subst hfl
    have hi : items.l1 = true := by simpa [PNode.l1] using h
    simp only [PNode.flow, List.all_cons, List.all_append, okc_flowItems items hi true, List.all_nil, Bool.and_true]
    decide
  | .map fl st c es, h => by
    have hfl : fl = true := by cases fl <;> simp [PNode.l1] at h ⊢
    subst hfl
    have hi : es.l1 = true := by simpa [PNode.l1] using h
    simp only [PNode.flow, List.all_cons, List.all_append, okc_flowEntries es hi true, List.all_nil, Bool.and_true]
    decide
  | .anchored a n, h => by simp [PNode.l1] at h
  | .alias a t, h => by simp [PNode.l1] at h
theorem okc_flowItems : (items : PItems) → items.l1 = true → ∀ first, (items.flow first).all okc = true
  | .nil, _, _ => by simp [PItems.flow]
  | .cons m x r, hi, first => by
    have hx : x.l1 = true := by simp [PItems.l1] at hi; exact hi.1
    have hr : r.l1 = true := by simp [PItems.l1] at hi; exact hi.2
    simp only [PItems.flow, List.all_append, okc_spaces, okc_flow x hx, okc_flowItems r hr false, Bool.and_true, Bool.true_and]
    cases first <;> decide
theorem okc_flowEntries : (es : PEntries) → es.l1 = true → ∀ first, (es.flow first).all okc = true
  | .nil, _, _ => by simp [PEntries.flow]
  | .cons m k ks x r, hi, first => by
    have hks : ∃ sh eu, ks = .double sh eu := by
      cases ks <;> simp [PEntries.l1] at hi
      exact ⟨_, _, rfl⟩
    obtain ⟨sh, eu, rfl⟩ := hks
    have hx : x.l1 = true := by simp [PEntries.l1] at hi; exact hi.1
    have hr : r.l1 = true := by simp [PEntries.l1] at hi; exact hi.2
    simp only [PEntries.flow, keyText, List.all_append, List.all_cons, okc_spaces, okc_dqText, okc_flow x hx,
      okc_flowEntries r hr false, Bool.and_true, Bool.true_and]
    cases first <;> decide
end

/-! fuel bound: `need n + 2 ≤ 4 * |flow text|` -/

theorem flow_length_pos (n : PNode) (h : n.l1 = true) : 1 ≤ n.flow.length := by
  obtain ⟨c, r, hc, _⟩ := goodHead_flow n h
  rw [hc]; simp

mutual
theorem need_bound : (n : PNode) → n.l1 = true → n.need + 2 ≤ 4 * n.flow.length
  | .null v, h => by have := flow_length_pos (.null v) h; simp [PNode.need] at *; omega
  | .bool b v, h => by have := flow_length_pos (.bool b v) h; simp [PNode.need] at *; omega
  | .int i v, h => by have := flow_length_pos (.int i v) h; simp [PNode.need] at *; omega
  | .str s st, h => by have := flow_length_pos (.str s st) h; simp [PNode.need] at *; omega
  | .seq fl st c items, h => by
    have hfl : fl = true := by cases fl <;> simp [PNode.l1] at h ⊢
    subst hfl
    have hi : items.l1 = true := by simpa [PNode.l1] using h
    have := need_boundItems items hi true
    simp [PNode.need, PNode.flow] at *; omega
  | .map fl st c es, h => by
    have hfl : fl = true := by cases fl <;> simp [PNode.l1] at h ⊢
    subst hfl
    have hi : es.l1 = true := by simpa [PNode.l1] using h
    have := need_boundEntries es hi true
    simp [PNode.need, PNode.flow] at *; omega
  | .anchored a n, h => by simp [PNode.l1] at h
  | .alias a t, h => by simp [PNode.l1] at h
theorem need_boundItems : (items : PItems) → items.l1 = true → ∀ first, items.need ≤ 4 * (items.flow first).length + 4
  | .nil, _, _ => by simp [PItems.need]
  | .cons m x r, hi, first => by
    have hx : x.l1 = true := by simp [PItems.l1] at hi; exact hi.1
    have hr : r.l1 = true := by simp [PItems.l1] at hi; exact hi.2
    have h1 := need_bound x hx
    have h2 := need_boundItems r hr false
    simp only [PItems.need, PItems.flow, List.length_append]
    omega
theorem need_boundEntries : (es : PEntries) → es.l1 = true → ∀ first, es.need ≤ 4 * (es.flow first).length + 4
  | .nil, _, _ => by simp [PEntries.need]
  | .cons m k ks x r, hi, first => by
    have hx : x.l1 = true := by cases ks <;> simp [PEntries.l1] at hi <;> exact hi.1
    have hr : r.l1 = true := by cases ks <;> simp [PEntries.l1] at hi <;> exact hi.2
    have h1 := need_bound x hx
    have h2 := need_boundEntries r hr false
    simp only [PEntries.need, PEntries.flow, List.length_append, List.length_cons]
    omega
end


/-! ## A document consisting of one inline line -/

theorem normBreaks_id (s : Str) (h : s.all (· != '\r') = true) : normBreaks s = s := by
  induction s with
  | nil => simp [normBreaks]
  | cons c t ih =>
    simp only [List.all_cons, Bool.and_eq_true] at h
    have hc : c ≠ '\r' := by simpa using h.1
    rw [normBreaks.eq_def]
    split
    · rename_i heq; simp at heq
    · rename_i heq; exact absurd (List.cons.inj heq).1 hc
    · rename_i heq; exact absurd (List.cons.inj heq).1 hc
    · rename_i c' rest _ _ heq
      obtain ⟨rfl, rfl⟩ := List.cons.inj heq
      rw [ih h.2]

theorem splitNl_line (X : Str) (h : X.all okc = true) : splitNl (X ++ ['\n']) = [X, []] := by
  induction X with
  | nil => simp [splitNl]
  | cons c t ih =>
    simp only [List.all_cons, Bool.and_eq_true] at h
    have hc : c ≠ '\n' := by
      have := h.1; simp only [okc, Bool.and_eq_true, bne_iff_ne] at this; exact this.1
    simp only [List.cons_append, splitNl, ih h.2]
    simp [hc]

theorem linesOf_line (c : Char) (r : Str) (hsp : c ≠ ' ') (h : (c :: r).all okc = true) :
    linesOf ((c :: r) ++ ['\n']) = [⟨0, c :: r⟩] := by
  unfold linesOf
  rw [splitNl_line _ h]
  simp [mkLine, List.takeWhile_cons, List.dropWhile_cons, hsp]

/-- Head characters of layer-1 inline text. -/
def headClass (c : Char) : Prop := simpleChar c = true ∨ c = '"' ∨ c = '[' ∨ c = '{'

theorem headClass_ne (c : Char) (h : headClass c) (d : Char)
    (hd : simpleChar d = false ∧ d ≠ '"' ∧ d ≠ '[' ∧ d ≠ '{') : c ≠ d := by
  intro e; subst e
  rcases h with h | h | h | h
  · rw [hd.1] at h; cases h
  · exact hd.2.1 h
  · exact hd.2.2.1 h
  · exact hd.2.2.2 h

theorem parseBlock_inline (f : Nat) (c : Char) (r : Str) (nd : Node)
    (hsp : c ≠ ' ') (htab : c ≠ '\t') (hhash : c ≠ '#') (hbar : c ≠ '|') (hgt : c ≠ '>') (hamp : c ≠ '&')
    (hdash : isDash (c :: r) = false)
    (hkey : splitKey (c :: r) = .ok none)
    (hinl : parseInline (c :: r) = .ok nd) :
    parseBlock (f + 2) 0 false [⟨0, c :: r⟩] = .ok (nd, []) := by
  have hfill : Line.isFiller ⟨0, c :: r⟩ = false := by simp [Line.isFiller, hhash]
  have hds : dropSpaces (c :: r) = c :: r := by simp [dropSpaces, List.dropWhile_cons, hsp]
  have htw : List.takeWhile (fun x => x == ' ') (c :: r) = [] := by simp [List.takeWhile_cons, hsp]
  have hpa : parseAfter (f + 1) (c :: r) 0 0 false false [] = .ok (nd, []) := by
    rw [parseAfter]
    simp only [htw, hds, List.length_nil, List.head?_cons, show (some c == some '\t') = false by simp [htab],
      Bool.false_eq_true, if_false, List.isEmpty_cons, show (some c == some '#') = false by simp [hhash],
      Bool.false_and, Bool.or_self]
    split
    · rename_i heq; exact absurd (List.cons.inj heq).1 hbar
    · rename_i heq; exact absurd (List.cons.inj heq).1 hgt
    · rename_i heq; exact absurd (List.cons.inj heq).1 hamp
    · simp only [hdash, Bool.false_eq_true, if_false, hkey, hinl]
      rfl
  rw [parseBlock]
  simp only [skipFill, hfill, Bool.false_eq_true, if_false, List.head?_cons]
  simp only [show (some c == some '\t') = false by simp [htab], Bool.false_eq_true, if_false,
    show (0 + 1 = 0) = False by simp, false_and, hdash, Nat.not_lt_zero, hkey, Bool.and_false, hpa]
  simp [skipFill]

theorem loadChars_inline (c : Char) (r : Str) (nd : Node) (t : Tree)
    (hc : headClass c) (hok : (c :: r).all okc = true)
    (hdash : isDash (c :: r) = false)
    (hstart : ("---".toList).isPrefixOf (c :: r) = false)
    (hkey : splitKey (c :: r) = .ok none)
    (hinl : parseInline (c :: r) = .ok nd)
    (hres : nd.resolve [] = .ok (t, [])) :
    loadChars ((c :: r) ++ ['\n']) = .ok [t] := by
  have hsp : c ≠ ' ' := headClass_ne c hc ' ' (by decide)
  have hbom : c ≠ '﻿' := headClass_ne c hc '﻿' (by decide)
  have htab : c ≠ '\t' := headClass_ne c hc '\t' (by decide)
  have hhash : c ≠ '#' := headClass_ne c hc '#' (by decide)
  have hpct : c ≠ '%' := headClass_ne c hc '%' (by decide)
  have hdot : c ≠ '.' := headClass_ne c hc '.' (by decide)
  have hbar : c ≠ '|' := headClass_ne c hc '|' (by decide)
  have hgt : c ≠ '>' := headClass_ne c hc '>' (by decide)
  have hamp : c ≠ '&' := headClass_ne c hc '&' (by decide)
  have hnocr : ((c :: r) ++ ['\n']).all (· != '\r') = true := by
    rw [List.all_append]
    refine Bool.and_eq_true_iff.mpr ⟨?_, by decide⟩
    rw [List.all_eq_true] at hok ⊢
    intro x hx
    have := hok x hx
    simp only [okc, Bool.and_eq_true] at this; exact this.2
  have e0 : stripBom ((c :: r) ++ ['\n']) = (c :: r) ++ ['\n'] := by
    unfold stripBom
    split
    · rename_i heq; exact absurd (List.cons.inj heq).1 hbom
    · rfl
  unfold loadChars
  rw [e0, normBreaks_id _ hnocr, linesOf_line c r hsp hok]
  unfold loadLines
  simp only [List.length_cons, List.length_nil]
  have hfill : Line.isFiller ⟨0, c :: r⟩ = false := by simp [Line.isFiller, hhash]
  have hdocstart : isDocStart ⟨0, c :: r⟩ = false := by
    unfold isDocStart isMarker
    simp only [hstart, Bool.and_false, Bool.false_and]
  have hdocend : isDocEnd ⟨0, c :: r⟩ = false := by
    unfold isDocEnd isMarker
    have h1 : ("...".toList).isPrefixOf (c :: r) = false := by
      have e : "...".toList = ['.', '.', '.'] := by decide
      have h2 : ('.' == c) = false := by simp [Ne.symm hdot]
      rw [e]; simp only [List.isPrefixOf, h2, Bool.false_and]
    simp only [h1, Bool.and_false, Bool.false_and]
  simp only [parseDocs, skipFill, hfill, Bool.false_eq_true, if_false, List.head?_cons, Option.some.injEq, hpct,
    false_and, hdocend, hdocstart, takeDoc, Bool.or_self]
  have hp : (some c == some '%') = false := by simp [hpct]
  have hbody : parseDocBody none [⟨0, c :: r⟩] = .ok nd := by
    unfold parseDocBody
    have : ∃ f, fuelOf [⟨0, c :: r⟩] + (Option.getD (none : Option Str) []).length * 4 = f + 2 :=
      ⟨(r.length + 1 + 2) * 4 + 6, by simp [fuelOf]⟩
    obtain ⟨f, hf⟩ := this
    simp only [hf, parseBlock_inline f c r nd hsp htab hhash hbar hgt hamp hdash hkey hinl]
    simp [skipFill]
  simp only [hp, Bool.false_and, Bool.false_eq_true, if_false, hbody, Except.map, resolveDocs, hres]


/-! ## The three kinds of layer-1 root text -/

theorem restOk_nil : restOk [] = true := rfl

theorem inline_tok (t : Str) (ht : tokOk t) :
    isDash t = false ∧ splitKey t = .ok none ∧ parseInline t = .ok (.scalar true t) := by
  have hp := parsePlain_tok false t [] ht (Or.inl rfl)
  have hlen := plainLen_simple false t [] ht.1 (Or.inl rfl)
  simp only [List.append_nil] at hp hlen
  obtain ⟨hall, hne, hdash⟩ := ht
  cases t with
  | nil => exact absurd rfl hne
  | cons c r =>
    have hc : simpleChar c = true := by simp only [List.all_cons, Bool.and_eq_true] at hall; exact hall.1
    refine ⟨?_, ?_, ?_⟩
    · cases r with
      | nil =>
        by_cases h : c = '-'
        · subst h; have := hdash rfl; simp at this
        · unfold isDash; split <;> simp_all
      | cons d r' =>
        have hd : simpleChar d = true := by simp only [List.all_cons, Bool.and_eq_true] at hall; exact hall.2.1
        have : d ≠ ' ' := (simpleChar_facts d hd).2.1
        unfold isDash; split <;> simp_all
    · unfold splitKey
      split
      all_goals (try (rename_i heq; have := (List.cons.inj heq).1; subst this; exact absurd hc (by decide)))
      simp only [hlen, List.drop_length]
    · unfold parseInline
      split
      all_goals (try (rename_i heq; have := (List.cons.inj heq).1; subst this; exact absurd hc (by decide)))
      simp only [hp, restOk_nil, if_true]

theorem inline_dq (sh eu : Bool) (s : Str) :
    isDash (dqText sh eu s) = false ∧ splitKey (dqText sh eu s) = .ok none ∧
      parseInline (dqText sh eu s) = .ok (.scalar false s) := by
  have h := parseDQ_dqBody sh eu s []
  refine ⟨by simp [dqText, isDash], ?_, ?_⟩
  · simp only [dqText, splitKey, h]
    simp [dropSpaces]
  · simp only [dqText, parseInline, h, restOk_nil, if_true]

theorem inline_coll (n : PNode) (h : n.l1 = true) (c : Char) (r : Str) (hx : n.flow = c :: r) (hc : c = '[' ∨ c = '{') :
    isDash n.flow = false ∧ splitKey n.flow = .ok none ∧ parseInline n.flow = .ok n.node := by
  have hb := need_bound n h
  have hf := flowNode n h (4 * n.flow.length + 4) [] 0 (by omega) (Or.inl rfl)
  simp only [spaces, List.replicate_zero, List.nil_append, List.append_nil] at hf
  rw [hx] at hf ⊢
  rcases hc with rfl | rfl
  · refine ⟨by simp [isDash], by simp [splitKey], ?_⟩
    simp only [parseInline, hf, restOk_nil, if_true]
  · refine ⟨by simp [isDash], by simp [splitKey], ?_⟩
    simp only [parseInline, hf, restOk_nil, if_true]


/-! ## Layer 1: a single bare document whose root is a layer-1 node -/

/-- The stream consisting of one bare document (no `---`, no `...`, no filler). -/
def l1Stream (n : PNode) (g : Nat) : PStream := { docs := [{ root := n, rootMeta := { gap := g } }] }

theorem flatMap_lf (l : Str) : (l.flatMap fun c => if c == '\n' then breakText .lf else [c]) = l := by
  induction l with
  | nil => rfl
  | cons c t ih =>
    rw [List.flatMap_cons, ih]
    by_cases h : c = '\n' <;> simp [h, breakText]

theorem value_l1 (n : PNode) (h : n.l1 = true) (m : Meta) :
    n.value .root 0 0 m = spaces (m.gap + 1) ++ n.flow ++ trailText m.trail ++ ['\n'] := by
  cases n with
  | null v =>
    have hv : ¬ (v % 5 = 4) := by simpa [PNode.l1] using h
    simp [PNode.value, PNode.flow, hv]
  | bool b v => simp [PNode.value, PNode.flow]
  | int i v => simp [PNode.value, PNode.flow]
  | str s st =>
    cases st <;> simp [PNode.l1] at h
    simp [PNode.value, PNode.flow]
  | seq fl st c items =>
    have hfl : fl = true := by cases fl <;> simp [PNode.l1] at h ⊢
    subst hfl; simp [PNode.value]
  | map fl st c es =>
    have hfl : fl = true := by cases fl <;> simp [PNode.l1] at h ⊢
    subst hfl; simp [PNode.value]
  | anchored a n => simp [PNode.l1] at h
  | alias a t => simp [PNode.l1] at h

theorem isBlockColl_l1 (n : PNode) (h : n.l1 = true) : n.isBlockColl = false := by
  cases n with
  | seq fl st c items =>
    have hfl : fl = true := by cases fl <;> simp [PNode.l1] at h ⊢
    subst hfl; rfl
  | map fl st c es =>
    have hfl : fl = true := by cases fl <;> simp [PNode.l1] at h ⊢
    subst hfl; rfl
  | _ => rfl

theorem chars_l1 (n : PNode) (h : n.l1 = true) (g : Nat) : (l1Stream n g).chars = n.flow ++ ['\n'] := by
  obtain ⟨c, r, hx, g1, _⟩ := goodHead_flow n h
  simp only [PStream.chars, l1Stream, List.flatMap_cons, List.flatMap_nil, List.append_nil, flatMap_lf]
  simp only [PDoc.text, fillText, List.flatMap_nil, List.nil_append, Bool.false_eq_true, if_false,
    isBlockColl_l1 n h, Bool.false_and, value_l1 n h, trailText, List.append_nil]
  rw [hx]
  have := dropSpaces_spaces (g + 1) c (r ++ ['\n']) g1
  simpa [dropSpaces, List.append_assoc] using this

theorem notMarker_null (v : Nat) : ("---".toList).isPrefixOf (nullText v) = false := by
  have : v % 5 = 0 ∨ v % 5 = 1 ∨ v % 5 = 2 ∨ v % 5 = 3 ∨ v % 5 = 4 := by omega
  rcases this with h | h | h | h | h <;> simp only [nullText, h] <;> decide

theorem notMarker_bool (b : Bool) (v : Nat) : ("---".toList).isPrefixOf (boolText b v) = false := by
  have : v % 3 = 0 ∨ v % 3 = 1 ∨ v % 3 = 2 := by omega
  cases b <;> rcases this with h | h | h <;> simp only [boolText, h] <;> decide

theorem notMarker_of_head (c : Char) (r : Str) (h : c ≠ '-') : ("---".toList).isPrefixOf (c :: r) = false := by
  have e : "---".toList = ['-', '-', '-'] := by decide
  have h2 : ('-' == c) = false := by simp [Ne.symm h]
  rw [e]; simp only [List.isPrefixOf, h2, Bool.false_and]

theorem notMarker_int (i : Int) (v : Nat) (h : v % 5 = 0) : ("---".toList).isPrefixOf (intText i v) = false := by
  have e : "---".toList = ['-', '-', '-'] := by decide
  unfold intText
  simp only [h]
  split
  · cases hd : natDigits 10 i.toNat with
    | nil => rw [e]; rfl
    | cons c t =>
      have hm : c ∈ Nat.toDigits 10 i.toNat := by
        have : natDigits 10 i.toNat = Nat.toDigits 10 i.toNat := rfl
        rw [← this, hd]; simp
      have := Nat.isDigit_of_mem_toDigits (b := 10) (by decide) (by decide) hm
      exact notMarker_of_head c t (by intro hc; subst hc; exact absurd this (by decide))
  · cases hd : natDigits 10 i.natAbs with
    | nil => rw [e]; rfl
    | cons c t =>
      have hm : c ∈ Nat.toDigits 10 i.natAbs := by
        have : natDigits 10 i.natAbs = Nat.toDigits 10 i.natAbs := rfl
        rw [← this, hd]; simp
      have := Nat.isDigit_of_mem_toDigits (b := 10) (by decide) (by decide) hm
      have h2 : ('-' == c) = false := by
        have : c ≠ '-' := by intro hc; subst hc; exact absurd this (by decide)
        simp [Ne.symm this]
      rw [e]; simp only [List.isPrefixOf, beq_self_eq_true, Bool.true_and, h2, Bool.false_and]

theorem headClass_tok (t : Str) (ht : tokOk t) : ∃ c r, t = c :: r ∧ headClass c := by
  obtain ⟨hall, hne, _⟩ := ht
  cases t with
  | nil => exact absurd rfl hne
  | cons c r =>
    exact ⟨c, r, rfl, Or.inl (by simp only [List.all_cons, Bool.and_eq_true] at hall; exact hall.1)⟩

theorem load_tok (t : Str) (ht : tokOk t) (hm : ("---".toList).isPrefixOf t = false) (tr : Tree)
    (hres : (Node.scalar true t).resolve [] = .ok (tr, [])) : loadChars (t ++ ['\n']) = .ok [tr] := by
  obtain ⟨c, r, rfl, hc⟩ := headClass_tok t ht
  obtain ⟨h1, h2, h3⟩ := inline_tok _ ht
  exact loadChars_inline c r _ tr hc (okc_tok _ ht) h1 hm h2 h3 hres

/-- Layer 1 on characters. -/
theorem loadChars_l1 (n : PNode) (h : n.l1 = true) (g : Nat) :
    loadChars (l1Stream n g).chars = .ok [n.tree] := by
  rw [chars_l1 n h g]
  have hres := resolveNode n h []
  cases n with
  | null v =>
    exact load_tok _ (tokOk_nullText v (by simpa [PNode.l1] using h)) (notMarker_null v) _ hres
  | bool b v => exact load_tok _ (tokOk_boolText b v) (notMarker_bool b v) _ hres
  | int i v =>
    have hv : v % 5 = 0 := by simpa [PNode.l1] using h
    exact load_tok _ (tokOk_intText i v hv) (notMarker_int i v hv) _ hres
  | str s st =>
    cases st <;> simp [PNode.l1] at h
    rename_i sh eu
    obtain ⟨h1, h2, h3⟩ := inline_dq sh eu s
    have hok := okc_dqText sh eu s
    simp only [PNode.flow, strFlowText] at *
    simp only [dqText] at *
    exact loadChars_inline '"' _ _ _ (Or.inr (Or.inl rfl)) hok h1 (notMarker_of_head _ _ (by decide)) h2 h3 hres
  | seq fl st c items =>
    have hfl : fl = true := by cases fl <;> simp [PNode.l1] at h ⊢
    subst hfl
    obtain ⟨h1, h2, h3⟩ := inline_coll _ h '[' _ rfl (Or.inl rfl)
    have hok := okc_flow _ h
    simp only [PNode.flow] at *
    exact loadChars_inline '[' _ _ _ (Or.inr (Or.inr (Or.inl rfl))) hok h1 (notMarker_of_head _ _ (by decide)) h2 h3 hres
  | map fl st c es =>
    have hfl : fl = true := by cases fl <;> simp [PNode.l1] at h ⊢
    subst hfl
    obtain ⟨h1, h2, h3⟩ := inline_coll _ h '{' _ rfl (Or.inr rfl)
    have hok := okc_flow _ h
    simp only [PNode.flow] at *
    exact loadChars_inline '{' _ _ _ (Or.inr (Or.inr (Or.inr rfl))) hok h1 (notMarker_of_head _ _ (by decide)) h2 h3 hres
  | anchored a n => simp [PNode.l1] at h
  | alias a t => simp [PNode.l1] at h


/-! ## Line-break layer -/

def subBreaks (b : Break) (t : Str) : Str := t.flatMap fun c => if c == '\n' then breakText b else [c]

theorem normBreaks_crlf (t : Str) (h : t.all (· != '\r') = true) : normBreaks (subBreaks .crlf t) = t := by
  induction t with
  | nil => simp [subBreaks, normBreaks]
  | cons c t ih =>
    simp only [List.all_cons, Bool.and_eq_true] at h
    have hc : c ≠ '\r' := by simpa using h.1
    have ih' := ih h.2
    unfold subBreaks at ih' ⊢
    rw [List.flatMap_cons]
    by_cases hn : c = '\n'
    · subst hn
      simp only [breakText, beq_self_eq_true, if_true, List.cons_append, List.nil_append]
      rw [normBreaks.eq_def]
      simp only [breakText] at ih'
      simp only [ih']
    · have hn2 : (c == '\n') = false := by simp [hn]
      simp only [hn2, Bool.false_eq_true, if_false, List.cons_append, List.nil_append]
      rw [normBreaks.eq_def]
      split
      · rename_i heq; simp at heq
      · rename_i heq; exact absurd (List.cons.inj heq).1 hc
      · rename_i heq; exact absurd (List.cons.inj heq).1 hc
      · rename_i c' rest _ _ heq
        obtain ⟨rfl, rfl⟩ := List.cons.inj heq
        rw [ih']

theorem normBreaks_noLf (u : Str) (h : u.all (· != '\n') = true) :
    normBreaks u = u.map (fun c => if c == '\r' then '\n' else c) := by
  induction u with
  | nil => simp [normBreaks]
  | cons c u ih =>
    simp only [List.all_cons, Bool.and_eq_true] at h
    have ih' := ih h.2
    rw [normBreaks.eq_def]
    split
    · rename_i heq; simp at heq
    · rename_i rest heq
      exfalso
      have h2 := (List.cons.inj heq).2
      rw [h2] at h
      simp at h
    · rename_i rest _ heq
      obtain ⟨rfl, rfl⟩ := List.cons.inj heq
      simp [ih']
    · rename_i c' rest h1 h2 heq
      obtain ⟨rfl, rfl⟩ := List.cons.inj heq
      have : c ≠ '\r' := by
        intro hc; subst hc; exact h2 rfl
      simp [ih', this]

theorem normBreaks_cr (t : Str) (h : t.all (· != '\r') = true) : normBreaks (subBreaks .cr t) = t := by
  have hno : (subBreaks .cr t).all (· != '\n') = true := by
    unfold subBreaks
    rw [List.all_eq_true]
    intro x hx
    obtain ⟨c, _, hc⟩ := List.mem_flatMap.mp hx
    by_cases hn : c = '\n'
    · subst hn; simp [breakText] at hc; subst hc; decide
    · have hn2 : (c == '\n') = false := by simp [hn]
      simp [hn2] at hc; subst hc; simpa using hn
  rw [normBreaks_noLf _ hno]
  clear hno
  unfold subBreaks
  induction t with
  | nil => rfl
  | cons c t ih =>
    simp only [List.all_cons, Bool.and_eq_true] at h
    have hc : c ≠ '\r' := by simpa using h.1
    rw [List.flatMap_cons, List.map_append, ih h.2]
    by_cases hn : c = '\n'
    · subst hn; simp [breakText]
    · have hn2 : (c == '\n') = false := by simp [hn]
      simp [hn2, hc]

theorem normBreaks_lf (t : Str) (h : t.all (· != '\r') = true) : normBreaks (subBreaks .lf t) = t := by
  unfold subBreaks
  rw [flatMap_lf, normBreaks_id _ h]

theorem normBreaks_sub (b : Break) (t : Str) (h : t.all (· != '\r') = true) : normBreaks (subBreaks b t) = t := by
  cases b
  · exact normBreaks_lf t h
  · exact normBreaks_crlf t h
  · exact normBreaks_cr t h


/-- The stream's text with LF line breaks. -/
def PStream.lfChars (s : PStream) : Str := s.docs.flatMap PDoc.text

theorem chars_eq_sub (s : PStream) : s.chars = subBreaks s.br s.lfChars := rfl

theorem stripBom_sub (b : Break) (t : Str) : stripBom (subBreaks b t) = subBreaks b (stripBom t) := by
  cases t with
  | nil => rfl
  | cons c t' =>
    by_cases hb : c = '﻿'
    · subst hb
      simp [subBreaks, stripBom]
    · have e1 : stripBom (c :: t') = c :: t' := by
        unfold stripBom; split
        · rename_i heq; exact absurd (List.cons.inj heq).1 hb
        · rfl
      rw [e1]
      unfold subBreaks
      rw [List.flatMap_cons]
      by_cases hn : c = '\n'
      · subst hn
        cases b <;> simp [breakText, stripBom]
      · have hn2 : (c == '\n') = false := by simp [hn]
        simp only [hn2, Bool.false_eq_true, if_false, List.cons_append, List.nil_append]
        unfold stripBom; split
        · rename_i heq; exact absurd (List.cons.inj heq).1 hb
        · rfl

theorem all_stripBom (t : Str) (h : t.all (· != '\r') = true) : (stripBom t).all (· != '\r') = true := by
  unfold stripBom; split
  · simp only [List.all_cons, Bool.and_eq_true] at h; exact h.2
  · exact h

/-- Loading does not depend on the line-break convention, for every stream whose LF text contains no
carriage return. -/
theorem loadChars_breaks (s : PStream) (h : s.lfChars.all (· != '\r') = true) :
    loadChars s.chars = loadLines (linesOf (stripBom s.lfChars)) := by
  rw [chars_eq_sub]
  unfold loadChars
  rw [stripBom_sub, normBreaks_sub _ _ (all_stripBom _ h)]

theorem lfChars_l1 (n : PNode) (h : n.l1 = true) (g : Nat) : (l1Stream n g).lfChars = n.flow ++ ['\n'] := by
  have := chars_l1 n h g
  rw [chars_eq_sub] at this
  simp only [l1Stream, subBreaks, flatMap_lf] at this
  exact this

theorem loadChars_l1_breaks (n : PNode) (h : n.l1 = true) (g : Nat) (b : Break) :
    loadChars ({ l1Stream n g with br := b } : PStream).chars = .ok [n.tree] := by
  have e : ({ l1Stream n g with br := b } : PStream).lfChars = (l1Stream n g).lfChars := rfl
  have hl := lfChars_l1 n h g
  have hnocr : (l1Stream n g).lfChars.all (· != '\r') = true := by
    rw [hl, List.all_append]
    refine Bool.and_eq_true_iff.mpr ⟨?_, by decide⟩
    have hok := okc_flow n h
    rw [List.all_eq_true] at hok ⊢
    intro x hx
    have := hok x hx
    simp only [okc, Bool.and_eq_true] at this; exact this.2
  rw [loadChars_breaks _ (by rw [e]; exact hnocr), e]
  have h0 := loadChars_l1 n h g
  rw [loadChars_breaks _ hnocr] at h0
  exact h0


/-! ## Layer 2, first step: a root block sequence of layer-1 items -/

/-- What the line-level parser needs to know about an inline node's text. -/
structure InlineFacts (X : Str) (nd : Node) : Prop where
  head : ∃ c r, X = c :: r ∧ headClass c
  ok : X.all okc = true
  dash : isDash X = false
  key : splitKey X = .ok none
  inl : parseInline X = .ok nd

theorem inlineFacts_l1 (n : PNode) (h : n.l1 = true) : InlineFacts n.flow n.node := by
  cases n with
  | null v =>
    have ht := tokOk_nullText v (by simpa [PNode.l1] using h)
    obtain ⟨h1, h2, h3⟩ := inline_tok _ ht
    exact ⟨headClass_tok _ ht, okc_tok _ ht, h1, h2, h3⟩
  | bool b v =>
    have ht := tokOk_boolText b v
    obtain ⟨h1, h2, h3⟩ := inline_tok _ ht
    exact ⟨headClass_tok _ ht, okc_tok _ ht, h1, h2, h3⟩
  | int i v =>
    have ht := tokOk_intText i v (by simpa [PNode.l1] using h)
    obtain ⟨h1, h2, h3⟩ := inline_tok _ ht
    exact ⟨headClass_tok _ ht, okc_tok _ ht, h1, h2, h3⟩
  | str s st =>
    cases st <;> simp [PNode.l1] at h
    rename_i sh eu
    obtain ⟨h1, h2, h3⟩ := inline_dq sh eu s
    exact ⟨⟨'"', _, rfl, Or.inr (Or.inl rfl)⟩, okc_dqText sh eu s, h1, h2, h3⟩
  | seq fl st c items =>
    have hfl : fl = true := by cases fl <;> simp [PNode.l1] at h ⊢
    subst hfl
    obtain ⟨h1, h2, h3⟩ := inline_coll _ h '[' _ rfl (Or.inl rfl)
    exact ⟨⟨'[', _, rfl, Or.inr (Or.inr (Or.inl rfl))⟩, okc_flow _ h, h1, h2, h3⟩
  | map fl st c es =>
    have hfl : fl = true := by cases fl <;> simp [PNode.l1] at h ⊢
    subst hfl
    obtain ⟨h1, h2, h3⟩ := inline_coll _ h '{' _ rfl (Or.inr rfl)
    exact ⟨⟨'{', _, rfl, Or.inr (Or.inr (Or.inr rfl))⟩, okc_flow _ h, h1, h2, h3⟩
  | anchored a n => simp [PNode.l1] at h
  | alias a t => simp [PNode.l1] at h

/-- An inline node after an indicator (`-`, `key:`), on a line followed by `ls`. -/
theorem parseAfter_inline (f g col pn : Nat) (cOk sSame : Bool) (X : Str) (nd : Node) (ls : List Line)
    (hf : InlineFacts X nd) :
    parseAfter (f + 1) (spaces (g + 1) ++ X) col pn cOk sSame ls = .ok (nd, ls) := by
  obtain ⟨⟨c, r, rfl, hc⟩, hok, hdash, hkey, hinl⟩ := hf
  have hsp : c ≠ ' ' := headClass_ne c hc ' ' (by decide)
  have htab : c ≠ '\t' := headClass_ne c hc '\t' (by decide)
  have hhash : c ≠ '#' := headClass_ne c hc '#' (by decide)
  have hbar : c ≠ '|' := headClass_ne c hc '|' (by decide)
  have hgt : c ≠ '>' := headClass_ne c hc '>' (by decide)
  have hamp : c ≠ '&' := headClass_ne c hc '&' (by decide)
  have hds : dropSpaces (spaces (g + 1) ++ c :: r) = c :: r := dropSpaces_spaces (g + 1) c r hsp
  rw [parseAfter]
  simp only [hds, List.head?_cons, show (some c == some '\t') = false by simp [htab],
    Bool.false_eq_true, if_false, List.isEmpty_cons, show (some c == some '#') = false by simp [hhash],
    Bool.false_and, Bool.or_self]
  split
  · rename_i heq; exact absurd (List.cons.inj heq).1 hbar
  · rename_i heq; exact absurd (List.cons.inj heq).1 hgt
  · rename_i heq; exact absurd (List.cons.inj heq).1 hamp
  · simp only [hdash, Bool.false_eq_true, if_false, hkey, hinl]
    rfl


/-! ### lines -/

def joinLines (ls : List Str) : Str := ls.flatMap (· ++ ['\n'])

theorem splitNl_ne_nil (s : Str) : splitNl s ≠ [] := by
  cases s with
  | nil => simp [splitNl]
  | cons c r =>
    simp only [splitNl]
    split <;> (try split) <;> simp

theorem splitNl_cons_line (L R : Str) (h : L.all okc = true) : splitNl (L ++ '\n' :: R) = L :: splitNl R := by
  induction L with
  | nil =>
    simp only [List.nil_append, splitNl]
    cases hs : splitNl R with
    | nil => exact absurd hs (splitNl_ne_nil R)
    | cons l ls => simp
  | cons c t ih =>
    simp only [List.all_cons, Bool.and_eq_true] at h
    have hc : c ≠ '\n' := by
      have := h.1; simp only [okc, Bool.and_eq_true, bne_iff_ne] at this; exact this.1
    simp only [List.cons_append, splitNl, ih h.2]
    simp [hc]

theorem splitNl_join (ls : List Str) (h : ∀ l ∈ ls, l.all okc = true) : splitNl (joinLines ls) = ls ++ [[]] := by
  induction ls with
  | nil => simp [joinLines, splitNl]
  | cons L ls ih =>
    have h1 := h L (by simp)
    have h2 : ∀ l ∈ ls, l.all okc = true := fun l hl => h l (by simp [hl])
    have : joinLines (L :: ls) = L ++ '\n' :: joinLines ls := by simp [joinLines]
    rw [this, splitNl_cons_line L _ h1, ih h2]; simp

theorem linesOf_join (ls : List Str) (h : ∀ l ∈ ls, l.all okc = true) : linesOf (joinLines ls) = ls.map mkLine := by
  unfold linesOf
  rw [splitNl_join ls h]
  simp

theorem mkLine_dash (t : Str) : mkLine ('-' :: t) = ⟨0, '-' :: t⟩ := by
  simp [mkLine, List.takeWhile_cons, List.dropWhile_cons]

/-! ### the sequence -/

/-- Items that are layer-1 nodes without filler lines or trailing comments. -/
def PItems.flat1 : PItems → Bool
  | .nil => true
  | .cons m x r => m.fill.isEmpty && m.trail.isNone && x.l1 && r.flat1

def seqLine (g : Nat) (x : PNode) : Str := '-' :: (spaces (g + 1) ++ x.flow)

def PItems.seqLines : PItems → List Str
  | .nil => []
  | .cons m x r => seqLine m.gap x :: r.seqLines

theorem value_l1' (n : PNode) (h : n.l1 = true) (ctx : Ctx) (e col : Nat) (m : Meta) :
    n.value ctx e col m = spaces (m.gap + 1) ++ n.flow ++ trailText m.trail ++ ['\n'] := by
  cases n with
  | null v =>
    have hv : ¬ (v % 5 = 4) := by simpa [PNode.l1] using h
    simp [PNode.value, PNode.flow, hv]
  | bool b v => simp [PNode.value, PNode.flow]
  | int i v => simp [PNode.value, PNode.flow]
  | str s st =>
    cases st <;> simp [PNode.l1] at h
    simp [PNode.value, PNode.flow]
  | seq fl st c items =>
    have hfl : fl = true := by cases fl <;> simp [PNode.l1] at h ⊢
    subst hfl; simp [PNode.value]
  | map fl st c es =>
    have hfl : fl = true := by cases fl <;> simp [PNode.l1] at h ⊢
    subst hfl; simp [PNode.value]
  | anchored a n => simp [PNode.l1] at h
  | alias a t => simp [PNode.l1] at h

theorem block_flat1 : (items : PItems) → items.flat1 = true → items.block true 0 = joinLines items.seqLines
  | .nil, _ => by simp [PItems.block, PItems.seqLines, joinLines]
  | .cons m x r, h => by
    simp only [PItems.flat1, Bool.and_eq_true, List.isEmpty_iff, Option.isNone_iff_eq_none] at h
    obtain ⟨⟨⟨hf, ht⟩, hx⟩, hr⟩ := h
    simp only [PItems.block, hf, fillText, List.flatMap_nil, List.nil_append, if_true, spaces, List.replicate_zero,
      value_l1' x hx, ht, trailText, List.append_nil, block_flat1 r hr, PItems.seqLines, joinLines, List.flatMap_cons, seqLine]
    simp [spaces]

theorem seqLines_ok : (items : PItems) → items.flat1 = true → ∀ l ∈ items.seqLines, l.all okc = true
  | .nil, _ => by simp [PItems.seqLines]
  | .cons m x r, h => by
    simp only [PItems.flat1, Bool.and_eq_true] at h
    obtain ⟨⟨_, hx⟩, hr⟩ := h
    intro l hl
    simp only [PItems.seqLines, List.mem_cons] at hl
    rcases hl with rfl | hl
    · simp only [seqLine, List.all_cons, List.all_append, okc_spaces, okc_flow x hx, Bool.and_true]; decide
    · exact seqLines_ok r hr l hl

def PItems.seqLS (items : PItems) : List Line := items.seqLines.map fun t => ⟨0, t⟩

theorem parseSeq_flat1 : (items : PItems) → items.flat1 = true → ∀ (f : Nat) (acc : List Node), 2 * items.seqLines.length + 2 ≤ f →
    parseSeq f 0 items.seqLS acc = .ok (.seq (acc.reverse ++ items.nodes), [])
  | .nil, _, f, acc, hf => by
    obtain ⟨f', rfl⟩ : ∃ f', f = f' + 1 := ⟨f - 1, by omega⟩
    simp [parseSeq, PItems.seqLS, PItems.seqLines, skipFill, PItems.nodes]
  | .cons m x r, h, f, acc, hf => by
    simp only [PItems.flat1, Bool.and_eq_true] at h
    obtain ⟨⟨_, hx⟩, hr⟩ := h
    simp only [PItems.seqLines, List.length_cons] at hf
    obtain ⟨f', rfl⟩ : ∃ f', f = f' + 2 := ⟨f - 2, by omega⟩
    have hpa := parseAfter_inline f' m.gap 1 1 true false x.flow x.node r.seqLS (inlineFacts_l1 x hx)
    rw [parseSeq]
    simp only [PItems.seqLS, PItems.seqLines, List.map_cons, skipFill, Line.isFiller, seqLine, List.isEmpty_cons,
      List.head?_cons, Bool.false_or, show (some '-' == some '#') = false by decide, Bool.false_eq_true, if_false,
      Nat.lt_irrefl]
    simp only [PItems.seqLS] at hpa
    have hd : isDash ('-' :: (spaces (m.gap + 1) ++ x.flow)) = true := by
      have hs : spaces (m.gap + 1) = ' ' :: spaces m.gap := by simp [spaces, List.replicate_succ]
      rw [hs]; rfl
    simp only [hd, Bool.not_true, Bool.false_eq_true, if_false, List.drop_one, List.tail_cons, hpa]
    have := parseSeq_flat1 r hr (f' + 1) (x.node :: acc) (by omega)
    simp only [PItems.seqLS] at this
    rw [this]; simp [PItems.nodes]


/-! ### the document -/

theorem flat1_l1 : (items : PItems) → items.flat1 = true → items.l1 = true
  | .nil, _ => rfl
  | .cons m x r, h => by
    simp only [PItems.flat1, Bool.and_eq_true] at h
    simp [PItems.l1, h.1.2, flat1_l1 r h.2]

theorem seqLine_notMarker (g : Nat) (x : PNode) :
    isDocStart ⟨0, seqLine g x⟩ = false ∧ isDocEnd ⟨0, seqLine g x⟩ = false ∧ Line.isFiller ⟨0, seqLine g x⟩ = false := by
  have hs : spaces (g + 1) = ' ' :: spaces g := by simp [spaces, List.replicate_succ]
  have e1 : "---".toList = ['-', '-', '-'] := by decide
  have e2 : "...".toList = ['.', '.', '.'] := by decide
  refine ⟨?_, ?_, ?_⟩
  · simp only [isDocStart, isMarker, seqLine, hs, e1, List.cons_append, List.isPrefixOf]
    simp
  · simp only [isDocEnd, isMarker, seqLine, e2, List.isPrefixOf]
    simp
  · simp [Line.isFiller, seqLine]

theorem takeDoc_seqLS : (items : PItems) → takeDoc items.seqLS = (items.seqLS, [])
  | .nil => by simp [PItems.seqLS, PItems.seqLines, takeDoc]
  | .cons m x r => by
    obtain ⟨h1, h2, _⟩ := seqLine_notMarker m.gap x
    have ih := takeDoc_seqLS r
    simp only [PItems.seqLS, PItems.seqLines, List.map_cons, takeDoc, h1, h2, Bool.or_self, Bool.false_eq_true, if_false] at ih ⊢
    rw [ih]

theorem foldl_fuel_ge (ls : List Line) (a : Nat) :
    a + 2 * ls.length ≤ ls.foldl (fun a l => a + l.txt.length + 2) a := by
  induction ls generalizing a with
  | nil => simp
  | cons l ls ih =>
    simp only [List.foldl_cons, List.length_cons]
    have := ih (a + l.txt.length + 2)
    omega

/-- A block whose first line is a sequence entry at column 0 is read by `parseSeq`. -/
theorem parseBlock_dash (F : Nat) (l : Line) (rest : List Line) (res : R (Node × List Line))
    (hind : l.ind = 0) (hfill : l.isFiller = false) (htab : l.txt.head? ≠ some '\t') (hd : isDash l.txt = true)
    (hseq : parseSeq F 0 (l :: rest) [] = res) :
    parseBlock (F + 1) 0 false (l :: rest) = res := by
  rw [parseBlock]
  simp only [skipFill, hfill, Bool.false_eq_true, if_false]
  have ht : (l.txt.head? == some '\t') = false := by simpa using htab
  simp only [ht, Bool.false_eq_true, if_false, hind, hd, Nat.not_lt_zero, Bool.and_true, Bool.false_and,
    show (0 + 1 = 0) = False by simp, decide_false, if_true]
  exact hseq

theorem parseDocs_oneDoc (f : Nat) (l : Line) (rest : List Line) (nd : Node)
    (hfill : l.isFiller = false) (hpct : l.txt.head? ≠ some '%') (hs : isDocStart l = false) (he : isDocEnd l = false)
    (htd : takeDoc (l :: rest) = (l :: rest, []))
    (hbody : parseDocBody none (l :: rest) = .ok nd) :
    parseDocs (f + 2) (l :: rest) = .ok [nd] := by
  rw [parseDocs]
  have hp : (l.txt.head? == some '%') = false := by simpa using hpct
  simp only [skipFill, hfill, Bool.false_eq_true, if_false, hp, Bool.false_and, he, hs, htd, hbody]
  simp [parseDocs, skipFill, Except.map]

theorem parseDocs_seq (m : Meta) (x : PNode) (r : PItems) (h : (PItems.cons m x r).flat1 = true) (f : Nat) :
    parseDocs (f + 2) (PItems.cons m x r).seqLS = .ok [.seq (PItems.cons m x r).nodes] := by
  obtain ⟨h1, h2, h3⟩ := seqLine_notMarker m.gap x
  have hd : isDash (seqLine m.gap x) = true := by
    have hs : spaces (m.gap + 1) = ' ' :: spaces m.gap := by simp [spaces, List.replicate_succ]
    simp only [seqLine, hs]; rfl
  have hLS : (PItems.cons m x r).seqLS = ⟨0, seqLine m.gap x⟩ :: r.seqLS := by simp [PItems.seqLS, PItems.seqLines]
  have hbody : parseDocBody none (PItems.cons m x r).seqLS = .ok (.seq (PItems.cons m x r).nodes) := by
    unfold parseDocBody
    have hge := foldl_fuel_ge (PItems.cons m x r).seqLS 0
    have hlen : (PItems.cons m x r).seqLS.length = (PItems.cons m x r).seqLines.length := by simp [PItems.seqLS]
    obtain ⟨F, hF⟩ : ∃ F, fuelOf (PItems.cons m x r).seqLS + (Option.getD (none : Option Str) []).length * 4 = F + 1 :=
      ⟨fuelOf (PItems.cons m x r).seqLS - 1, by simp [fuelOf]⟩
    have hFge : 2 * (PItems.cons m x r).seqLines.length + 2 ≤ F := by
      simp only [fuelOf, Option.getD_none, List.length_nil, Nat.zero_mul, Nat.add_zero] at hF
      omega
    simp only [hF]
    have hseq := parseSeq_flat1 (PItems.cons m x r) h F [] hFge
    rw [hLS] at hseq ⊢
    rw [parseBlock_dash F _ _ _ rfl h3 (by simp [seqLine]) hd hseq]
    simp [skipFill]
  rw [hLS] at hbody ⊢
  have htd := takeDoc_seqLS (PItems.cons m x r)
  rw [hLS] at htd
  exact parseDocs_oneDoc f _ _ _ h3 (by simp [seqLine]) h1 h2 htd hbody


/-- One bare document whose root is a block sequence (entries at column 0). -/
def seqStream (items : PItems) (st : Nat) : PStream := { docs := [{ root := .seq false st false items }] }

theorem chars_seqStream (items : PItems) (st : Nat) (h : items.flat1 = true) :
    (seqStream items st).chars = joinLines items.seqLines := by
  simp only [PStream.chars, seqStream, List.flatMap_cons, List.flatMap_nil, List.append_nil, flatMap_lf]
  simp only [PDoc.text, fillText, List.flatMap_nil, List.nil_append, Bool.false_eq_true, if_false, PNode.isBlockColl,
    Option.isNone_none, Bool.and_self, if_true, PNode.value, trailText, List.append_nil, List.cons_append,
    List.drop_succ_cons, List.drop_zero]
  exact block_flat1 items h

theorem nocr_join (ls : List Str) (h : ∀ l ∈ ls, l.all okc = true) : (joinLines ls).all (· != '\r') = true := by
  rw [List.all_eq_true]
  intro c hc
  obtain ⟨l, hl, hcl⟩ := List.mem_flatMap.mp hc
  rcases List.mem_append.mp hcl with h1 | h1
  · have := List.all_eq_true.mp (h l hl) c h1
    simp only [okc, Bool.and_eq_true] at this; exact this.2
  · simp at h1; subst h1; decide

theorem seqLines_map_mkLine : (items : PItems) → items.seqLines.map mkLine = items.seqLS
  | .nil => rfl
  | .cons m x r => by
    have ih := seqLines_map_mkLine r
    simp only [PItems.seqLS] at ih ⊢
    simp only [PItems.seqLines, List.map_cons, seqLine, mkLine_dash, ih]

/-- Layer 2, block sequences: a bare document whose root is a block sequence of layer-1 items loads
back to the sequence of their trees. -/
theorem loadChars_blockSeq (m : Meta) (x : PNode) (r : PItems) (st : Nat) (h : (PItems.cons m x r).flat1 = true) :
    loadChars (seqStream (.cons m x r) st).chars = .ok [.seq (PItems.cons m x r).trees] := by
  have hok := seqLines_ok _ h
  rw [chars_seqStream _ st h]
  unfold loadChars
  have e0 : stripBom (joinLines (PItems.cons m x r).seqLines) = joinLines (PItems.cons m x r).seqLines := by
    simp only [PItems.seqLines, joinLines, List.flatMap_cons, seqLine, List.cons_append]
    rfl
  rw [e0, normBreaks_id _ (nocr_join _ hok), linesOf_join _ hok, seqLines_map_mkLine]
  unfold loadLines
  have hlen : (PItems.cons m x r).seqLS.length + 2 = r.seqLS.length + 1 + 2 := by simp [PItems.seqLS, PItems.seqLines]
  rw [hlen, parseDocs_seq m x r h]
  simp only [resolveDocs, Node.resolve, resolveItems _ (flat1_l1 _ h) []]
  rfl


end SV.YamlRef
