/-
Proof/YamlRoundTrip — lemmas for `loadRef (render s) = ok s.trees` (C14), by layer.
-/
import SuccinctlyVerif.Spec.YamlRef
namespace SV.Yaml

/-! ## Byte layer: UTF-8 -/

theorem loadRef_render (s : PStream) : loadRef (render s) = loadChars s.chars := by
  unfold loadRef render
  simp [String.toUTF8_eq_toByteArray, String.toByteArray_ofList, List.utf8Decode?_utf8Encode]

/-! ## Digits -/

theorem digitVal_digitChar (d : Nat) (h : d < 16) : digitVal (Nat.digitChar d) = d := by
  have : d = 0 ∨ d = 1 ∨ d = 2 ∨ d = 3 ∨ d = 4 ∨ d = 5 ∨ d = 6 ∨ d = 7 ∨ d = 8 ∨ d = 9 ∨ d = 10 ∨
      d = 11 ∨ d = 12 ∨ d = 13 ∨ d = 14 ∨ d = 15 := by omega
  rcases this with h | h | h | h | h | h | h | h | h | h | h | h | h | h | h | h <;> subst h <;> decide

theorem natOfDigits_append (b : Nat) (xs ys : Str) :
    natOfDigits b (xs ++ ys) = ys.foldl (fun a c => a * b + digitVal c) (natOfDigits b xs) := by
  simp [natOfDigits, List.foldl_append]

theorem natOfDigits_toDigits (b : Nat) (hb : 1 < b) (hb16 : b ≤ 16) (n : Nat) :
    natOfDigits b (Nat.toDigits b n) = n := by
  induction n using Nat.strongRecOn with
  | _ n ih =>
    rw [Nat.toDigits_eq_if hb]
    split
    · simp [natOfDigits, digitVal_digitChar n (by omega)]
    · rename_i h
      have hlt : n / b < n := Nat.div_lt_self (by omega) hb
      rw [natOfDigits_append, ih _ hlt]
      simp only [List.foldl_cons, List.foldl_nil]
      rw [digitVal_digitChar _ (by have := Nat.mod_lt n (show b > 0 by omega); omega)]
      have := Nat.div_add_mod n b
      rw [Nat.mul_comm]; exact this


/-! ## Double-quoted scalars -/

theorem parseDQ_raw (c : Char) (rest : Str) (h1 : c ≠ '"') (h2 : c ≠ '\n') (h3 : c ≠ '\\') :
    parseDQ (c :: rest) = consR c (parseDQ rest) := by
  rw [parseDQ.eq_def]
  split <;> simp_all

theorem parseDQ_simple (e c : Char) (rest : Str) (h : simpleEscape? e = some c)
    (hx : e ≠ 'x') (hu : e ≠ 'u') (hU : e ≠ 'U') :
    parseDQ ('\\' :: e :: rest) = consR c (parseDQ rest) := by
  rw [parseDQ.eq_def]
  split <;> first | (simp_all; done) | grind

theorem parseDQ_x (a b c : Char) (rest : Str) (h : hexChar? [a, b] = some c) :
    parseDQ ('\\' :: 'x' :: a :: b :: rest) = consR c (parseDQ rest) := by
  rw [parseDQ.eq_def]; simp [h]
theorem parseDQ_u (a b c d ch : Char) (rest : Str) (h : hexChar? [a, b, c, d] = some ch) :
    parseDQ ('\\' :: 'u' :: a :: b :: c :: d :: rest) = consR ch (parseDQ rest) := by
  rw [parseDQ.eq_def]; simp [h]
theorem parseDQ_U (a b c d e f g h' ch : Char) (rest : Str) (h : hexChar? [a, b, c, d, e, f, g, h'] = some ch) :
    parseDQ ('\\' :: 'U' :: a :: b :: c :: d :: e :: f :: g :: h' :: rest) = consR ch (parseDQ rest) := by
  rw [parseDQ.eq_def]; simp [h]

theorem charOfNat?_toNat (c : Char) : charOfNat? c.toNat = some c := by
  unfold charOfNat?
  have hv : c.toNat.isValidChar := c.valid
  rw [dif_pos hv]
  congr 1
  apply Char.ext
  show c.toNat.toUInt32 = c.val
  apply UInt32.toNat_inj.mp
  have : c.val.toNat < 4294967296 := c.val.toNat_lt
  show (UInt32.ofNat c.val.toNat).toNat = c.val.toNat
  simp [UInt32.toNat_ofNat']
  exact this

theorem hexDigitChar_ok (d : Nat) (h : d < 16) : digitVal (hexDigitChar d) = d ∧ isHexDigit (hexDigitChar d) = true := by
  have : d = 0 ∨ d = 1 ∨ d = 2 ∨ d = 3 ∨ d = 4 ∨ d = 5 ∨ d = 6 ∨ d = 7 ∨ d = 8 ∨ d = 9 ∨ d = 10 ∨
      d = 11 ∨ d = 12 ∨ d = 13 ∨ d = 14 ∨ d = 15 := by omega
  rcases this with h | h | h | h | h | h | h | h | h | h | h | h | h | h | h | h <;> subst h <;> decide

theorem hexFixed_all (w n : Nat) : (hexFixed w n).all isHexDigit = true := by
  induction w generalizing n with
  | zero => simp [hexFixed]
  | succ w ih =>
    simp only [hexFixed, List.all_append, ih, List.all_cons, List.all_nil, Bool.and_true, Bool.true_and]
    exact (hexDigitChar_ok _ (Nat.mod_lt _ (by omega))).2

theorem natOfDigits_hexFixed (w n : Nat) : natOfDigits 16 (hexFixed w n) = n % 16 ^ w := by
  induction w generalizing n with
  | zero => simp [hexFixed, natOfDigits, Nat.mod_one]
  | succ w ih =>
    simp only [hexFixed]
    rw [natOfDigits_append, ih]
    simp only [List.foldl_cons, List.foldl_nil]
    rw [(hexDigitChar_ok _ (Nat.mod_lt n (by omega))).1]
    rw [Nat.pow_succ, Nat.mul_comm (16 ^ w) 16, Nat.mod_mul]
    omega

theorem hexChar?_hexFixed (w : Nat) (c : Char) (h : c.toNat < 16 ^ w) : hexChar? (hexFixed w c.toNat) = some c := by
  simp [hexChar?, hexVal?, hexFixed_all, natOfDigits_hexFixed, Nat.mod_eq_of_lt h, charOfNat?_toNat]


theorem shortEscape_sound (c e : Char) (h : shortEscape? c = some e) :
    simpleEscape? e = some c ∧ e ≠ 'x' ∧ e ≠ 'u' ∧ e ≠ 'U' := by
  have hc : c = Char.ofNat c.toNat := (Char.ofNat_toNat c).symm
  unfold shortEscape? at h
  split at h <;> simp at h <;> subst h <;> rename_i hn <;> rw [hc, hn] <;> decide

theorem printable_ne_nl (c : Char) (h : isPrintable c = true) : c ≠ '\n' := by
  intro hc; subst hc; revert h; decide

theorem parseDQ_numEscape (c : Char) (rest : Str) :
    parseDQ (numEscape c ++ rest) = consR c (parseDQ rest) := by
  unfold numEscape
  simp only
  split
  · rename_i h
    have := hexChar?_hexFixed 2 c (by simpa using h)
    simp only [hexFixed, List.nil_append, List.cons_append] at this ⊢
    exact parseDQ_x _ _ _ _ this
  · split
    · rename_i h
      have := hexChar?_hexFixed 4 c (by simpa using h)
      simp only [hexFixed, List.nil_append, List.cons_append] at this ⊢
      exact parseDQ_u _ _ _ _ _ _ this
    · have hlt : c.toNat < 16 ^ 8 := by
        have hv : c.val.toNat.isValidChar := c.valid
        have h2 : c.toNat = c.val.toNat := rfl
        unfold Nat.isValidChar at hv
        omega
      have := hexChar?_hexFixed 8 c hlt
      simp only [hexFixed, List.nil_append, List.cons_append] at this ⊢
      exact parseDQ_U _ _ _ _ _ _ _ _ _ _ this

theorem parseDQ_dqChar (sh eu : Bool) (c : Char) (rest : Str) :
    parseDQ (dqChar sh eu c ++ rest) = consR c (parseDQ rest) := by
  unfold dqChar
  split
  · rename_i h; have : c = '"' := by simpa using h
    subst this; exact parseDQ_simple '"' '"' rest (by decide) (by decide) (by decide) (by decide)
  · split
    · rename_i h; have : c = '\\' := by simpa using h
      subst this; exact parseDQ_simple '\\' '\\' rest (by decide) (by decide) (by decide) (by decide)
    · rename_i h1 h2
      split
      · rename_i h3
        have hp : isPrintable c = true := by
          simp only [Bool.and_eq_true] at h3; exact h3.1.1
        exact parseDQ_raw c rest (by simpa using h1) (printable_ne_nl c hp) (by simpa using h2)
      · split
        · split
          · rename_i e he
            obtain ⟨a, b, c', d⟩ := shortEscape_sound c e he
            exact parseDQ_simple e c rest a b c' d
          · exact parseDQ_numEscape c rest
        · exact parseDQ_numEscape c rest

theorem parseDQ_dqBody (sh eu : Bool) (s rest : Str) :
    parseDQ (s.flatMap (dqChar sh eu) ++ '"' :: rest) = .ok (s, rest) := by
  induction s with
  | nil => simp [parseDQ]
  | cons c s ih =>
    simp only [List.flatMap_cons, List.append_assoc]
    rw [parseDQ_dqChar, ih]; rfl


/-! ## Simple tokens (null / bool / decimal int spellings) as plain scalars -/

def simpleChar (c : Char) : Bool := c.isAlphanum || c == '+' || c == '-' || c == '~'

/-- The remaining input ends the token: end of line or a flow indicator. -/
def Delim (rest : Str) : Prop := rest = [] ∨ ∃ d r, rest = d :: r ∧ isFlowInd d = true

theorem simpleChar_facts (c : Char) (h : simpleChar c = true) :
    c ≠ ':' ∧ c ≠ ' ' ∧ c ≠ '\t' ∧ isFlowInd c = false ∧ c ≠ '#' := by
  have hn : c.toNat = c.toNat := rfl
  refine ⟨?_, ?_, ?_, ?_, ?_⟩ <;> (try intro hc; subst hc; revert h; decide)
  -- isFlowInd
  cases hf : isFlowInd c with
  | false => rfl
  | true =>
    exfalso
    have : c = ',' ∨ c = '[' ∨ c = ']' ∨ c = '{' ∨ c = '}' := by
      simp [isFlowInd] at hf; omega
    rcases this with h' | h' | h' | h' | h' <;> subst h' <;> revert h <;> decide

theorem plainLen_flowInd (d : Char) (r : Str) (hd : isFlowInd d = true) : plainLen true (d :: r) = 0 := by
  cases r with
  | nil => simp [plainLen, hd]
  | cons e r => simp [plainLen, hd]

theorem plainLen_simple (flow : Bool) (t rest : Str) (ht : t.all simpleChar = true)
    (hr : rest = [] ∨ (flow = true ∧ ∃ d r, rest = d :: r ∧ isFlowInd d = true)) :
    plainLen flow (t ++ rest) = t.length := by
  induction t with
  | nil =>
    rcases hr with rfl | ⟨rfl, d, r, rfl, hd⟩
    · simp [plainLen]
    · simpa using plainLen_flowInd d r hd
  | cons c t ih =>
    simp only [List.all_cons, Bool.and_eq_true] at ht
    obtain ⟨h1, h2, h3, h4, h5⟩ := simpleChar_facts c ht.1
    have ih' := ih ht.2
    cases hrest : t ++ rest with
    | nil =>
      simp only [List.cons_append, hrest]
      have : t = [] := by cases t <;> simp_all
      subst this
      simp [plainLen, h1, h4]
    | cons d r =>
      simp only [List.cons_append, hrest]
      rw [plainLen]
      simp only [h4, Bool.and_false, Bool.false_eq_true, if_false]
      rw [← hrest, ih']
      simp [h1, h2]; omega
  all_goals trivial


theorem indicator_not_simple (c : Char) (h : isIndicator c = true) : c = '-' ∨ simpleChar c = false := by
  have h' : c ∈ ['-', '?', ':', ',', '[', ']', '{', '}', '#', '&', '*', '!', '|', '>', '\'', '"', '%', '@', '`'] := by
    simpa [isIndicator] using h
  simp only [List.mem_cons, List.mem_nil_iff, or_false] at h'
  rcases h' with h' | h' | h' | h' | h' | h' | h' | h' | h' | h' | h' | h' | h' | h' | h' | h' | h' | h' | h' <;>
    subst h' <;> first | (left; rfl) | (right; decide)

/-- A token made of simple characters that can start a plain scalar. -/
def tokOk (t : Str) : Prop := t.all simpleChar = true ∧ t ≠ [] ∧ (t.head? = some '-' → 2 ≤ t.length)

theorem trimRight_of_last (t : Str) (h : t.getLast? ≠ some ' ') : trimRight t = t := by
  unfold trimRight
  cases hr : t.reverse with
  | nil => simp_all
  | cons l r =>
    have : t.getLast? = some l := by
      rw [List.getLast?_eq_head?_reverse, hr]; rfl
    have hl : l ≠ ' ' := by intro h'; subst h'; exact h this
    rw [List.dropWhile_cons]
    simp only [beq_iff_eq, hl, if_false]
    rw [← hr, List.reverse_reverse]

theorem parsePlain_tok (flow : Bool) (t rest : Str) (ht : tokOk t)
    (hr : rest = [] ∨ (flow = true ∧ ∃ d r, rest = d :: r ∧ isFlowInd d = true)) :
    parsePlain flow (t ++ rest) = .ok (t, rest) := by
  obtain ⟨hall, hne, hdash⟩ := ht
  have hlen := plainLen_simple flow t rest hall hr
  have hfirst : plainFirstOk flow (t ++ rest) = true := by
    cases t with
    | nil => exact absurd rfl hne
    | cons c t' =>
      simp only [List.all_cons, Bool.and_eq_true] at hall
      obtain ⟨h1, h2, h3, h4, h5⟩ := simpleChar_facts c hall.1
      simp only [List.cons_append, plainFirstOk]
      by_cases hc : c = '-'
      · subst hc
        have : 2 ≤ (('-' : Char) :: t').length := hdash rfl
        cases t' with
        | nil => simp at this
        | cons d t'' =>
          simp only [List.all_cons, Bool.and_eq_true] at hall
          obtain ⟨g1, g2, g3, g4, g5⟩ := simpleChar_facts d hall.2.1
          simp [g2, g4]
      · have hq : c ≠ '?' := by
          intro h; subst h; have := hall.1; revert this; decide
        have hni : isIndicator c = false := by
          cases hi : isIndicator c with
          | false => rfl
          | true =>
            rcases indicator_not_simple c hi with h | h
            · exact absurd h hc
            · rw [hall.1] at h; cases h
        simp [hc, hq, h1, hni, h2]
  unfold parsePlain
  simp only [hfirst, Bool.not_true, Bool.false_eq_true, if_false, hlen, List.take_left', List.drop_left']
  have hlast : t.getLast? ≠ some ' ' := by
    intro h
    have hm : ' ' ∈ t := List.mem_of_getLast? h
    have := List.all_eq_true.mp hall ' ' hm
    revert this; decide
  rw [trimRight_of_last t hlast]
  have hnotab : t.any (· == '\t') = false := by
    rw [List.any_eq_false]
    intro x hx
    have := List.all_eq_true.mp hall x hx
    obtain ⟨_, _, g3, _, _⟩ := simpleChar_facts x this
    simpa using g3
  simp [hnotab]


/-! ## Syntax tree of a presentation-annotated tree, layer-1 predicate, fuel -/

def keyNode (k : Str) : KStyle → Node
  | .plain => .scalar true k
  | _ => .scalar false k

mutual
def PNode.node : PNode → Node
  | .null v => .scalar true (nullText v)
  | .bool b v => .scalar true (boolText b v)
  | .int i v => .scalar true (intText i v)
  | .str s .plain => .scalar true s
  | .str s _ => .scalar false s
  | .seq _ _ _ items => .seq items.nodes
  | .map _ _ _ es => .map es.nodes
  | .anchored a n => .anchored a n.node
  | .alias a _ => .alias a
def PItems.nodes : PItems → List Node
  | .nil => []
  | .cons _ n r => n.node :: r.nodes
def PEntries.nodes : PEntries → List (Node × Node)
  | .nil => []
  | .cons _ k ks n r => (keyNode k ks, n.node) :: r.nodes
end

mutual
/-- Layer 1: flow collections, double-quoted strings and keys, `null`/bool spellings, decimal ints. -/
def PNode.l1 : PNode → Bool
  | .null v => v % 5 != 4
  | .bool _ _ => true
  | .int _ v => v % 5 == 0
  | .str _ (.double _ _) => true
  | .seq true _ _ items => items.l1
  | .map true _ _ es => es.l1
  | _ => false
def PItems.l1 : PItems → Bool
  | .nil => true
  | .cons _ n r => n.l1 && r.l1
def PEntries.l1 : PEntries → Bool
  | .nil => true
  | .cons _ _ ks n r => (match ks with | .double _ _ => true | _ => false) && n.l1 && r.l1
end

mutual
def PNode.need : PNode → Nat
  | .seq _ _ _ items => items.need + 2
  | .map _ _ _ es => es.need + 2
  | _ => 1
def PItems.need : PItems → Nat
  | .nil => 1
  | .cons _ n r => n.need + r.need + 2
def PEntries.need : PEntries → Nat
  | .nil => 1
  | .cons _ _ _ n r => n.need + r.need + 3
end

theorem dropSpaces_spaces (k : Nat) (c : Char) (t : Str) (h : c ≠ ' ') :
    dropSpaces (spaces k ++ c :: t) = c :: t := by
  induction k with
  | zero => simp [spaces, dropSpaces, List.dropWhile_cons, h]
  | succ k ih =>
    have : spaces (k + 1) = ' ' :: spaces k := by simp [spaces, List.replicate_succ]
    rw [this, List.cons_append]
    unfold dropSpaces at ih ⊢
    rw [List.dropWhile_cons]
    simpa using ih

/-! ### tokens -/

theorem tokOk_nullText (v : Nat) (h : v % 5 ≠ 4) : tokOk (nullText v) := by
  have : v % 5 = 0 ∨ v % 5 = 1 ∨ v % 5 = 2 ∨ v % 5 = 3 := by omega
  rcases this with h' | h' | h' | h' <;> simp only [nullText, h'] <;> refine ⟨by decide, by decide, by decide⟩

theorem tokOk_boolText (b : Bool) (v : Nat) : tokOk (boolText b v) := by
  have : v % 3 = 0 ∨ v % 3 = 1 ∨ v % 3 = 2 := by omega
  cases b <;> rcases this with h' | h' | h' <;> simp only [boolText, h'] <;> refine ⟨by decide, by decide, by decide⟩

theorem toDigits10_all (n : Nat) : (Nat.toDigits 10 n).all simpleChar = true := by
  rw [List.all_eq_true]
  intro c hc
  have := Nat.isDigit_of_mem_toDigits (b := 10) (by decide) (by decide) hc
  simp [simpleChar, Char.isAlphanum, this]

theorem tokOk_intText (i : Int) (v : Nat) (h : v % 5 = 0) : tokOk (intText i v) := by
  unfold intText
  simp only [h]
  split
  · refine ⟨toDigits10_all _, Nat.toDigits_ne_nil, ?_⟩
    intro hh
    cases hd : Nat.toDigits 10 i.toNat with
    | nil => exact absurd hd Nat.toDigits_ne_nil
    | cons c t =>
      have hm : c ∈ Nat.toDigits 10 i.toNat := by rw [hd]; simp
      have := Nat.isDigit_of_mem_toDigits (b := 10) (by decide) (by decide) hm
      simp only [natDigits, hd, List.head?_cons, Option.some.injEq] at hh
      subst hh; exact absurd this (by decide)
  · refine ⟨?_, by simp, ?_⟩
    · simp only [List.all_cons, natDigits, toDigits10_all, Bool.and_true]; decide
    · intro _
      have := Nat.length_toDigits_pos (b := 10) (n := i.natAbs)
      simp [natDigits]; omega

theorem parseFlow_tok (f k : Nat) (t rest : Str) (ht : tokOk t) (hr : Delim rest) :
    parseFlow (f + 1) (spaces k ++ t ++ rest) = .ok (.scalar true t, rest) := by
  obtain ⟨hall, hne, hdash⟩ := ht
  cases t with
  | nil => exact absurd rfl hne
  | cons c t' =>
    have hc : simpleChar c = true := by simp only [List.all_cons, Bool.and_eq_true] at hall; exact hall.1
    obtain ⟨h1, h2, h3, h4, h5⟩ := simpleChar_facts c hc
    have hp := parsePlain_tok true (c :: t') rest ⟨hall, hne, hdash⟩
      (by rcases hr with h | ⟨d, r, h, hd⟩
          · exact Or.inl h
          · exact Or.inr ⟨rfl, d, r, h, hd⟩)
    rw [parseFlow]
    simp only [List.append_assoc, List.cons_append, dropSpaces_spaces k c _ h2]
    simp only [List.cons_append] at hp
    split
    · rename_i heq; simp at heq
    all_goals (try (rename_i heq; have := (List.cons.inj heq).1; subst this; exact absurd hc (by decide)))
    rw [hp]; rfl


theorem parseFlow_dq (f k : Nat) (sh eu : Bool) (s rest : Str) :
    parseFlow (f + 1) (spaces k ++ dqText sh eu s ++ rest) = .ok (.scalar false s, rest) := by
  rw [parseFlow]
  simp only [dqText, List.append_assoc, List.cons_append, dropSpaces_spaces k '"' _ (by decide)]
  have := parseDQ_dqBody sh eu s rest
  simp only [List.nil_append, List.cons_append] at this ⊢
  rw [this]; rfl

/-- The first character of a layer-1 node's flow text is not a space, comma or closing bracket. -/
def goodHead (t : Str) : Prop :=
  ∃ c r, t = c :: r ∧ c ≠ ' ' ∧ c ≠ ']' ∧ c ≠ '}' ∧ c ≠ ','

theorem goodHead_tok (t : Str) (h : tokOk t) : goodHead t := by
  obtain ⟨hall, hne, _⟩ := h
  cases t with
  | nil => exact absurd rfl hne
  | cons c r =>
    have hc : simpleChar c = true := by simp only [List.all_cons, Bool.and_eq_true] at hall; exact hall.1
    refine ⟨c, r, rfl, ?_, ?_, ?_, ?_⟩ <;> (intro h; subst h; exact absurd hc (by decide))

theorem goodHead_flow (n : PNode) (h : n.l1 = true) : goodHead n.flow := by
  cases n with
  | null v => exact goodHead_tok _ (tokOk_nullText v (by simpa [PNode.l1] using h))
  | bool b v => exact goodHead_tok _ (tokOk_boolText b v)
  | int i v => exact goodHead_tok _ (tokOk_intText i v (by simpa [PNode.l1] using h))
  | str s st =>
    cases st <;> simp [PNode.l1] at h
    exact ⟨'"', _, rfl, by decide, by decide, by decide, by decide⟩
  | seq fl st c items => exact ⟨'[', _, rfl, by decide, by decide, by decide, by decide⟩
  | map fl st c es => exact ⟨'{', _, rfl, by decide, by decide, by decide, by decide⟩
  | anchored a n => simp [PNode.l1] at h
  | alias a t => simp [PNode.l1] at h

theorem delim_items (r : PItems) (rest : Str) : Delim (r.flow false ++ ']' :: rest) := by
  cases r with
  | nil => exact Or.inr ⟨']', rest, by simp [PItems.flow], by decide⟩
  | cons m x r' =>
    exact Or.inr ⟨',', spaces (m.gap + 1) ++ (x.flow ++ (r'.flow false ++ ']' :: rest)), by simp [PItems.flow], by decide⟩

theorem delim_entries (r : PEntries) (rest : Str) : Delim (r.flow false ++ '}' :: rest) := by
  cases r with
  | nil => exact Or.inr ⟨'}', rest, by simp [PEntries.flow], by decide⟩
  | cons m k ks x r' =>
    exact Or.inr ⟨',', ' ' :: (keyText k ks ++ ':' :: (spaces (m.gap + 1) ++ (x.flow ++ (r'.flow false ++ '}' :: rest)))),
      by simp [PEntries.flow], by decide⟩

/-- One item of a flow sequence. -/
theorem itemStep (f j : Nat) (xt R : Str) (xn : Node) (acc : List Node) (hg : goodHead xt)
    (hx : parseFlow f (xt ++ R) = .ok (xn, R)) :
    parseFlowSeq (f + 1) (spaces j ++ xt ++ R) acc = parseFlowSeqTail f R (xn :: acc) := by
  obtain ⟨c0, t0, rfl, g1, g2, g3, g4⟩ := hg
  rw [parseFlowSeq]
  simp only [List.append_assoc, List.cons_append, dropSpaces_spaces j c0 _ g1] at hx ⊢
  split
  · rename_i heq; exact absurd (List.cons.inj heq).1 g2
  · rw [hx]

/-- One entry of a flow mapping with a double-quoted key. -/
theorem entryStep (f j g : Nat) (sh eu : Bool) (k xt R : Str) (xn : Node) (acc : List (Node × Node)) (hg : goodHead xt)
    (hx : parseFlow f (spaces (g + 1) ++ xt ++ R) = .ok (xn, R)) :
    parseFlowMap (f + 1) (spaces j ++ dqText sh eu k ++ (':' :: spaces (g + 1)) ++ xt ++ R) acc
      = parseFlowMapTail f R ((.scalar false k, xn) :: acc) := by
  obtain ⟨c0, t0, rfl, g1, g2, g3, g4⟩ := hg
  rw [parseFlowMap]
  have hk : ∀ T, dropSpaces (spaces j ++ (dqText sh eu k ++ T)) = dqText sh eu k ++ T := by
    intro T; simp only [dqText, List.append_assoc, List.cons_append]; exact dropSpaces_spaces j '"' _ (by decide)
  simp only [List.append_assoc] at hx ⊢
  rw [hk]
  obtain ⟨f', rfl⟩ : ∃ f', f = f' + 1 := by
    cases f with
    | zero => simp [parseFlow] at hx
    | succ f' => exact ⟨f', rfl⟩
  have hkey := parseFlow_dq f' 0 sh eu k (':' :: (spaces (g + 1) ++ (c0 :: t0 ++ R)))
  simp only [spaces, List.replicate_zero, List.nil_append, List.append_assoc, List.cons_append] at hkey hx ⊢
  split
  · rename_i heq; simp [dqText] at heq
  · rw [hkey]
    simp only [dropSpaces, List.dropWhile_cons, show ((':' : Char) == ' ') = false by decide, Bool.false_eq_true, if_false]
    have hd : List.dropWhile (fun x => x == ' ') (List.replicate (g + 1) ' ' ++ c0 :: (t0 ++ R)) = c0 :: (t0 ++ R) := by
      have := dropSpaces_spaces (g + 1) c0 (t0 ++ R) g1
      simpa [dropSpaces, spaces] using this
    rw [hd]
    split
    · rename_i heq; exact absurd (List.cons.inj heq).1 g4
    · rename_i heq; exact absurd (List.cons.inj heq).1 g3
    · rw [hx]

mutual
theorem flowNode : (n : PNode) → n.l1 = true → ∀ (f : Nat) (rest : Str) (k : Nat), n.need ≤ f → Delim rest →
    parseFlow f (spaces k ++ n.flow ++ rest) = .ok (n.node, rest)
  | .null v, h, f, rest, k, hf, hd => by
    obtain ⟨f', rfl⟩ : ∃ f', f = f' + 1 := ⟨f - 1, by simp [PNode.need] at hf; omega⟩
    exact parseFlow_tok f' k _ rest (tokOk_nullText v (by simpa [PNode.l1] using h)) hd
  | .bool b v, h, f, rest, k, hf, hd => by
    obtain ⟨f', rfl⟩ : ∃ f', f = f' + 1 := ⟨f - 1, by simp [PNode.need] at hf; omega⟩
    exact parseFlow_tok f' k _ rest (tokOk_boolText b v) hd
  | .int i v, h, f, rest, k, hf, hd => by
    obtain ⟨f', rfl⟩ : ∃ f', f = f' + 1 := ⟨f - 1, by simp [PNode.need] at hf; omega⟩
    exact parseFlow_tok f' k _ rest (tokOk_intText i v (by simpa [PNode.l1] using h)) hd
  | .str s st, h, f, rest, k, hf, hd => by
    obtain ⟨f', rfl⟩ : ∃ f', f = f' + 1 := ⟨f - 1, by simp [PNode.need] at hf; omega⟩
    cases st <;> simp [PNode.l1] at h
    simp only [PNode.flow, strFlowText, PNode.node]
    exact parseFlow_dq f' k _ _ s rest
  | .seq fl st c items, h, f, rest, k, hf, hd => by
    have hfl : fl = true := by cases fl <;> simp [PNode.l1] at h ⊢
    subst hfl
    have hi : items.l1 = true := by simpa [PNode.l1] using h
    obtain ⟨f', rfl⟩ : ∃ f', f = f' + 2 := ⟨f - 2, by simp [PNode.need] at hf; omega⟩
    have hf' : items.need ≤ f' := by simp [PNode.need] at hf; omega
    rw [parseFlow]
    simp only [PNode.flow, List.append_assoc, List.cons_append, dropSpaces_spaces k '[' _ (by decide), PNode.node]
    cases items with
    | nil =>
      rw [parseFlowSeq]
      simp [PItems.flow, dropSpaces, PItems.nodes]
    | cons m x r =>
      have hx : x.l1 = true := by simp [PItems.l1] at hi; exact hi.1
      have hr : r.l1 = true := by simp [PItems.l1] at hi; exact hi.2
      have hneed : x.need + r.need + 2 ≤ f' := by simpa [PItems.need] using hf'
      have e2 := flowNode x hx f' (r.flow false ++ ']' :: rest) 0 (by omega) (delim_items r rest)
      simp only [spaces, List.replicate_zero, List.nil_append, List.append_assoc] at e2
      have st := itemStep f' m.gap x.flow (r.flow false ++ ']' :: rest) x.node [] (goodHead_flow x hx) e2
      simp only [PItems.flow, if_true, List.nil_append, List.append_assoc] at st ⊢
      rw [st, flowItemsTail r hr f' rest [x.node] (by omega)]
      simp [PItems.nodes]
  | .map fl st c es, h, f, rest, k, hf, hd => by
    have hfl : fl = true := by cases fl <;> simp [PNode.l1] at h ⊢
    subst hfl
    have hi : es.l1 = true := by simpa [PNode.l1] using h
    obtain ⟨f', rfl⟩ : ∃ f', f = f' + 2 := ⟨f - 2, by simp [PNode.need] at hf; omega⟩
    have hf' : es.need ≤ f' := by simp [PNode.need] at hf; omega
    rw [parseFlow]
    simp only [PNode.flow, List.append_assoc, List.cons_append, dropSpaces_spaces k '{' _ (by decide), PNode.node]
    cases es with
    | nil =>
      rw [parseFlowMap]
      simp [PEntries.flow, dropSpaces, PEntries.nodes]
    | cons m key ks x r =>
      have hks : ∃ sh eu, ks = .double sh eu := by
        cases ks <;> simp [PEntries.l1] at hi
        exact ⟨_, _, rfl⟩
      obtain ⟨sh, eu, rfl⟩ := hks
      have hx : x.l1 = true := by simp [PEntries.l1] at hi; exact hi.1
      have hr : r.l1 = true := by simp [PEntries.l1] at hi; exact hi.2
      have hneed : x.need + r.need + 3 ≤ f' := by simpa [PEntries.need] using hf'
      have e2 := flowNode x hx f' (r.flow false ++ '}' :: rest) (m.gap + 1) (by omega) (delim_entries r rest)
      have st := entryStep f' 0 m.gap sh eu key x.flow (r.flow false ++ '}' :: rest) x.node [] (goodHead_flow x hx) e2
      simp only [spaces, List.replicate_zero, PEntries.flow, if_true, List.nil_append, List.append_assoc, keyText, List.cons_append] at st ⊢
      rw [st, flowEntriesTail r hr f' rest [(.scalar false key, x.node)] (by omega)]
      simp [PEntries.nodes, keyNode]
  | .anchored a n, h, _, _, _, _, _ => by simp [PNode.l1] at h
  | .alias a t, h, _, _, _, _, _ => by simp [PNode.l1] at h
theorem flowItemsTail : (items : PItems) → items.l1 = true → ∀ (f : Nat) (rest : Str) (acc : List Node), items.need ≤ f →
    parseFlowSeqTail f (items.flow false ++ ']' :: rest) acc = .ok (.seq (acc.reverse ++ items.nodes), rest)
  | .nil, _, f, rest, acc, hf => by
    obtain ⟨f', rfl⟩ : ∃ f', f = f' + 1 := ⟨f - 1, by simp [PItems.need] at hf; omega⟩
    rw [parseFlowSeqTail]
    simp [PItems.flow, dropSpaces, PItems.nodes]
  | .cons m x r, hi, f, rest, acc, hf => by
    have hx : x.l1 = true := by simp [PItems.l1] at hi; exact hi.1
    have hr : r.l1 = true := by simp [PItems.l1] at hi; exact hi.2
    have hneed : x.need + r.need + 2 ≤ f := by simpa [PItems.need] using hf
    obtain ⟨f'', rfl⟩ : ∃ f'', f = f'' + 2 := ⟨f - 2, by omega⟩
    rw [parseFlowSeqTail]
    simp only [PItems.flow, Bool.false_eq_true, if_false, List.append_assoc, List.cons_append, List.nil_append,
      dropSpaces, List.dropWhile_cons]
    simp only [show ((',' : Char) == ' ') = false by decide, Bool.false_eq_true, if_false]
    have e2 := flowNode x hx f'' (r.flow false ++ ']' :: rest) 0 (by omega) (delim_items r rest)
    simp only [spaces, List.replicate_zero, List.nil_append, List.append_assoc] at e2
    have st := itemStep f'' (m.gap + 1) x.flow (r.flow false ++ ']' :: rest) x.node acc (goodHead_flow x hx) e2
    simp only [List.append_assoc] at st
    rw [st, flowItemsTail r hr f'' rest (x.node :: acc) (by omega)]
    simp [PItems.nodes]
theorem flowEntriesTail : (es : PEntries) → es.l1 = true → ∀ (f : Nat) (rest : Str) (acc : List (Node × Node)), es.need ≤ f →
    parseFlowMapTail f (es.flow false ++ '}' :: rest) acc = .ok (.map (acc.reverse ++ es.nodes), rest)
  | .nil, _, f, rest, acc, hf => by
    obtain ⟨f', rfl⟩ : ∃ f', f = f' + 1 := ⟨f - 1, by simp [PEntries.need] at hf; omega⟩
    rw [parseFlowMapTail]
    simp [PEntries.flow, dropSpaces, PEntries.nodes]
  | .cons m key ks x r, hi, f, rest, acc, hf => by
    have hks : ∃ sh eu, ks = .double sh eu := by
      cases ks <;> simp [PEntries.l1] at hi
      exact ⟨_, _, rfl⟩
    obtain ⟨sh, eu, rfl⟩ := hks
    have hx : x.l1 = true := by simp [PEntries.l1] at hi; exact hi.1
    have hr : r.l1 = true := by simp [PEntries.l1] at hi; exact hi.2
    have hneed : x.need + r.need + 3 ≤ f := by simpa [PEntries.need] using hf
    obtain ⟨f'', rfl⟩ : ∃ f'', f = f'' + 2 := ⟨f - 2, by omega⟩
    rw [parseFlowMapTail]
    simp only [PEntries.flow, Bool.false_eq_true, if_false, List.append_assoc, List.cons_append, List.nil_append,
      dropSpaces, List.dropWhile_cons]
    simp only [show ((',' : Char) == ' ') = false by decide, Bool.false_eq_true, if_false]
    have e2 := flowNode x hx f'' (r.flow false ++ '}' :: rest) (m.gap + 1) (by omega) (delim_entries r rest)
    have st := entryStep f'' 1 m.gap sh eu key x.flow (r.flow false ++ '}' :: rest) x.node acc (goodHead_flow x hx) e2
    simp only [spaces, List.replicate_succ, List.replicate_zero, List.append_assoc, List.cons_append, List.nil_append, keyText] at st ⊢
    rw [st, flowEntriesTail r hr f'' rest ((.scalar false key, x.node) :: acc) (by omega)]
    simp [PEntries.nodes, keyNode]
end


theorem isDigit_eq (c : Char) : isDigit c = c.isDigit := by
  simp only [isDigit, Char.isDigit]
  rfl

theorem resolvePlain_digits (s : Str) (hne : s ≠ []) (hall : s.all isDigit = true) :
    resolvePlain s = .int (natOfDigits 10 s) := by
  cases s with
  | nil => exact absurd rfl hne
  | cons c t =>
    have hc : isDigit c = true := by simp only [List.all_cons, Bool.and_eq_true] at hall; exact hall.1
    have hw : ∀ w : Str, (∃ d r, w = d :: r ∧ isDigit d = false) → c :: t ≠ w := by
      intro w ⟨d, r, hw, hd⟩ h
      rw [hw] at h
      have := (List.cons.inj h).1
      subst this; rw [hc] at hd; cases hd
    unfold resolvePlain
    rw [if_neg, if_neg, if_neg]
    · split
      · rename_i ds heq
        exfalso
        have h2 := (List.cons.inj heq).2
        subst h2
        simp only [List.all_cons, Bool.and_eq_true] at hall
        exact absurd hall.2.1 (by decide)
      · rename_i ds heq
        exfalso
        have h2 := (List.cons.inj heq).2
        subst h2
        simp only [List.all_cons, Bool.and_eq_true] at hall
        exact absurd hall.2.1 (by decide)
      · rename_i ds heq
        exfalso
        have h1 := (List.cons.inj heq).1
        subst h1; exact absurd hc (by decide)
      · rename_i ds heq
        exfalso
        have h1 := (List.cons.inj heq).1
        subst h1; exact absurd hc (by decide)
      · simp [allDigits, hall]
    · intro h
      rcases h with h | h | h <;> exact hw _ ⟨_, _, rfl, by decide⟩ h
    · intro h
      rcases h with h | h | h <;> exact hw _ ⟨_, _, rfl, by decide⟩ h
    · intro h
      rcases h with h | h | h | h | h
      · cases h
      all_goals exact hw _ ⟨_, _, rfl, by decide⟩ h

theorem resolvePlain_neg (s : Str) (hne : s ≠ []) (hall : s.all isDigit = true) :
    resolvePlain ('-' :: s) = .int (- (natOfDigits 10 s : Int)) := by
  have hw : ∀ w : Str, (∃ d r, w = d :: r ∧ d ≠ '-') → '-' :: s ≠ w := by
    intro w ⟨d, r, hw, hd⟩ h
    rw [hw] at h
    exact hd (List.cons.inj h).1.symm
  unfold resolvePlain
  rw [if_neg, if_neg, if_neg]
  · simp [allDigits, hall, hne]
  · intro h
    rcases h with h | h | h <;> exact hw _ ⟨_, _, rfl, by decide⟩ h
  · intro h
    rcases h with h | h | h <;> exact hw _ ⟨_, _, rfl, by decide⟩ h
  · intro h
    rcases h with h | h | h | h | h
    · cases h
    all_goals exact hw _ ⟨_, _, rfl, by decide⟩ h


end SV.Yaml
