/-
Proof/NumFmt — helper lemmas for C10 (decimal values of digit strings, readers of built literals).
-/
import SuccinctlyVerif.Model.NumFmt
namespace SV.NumFmt
open SV.Dec

/-! ### digit characters -/

theorem digitVal_digitChar (d : Nat) (h : d < 10) : digitVal (digitChar d) = d := by
  have : d = 0 ∨ d = 1 ∨ d = 2 ∨ d = 3 ∨ d = 4 ∨ d = 5 ∨ d = 6 ∨ d = 7 ∨ d = 8 ∨ d = 9 := by omega
  rcases this with h | h | h | h | h | h | h | h | h | h <;> subst h <;> decide

theorem isDigit_digitChar (d : Nat) : (digitChar d).isDigit = true := by
  unfold digitChar
  split <;> decide

theorem isDigit_ne_minus {c : Char} (h : c.isDigit = true) : c ≠ '-' := by
  intro e; subst e; revert h; decide

theorem isDigit_ne_plus {c : Char} (h : c.isDigit = true) : c ≠ '+' := by
  intro e; subst e; revert h; decide

theorem isDigit_ne_dot {c : Char} (h : c.isDigit = true) : c ≠ '.' := by
  intro e; subst e; revert h; decide

theorem isDigit_ne_e {c : Char} (h : c.isDigit = true) : c ≠ 'e' := by
  intro e; subst e; revert h; decide

theorem isDigit_ne_E {c : Char} (h : c.isDigit = true) : c ≠ 'E' := by
  intro e; subst e; revert h; decide

/-! ### `digitsVal` -/

theorem digitsValAcc_eq (l : Str) : ∀ acc, digitsValAcc acc l = acc * 10 ^ l.length + digitsVal l := by
  induction l with
  | nil => intro acc; show acc = acc * 10 ^ 0 + 0; simp
  | cons c cs ih =>
    intro acc
    show digitsValAcc (acc * 10 + digitVal c) cs
      = acc * 10 ^ (cs.length + 1) + digitsValAcc (0 * 10 + digitVal c) cs
    rw [ih, ih (0 * 10 + digitVal c)]
    grind

theorem digitsVal_nil : digitsVal [] = 0 := rfl

theorem digitsVal_cons (c : Char) (cs : Str) :
    digitsVal (c :: cs) = digitVal c * 10 ^ cs.length + digitsVal cs := by
  show digitsValAcc (0 * 10 + digitVal c) cs = _
  rw [digitsValAcc_eq]; simp

theorem digitsVal_append (a b : Str) :
    digitsVal (a ++ b) = digitsVal a * 10 ^ b.length + digitsVal b := by
  induction a with
  | nil => simp [digitsVal_nil]
  | cons c cs ih =>
    simp only [List.cons_append, digitsVal_cons, ih, List.length_append]
    grind

theorem digitsVal_singleton (c : Char) : digitsVal [c] = digitVal c := by
  simp [digitsVal_cons, digitsVal_nil]

theorem digitsVal_zero_cons (l : Str) : digitsVal ('0' :: l) = digitsVal l := by
  rw [digitsVal_cons]; simp [digitVal]

theorem digitsVal_replicate_zero (n : Nat) (l : Str) :
    digitsVal (List.replicate n '0' ++ l) = digitsVal l := by
  induction n with
  | zero => simp
  | succ n ih => simp [List.replicate_succ, digitsVal_zero_cons, ih]

theorem digitsVal_trimStartZeros (l : Str) : digitsVal (trimStartZeros l) = digitsVal l := by
  induction l with
  | nil => rfl
  | cons c cs ih =>
    unfold trimStartZeros at *
    by_cases h : c = '0'
    · subst h; simp [digitsVal_zero_cons, ih]
    · simp [h]

theorem digitsValFast_eq : ∀ (f : Nat) (l : Str), digitsValFast f l = digitsVal l := by
  intro f
  induction f with
  | zero => intro l; rfl
  | succ f ih =>
    intro l
    unfold digitsValFast
    split
    · rfl
    · simp only [ih]
      have h := digitsVal_append (l.take (l.length / 2)) (l.drop (l.length / 2))
      rw [List.take_append_drop] at h
      rw [h]; simp [List.length_drop]

/-! ### `allDigits` -/

theorem allDigits_append (a b : Str) : allDigits (a ++ b) = (allDigits a && allDigits b) := by
  simp [allDigits, List.all_append]

theorem allDigits_cons (c : Char) (l : Str) : allDigits (c :: l) = (c.isDigit && allDigits l) := by
  simp [allDigits]

theorem allDigits_replicate_zero (n : Nat) : allDigits (List.replicate n '0') = true := by
  simp [allDigits, List.all_replicate]

theorem takeWhile_digits_append (ds rest : Str) (hd : allDigits ds = true)
    (hr : ∀ c t, rest = c :: t → c.isDigit = false) :
    (ds ++ rest).takeWhile Char.isDigit = ds ∧ (ds ++ rest).dropWhile Char.isDigit = rest := by
  induction ds with
  | nil =>
    cases rest with
    | nil => simp
    | cons c t => have := hr c t rfl; simp [this]
  | cons d ds ih =>
    rw [allDigits_cons, Bool.and_eq_true] at hd
    have := ih hd.2
    simp [hd.1, this.1, this.2]

/-! ### `natDigits` -/

theorem natDigits_spec (n : Nat) :
    allDigits (natDigits n) = true ∧ digitsVal (natDigits n) = n ∧ natDigits n ≠ [] := by
  induction n using natDigits.induct with
  | case1 n h =>
    rw [natDigits]; simp only [h, dite_true]
    refine ⟨?_, ?_, by simp⟩
    · simp [allDigits, isDigit_digitChar]
    · rw [digitsVal_singleton, digitVal_digitChar n h]
  | case2 n h ih =>
    rw [natDigits]; simp only [h, dite_false]
    refine ⟨?_, ?_, by simp⟩
    · rw [allDigits_append, ih.1]; simp [allDigits, isDigit_digitChar]
    · rw [digitsVal_append, ih.2.1, digitsVal_singleton, digitVal_digitChar _ (Nat.mod_lt _ (by omega))]
      simp; omega

/-! ### signs and integer reading -/

theorem stripSign_of_ne {c : Char} (t : Str) (h1 : c ≠ '-') (h2 : c ≠ '+') :
    stripSign (c :: t) = (false, c :: t) := by
  unfold stripSign
  split <;> simp_all

theorem stripSign_digit {c : Char} (t : Str) (h : c.isDigit = true) :
    stripSign (c :: t) = (false, c :: t) :=
  stripSign_of_ne t (isDigit_ne_minus h) (isDigit_ne_plus h)

theorem readInt_digits (ds : Str) (h : allDigits ds = true) (hne : ds ≠ []) :
    readInt ds = some (digitsVal ds : Int) := by
  cases ds with
  | nil => exact absurd rfl hne
  | cons c t =>
    have hc : c.isDigit = true := by rw [allDigits_cons, Bool.and_eq_true] at h; exact h.1
    simp [readInt, stripSign_digit t hc, h]

theorem readInt_neg_digits (ds : Str) (h : allDigits ds = true) (hne : ds ≠ []) :
    readInt ('-' :: ds) = some (-(digitsVal ds : Int)) := by
  cases ds with
  | nil => exact absurd rfl hne
  | cons c t => simp [readInt, stripSign, h]

/-! ### `write_i64` -/

theorem writeI64Loop_spec : ∀ (room n : Nat) (acc : Str), n < 10 ^ room →
    ∃ ds, writeI64Loop room n acc = some (ds ++ acc) ∧ allDigits ds = true ∧ digitsVal ds = n
      ∧ (0 < n → ds ≠ []) := by
  intro room
  induction room with
  | zero =>
    intro n acc h
    have : n = 0 := by simpa using h
    subst this
    exact ⟨[], by simp [writeI64Loop], rfl, rfl, by simp⟩
  | succ room ih =>
    intro n acc h
    cases n with
    | zero => exact ⟨[], by simp [writeI64Loop], rfl, rfl, by simp⟩
    | succ n =>
      have hlt : (n + 1) / 10 < 10 ^ room := by
        apply Nat.div_lt_of_lt_mul
        rw [Nat.pow_succ] at h; omega
      obtain ⟨ds, h1, h2, h3, _⟩ := ih ((n + 1) / 10) (digitChar ((n + 1) % 10) :: acc) hlt
      refine ⟨ds ++ [digitChar ((n + 1) % 10)], ?_, ?_, ?_, by simp⟩
      · simp [writeI64Loop, h1]
      · rw [allDigits_append, h2]; simp [allDigits, isDigit_digitChar]
      · rw [digitsVal_append, h3, digitsVal_singleton, digitVal_digitChar _ (Nat.mod_lt _ (by omega))]
        simp; omega

theorem pow10_20 : (10 : Nat) ^ 20 = 100000000000000000000 := by decide

theorem writeI64_readInt (n : Int) (lo : I64_MIN ≤ n) (hi : n ≤ I64_MAX) :
    ∃ s, writeI64 n = some s ∧ readInt s = some n := by
  unfold writeI64
  simp only [I64_MIN, I64_MAX] at lo hi
  by_cases h0 : n = 0
  · subst h0; exact ⟨['0'], by simp, by decide⟩
  · by_cases hneg : n < 0
    · by_cases hmin : n = I64_MIN
      · subst hmin
        refine ⟨'-' :: "9223372036854775808".toList, by simp [I64_MIN], ?_⟩
        decide
      · have hlt : (-n).toNat < 10 ^ 20 := by rw [pow10_20]; omega
        obtain ⟨ds, h1, h2, h3, h4⟩ := writeI64Loop_spec 20 (-n).toNat [] hlt
        have hne : ds ≠ [] := h4 (by omega)
        refine ⟨'-' :: ds, ?_, ?_⟩
        · simp [h0, hneg, hmin, h1]
        · rw [readInt_neg_digits ds h2 hne, h3]; congr 1; omega
    · have hlt : n.toNat < 10 ^ 20 := by rw [pow10_20]; omega
      obtain ⟨ds, h1, h2, h3, h4⟩ := writeI64Loop_spec 20 n.toNat [] hlt
      have hne : ds ≠ [] := h4 (by omega)
      refine ⟨ds, ?_, ?_⟩
      · simp [h0, hneg, h1]
      · rw [readInt_digits ds h2 hne, h3]; congr 1; omega


/-! ### reading a literal given by its pieces -/

theorem stripSign_signStr (s : Str) (hs : isSignStr s) (body : Str)
    (hb : ∀ c t, body = c :: t → c ≠ '-' ∧ c ≠ '+') :
    stripSign (s ++ body) = (s == ['-'], body) := by
  rcases hs with h | h | h <;> subst h
  · cases body with
    | nil => rfl
    | cons c t => have := hb c t rfl; simpa using stripSign_of_ne t this.1 this.2
  · rfl
  · rfl

theorem decPartsExp_none (neg : Bool) (ip fp : Str) (h : ¬ (ip = [] ∧ fp = [])) :
    decPartsExp neg ip fp [] = some ⟨neg, ip, fp, none⟩ := by
  unfold decPartsExp
  have : (ip.isEmpty && fp.isEmpty) = false := by
    cases ip <;> cases fp <;> simp_all
  simp [this]

theorem decPartsExp_some (neg : Bool) (ip fp : Str) (h : ¬ (ip = [] ∧ fp = []))
    (m : Char) (hm : m = 'e' ∨ m = 'E') (s d : Str) (hs : isSignStr s)
    (hd : allDigits d = true) (hne : d ≠ []) :
    decPartsExp neg ip fp (m :: (s ++ d)) = some ⟨neg, ip, fp, some (s == ['-'], d)⟩ := by
  unfold decPartsExp
  have h0 : (ip.isEmpty && fp.isEmpty) = false := by
    cases ip <;> cases fp <;> simp_all
  have hm' : (m == 'e' || m == 'E') = true := by rcases hm with h | h <;> subst h <;> decide
  have hss : stripSign (s ++ d) = (s == ['-'], d) := by
    apply stripSign_signStr s hs d
    intro c t e; subst e
    have hc : c.isDigit = true := by rw [allDigits_cons, Bool.and_eq_true] at hd; exact hd.1
    exact ⟨isDigit_ne_minus hc, isDigit_ne_plus hc⟩
  have hdne : d.isEmpty = false := by cases d <;> simp_all
  simp [h0, hm', hss, hd, hdne]

theorem decParts_text (l : Lit) (hw : l.wf) :
    decParts l.text = some ⟨l.sign == ['-'], l.ip, l.frac.getD [],
      match l.exp with
      | some (_, s, d) => some (s == ['-'], d)
      | none => none⟩ := by
  obtain ⟨sign, ip, frac, exp⟩ := l
  obtain ⟨hs, hip, hf, he⟩ := hw
  simp only at hs hip hf he
  -- head of the exponent text is not a digit / sign / dot
  have hE : ∀ c t, Lit.expText ⟨sign, ip, frac, exp⟩ = c :: t →
      c.isDigit = false ∧ c ≠ '-' ∧ c ≠ '+' ∧ c ≠ '.' := by
    intro c t e
    cases exp with
    | none => simp [Lit.expText] at e
    | some x =>
      obtain ⟨m, s, d⟩ := x
      simp only [Lit.expText, List.cons.injEq] at e
      obtain ⟨rfl, _⟩ := e
      rcases he.1 with h | h <;> subst h <;> decide
  have hFE : ∀ c t, Lit.fracText ⟨sign, ip, frac, exp⟩ ++ Lit.expText ⟨sign, ip, frac, exp⟩ = c :: t →
      c.isDigit = false ∧ c ≠ '-' ∧ c ≠ '+' := by
    intro c t e
    cases frac with
    | none => simp only [Lit.fracText, List.nil_append] at e; exact ⟨(hE c t e).1, (hE c t e).2.1, (hE c t e).2.2.1⟩
    | some f =>
      simp only [Lit.fracText, List.cons_append, List.cons.injEq] at e
      obtain ⟨rfl, _⟩ := e
      decide
  have hbody : ∀ c t, ip ++ (Lit.fracText ⟨sign, ip, frac, exp⟩ ++ Lit.expText ⟨sign, ip, frac, exp⟩) = c :: t →
      c ≠ '-' ∧ c ≠ '+' := by
    intro c t e
    cases ip with
    | nil => simp only [List.nil_append] at e; exact (hFE c t e).2
    | cons c' t' =>
      simp only [List.cons_append, List.cons.injEq] at e
      obtain ⟨rfl, _⟩ := e
      have hc : c'.isDigit = true := by rw [allDigits_cons, Bool.and_eq_true] at hip; exact hip.1
      exact ⟨isDigit_ne_minus hc, isDigit_ne_plus hc⟩
  have h1 := stripSign_signStr sign hs _ hbody
  have h2 := takeWhile_digits_append ip _ hip (fun c t e => (hFE c t e).1)
  unfold decParts
  simp only [Lit.text, h1, h2.1, h2.2]
  cases frac with
  | none =>
    have hipne : ip ≠ [] := hf
    have hne : ¬ (ip = [] ∧ ([] : Str) = []) := fun h => hipne h.1
    simp only [Lit.fracText, List.nil_append, Option.getD_none]
    cases exp with
    | none => simp only [Lit.expText]; unfold decPartsFrac; exact decPartsExp_none _ _ _ hne
    | some x =>
      obtain ⟨m, s, d⟩ := x
      have hm := (hE m (s ++ d) rfl).2.2.2
      simp only [Lit.expText]
      unfold decPartsFrac
      split
      · rename_i heq; simp only [List.cons.injEq] at heq; exact absurd heq.1 hm
      · exact decPartsExp_some _ _ _ hne m he.1 s d he.2.1 he.2.2.1 he.2.2.2
  | some f =>
    have hne : ¬ (ip = [] ∧ f = []) := fun h => hf.2 h.2
    have h3 := takeWhile_digits_append f (Lit.expText ⟨sign, ip, some f, exp⟩) hf.1 (fun c t e => (hE c t e).1)
    simp only [Lit.fracText, List.cons_append, Option.getD_some]
    unfold decPartsFrac
    simp only [h3.1, h3.2]
    cases exp with
    | none => simp only [Lit.expText]; exact decPartsExp_none _ _ _ hne
    | some x =>
      obtain ⟨m, s, d⟩ := x
      simp only [Lit.expText]
      exact decPartsExp_some _ _ _ hne m he.1 s d he.2.1 he.2.2.1 he.2.2.2

theorem parseDec_text (l : Lit) (hw : l.wf) : parseDec l.text = some l.toDec := by
  unfold parseDec
  rw [decParts_text l hw]
  obtain ⟨sign, ip, frac, exp⟩ := l
  cases exp with
  | none => simp [Parts.toDec, Parts.expVal, Lit.toDec]
  | some x => obtain ⟨m, s, d⟩ := x; simp [Parts.toDec, Parts.expVal, Lit.toDec]

theorem Dec.same_refl (a : Dec) : a.same a := ⟨rfl, rfl⟩


/-! ### strict literals are RFC 8259 numbers -/

theorem jsonExpEnd_expText (l : Lit) (hw : l.wf) : jsonExpEnd l.expText = true := by
  obtain ⟨sign, ip, frac, exp⟩ := l
  have he := hw.exp
  simp only at he
  cases exp with
  | none => rfl
  | some x =>
    obtain ⟨m, s, d⟩ := x
    have hm' : (m == 'e' || m == 'E') = true := by rcases he.1 with h | h <;> subst h <;> decide
    have hdne : d.isEmpty = false := by cases d <;> simp_all
    simp only [Lit.expText, jsonExpEnd, hm', if_true]
    rcases he.2.1 with h | h | h <;> subst h
    · cases d with
      | nil => simp at hdne
      | cons c t =>
        have hc : c.isDigit = true := by
          have := he.2.2.1; rw [allDigits_cons, Bool.and_eq_true] at this; exact this.1
        have h1 := isDigit_ne_minus hc
        have h2 := isDigit_ne_plus hc
        simp only [List.nil_append]
        split
        · rename_i heq; simp only [List.cons.injEq] at heq; exact absurd heq.1 h2
        · rename_i heq; simp only [List.cons.injEq] at heq; exact absurd heq.1 h1
        · simp [he.2.2.1]
    · simp [he.2.2.1, hdne]
    · simp [he.2.2.1, hdne]

theorem isJsonNumber_text (l : Lit) (hs : l.strict) : isJsonNumber l.text = true := by
  have hw := hs.towf
  have hEE := jsonExpEnd_expText l hw
  obtain ⟨sign, ip, frac, exp⟩ := l
  have hsign := hw.sign; have hip := hw.ip; have hf := hw.frac; have he := hw.exp
  have hnp := hs.noPlus; have hint := hs.int
  simp only at hsign hip hf he hnp hint
  -- head of exponent text is neither digit nor dot
  have hE : ∀ c t, Lit.expText ⟨sign, ip, frac, exp⟩ = c :: t → c.isDigit = false ∧ c ≠ '.' := by
    intro c t e
    cases exp with
    | none => simp [Lit.expText] at e
    | some x =>
      obtain ⟨m, s, d⟩ := x
      simp only [Lit.expText, List.cons.injEq] at e
      obtain ⟨rfl, _⟩ := e
      rcases he.1 with h | h <;> subst h <;> decide
  -- the fraction stage
  have hFrac : jsonFracRest (Lit.fracText ⟨sign, ip, frac, exp⟩ ++ Lit.expText ⟨sign, ip, frac, exp⟩)
      = some (Lit.expText ⟨sign, ip, frac, exp⟩) := by
    cases frac with
    | none =>
      simp only [Lit.fracText, List.nil_append]
      unfold jsonFracRest
      split
      · rename_i r heq; exact absurd rfl (hE '.' r heq).2
      · rfl
    | some f =>
      have h3 := takeWhile_digits_append f (Lit.expText ⟨sign, ip, some f, exp⟩) hf.1 (fun c t e => (hE c t e).1)
      have hfne : f.isEmpty = false := by cases f <;> simp_all
      simp [Lit.fracText, jsonFracRest, h3.1, h3.2, hfne]
  have hFE : ∀ c t, Lit.fracText ⟨sign, ip, frac, exp⟩ ++ Lit.expText ⟨sign, ip, frac, exp⟩ = c :: t →
      c.isDigit = false := by
    intro c t e
    cases frac with
    | none => simp only [Lit.fracText, List.nil_append] at e; exact (hE c t e).1
    | some f =>
      simp only [Lit.fracText, List.cons_append, List.cons.injEq] at e
      obtain ⟨rfl, _⟩ := e
      decide
  -- the integer stage
  have hInt : jsonIntRest (ip ++ (Lit.fracText ⟨sign, ip, frac, exp⟩ ++ Lit.expText ⟨sign, ip, frac, exp⟩))
      = some (Lit.fracText ⟨sign, ip, frac, exp⟩ ++ Lit.expText ⟨sign, ip, frac, exp⟩) := by
    rcases hint with h | ⟨c, t, h, hc0⟩
    · subst h; rfl
    · subst h
      rw [allDigits_cons, Bool.and_eq_true] at hip
      have h2 := takeWhile_digits_append t _ hip.2 hFE
      simp only [List.cons_append]
      unfold jsonIntRest
      split
      · rename_i heq; simp only [List.cons.injEq] at heq; exact absurd heq.1 hc0
      · rename_i heq; simp only [List.cons.injEq] at heq
        obtain ⟨rfl, rfl⟩ := heq
        simp [hip.1, h2.2]
      · rename_i heq; simp at heq
  have hhead : ∀ c t, ip ++ (Lit.fracText ⟨sign, ip, frac, exp⟩ ++ Lit.expText ⟨sign, ip, frac, exp⟩) = c :: t
      → c ≠ '-' := by
    intro c t e
    rcases hint with h | ⟨c', t', h, _⟩
    · subst h; simp only [List.cons_append, List.cons.injEq] at e; obtain ⟨rfl, _⟩ := e; decide
    · subst h
      simp only [List.cons_append, List.cons.injEq] at e; obtain ⟨rfl, _⟩ := e
      rw [allDigits_cons, Bool.and_eq_true] at hip
      exact isDigit_ne_minus hip.1
  unfold isJsonNumber
  simp only [Lit.text]
  rcases hsign with h | h | h
  · subst h
    simp only [List.nil_append]
    have hm : dropMinus (ip ++ (Lit.fracText ⟨[], ip, frac, exp⟩ ++ Lit.expText ⟨[], ip, frac, exp⟩))
        = ip ++ (Lit.fracText ⟨[], ip, frac, exp⟩ ++ Lit.expText ⟨[], ip, frac, exp⟩) := by
      unfold dropMinus
      split
      · rename_i t heq; exact absurd rfl (hhead '-' t heq)
      · rfl
    rw [hm]; unfold isJsonBody; simp only [hInt, hFrac, hEE]
  · subst h
    simp only [List.cons_append, List.nil_append, dropMinus]
    unfold isJsonBody; simp only [hInt, hFrac, hEE]
  · exact absurd h hnp


/-! ### recogniser soundness: every `isJsonNumber` text is a strict `Lit` -/

theorem allDigits_takeWhile (l : Str) : allDigits (l.takeWhile Char.isDigit) = true := by
  induction l with
  | nil => rfl
  | cons c t ih =>
    by_cases h : c.isDigit = true
    · simp [List.takeWhile_cons, h, allDigits_cons, ih]
    · simp [List.takeWhile_cons, h, allDigits]

theorem jsonIntRest_sound (r r1 : Str) (h : jsonIntRest r = some r1) :
    ∃ ip, allDigits ip = true ∧ (ip = ['0'] ∨ ∃ c t, ip = c :: t ∧ c ≠ '0') ∧ r = ip ++ r1 := by
  unfold jsonIntRest at h
  split at h
  · simp only [Option.some.injEq] at h; subst h
    exact ⟨['0'], by decide, Or.inl rfl, rfl⟩
  · rename_i c t hne
    split at h
    · rename_i hc
      simp only [Option.some.injEq] at h; subst h
      refine ⟨c :: t.takeWhile Char.isDigit, ?_, Or.inr ⟨c, _, rfl, ?_⟩, ?_⟩
      · rw [allDigits_cons, hc, allDigits_takeWhile]; rfl
      · intro e; subst e; exact hne rfl
      · simp [List.takeWhile_append_dropWhile]
    · exact absurd h (by simp)
  · exact absurd h (by simp)

theorem jsonFracRest_sound (r1 r2 : Str) (h : jsonFracRest r1 = some r2) :
    ∃ frac : Option Str, (match frac with
        | some f => allDigits f = true ∧ f ≠ []
        | none => True) ∧
      r1 = (match frac with
        | some f => '.' :: f
        | none => []) ++ r2 := by
  unfold jsonFracRest at h
  split at h
  · rename_i t
    split at h
    · exact absurd h (by simp)
    · rename_i hne
      simp only [Option.some.injEq] at h; subst h
      refine ⟨some (t.takeWhile Char.isDigit), ⟨allDigits_takeWhile t, ?_⟩, ?_⟩
      · intro e; rw [e] at hne; simp at hne
      · simp [List.takeWhile_append_dropWhile]
  · simp only [Option.some.injEq] at h; subst h
    exact ⟨none, trivial, rfl⟩

theorem jsonExpEnd_sound (r2 : Str) (h : jsonExpEnd r2 = true) :
    ∃ exp : Option (Char × Str × Str), (match exp with
        | some (m, s, d) => (m = 'e' ∨ m = 'E') ∧ isSignStr s ∧ allDigits d = true ∧ d ≠ []
        | none => True) ∧
      r2 = (match exp with
        | some (m, s, d) => m :: (s ++ d)
        | none => []) := by
  unfold jsonExpEnd at h
  split at h
  · exact ⟨none, trivial, rfl⟩
  · rename_i c r
    split at h
    · rename_i hm
      have hm' : c = 'e' ∨ c = 'E' := by simpa using hm
      simp only [Bool.and_eq_true, Bool.not_eq_true'] at h
      split at h
      · rename_i t
        refine ⟨some (c, ['+'], t), ⟨hm', Or.inr (Or.inr rfl), h.2, ?_⟩, rfl⟩
        intro e; rw [e] at h; simp at h
      · rename_i t
        refine ⟨some (c, ['-'], t), ⟨hm', Or.inr (Or.inl rfl), h.2, ?_⟩, rfl⟩
        intro e; rw [e] at h; simp at h
      · refine ⟨some (c, [], r), ⟨hm', Or.inl rfl, h.2, ?_⟩, rfl⟩
        intro e; rw [e] at h; simp at h
    · exact absurd h (by simp)

theorem isJsonBody_sound (r : Str) (h : isJsonBody r = true) :
    ∃ l : Lit, l.sign = [] ∧ l.strict ∧ l.text = r := by
  unfold isJsonBody at h
  split at h
  · exact absurd h (by simp)
  · rename_i r1 h1
    split at h
    · exact absurd h (by simp)
    · rename_i r2 h2
      obtain ⟨ip, hip, hint, hr⟩ := jsonIntRest_sound r r1 h1
      obtain ⟨frac, hfrac, hr1⟩ := jsonFracRest_sound r1 r2 h2
      obtain ⟨exp, hexp, hr2⟩ := jsonExpEnd_sound r2 h
      refine ⟨⟨[], ip, frac, exp⟩, rfl, ?_, ?_⟩
      · exact
          { sign := Or.inl rfl
            ip := hip
            frac := by
              cases frac with
              | none => simp only; rcases hint with h | ⟨c, t, h, _⟩ <;> rw [h] <;> simp
              | some f => exact hfrac
            exp := hexp
            noPlus := by simp
            int := hint }
      · rw [hr, hr1, hr2]
        cases frac <;> cases exp <;> simp [Lit.text, Lit.fracText, Lit.expText]

/-- Soundness of the RFC 8259 recogniser w.r.t. the generative grammar: every text it accepts is
the text of a strict literal (the converse is `isJsonNumber_text`). -/
theorem isJsonNumber_sound (s : Str) (h : isJsonNumber s = true) : ∃ l : Lit, l.strict ∧ l.text = s := by
  unfold isJsonNumber at h
  unfold dropMinus at h
  split at h
  · rename_i t
    obtain ⟨l, hs, hst, ht⟩ := isJsonBody_sound t h
    refine ⟨⟨['-'], l.ip, l.frac, l.exp⟩, ?_, ?_⟩
    · exact { sign := Or.inr (Or.inl rfl), ip := hst.ip, frac := hst.frac, exp := hst.exp,
              noPlus := by simp, int := hst.int }
    · rw [← ht]; simp [Lit.text, hs, Lit.fracText, Lit.expText]
  · obtain ⟨l, _, hst, ht⟩ := isJsonBody_sound _ h
    exact ⟨l, hst, ht⟩


/-! ### membership / splitting facts for digit strings -/

theorem not_mem_of_allDigits {c : Char} (hc : c.isDigit = false) :
    ∀ (ds : Str), allDigits ds = true → c ∉ ds := by
  intro ds
  induction ds with
  | nil => intro _; simp
  | cons d t ih =>
    intro h
    rw [allDigits_cons, Bool.and_eq_true] at h
    simp only [List.mem_cons, not_or]
    refine ⟨?_, ih h.2⟩
    intro e; subst e; rw [hc] at h; exact absurd h.1 (by simp)

theorem not_mem_signStr {c : Char} (h1 : c ≠ '-') (h2 : c ≠ '+') (s : Str) (hs : isSignStr s) : c ∉ s := by
  rcases hs with h | h | h <;> subst h <;> simp [h1, h2]

theorem splitOnce_dot_digits (ip f : Str) (h : allDigits ip = true) :
    splitOnce '.' (ip ++ '.' :: f) = some (ip, f) := by
  induction ip with
  | nil => simp [splitOnce]
  | cons d t ih =>
    rw [allDigits_cons, Bool.and_eq_true] at h
    have hd : d ≠ '.' := isDigit_ne_dot h.1
    have := ih h.2
    unfold splitOnce at this ⊢
    simp only [List.cons_append, List.dropWhile_cons, List.takeWhile_cons, bne_iff_ne, ne_eq, hd,
      not_false_eq_true, decide_true, if_true]
    split at this
    · simp at this
    · rename_i heq; rw [heq]; simp only [Option.some.injEq, Prod.mk.injEq] at this ⊢
      exact ⟨by rw [this.1], this.2⟩

theorem splitOnce_dot_none (ip : Str) (h : allDigits ip = true) : splitOnce '.' ip = none := by
  induction ip with
  | nil => simp [splitOnce]
  | cons d t ih =>
    rw [allDigits_cons, Bool.and_eq_true] at h
    have hd : d ≠ '.' := isDigit_ne_dot h.1
    have := ih h.2
    unfold splitOnce at this ⊢
    simp only [List.dropWhile_cons, bne_iff_ne, ne_eq, hd, not_false_eq_true, decide_true, if_true]
    split at this
    · rfl
    · simp at this

theorem allDigits_trimStartZeros (ds : Str) (h : allDigits ds = true) :
    allDigits (trimStartZeros ds) = true := by
  induction ds with
  | nil => rfl
  | cons d t ih =>
    rw [allDigits_cons, Bool.and_eq_true] at h
    unfold trimStartZeros at *
    by_cases hd : d = '0'
    · subst hd; simpa using ih h.2
    · simp [hd, allDigits_cons, h.1, h.2]

theorem trimStartZeros_head (ds : Str) : trimStartZeros ds = [] ∨ ∃ c t, trimStartZeros ds = c :: t ∧ c ≠ '0' := by
  induction ds with
  | nil => left; rfl
  | cons d t ih =>
    unfold trimStartZeros at *
    by_cases hd : d = '0'
    · subst hd; simpa using ih
    · right; exact ⟨d, t, by simp [hd], hd⟩

theorem canonInt_spec (ip : Str) (h : allDigits ip = true) :
    allDigits (canonInt ip) = true ∧ digitsVal (canonInt ip) = digitsVal ip ∧
    (canonInt ip = ['0'] ∨ ∃ c t, canonInt ip = c :: t ∧ c ≠ '0') := by
  unfold canonInt
  have h1 := allDigits_trimStartZeros ip h
  have h2 := digitsVal_trimStartZeros ip
  rcases trimStartZeros_head ip with h3 | ⟨c, t, h3, hc⟩
  · rw [h3] at h2 ⊢
    exact ⟨by decide, by rw [← h2]; decide, Or.inl rfl⟩
  · rw [h3] at h1 h2 ⊢
    exact ⟨h1, h2, Or.inr ⟨c, t, rfl, hc⟩⟩

/-- `strip_insignificant_leading_zero_and_plus` on a literal without exponent. -/
theorem stripInsignificant_text (l : Lit) (hw : l.wf) (hexp : l.exp = none) :
    stripInsignificant l.text
      = Lit.text ⟨if l.sign = ['-'] then ['-'] else [], canonInt l.ip, l.frac, none⟩ := by
  obtain ⟨sign, ip, frac, exp⟩ := l
  simp only at hexp; subst hexp
  have hs := hw.sign; have hip := hw.ip; have hf := hw.frac
  simp only at hs hip hf
  have hbody : ∀ c t, ip ++ (Lit.fracText ⟨sign, ip, frac, none⟩ ++ []) = c :: t → c ≠ '-' ∧ c ≠ '+' := by
    intro c t e
    cases ip with
    | nil =>
      cases frac with
      | none => exact absurd rfl hf
      | some f =>
        simp only [Lit.fracText, List.nil_append, List.append_nil, List.cons.injEq] at e
        obtain ⟨rfl, _⟩ := e; decide
    | cons c' t' =>
      simp only [List.cons_append, List.cons.injEq] at e
      obtain ⟨rfl, _⟩ := e
      have hc : c'.isDigit = true := by rw [allDigits_cons, Bool.and_eq_true] at hip; exact hip.1
      exact ⟨isDigit_ne_minus hc, isDigit_ne_plus hc⟩
  have h1 := stripSign_signStr sign hs _ hbody
  unfold stripInsignificant
  simp only [Lit.text, Lit.expText, h1]
  have hsg : (if (sign == ['-']) = true then ['-'] else ([] : Str)) = (if sign = ['-'] then ['-'] else []) := by
    by_cases h : sign = ['-'] <;> simp [h]
  cases frac with
  | none =>
    simp only [Lit.fracText, List.append_nil, splitOnce_dot_none ip hip, hsg]
  | some f =>
    simp only [Lit.fracText, List.append_nil, splitOnce_dot_digits ip f hip, hsg]
    simp


/-! ### value equalities -/

theorem Dec.same_shift (n : Bool) (m k : Nat) (e : Int) :
    Dec.same ⟨n, m * 10 ^ k, e⟩ ⟨n, m, e + k⟩ := by
  refine ⟨rfl, ?_⟩
  have h1 : min e (e + (k : Int)) = e := by omega
  simp only [h1]
  have h2 : (e - e).toNat = 0 := by omega
  have h3 : (e + (k : Int) - e).toNat = k := by omega
  rw [h2, h3]; simp

theorem Dec.same_symm {a b : Dec} (h : a.same b) : b.same a := by
  refine ⟨h.1.symm, ?_⟩
  have := h.2
  rw [Int.min_comm] at this
  exact this.symm

theorem not_mem_text_noexp {c : Char} (hd : c.isDigit = false) (h1 : c ≠ '-') (h2 : c ≠ '+')
    (h3 : c ≠ '.') (l : Lit) (hw : l.wf) (hexp : l.exp = none) : c ∉ l.text := by
  obtain ⟨sign, ip, frac, exp⟩ := l
  simp only at hexp; subst hexp
  have hs := hw.sign; have hip := hw.ip; have hf := hw.frac
  simp only at hs hip hf
  simp only [Lit.text, Lit.expText, List.append_nil, List.mem_append, not_or]
  refine ⟨not_mem_signStr h1 h2 sign hs, not_mem_of_allDigits hd ip hip, ?_⟩
  cases frac with
  | none => simp [Lit.fracText]
  | some f =>
    simp only [Lit.fracText, List.mem_cons, not_or]
    exact ⟨h3, not_mem_of_allDigits hd f hf.1⟩


/-! ### `format_float_yq_with` -/

theorem splitOnce_of_not_mem (c : Char) (a b : Str) (h : c ∉ a) :
    splitOnce c (a ++ c :: b) = some (a, b) := by
  induction a with
  | nil => simp [splitOnce]
  | cons d t ih =>
    simp only [List.mem_cons, not_or] at h
    have hd : d ≠ c := fun e => h.1 e.symm
    have := ih h.2
    unfold splitOnce at this ⊢
    simp only [List.cons_append, List.dropWhile_cons, List.takeWhile_cons, bne_iff_ne, ne_eq, hd,
      not_false_eq_true, decide_true, if_true]
    split at this
    · simp at this
    · rename_i heq; rw [heq]; simp only [Option.some.injEq, Prod.mk.injEq] at this ⊢
      exact ⟨by rw [this.1], this.2⟩

theorem pad2_spec (n : Nat) : allDigits (pad2 n) = true ∧ digitsVal (pad2 n) = n ∧ pad2 n ≠ [] := by
  have h := natDigits_spec n
  unfold pad2
  simp only
  split
  · exact ⟨by rw [allDigits_cons, h.1]; decide, by rw [digitsVal_zero_cons, h.2.1], by simp⟩
  · exact h

theorem readInt_signed (s d : Str) (hs : isSignStr s) (hd : allDigits d = true) (hne : d ≠ []) :
    readInt (s ++ d) = some (if s == ['-'] then -(digitsVal d : Int) else (digitsVal d : Int)) := by
  have hss : stripSign (s ++ d) = (s == ['-'], d) := by
    apply stripSign_signStr s hs d
    intro c t e; subst e
    have hc : c.isDigit = true := by rw [allDigits_cons, Bool.and_eq_true] at hd; exact hd.1
    exact ⟨isDigit_ne_minus hc, isDigit_ne_plus hc⟩
  have hdne : d.isEmpty = false := by cases d <;> simp_all
  simp [readInt, hss, hd, hdne]


end SV.NumFmt
