/-
Proof/NumFmt — helper lemmas for C10 (decimal values of digit strings, readers of built literals).
-/
import SuccinctlyVerif.Model.NumFmt
namespace SV.NumFmt
open SV.Dec

end SV.NumFmt
