/-
Proof/BPFcf — helper lemmas for the `find_close_from` state machine: block decomposition of the
remaining bits, skipping, in-word continuation (C04).
-/
import SuccinctlyVerif.Proof.BPIndex2
import SuccinctlyVerif.Proof.BPClose3
namespace SV.BPF
open SV SV.BP SV.BPM SV.BPP SV.BPW SV.BPS SV.BPC SV.BPI

/-- The linear-scan answer of `find_close_from(pos, e)`. -/
def R (bits : List Bool) (pos : Nat) (e : Int) : Option Nat := scanClose (bits.drop pos) pos (e - 1).toNat

theorem R_out (bits : List Bool) (pos : Nat) (e : Int) (h : bits.length ≤ pos) : R bits pos e = none := by
  unfold R; rw [List.drop_of_length_le h]; rfl

theorem drop_blk (bits : List Bool) (u pos : Nat) : bits.drop pos = blk bits u pos ++ bits.drop (pos + u) := by
  unfold blk
  rw [← List.drop_drop, List.take_append_drop]

/-- Skipping a whole block whose minimum keeps the excess positive. -/
theorem R_skip (bits : List Bool) (u pos : Nat) (e : Int) (he : 1 ≤ e)
    (hmin : 0 < e + minExc (blk bits u pos)) :
    R bits pos e = R bits (pos + u) (e + totExc (blk bits u pos)) ∧ 1 ≤ e + totExc (blk bits u pos) := by
  have hmt := minExc_le_tot (blk bits u pos)
  refine ⟨?_, by omega⟩
  unfold R
  conv => lhs; rw [drop_blk bits u pos]
  rw [scanClose_skip _ _ _ _ (by omega)]
  by_cases hfull : (blk bits u pos).length = u
  · rw [hfull]; congr 1; omega
  · have hlen : bits.length ≤ pos + u := by
      unfold blk at hfull; rw [List.length_take, List.length_drop] at hfull; omega
    rw [List.drop_of_length_le hlen]; rfl

/-- A close at the block start with excess 1 contradicts a positive block minimum. -/
theorem blk_head_close (bits : List Bool) (u pos : Nat) (hu : 0 < u) (h : bits[pos]? = some false) :
    minExc (blk bits u pos) ≤ -1 := by
  unfold blk
  have hp : pos < bits.length := (List.getElem?_eq_some_iff.mp h).1
  have hv : bits[pos] = false := by
    have := List.getElem?_eq_getElem hp; rw [this] at h; simpa using h
  rw [List.drop_eq_getElem_cons hp, hv]
  cases u with
  | zero => omega
  | succ u =>
    rw [List.take_succ_cons]
    have := minExc_le_zero ((List.drop (pos + 1) bits).take u)
    simp only [minExc, BPC.delta_false]; omega

/-! ### the word containing `pos` -/

theorem bitsOf_drop_in_word (st : List (BitVec 64)) (len pos : Nat) (hw : st.length = (len + 63) / 64)
    (hp : pos < len) :
    (bitsOf st len).drop pos =
      seg (st.getD (pos / 64) 0) (pos % 64) (vbits len (pos / 64) - pos % 64) ++
        (bitsOf st len).drop ((pos / 64 + 1) * 64) := by
  have hlt : pos / 64 < st.length := by omega
  have hpos : pos / 64 * 64 < len := by omega
  have hvb1 : pos % 64 < vbits len (pos / 64) := by unfold vbits; split <;> omega
  have hvb2 : vbits len (pos / 64) ≤ 64 := by unfold vbits; split <;> omega
  have e : pos = pos / 64 * 64 + pos % 64 := by omega
  conv => lhs; rw [e, ← List.drop_drop, bitsOf_drop_word st len (pos / 64) hlt (by omega) hpos,
    List.drop_append_of_le_length (by rw [List.length_take, wordBits_length]; omega),
    wordBits_take_eq_seg _ _ hvb2]
  have e2 : vbits len (pos / 64) = pos % 64 + (vbits len (pos / 64) - pos % 64) := by omega
  conv => lhs; rw [e2, seg_append, List.drop_left' (seg_length _ _ _)]
  simp

theorem popc_masked_shift (w : BitVec 64) (bi r : Nat) (hbi : bi < 64) (hr : r ≤ 64 - bi) :
    (if r = 64 then popc (w >>> bi) else popc ((w >>> bi) &&& ((1#64 <<< r) - 1))) = (seg w bi r).count true := by
  by_cases h64 : r = 64
  · have hb0 : bi = 0 := by omega
    subst hb0; subst h64
    simp only [if_true]
    rw [popc_ushiftRight w 0 (by omega)]
  · simp only [h64, if_false]
    have := popcBelow_eq (w >>> bi) r (by omega)
    unfold popcBelow at this
    rw [this, wordBits_take_eq_seg _ _ (by omega), seg_ushiftRight]
    simp

end SV.BPF
