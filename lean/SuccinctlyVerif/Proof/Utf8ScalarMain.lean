/-
Proof/Utf8ScalarMain — `scalarGo_spec`: the scalar validator's loop simulates the Table 3-7
automaton, and its error is (first violated rule, offset into the ill-formed head sequence).
-/
import SuccinctlyVerif.Proof.Utf8Scalar
set_option linter.unusedSimpArgs false
namespace SV.Utf8
open SV

theorem take_takeWhile_length (p : Byte → Bool) (r : List Byte) :
    r.take (r.takeWhile p).length = r.takeWhile p := by
  induction r with
  | nil => rfl
  | cons b r ih =>
    by_cases h : p b
    · simp [List.takeWhile_cons, h, ih]
    · simp [List.takeWhile_cons, h]

theorem mem_takeWhile_imp' (p : Byte → Bool) (r : List Byte) : ∀ x ∈ r.takeWhile p, p x = true := by
  induction r with
  | nil => simp
  | cons b r ih =>
    by_cases h : p b
    · simp only [List.takeWhile_cons, h, if_true, List.mem_cons]
      rintro x (rfl | hx)
      · exact h
      · exact ih x hx
    · simp [List.takeWhile_cons, h]

theorem ScalarPost.err0 {pos : Nat} {suf : List Byte} {k : ErrKind}
    (h : HeadBad suf ∧ firstViolation suf = some (k, 0)) : ScalarPost pos suf (some (k, pos)) := by
  simpa using ScalarPost.err (pos := pos) h.1 h.2

theorem ScalarPost.erri {pos : Nat} {suf : List Byte} {k : ErrKind} {i : Nat}
    (h : HeadBad suf ∧ firstViolation suf = some (k, i)) : ScalarPost pos suf (some (k, pos + i)) :=
  ScalarPost.err h.1 h.2

theorem scalarGo_spec : ∀ (f pos : Nat) (rest : List Byte), rest.length ≤ f →
    ScalarPost pos rest (scalarGo f pos rest) := by
  intro f
  induction f with
  | zero =>
    intro pos rest h
    have : rest = [] := List.eq_nil_of_length_eq_zero (by omega)
    subst this; simp [scalarGo, ScalarPost]
  | succ f ih =>
    intro pos rest h
    match rest with
    | [] => simp [scalarGo, ScalarPost]
    | b0 :: r =>
      simp only [List.length_cons] at h
      unfold scalarGo
      by_cases h0 : b0 ≤ 0x7F#8
      · simp only [h0, if_true]
        have hk := skipAscii_eq r
        have hpre : run .start (b0 :: r.take (skipAscii r)) = .start := by
          apply run_start_ascii
          intro b hb
          rcases List.mem_cons.1 hb with rfl | hb
          · bv_decide
          · rw [hk, take_takeWhile_length] at hb
            simpa using mem_takeWhile_imp' _ _ b hb
        have hlen : (b0 :: r.take (skipAscii r)).length = 1 + skipAscii r := by
          have hkle : skipAscii r ≤ r.length := by
            rw [hk]; exact (List.takeWhile_sublist (l := r) (fun x : Byte => decide (x < 0x80#8))).length_le
          rw [List.length_cons, List.length_take]
          omega
        have h1 := ih (pos + 1 + skipAscii r) (r.drop (skipAscii r)) (by simp; omega)
        have h2 := ScalarPost.prepend (pos := pos) (b0 :: r.take (skipAscii r)) hpre
          (by rw [hlen, ← Nat.add_assoc]; exact h1)
        simpa [List.take_append_drop] using h2
      · simp only [h0, if_false]
        by_cases h1 : b0 ≤ 0xBF#8
        · simp only [h1, if_true]
          exact ScalarPost.err0 (leaf_lead_lo h0 h1)
        · simp only [h1, if_false]
          by_cases h2 : b0 ≤ 0xDF#8
          · simp only [h2, if_true]
            match r with
            | [] => exact ScalarPost.err0 (l2_trunc h1 h2)
            | b1 :: r1 =>
              by_cases c1 : isContinuationByte b1 = true
              rotate_left
              · have c1f : isContinuationByte b1 = false := by simpa using c1
                simp only [c1f, Bool.not_false, if_true]
                exact ScalarPost.erri (l2_bad1 h1 h2 c1f)
              · simp only [c1, Bool.not_true, Bool.false_eq_true, if_false, cpb2]
                by_cases hc : cp2 b0 b1 < 0x80#32
                · simp only [hc, if_true]
                  exact ScalarPost.err0 (l2_over h1 h2 c1 hc)
                · simp only [hc, if_false]
                  have hs := l2_ok h1 h2 c1 hc
                  have h3 := ih (pos + 2) r1 (by simp at h; omega)
                  exact ScalarPost.prepend (pos := pos) [b0, b1] (by simpa using hs) (by simpa using h3)
          · simp only [h2, if_false]
            by_cases h3 : b0 ≤ 0xEF#8
            · simp only [h3, if_true]
              match r with
              | [] => exact ScalarPost.err0 (l3_trunc0 h2 h3)
              | [b1] => exact ScalarPost.err0 (l3_trunc1 h2 h3)
              | b1 :: b2 :: r2 =>
                dsimp only
                by_cases c1 : isContinuationByte b1 = true
                rotate_left
                · have c1f : isContinuationByte b1 = false := by simpa using c1
                  simp only [c1f, Bool.not_false, if_true]
                  exact ScalarPost.erri (l3_bad1 h2 h3 c1f)
                · simp only [c1, Bool.not_true, Bool.false_eq_true, if_false]
                  by_cases c2 : isContinuationByte b2 = true
                  rotate_left
                  · have c2f : isContinuationByte b2 = false := by simpa using c2
                    simp only [c2f, Bool.not_false, if_true]
                    exact ScalarPost.erri (l3_bad2 h2 h3 c1 c2f)
                  · simp only [c2, Bool.not_true, Bool.false_eq_true, if_false, cpb3]
                    by_cases hc : cp3 b0 b1 b2 < 0x800#32
                    · simp only [hc, if_true]
                      exact ScalarPost.err0 (l3_over h2 h3 c1 c2 hc)
                    · simp only [hc, if_false]
                      by_cases hs : 0xD800#32 ≤ cp3 b0 b1 b2 ∧ cp3 b0 b1 b2 ≤ 0xDFFF#32
                      · simp only [hs, and_self, if_true]
                        exact ScalarPost.err0 (l3_sur h2 h3 c1 c2 hc hs)
                      · simp only [hs, if_false]
                        have hst := l3_ok h2 h3 c1 c2 hc hs
                        have h4 := ih (pos + 3) r2 (by simp at h; omega)
                        exact ScalarPost.prepend (pos := pos) [b0, b1, b2] (by simpa using hst) (by simpa using h4)
            · simp only [h3, if_false]
              by_cases h4 : b0 ≤ 0xF7#8
              · simp only [h4, if_true]
                match r with
                | [] => exact ScalarPost.err0 (l4_trunc0 h3 h4)
                | [b1] => exact ScalarPost.err0 (l4_trunc1 h3 h4)
                | [b1, b2] => exact ScalarPost.err0 (l4_trunc2 h3 h4)
                | b1 :: b2 :: b3 :: r3 =>
                  dsimp only
                  by_cases c1 : isContinuationByte b1 = true
                  rotate_left
                  · have c1f : isContinuationByte b1 = false := by simpa using c1
                    simp only [c1f, Bool.not_false, if_true]
                    exact ScalarPost.erri (l4_bad1 h3 h4 c1f)
                  · simp only [c1, Bool.not_true, Bool.false_eq_true, if_false]
                    by_cases c2 : isContinuationByte b2 = true
                    rotate_left
                    · have c2f : isContinuationByte b2 = false := by simpa using c2
                      simp only [c2f, Bool.not_false, if_true]
                      exact ScalarPost.erri (l4_bad2 h3 h4 c1 c2f)
                    · simp only [c2, Bool.not_true, Bool.false_eq_true, if_false]
                      by_cases c3 : isContinuationByte b3 = true
                      rotate_left
                      · have c3f : isContinuationByte b3 = false := by simpa using c3
                        simp only [c3f, Bool.not_false, if_true]
                        exact ScalarPost.erri (l4_bad3 h3 h4 c1 c2 c3f)
                      · simp only [c3, Bool.not_true, Bool.false_eq_true, if_false, cpb4]
                        by_cases hc : cp4 b0 b1 b2 b3 < 0x10000#32
                        · simp only [hc, if_true]
                          exact ScalarPost.err0 (l4_over h3 h4 c1 c2 c3 hc)
                        · simp only [hc, if_false]
                          by_cases ho : cp4 b0 b1 b2 b3 > 0x10FFFF#32
                          · simp only [ho, if_true]
                            exact ScalarPost.err0 (l4_oor h3 h4 c1 c2 c3 hc ho)
                          · simp only [ho, if_false]
                            have hst := l4_ok h3 h4 c1 c2 c3 hc ho
                            have h5 := ih (pos + 4) r3 (by simp at h; omega)
                            exact ScalarPost.prepend (pos := pos) [b0, b1, b2, b3] (by simpa using hst)
                              (by simpa using h5)
              · simp only [h4, if_false]
                exact ScalarPost.err0 (leaf_lead_hi h4)

end SV.Utf8
