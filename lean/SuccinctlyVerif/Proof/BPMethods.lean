/-
Proof/BPMethods — `BalancedParens::{find_open, enclose, parent}` (guards + the free functions) equal
their linear-scan definitions (C04).
-/
import SuccinctlyVerif.Proof.BPEnclose
namespace SV.BPS
open SV SV.BP SV.BPM SV.BPP

theorem findOpen_eq (simd : Bool) (st : List (BitVec 64)) (len : Nat) (k : SelKind) (p : Nat)
    (hw : st.length = (len + 63) / 64) :
    (mkBP simd st len k).findOpen p = BP.findOpen (bitsOf st len) p := by
  unfold BPM.BP.findOpen
  rw [BPR.isOpen_eq simd st len k p hw]
  have hwords : (mkBP simd st len k).words = st.toArray := rfl
  have hlenf : (mkBP simd st len k).len = len := rfl
  rw [hwords, hlenf]
  have hl := bitsOf_length st len (by omega)
  by_cases hp : p ≥ len
  · simp only [hp, true_or, if_true]
    unfold BP.findOpen
    rw [List.getElem?_eq_none (by omega)]; simp
  · by_cases ho : BP.isOpen (bitsOf st len) p = true
    · simp only [ho, or_true, if_true]
      unfold BP.findOpen
      unfold BP.isOpen at ho
      have : (bitsOf st len)[p]? = some true := by simpa using ho
      rw [this]; simp
    · simp only [hp, ho, or_self, if_false]
      exact freeFindOpen_eq st len p (by omega)

theorem enclose_eq (simd : Bool) (st : List (BitVec 64)) (len : Nat) (k : SelKind) (p : Nat)
    (hw : st.length = (len + 63) / 64) (hlen : len < 2 ^ 31) :
    (mkBP simd st len k).enclose p = BP.enclose (bitsOf st len) p := by
  unfold BPM.BP.enclose
  rw [BPR.isClose_eq simd st len k p hw]
  have hwords : (mkBP simd st len k).words = st.toArray := rfl
  have hlenf : (mkBP simd st len k).len = len := rfl
  rw [hwords, hlenf]
  have hl := bitsOf_length st len (by omega)
  by_cases hp : p ≥ len
  · simp only [hp, true_or, if_true]
    unfold BP.enclose
    rw [List.getElem?_eq_none (by omega)]; simp
  · by_cases ho : BP.isClose (bitsOf st len) p = true
    · simp only [ho, or_true, if_true]
      unfold BP.enclose
      unfold BP.isClose at ho
      have : (bitsOf st len)[p]? = some false := by simpa using ho
      rw [this]; simp
    · simp only [hp, ho, or_self, if_false]
      exact freeEnclose_eq st len p (by omega) hlen

end SV.BPS
