/-
Proof/JsonErr — error offsets: outside the surrogate-escape error kinds (finding F5) the bytes
before a reported offset can always be extended to a valid text.
-/
import SuccinctlyVerif.Proof.JsonErrTok
import SuccinctlyVerif.Proof.JsonComplete
namespace SV.Json.Model
open SV.Json
set_option linter.unusedSimpArgs false
set_option linter.unusedVariables false

theorem viable_prefix {max : Nat} {x y : Bytes} (h : Viable max (x ++ y)) : Viable max x := by
  obtain ⟨s, hs⟩ := h
  exact ⟨y ++ s, by simpa using hs⟩

/-- `p` is what was consumed before state `s`. -/
def Pos (b p : Bytes) (s : St) : Prop := b = p ++ s.rest ∧ p.length = s.offset

theorem Pos.step {b p v : Bytes} {s s' : St} (h : Pos b p s) (c : Cons s v s') : Pos b (p ++ v) s' := by
  obtain ⟨h1, h2⟩ := h; obtain ⟨c1, c2⟩ := c
  exact ⟨by rw [h1, c1]; simp, by rw [c2]; simp; omega⟩

theorem Pos.take {b p : Bytes} {s : St} (h : Pos b p s) : b.take s.offset = p := by
  obtain ⟨h1, h2⟩ := h
  rw [h1, ← h2]; simp

theorem Pos.takeErr {b p : Bytes} {s : St} {e : Err} (h : Pos b p s) (h1 : s.offset ≤ e.offset) :
    b.take e.offset = p ++ s.rest.take (e.offset - s.offset) := by
  obtain ⟨hb, hl⟩ := h
  rw [hb, List.take_append, List.take_of_length_le (by omega), hl]

theorem numberLit_zero : NumberLit [0x30] :=
  ⟨[], [0x30], [], [], rfl, Or.inl rfl, Or.inl rfl, Or.inl rfl, Or.inl rfl⟩

theorem jvalue_zero (d : Nat) : JValueAt d [0x30] :=
  JValueAt.ofScalar (Or.inr (Or.inr (Or.inr (Or.inl numberLit_zero)))) d

theorem stringLit_empty : StringLit [0x22, 0x22] := ⟨[], StrBody.nil, rfl⟩

theorem ctx_viable {max d : Nat} {p : Bytes} (h : ∀ v, JValueAt d v → Viable max (p ++ v)) :
    Viable max p := viable_prefix (h _ (jvalue_zero d))

theorem errAt_viable {max d : Nat} {P : Bytes → Prop} {b p : Bytes} {s : St} {e : Err}
    (hpos : Pos b p s) (he : ErrAt P s e) (hP : ∀ v, P v → JValueAt d v)
    (ctx : ∀ v, JValueAt d v → Viable max (p ++ v)) : Viable max (b.take e.offset) := by
  obtain ⟨h1, _, c, hc⟩ := he
  rw [hpos.takeErr h1]
  have := ctx _ (hP _ hc)
  rw [← List.append_assoc] at this
  exact viable_prefix this

/-- Context needed by each mode of `run`. -/
def RunCtx (max : Nat) (mode : Mode) (p : Bytes) (s : St) : Prop :=
  match mode with
  | .value => ∀ v, JValueAt (max - s.depth) v → Viable max (p ++ v)
  | .arrayLoop => ∀ body, Elems (JValueAt (max - s.depth)) body → Viable max (p ++ (body ++ [0x5D]))
  | .objectLoop => ∀ body, Members (JValueAt (max - s.depth)) body → Viable max (p ++ (body ++ [0x7D]))


theorem elems_zero (d : Nat) : Elems (JValueAt d) [0x30] := by
  have := Elems.one (P := JValueAt d) [] [0x30] [] ws_nil (jvalue_zero d) ws_nil
  simpa using this

theorem members_zero (d : Nat) : Members (JValueAt d) [0x22, 0x22, 0x3A, 0x30] := by
  have := Members.one (P := JValueAt d) [] [0x22, 0x22] [] [] [0x30] [] ws_nil stringLit_empty
    ws_nil ws_nil (jvalue_zero d) ws_nil
  simpa using this

theorem err_at_state {b p : Bytes} {s : St} {k : Kind} {max : Nat} (hpos : Pos b p s)
    (hv : Viable max p) : Viable max (b.take (s.error k).offset) := by
  show Viable max (b.take s.offset)
  rw [hpos.take]; exact hv

theorem run_err (max : Nat) (b : Bytes) : ∀ (f : Nat) (mode : Mode) (s : St) (e : Err),
    run max f mode s = .err e → ¬ SurrKind e.kind → ∀ p, Pos b p s → RunCtx max mode p s →
    Viable max (b.take e.offset) := by
  intro f
  induction f with
  | zero => intro mode s e h; simp [run] at h
  | succ f ih =>
    intro mode s e h hk p hpos ctx
    cases mode with
    | value =>
      have ctx' : ∀ v, JValueAt (max - s.depth) v → Viable max (p ++ v) := ctx
      have hvp : Viable max p := ctx_viable ctx'
      unfold run at h
      split at h
      · injection h with h; subst h; exact err_at_state hpos hvp
      · rename_i c hc
        obtain ⟨r, hr⟩ := peek_eq_some hc
        split at h
        · -- object
          rename_i hcb
          subst hcb
          split at h
          · injection h with h; subst h; exact err_at_state hpos hvp
          · rename_i hdep
            obtain ⟨w, hw, c1, d1⟩ := enter_adv hr
            simp only at h
            have hmax : max - s.depth = (max - (s.depth + 1)) + 1 := by omega
            split at h
            · cases h
            · split at h
              · cases h
              · rename_i hne
                refine ih .objectLoop _ e h hk _ (hpos.step c1) ?_
                intro body hbody
                rw [d1] at hbody
                have := ctx' (0x7B :: ((w ++ body) ++ [0x7D])) (by
                  rw [hmax]
                  exact Or.inr (Or.inr (Or.inr (Or.inr ⟨w ++ body, members_prependWs hw hbody, rfl⟩))))
                simpa using this
        · split at h
          · -- array
            rename_i _ hcb
            subst hcb
            split at h
            · injection h with h; subst h; exact err_at_state hpos hvp
            · rename_i hdep
              obtain ⟨w, hw, c1, d1⟩ := enter_adv hr
              simp only at h
              have hmax : max - s.depth = (max - (s.depth + 1)) + 1 := by omega
              split at h
              · cases h
              · split at h
                · cases h
                · rename_i hne
                  refine ih .arrayLoop _ e h hk _ (hpos.step c1) ?_
                  intro body hbody
                  rw [d1] at hbody
                  have := ctx' (0x5B :: ((w ++ body) ++ [0x5D])) (by
                    rw [hmax]
                    exact Or.inr (Or.inr (Or.inl ⟨w ++ body, elems_prependWs hw hbody, rfl⟩)))
                  simpa using this
          · split at h
            · -- string
              rename_i _ _ hq
              subst hq
              exact errAt_viable hpos (string_err hc h hk)
                (fun v hv => JValueAt.ofScalar (Or.inr (Or.inr (Or.inr (Or.inr hv)))) _) ctx'
            · split at h
              · exact errAt_viable hpos (number_err h)
                  (fun v hv => JValueAt.ofScalar (Or.inr (Or.inr (Or.inr (Or.inl hv)))) _) ctx'
              · split at h
                · rw [keyword_err h, hpos.take]; exact hvp
                · split at h
                  · injection h with h; subst h; exact err_at_state hpos hvp
                  · injection h with h; subst h; exact err_at_state hpos hvp
    | arrayLoop =>
      have ctx' : ∀ body, Elems (JValueAt (max - s.depth)) body →
          Viable max (p ++ (body ++ [0x5D])) := ctx
      unfold run at h
      split at h
      · rename_i u1 s1 h1
        obtain ⟨v, hv, a1⟩ := run_sound max _ _ _ _ _ h1
        obtain ⟨w2, hw2, a2, _⟩ := adv_skipWs s1
        have pos2 := hpos.step (a1.trans a2).cons
        have hv2 : Viable max (p ++ (v ++ w2)) := by
          have := ctx' _ (Elems.one [] v w2 ws_nil hv hw2)
          rw [← List.append_assoc] at this
          simpa using viable_prefix this
        simp only at h
        split at h
        · injection h with h; subst h; exact err_at_state pos2 hv2
        · rename_i c hc
          obtain ⟨r2, hr2⟩ := peek_eq_some hc
          have a3 := adv_advance hr2
          split at h
          · rename_i hcomma
            subst hcomma
            obtain ⟨w3, hw3, a4, _⟩ := adv_skipWs s1.skipWs.advance
            have A := a1.trans (a2.trans (a3.trans a4))
            have pos3 := hpos.step A.cons
            split at h
            · injection h with h; subst h
              refine err_at_state pos3 ?_
              have := ctx' _ (Elems.cons [] v w2 (w3 ++ [0x30]) ws_nil hv hw2
                (elems_prependWs hw3 (elems_zero _)))
              have e1 : p ++ (([] ++ (v ++ (w2 ++ 0x2C :: (w3 ++ [0x30])))) ++ [0x5D])
                  = (p ++ (v ++ (w2 ++ ([0x2C] ++ w3)))) ++ [0x30, 0x5D] := by simp
              rw [e1] at this
              exact viable_prefix this
            · refine ih .arrayLoop _ e h hk _ pos3 ?_
              intro body hbody
              rw [A.2.2] at hbody
              have := ctx' _ (Elems.cons [] v w2 (w3 ++ body) ws_nil hv hw2
                (elems_prependWs hw3 hbody))
              have e1 : p ++ (([] ++ (v ++ (w2 ++ 0x2C :: (w3 ++ body)))) ++ [0x5D])
                  = (p ++ (v ++ (w2 ++ ([0x2C] ++ w3)))) ++ (body ++ [0x5D]) := by simp
              rw [e1] at this
              exact this
          · split at h
            · cases h
            · injection h with h; subst h; exact err_at_state pos2 hv2
      · rename_i hne
        -- the element itself failed
        refine ih .value _ e h hk p hpos ?_
        intro v hv
        have := ctx' _ (Elems.one [] v [] ws_nil hv ws_nil)
        have e1 : p ++ (([] ++ (v ++ [])) ++ [0x5D]) = (p ++ v) ++ [0x5D] := by simp
        rw [e1] at this
        exact viable_prefix this
    | objectLoop =>
      have ctx' : ∀ body, Members (JValueAt (max - s.depth)) body →
          Viable max (p ++ (body ++ [0x7D])) := ctx
      have hvp : Viable max p := viable_prefix (ctx' _ (members_zero _))
      unfold run at h
      split at h
      · injection h with h; subst h; exact err_at_state hpos hvp
      · rename_i hq
        have hq' : s.peek = some 0x22 := by simpa using hq
        split at h
        · rename_i u1 s1 h1
          obtain ⟨k, hkey, a1⟩ := string_sound hq' h1
          obtain ⟨w2, hw2, a2, _⟩ := adv_skipWs s1
          have pos2 := hpos.step (a1.trans a2).cons
          simp only at h
          split at h
          · injection h with h; subst h
            refine err_at_state pos2 ?_
            have := ctx' _ (Members.one [] k w2 [] [0x30] [] ws_nil hkey hw2 ws_nil (jvalue_zero _) ws_nil)
            have e1 : p ++ (([] ++ (k ++ (w2 ++ 0x3A :: ([] ++ ([0x30] ++ []))))) ++ [0x7D])
                = (p ++ (k ++ w2)) ++ [0x3A, 0x30, 0x7D] := by simp
            rw [e1] at this
            exact viable_prefix this
          · rename_i hcolon
            have hcolon' : s1.skipWs.peek = some 0x3A := by simpa using hcolon
            obtain ⟨r2, hr2⟩ := peek_eq_some hcolon'
            have a3 := adv_advance hr2
            obtain ⟨w3, hw3, a4, _⟩ := adv_skipWs s1.skipWs.advance
            have A := a1.trans (a2.trans (a3.trans a4))
            have pos3 := hpos.step A.cons
            split at h
            · rename_i u4 s4 h4
              obtain ⟨v, hv, a5⟩ := run_sound max _ _ _ _ _ h4
              rw [A.2.2] at hv
              obtain ⟨w4, hw4, a6, _⟩ := adv_skipWs s4
              have B := A.trans (a5.trans a6)
              have pos5 := hpos.step B.cons
              have hv5 : Viable max (p ++ (k ++ (w2 ++ ([0x3A] ++ w3)) ++ (v ++ w4))) := by
                have := ctx' _ (Members.one [] k w2 w3 v w4 ws_nil hkey hw2 hw3 hv hw4)
                have e1 : p ++ (([] ++ (k ++ (w2 ++ 0x3A :: (w3 ++ (v ++ w4))))) ++ [0x7D])
                    = (p ++ (k ++ (w2 ++ ([0x3A] ++ w3)) ++ (v ++ w4))) ++ [0x7D] := by simp
                rw [e1] at this
                exact viable_prefix this
              split at h
              · injection h with h; subst h; exact err_at_state pos5 hv5
              · rename_i c hc
                obtain ⟨r5, hr5⟩ := peek_eq_some hc
                have a7 := adv_advance hr5
                split at h
                · rename_i hcomma
                  subst hcomma
                  obtain ⟨w5, hw5, a8, _⟩ := adv_skipWs s4.skipWs.advance
                  have C := B.trans (a7.trans a8)
                  have pos6 := hpos.step C.cons
                  split at h
                  · injection h with h; subst h
                    refine err_at_state pos6 ?_
                    have := ctx' _ (Members.cons [] k w2 w3 v w4 (w5 ++ [0x22, 0x22, 0x3A, 0x30]) ws_nil
                      hkey hw2 hw3 hv hw4 (members_prependWs hw5 (members_zero _)))
                    have e1 : p ++ (([] ++ (k ++ (w2 ++ 0x3A :: (w3 ++ (v ++ (w4 ++ 0x2C ::
                          (w5 ++ [0x22, 0x22, 0x3A, 0x30]))))))) ++ [0x7D])
                        = (p ++ (k ++ (w2 ++ ([0x3A] ++ w3)) ++ (v ++ w4) ++ ([0x2C] ++ w5)))
                          ++ [0x22, 0x22, 0x3A, 0x30, 0x7D] := by simp
                    rw [e1] at this
                    exact viable_prefix this
                  · refine ih .objectLoop _ e h hk _ pos6 ?_
                    intro body hbody
                    rw [C.2.2] at hbody
                    have := ctx' _ (Members.cons [] k w2 w3 v w4 (w5 ++ body) ws_nil
                      hkey hw2 hw3 hv hw4 (members_prependWs hw5 hbody))
                    have e1 : p ++ (([] ++ (k ++ (w2 ++ 0x3A :: (w3 ++ (v ++ (w4 ++ 0x2C ::
                          (w5 ++ body))))))) ++ [0x7D])
                        = (p ++ (k ++ (w2 ++ ([0x3A] ++ w3)) ++ (v ++ w4) ++ ([0x2C] ++ w5)))
                          ++ (body ++ [0x7D]) := by simp
                    rw [e1] at this
                    exact this
                · split at h
                  · cases h
                  · injection h with h; subst h; exact err_at_state pos5 hv5
            · rename_i hne
              -- the member value failed
              refine ih .value _ e h hk _ pos3 ?_
              intro v hv
              rw [A.2.2] at hv
              have := ctx' _ (Members.one [] k w2 w3 v [] ws_nil hkey hw2 hw3 hv ws_nil)
              have e1 : p ++ (([] ++ (k ++ (w2 ++ 0x3A :: (w3 ++ (v ++ []))))) ++ [0x7D])
                  = ((p ++ (k ++ (w2 ++ ([0x3A] ++ w3)))) ++ v) ++ [0x7D] := by simp
              rw [e1] at this
              exact viable_prefix this
        · rename_i hne
          -- the key failed
          have he := string_err hq' h hk
          obtain ⟨h1, _, c, hc⟩ := he
          rw [hpos.takeErr h1]
          have := ctx' _ (Members.one [] _ [] [] [0x30] [] ws_nil hc ws_nil ws_nil (jvalue_zero _) ws_nil)
          have e1 : p ++ (([] ++ ((List.take (e.offset - s.offset) s.rest ++ c) ++
                ([] ++ 0x3A :: ([] ++ ([0x30] ++ []))))) ++ [0x7D])
              = (p ++ List.take (e.offset - s.offset) s.rest) ++ (c ++ [0x3A, 0x30, 0x7D]) := by simp
          rw [e1] at this
          exact viable_prefix this


theorem valid_viable {max : Nat} {x : Bytes} (h : Valid max x) : Viable max x := ⟨[], by simpa using h⟩

/-- Outside the surrogate-escape error kinds, the bytes before the reported offset extend to a
valid text. -/
theorem validate_err_viable (max : Nat) (b : Bytes) (e : Err) (h : validate max b = .err e)
    (hk : ¬ SurrKind e.kind) : Viable max (b.take e.offset) := by
  obtain ⟨w1, hw1, a1, _⟩ := adv_skipWs (St.init b)
  have pos0 : Pos b [] (St.init b) := ⟨rfl, rfl⟩
  have pos1 := pos0.step a1.cons
  have hd : (St.init b).skipWs.depth = 0 := by simp [St.init]
  have ctx1 : ∀ v, JValueAt (max - (St.init b).skipWs.depth) v → Viable max (([] ++ w1) ++ v) := by
    intro v hv
    rw [hd] at hv
    exact valid_viable ⟨w1, v, [], hw1, hv, ws_nil, by simp⟩
  unfold validate at h
  simp only at h
  split at h
  · injection h with h; subst h
    exact err_at_state pos1 (ctx_viable ctx1)
  · split at h
    · rename_i u1 s1 h1
      obtain ⟨v, hv, a2⟩ := run_sound max _ _ _ _ _ h1
      rw [hd] at hv
      obtain ⟨w2, hw2, a3, _⟩ := adv_skipWs s1
      have pos3 := pos1.step (a2.trans a3).cons
      split at h
      · injection h with h; subst h
        refine err_at_state pos3 (valid_viable ⟨w1, v, w2, hw1, hv, hw2, by simp⟩)
      · cases h
    · rename_i hne
      exact run_err max b _ .value _ e h hk _ pos1 ctx1

end SV.Json.Model
