/-
Proof/JsonLocatePath — the jq path expression printed by `jq-locate` (`renderPath`, Model/JsonLocate)
is a jq program of the modelled grammar (Model/JqParse) and, evaluated by the jq model (Model/Jq) on
any value, yields exactly the sub-value the component path denotes.

* `tokenize_path`: `tokenize (renderPath comps) = pathToks comps` (explicit token list);
* `path_parses`: `parseProgram (renderPath comps) = some (pathExpr comps)`, the left-nested chain
  `.index (… (.index .identity k₁) …) kₙ` with `kᵢ` a string / number literal;
* `pathExpr_eval`, `path_expr_sound`: evaluation = `getPath`;
* `idxOK_JNum`, `path_expr_sound_JNum`: the number-literal law holds for the executable carrier.

Side conditions: `DotOK` (a `.key` component is an ASCII jq identifier: `renderPath` prints
`.key` for every key accepted by `can_use_dot_notation`, which uses the *Unicode* classes, so
non-ASCII dot keys are outside this theorem — and outside jq's grammar) and `IdxOK` (the literal
`toString i` denotes `i` in the number carrier; for `JNum`: `i ≤ i64::MAX`).
-/
import SuccinctlyVerif.Model.JsonLocate
import SuccinctlyVerif.Model.JqPrelude
namespace SV.JsonLocate
open SV.Jq

/-! ### lexing: single steps -/

theorem punct3_head (c : Char) (rest : List Char) (h1 : c ≠ '?') (h2 : c ≠ '/') :
    punct3.contains (String.ofList ((c :: rest).take 3)) = false := by
  have e1 : "?//" = String.ofList ['?', '/', '/'] := rfl
  have e2 : "//=" = String.ofList ['/', '/', '='] := rfl
  simp only [punct3, List.contains_cons, List.contains_nil, Bool.or_false, Bool.or_eq_false_iff,
    beq_eq_false_iff_ne, ne_eq]
  rw [e1, e2]
  simp only [String.ofList_inj, List.take_succ_cons, List.cons.injEq]
  exact ⟨fun h => h1 h.1, fun h => h2 h.1⟩

theorem punct2_heads :
    punct2.map (fun s => s.toList.head?) =
      [some '|', some '+', some '-', some '*', some '/', some '%', some '=', some '!', some '<',
        some '>', some '/', some '.'] := by
  simp [punct2]

theorem punct2_head (c : Char) (rest : List Char)
    (h : c ∉ ['|', '+', '-', '*', '/', '%', '=', '!', '<', '>', '.']) :
    punct2.contains (String.ofList ((c :: rest).take 2)) = false := by
  rw [Bool.eq_false_iff]
  intro hc
  have hm : String.ofList ((c :: rest).take 2) ∈ punct2 := List.contains_iff_mem.mp hc
  have h2 := List.mem_map_of_mem (f := fun s : String => s.toList.head?) hm
  rw [punct2_heads] at h2
  simp only [String.toList_ofList, List.take_succ_cons, List.head?_cons] at h2
  apply h
  simp only [List.mem_cons, Option.some.injEq, List.not_mem_nil, or_false] at h2 ⊢
  rcases h2 with h2 | h2 | h2 | h2 | h2 | h2 | h2 | h2 | h2 | h2 | h2 | h2 <;> simp [h2]

theorem lex_punct1 (c : Char) (f : Nat) (rest : List Char) (d : Nat) (i : Bool) (acc : List Tok)
    (h_ws : (c == ' ' || c == '\t' || c == '\n' || c == '\r') = false)
    (h_hash : (c == '#') = false) (h_q : (c == '"') = false) (h_dl : (c == '$') = false)
    (h_at : (c == '@') = false)
    (h_dig : isDigit c = false) (h_dot : (c == '.') = false)
    (h_id : isIdStart c = false)
    (h3 : punct3.contains (String.ofList ((c :: rest).take 3)) = false)
    (h2 : punct2.contains (String.ofList ((c :: rest).take 2)) = false)
    (h_lp : (c == '(') = false) (h_rp : (c == ')') = false)
    (h1 : punct1.contains c = true) :
    lex (f + 1) (c :: rest) d i acc = lex f rest d i (.punct (String.singleton c) :: acc) := by
  rw [lex.eq_def]
  simp only [h_ws, h_hash, h_q, h_dl, h_at, h_dig, h_dot, Bool.false_and, Bool.or_false, h_id, h3, h2, h_lp, h_rp, h1,
    Bool.false_eq_true, if_false, if_true]

theorem lex_lbr (f : Nat) (rest : List Char) (d : Nat) (i : Bool) (acc : List Tok) :
    lex (f + 1) ('[' :: rest) d i acc = lex f rest d i (.punct "[" :: acc) :=
  lex_punct1 '[' f rest d i acc (by decide) (by decide) (by decide) (by decide) (by decide)
    (by decide) (by decide) (by decide) (punct3_head _ _ (by decide) (by decide))
    (punct2_head _ _ (by decide)) (by decide) (by decide) (by decide)

theorem lex_rbr (f : Nat) (rest : List Char) (d : Nat) (i : Bool) (acc : List Tok) :
    lex (f + 1) (']' :: rest) d i acc = lex f rest d i (.punct "]" :: acc) :=
  lex_punct1 ']' f rest d i acc (by decide) (by decide) (by decide) (by decide) (by decide)
    (by decide) (by decide) (by decide) (punct3_head _ _ (by decide) (by decide))
    (punct2_head _ _ (by decide)) (by decide) (by decide) (by decide)

theorem lex_dot_lbr (f : Nat) (rest : List Char) (d : Nat) (i : Bool) (acc : List Tok) :
    lex (f + 1) ('.' :: '[' :: rest) d i acc = lex f ('[' :: rest) d i (.punct "." :: acc) := by
  have h3 := punct3_head '.' ('[' :: rest) (by decide) (by decide)
  have h2 : punct2.contains (String.ofList (('.' :: '[' :: rest).take 2)) = false := by
    show punct2.contains (String.ofList ['.', '[']) = false
    decide
  rw [lex.eq_def]
  simp only [h3, h2, show isDigit '[' = false from by decide, show isDigit '.' = false from by decide,
    show isIdStart '[' = false from by decide, show isIdStart '.' = false from by decide,
    show ('.' == ' ' || '.' == '\t' || '.' == '\n' || '.' == '\r') = false from by decide,
    show ('.' == '#') = false from by decide, show ('.' == '"') = false from by decide,
    show ('.' == '$') = false from by decide, show ('.' == '@') = false from by decide,
    show ('.' == '(') = false from by decide, show ('.' == ')') = false from by decide,
    show punct1.contains '.' = true from by decide,
    Bool.false_eq_true, if_false, if_true, Bool.and_false, Bool.or_false]
  rfl

theorem lex_dot_end (f : Nat) (d : Nat) (i : Bool) (acc : List Tok) :
    lex (f + 1) ['.'] d i acc = lex f [] d i (.punct "." :: acc) := by
  rw [lex.eq_def]
  simp only [show isDigit '.' = false from by decide,
    show isIdStart '.' = false from by decide,
    show ('.' == ' ' || '.' == '\t' || '.' == '\n' || '.' == '\r') = false from by decide,
    show ('.' == '#') = false from by decide, show ('.' == '"') = false from by decide,
    show ('.' == '$') = false from by decide, show ('.' == '@') = false from by decide,
    show ('.' == '(') = false from by decide, show ('.' == ')') = false from by decide,
    show punct1.contains '.' = true from by decide,
    show punct3.contains (String.ofList (['.'].take 3)) = false from by decide,
    show punct2.contains (String.ofList (['.'].take 2)) = false from by decide,
    Bool.false_eq_true, if_false, if_true, Bool.and_false, Bool.or_false]
  rfl

theorem takeWhileL_append_p (p : Char → Bool) (l rest : List Char) (hl : ∀ x ∈ l, p x = true)
    (hr : ∀ x, rest.head? = some x → p x = false) : takeWhileL p (l ++ rest) = (l, rest) := by
  induction l with
  | nil =>
    cases rest with
    | nil => rfl
    | cons x r => simp [takeWhileL, hr x rfl]
  | cons a l ih =>
    have ha := hl a (by simp)
    have := ih (fun x hx => hl x (by simp [hx]))
    simp [takeWhileL, ha, this]

theorem digit_facts (c : Char) (h : isDigit c = true) :
    (c == ' ' || c == '\t' || c == '\n' || c == '\r') = false ∧ (c == '#') = false ∧
    (c == '"') = false ∧ (c == '$') = false ∧ (c == '@') = false := by
  have h1 : 48 ≤ c.toNat ∧ c.toNat ≤ 57 := by
    simp only [isDigit, Bool.and_eq_true, decide_eq_true_eq] at h
    exact ⟨h.1, h.2⟩
  refine ⟨?_, ?_, ?_, ?_, ?_⟩ <;> simp only [Bool.or_eq_false_iff, beq_eq_false_iff_ne, ne_eq] <;>
    (try refine ⟨⟨⟨?_, ?_⟩, ?_⟩, ?_⟩) <;> (rintro rfl; revert h1; decide)

theorem lex_num (f : Nat) (c : Char) (ds rest : List Char) (d : Nat) (i : Bool) (acc : List Tok)
    (hc : isDigit c = true) (hds : ∀ x ∈ ds, isDigit x = true) :
    lex (f + 1) (c :: (ds ++ ']' :: rest)) d i acc =
      lex f (']' :: rest) d i (.num (String.ofList (c :: ds)) :: acc) := by
  obtain ⟨h1, h2, h3, h4, h5⟩ := digit_facts c hc
  have htw : takeWhileL isDigit (c :: (ds ++ ']' :: rest)) = (c :: ds, ']' :: rest) := by
    have := takeWhileL_append_p isDigit (c :: ds) (']' :: rest)
      (by intro x hx; rcases List.mem_cons.mp hx with rfl | hx; exact hc; exact hds x hx)
      (by intro x hx; simp at hx; subst hx; decide)
    simpa using this
  rw [lex.eq_def]
  simp only [h1, h2, h3, h4, h5, hc, htw, Bool.true_or, Bool.false_eq_true, if_false, if_true]
  first | rfl | (simp; trace_state)

theorem idStart_facts (c : Char) (h : isIdStart c = true) :
    isDigit c = false ∧ isIdChar c = true := by
  have hn : c = '_' ∨ (65 ≤ c.toNat ∧ c.toNat ≤ 90) ∨ (97 ≤ c.toNat ∧ c.toNat ≤ 122) := by
    simp only [isIdStart, Char.isAlpha, Char.isUpper, Char.isLower, Bool.or_eq_true,
      Bool.and_eq_true, decide_eq_true_eq, beq_iff_eq, UInt32.le_iff_toNat_le, ge_iff_le,
      Char.toNat_val] at h
    rcases h with (h | h) | h
    · exact .inr (.inl ⟨h.1, h.2⟩)
    · exact .inr (.inr ⟨h.1, h.2⟩)
    · exact .inl h
  constructor
  · rcases hn with rfl | hn
    · decide
    · rw [Bool.eq_false_iff]
      intro hd
      simp only [isDigit, Bool.and_eq_true, decide_eq_true_eq] at hd
      have h1 : 48 ≤ c.toNat := hd.1
      have h2 : c.toNat ≤ 57 := hd.2
      omega
  · simp only [isIdStart, isIdChar, Char.isAlphanum, Bool.or_eq_true] at h ⊢
    rcases h with h | h
    · exact .inl (.inl h)
    · exact .inr h

theorem lex_field (f : Nat) (h : Char) (k rest : List Char) (d : Nat) (i : Bool) (acc : List Tok)
    (hh : isIdStart h = true) (hk : ∀ x ∈ k, isIdChar x = true)
    (hr : ∀ x, rest.head? = some x → isIdChar x = false) :
    lex (f + 1) ('.' :: h :: (k ++ rest)) d i acc =
      lex f rest d i (.field (String.ofList (h :: k)) :: acc) := by
  obtain ⟨hd, hc⟩ := idStart_facts h hh
  have htw : takeIdent (h :: (k ++ rest)) = (h :: k, rest) := by
    have := takeWhileL_append_p isIdChar (h :: k) rest
      (by intro x hx; rcases List.mem_cons.mp hx with rfl | hx; exact hc; exact hk x hx) hr
    simpa [takeIdent] using this
  rw [lex.eq_def]
  simp only [hd, hh, htw, show isDigit '.' = false from by decide,
    show ('.' == ' ' || '.' == '\t' || '.' == '\n' || '.' == '\r') = false from by decide,
    show ('.' == '#') = false from by decide, show ('.' == '"') = false from by decide,
    show ('.' == '$') = false from by decide, show ('.' == '@') = false from by decide,
    show ('.' == '.') = true from by decide,
    Bool.false_eq_true, if_false, if_true, Bool.and_false, Bool.or_false, Bool.and_true]

theorem escapeJqString_cons_p (c : Char) (k : List Char) :
    escapeJqString (c :: k) =
      (if c = '"' then ['\\', '"'] else if c = '\\' then ['\\', '\\']
        else if c = '\n' then ['\\', 'n'] else if c = '\r' then ['\\', 'r']
        else if c = '\t' then ['\\', 't'] else [c]) ++ escapeJqString k := by
  simp [escapeJqString, List.flatMap_cons]

theorem lexStr_escape_p (k : List Char) : ∀ (fuel : Nat) (rest cur : List Char)
    (parts : List (String × Option (List Tok))), fuel ≥ k.length + 1 →
    lexStr fuel (escapeJqString k ++ '"' :: rest) cur parts =
      some (parts.reverse ++ [(String.ofList (cur.reverse ++ k), none)], rest) := by
  induction k with
  | nil =>
    intro fuel rest cur parts hf
    obtain ⟨f, rfl⟩ : ∃ f, fuel = f + 1 := ⟨fuel - 1, by omega⟩
    rw [lexStr.eq_def]
    simp [escapeJqString]
  | cons c k ih =>
    intro fuel rest cur parts hf
    obtain ⟨f, rfl⟩ : ∃ f, fuel = f + 1 := ⟨fuel - 1, by simp at hf; omega⟩
    have hf' : f ≥ k.length + 1 := by simp at hf; omega
    have ih' := fun c' => ih f rest (c' :: cur) parts hf'
    rw [escapeJqString_cons_p]
    by_cases h1 : c = '"'
    · subst h1
      rw [lexStr.eq_def]
      simp [ih']
    · by_cases h2 : c = '\\'
      · subst h2
        rw [lexStr.eq_def]
        simp [ih']
      · by_cases h3 : c = '\n'
        · subst h3
          rw [lexStr.eq_def]
          simp [ih']
        · by_cases h4 : c = '\r'
          · subst h4
            rw [lexStr.eq_def]
            simp [ih']
          · by_cases h5 : c = '\t'
            · subst h5
              rw [lexStr.eq_def]
              simp [ih']
            · simp only [h1, h2, h3, h4, h5, if_false, List.cons_append, List.nil_append]
              rw [lexStr.eq_def]
              simp only []
              split
              · rename_i heq; cases heq
              · rename_i heq; cases heq; exact absurd rfl h1
              · rename_i heq; exact absurd (List.cons.inj heq).1 h2
              · rename_i heq
                cases heq
                rw [ih']
                simp

theorem lex_str (f : Nat) (k rest : List Char) (d : Nat) (i : Bool) (acc : List Tok)
    (hf : f ≥ k.length + 1) :
    lex (f + 1) ('"' :: (escapeJqString k ++ '"' :: rest)) d i acc =
      lex f rest d i (.str [(String.ofList k, none)] :: acc) := by
  rw [lex.eq_def]
  simp only [lexStr_escape_p k f rest [] [] hf,
    show ('"' == ' ' || '"' == '\t' || '"' == '\n' || '"' == '\r') = false from by decide,
    show ('"' == '#') = false from by decide, show ('"' == '"') = true from by decide,
    Bool.false_eq_true, if_false, if_true, List.reverse_nil, List.nil_append]

theorem isDigit_eq (c : Char) : isDigit c = c.isDigit := rfl

theorem toString_digits (i : Nat) :
    ∃ c ds, (toString i).toList = c :: ds ∧ isDigit c = true ∧ ∀ x ∈ ds, isDigit x = true := by
  have hl : (toString i).toList = Nat.toDigits 10 i := by simp
  have hne : Nat.toDigits 10 i ≠ [] := Nat.toDigits_ne_nil
  have hall : ∀ x ∈ Nat.toDigits 10 i, isDigit x = true := fun x hx => by
    rw [isDigit_eq]; exact Nat.isDigit_of_mem_toDigits (by decide) (by decide) hx
  rw [hl]
  cases hd : Nat.toDigits 10 i with
  | nil => exact absurd hd hne
  | cons c ds =>
    rw [hd] at hall
    exact ⟨c, ds, rfl, hall c (by simp), fun x hx => hall x (by simp [hx])⟩

/-! ### the token list of a rendered path -/

def compToks : Comp → List Tok
  | .index i => [.punct "[", .num (toString i), .punct "]"]
  | .dotKey k => [.field (String.ofList k)]
  | .bracketKey k => [.punct "[", .str [(String.ofList k, none)], .punct "]"]

def pathToks (comps : List Comp) : List Tok :=
  (match comps with
    | [] => [.punct "."]
    | .dotKey _ :: _ => []
    | _ :: _ => [.punct "."]) ++ comps.flatMap compToks

/-- side condition on dot components: an ASCII jq identifier -/
def DotOK (c : Comp) : Prop :=
  match c with
  | .dotKey k => k ≠ [] ∧ (∀ h, k.head? = some h → isIdStart h = true) ∧ ∀ x ∈ k, isIdChar x = true
  | _ => True

theorem escape_length (k : List Char) : (escapeJqString k).length ≥ k.length := by
  induction k with
  | nil => simp
  | cons c k ihk =>
    rw [escapeJqString_cons_p, List.length_append]
    have : (if c = '"' then ['\\', '"'] else if c = '\\' then ['\\', '\\']
      else if c = '\n' then ['\\', 'n'] else if c = '\r' then ['\\', 'r']
      else if c = '\t' then ['\\', 't'] else [c]).length ≥ 1 := by
      repeat' split
      all_goals simp
    simp only [List.length_cons]
    omega

theorem toJq_head (comps : List Comp) :
    ∀ x, (comps.flatMap Comp.toJq).head? = some x → isIdChar x = false := by
  intro x hx
  cases comps with
  | nil => simp at hx
  | cons c cs =>
    cases c <;> simp [List.flatMap_cons, Comp.toJq] at hx <;> subst hx <;> decide

theorem lex_comps (comps : List Comp) (h : ∀ c ∈ comps, DotOK c) :
    ∀ (fuel : Nat) (acc : List Tok), fuel ≥ (comps.flatMap Comp.toJq).length + 1 →
      lex fuel (comps.flatMap Comp.toJq) 0 false acc =
        some (acc.reverse ++ comps.flatMap compToks, []) := by
  induction comps with
  | nil =>
    intro fuel acc hf
    obtain ⟨f, rfl⟩ : ∃ f, fuel = f + 1 := ⟨fuel - 1, by omega⟩
    rw [lex.eq_def]
    simp
  | cons c cs ih =>
    intro fuel acc hf
    have ih' := ih (fun c hc => h c (by simp [hc]))
    have hc := h c (by simp)
    rw [List.flatMap_cons, List.flatMap_cons]
    rw [List.flatMap_cons, List.length_append] at hf
    cases c with
    | index i =>
      obtain ⟨c0, ds, hd, hc0, hds⟩ := toString_digits i
      simp only [Comp.toJq, hd, List.length_append, List.length_cons, List.length_nil] at hf
      obtain ⟨f, rfl⟩ : ∃ f, fuel = f + 3 := ⟨fuel - 3, by omega⟩
      have e : Comp.toJq (.index i) ++ cs.flatMap Comp.toJq =
          '[' :: c0 :: (ds ++ ']' :: cs.flatMap Comp.toJq) := by
        simp only [Comp.toJq, hd, List.cons_append, List.nil_append, List.append_assoc]
      rw [e, lex_lbr, lex_num _ _ _ _ _ _ _ hc0 hds, lex_rbr, ih' f _ (by omega)]
      have : String.ofList (c0 :: ds) = toString i := by rw [← hd, String.ofList_toList]
      simp [compToks, this]
    | dotKey k =>
      obtain ⟨hne, hh, hk⟩ := hc
      cases k with
      | nil => exact absurd rfl hne
      | cons a k =>
        simp only [Comp.toJq, List.length_cons] at hf
        obtain ⟨f, rfl⟩ : ∃ f, fuel = f + 1 := ⟨fuel - 1, by omega⟩
        have e : Comp.toJq (.dotKey (a :: k)) ++ cs.flatMap Comp.toJq =
            '.' :: a :: (k ++ cs.flatMap Comp.toJq) := by
          simp [Comp.toJq]
        rw [e, lex_field _ _ _ _ _ _ _ (hh a rfl) (fun x hx => hk x (by simp [hx])) (toJq_head cs),
          ih' f _ (by omega)]
        simp [compToks]
    | bracketKey k =>
      simp only [Comp.toJq, List.length_append, List.length_cons, List.length_nil] at hf
      obtain ⟨f, rfl⟩ : ∃ f, fuel = f + 3 := ⟨fuel - 3, by omega⟩
      have hlen := escape_length k
      have e : Comp.toJq (.bracketKey k) ++ cs.flatMap Comp.toJq =
          '[' :: '"' :: (escapeJqString k ++ '"' :: ']' :: cs.flatMap Comp.toJq) := by
        simp [Comp.toJq]
      rw [e, lex_lbr, lex_str _ _ _ _ _ _ (by omega), lex_rbr, ih' f _ (by omega)]
      simp [compToks]

theorem lex_renderPath (comps : List Comp) (h : ∀ c ∈ comps, DotOK c) (fuel : Nat)
    (hf : fuel ≥ (renderPath comps).length + 2) :
    lex fuel (renderPath comps) 0 false [] = some (pathToks comps, []) := by
  cases comps with
  | nil =>
    obtain ⟨f, rfl⟩ : ∃ f, fuel = f + 1 := ⟨fuel - 1, by omega⟩
    have := lex_comps [] (by simp) f [.punct "."] (by simp [renderPath] at hf ⊢; omega)
    simp only [List.flatMap_nil] at this
    simp only [renderPath, lex_dot_end, this, pathToks]
    rfl
  | cons c cs =>
    cases c with
    | dotKey k =>
      have := lex_comps (.dotKey k :: cs) h fuel [] (by simp [renderPath] at hf ⊢; omega)
      simpa [renderPath, pathToks] using this
    | index i =>
      obtain ⟨f, rfl⟩ : ∃ f, fuel = f + 1 := ⟨fuel - 1, by omega⟩
      have := lex_comps (.index i :: cs) h f [.punct "."] (by simp [renderPath] at hf ⊢; omega)
      have e : renderPath (.index i :: cs) =
          '.' :: '[' :: ((toString i).toList ++ [']'] ++ cs.flatMap Comp.toJq) := by
        simp [renderPath, Comp.toJq]
      have e2 : (Comp.index i :: cs).flatMap Comp.toJq =
          '[' :: ((toString i).toList ++ [']'] ++ cs.flatMap Comp.toJq) := by
        simp [Comp.toJq]
      rw [e, lex_dot_lbr, ← e2, this]
      simp [pathToks]
    | bracketKey k =>
      obtain ⟨f, rfl⟩ : ∃ f, fuel = f + 1 := ⟨fuel - 1, by omega⟩
      have := lex_comps (.bracketKey k :: cs) h f [.punct "."] (by simp [renderPath] at hf ⊢; omega)
      have e : renderPath (.bracketKey k :: cs) =
          '.' :: '[' :: ('"' :: (escapeJqString k ++ ['"', ']']) ++ cs.flatMap Comp.toJq) := by
        simp [renderPath, Comp.toJq]
      have e2 : (Comp.bracketKey k :: cs).flatMap Comp.toJq =
          '[' :: ('"' :: (escapeJqString k ++ ['"', ']']) ++ cs.flatMap Comp.toJq) := by
        simp [Comp.toJq]
      rw [e, lex_dot_lbr, ← e2, this]
      simp [pathToks]

theorem tokenize_path (comps : List Comp) (h : ∀ c ∈ comps, DotOK c) :
    tokenize (String.ofList (renderPath comps)) = some (pathToks comps) := by
  unfold tokenize
  simp only [String.toList_ofList]
  rw [lex_renderPath comps h _ (by omega)]

/-! ### parsing -/

theorem pPostLoop_rbr (f : Nat) (t : Expr) (rest : List Tok) :
    pPostLoop (f + 1) t (.punct "]" :: rest) = some (t, .punct "]" :: rest) := by
  rw [pPostLoop.eq_def]
  simp

theorem pPostLoop_nil (f : Nat) (t : Expr) : pPostLoop (f + 1) t [] = some (t, []) := by
  rw [pPostLoop.eq_def]

theorem pPrimary_num (f : Nat) (s : String) (rest : List Tok) :
    pPrimary (f + 1) (.num s :: rest) = some (.lit (.num s), rest) := by
  rw [pPrimary.eq_def]

theorem pPrimary_str (f : Nat) (k : String) (rest : List Tok) :
    pPrimary (f + 3) (.str [(k, none)] :: rest) = some (.lit (.str k), rest) := by
  rw [pPrimary.eq_def]
  simp only []
  rw [pStrParts.eq_def]
  simp only []
  rw [pStrParts.eq_def]
  simp [mkStr]

/-- tokens that start a postfix term directly (no prefix form of `pOperand` applies) -/
def OperandStart : Tok → Prop
  | .num _ => True
  | .str _ => True
  | .field _ => True
  | .punct s => s = "."
  | _ => False

/-- what may follow the term: end of input or `]` -/
def Closes (rest : List Tok) : Prop := rest = [] ∨ ∃ r, rest = .punct "]" :: r

theorem pBinLoop_closes (f : Nat) (m : Nat) (lhs : Expr) (rest : List Tok) (mx : Nat)
    (h : Closes rest) : pBinLoop (f + 1) m lhs rest mx = some (lhs, rest) := by
  rcases h with rfl | ⟨r, rfl⟩
  · rw [pBinLoop.eq_def]
  · rw [pBinLoop.eq_def]
    simp [binPrec]

theorem pOperand_of_postfix (f : Nat) (tk : Tok) (ts : List Tok) (t : Expr) (rest : List Tok)
    (hs : OperandStart tk) (hp : pPostfix f (tk :: ts) = some (t, rest)) (hc : Closes rest) :
    pOperand (f + 1) (tk :: ts) = some (t, rest) := by
  rw [pOperand.eq_def]
  cases tk with
  | num s => rcases hc with rfl | ⟨r, rfl⟩ <;> simp [hp]
  | str s => rcases hc with rfl | ⟨r, rfl⟩ <;> simp [hp]
  | field s => rcases hc with rfl | ⟨r, rfl⟩ <;> simp [hp]
  | punct s =>
    have : s = "." := hs
    subst this
    rcases hc with rfl | ⟨r, rfl⟩ <;> simp [hp]
  | ident s => exact absurd hs (by simp [OperandStart])
  | var s => exact absurd hs (by simp [OperandStart])
  | fmt s => exact absurd hs (by simp [OperandStart])

theorem pPipe_of_postfix (f : Nat) (tk : Tok) (ts : List Tok) (t : Expr) (rest : List Tok)
    (hs : OperandStart tk) (hp : pPostfix f (tk :: ts) = some (t, rest)) (hc : Closes rest) :
    pPipe (f + 2) (tk :: ts) = some (t, rest) := by
  unfold pPipe
  rw [pExpr.eq_def]
  simp only [pOperand_of_postfix f tk ts t rest hs hp hc]
  cases f with
  | zero => rw [pPostfix.eq_def] at hp; simp at hp
  | succ f => exact pBinLoop_closes _ _ _ _ _ hc

theorem pPipe_num (f : Nat) (s : String) (rest : List Tok) :
    pPipe (f + 4) (.num s :: .punct "]" :: rest) = some (.lit (.num s), .punct "]" :: rest) := by
  apply pPipe_of_postfix (f + 2) (.num s) _ _ _ trivial _ (.inr ⟨rest, rfl⟩)
  rw [pPostfix.eq_def]
  simp only [pPrimary_num, pPostLoop_rbr]

theorem pPipe_str (f : Nat) (k : String) (rest : List Tok) :
    pPipe (f + 6) (.str [(k, none)] :: .punct "]" :: rest) =
      some (.lit (.str k), .punct "]" :: rest) := by
  apply pPipe_of_postfix (f + 4) (.str [(k, none)]) _ _ _ trivial _ (.inr ⟨rest, rfl⟩)
  rw [pPostfix.eq_def]
  simp only [pPrimary_str, pPostLoop_rbr]

theorem pPostLoop_num (f : Nat) (t : Expr) (s : String) (rest : List Tok) :
    pPostLoop (f + 6) t (.punct "[" :: .num s :: .punct "]" :: rest) =
      pPostLoop (f + 4) (.index t (.lit (.num s))) rest := by
  rw [pPostLoop.eq_def]
  simp only []
  rw [pBracket.eq_def]
  simp only [pPipe_num]

theorem pPostLoop_str (f : Nat) (t : Expr) (k : String) (rest : List Tok) :
    pPostLoop (f + 8) t (.punct "[" :: .str [(k, none)] :: .punct "]" :: rest) =
      pPostLoop (f + 6) (.index t (.lit (.str k))) rest := by
  rw [pPostLoop.eq_def]
  simp only []
  rw [pBracket.eq_def]
  simp only [pPipe_str]

theorem pPostLoop_field (f : Nat) (t : Expr) (k : String) (rest : List Tok) :
    pPostLoop (f + 1) t (.field k :: rest) = pPostLoop f (.index t (.lit (.str k))) rest := by
  rw [pPostLoop.eq_def]

/-- the key expression of a component -/
def compKey : Comp → Expr
  | .index i => .lit (.num (toString i))
  | .dotKey k => .lit (.str (String.ofList k))
  | .bracketKey k => .lit (.str (String.ofList k))

/-- left-nested chain of index steps on top of `t` -/
def chain (t : Expr) : List Comp → Expr
  | [] => t
  | c :: cs => chain (.index t (compKey c)) cs

/-- the expression the parser builds for a rendered path -/
def pathExpr (comps : List Comp) : Expr := chain .identity comps

theorem pPostLoop_comps (comps : List Comp) : ∀ (t : Expr) (fuel : Nat),
    fuel ≥ 2 * comps.length + 7 →
    pPostLoop fuel t (comps.flatMap compToks) = some (chain t comps, []) := by
  induction comps with
  | nil =>
    intro t fuel hf
    obtain ⟨f, rfl⟩ : ∃ f, fuel = f + 1 := ⟨fuel - 1, by omega⟩
    exact pPostLoop_nil f t
  | cons c cs ih =>
    intro t fuel hf
    simp only [List.length_cons] at hf
    obtain ⟨f, rfl⟩ : ∃ f, fuel = f + 8 := ⟨fuel - 8, by omega⟩
    rw [List.flatMap_cons]
    cases c with
    | index i =>
      simp only [compToks, List.cons_append, List.nil_append]
      rw [show f + 8 = (f + 2) + 6 from rfl, pPostLoop_num, ih _ _ (by omega)]
      rfl
    | dotKey k =>
      simp only [compToks, List.cons_append, List.nil_append]
      rw [show f + 8 = (f + 7) + 1 from rfl, pPostLoop_field, ih _ _ (by omega)]
      rfl
    | bracketKey k =>
      simp only [compToks, List.cons_append, List.nil_append]
      rw [pPostLoop_str, ih _ _ (by omega)]
      rfl

theorem pPostfix_path (comps : List Comp) (f : Nat) (hf : f ≥ 2 * comps.length + 8) :
    pPostfix (f + 1) (pathToks comps) = some (pathExpr comps, []) := by
  obtain ⟨g, rfl⟩ : ∃ g, f = g + 1 := ⟨f - 1, by omega⟩
  rw [pPostfix.eq_def]
  simp only []
  cases comps with
  | nil =>
    have := pPostLoop_comps [] .identity (g + 1) (by simp at hf ⊢; omega)
    simp only [List.flatMap_nil] at this
    have e : pathToks [] = [.punct "."] := rfl
    rw [e, pPrimary.eq_def]
    simp only [this, pathExpr, chain]
  | cons c cs =>
    simp only [List.length_cons] at hf
    cases c with
    | dotKey k =>
      have := pPostLoop_comps cs (.index .identity (.lit (.str (String.ofList k)))) (g + 1) (by omega)
      have e : pathToks (.dotKey k :: cs) = .field (String.ofList k) :: cs.flatMap compToks := rfl
      rw [e, pPrimary.eq_def]
      simp only [this, pathExpr, chain, compKey]
    | index i =>
      have := pPostLoop_comps (.index i :: cs) .identity (g + 1) (by simp; omega)
      have e : pathToks (.index i :: cs) =
          .punct "." :: .punct "[" :: .num (toString i) :: .punct "]" :: cs.flatMap compToks := rfl
      rw [e, pPrimary.eq_def]
      simp only [List.flatMap_cons, compToks, List.cons_append, List.nil_append] at this
      simp only [this, pathExpr]
    | bracketKey k =>
      have := pPostLoop_comps (.bracketKey k :: cs) .identity (g + 1) (by simp; omega)
      have e : pathToks (.bracketKey k :: cs) =
          .punct "." :: .punct "[" :: .str [(String.ofList k, none)] :: .punct "]" ::
            cs.flatMap compToks := rfl
      rw [e, pPrimary.eq_def]
      simp only [List.flatMap_cons, compToks, List.cons_append, List.nil_append] at this
      simp only [this, pathExpr]

theorem pathToks_head (comps : List Comp) : ∃ tk ts, pathToks comps = tk :: ts ∧ OperandStart tk := by
  cases comps with
  | nil => exact ⟨_, _, rfl, rfl⟩
  | cons c cs =>
    cases c with
    | dotKey k => exact ⟨.field (String.ofList k), _, rfl, trivial⟩
    | index i => exact ⟨.punct ".", _, rfl, rfl⟩
    | bracketKey k => exact ⟨.punct ".", _, rfl, rfl⟩

theorem pathToks_length (comps : List Comp) : (pathToks comps).length ≥ comps.length := by
  unfold pathToks
  rw [List.length_append]
  have : (comps.flatMap compToks).length ≥ comps.length := by
    induction comps with
    | nil => simp
    | cons c cs ih =>
      rw [List.flatMap_cons, List.length_append]
      have : (compToks c).length ≥ 1 := by cases c <;> simp [compToks]
      simp only [List.length_cons]
      omega
  omega

/-- **The rendered path is a jq program, and it parses to the index chain.** -/
theorem path_parses (comps : List Comp) (h : ∀ c ∈ comps, DotOK c) :
    parseProgram (String.ofList (renderPath comps)) = some (pathExpr comps) := by
  unfold parseProgram
  simp only [tokenize_path comps h, Bool.false_eq_true, if_false]
  obtain ⟨tk, ts, hts, hs⟩ := pathToks_head comps
  have hl := pathToks_length comps
  have hp := pPostfix_path comps ((pathToks comps).length * 4 + 47) (by omega)
  rw [hts] at hp
  have := pPipe_of_postfix _ tk ts _ _ hs hp (.inl rfl)
  rw [← hts] at this
  rw [show (pathToks comps).length * 4 + 50 = (pathToks comps).length * 4 + 47 + 1 + 2 from rfl, this]
  simp only [Bool.false_and, Bool.false_eq_true, if_false]

/-! ### evaluation -/

section eval
variable {N : Type} [NumOps N]

/-- one navigation step a component denotes -/
def getStep1 : JV N → Comp → Option (JV N)
  | .arr xs, .index i => xs[i]?
  | .obj fs, .dotKey k => JV.lookup fs (String.ofList k)
  | .obj fs, .bracketKey k => JV.lookup fs (String.ofList k)
  | _, _ => none

/-- the sub-value a component path denotes -/
def getPath : JV N → List Comp → Option (JV N)
  | v, [] => some v
  | v, c :: r => (getStep1 v c).bind (getPath · r)

/-- law about the number carrier, needed for the index components of a path only: the program
literal `toString i` is a number whose array index (`idxOf`: not NaN, `floor`, `toInt?` — what
`JV.getStep` uses) is the integer `i` -/
def IdxOK (N : Type) [NumOps N] (c : Comp) : Prop :=
  match c with
  | .index i => ∃ n : N, NumOps.ofLit (toString i) = some n ∧ idxOf n = some (some (i : Int))
  | _ => True

theorem eval_identity (d : Dialect) (f : Nat) (env : Env N) (v : JV N) :
    eval d (f + 1) .identity env v .off = some [.val v .off] := rfl

theorem eval_lit_str (d : Dialect) (f : Nat) (env : Env N) (v : JV N) (s : String) :
    eval d (f + 1) (.lit (.str s)) env v .off = some [.val (.str s) .off] := rfl

theorem eval_lit_num (d : Dialect) (f : Nat) (env : Env N) (v : JV N) (s : String) (n : N)
    (h : NumOps.ofLit s = some n) :
    eval d (f + 1) (.lit (.num s)) env v .off = some [.val (.num n) .off] := by
  show ((NumOps.ofLit s : Option N).bind fun n => okV .off (.num n)) = _
  rw [h]
  rfl

theorem eval_index_step (d : Dialect) (f : Nat) (t k : Expr) (env : Env N) (v w kv w' : JV N)
    (ht : eval d f t env v .off = some [.val w .off])
    (hk : eval d f k env v .off = some [.val kv .off])
    (hi : indexValue w kv = some [.val w' .off]) :
    eval d (f + 1) (.index t k false) env v .off = some [.val w' .off] := by
  show evalStep d (eval d f) (.index t k false) env v .off = _
  simp only [evalStep]
  simp [hk, ht, hi, bindOut, isLost, optPathUnmodelled, dropErrIf, terminated, PInfo.push, Out.isVal]

theorem indexValue_obj (fs : List (String × JV N)) (s : String) (x : JV N)
    (h : JV.lookup fs s = some x) :
    indexValue (.obj fs) (.str s) = some [.val x .off] := by
  simp [indexValue, JV.getStep, liftExc, h]

theorem indexValue_arr (xs : List (JV N)) (n : N) (i : Nat) (x : JV N)
    (hn : idxOf n = some (some (i : Int))) (h : xs[i]? = some x) :
    indexValue (.arr xs) (.num n) = some [.val x .off] := by
  have hr : resolveIdx (i : Int) xs.length = some i := by
    simp [resolveIdx]
  have hg : JV.getStep (.arr xs) (.num n) = .ok x := by
    rw [JV.getStep.eq_def]
    simp only [hn, hr, List.getD, h, Option.getD_some]
  show liftExc .off (JV.getStep (.arr xs) (.num n)) = _
  rw [hg]
  rfl

/-- the key expression of a component evaluates to the key value; one step of `getPath` is one
`indexValue` -/
theorem comp_step (d : Dialect) (f : Nat) (env : Env N) (v w w' : JV N) (c : Comp)
    (hc : IdxOK N c) (hs : getStep1 w c = some w') :
    ∃ kv, eval d (f + 1) (compKey c) env v .off = some [.val kv .off] ∧
      indexValue w kv = some [.val w' .off] := by
  cases c with
  | index i =>
    obtain ⟨n, hn, hi⟩ := hc
    cases w with
    | arr xs => exact ⟨.num n, eval_lit_num d f env v _ n hn, indexValue_arr xs n i w' hi hs⟩
    | _ => simp [getStep1] at hs
  | dotKey k =>
    cases w with
    | obj fs => exact ⟨.str (String.ofList k), rfl, indexValue_obj fs _ w' hs⟩
    | _ => simp [getStep1] at hs
  | bracketKey k =>
    cases w with
    | obj fs => exact ⟨.str (String.ofList k), rfl, indexValue_obj fs _ w' hs⟩
    | _ => simp [getStep1] at hs

theorem eval_chain (d : Dialect) (env : Env N) (v target : JV N) (comps : List Comp) :
    ∀ (t : Expr) (w : JV N) (n : Nat), n ≥ 1 → (∀ c ∈ comps, IdxOK N c) →
      (∀ fuel ≥ n, eval d fuel t env v .off = some [.val w .off]) →
      getPath w comps = some target →
      ∀ fuel ≥ n + comps.length, eval d fuel (chain t comps) env v .off = some [.val target .off] := by
  induction comps with
  | nil =>
    intro t w n _ _ ht hg fuel hf
    simp only [getPath, Option.some.injEq] at hg
    subst hg
    exact ht fuel (by simpa using hf)
  | cons c cs ih =>
    intro t w n hn hc ht hg fuel hf
    simp only [getPath] at hg
    cases hs : getStep1 w c with
    | none => simp [hs] at hg
    | some w' =>
      rw [hs] at hg
      simp only [Option.bind_some] at hg
      refine ih (.index t (compKey c)) w' (n + 1) (by omega) (fun c' h' => hc c' (by simp [h'])) ?_ hg
        fuel (by simp only [List.length_cons] at hf; omega)
      intro fuel' hf'
      obtain ⟨g, rfl⟩ : ∃ g, fuel' = g + 1 := ⟨fuel' - 1, by omega⟩
      obtain ⟨g', rfl⟩ : ∃ g', g = g' + 1 := ⟨g - 1, by omega⟩
      obtain ⟨kv, hk, hi⟩ := comp_step d g' env v w w' c (hc c (by simp)) hs
      exact eval_index_step d (g' + 1) t (compKey c) env v w kv w' (ht _ (by omega)) hk hi

/-- evaluation of the index chain with an explicit fuel bound (path length + 1) -/
theorem pathExpr_eval (d : Dialect) (env : Env N) (comps : List Comp)
    (hidx : ∀ c ∈ comps, IdxOK N c) (v target : JV N) (hget : getPath v comps = some target)
    (fuel : Nat) (hf : fuel ≥ comps.length + 1) :
    eval d fuel (pathExpr comps) env v .off = some [.val target .off] := by
  refine eval_chain d env v target comps .identity v 1 (by omega) hidx ?_ hget fuel (by omega)
  intro fuel' hf'
  obtain ⟨g, rfl⟩ : ∃ g, fuel' = g + 1 := ⟨fuel' - 1, by omega⟩
  rfl

/-- **The printed path expression is a jq program that evaluates, on any value, to exactly the
sub-value the component path denotes** (any dialect, any environment, value mode; the single output
carries path info `.off`). `hidx` is the only assumption about the abstract number carrier, and only
for the index components (discharged for `JNum` below). -/
theorem path_expr_sound (d : Dialect) (env : Env N) (comps : List Comp)
    (h : ∀ c ∈ comps, DotOK c) (hidx : ∀ c ∈ comps, IdxOK N c)
    (v target : JV N) (hget : getPath v comps = some target) :
    ∃ e fuel0, parseProgram (String.ofList (renderPath comps)) = some e ∧ e = pathExpr comps ∧
      ∀ fuel ≥ fuel0, eval d fuel e env v .off = some [.val target .off] :=
  ⟨pathExpr comps, comps.length + 1, path_parses comps h, rfl,
    fun fuel hf => pathExpr_eval d env comps hidx v target hget fuel hf⟩

end eval

/-! ### the law for the executable carrier `JNum` -/

theorem takeDigits_all (l : List Char) (h : ∀ x ∈ l, isDigit x = true) : takeDigits l = (l, []) := by
  induction l with
  | nil => rfl
  | cons a l ih =>
    have ha := h a (by simp)
    have := ih (fun x hx => h x (by simp [hx]))
    simp [takeDigits, ha, this]

theorem digitsToNat_toDigits (i : Nat) : digitsToNat (Nat.toDigits 10 i) = i := by
  have : digitsToNat (Nat.toDigits 10 i) = Nat.ofDigitChars 10 (Nat.toDigits 10 i) 0 := by
    unfold digitsToNat Nat.ofDigitChars
    congr 1
    funext acc c
    rw [Nat.mul_comm]
    rfl
  rw [this, Nat.ofDigitChars_ten_toDigits]

theorem parseDecLit_nat (i : Nat) :
    parseDecLit (toString i) = some ⟨false, i, 0, true⟩ := by
  obtain ⟨c0, ds, hd, hc0, hds⟩ := toString_digits i
  have hall : ∀ x ∈ c0 :: ds, isDigit x = true := by
    intro x hx; rcases List.mem_cons.mp hx with rfl | hx; exact hc0; exact hds x hx
  have hv : digitsToNat (c0 :: ds) = i := by
    rw [← hd, Nat.toString_eq_repr, Nat.toList_repr, digitsToNat_toDigits]
  have h1 : c0 ≠ '-' := by rintro rfl; revert hc0; decide
  have h2 : c0 ≠ '+' := by rintro rfl; revert hc0; decide
  unfold parseDecLit
  simp only [hd]
  simp [h1, h2, takeDigits_all _ hall]
  exact hv

/-- `JNum` satisfies the index-literal law for every index that fits an `i64`. -/
theorem idxOK_JNum (i : Nat) (hi : (i : Int) ≤ I64_MAX) : IdxOK JNum (.index i) := by
  have hin : inI64 (i : Int) = true := by
    simp only [I64_MAX] at hi
    simp only [inI64, I64_MIN, I64_MAX, Bool.and_eq_true]
    exact ⟨decide_eq_true (by omega), decide_eq_true hi⟩
  refine ⟨⟨.int i, some (toString i)⟩, ?_, rfl⟩
  show JNum.ofLiteral (toString i) = _
  unfold JNum.ofLiteral
  rw [parseDecLit_nat]
  simp [hin]

theorem idxOK_JNum_of_bound (comps : List Comp)
    (hb : ∀ i, Comp.index i ∈ comps → (i : Int) ≤ I64_MAX) : ∀ c ∈ comps, IdxOK JNum c := by
  intro c hc
  cases c with
  | index i => exact idxOK_JNum i (hb i hc)
  | dotKey k => trivial
  | bracketKey k => trivial

/-- `path_expr_sound` for the executable carrier: no hypothesis about numbers beyond "every index
fits an `i64`". -/
theorem path_expr_sound_JNum (d : Dialect) (env : Env JNum) (comps : List Comp)
    (h : ∀ c ∈ comps, DotOK c) (hb : ∀ i, Comp.index i ∈ comps → (i : Int) ≤ I64_MAX)
    (v target : JV JNum) (hget : getPath v comps = some target) :
    ∃ e fuel0, parseProgram (String.ofList (renderPath comps)) = some e ∧ e = pathExpr comps ∧
      ∀ fuel ≥ fuel0, eval d fuel e env v .off = some [.val target .off] :=
  path_expr_sound d env comps h (idxOK_JNum_of_bound comps hb) v target hget

/-! ### sanity: the statements are not vacuous -/

example : DotOK (.dotKey ['a', '_', '1']) := by
  refine ⟨by simp, ?_, ?_⟩
  · intro h hh; simp at hh; subst hh; decide
  · intro x hx
    simp only [List.mem_cons, List.not_mem_nil, or_false] at hx
    rcases hx with rfl | rfl | rfl <;> decide

example : String.ofList (renderPath [.dotKey ['a'], .index 10, .bracketKey ['x', '"', ' ']]) =
    ".a[10][\"x\\\" \"]" := by decide

example : pathToks [.dotKey ['a'], .index 10, .bracketKey ['x', '"', ' ']] =
    [.field "a", .punct "[", .num "10", .punct "]", .punct "[", .str [("x\" ", none)], .punct "]"] := by
  simp [pathToks, compToks]
  decide

example : getPath (N := JNum)
    (.obj [("a", .arr [.null, .obj [("x y", .bool true)]])])
    [.dotKey ['a'], .index 1, .bracketKey ['x', ' ', 'y']] = some (.bool true) := by
  simp [getPath, getStep1, JV.lookup]

end SV.JsonLocate
