/-
Proof/NumFmtExp — the exponent-notation branches of `format_number_jq_compat` (C10), one
value-preservation lemma per Rust helper.
-/
import SuccinctlyVerif.Proof.NumFmt
namespace SV.NumFmt
open SV.Dec

/-! ### list facts -/

theorem take_min_length (l : Str) (n : Nat) : l.take (min l.length n) = l.take n := by
  by_cases h : l.length ≤ n
  · rw [Nat.min_eq_left h, List.take_of_length_le (Nat.le_refl _), List.take_of_length_le h]
  · rw [Nat.min_eq_right (by omega)]

theorem trimStartZeros_append_cons (ip fp : Str) (c : Char) (t : Str) (h : trimStartZeros ip = c :: t) :
    trimStartZeros (ip ++ fp) = c :: (t ++ fp) := by
  induction ip with
  | nil => simp [trimStartZeros] at h
  | cons d ds ih =>
    unfold trimStartZeros at *
    by_cases hd : d = '0'
    · subst hd; simp only [List.cons_append, List.dropWhile_cons, beq_self_eq_true, if_true] at h ⊢
      exact ih h
    · simp only [List.cons_append, List.dropWhile_cons, beq_iff_eq, hd, if_false] at h ⊢
      simp only [List.cons.injEq] at h
      rw [h.1, h.2]

theorem trimStartZeros_append_nil (ip fp : Str) (h : trimStartZeros ip = []) :
    trimStartZeros (ip ++ fp) = trimStartZeros fp := by
  induction ip with
  | nil => rfl
  | cons d ds ih =>
    unfold trimStartZeros at *
    by_cases hd : d = '0'
    · subst hd; simp only [List.cons_append, List.dropWhile_cons, beq_self_eq_true, if_true] at h ⊢
      exact ih h
    · simp [hd] at h

theorem takeWhile_dropWhile_length (p : Char → Bool) (l : Str) :
    (l.takeWhile p).length + (l.dropWhile p).length = l.length := by
  induction l with
  | nil => rfl
  | cons c t ih =>
    by_cases h : p c <;> simp [List.takeWhile_cons, List.dropWhile_cons, h] <;> omega

/-- the digits `normalize_extreme_literal_mantissa` copies after the leading one. -/
def capTake : Option Nat → Str → Str
  | some c, full => full.take c
  | none, full => full

/-- `leading[.rest]`. -/
def mantOf (lead : Char) (rest : Str) : Str := if rest.isEmpty then [lead] else lead :: '.' :: rest

/-! ### `split_mantissa`, `normalize_extreme_literal_mantissa` -/

/-- the mantissa text of a literal (everything before the exponent marker). -/
def rawOf (l : Lit) : Str := l.sign ++ (l.ip ++ l.fracText)

theorem splitMantissa_rawOf (l : Lit) (hw : l.wf) :
    splitMantissa (rawOf l) = (l.ip, l.frac.getD []) := by
  obtain ⟨sign, ip, frac, exp⟩ := l
  have hs := hw.sign; have hip := hw.ip; have hf := hw.frac
  simp only at hs hip hf
  have hbody : ∀ c t, ip ++ Lit.fracText ⟨sign, ip, frac, exp⟩ = c :: t → c ≠ '-' ∧ c ≠ '+' := by
    intro c t e
    cases ip with
    | nil =>
      cases frac with
      | none => exact absurd rfl hf
      | some f =>
        simp only [Lit.fracText, List.nil_append, List.cons.injEq] at e
        obtain ⟨rfl, _⟩ := e; decide
    | cons c' t' =>
      simp only [List.cons_append, List.cons.injEq] at e
      obtain ⟨rfl, _⟩ := e
      have hc : c'.isDigit = true := by rw [allDigits_cons, Bool.and_eq_true] at hip; exact hip.1
      exact ⟨isDigit_ne_minus hc, isDigit_ne_plus hc⟩
  have h1 := stripSign_signStr sign hs _ hbody
  unfold splitMantissa rawOf
  simp only [h1]
  cases frac with
  | none => simp [Lit.fracText, splitOnce_dot_none ip hip]
  | some f => simp [Lit.fracText, splitOnce_dot_digits ip f hip]

theorem normalizeExtreme_nil (l : Lit) (hw : l.wf) (expText : Str) (cap : Option Nat)
    (h : trimStartZeros (l.ip ++ l.frac.getD []) = []) :
    normalizeExtreme (rawOf l) expText cap = .error ((l.frac.getD []).length : Int) := by
  unfold normalizeExtreme
  rw [splitMantissa_rawOf l hw]
  simp only
  have h1 : trimStartZeros l.ip = [] := by
    rcases trimStartZeros_head l.ip with h1 | ⟨c, t, h1, _⟩
    · exact h1
    · rw [trimStartZeros_append_cons _ _ c t h1] at h; simp at h
  have h2 : trimStartZeros (l.frac.getD []) = [] := by rw [← trimStartZeros_append_nil _ _ h1]; exact h
  unfold trimStartZeros at h2
  simp only [h1, h2]

theorem normalizeExtreme_cons (l : Lit) (hw : l.wf) (expText : Str) (cap : Option Nat)
    (lead : Char) (full : Str) (h : trimStartZeros (l.ip ++ l.frac.getD []) = lead :: full) :
    normalizeExtreme (rawOf l) expText cap =
      .ok (normFinish expText ((full.length : Int) - ((l.frac.getD []).length : Int)) lead
        (capTake cap full) ((full.length : Int) + 1)) := by
  unfold normalizeExtreme
  rw [splitMantissa_rawOf l hw]
  simp only
  generalize hfp : l.frac.getD [] = fp at h ⊢
  rcases trimStartZeros_head l.ip with h1 | ⟨c, t, h1, _⟩
  · -- magnitude < 1
    have h2 : trimStartZeros fp = lead :: full := by rw [← trimStartZeros_append_nil _ _ h1]; exact h
    have hlen := takeWhile_dropWhile_length (· == '0') fp
    unfold trimStartZeros at h2
    rw [h2] at hlen
    simp only [h1, h2]
    congr 2
    · simp only [List.length_cons] at hlen; omega
    · cases cap with
      | none => rfl
      | some c => simp [capTake, take_min_length]
  · -- mantissa ≥ 1
    rw [trimStartZeros_append_cons _ _ c t h1] at h
    simp only [List.cons.injEq] at h
    obtain ⟨rfl, rfl⟩ := h
    simp only [h1]
    congr 2
    · simp only [List.length_cons, List.length_append]; omega
    · cases cap with
      | none => rfl
      | some cp =>
        simp only [capTake, List.take_append]
        by_cases hc : t.length ≥ cp
        · simp only [hc, if_true]
          have : cp - t.length = 0 := by omega
          simp [this]
        · simp only [hc, if_false, take_min_length]
          rw [List.take_of_length_le (show t.length ≤ cp by omega)]
    · simp only [List.length_cons, List.length_append]; omega

/-! ### exponent parsing -/

/-- the written exponent of the exponent text `s ++ d`. -/
def expOf (s d : Str) : Int := if s == ['-'] then -(digitsVal d : Int) else (digitsVal d : Int)

theorem parseLiteralExponent_exact (s d : Str) (hs : isSignStr s) (hd : allDigits d = true) (hne : d ≠ [])
    (hr : I128_MIN ≤ expOf s d ∧ expOf s d ≤ I128_MAX) :
    parseLiteralExponent (s ++ d) = .exact (expOf s d) := by
  unfold parseLiteralExponent parseRustInt
  rw [readInt_signed s d hs hd hne]
  simp only [expOf] at hr ⊢
  rw [if_pos hr]

theorem normFinish_exact (s d : Str) (hs : isSignStr s) (hd : allDigits d = true) (hne : d ≠ [])
    (shift : Int) (hr : I128_MIN ≤ expOf s d ∧ expOf s d ≤ I128_MAX)
    (hr2 : I128_MIN ≤ expOf s d + shift ∧ expOf s d + shift ≤ I128_MAX)
    (lead : Char) (rest : Str) (dc : Int) :
    normFinish (s ++ d) shift lead rest dc = ⟨mantOf lead rest, .exact (expOf s d + shift), dc⟩ := by
  unfold normFinish
  rw [parseLiteralExponent_exact s d hs hd hne hr]
  simp only [ExpParse.value, ExpParse.isSaturated, checkedI128, hr2, and_self, if_true, Bool.or_self,
    Bool.false_eq_true, if_false, mantOf]

/-! ### what a printed text must satisfy -/

/-- `out` reads back to the signed value `t` and is an RFC 8259 number. -/
def Good (out : Str) (t : Dec) : Prop := sameVal (parseDec out) (some t) ∧ isJsonNumber out = true

theorem good_of_lit (l' : Lit) (hs : l'.strict) (t : Dec) (h : l'.toDec.same t) : Good l'.text t := by
  refine ⟨?_, isJsonNumber_text l' hs⟩
  rw [parseDec_text l' hs.towf]; exact h

theorem Dec.same_of_mant_zero {a b : Dec} (hn : a.neg = b.neg) (ha : a.mant = 0) (hb : b.mant = 0) :
    a.same b := by
  refine ⟨hn, ?_⟩; rw [ha, hb]; simp

theorem signStr_isSignStr (neg : Bool) : isSignStr (signStr neg) := by
  cases neg <;> simp [signStr, isSignStr]

theorem signStr_ne_plus (neg : Bool) : signStr neg ≠ ['+'] := by cases neg <;> simp [signStr]

theorem signStr_beq (neg : Bool) : (signStr neg == ['-']) = neg := by cases neg <;> simp [signStr]

/-- `Some(rest)` unless `rest` is empty. -/
def fracOf (full : Str) : Option Str := if full.isEmpty then none else some full

theorem fracOf_getD (full : Str) : (fracOf full).getD [] = full := by
  cases full <;> simp [fracOf]

theorem single_strict_int (lead : Char) : [lead] = ['0'] ∨ ∃ c t, [lead] = c :: t ∧ c ≠ '0' := by
  by_cases h : lead = '0'
  · left; rw [h]
  · right; exact ⟨lead, [], rfl, h⟩

/-- the literal `sign lead[.full] [exp]`. -/
def sciLit (neg : Bool) (lead : Char) (full : Str) (exp : Option (Char × Str × Str)) : Lit :=
  ⟨signStr neg, [lead], fracOf full, exp⟩

theorem sciLit_text_none (neg : Bool) (lead : Char) (full : Str) :
    (sciLit neg lead full none).text = signStr neg ++ mantOf lead full := by
  cases full <;> simp [sciLit, Lit.text, Lit.fracText, Lit.expText, fracOf, mantOf]

theorem sciLit_text_some (neg : Bool) (lead : Char) (full : Str) (m : Char) (s d : Str) :
    (sciLit neg lead full (some (m, s, d))).text = signStr neg ++ mantOf lead full ++ m :: (s ++ d) := by
  cases full <;> simp [sciLit, Lit.text, Lit.fracText, Lit.expText, fracOf, mantOf]

theorem sciLit_strict (neg : Bool) (lead : Char) (full : Str) (hl : lead.isDigit = true)
    (hf : allDigits full = true) (exp : Option (Char × Str × Str))
    (he : match exp with
      | some (m, s, d) => (m = 'e' ∨ m = 'E') ∧ isSignStr s ∧ allDigits d = true ∧ d ≠ []
      | none => True) : (sciLit neg lead full exp).strict :=
  { sign := signStr_isSignStr neg
    ip := by simp [sciLit, allDigits, hl]
    frac := by
      cases full with
      | nil => simp [sciLit, fracOf]
      | cons c t => simpa [sciLit, fracOf] using hf
    exp := he
    noPlus := signStr_ne_plus neg
    int := single_strict_int lead }

/-! ### `assemble_scientific` -/

theorem assembleScientific_good (neg : Bool) (lead : Char) (full : Str) (hl : lead.isDigit = true)
    (hf : allDigits full = true) (e : Int) :
    Good (assembleScientific (signStr neg) (mantOf lead full) e)
      ⟨neg, digitsVal (lead :: full), e - (full.length : Int)⟩ := by
  have hp := natDigits_spec e.natAbs
  have htext : assembleScientific (signStr neg) (mantOf lead full) e
      = (sciLit neg lead full (some ('E', [if e < 0 then '-' else '+'], natDigits e.natAbs))).text := by
    rw [sciLit_text_some]; simp [assembleScientific, assembleScientificWithSign]
  rw [htext]
  apply good_of_lit
  · exact sciLit_strict neg lead full hl hf _
      ⟨Or.inr rfl, by by_cases h : e < 0 <;> simp [h, isSignStr], hp.1, hp.2.2⟩
  · have hexpv : (if ([if e < 0 then '-' else '+'] == ['-']) = true then -(digitsVal (natDigits e.natAbs) : Int)
        else (digitsVal (natDigits e.natAbs) : Int)) = e := by
      rw [hp.2.1]
      by_cases h : e < 0
      · simp [h]; omega
      · simp [h]; omega
    simp only [Lit.toDec, sciLit, signStr_beq, fracOf_getD, hexpv]
    exact Dec.same_refl _


/-! ### `format_shifted_mantissa`, `format_positive_shifted_plain` -/

theorem splitPoint_mantOf (lead : Char) (full : Str) (hl : lead.isDigit = true) :
    splitPoint (mantOf lead full) = ([lead], full) := by
  have hd : allDigits [lead] = true := by simp [allDigits, hl]
  unfold splitPoint mantOf
  cases full with
  | nil => simp [splitOnce_dot_none [lead] hd]
  | cons c t =>
    have := splitOnce_dot_digits [lead] (c :: t) hd
    simp only [List.cons_append, List.nil_append] at this
    simp [this]

/-- plain text `sign before[.after]` for digit strings. -/
def plainLit (neg : Bool) (before after : Str) : Lit := ⟨signStr neg, before, fracOf after, none⟩

theorem joinSignDigits_eq (neg : Bool) (before after : Str) :
    joinSignDigits (signStr neg) before after = (plainLit neg before after).text := by
  cases after <;> simp [joinSignDigits, plainLit, Lit.text, Lit.fracText, Lit.expText, fracOf]

theorem plainLit_strict (neg : Bool) (before after : Str) (hb : allDigits before = true)
    (ha : allDigits after = true) (hint : before = ['0'] ∨ ∃ c t, before = c :: t ∧ c ≠ '0') :
    (plainLit neg before after).strict :=
  { sign := signStr_isSignStr neg
    ip := hb
    frac := by
      cases after with
      | nil => simp only [plainLit, fracOf, List.isEmpty_nil, if_true]
               rcases hint with h | ⟨c, t, h, _⟩ <;> rw [h] <;> simp
      | cons c t => simpa [plainLit, fracOf] using ha
    exp := trivial
    noPlus := signStr_ne_plus neg
    int := hint }

theorem plainLit_toDec (neg : Bool) (before after : Str) :
    (plainLit neg before after).toDec = ⟨neg, digitsVal (before ++ after), 0 - (after.length : Int)⟩ := by
  simp [Lit.toDec, plainLit, signStr_beq, fracOf_getD]

theorem formatShiftedMantissa_good (neg : Bool) (lead : Char) (full : Str) (hl : lead.isDigit = true)
    (hl0 : lead ≠ '0') (hf : allDigits full = true) (se : Int) (hse : se = 0 ∨ (-6 ≤ se ∧ se ≤ -1)) :
    Good (formatShiftedMantissa (signStr neg) (mantOf lead full) se)
      ⟨neg, digitsVal (lead :: full), se - (full.length : Int)⟩ := by
  unfold formatShiftedMantissa
  rw [splitPoint_mantOf lead full hl]
  simp only
  rcases hse with h0 | hneg
  · subst h0
    simp only [beq_self_eq_true, if_true, joinSignDigits_eq]
    apply good_of_lit
    · exact plainLit_strict neg [lead] full (by simp [allDigits, hl]) hf (Or.inr ⟨lead, [], rfl, hl0⟩)
    · rw [plainLit_toDec]; exact Dec.same_refl _
  · have hne : (se == 0) = false := by simp; omega
    simp only [hne, Bool.false_eq_true, if_false]
    have htext : signStr neg ++ '0' :: '.' :: List.replicate (-se - 1).toNat '0' ++ [lead] ++ full
        = (plainLit neg ['0'] (List.replicate (-se - 1).toNat '0' ++ lead :: full)).text := by
      simp [plainLit, Lit.text, Lit.fracText, Lit.expText, fracOf]
    rw [htext]
    apply good_of_lit
    · refine plainLit_strict neg ['0'] _ (by decide) ?_ (Or.inl rfl)
      rw [allDigits_append, allDigits_replicate_zero, allDigits_cons, hl, hf]; rfl
    · rw [plainLit_toDec]
      have hv : digitsVal (['0'] ++ (List.replicate (-se - 1).toNat '0' ++ lead :: full)) = digitsVal (lead :: full) := by
        rw [List.singleton_append, digitsVal_zero_cons, digitsVal_replicate_zero]
      rw [hv]
      have he : (0 : Int) - ((List.replicate (-se - 1).toNat '0' ++ lead :: full).length : Int)
          = se - (full.length : Int) := by
        simp only [List.length_append, List.length_replicate, List.length_cons]; omega
      rw [he]; exact Dec.same_refl _

theorem formatPositiveShiftedPlain_good (neg : Bool) (lead : Char) (full : Str) (hl : lead.isDigit = true)
    (hl0 : lead ≠ '0') (hf : allDigits full = true) (se : Int) (hpos : 0 < se) (dc : Int) (p : Str)
    (h : formatPositiveShiftedPlain (signStr neg) (mantOf lead full) se dc = some p) :
    Good p ⟨neg, digitsVal (lead :: full), se - (full.length : Int)⟩ := by
  unfold formatPositiveShiftedPlain at h
  rw [splitPoint_mantOf lead full hl] at h
  simp only at h
  split at h
  · exact absurd h (by simp)
  · split at h
    · exact absurd h (by simp)
    · split at h
      · exact absurd h (by simp)
      · rename_i _ _ hlen
        simp only [Option.some.injEq] at h
        subst h
        simp only [List.singleton_append, List.length_cons, gt_iff_lt, Nat.not_lt] at hlen
        simp only [List.singleton_append]
        rw [joinSignDigits_eq]
        have hsp : (se + 1).toNat = (se.toNat) + 1 := by omega
        have hall : allDigits (lead :: full) = true := by rw [allDigits_cons, hl, hf]; rfl
        have htd := List.take_append_drop (se + 1).toNat (lead :: full)
        apply good_of_lit
        · refine plainLit_strict neg _ _ ?_ ?_ (Or.inr ⟨lead, full.take se.toNat, ?_, hl0⟩)
          · have := hall; rw [← htd, allDigits_append, Bool.and_eq_true] at this; exact this.1
          · have := hall; rw [← htd, allDigits_append, Bool.and_eq_true] at this; exact this.2
          · rw [hsp]; simp
        · rw [plainLit_toDec, htd]
          have he : (0 : Int) - (((lead :: full).drop (se + 1).toNat).length : Int) = se - (full.length : Int) := by
            simp only [List.length_drop, List.length_cons]; omega
          rw [he]; exact Dec.same_refl _


/-! ### the callers, over an abstract normalisation result -/

/-- `normalize_extreme_literal_mantissa(raw, expText, cap')` succeeds for every cap with leading digit
`lead`, remaining significant digits `full` (copied up to the cap), exact shifted exponent `ne`. -/
structure Normed (raw expText : Str) (lead : Char) (full : Str) (ne : Int) : Prop where
  norm : ∀ cap', normalizeExtreme raw expText cap'
      = .ok ⟨mantOf lead (capTake cap' full), .exact ne, (full.length : Int) + 1⟩
  hlead : lead.isDigit = true
  hlead0 : lead ≠ '0'
  hfull : allDigits full = true

section
variable {raw expText : Str} {lead : Char} {full : Str} {ne : Int}

/-- `full_mantissa_if_capped` always returns the uncapped mantissa. -/
theorem fullMantissaIfCapped_eq (hN : Normed raw expText lead full ne) (cap : Nat) :
    fullMantissaIfCapped cap raw expText (mantOf lead (full.take cap)) ((full.length : Int) + 1)
      = mantOf lead full := by
  unfold fullMantissaIfCapped
  split
  · rw [hN.norm none]; rfl
  · rename_i h
    rw [List.take_of_length_le (by omega)]

/-- `try_positive_shifted_plain`: whenever it answers, the plain text is right (no cap condition). -/
theorem tryPositiveShiftedPlain_good (hN : Normed raw expText lead full ne) (cap : Nat) (neg : Bool)
    (se : Int) (hpos : 0 < se) (p : Str)
    (h : tryPositiveShiftedPlain cap (signStr neg) raw expText se ((full.length : Int) + 1)
      (mantOf lead (full.take cap)) = some p) :
    Good p ⟨neg, digitsVal (lead :: full), se - (full.length : Int)⟩ := by
  unfold tryPositiveShiftedPlain at h
  split at h
  · exact absurd h (by simp)
  · rw [fullMantissaIfCapped_eq hN cap] at h
    exact formatPositiveShiftedPlain_good neg lead full hN.hlead hN.hlead0 hN.hfull se hpos _ p h

/-- the finite, non-zero path of `format_number_jq_compat_with`: real output (`preview = false`)
needs no digit-cap condition at all; the preview variant needs `≤ cap + 1` significant digits. -/
theorem formatExpLiteral_fin_good (hN : Normed raw expText lead full ne) (cap : Nat) (preview : Bool)
    (hcap : preview = true → full.length ≤ cap) (neg : Bool) :
    Good (formatExpLiteral cap preview .fin neg raw expText)
      ⟨neg, digitsVal (lead :: full), ne - (full.length : Int)⟩ := by
  have hsci : Good (if preview = true then assembleScientific (signStr neg) (mantOf lead (List.take cap full)) ne
      else assembleScientific (signStr neg)
        (fullMantissaIfCapped cap raw expText (mantOf lead (List.take cap full)) ((full.length : Int) + 1)) ne)
      ⟨neg, digitsVal (lead :: full), ne - (full.length : Int)⟩ := by
    cases preview with
    | true =>
      simp only [if_true]
      rw [List.take_of_length_le (hcap rfl)]
      exact assembleScientific_good neg lead full hN.hlead hN.hfull ne
    | false =>
      simp only [Bool.false_eq_true, if_false]
      rw [fullMantissaIfCapped_eq hN cap]
      exact assembleScientific_good neg lead full hN.hlead hN.hfull ne
  unfold formatExpLiteral
  simp only [hN.norm (some cap), capTake, ExpParse.value]
  by_cases hwin : (ne == 0) = true ∨ (-6 ≤ ne ∧ ne ≤ -1)
  · simp only [hwin, if_true]
    rw [fullMantissaIfCapped_eq hN cap]
    refine formatShiftedMantissa_good neg lead full hN.hlead hN.hlead0 hN.hfull ne ?_
    rcases hwin with h | h
    · left; simpa using h
    · right; exact h
  · simp only [hwin, if_false]
    by_cases hpos : ne > 0
    · simp only [hpos, if_true]
      cases hp : tryPositiveShiftedPlain cap (signStr neg) raw expText ne ((full.length : Int) + 1)
          (mantOf lead (List.take cap full)) with
      | some p => exact tryPositiveShiftedPlain_good hN cap neg ne hpos p hp
      | none => exact hsci
    · simp only [hpos, if_false]
      exact hsci

/-- `format_near_zero_literal`, non-zero mantissa (underflowed literal): always scientific. -/
theorem formatNearZeroLiteral_good (hN : Normed raw expText lead full ne) (cap : Nat)
    (hcap : full.length ≤ cap) (neg : Bool) :
    Good (formatNearZeroLiteral cap raw expText neg)
      ⟨neg, digitsVal (lead :: full), ne - (full.length : Int)⟩ := by
  unfold formatNearZeroLiteral
  simp only [hN.norm (some cap), capTake]
  rw [List.take_of_length_le hcap]
  exact assembleScientific_good neg lead full hN.hlead hN.hfull ne

/-- `format_overflow_literal_mantissa` below its `10^9` exponent ceiling (a literal that overflows
`f64` has a positive shifted exponent – `hpos` – as the Rust comment notes). -/
theorem formatOverflowLiteralMantissa_good (hN : Normed raw expText lead full ne) (cap : Nat)
    (hcap : full.length ≤ cap) (neg : Bool) (hceil : ne.natAbs < 1000000000) (hpos : 0 < ne) :
    Good (formatOverflowLiteralMantissa cap raw expText neg)
      ⟨neg, digitsVal (lead :: full), ne - (full.length : Int)⟩ := by
  unfold formatOverflowLiteralMantissa
  simp only [hN.norm (some cap), capTake, ExpParse.value]
  have hc : ¬ (ne.natAbs ≥ 1000000000) := by omega
  simp only [hc, if_false]
  cases hp : tryPositiveShiftedPlain cap (signStr neg) raw expText ne ((full.length : Int) + 1)
      (mantOf lead (List.take cap full)) with
  | some p => simp only; exact tryPositiveShiftedPlain_good hN cap neg ne hpos p hp
  | none =>
    simp only
    rw [List.take_of_length_le hcap]
    exact assembleScientific_good neg lead full hN.hlead hN.hfull ne

end

/-- a text that reads back to a zero of sign `neg` reads back to every zero of that sign. -/
theorem good_retarget_zero {out : Str} {t t' : Dec} (h : Good out t) (hz : t.mant = 0)
    (hn : t'.neg = t.neg) (hz' : t'.mant = 0) : Good out t' := by
  refine ⟨?_, h.2⟩
  have h1 := h.1
  cases hp : parseDec out with
  | none => rw [hp] at h1; exact h1.elim
  | some dd =>
    rw [hp] at h1
    have h1' : Dec.same dd t := h1
    show Dec.same dd t'
    refine Dec.same_of_mant_zero (h1'.1.trans hn.symm) ?_ hz'
    have := h1'.2
    rw [hz, Nat.zero_mul] at this
    have hpow : 0 < 10 ^ (dd.exp - min dd.exp t.exp).toNat := Nat.pow_pos (by decide)
    rcases Nat.mul_eq_zero.mp this with h | h
    · exact h
    · omega

/-- `format_near_zero_literal`, all-zero mantissa (`Err(frac_len)` arm), exact exponent arithmetic. -/
theorem formatNearZeroLiteral_zero_good (cap : Nat) (raw : Str) (s d : Str) (hs : isSignStr s)
    (hd : allDigits d = true) (hne : d ≠ []) (fl : Nat)
    (hnorm : normalizeExtreme raw (s ++ d) (some cap) = .error (fl : Int))
    (hr : I128_MIN ≤ expOf s d ∧ expOf s d ≤ I128_MAX)
    (hr2 : I128_MIN ≤ expOf s d - fl ∧ expOf s d - fl ≤ I128_MAX) (neg : Bool) (e : Int) :
    Good (formatNearZeroLiteral cap raw (s ++ d) neg) ⟨neg, 0, e⟩ := by
  unfold formatNearZeroLiteral
  simp only [hnorm, parseLiteralExponent_exact s d hs hd hne hr, ExpParse.value, ExpParse.isSaturated,
    checkedI128, hr2, and_self, if_true, Bool.or_self, Bool.false_eq_true, if_false]
  by_cases h0 : (expOf s d - (fl : Int) == 0) = true
  · simp only [h0, if_true]
    have : signStr neg ++ ['0'] = (plainLit neg ['0'] []).text := by
      simp [plainLit, Lit.text, Lit.fracText, Lit.expText, fracOf]
    rw [this]
    apply good_of_lit
    · exact plainLit_strict neg ['0'] [] (by decide) (by decide) (Or.inl rfl)
    · rw [plainLit_toDec]
      exact Dec.same_of_mant_zero rfl (show digitsVal (['0'] ++ []) = 0 by decide) rfl
  · have h0' : (expOf s d - (fl : Int) == 0) = false := by simpa using h0
    simp only [h0', Bool.false_eq_true, if_false]
    by_cases hwin : -6 ≤ expOf s d - (fl : Int) ∧ expOf s d - (fl : Int) < 0
    · simp only [hwin, and_self, if_true]
      have : signStr neg ++ '0' :: '.' :: List.replicate (-(expOf s d - (fl : Int))).toNat '0'
          = (plainLit neg ['0'] (List.replicate (-(expOf s d - (fl : Int))).toNat '0')).text := by
        have hpos : (-(expOf s d - (fl : Int))).toNat = (-(expOf s d - (fl : Int))).toNat - 1 + 1 := by omega
        rw [hpos]
        simp [plainLit, Lit.text, Lit.fracText, Lit.expText, fracOf, List.replicate_succ]
      rw [this]
      apply good_of_lit
      · exact plainLit_strict neg ['0'] _ (by decide) (allDigits_replicate_zero _) (Or.inl rfl)
      · rw [plainLit_toDec]
        refine Dec.same_of_mant_zero rfl ?_ rfl
        show digitsVal (['0'] ++ List.replicate _ '0') = 0
        rw [List.singleton_append, digitsVal_zero_cons]
        have := digitsVal_replicate_zero (-(expOf s d - (fl : Int))).toNat []
        simpa [digitsVal_nil] using this
    · simp only [hwin, if_false]
      have := assembleScientific_good neg '0' [] (by decide) (by decide) (expOf s d - (fl : Int))
      have hm : mantOf '0' [] = ['0'] := rfl
      rw [hm] at this
      exact good_retarget_zero this (show digitsVal ['0'] = 0 by decide) rfl rfl

/-! ### instantiating the normalisation for a literal of the grammar -/

theorem trimStartZeros_length_le (l : Str) : (trimStartZeros l).length ≤ l.length := by
  have := takeWhile_dropWhile_length (· == '0') l
  unfold trimStartZeros; omega

/-- exponent arithmetic of the literal stays inside `i128` (no saturation anywhere). -/
def ExpFits (l : Lit) (_s d : Str) : Prop :=
  (digitsVal d : Int) + ((l.ip ++ l.frac.getD []).length : Int) < 2 ^ 127

theorem normed_of_lit (l : Lit) (hw : l.wf) (m : Char) (s d : Str) (hexp : l.exp = some (m, s, d))
    (hfit : ExpFits l s d) (lead : Char) (full : Str)
    (hsig : trimStartZeros (l.ip ++ l.frac.getD []) = lead :: full) :
    Normed (rawOf l) (s ++ d) lead full
      (expOf s d + ((full.length : Int) - ((l.frac.getD []).length : Int))) := by
  have he := hw.exp
  rw [hexp] at he
  simp only at he
  have hall : allDigits (l.ip ++ l.frac.getD []) = true := by
    rw [allDigits_append, hw.ip]
    have := hw.frac
    cases hf : l.frac with
    | none => rfl
    | some f => rw [hf] at this; simpa using this.1
  have hsigd := allDigits_trimStartZeros _ hall
  rw [hsig, allDigits_cons, Bool.and_eq_true] at hsigd
  have hlen := trimStartZeros_length_le (l.ip ++ l.frac.getD [])
  rw [hsig] at hlen
  simp only [List.length_cons, List.length_append] at hlen
  have hE : -(digitsVal d : Int) ≤ expOf s d ∧ expOf s d ≤ (digitsVal d : Int) := by
    unfold expOf; split <;> omega
  unfold ExpFits at hfit
  simp only [List.length_append] at hfit
  refine ⟨fun cap' => ?_, hsigd.1, ?_, hsigd.2⟩
  · rw [normalizeExtreme_cons l hw (s ++ d) cap' lead full hsig]
    rw [normFinish_exact s d he.2.1 he.2.2.1 he.2.2.2]
    · simp only [I128_MIN, I128_MAX]; omega
    · simp only [I128_MIN, I128_MAX]; omega
  · rcases trimStartZeros_head (l.ip ++ l.frac.getD []) with h | ⟨c, t, h, hc⟩
    · rw [h] at hsig; simp at hsig
    · rw [h] at hsig; simp only [List.cons.injEq] at hsig; rw [← hsig.1]; exact hc


/-! ### `format_number_jq_compat` on a literal with exponent: reaching `formatExpLiteral` -/

theorem takeWhile_append_stop (p : Char → Bool) (a b : Str) (x : Char)
    (ha : ∀ c ∈ a, p c = true) (hx : p x = false) :
    (a ++ x :: b).takeWhile p = a ∧ (a ++ x :: b).dropWhile p = x :: b := by
  induction a with
  | nil => simp [hx]
  | cons c t ih =>
    have hc := ha c (by simp)
    have := ih (fun c' h' => ha c' (by simp [h']))
    simp [hc, this.1, this.2]

/-- the literal without its exponent part. -/
def noExp (l : Lit) : Lit := ⟨l.sign, l.ip, l.frac, none⟩

theorem noExp_wf (l : Lit) (hw : l.wf) : (noExp l).wf :=
  { sign := hw.sign, ip := hw.ip, frac := hw.frac, exp := trivial }

theorem noExp_text (l : Lit) : (noExp l).text = rawOf l := by
  simp [noExp, Lit.text, Lit.expText, Lit.fracText, rawOf]

theorem text_eq_raw (l : Lit) (m : Char) (s d : Str) (hexp : l.exp = some (m, s, d)) :
    l.text = rawOf l ++ m :: (s ++ d) := by
  obtain ⟨sign, ip, frac, exp⟩ := l
  simp only at hexp; subst hexp
  simp [Lit.text, Lit.expText, rawOf, Lit.fracText]

theorem raw_no_marker (l : Lit) (hw : l.wf) : ∀ c ∈ rawOf l, (!isExpMarker c) = true := by
  intro c hc
  rw [← noExp_text] at hc
  have h1 : 'e' ∉ (noExp l).text :=
    not_mem_text_noexp (by decide) (by decide) (by decide) (by decide) _ (noExp_wf l hw) rfl
  have h2 : 'E' ∉ (noExp l).text :=
    not_mem_text_noexp (by decide) (by decide) (by decide) (by decide) _ (noExp_wf l hw) rfl
  have hne : c ≠ 'e' := fun e => h1 (e ▸ hc)
  have hnE : c ≠ 'E' := fun e => h2 (e ▸ hc)
  simp [isExpMarker, hne, hnE]

theorem stripSign_text_fst (l : Lit) (hw : l.wf) : (stripSign l.text).1 = (l.sign == ['-']) := by
  have := decParts_text l hw
  unfold decParts at this
  -- `decPartsFrac`/`decPartsExp` copy their first argument into `Parts.neg`
  generalize (stripSign l.text).1 = b at this ⊢
  generalize List.takeWhile Char.isDigit (stripSign l.text).2 = ip' at this
  generalize List.dropWhile Char.isDigit (stripSign l.text).2 = r1 at this
  have key : ∀ (b : Bool) (ip' r1 : Str) (p : Parts), decPartsFrac b ip' r1 = some p → p.neg = b := by
    intro b ip' r1 p h
    have key2 : ∀ (fp r2 : Str), decPartsExp b ip' fp r2 = some p → p.neg = b := by
      intro fp r2 h2
      unfold decPartsExp at h2
      split at h2
      · exact absurd h2 (by simp)
      · split at h2
        · simp only [Option.some.injEq] at h2; rw [← h2]
        · split at h2
          · split at h2
            · exact absurd h2 (by simp)
            · simp only [Option.some.injEq] at h2; rw [← h2]
          · exact absurd h2 (by simp)
    unfold decPartsFrac at h
    split at h
    · exact key2 _ _ h
    · exact key2 _ _ h
  exact (key b ip' r1 _ this).symm

theorem classify_text (l : Lit) (hw : l.wf) :
    classify l.text = classifyMag (trimStartZeros (l.ip ++ l.frac.getD []))
      (l.toDec.exp) := by
  unfold classify
  rw [decParts_text l hw]
  obtain ⟨sign, ip, frac, exp⟩ := l
  cases exp with
  | none => simp [Parts.expVal, Lit.toDec]
  | some x => obtain ⟨m, s, d⟩ := x; simp [Parts.expVal, Lit.toDec]

theorem classifyMag_nil (e : Int) : classifyMag [] e = .zero := by simp [classifyMag]

/-- `format_number_jq_compat` on a literal with an exponent part dispatches to `formatExpLiteral`
with the mantissa text and the exponent text. -/
theorem formatNumberJqCompat_exp (cap : Nat) (preview : Bool) (l : Lit) (hw : l.wf) (m : Char) (s d : Str)
    (hexp : l.exp = some (m, s, d)) (hcls : classify l.text ≠ .err) :
    formatNumberJqCompatWith cap preview l.text
      = formatExpLiteral cap preview (classify l.text) (l.sign == ['-']) (rawOf l) (s ++ d) := by
  have he := hw.exp
  rw [hexp] at he
  simp only at he
  have hmk : (!isExpMarker m) = false := by rcases he.1 with h | h <;> subst h <;> decide
  have hsplit := takeWhile_append_stop (fun c => !isExpMarker c) (rawOf l) (s ++ d) m (raw_no_marker l hw) hmk
  have hcont : (l.text.contains 'e' || l.text.contains 'E') = true := by
    rw [text_eq_raw l m s d hexp]
    rcases he.1 with h | h <;> subst h <;> simp
  unfold formatNumberJqCompatWith
  simp only [hcont, Bool.not_true, Bool.false_eq_true, if_false]
  have hneg : isNegativeLit l.text = (l.sign == ['-']) := stripSign_text_fst l hw
  rw [hneg]
  rw [text_eq_raw l m s d hexp] at hcls ⊢
  rw [hsplit.1, hsplit.2]
  cases hc : classify (rawOf l ++ m :: (s ++ d)) with
  | err => exact absurd hc hcls
  | nan => rfl
  | inf => rfl
  | zero => rfl
  | fin => rfl


end SV.NumFmt
