/-
Proof/EliasFano — helper lemmas for property C03 (Elias–Fano sequences).
Part 1: bit access on word lists, the sorted-positions lemma, the high-bits encoding invariant.
-/
import SuccinctlyVerif.Spec.Bits
import SuccinctlyVerif.Spec.EliasFano
import SuccinctlyVerif.Model.EliasFano
import SuccinctlyVerif.Proof.Scan
import SuccinctlyVerif.Proof.Kernels
namespace SV.EF
open SV SV.Scan

/-! ### bit access on word lists -/

/-- Bit `q` of a word vector (false outside). -/
def getBit (ws : List (BitVec 64)) (q : Nat) : Bool := (ws.getD (q / 64) 0).getLsbD (q % 64)

theorem wordBits_getElem?_lt (w : BitVec 64) (q : Nat) (h : q < 64) :
    (wordBits w)[q]? = some (w.getLsbD q) := by
  simp [wordBits, h]

theorem allBits_getElem? (ws : List (BitVec 64)) (q : Nat) :
    (allBits ws)[q]? = if q < 64 * ws.length then some (getBit ws q) else none := by
  induction ws generalizing q with
  | nil => simp [allBits]
  | cons w ws ih =>
    rw [allBits_cons, List.getElem?_append, wordBits_length]
    by_cases hq : q < 64
    · have h1 : q / 64 = 0 := by omega
      have h2 : q % 64 = q := by omega
      have h3 : q < 64 * (w :: ws).length := by simp; omega
      rw [if_pos hq, if_pos h3, wordBits_getElem?_lt w q hq]
      simp [getBit, h1, h2]
    · rw [if_neg hq, ih]
      have h1 : q / 64 = (q - 64) / 64 + 1 := by omega
      have h2 : q % 64 = (q - 64) % 64 := by omega
      have h3 : (q - 64 < 64 * ws.length) ↔ (q < 64 * (w :: ws).length) := by simp; omega
      by_cases h : q - 64 < 64 * ws.length
      · rw [if_pos h, if_pos (h3.mp h)]
        simp [getBit, h1, h2]
      · rw [if_neg h, if_neg (fun h' => h (h3.mpr h'))]

theorem getBit_of_ge (ws : List (BitVec 64)) (q : Nat) (h : 64 * ws.length ≤ q) : getBit ws q = false := by
  have : ws.length ≤ q / 64 := by omega
  simp [getBit, List.getD_eq_getElem?_getD, List.getElem?_eq_none this]

theorem orAt_spec {ws ws' : List (BitVec 64)} {i : Nat} {x : BitVec 64} (h : orAt ws i x = some ws') :
    i < ws.length ∧ ws'.length = ws.length ∧
    ∀ q, getBit ws' q = (getBit ws q || (decide (q / 64 = i) && x.getLsbD (q % 64))) := by
  unfold orAt at h
  split at h
  · rename_i hi
    simp only [Option.some.injEq] at h
    subst h
    refine ⟨hi, by simp, fun q => ?_⟩
    simp only [getBit, List.getD_eq_getElem?_getD, List.getElem?_set]
    by_cases hq : i = q / 64
    · subst hq
      simp [hi, BitVec.getLsbD_or]
    · have : ¬ q / 64 = i := fun h => hq h.symm
      simp [hq, this]
  · simp at h

theorem orAt_isSome {ws : List (BitVec 64)} {i : Nat} (x : BitVec 64) (h : i < ws.length) :
    ∃ ws', orAt ws i x = some ws' := by
  simp [orAt, h]

theorem getBit_replicate_zero (n q : Nat) : getBit (List.replicate n (0 : BitVec 64)) q = false := by
  simp only [getBit, List.getD_eq_getElem?_getD, List.getElem?_replicate]
  split <;> simp

/-! ### a bit list whose set positions are a strictly increasing list -/

theorem selectB_of_positions (H : List Bool) (ps : List Nat) (off : Nat)
    (hps : ps.Pairwise (· < ·))
    (hH : ∀ q, q < H.length → (H[q]? = some true ↔ (q + off) ∈ ps))
    (hb : ∀ p ∈ ps, off ≤ p ∧ p < off + H.length) (k : Nat) :
    selectB true H k = (ps[k]?).map (· - off) := by
  induction H generalizing ps off k with
  | nil =>
    cases ps with
    | nil => simp [selectB]
    | cons p ps => have := hb p (by simp); simp at this; omega
  | cons x xs ih =>
    by_cases hx : x = true
    · subst hx
      have h0 : off ∈ ps := by
        have := (hH 0 (by simp)).mp (by simp)
        simpa using this
      cases ps with
      | nil => simp at h0
      | cons p ps' =>
        have hp := hb p (by simp)
        have hpoff : p = off := by
          rcases List.mem_cons.mp h0 with h | h
          · exact h.symm
          · have := (List.pairwise_cons.mp hps).1 off h
            omega
        subst hpoff
        have hps' := (List.pairwise_cons.mp hps)
        cases k with
        | zero => simp [selectB]
        | succ k =>
          simp only [selectB, if_true, List.getElem?_cons_succ]
          rw [ih ps' (p + 1) hps'.2]
          · cases hk : ps'[k]? with
            | none => simp
            | some v =>
              have hv : v ∈ ps' := List.mem_of_getElem? hk
              have := hps'.1 v hv
              simp; omega
          · intro q hq
            have := hH (q + 1) (by simp; omega)
            simp only [List.getElem?_cons_succ] at this
            rw [this, show q + 1 + p = q + (p + 1) by omega]
            constructor
            · intro h
              rcases List.mem_cons.mp h with h | h
              · omega
              · exact h
            · intro h; exact List.mem_cons_of_mem _ h
          · intro v hv
            have h1 := hps'.1 v hv
            have h2 := hb v (List.mem_cons_of_mem _ hv)
            simp only [List.length_cons] at h2
            omega
    · have hx' : x = false := by cases x <;> simp_all
      subst hx'
      have h0 : off ∉ ps := by
        intro h
        have := (hH 0 (by simp)).mpr (by simpa using h)
        simp at this
      simp only [selectB, Bool.false_eq_true, if_false]
      rw [ih ps (off + 1) hps]
      · cases hk : ps[k]? with
        | none => simp
        | some v =>
          have hv : v ∈ ps := List.mem_of_getElem? hk
          have := hb v hv
          have : v ≠ off := fun h => h0 (h ▸ hv)
          simp; omega
      · intro q hq
        have := hH (q + 1) (by simp; omega)
        simp only [List.getElem?_cons_succ] at this
        rw [this, show q + 1 + off = q + (off + 1) by omega]
      · intro v hv
        have h2 := hb v hv
        have : v ≠ off := fun h => h0 (h ▸ hv)
        simp only [List.length_cons] at h2
        omega

/-! ### the high bits written by `build` -/

/-- Positions of the one bits: element `j` (global index `i + j`) sits at `(v >>> w) + (i + j)`. -/
def posList (w : Nat) : List Nat → Nat → List Nat
  | [], _ => []
  | v :: rest, i => ((v >>> w) + i) :: posList w rest (i + 1)

theorem posList_length (w : Nat) (vs : List Nat) (i : Nat) : (posList w vs i).length = vs.length := by
  induction vs generalizing i with
  | nil => rfl
  | cons v vs ih => simp [posList, ih]

theorem getElem?_posList (w : Nat) (vs : List Nat) (i j : Nat) :
    (posList w vs i)[j]? = vs[j]?.map (fun v => (v >>> w) + (i + j)) := by
  induction vs generalizing i j with
  | nil => simp [posList]
  | cons v vs ih =>
    cases j with
    | zero => simp [posList]
    | succ j => simp only [posList, List.getElem?_cons_succ, ih]; congr; funext v; omega

theorem mem_posList {w : Nat} {vs : List Nat} {i p : Nat} (h : p ∈ posList w vs i) :
    ∃ j v, vs[j]? = some v ∧ p = (v >>> w) + (i + j) := by
  obtain ⟨j, hj⟩ := List.getElem?_of_mem h
  rw [getElem?_posList] at hj
  cases hv : vs[j]? with
  | none => simp [hv] at hj
  | some v => simp [hv] at hj; exact ⟨j, v, hv, hj.symm⟩

/-- The high-bits half of the encode loop (proof-only factorisation of `encodeLoop`). -/
def highLoop (w : Nat) : List Nat → Nat → List (BitVec 64) → Res (List (BitVec 64))
  | [], _, high => some high
  | value :: rest, i, high =>
    let highPos := ((BitVec.ofNat 64 value) >>> w).toNat + i
    match orAt high (highPos / 64) (1#64 <<< (highPos % 64)) with
    | none => none
    | some high => highLoop w rest (i + 1) high

/-- The low-bits half of the encode loop. -/
def lowLoop (w : Nat) (m : BitVec 64) : List Nat → Nat → List (BitVec 64) → Res (List (BitVec 64))
  | [], _, low => some low
  | value :: rest, i, low =>
    match encodeLow w m (BitVec.ofNat 64 value) i low with
    | none => none
    | some low => lowLoop w m rest (i + 1) low

theorem encodeLoop_split (w : Nat) (m : BitVec 64) (vs : List Nat) (i : Nat) (low high : List (BitVec 64)) :
    encodeLoop w m vs i low high =
      match lowLoop w m vs i low, highLoop w vs i high with
      | some l, some h => some (l, h)
      | _, _ => none := by
  induction vs generalizing i low high with
  | nil => simp [encodeLoop, lowLoop, highLoop]
  | cons v vs ih =>
    simp only [encodeLoop, lowLoop, highLoop]
    cases h1 : encodeLow w m (BitVec.ofNat 64 v) i low with
    | none => simp
    | some low' =>
      simp only
      generalize orAt high _ _ = r
      cases r with
      | none =>
        simp only
        cases lowLoop w m vs (i + 1) low' <;> rfl
      | some high' => simp only [ih]

theorem getLsbD_one_shiftLeft (s t : Nat) (_hs : s < 64) (ht : t < 64) :
    (1#64 <<< s).getLsbD t = decide (t = s) := by
  rw [Bool.eq_iff_iff]
  simp only [BitVec.getLsbD_shiftLeft, BitVec.getLsbD_one, Bool.and_eq_true, decide_eq_true_eq,
    Bool.not_eq_true', decide_eq_false_iff_not]
  omega

theorem highLoop_spec (w : Nat) (vs : List Nat) (i : Nat) (high : List (BitVec 64))
    (hv : ∀ v ∈ vs, v < 2 ^ 64) (hb : ∀ p ∈ posList w vs i, p < 64 * high.length) :
    ∃ high', highLoop w vs i high = some high' ∧ high'.length = high.length ∧
      ∀ q, getBit high' q = (getBit high q || decide (q ∈ posList w vs i)) := by
  induction vs generalizing i high with
  | nil => exact ⟨high, rfl, rfl, by simp [posList]⟩
  | cons v vs ih =>
    have hvv : v < 2 ^ 64 := hv v (by simp)
    have hpos : ((BitVec.ofNat 64 v) >>> w).toNat + i = (v >>> w) + i := by
      simp [BitVec.toNat_ushiftRight, Nat.mod_eq_of_lt hvv]
    have hp : (v >>> w) + i < 64 * high.length := hb _ (by simp [posList])
    simp only [highLoop, hpos]
    obtain ⟨h1, hh1⟩ := orAt_isSome (ws := high) (i := ((v >>> w) + i) / 64)
      (1#64 <<< (((v >>> w) + i) % 64)) (by omega)
    rw [hh1]
    obtain ⟨_, hlen, hbit⟩ := orAt_spec hh1
    obtain ⟨high', e, hl', hb'⟩ := ih (i + 1) h1 (fun x hx => hv x (List.mem_cons_of_mem _ hx))
      (by intro p hp'; rw [hlen]; exact hb p (by simp [posList, hp']))
    refine ⟨high', e, by omega, fun q => ?_⟩
    rw [hb', hbit]
    simp only [posList, List.mem_cons]
    by_cases hq : q / 64 = ((v >>> w) + i) / 64
    · rw [getLsbD_one_shiftLeft _ _ (Nat.mod_lt _ (by omega)) (Nat.mod_lt _ (by omega))]
      have : (q % 64 = ((v >>> w) + i) % 64) ↔ q = (v >>> w) + i := by omega
      simp only [hq, decide_true, Bool.true_and, this]
      by_cases hq2 : q = (v >>> w) + i <;> simp [hq2]
    · have : q ≠ (v >>> w) + i := fun h => hq (by rw [h])
      simp [hq, this]

/-- Strictly increasing positions for a non-decreasing sequence. -/
theorem posList_pairwise (w : Nat) (vs : List Nat) (i : Nat) (hs : EFSpec.Sorted vs) :
    (posList w vs i).Pairwise (· < ·) := by
  rw [List.pairwise_iff_getElem]
  intro a b ha hb hab
  rw [posList_length] at ha hb
  have h1 := getElem?_posList w vs i a
  have h2 := getElem?_posList w vs i b
  rw [List.getElem?_eq_getElem (by rw [posList_length]; exact ha), List.getElem?_eq_getElem ha] at h1
  rw [List.getElem?_eq_getElem (by rw [posList_length]; exact hb), List.getElem?_eq_getElem hb] at h2
  simp only [Option.map_some, Option.some.injEq] at h1 h2
  rw [h1, h2]
  have hle : vs[a] ≤ vs[b] := (List.pairwise_iff_getElem.mp hs) a b ha hb hab
  have : vs[a] >>> w ≤ vs[b] >>> w := by
    rw [Nat.shiftRight_eq_div_pow, Nat.shiftRight_eq_div_pow]
    exact Nat.div_le_div_right hle
  omega

end SV.EF
