/-
Proof/EliasFano — helper lemmas for property C03 (Elias–Fano sequences).
-/
import SuccinctlyVerif.Spec.Bits
import SuccinctlyVerif.Spec.EliasFano
import SuccinctlyVerif.Model.EliasFano
import SuccinctlyVerif.Proof.Scan
namespace SV.EF
open SV

theorem build_len (R : Nat) (vs : List Nat) (ef : EliasFano) (h : build R vs = some ef) :
    ef.len = vs.length := by
  unfold build at h
  split at h
  · rename_i he
    simp only [Option.some.injEq] at h
    subst h
    simp_all
  · dsimp only at h
    split at h
    · simp at h
    · simp only [Option.some.injEq] at h
      subst h; rfl

end SV.EF
