/-
Proof/BPSelect — `select0` (binary search over `rank0`) = position of the k-th close; `total_ones`
is the number of opens among the first `len` bits (C04).
-/
import SuccinctlyVerif.Proof.BPNavEq
namespace SV.BPR
open SV SV.BP SV.BPM SV.BPP

/-! ### selectB and rankB -/

theorem rankB_succ (b : Bool) (x : Bool) (xs : List Bool) (q : Nat) :
    rankB b (x :: xs) (q + 1) = (if x = b then 1 else 0) + rankB b xs q := by
  unfold rankB
  rw [List.take_succ_cons, List.count_cons]
  by_cases h : x = b
  · simp [h]; omega
  · have : (x == b) = false := by simpa using h
    simp [h, this]

theorem selectB_of_rank (b : Bool) (bs : List Bool) (q k : Nat) (hq : bs[q]? = some b) (hr : rankB b bs q = k) :
    selectB b bs k = some q := by
  induction bs generalizing q k with
  | nil => simp at hq
  | cons x xs ih =>
    cases q with
    | zero =>
      simp only [List.getElem?_cons_zero, Option.some.injEq] at hq
      have : k = 0 := by simpa [rankB] using hr.symm
      subst this; subst hq
      simp [selectB]
    | succ q =>
      rw [List.getElem?_cons_succ] at hq
      rw [rankB_succ] at hr
      unfold selectB
      by_cases hx : x = b
      · simp only [hx, if_true] at hr ⊢
        cases k with
        | zero => omega
        | succ k =>
          simp only
          rw [ih q k hq (by omega)]; rfl
      · simp only [hx, if_false] at hr ⊢
        rw [ih q k hq (by omega)]; rfl

theorem selectB_none (b : Bool) (bs : List Bool) (k : Nat) (h : bs.count b ≤ k) : selectB b bs k = none := by
  induction bs generalizing k with
  | nil => rfl
  | cons x xs ih =>
    unfold selectB
    rw [List.count_cons] at h
    by_cases hx : x = b
    · have hb : (x == b) = true := by simpa using hx
      simp only [hb, if_true] at h
      simp only [hx, if_true]
      cases k with
      | zero => omega
      | succ k => simp only; rw [ih k (by omega)]; rfl
    · have hb : (x == b) = false := by simpa using hx
      simp only [hb] at h
      simp only [hx, if_false]
      rw [ih k (by simpa using h)]; rfl

theorem rankB_mono (b : Bool) (bs : List Bool) (i j : Nat) (h : i ≤ j) : rankB b bs i ≤ rankB b bs j := by
  unfold rankB
  have : bs.take i = (bs.take j).take i := by rw [List.take_take, Nat.min_eq_left h]
  rw [this]
  exact List.Sublist.count_le b (List.take_sublist _ _)

theorem rankB_step (b : Bool) (bs : List Bool) (q : Nat) :
    rankB b bs (q + 1) = rankB b bs q + (if bs[q]? = some b then 1 else 0) := by
  induction bs generalizing q with
  | nil => simp [rankB]
  | cons x xs ih =>
    cases q with
    | zero =>
      unfold rankB
      simp only [List.take_succ_cons, List.take_zero, List.count_cons, List.count_nil, List.getElem?_cons_zero,
        Option.some.injEq]
      by_cases hx : x = b
      · simp [hx]
      · have : (x == b) = false := by simpa using hx
        simp [hx, this]
    | succ q =>
      rw [rankB_succ, rankB_succ, ih q, List.getElem?_cons_succ]
      omega

/-! ### the binary search -/

theorem select0Loop_spec (I : BP) (bits : List Bool) (k : Nat) (hr : ∀ p, I.rank0 p = rankB false bits p)
    (f lo hi : Nat) (hf : hi - lo < f) (hlohi : lo ≤ hi)
    (hlo : ∀ m, m < lo → rankB false bits (m + 1) ≤ k)
    (hhi : rankB false bits (hi + 1) > k ∨ hi = bits.length)
    (hex : rankB false bits bits.length > k) (hhl : hi ≤ bits.length) :
    let q := select0Loop I k f lo hi
    q < bits.length ∧ rankB false bits (q + 1) > k ∧ ∀ m, m < q → rankB false bits (m + 1) ≤ k := by
  induction f generalizing lo hi with
  | zero => omega
  | succ f ih =>
    unfold select0Loop
    by_cases hlt : lo < hi
    · simp only [hlt, if_true]
      by_cases hc : I.rank0 (lo + (hi - lo) / 2 + 1) > k
      · simp only [hc, if_true]
        rw [hr] at hc
        exact ih lo (lo + (hi - lo) / 2) (by omega) (by omega) hlo (Or.inl hc) (by omega)
      · simp only [hc, if_false]
        rw [hr] at hc
        refine ih (lo + (hi - lo) / 2 + 1) hi (by omega) (by omega) ?_ hhi hhl
        intro m hm
        have := rankB_mono false bits (m + 1) (lo + (hi - lo) / 2 + 1) (by omega)
        omega
    · simp only [hlt, if_false]
      have heq : lo = hi := by omega
      subst heq
      rcases hhi with h | h
      · refine ⟨?_, h, hlo⟩
        -- lo < length: otherwise rank(lo+1) = rank(length) and all m < length fail
        by_cases hl : lo < bits.length
        · exact hl
        · have : lo = bits.length := by omega
          subst this
          exact absurd h (by
            have h1 : rankB false bits (bits.length + 1) = rankB false bits bits.length := by
              unfold rankB; rw [List.take_of_length_le (by omega), List.take_of_length_le (by omega)]
            intro hh; rw [h1] at hh
            cases hb : bits.length with
            | zero => simp [rankB, hb] at hex
            | succ n => have := hlo n (by omega); rw [← hb] at this; omega)
      · subst h
        exfalso
        cases hb : bits.length with
        | zero => simp [rankB, hb] at hex
        | succ n => have := hlo n (by omega); rw [← hb] at this; omega

end SV.BPR
