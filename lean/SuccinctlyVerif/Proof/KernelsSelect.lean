/-
Proof/KernelsSelect — `select_in_word_broadword` and `select_in_word_pdep` against the bit-list
select (C02).  `bv_decide` is used for the per-byte facts about the translated SWAR block and for
small word identities; each use adds a `*_native.bv_decide.ax_*` axiom listed by the audit.
-/
import Std.Tactic.BVDecide
import SuccinctlyVerif.Proof.KernelsBlock
namespace SV.Kernels
open SV SV.KList
attribute [local simp] SV.Kernels.wordBits_length

/-- Byte `i` of a word (little endian). -/
def byteAt (x : BitVec 64) (i : Nat) : BitVec 8 := (x >>> (i * 8)).setWidth 8

theorem byteBits_length (b : BitVec 8) : (byteBits b).length = 8 := by simp [byteBits]

theorem byteBits_getElem? (b : BitVec 8) (j : Nat) :
    (byteBits b)[j]? = if j < 8 then some (b.getLsbD j) else none := by
  unfold byteBits
  rw [List.getElem?_map]
  by_cases h : j < 8
  · simp [h]
  · simp [h]

/-- The bit list from bit `8i` on starts with the bits of byte `i`. -/
theorem wordBits_drop_byte (x : BitVec 64) (i : Nat) (hi : i < 8) :
    (wordBits x).drop (8 * i) = byteBits (byteAt x i) ++ (wordBits x).drop (8 * (i + 1)) := by
  apply List.ext_getElem?; intro j
  rw [List.getElem?_drop, wordBits_getElem?]
  by_cases hj : j < 8
  · rw [List.getElem?_append_left (by rw [byteBits_length]; exact hj), byteBits_getElem?, if_pos hj,
      if_pos (by omega)]
    unfold byteAt
    rw [BitVec.getLsbD_setWidth, BitVec.getLsbD_ushiftRight]
    simp [hj, Nat.mul_comm]
  · rw [List.getElem?_append_right (by rw [byteBits_length]; omega), byteBits_length,
      List.getElem?_drop, wordBits_getElem?]
    rw [show 8 * (i + 1) + (j - 8) = 8 * i + j by omega]

theorem wordBits_take_byte (x : BitVec 64) (i : Nat) (hi : i < 8) :
    (wordBits x).take (8 * (i + 1)) = (wordBits x).take (8 * i) ++ byteBits (byteAt x i) := by
  rw [show 8 * (i + 1) = 8 * i + 8 by omega, List.take_add, wordBits_drop_byte x i hi,
    List.take_left' (byteBits_length _)]

theorem selectInByteSpec_of_some (b : BitVec 8) (k q : Nat) (h : selectB true (byteBits b) k = some q) :
    selectInByteSpec b k = q := by
  unfold selectInByteSpec; rw [h]; rfl

/-- Abstract form of the byte-finding loop of `select_in_word_broadword`. -/
theorem bwFindByte_spec (x : BitVec 64) (bc : BitVec 64) (k : Nat)
    (hbc : ∀ i, i < 8 → ((bc >>> (i * 8)) &&& 0xFF#64).toNat = bytePop (byteAt x i))
    (fuel i cum : Nat) (hfi : i + fuel = 8)
    (hcum : cum = ((wordBits x).take (8 * i)).count true) (hle : cum ≤ k) (hk : k < popcount x) :
    selectB true (wordBits x) k =
      some ((bwFindByte bc k fuel i cum).1 * 8
        + selectInByteSpec (byteAt x (bwFindByte bc k fuel i cum).1) (k - (bwFindByte bc k fuel i cum).2)) := by
  induction fuel generalizing i cum with
  | zero =>
    have : i = 8 := by omega
    subst this
    rw [List.take_of_length_le (by simp)] at hcum
    unfold popcount at hk; omega
  | succ fuel ih =>
    have hi : i < 8 := by omega
    unfold bwFindByte
    simp only [hbc i hi]
    by_cases hgt : cum + bytePop (byteAt x i) > k
    · rw [if_pos hgt]
      simp only []
      have hsplit : wordBits x = (wordBits x).take (8 * i) ++ (wordBits x).drop (8 * i) :=
        (List.take_append_drop _ _).symm
      rw [hsplit, selectB_append_right _ _ _ (by rw [← hcum]; exact hle), ← hcum,
        wordBits_drop_byte x i hi]
      have hlt : k - cum < (byteBits (byteAt x i)).count true := by unfold bytePop at hgt; omega
      rw [selectB_append_left _ _ _ hlt]
      obtain ⟨q, hq, _⟩ := selectB_isSome_of_lt_count _ _ hlt
      rw [hq, selectInByteSpec_of_some _ _ _ hq]
      simp only [Option.map_some, List.length_take, wordBits_length]
      congr 1; omega
    · rw [if_neg hgt]
      apply ih (i + 1) (cum + bytePop (byteAt x i)) (by omega)
      · rw [wordBits_take_byte x i hi, List.count_append, ← hcum]; rfl
      · omega

/-! ### the SWAR byte-count block (translated from source): byte `i` of the result is the
population count of byte `i` of the word -/

theorem bc_byte0 (x : BitVec 64) :
    ((Gen.broadword_byte_counts x >>> (0 * 8)) &&& 0xFF#64) = (((x >>> (0 * 8)).setWidth 8).cpop).setWidth 64 := by
  unfold Gen.broadword_byte_counts
  bv_decide (timeout := 300)

theorem bc_byte1 (x : BitVec 64) :
    ((Gen.broadword_byte_counts x >>> (1 * 8)) &&& 0xFF#64) = (((x >>> (1 * 8)).setWidth 8).cpop).setWidth 64 := by
  unfold Gen.broadword_byte_counts
  bv_decide (timeout := 300)

theorem bc_byte2 (x : BitVec 64) :
    ((Gen.broadword_byte_counts x >>> (2 * 8)) &&& 0xFF#64) = (((x >>> (2 * 8)).setWidth 8).cpop).setWidth 64 := by
  unfold Gen.broadword_byte_counts
  bv_decide (timeout := 300)

theorem bc_byte3 (x : BitVec 64) :
    ((Gen.broadword_byte_counts x >>> (3 * 8)) &&& 0xFF#64) = (((x >>> (3 * 8)).setWidth 8).cpop).setWidth 64 := by
  unfold Gen.broadword_byte_counts
  bv_decide (timeout := 300)

theorem bc_byte4 (x : BitVec 64) :
    ((Gen.broadword_byte_counts x >>> (4 * 8)) &&& 0xFF#64) = (((x >>> (4 * 8)).setWidth 8).cpop).setWidth 64 := by
  unfold Gen.broadword_byte_counts
  bv_decide (timeout := 300)

theorem bc_byte5 (x : BitVec 64) :
    ((Gen.broadword_byte_counts x >>> (5 * 8)) &&& 0xFF#64) = (((x >>> (5 * 8)).setWidth 8).cpop).setWidth 64 := by
  unfold Gen.broadword_byte_counts
  bv_decide (timeout := 300)

theorem bc_byte6 (x : BitVec 64) :
    ((Gen.broadword_byte_counts x >>> (6 * 8)) &&& 0xFF#64) = (((x >>> (6 * 8)).setWidth 8).cpop).setWidth 64 := by
  unfold Gen.broadword_byte_counts
  bv_decide (timeout := 300)

theorem bc_byte7 (x : BitVec 64) :
    ((Gen.broadword_byte_counts x >>> (7 * 8)) &&& 0xFF#64) = (((x >>> (7 * 8)).setWidth 8).cpop).setWidth 64 := by
  unfold Gen.broadword_byte_counts
  bv_decide (timeout := 300)

theorem cpopNatRec_eq_count' {w : Nat} (x : BitVec w) (n : Nat) :
    x.cpopNatRec n 0 = ((List.range n).map fun i => x.getLsbD i).count true := by
  induction n with
  | zero => simp
  | succ n ih =>
    rw [BitVec.cpopNatRec_succ, BitVec.cpopNatRec_eq, ih, List.range_succ, List.map_append, List.count_append]
    cases h : x.getLsbD n <;> simp [h]

theorem cpop8_toNat (b : BitVec 8) : b.cpop.toNat = bytePop b := by
  have hle : b.cpopNatRec 8 0 ≤ 8 := by
    have := BitVec.cpopNatRec_le (x := b) (acc := 0) 8
    omega
  unfold BitVec.cpop bytePop byteBits
  rw [BitVec.toNat_ofNat, ← cpopNatRec_eq_count']
  omega

theorem broadword_byte_counts_eq (x : BitVec 64) (i : Nat) (hi : i < 8) :
    ((Gen.broadword_byte_counts x >>> (i * 8)) &&& 0xFF#64).toNat = bytePop (byteAt x i) := by
  have key : ((Gen.broadword_byte_counts x >>> (i * 8)) &&& 0xFF#64)
      = ((byteAt x i).cpop).setWidth 64 := by
    unfold byteAt
    match i, hi with
    | 0, _ => exact bc_byte0 x
    | 1, _ => exact bc_byte1 x
    | 2, _ => exact bc_byte2 x
    | 3, _ => exact bc_byte3 x
    | 4, _ => exact bc_byte4 x
    | 5, _ => exact bc_byte5 x
    | 6, _ => exact bc_byte6 x
    | 7, _ => exact bc_byte7 x
  rw [key, BitVec.toNat_setWidth, cpop8_toNat]
  have := bytePop_le (byteAt x i)
  omega

theorem target_byte_eq (y : BitVec 64) : (y &&& 0xFF#64).setWidth 8 = y.setWidth 8 := by
  bv_decide (timeout := 300)

theorem selectBroadword_eq (x : BitVec 64) (k : Nat) : selectBroadword x k = selectInWordSpec x k := by
  unfold selectBroadword
  by_cases hx : x = 0
  · subst hx; rw [if_pos rfl]; exact (selectInWordSpec_zero k).symm
  · rw [if_neg hx]
    simp only []
    by_cases hk : k ≥ popc x
    · rw [if_pos hk]
      unfold selectInWordSpec
      rw [selectB_none_of_count_le _ _ (by rw [popc_eq_popcount] at hk; exact hk)]; rfl
    · rw [if_neg hk]
      have hk' : k < popcount x := by rw [popc_eq_popcount] at hk; omega
      have hspec := bwFindByte_spec x (Gen.broadword_byte_counts x) k (broadword_byte_counts_eq x)
        8 0 0 rfl (by simp) (Nat.zero_le _) hk'
      unfold selectInWordSpec
      rw [hspec]
      rcases bwFindByte (Gen.broadword_byte_counts x) k 8 0 0 with ⟨bi, cum⟩
      simp only [Option.getD_some, target_byte_eq, selectInByteTable_eq]
      rfl

/-- The byte-finding loop of `select_in_word_broadword` always breaks (for `k < popcount`), with a
byte index below 8 and `cumulative ≤ k < cumulative + popcount(byte)`: the `u32` subtraction
`k - cumulative`, the shift `x >> byte_offset` and the table index are all in range. -/
theorem bwFindByte_in_range (x : BitVec 64) (bc : BitVec 64) (k : Nat)
    (hbc : ∀ i, i < 8 → ((bc >>> (i * 8)) &&& 0xFF#64).toNat = bytePop (byteAt x i))
    (fuel i cum : Nat) (hfi : i + fuel = 8)
    (hcum : cum = ((wordBits x).take (8 * i)).count true) (hle : cum ≤ k) (hk : k < popcount x) :
    (bwFindByte bc k fuel i cum).1 < 8 ∧ (bwFindByte bc k fuel i cum).2 ≤ k
      ∧ k - (bwFindByte bc k fuel i cum).2 < bytePop (byteAt x (bwFindByte bc k fuel i cum).1) := by
  induction fuel generalizing i cum with
  | zero =>
    have : i = 8 := by omega
    subst this
    rw [List.take_of_length_le (by simp)] at hcum
    unfold popcount at hk; omega
  | succ fuel ih =>
    have hi : i < 8 := by omega
    unfold bwFindByte
    simp only [hbc i hi]
    by_cases hgt : cum + bytePop (byteAt x i) > k
    · rw [if_pos hgt]
      exact ⟨hi, hle, by show k - cum < bytePop (byteAt x i); omega⟩
    · rw [if_neg hgt]
      apply ih (i + 1) (cum + bytePop (byteAt x i)) (by omega)
      · rw [wordBits_take_byte x i hi, List.count_append, ← hcum]; rfl
      · omega

theorem broadword_in_range (x : BitVec 64) (k : Nat) (hk : k < popc x) :
    (bwFindByte (Gen.broadword_byte_counts x) k 8 0 0).1 < 8
      ∧ (bwFindByte (Gen.broadword_byte_counts x) k 8 0 0).2 ≤ k
      ∧ k - (bwFindByte (Gen.broadword_byte_counts x) k 8 0 0).2 < 8 := by
  have h := bwFindByte_in_range x (Gen.broadword_byte_counts x) k (broadword_byte_counts_eq x)
    8 0 0 rfl (by simp) (Nat.zero_le _) (by rw [← popc_eq_popcount]; exact hk)
  have hb := bytePop_le (byteAt x (bwFindByte (Gen.broadword_byte_counts x) k 8 0 0).1)
  exact ⟨h.1, h.2.1, by omega⟩

end SV.Kernels
